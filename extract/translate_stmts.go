package main

// Statements of the translated subset.  The code after an `if` / `switch` is
// duplicated into every branch (continuation style), so assignments in a
// branch are plain `let`s that shadow; a `:=` in a nested block that shadows
// an outer variable is refused (its scope would end with the block).

import (
	"fmt"
	"go/ast"
	"go/token"
	"sort"
	"strconv"
	"strings"
)

type trCont func() (string, error)

func (c *trCtx) dropped(call *ast.CallExpr) bool {
	if c.effectOf(call) != nil {
		return false
	}
	// a modelled effect inside the ARGUMENTS of an ignored call (`util.LogError(self.metadata.remove(Lock), …)`)
	// must not disappear with it: such a call is not ignorable (→ extraction error where it stands)
	for _, a := range call.Args {
		if c.hasEffect(a) {
			return false
		}
	}
	if isLogCall(c.fset, call) {
		return true
	}
	t := exprText(c.fset, call.Fun)
	for _, d := range c.t.dropCalls {
		if strings.HasPrefix(t, d) {
			return true
		}
	}
	return false
}

// onlyEffects: the statements consist of ignorable effects (logging, listed calls) only
func (c *trCtx) onlyEffects(list []ast.Stmt) bool {
	for _, s := range list {
		switch x := s.(type) {
		case *ast.ExprStmt:
			call, ok := x.X.(*ast.CallExpr)
			if !ok || !c.dropped(call) {
				return false
			}
		case *ast.IfStmt:
			// `if err := effect(); err != nil { log }`  /  `if debug { log }`
			if x.Init != nil {
				as, ok := x.Init.(*ast.AssignStmt)
				if !ok || len(as.Rhs) != 1 {
					return false
				}
				call, ok := as.Rhs[0].(*ast.CallExpr)
				if !ok || !c.dropped(call) {
					return false
				}
			}
			if !c.onlyEffects(x.Body.List) {
				return false
			}
			if x.Else != nil {
				if b, ok := x.Else.(*ast.BlockStmt); !ok || !c.onlyEffects(b.List) {
					return false
				}
			}
		case *ast.EmptyStmt:
		default:
			return false
		}
	}
	return true
}

func (c *trCtx) declare(name string, t trTy, define bool) error {
	c.noteAssigned(name)
	if define {
		if d, ok := c.depth[name]; ok && d < c.cur {
			return trErr("`%s :=` in a nested block shadows an outer variable", name)
		}
		if _, ok := c.depth[name]; !ok {
			c.depth[name] = c.cur
		}
	} else if _, ok := c.vars[name]; !ok {
		return trErr("assignment to %s which is not a local variable", name)
	}
	if old, ok := c.vars[name]; ok && old != t && old != tyUnknown {
		return trErr("variable %s changes its type", name)
	}
	c.vars[name] = t
	return nil
}

// block: translate a nested block followed by the continuation; variables
// declared inside are forgotten afterwards.
func (c *trCtx) block(list []ast.Stmt, k trCont) (string, error) {
	savedVars := map[string]trTy{}
	for n, t := range c.vars {
		savedVars[n] = t
	}
	savedDepth := map[string]int{}
	for n, d := range c.depth {
		savedDepth[n] = d
	}
	// assignment counts are per path: what follows the block is translated inside its continuation; the
	// code translated after block() returns belongs to another branch
	savedCount := map[string]int{}
	for n, k := range c.assignCount {
		savedCount[n] = k
	}
	savedFrom := map[string]string{}
	for n, k := range c.opaqueFrom {
		savedFrom[n] = k
	}
	defer func() { c.assignCount, c.opaqueFrom = savedCount, savedFrom }()
	c.cur++
	inner := c.cur
	s, err := c.stmts(list, func() (string, error) {
		// leaving the block: its own declarations go out of scope
		for n, d := range c.depth {
			if d >= inner {
				delete(c.depth, n)
				delete(c.vars, n)
			}
		}
		c.cur = inner - 1
		r, e := k()
		c.cur = inner
		return r, e
	})
	c.cur = inner - 1
	c.vars, c.depth = savedVars, savedDepth
	return s, err
}

func (c *trCtx) stmts(list []ast.Stmt, k trCont) (string, error) {
	if len(list) == 0 {
		return k()
	}
	rest := func() (string, error) { return c.stmts(list[1:], k) }
	if c.droppedStmt(list[0]) {
		// a `dropStmts` entry drops the whole statement, body included: refused when a modelled effect is inside
		if c.hasEffect(list[0]) {
			return "", trErr("the ignored statement `%s` contains a modelled effect", firstLineOf(exprText(c.fset, list[0])))
		}
		return rest()
	}
	switch x := list[0].(type) {
	case *ast.EmptyStmt:
		return rest()
	case *ast.ReturnStmt:
		return c.ret(x)
	case *ast.BranchStmt:
		if x.Tok == token.BREAK && x.Label == nil && c.loopBreak != nil {
			return c.loopBreak()
		}
		return "", trErr("%s is outside the subset here", x.Tok)
	case *ast.BlockStmt:
		return c.block(x.List, rest)
	case *ast.ExprStmt:
		if call, ok := x.X.(*ast.CallExpr); ok && c.dropped(call) {
			return rest()
		}
		if call, ok := x.X.(*ast.CallExpr); ok {
			if eff := c.effectOf(call); eff != nil {
				app, err := c.appendEffect(eff, call)
				if err != nil {
					return "", err
				}
				r, err := rest()
				if err != nil {
					return "", err
				}
				return fmt.Sprintf("(let %s := %s; %s)", traceVar, app, r), nil
			}
		}
		return "", trErr("statement %s has an effect that is not in the ignore list", exprText(c.fset, x))
	case *ast.IncDecStmt:
		id, ok := x.X.(*ast.Ident)
		if !ok || c.vars[id.Name] != tyInt {
			return "", trErr("%s", exprText(c.fset, x))
		}
		c.noteAssigned(id.Name)
		op := "+"
		if x.Tok == token.DEC {
			op = "-"
		}
		r, err := rest()
		if err != nil {
			return "", err
		}
		n := leanIdent(id.Name)
		return fmt.Sprintf("(let %s := (%s %s (1 : Int)); %s)", n, n, op, r), nil
	case *ast.DeclStmt:
		gd, ok := x.Decl.(*ast.GenDecl)
		if !ok || gd.Tok != token.VAR {
			return "", trErr("declaration %s", exprText(c.fset, x))
		}
		out := ""
		closers := 0
		for _, sp := range gd.Specs {
			vs := sp.(*ast.ValueSpec)
			if len(vs.Values) != 0 {
				return "", trErr("var with initialiser: %s", exprText(c.fset, x))
			}
			t, zero := goTypeOf(exprText(c.fset, vs.Type), c)
			if t == tyUnknown {
				return "", trErr("var of type %s", exprText(c.fset, vs.Type))
			}
			for _, n := range vs.Names {
				if err := c.declare(n.Name, t, true); err != nil {
					return "", err
				}
				out += fmt.Sprintf("(let %s := %s; ", leanIdent(n.Name), zero)
				closers++
			}
		}
		r, err := rest()
		if err != nil {
			return "", err
		}
		return out + r + strings.Repeat(")", closers), nil
	case *ast.AssignStmt:
		if s, done, err := c.effectAssign(x, rest); done {
			return s, err
		}
		if len(x.Lhs) != 1 || len(x.Rhs) != 1 {
			return "", trErr("multiple assignment %s", exprText(c.fset, x))
		}
		id, ok := x.Lhs[0].(*ast.Ident)
		if sp := c.stateParam(x.Lhs[0]); sp != nil && x.Tok != token.DEFINE {
			// a receiver field the target declares as state: a variable of the term
			id, ok = &ast.Ident{Name: sp.lean}, true
		}
		if !ok {
			return "", trErr("assignment to %s", exprText(c.fset, x.Lhs[0]))
		}
		var rhs ast.Expr = x.Rhs[0]
		switch x.Tok {
		case token.ASSIGN, token.DEFINE:
		case token.ADD_ASSIGN, token.SUB_ASSIGN, token.MUL_ASSIGN, token.QUO_ASSIGN, token.REM_ASSIGN:
			op := map[token.Token]token.Token{token.ADD_ASSIGN: token.ADD, token.SUB_ASSIGN: token.SUB, token.MUL_ASSIGN: token.MUL,
				token.QUO_ASSIGN: token.QUO, token.REM_ASSIGN: token.REM}[x.Tok]
			rhs = &ast.BinaryExpr{X: id, Op: op, Y: x.Rhs[0]}
		default:
			return "", trErr("assignment operator in %s", exprText(c.fset, x))
		}
		want := c.vars[id.Name]
		s, t, err := c.expr(rhs, want)
		if err != nil {
			return "", err
		}
		if id.Name == "_" {
			return rest()
		}
		if err := c.declare(id.Name, t, x.Tok == token.DEFINE); err != nil {
			return "", err
		}
		r, err := rest()
		if err != nil {
			return "", err
		}
		return fmt.Sprintf("(let %s := %s; %s)", leanIdent(id.Name), s, r), nil
	case *ast.IfStmt:
		if c.onlyEffects([]ast.Stmt{x}) {
			return rest()
		}
		if x.Init != nil {
			// `if v := e; cond {…}`: v is scoped to the statement
			return c.block([]ast.Stmt{x.Init, &ast.IfStmt{Cond: x.Cond, Body: x.Body, Else: x.Else}}, rest)
		}
		if x.If != token.Pos(-1) && !hasReturn(x) {
			// no branch leaves the function: the statement only updates local variables, which are
			// joined after it (instead of duplicating the rest of the function into every branch)
			if vs, err := c.assigned([]ast.Stmt{x}); err == nil && len(vs) > 0 {
				return c.joined(vs, func(k trCont) (string, error) {
					return c.stmts([]ast.Stmt{&ast.IfStmt{Cond: x.Cond, Body: x.Body, Else: x.Else, If: token.Pos(-1)}}, k)
				}, rest)
			}
		}
		cond, _, err := c.expr(x.Cond, tyBool)
		if err != nil {
			return "", err
		}
		a, err := c.block(x.Body.List, rest)
		if err != nil {
			return "", err
		}
		var b string
		switch e := x.Else.(type) {
		case nil:
			b, err = rest()
		case *ast.BlockStmt:
			b, err = c.block(e.List, rest)
		case *ast.IfStmt:
			b, err = c.block([]ast.Stmt{e}, rest)
		default:
			err = trErr("else branch %T", e)
		}
		if err != nil {
			return "", err
		}
		if a == b {
			return a, nil // e.g. a branch that only contained ignored effects
		}
		return fmt.Sprintf("(if %s then %s else %s)", cond, a, b), nil
	case *ast.SwitchStmt:
		return c.switchStmt(x, rest)
	case *ast.RangeStmt:
		return c.rangeStmt(x, rest)
	case *ast.ForStmt:
		return c.forStmt(x, rest)
	}
	return "", trErr("statement %T is outside the subset: %s", list[0], firstLineOf(exprText(c.fset, list[0])))
}

func firstLineOf(s string) string {
	if len(s) > 80 {
		return s[:80] + "…"
	}
	return s
}

func (c *trCtx) ret(x *ast.ReturnStmt) (string, error) {
	if c.t.from != "" {
		return "", trErr("return inside a fragment")
	}
	if c.t.void {
		if len(x.Results) != 0 || c.loopRet != nil {
			return "", trErr("return in a function declared void")
		}
		return c.voidTuple()
	}
	if len(x.Results) == 0 {
		return "", trErr("return without a value")
	}
	var parts []string
	for _, r := range x.Results {
		if c.t.resTy == tyErr {
			s, err := c.errValue(r)
			if err != nil {
				return "", err
			}
			parts = append(parts, s)
			continue
		}
		s, _, err := c.expr(r, c.t.resTy)
		if err != nil {
			return "", err
		}
		parts = append(parts, s)
	}
	val := parts[0]
	if len(parts) > 1 {
		val = "(" + strings.Join(parts, ", ") + ")"
	}
	if c.t.traceTy != "" {
		if c.loopRet != nil {
			return "", trErr("return from inside a loop in a target with a trace")
		}
		val = "(" + traceVar + ", " + val + ")"
	}
	if c.loopRet != nil {
		return c.loopRet(val), nil
	}
	return val, nil
}

// errValue: `nil` / `fmt.Errorf("literal")` / `errors.New("literal")` as Option String
func (c *trCtx) errValue(e ast.Expr) (string, error) {
	if id, ok := e.(*ast.Ident); ok && id.Name == "nil" {
		return "(none : Option String)", nil
	}
	if call, ok := e.(*ast.CallExpr); ok && len(call.Args) == 1 {
		fn := exprText(c.fset, call.Fun)
		if lit, ok := call.Args[0].(*ast.BasicLit); ok && lit.Kind == token.STRING && (fn == "fmt.Errorf" || fn == "errors.New") {
			s, err := strconv.Unquote(lit.Value)
			if err == nil {
				return "(some " + strconv.Quote(s) + ")", nil
			}
		}
	}
	if s, ok := c.errComposite(e); ok {
		return s, nil
	}
	return "", trErr("error value %s is outside the subset", exprText(c.fset, e))
}

func hasReturn(n ast.Node) bool {
	found := false
	ast.Inspect(n, func(m ast.Node) bool {
		if _, ok := m.(*ast.ReturnStmt); ok {
			found = true
		}
		return !found
	})
	return found
}

// joined: `let vs := (<statement, delivering vs>); rest`
func (c *trCtx) joined(vs []string, stmt func(k trCont) (string, error), rest trCont) (string, error) {
	var ns []string
	for _, v := range vs {
		ns = append(ns, leanIdent(v))
	}
	tuple := ns[0]
	if len(ns) > 1 {
		tuple = "(" + strings.Join(ns, ", ") + ")"
	}
	val, err := stmt(func() (string, error) { return tuple, nil })
	if err != nil {
		return "", err
	}
	for _, v := range vs {
		c.noteAssigned(v) // assigned inside the joined statement (whose own counts were per branch)
	}
	r, err := rest()
	if err != nil {
		return "", err
	}
	if len(ns) == 1 {
		return fmt.Sprintf("(let %s := %s; %s)", ns[0], val, r), nil
	}
	out := fmt.Sprintf("(let st_ := %s; ", val)
	n := 1
	acc := "st_"
	for i, v := range ns {
		proj := acc + ".1"
		if i == len(ns)-1 {
			proj = acc
		}
		out += fmt.Sprintf("(let %s := %s; ", v, proj)
		n++
		acc = "(" + acc + ".2)"
	}
	return out + r + strings.Repeat(")", n), nil
}

// switch → if-chain (no fallthrough; `default` may stand anywhere)
func (c *trCtx) switchStmt(x *ast.SwitchStmt, rest trCont) (string, error) {
	if x.Init != nil {
		return "", trErr("switch with an init statement")
	}
	if x.Switch != token.Pos(-1) && !hasReturn(x) {
		if vs, err := c.assigned([]ast.Stmt{x}); err == nil && len(vs) > 0 {
			return c.joined(vs, func(k trCont) (string, error) {
				return c.switchStmt(&ast.SwitchStmt{Switch: token.Pos(-1), Tag: x.Tag, Body: x.Body}, k)
			}, rest)
		}
	}
	var tag string
	var tagTy trTy
	if x.Tag != nil {
		var err error
		if tag, tagTy, err = c.expr(x.Tag, tyUnknown); err != nil {
			return "", err
		}
	}
	type arm struct {
		cond string
		body []ast.Stmt
	}
	var arms []arm
	var dflt []ast.Stmt
	hasDefault := false
	for _, st := range x.Body.List {
		cc := st.(*ast.CaseClause)
		for _, b := range cc.Body {
			if br, ok := b.(*ast.BranchStmt); ok && br.Tok == token.FALLTHROUGH {
				return "", trErr("fallthrough")
			}
		}
		if cc.List == nil {
			hasDefault, dflt = true, cc.Body
			continue
		}
		var alts []string
		for _, e := range cc.List {
			if x.Tag == nil {
				s, _, err := c.expr(e, tyBool)
				if err != nil {
					return "", err
				}
				alts = append(alts, s)
			} else {
				s, t, err := c.expr(e, tagTy)
				if err != nil {
					return "", err
				}
				if t != tagTy {
					return "", trErr("case %s does not have the type of the switch tag", exprText(c.fset, e))
				}
				alts = append(alts, "("+tag+" == "+s+")")
			}
		}
		cond := alts[0]
		if len(alts) > 1 {
			cond = "(" + strings.Join(alts, " || ") + ")"
		}
		arms = append(arms, arm{cond, cc.Body})
	}
	var tail string
	var err error
	if hasDefault {
		tail, err = c.block(dflt, rest)
	} else {
		tail, err = rest()
	}
	if err != nil {
		return "", err
	}
	for i := len(arms) - 1; i >= 0; i-- {
		body, err := c.block(arms[i].body, rest)
		if err != nil {
			return "", err
		}
		tail = fmt.Sprintf("(if %s then %s else %s)", arms[i].cond, body, tail)
	}
	return tail, nil
}

// assigned: the variables of the enclosing scope a loop body assigns
func (c *trCtx) assigned(list []ast.Stmt) ([]string, error) {
	set := map[string]bool{}
	var bad error
	ast.Inspect(&ast.BlockStmt{List: list}, func(n ast.Node) bool {
		switch x := n.(type) {
		case *ast.ReturnStmt:
			if !c.allowLoopReturn {
				bad = trErr("return inside a loop")
			}
		case *ast.BranchStmt:
			if !(c.allowBreak && x.Tok == token.BREAK && x.Label == nil) {
				bad = trErr("%s inside a loop", x.Tok)
			}
		case *ast.CallExpr:
			if c.effectOf(x) != nil {
				set[traceVar] = true
			}
		case *ast.AssignStmt:
			for _, l := range x.Lhs {
				if id, ok := l.(*ast.Ident); ok {
					if t, outer := c.vars[id.Name]; outer && x.Tok != token.DEFINE && t != tyOpaque {
						set[id.Name] = true
					}
				} else if sp := c.stateParam(l); sp != nil {
					set[sp.lean] = true
				}
			}
		case *ast.IncDecStmt:
			if id, ok := x.X.(*ast.Ident); ok {
				set[id.Name] = true
			}
		}
		return true
	})
	var out []string
	for n := range set {
		out = append(out, n)
	}
	sort.Strings(out)
	return out, bad
}

// loopSpec: a loop as a left fold over `list`; inside the body the Go variables
// `vars` are bound to Lean expressions over the element `x_`.
type loopVar struct {
	name string
	lean string
	ty   trTy
}

type loopSpec struct {
	list string
	vars []loopVar
	body []ast.Stmt
}

// `for i := range s` / `for _, b := range s` / `for i, b := range s` over a
// string of bytes ([]byte, or a string the target declares to hold single-byte
// characters only)
func (c *trCtx) rangeStmt(x *ast.RangeStmt, rest trCont) (string, error) {
	if x.Tok != token.DEFINE {
		return "", trErr("range without :=")
	}
	if p := c.param(exprText(c.fset, x.X)); p != nil && p.ty == tyRecList {
		// `for _, r := range <list of records>`: the element is the tuple of the fields the target lists
		if id, ok := x.Key.(*ast.Ident); x.Key != nil && (!ok || id.Name != "_") {
			return "", trErr("range over a list of records with an index")
		}
		val, ok := x.Value.(*ast.Ident)
		if !ok || val.Name == "_" {
			return "", trErr("range over a list of records without an element variable")
		}
		if c.recOf == nil {
			c.recOf = map[string]*trParam{}
		}
		c.recOf[val.Name] = p
		defer delete(c.recOf, val.Name)
		return c.loop(loopSpec{list: p.lean, body: x.Body.List, vars: []loopVar{{val.Name, "x_", tyRec}}}, rest)
	}
	s, st, err := c.expr(x.X, tyStr)
	if err != nil {
		return "", err
	}
	if st != tyStr {
		return "", trErr("range over %s which is not a string / []byte", exprText(c.fset, x.X))
	}
	if id, ok := x.X.(*ast.Ident); ok && c.strVars[id.Name] && !c.t.rangeBytes {
		return "", trErr("range over the string %s yields runes (target not marked rangeBytes)", id.Name)
	}
	key, val := "", ""
	if id, ok := x.Key.(*ast.Ident); ok && id.Name != "_" {
		key = id.Name
	}
	if x.Value != nil {
		if id, ok := x.Value.(*ast.Ident); ok && id.Name != "_" {
			val = id.Name
		}
	}
	sp := loopSpec{list: s, body: x.Body.List}
	if key != "" {
		sp.list = fmt.Sprintf("(List.zip (List.range (List.length %s)) %s)", s, s)
		sp.vars = append(sp.vars, loopVar{key, "(Int.ofNat x_.1)", tyInt})
		if val != "" {
			sp.vars = append(sp.vars, loopVar{val, "x_.2", tyByte})
		}
	} else if val != "" {
		sp.vars = append(sp.vars, loopVar{val, "x_", tyByte})
	}
	return c.loop(sp, rest)
}

// `for i := lo; i < hi; i++` (or `<=`): a fold over `lo, lo+1, …`; the bound is
// evaluated once, so neither it nor `i` may be assigned in the body.
func (c *trCtx) forStmt(x *ast.ForStmt, rest trCont) (string, error) {
	init, ok := x.Init.(*ast.AssignStmt)
	if !ok || init.Tok != token.DEFINE || len(init.Lhs) != 1 || len(init.Rhs) != 1 {
		return "", trErr("for loop without `i := lo`")
	}
	iv, ok := init.Lhs[0].(*ast.Ident)
	if !ok {
		return "", trErr("for loop variable")
	}
	cond, ok := x.Cond.(*ast.BinaryExpr)
	if !ok || (cond.Op != token.LSS && cond.Op != token.LEQ) {
		return "", trErr("for loop condition %s (only `i < hi` / `i <= hi`)", exprText(c.fset, x.Cond))
	}
	if ci, ok := cond.X.(*ast.Ident); !ok || ci.Name != iv.Name {
		return "", trErr("for loop condition is not about %s", iv.Name)
	}
	post, ok := x.Post.(*ast.IncDecStmt)
	if !ok || post.Tok != token.INC {
		return "", trErr("for loop without `i++`")
	}
	if pi, ok := post.X.(*ast.Ident); !ok || pi.Name != iv.Name {
		return "", trErr("for loop increments another variable")
	}
	if _, shadow := c.vars[iv.Name]; shadow {
		return "", trErr("for loop variable %s shadows a variable", iv.Name)
	}
	lo, lt, err := c.expr(init.Rhs[0], tyInt)
	if err != nil {
		return "", err
	}
	hi, ht, err := c.expr(cond.Y, tyInt)
	if err != nil {
		return "", err
	}
	if lt != tyInt || ht != tyInt {
		return "", trErr("for loop bounds are not integers")
	}
	// the bound must not change during the loop
	c.allowLoopReturn = true
	as, _ := c.assigned(x.Body.List)
	c.allowLoopReturn = false
	bad := false
	ast.Inspect(cond.Y, func(n ast.Node) bool {
		if id, ok := n.(*ast.Ident); ok {
			for _, a := range as {
				if a == id.Name {
					bad = true
				}
			}
		}
		return true
	})
	ast.Inspect(&ast.BlockStmt{List: x.Body.List}, func(n ast.Node) bool {
		switch y := n.(type) {
		case *ast.AssignStmt:
			for _, l := range y.Lhs {
				if id, ok := l.(*ast.Ident); ok && id.Name == iv.Name {
					bad = true
				}
			}
		case *ast.IncDecStmt:
			if id, ok := y.X.(*ast.Ident); ok && id.Name == iv.Name {
				bad = true
			}
		}
		return true
	})
	if bad {
		return "", trErr("the loop variable or the bound is assigned in the body")
	}
	n := fmt.Sprintf("(%s - %s)", hi, lo)
	if cond.Op == token.LEQ {
		n = fmt.Sprintf("((%s + (1 : Int)) - %s)", hi, lo)
	}
	sp := loopSpec{list: fmt.Sprintf("(List.range (Int.toNat %s))", n), body: x.Body.List,
		vars: []loopVar{{iv.Name, fmt.Sprintf("(%s + (Int.ofNat x_))", lo), tyInt}}}
	return c.loop(sp, rest)
}

// loop: (a) no `return` in the body – the state is the tuple of the outer
// variables the body assigns; (b) the body may `return` and assigns nothing –
// `List.foldl (fun st x => st.or (body x)) none list` and `Option.getD … rest`.
func (c *trCtx) loop(sp loopSpec, rest trCont) (string, error) {
	withRet := hasReturn(&ast.BlockStmt{List: sp.body})
	brk := hasBreak(sp.body)
	c.allowLoopReturn = withRet
	c.allowBreak = brk
	state, err := c.assigned(sp.body)
	c.allowLoopReturn = false
	c.allowBreak = false
	if err != nil {
		return "", err
	}
	if brk && (withRet || c.loopBreak != nil) {
		return "", trErr("loop with break and return / nested loops with break")
	}
	// the loop's own variables are not state
	var st2 []string
	for _, v := range state {
		own := false
		for _, lv := range sp.vars {
			if lv.name == v {
				own = true
			}
		}
		if !own {
			st2 = append(st2, v)
		}
	}
	state = st2
	if withRet {
		if c.t.from != "" || c.t.retLean == "" {
			return "", trErr("loop with return needs a whole-function target with retLean")
		}
		if len(state) != 0 {
			return "", trErr("loop with return that also assigns %v", state)
		}
		if c.loopRet != nil {
			return "", trErr("nested loops with return")
		}
	} else if len(state) == 0 {
		return "", trErr("loop without effect on a local variable")
	}
	if brk {
		// `break`: a flag in the state; once it is set the remaining elements leave the state unchanged
		if _, clash := c.vars["brk_"]; clash {
			return "", trErr("variable brk_ clashes with the break flag")
		}
		state = append(state, "brk_")
		c.vars["brk_"], c.depth["brk_"] = tyBool, c.cur
	}
	tuple := func() string {
		var ns []string
		for _, n := range state {
			ns = append(ns, leanIdent(n))
		}
		if len(ns) == 1 {
			return ns[0]
		}
		return "(" + strings.Join(ns, ", ") + ")"
	}
	unpack, closers := "", 0
	if !withRet {
		if len(state) == 1 {
			unpack = fmt.Sprintf("(let %s := st_; ", leanIdent(state[0]))
			closers = 1
		} else {
			acc := "st_"
			for i, n := range state {
				proj := acc + ".1"
				if i == len(state)-1 {
					proj = acc
				}
				unpack += fmt.Sprintf("(let %s := %s; ", leanIdent(n), proj)
				closers++
				acc = "(" + acc + ".2)"
			}
		}
	}
	savedVars := map[string]trTy{}
	for n, t := range c.vars {
		savedVars[n] = t
	}
	savedDepth := map[string]int{}
	for n, d := range c.depth {
		savedDepth[n] = d
	}
	c.cur++
	pre := ""
	for _, lv := range sp.vars {
		c.vars[lv.name], c.depth[lv.name] = lv.ty, c.cur
		pre += fmt.Sprintf("(let %s := %s; ", leanIdent(lv.name), lv.lean)
		closers++
	}
	none := "(none : Option (" + c.t.retLean + "))"
	var body string
	if withRet {
		c.loopRet = func(v string) string { return "(some " + v + ")" }
		body, err = c.block(sp.body, func() (string, error) { return none, nil })
		c.loopRet = nil
	} else {
		if brk {
			c.loopBreak = func() (string, error) { return "(let brk_ := true; " + tuple() + ")", nil }
		}
		body, err = c.block(sp.body, func() (string, error) { return tuple(), nil })
		c.loopBreak = nil
		if brk && err == nil {
			body = fmt.Sprintf("(if brk_ then %s else %s)", tuple(), body)
		}
	}
	c.cur--
	c.vars, c.depth = savedVars, savedDepth
	if brk {
		delete(c.vars, "brk_")
		delete(c.depth, "brk_")
	}
	if err != nil {
		return "", err
	}
	for _, v := range state {
		c.noteAssigned(v) // assigned by the loop body
	}
	r, err := rest()
	if err != nil {
		return "", err
	}
	if brk {
		r0, err := c.loopTail(sp, state, unpack, pre, body, closers, tuple(), r)
		if err != nil {
			return "", err
		}
		return "(let brk_ := false; " + r0 + ")", nil
	}
	if withRet {
		// `Option.or st (body)`: once the function has returned (`some`) nothing changes; `Option.getD`:
		// the value returned from inside the loop, else what follows the loop (no `match`: the term
		// stays rewritable by lemmas about List.foldl / Option.or)
		fold := fmt.Sprintf("(List.foldl (fun st_ x_ => (Option.or st_ %s%s%s)) %s %s)", pre, body, strings.Repeat(")", closers), none, sp.list)
		return fmt.Sprintf("(Option.getD %s %s)", fold, r), nil
	}
	return c.loopTail(sp, state, unpack, pre, body, closers, tuple(), r)
}

// loopTail: the fold over the state tuple and the rest of the function after it
func (c *trCtx) loopTail(sp loopSpec, state []string, unpack, pre, body string, closers int, tuple, r string) (string, error) {
	fold := fmt.Sprintf("(List.foldl (fun st_ x_ => %s%s%s%s) %s %s)", unpack, pre, body, strings.Repeat(")", closers), tuple, sp.list)
	if len(state) == 1 {
		return fmt.Sprintf("(let %s := %s; %s)", leanIdent(state[0]), fold, r), nil
	}
	out := fmt.Sprintf("(let st_ := %s; ", fold)
	n := 1
	acc := "st_"
	for i, v := range state {
		proj := acc + ".1"
		if i == len(state)-1 {
			proj = acc
		}
		out += fmt.Sprintf("(let %s := %s; ", leanIdent(v), proj)
		n++
		acc = "(" + acc + ".2)"
	}
	return out + r + strings.Repeat(")", n), nil
}

// goTypeOf: Go type text → translator type and Lean zero value
func goTypeOf(t string, c *trCtx) (trTy, string) {
	switch t {
	case "int", "int64", "int32", "rune":
		// (unsigned types are refused: Int does not wrap around at 0)
		return tyInt, "(0 : Int)"
	case "byte", "uint8":
		return tyByte, "(0 : UInt8)"
	case "bool":
		return tyBool, "false"
	case "string", "[]byte":
		return tyStr, "([] : List " + c.elem() + ")"
	}
	return tyUnknown, ""
}

func leanTyOf(t trTy, c *trCtx) string {
	switch t {
	case tyInt:
		return "Int"
	case tyByte:
		return c.elem()
	case tyBool:
		return "Bool"
	case tyStr:
		return "List " + c.elem()
	case tyName:
		return "String"
	}
	return "?"
}

// findFragment: the statements from the first one (depth first) whose text
// starts with `from` up to its sibling whose text starts with `to`.
func findFragment(fset *token.FileSet, body *ast.BlockStmt, from, to string) []ast.Stmt {
	var found []ast.Stmt
	var visit func(list []ast.Stmt) bool
	visit = func(list []ast.Stmt) bool {
		for i, s := range list {
			if strings.HasPrefix(exprText(fset, s), from) {
				if to == "" {
					found = list[i : i+1]
					return true
				}
				for j := i; j < len(list); j++ {
					if strings.HasPrefix(exprText(fset, list[j]), to) {
						found = list[i : j+1]
						return true
					}
				}
				return true // `to` not found: found stays nil
			}
			stop := false
			ast.Inspect(s, func(n ast.Node) bool {
				if stop {
					return false
				}
				switch b := n.(type) {
				case *ast.BlockStmt:
					if visit(b.List) {
						stop = true
					}
					return false
				case *ast.CaseClause:
					if visit(b.Body) {
						stop = true
					}
					return false
				}
				return true
			})
			if stop {
				return true
			}
		}
		return false
	}
	visit(body.List)
	return found
}

func translateTarget(repo string, t *trTarget) (string, interface{}, error) {
	fset, f, err := parseFile(repo, t.file)
	if err != nil {
		return "", nil, err
	}
	var fd *ast.FuncDecl
	if t.recv != "" {
		fd = findMethod(f, t.recv, t.fn)
	} else {
		fd = findFunc(f, t.fn)
	}
	if fd == nil || fd.Body == nil {
		return "", nil, trErr("function %s not found in %s", t.fn, t.file)
	}
	c := &trCtx{t: t, fset: fset, vars: map[string]trTy{}, depth: map[string]int{}, self: t.fn, strVars: map[string]bool{}}
	var binders []string
	for _, p := range t.params {
		binders = append(binders, fmt.Sprintf("(%s : %s)", p.lean, p.leanTy))
	}
	var inner []string // binders after the fuel of a recursive function
	if t.goParams {
		for _, fld := range fd.Type.Params.List {
			ty, _ := goTypeOf(exprText(fset, fld.Type), c)
			if ty == tyUnknown {
				return "", nil, trErr("parameter type %s is outside the subset", exprText(fset, fld.Type))
			}
			for _, n := range fld.Names {
				if exprText(fset, fld.Type) == "string" {
					c.strVars[n.Name] = true
				}
				c.vars[n.Name], c.depth[n.Name] = ty, 0
				b := fmt.Sprintf("(%s : %s)", leanIdent(n.Name), leanTyOf(ty, c))
				if t.recFuel {
					inner = append(inner, b)
				} else {
					binders = append(binders, b)
				}
			}
		}
	}
	for _, p := range t.params {
		if !p.isFunc {
			if id := p.goText; isGoIdent(id) {
				c.vars[id], c.depth[id] = p.ty, 0
			}
			if p.isState {
				c.vars[p.lean], c.depth[p.lean] = p.ty, 0
			}
		}
	}
	if t.traceTy != "" {
		c.vars[traceVar], c.depth[traceVar] = tyTrace, 0
	}
	list := fd.Body.List
	k := func() (string, error) { return "", trErr("control reaches the end of %s without a return", t.fn) }
	if t.void {
		k = c.voidTuple
	}
	if t.from != "" {
		list = findFragment(fset, fd.Body, t.from, t.to)
		if list == nil {
			return "", nil, trErr("fragment `%s` … `%s` not found in %s", t.from, t.to, t.fn)
		}
		k = func() (string, error) {
			var parts []string
			for _, o := range t.outs {
				if _, ok := c.vars[o]; !ok {
					return "", trErr("output %s of the fragment is not a variable", o)
				}
				parts = append(parts, leanIdent(o))
			}
			if len(parts) == 1 {
				return parts[0], nil
			}
			return "(" + strings.Join(parts, ", ") + ")", nil
		}
	}
	body, err := c.stmts(list, k)
	if err != nil {
		return "", nil, err
	}
	if t.traceTy != "" {
		body = fmt.Sprintf("(let %s := ([] : %s); %s)", traceVar, c.traceLeanTy(), body)
	}
	term := ""
	if t.recFuel {
		zero := map[trTy]string{tyInt: "(0 : Int)", tyBool: "false", tyByte: "(0 : UInt8)"}[t.resTy]
		if zero == "" {
			return "", nil, trErr("recursive function with this result type")
		}
		under := strings.Repeat("_ ", len(inner))
		term = fmt.Sprintf("fun %s (fuel : Nat) => Nat.rec (motive := fun _ => %s) (fun %s=> %s) (fun _ self_ => fun %s => %s) fuel",
			strings.Join(binders, " "), t.resLean, under, zero, strings.Join(inner, " "), body)
		if len(binders) == 0 {
			term = strings.Replace(term, "fun  (fuel", "fun (fuel", 1)
		}
	} else {
		term = "fun " + strings.Join(binders, " ") + " => " + body
	}
	return term, map[string]interface{}{"lean": term, "source": t.file + ":" + t.fn}, nil
}

func isGoIdent(s string) bool {
	if s == "" {
		return false
	}
	for i, r := range s {
		if !(r == '_' || r >= 'a' && r <= 'z' || r >= 'A' && r <= 'Z' || (i > 0 && r >= '0' && r <= '9')) {
			return false
		}
	}
	return true
}

func addTranslated(t trTarget) {
	tt := t
	addFact(fact{
		name:   "tr_" + tt.name,
		leanTy: tt.leanTy,
		deflt:  tt.deflt,
		extract: func(repo string) (string, interface{}, error) {
			return translateTarget(repo, &tt)
		},
	})
}
