package main

import (
	"fmt"
	"go/ast"
	"go/parser"
	"go/token"
	"os"
	"path/filepath"
	"regexp"
	"sort"
	"strconv"
	"strings"
)

// C09 (value-expression reader of the model, lean/Martian/FormatExp.lean):
//
//   - tokKeywords: the keyword table of keywordToken (martian/syntax/tokenizer.go),
//     one entry per call bytesPrefixString(b, X) in source order, in either shape
//
//     return bytesPrefixString(b, X), TOK
//     if v := bytesPrefixString(b, X); len(v) > 0 { return v, TOK }
//
//     X a string literal or a package-level string constant of package syntax.
//     The `@include` entry (token INCLUDE_DIRECTIVE) is left out: the model's
//     table is about words only.
//   - idTokens: the alternatives other than ID of the production `id` of
//     martian/syntax/grammar.y, in source order.

type kwEntry struct{ text, tok string }

var defaultKeywords = []kwEntry{
	{"as", "AS"}, {"bool", "BOOL"}, {"call", "CALL"}, {"comp", "COMPILED"},
	{"default", "DEFAULT"}, {"disabled", "DISABLED"}, {"exec", "EXEC"},
	{"false", "FALSE"}, {"filetype", "FILETYPE"}, {"float", "FLOAT"},
	{"in", "IN"}, {"int", "INT"}, {"local", "LOCAL"}, {"map", "MAP"},
	{"mem_gb", "MEM_GB"}, {"memgb", "MEM_GB"}, {"null", "NULL"}, {"out", "OUT"},
	{"path", "PATH"}, {"pipeline", "PIPELINE"}, {"preflight", "PREFLIGHT"},
	{"py", "PY"}, {"retain", "RETAIN"}, {"return", "RETURN"}, {"self", "SELF"},
	{"special", "SPECIAL"}, {"split", "SPLIT"}, {"src", "SRC"}, {"stage", "STAGE"},
	{"strict", "STRICT"}, {"string", "STRING"}, {"struct", "STRUCT"},
	{"threads", "THREADS"}, {"true", "TRUE"}, {"using", "USING"},
	{"volatile", "VOLATILE"}, {"vmem_gb", "VMEM_GB"}, {"vmemgb", "VMEM_GB"},
}

var defaultIdTokens = []string{
	"COMPILED", "DISABLED", "EXEC", "FILETYPE", "LOCAL", "MEM_GB", "VMEM_GB",
	"PREFLIGHT", "RETAIN", "SPECIAL", "SPLIT", "STRICT", "STRUCT", "THREADS",
	"USING", "VOLATILE",
}

func leanKeywords(es []kwEntry) string {
	parts := make([]string, len(es))
	for i, e := range es {
		parts[i] = "(" + leanBytes(e.text) + ", " + leanStr(e.tok) + ")"
	}
	return "[" + strings.Join(parts, ", ") + "]"
}

// syntaxStringConsts: the package-level `const NAME [T] = "literal"` of the
// non-test files of martian/syntax.  A name declared more than once with
// different values (files under different build constraints) is ambiguous.
func syntaxStringConsts(repo string) (vals map[string]string, ambiguous map[string]bool, err error) {
	dir := filepath.Join(repo, "martian", "syntax")
	names, err := filepath.Glob(filepath.Join(dir, "*.go"))
	if err != nil {
		return nil, nil, err
	}
	sort.Strings(names)
	vals, ambiguous = map[string]string{}, map[string]bool{}
	n := 0
	for _, p := range names {
		if strings.HasSuffix(p, "_test.go") {
			continue
		}
		f, err := parser.ParseFile(token.NewFileSet(), p, nil, parser.SkipObjectResolution)
		if err != nil {
			return nil, nil, err
		}
		if f.Name.Name != "syntax" {
			continue
		}
		n++
		for _, d := range f.Decls {
			gd, ok := d.(*ast.GenDecl)
			if !ok || gd.Tok != token.CONST {
				continue
			}
			for _, sp := range gd.Specs {
				vs, ok := sp.(*ast.ValueSpec)
				if !ok || len(vs.Values) != len(vs.Names) {
					continue
				}
				for i, name := range vs.Names {
					bl, ok := vs.Values[i].(*ast.BasicLit)
					if !ok || bl.Kind != token.STRING {
						continue
					}
					s, err := strconv.Unquote(bl.Value)
					if err != nil {
						return nil, nil, fmt.Errorf("%s: const %s: %v", filepath.Base(p), name.Name, err)
					}
					if old, dup := vals[name.Name]; dup && old != s {
						ambiguous[name.Name] = true
					}
					vals[name.Name] = s
				}
			}
		}
	}
	if n == 0 {
		return nil, nil, fmt.Errorf("no Go files of package syntax in %s", dir)
	}
	return vals, ambiguous, nil
}

func isCallTo(e ast.Expr, fn string) *ast.CallExpr {
	call, ok := e.(*ast.CallExpr)
	if !ok {
		return nil
	}
	if id, ok := call.Fun.(*ast.Ident); !ok || id.Name != fn {
		return nil
	}
	return call
}

func isIdent(e ast.Expr, name string) bool {
	id, ok := e.(*ast.Ident)
	return ok && id.Name == name
}

func extractKeywords(repo string) ([]kwEntry, error) {
	fset, f, err := parseFile(repo, "martian/syntax/tokenizer.go")
	if err != nil {
		return nil, err
	}
	fd := findFunc(f, "keywordToken")
	if fd == nil || fd.Body == nil {
		return nil, fmt.Errorf("keywordToken not found")
	}
	consts, ambiguous, err := syntaxStringConsts(repo)
	if err != nil {
		return nil, err
	}
	const prefixFn = "bytesPrefixString"
	at := func(n ast.Node) string {
		p := fset.Position(n.Pos())
		return fmt.Sprintf("tokenizer.go:%d", p.Line)
	}
	var ents []kwEntry
	var bad error
	fail := func(n ast.Node, format string, a ...interface{}) {
		if bad == nil {
			bad = fmt.Errorf("%s: %s", at(n), fmt.Sprintf(format, a...))
		}
	}
	add := func(call *ast.CallExpr, tok ast.Expr) {
		if len(call.Args) != 2 {
			fail(call, "%s with %d arguments", prefixFn, len(call.Args))
			return
		}
		var text string
		switch x := call.Args[1].(type) {
		case *ast.BasicLit:
			if x.Kind != token.STRING {
				fail(call, "keyword %s is not a string literal", x.Value)
				return
			}
			s, err := strconv.Unquote(x.Value)
			if err != nil {
				fail(call, "keyword %s: %v", x.Value, err)
				return
			}
			text = s
		case *ast.Ident:
			s, ok := consts[x.Name]
			if !ok {
				fail(call, "keyword %s is not a string constant of package syntax", x.Name)
				return
			}
			if ambiguous[x.Name] {
				fail(call, "keyword constant %s is declared with different values", x.Name)
				return
			}
			text = s
		default:
			fail(call, "keyword argument is neither a literal nor an identifier")
			return
		}
		id, ok := tok.(*ast.Ident)
		if !ok {
			fail(call, "token returned with %q is not an identifier", text)
			return
		}
		ents = append(ents, kwEntry{text, id.Name})
	}
	handled := map[*ast.CallExpr]bool{}
	ast.Inspect(fd.Body, func(n ast.Node) bool {
		switch x := n.(type) {
		case *ast.ReturnStmt:
			// return bytesPrefixString(b, X), TOK
			if len(x.Results) == 2 {
				if call := isCallTo(x.Results[0], prefixFn); call != nil {
					handled[call] = true
					add(call, x.Results[1])
				}
			}
		case *ast.IfStmt:
			// if v := bytesPrefixString(b, X); len(v) > 0 { return v, TOK }
			as, ok := x.Init.(*ast.AssignStmt)
			if !ok || as.Tok != token.DEFINE || len(as.Lhs) != 1 || len(as.Rhs) != 1 {
				return true
			}
			call := isCallTo(as.Rhs[0], prefixFn)
			if call == nil {
				return true
			}
			v, ok := as.Lhs[0].(*ast.Ident)
			if !ok {
				return true
			}
			cond, ok := x.Cond.(*ast.BinaryExpr)
			if !ok || cond.Op != token.GTR {
				fail(x, "unexpected condition on the result of %s", prefixFn)
				return true
			}
			ln := isCallTo(cond.X, "len")
			zero, zok := cond.Y.(*ast.BasicLit)
			if ln == nil || len(ln.Args) != 1 || !isIdent(ln.Args[0], v.Name) || !zok || zero.Value != "0" {
				fail(x, "unexpected condition on the result of %s", prefixFn)
				return true
			}
			if x.Else != nil || len(x.Body.List) != 1 {
				fail(x, "unexpected body after %s", prefixFn)
				return true
			}
			ret, ok := x.Body.List[0].(*ast.ReturnStmt)
			if !ok || len(ret.Results) != 2 || !isIdent(ret.Results[0], v.Name) {
				fail(x, "unexpected body after %s", prefixFn)
				return true
			}
			handled[call] = true
			add(call, ret.Results[1])
		}
		return true
	})
	// every call of bytesPrefixString in the function must have been one of the two shapes
	ast.Inspect(fd.Body, func(n ast.Node) bool {
		if e, ok := n.(ast.Expr); ok {
			if call := isCallTo(e, prefixFn); call != nil && !handled[call] {
				fail(call, "call of %s in an unknown shape", prefixFn)
			}
		}
		return true
	})
	if bad != nil {
		return nil, bad
	}
	var words []kwEntry
	for _, e := range ents {
		if e.tok == "INCLUDE_DIRECTIVE" {
			continue // `@include`: not a word
		}
		words = append(words, e)
	}
	if len(words) == 0 {
		return nil, fmt.Errorf("no %s call found in keywordToken", prefixFn)
	}
	return words, nil
}

var (
	grammarAltRe = regexp.MustCompile(`^\|\s*([A-Za-z_][A-Za-z0-9_]*)$`)
)

func extractIdTokens(repo string) ([]string, error) {
	src, err := os.ReadFile(filepath.Join(repo, "martian", "syntax", "grammar.y"))
	if err != nil {
		return nil, err
	}
	lines := strings.Split(string(src), "\n")
	for i := 0; i+1 < len(lines); i++ {
		if strings.TrimRight(lines[i], " \t\r") != "id" {
			continue
		}
		if strings.Join(strings.Fields(lines[i+1]), " ") != ": ID" {
			continue
		}
		var toks []string
		for j := i + 2; j < len(lines); j++ {
			l := strings.TrimSpace(lines[j])
			if l == ";" {
				return toks, nil
			}
			m := grammarAltRe.FindStringSubmatch(l)
			if m == nil {
				return nil, fmt.Errorf("grammar.y:%d: unexpected line in production id: %q", j+1, l)
			}
			toks = append(toks, m[1])
		}
		return nil, fmt.Errorf("grammar.y:%d: production id is not terminated", i+1)
	}
	return nil, fmt.Errorf("production id (`id` / `: ID`) not found in grammar.y")
}

func init() {
	addFact(fact{
		name:   "tokKeywords",
		leanTy: "List (List UInt8 × String)",
		deflt:  leanKeywords(defaultKeywords),
		extract: func(repo string) (string, interface{}, error) {
			es, err := extractKeywords(repo)
			if err != nil {
				return "", nil, err
			}
			js := make([][2]string, len(es))
			for i, e := range es {
				js[i] = [2]string{e.text, e.tok}
			}
			return leanKeywords(es), js, nil
		},
	})
	addFact(fact{
		name:   "idTokens",
		leanTy: "List String",
		deflt:  leanStrList(defaultIdTokens),
		extract: func(repo string) (string, interface{}, error) {
			toks, err := extractIdTokens(repo)
			if err != nil {
				return "", nil, err
			}
			return leanStrList(toks), toks, nil
		},
	})
}
