package main

import (
	"fmt"
	"go/ast"
	"go/token"
	"sort"
	"strconv"
	"strings"
)

// shellEscapes: the `case '<c>': buf = append(buf, `<lit>`...)` arms of the
// switch in appendShellSafeQuote (martian/core/shell_quote.go).
func init() {
	addFact(fact{
		name:   "shellEscapes",
		leanTy: "List (UInt8 × List UInt8)",
		deflt:  "[(0x5C, [0x5C, 0x5C]), (0x22, [0x5C, 0x22]), (0x24, [0x5C, 0x24])]",
		extract: func(repo string) (string, interface{}, error) {
			_, f, err := parseFile(repo, "martian/core/shell_quote.go")
			if err != nil {
				return "", nil, err
			}
			fd := findFunc(f, "appendShellSafeQuote")
			if fd == nil {
				return "", nil, fmt.Errorf("appendShellSafeQuote not found")
			}
			type ent struct {
				b   byte
				rep string
			}
			var ents []ent
			found := false
			var bad error
			ast.Inspect(fd.Body, func(n ast.Node) bool {
				sw, ok := n.(*ast.SwitchStmt)
				if !ok || found {
					return true
				}
				found = true
				for _, st := range sw.Body.List {
					cc := st.(*ast.CaseClause)
					if cc.List == nil {
						// default: must be the verbatim copy
						continue
					}
					var chars []byte
					skip := false
					for _, e := range cc.List {
						bl, ok := e.(*ast.BasicLit)
						if !ok || bl.Kind != token.CHAR {
							skip = true // e.g. utf8.RuneError arm (modelled separately)
							break
						}
						s, err := strconv.Unquote(bl.Value)
						if err != nil || len(s) != 1 {
							bad = fmt.Errorf("unexpected case literal %s", bl.Value)
							return false
						}
						chars = append(chars, s[0])
					}
					if skip {
						continue
					}
					// body: sequence of buf = append(buf, X...) / append(buf, 'c')
					var rep []byte
					for _, bs := range cc.Body {
						as, ok := bs.(*ast.AssignStmt)
						if !ok || len(as.Rhs) != 1 {
							bad = fmt.Errorf("unexpected statement in case arm")
							return false
						}
						call, ok := as.Rhs[0].(*ast.CallExpr)
						if !ok || len(call.Args) < 2 {
							bad = fmt.Errorf("unexpected rhs in case arm")
							return false
						}
						if id, ok := call.Fun.(*ast.Ident); !ok || id.Name != "append" {
							bad = fmt.Errorf("case arm does not append")
							return false
						}
						for _, a := range call.Args[1:] {
							bl, ok := a.(*ast.BasicLit)
							if !ok {
								bad = fmt.Errorf("case arm appends a non-literal")
								return false
							}
							s, err := strconv.Unquote(bl.Value)
							if err != nil {
								bad = err
								return false
							}
							rep = append(rep, s...)
						}
					}
					for _, c := range chars {
						ents = append(ents, ent{c, string(rep)})
					}
				}
				return false
			})
			if bad != nil {
				return "", nil, bad
			}
			if !found {
				return "", nil, fmt.Errorf("switch not found")
			}
			sort.SliceStable(ents, func(i, j int) bool { return ents[i].b < ents[j].b })
			var parts []string
			js := map[string]string{}
			for _, e := range ents {
				parts = append(parts, fmt.Sprintf("(0x%02X, %s)", e.b, leanBytes(e.rep)))
				js[string([]byte{e.b})] = e.rep
			}
			return "[" + strings.Join(parts, ", ") + "]", js, nil
		},
	})
}
