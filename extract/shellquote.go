package main

import (
	"encoding/json"
	"fmt"
	"go/ast"
	"go/token"
	"os"
	"path/filepath"
	"sort"
	"strconv"
	"strings"
)

// shellEscapes: the `case '<c>': buf = append(buf, `<lit>`...)` arms of the
// switch in appendShellSafeQuote (martian/core/shell_quote.go).
func init() {
	addFact(fact{
		name:   "shellEscapes",
		leanTy: "List (UInt8 × List UInt8)",
		deflt:  "[(0x5C, [0x5C, 0x5C]), (0x22, [0x5C, 0x22]), (0x24, [0x5C, 0x24])]",
		extract: func(repo string) (string, interface{}, error) {
			_, f, err := parseFile(repo, "martian/core/shell_quote.go")
			if err != nil {
				return "", nil, err
			}
			fd := findFunc(f, "appendShellSafeQuote")
			if fd == nil {
				return "", nil, fmt.Errorf("appendShellSafeQuote not found")
			}
			type ent struct {
				b   byte
				rep string
			}
			var ents []ent
			found := false
			var bad error
			ast.Inspect(fd.Body, func(n ast.Node) bool {
				sw, ok := n.(*ast.SwitchStmt)
				if !ok || found {
					return true
				}
				found = true
				for _, st := range sw.Body.List {
					cc := st.(*ast.CaseClause)
					if cc.List == nil {
						// default: must be the verbatim copy
						continue
					}
					var chars []byte
					skip := false
					for _, e := range cc.List {
						bl, ok := e.(*ast.BasicLit)
						if !ok || bl.Kind != token.CHAR {
							skip = true // e.g. utf8.RuneError arm (modelled separately)
							break
						}
						s, err := strconv.Unquote(bl.Value)
						if err != nil || len(s) != 1 {
							bad = fmt.Errorf("unexpected case literal %s", bl.Value)
							return false
						}
						chars = append(chars, s[0])
					}
					if skip {
						continue
					}
					// body: sequence of buf = append(buf, X...) / append(buf, 'c')
					var rep []byte
					for _, bs := range cc.Body {
						as, ok := bs.(*ast.AssignStmt)
						if !ok || len(as.Rhs) != 1 {
							bad = fmt.Errorf("unexpected statement in case arm")
							return false
						}
						call, ok := as.Rhs[0].(*ast.CallExpr)
						if !ok || len(call.Args) < 2 {
							bad = fmt.Errorf("unexpected rhs in case arm")
							return false
						}
						if id, ok := call.Fun.(*ast.Ident); !ok || id.Name != "append" {
							bad = fmt.Errorf("case arm does not append")
							return false
						}
						for _, a := range call.Args[1:] {
							bl, ok := a.(*ast.BasicLit)
							if !ok {
								bad = fmt.Errorf("case arm appends a non-literal")
								return false
							}
							s, err := strconv.Unquote(bl.Value)
							if err != nil {
								bad = err
								return false
							}
							rep = append(rep, s...)
						}
					}
					for _, c := range chars {
						ents = append(ents, ent{c, string(rep)})
					}
				}
				return false
			})
			if bad != nil {
				return "", nil, bad
			}
			if !found {
				return "", nil, fmt.Errorf("switch not found")
			}
			sort.SliceStable(ents, func(i, j int) bool { return ents[i].b < ents[j].b })
			var parts []string
			js := map[string]string{}
			for _, e := range ents {
				parts = append(parts, fmt.Sprintf("(0x%02X, %s)", e.b, leanBytes(e.rep)))
				js[string([]byte{e.b})] = e.rep
			}
			return "[" + strings.Join(parts, ", ") + "]", js, nil
		},
	})
}

// ---- job-script level facts (C18) ----

// c18JobScriptParams: the `params := [...][2]string{ {prefix+"NAME"+suffix, value}, … }`
// table of RemoteJobManager.jobScript: name and kind of value expression
// (quoted = shellSafeQuote(…), int = strconv.Itoa(…), cmd = the variable that
// holds formatArgs(…), raw = anything else).
func c18JobScriptParams(repo string) ([][2]string, error) {
	_, f, err := parseFile(repo, "martian/core/jobmanager_remote.go")
	if err != nil {
		return nil, err
	}
	fd := findMethod(f, "RemoteJobManager", "jobScript")
	if fd == nil {
		return nil, fmt.Errorf("RemoteJobManager.jobScript not found")
	}
	// variables assigned from formatArgs(...)
	cmdVars := map[string]bool{}
	consts := map[string]string{}
	var table *ast.CompositeLit
	ast.Inspect(fd.Body, func(n ast.Node) bool {
		switch x := n.(type) {
		case *ast.AssignStmt:
			if len(x.Lhs) == 1 && len(x.Rhs) == 1 {
				id, ok := x.Lhs[0].(*ast.Ident)
				if !ok {
					return true
				}
				if call, ok := x.Rhs[0].(*ast.CallExpr); ok {
					if fn, ok := call.Fun.(*ast.Ident); ok && fn.Name == "formatArgs" {
						cmdVars[id.Name] = true
					}
				}
				if cl, ok := x.Rhs[0].(*ast.CompositeLit); ok && id.Name == "params" {
					table = cl
				}
			}
		case *ast.ValueSpec:
			for i, nm := range x.Names {
				if i < len(x.Values) {
					if bl, ok := x.Values[i].(*ast.BasicLit); ok && bl.Kind == token.STRING {
						if s, err := strconv.Unquote(bl.Value); err == nil {
							consts[nm.Name] = s
						}
					}
				}
			}
		}
		return true
	})
	if table == nil {
		return nil, fmt.Errorf("params table not found in jobScript")
	}
	var strOf func(e ast.Expr) (string, bool)
	strOf = func(e ast.Expr) (string, bool) {
		switch x := e.(type) {
		case *ast.BasicLit:
			if x.Kind == token.STRING {
				s, err := strconv.Unquote(x.Value)
				return s, err == nil
			}
		case *ast.Ident:
			s, ok := consts[x.Name]
			return s, ok
		case *ast.BinaryExpr:
			if x.Op == token.ADD {
				a, ok1 := strOf(x.X)
				b, ok2 := strOf(x.Y)
				return a + b, ok1 && ok2
			}
		case *ast.ParenExpr:
			return strOf(x.X)
		}
		return "", false
	}
	var out [][2]string
	for _, el := range table.Elts {
		cl, ok := el.(*ast.CompositeLit)
		if !ok || len(cl.Elts) != 2 {
			return nil, fmt.Errorf("params entry is not a {key, value} pair")
		}
		key, ok := strOf(cl.Elts[0])
		if !ok || !strings.HasPrefix(key, "__MRO_") || !strings.HasSuffix(key, "__") || len(key) < 9 {
			return nil, fmt.Errorf("params key is not a constant __MRO_…__ string")
		}
		kind := "raw"
		switch v := cl.Elts[1].(type) {
		case *ast.CallExpr:
			switch fn := v.Fun.(type) {
			case *ast.Ident:
				if fn.Name == "shellSafeQuote" {
					kind = "quoted"
				}
			case *ast.SelectorExpr:
				if x, ok := fn.X.(*ast.Ident); ok && x.Name == "strconv" && fn.Sel.Name == "Itoa" {
					kind = "int"
				}
			}
		case *ast.Ident:
			if cmdVars[v.Name] {
				kind = "cmd"
			}
		}
		out = append(out, [2]string{key[6 : len(key)-2], kind})
	}
	return out, nil
}

func init() {
	addFact(fact{
		name:   "jobScriptParams",
		leanTy: "List (String × String)",
		deflt:  "[]",
		extract: func(repo string) (string, interface{}, error) {
			ps, err := c18JobScriptParams(repo)
			if err != nil {
				return "", nil, err
			}
			var parts []string
			for _, p := range ps {
				parts = append(parts, "("+leanStr(p[0])+", "+leanStr(p[1])+")")
			}
			return "[" + strings.Join(parts, ", ") + "]", ps, nil
		},
	})
	// the key bytes of every parameter, in table order (what the replacer looks for)
	addFact(fact{
		name:   "jobScriptKeys",
		leanTy: "List (String × List UInt8)",
		deflt:  "[]",
		extract: func(repo string) (string, interface{}, error) {
			ps, err := c18JobScriptParams(repo)
			if err != nil {
				return "", nil, err
			}
			var parts []string
			js := map[string]string{}
			for _, p := range ps {
				parts = append(parts, "("+leanStr(p[0])+", "+leanBytes("__MRO_"+p[0]+"__")+")")
				js[p[0]] = "__MRO_" + p[0] + "__"
			}
			return "[" + strings.Join(parts, ",\n   ") + "]", js, nil
		},
	})
	// every shipped template that has a command line, cut into lines and each
	// line into segments: ("", literal bytes) | (NAME, []) for __MRO_NAME__
	// (the first parameter, in table order, whose key is a prefix of the text
	// at a position — the rule of strings.NewReplacer).
	addFact(fact{
		name:   "jobTemplates",
		leanTy: "List (String × List (List (String × List UInt8)))",
		deflt:  "[]",
		extract: func(repo string) (string, interface{}, error) {
			ps, err := c18JobScriptParams(repo)
			if err != nil {
				return "", nil, err
			}
			files, _ := filepath.Glob(filepath.Join(repo, "jobmanagers", "*.template*"))
			sort.Strings(files)
			var ts []string
			js := map[string]interface{}{}
			for _, fn := range files {
				b, err := os.ReadFile(fn)
				if err != nil || !strings.Contains(string(b), "__MRO_CMD__") {
					continue
				}
				var lines []string
				var jl [][]string
				for _, line := range strings.Split(string(b), "\n") {
					var segs []string
					var jsegs []string
					lit := ""
					flushLit := func() {
						if lit != "" {
							segs = append(segs, "(\"\", "+leanBytes(lit)+")")
							jsegs = append(jsegs, lit)
							lit = ""
						}
					}
					for i := 0; i < len(line); {
						matched := false
						for _, p := range ps {
							k := "__MRO_" + p[0] + "__"
							if strings.HasPrefix(line[i:], k) {
								flushLit()
								segs = append(segs, "("+leanStr(p[0])+", [])")
								jsegs = append(jsegs, "<"+p[0]+">")
								i += len(k)
								matched = true
								break
							}
						}
						if !matched {
							lit += line[i : i+1]
							i++
						}
					}
					flushLit()
					lines = append(lines, "["+strings.Join(segs, ", ")+"]")
					if len(jsegs) > 1 || (len(jsegs) == 1 && strings.HasPrefix(jsegs[0], "<")) || (len(jsegs) == 1 && !strings.HasPrefix(jsegs[0], "#")) {
						jl = append(jl, jsegs)
					}
				}
				ts = append(ts, "("+leanStr(filepath.Base(fn))+",\n    ["+strings.Join(lines, ",\n     ")+"])")
				js[filepath.Base(fn)] = jl
			}
			if len(ts) == 0 {
				return "", nil, fmt.Errorf("no job template with __MRO_CMD__ under jobmanagers/")
			}
			return "[" + strings.Join(ts, ",\n   ") + "]", js, nil
		},
	})
	// jobmodes.<mode>.resopt of jobmanagers/config.json (the text substituted,
	// with the mapped resource, for __MRO_RESOURCES__)
	addFact(fact{
		name:   "jobResOpts",
		leanTy: "List (String × List UInt8)",
		deflt:  "[]",
		extract: func(repo string) (string, interface{}, error) {
			b, err := os.ReadFile(filepath.Join(repo, "jobmanagers", "config.json"))
			if err != nil {
				return "", nil, err
			}
			var cfg struct {
				JobModes map[string]struct {
					ResOpt string `json:"resopt"`
				} `json:"jobmodes"`
			}
			if err := json.Unmarshal(b, &cfg); err != nil {
				return "", nil, err
			}
			var modes []string
			for m, v := range cfg.JobModes {
				if v.ResOpt != "" {
					modes = append(modes, m)
				}
			}
			sort.Strings(modes)
			var parts []string
			js := map[string]string{}
			for _, m := range modes {
				parts = append(parts, "("+leanStr(m)+", "+leanBytes(cfg.JobModes[m].ResOpt)+")")
				js[m] = cfg.JobModes[m].ResOpt
			}
			return "[" + strings.Join(parts, ", ") + "]", js, nil
		},
	})
}
