package main

// Modelled effects of the translated subset (TRANSLATOR.md, "Effects").
//
// A target may declare calls whose effect is MODELLED instead of ignored: the
// term then threads a trace – a list of event names (`traceTy: "events"`) or
// the bytes written to a writer (`traceTy: "bytes"`) – and delivers it next to
// the function's result.  Further: statements that are ignored by text
// prefix (`dropStmts`), results of effect calls that are only inspected through
// parameters matched by text (`err == nil`, `os.IsExist(err)`), receiver
// fields that are assigned (`isState` parameters), functions without a result
// (`void`), loops over a list of records (`tyRecList`), and `break`.

import (
	"fmt"
	"go/ast"
	"go/token"
	"strconv"
	"strings"
)

type trEffect struct {
	callee string // whitespace-normalised text of the called function
	kind   string // "event": append `name`; "writeStr" / "writeByte": append the argument; "writeFn": append (name args…)
	name   string
}

const traceVar = "trace_"

func (c *trCtx) effectOf(call *ast.CallExpr) *trEffect {
	t := exprText(c.fset, call.Fun)
	for i := range c.t.effects {
		if c.t.effects[i].callee == t {
			return &c.t.effects[i]
		}
	}
	return nil
}

func (c *trCtx) traceLeanTy() string {
	if c.t.traceTy == "bytes" {
		return "List " + c.elem()
	}
	return "List String"
}

// appendEffect: the Lean expression of the trace after the call
func (c *trCtx) appendEffect(e *trEffect, call *ast.CallExpr) (string, error) {
	if c.t.traceTy == "" {
		return "", trErr("effect %s in a target without a trace", e.callee)
	}
	switch e.kind {
	case "event":
		if c.t.traceTy != "events" {
			return "", trErr("event %s in a byte trace", e.name)
		}
		return fmt.Sprintf("(%s ++ [%s])", traceVar, strconv.Quote(e.name)), nil
	case "writeStr", "writeByte":
		if c.t.traceTy != "bytes" || len(call.Args) != 1 {
			return "", trErr("writer call %s", exprText(c.fset, call))
		}
		if e.kind == "writeStr" {
			s, t, err := c.expr(call.Args[0], tyStr)
			if err != nil {
				return "", err
			}
			if t != tyStr {
				return "", trErr("%s does not write a string", exprText(c.fset, call))
			}
			return fmt.Sprintf("(%s ++ %s)", traceVar, s), nil
		}
		s, t, err := c.expr(call.Args[0], tyByte)
		if err != nil {
			return "", err
		}
		if t != tyByte {
			return "", trErr("%s does not write a byte", exprText(c.fset, call))
		}
		return fmt.Sprintf("(%s ++ [%s])", traceVar, s), nil
	case "writeFn":
		if c.t.traceTy != "bytes" {
			return "", trErr("writer call %s", exprText(c.fset, call))
		}
		parts := []string{e.name}
	args:
		for _, a := range call.Args {
			at := exprText(c.fset, a)
			for _, sk := range c.t.skipArgs {
				if sk == at {
					continue args
				}
			}
			s, _, err := c.expr(a, tyUnknown)
			if err != nil {
				return "", err
			}
			parts = append(parts, s)
		}
		return fmt.Sprintf("(%s ++ (%s))", traceVar, strings.Join(parts, " ")), nil
	}
	return "", trErr("effect kind %s", e.kind)
}

func (c *trCtx) droppedStmt(s ast.Stmt) bool {
	t := exprText(c.fset, s)
	for _, d := range c.t.dropStmts {
		if strings.HasPrefix(t, d) {
			return true
		}
	}
	return false
}

// hasEffect: a modelled effect occurs inside
func (c *trCtx) hasEffect(n ast.Node) bool {
	found := false
	ast.Inspect(n, func(m ast.Node) bool {
		if call, ok := m.(*ast.CallExpr); ok && c.effectOf(call) != nil {
			found = true
		}
		return !found
	})
	return found
}

// stateParam: the isState parameter an assignable expression stands for
func (c *trCtx) stateParam(e ast.Expr) *trParam {
	if _, ok := e.(*ast.SelectorExpr); !ok {
		return nil
	}
	if p := c.param(exprText(c.fset, e)); p != nil && p.isState {
		return p
	}
	return nil
}

// effectAssign: `v, err := effect(…)` / `v := dropped(…)`: the event (if any) is recorded, the
// variables are opaque
func (c *trCtx) effectAssign(x *ast.AssignStmt, rest trCont) (string, bool, error) {
	if len(x.Rhs) != 1 {
		return "", false, nil
	}
	call, ok := x.Rhs[0].(*ast.CallExpr)
	if !ok {
		return "", false, nil
	}
	eff := c.effectOf(call)
	if eff == nil && !c.dropped(call) {
		return "", false, nil
	}
	if x.Tok != token.DEFINE && x.Tok != token.ASSIGN {
		return "", true, trErr("assignment operator in %s", exprText(c.fset, x))
	}
	for _, l := range x.Lhs {
		id, ok := l.(*ast.Ident)
		if !ok {
			return "", true, trErr("result of an effect assigned to %s", exprText(c.fset, l))
		}
		if id.Name == "_" {
			continue
		}
		if old, ok := c.vars[id.Name]; ok && old != tyOpaque {
			return "", true, trErr("result of an effect assigned to the variable %s", id.Name)
		}
		c.vars[id.Name] = tyOpaque
		if c.opaqueFrom == nil {
			c.opaqueFrom = map[string]string{}
		}
		if eff != nil && eff.kind == "event" {
			c.opaqueFrom[id.Name] = eff.name
		} else {
			c.opaqueFrom[id.Name] = exprText(c.fset, call.Fun)
		}
		c.noteAssigned(id.Name)
		if _, ok := c.depth[id.Name]; !ok {
			c.depth[id.Name] = c.cur
		}
	}
	if eff == nil {
		r, err := rest()
		return r, true, err
	}
	app, err := c.appendEffect(eff, call)
	if err != nil {
		return "", true, err
	}
	r, err := rest()
	if err != nil {
		return "", true, err
	}
	return fmt.Sprintf("(let %s := %s; %s)", traceVar, app, r), true, nil
}

// voidTuple: what a function without a result delivers
func (c *trCtx) voidTuple() (string, error) {
	var parts []string
	if c.t.traceTy != "" {
		parts = append(parts, traceVar)
	}
	for _, o := range c.t.voidOuts {
		if _, ok := c.vars[o]; !ok {
			return "", trErr("output %s is not a variable", o)
		}
		parts = append(parts, leanIdent(o))
	}
	if len(parts) == 0 {
		return "", trErr("void function without trace and outputs")
	}
	if len(parts) == 1 {
		return parts[0], nil
	}
	return "(" + strings.Join(parts, ", ") + ")", nil
}

// recField: `v.Field` for a loop variable over a list of records
func (c *trCtx) recField(x *ast.SelectorExpr) (string, trTy, bool) {
	id, ok := x.X.(*ast.Ident)
	if !ok || c.vars[id.Name] != tyRec || c.recOf == nil || c.recOf[id.Name] == nil {
		return "", 0, false
	}
	p := c.recOf[id.Name]
	for i, f := range p.fields {
		if f.name != x.Sel.Name {
			continue
		}
		s := leanIdent(id.Name)
		if len(p.fields) == 1 {
			return s, f.ty, true
		}
		for j := 0; j < i; j++ {
			s = "(" + s + ".2)"
		}
		if i < len(p.fields)-1 {
			s = "(" + s + ".1)"
		}
		return s, f.ty, true
	}
	return "", 0, false
}

func hasBreak(list []ast.Stmt) bool {
	found := false
	ast.Inspect(&ast.BlockStmt{List: list}, func(n ast.Node) bool {
		switch x := n.(type) {
		case *ast.BranchStmt:
			if x.Tok == token.BREAK && x.Label == nil {
				found = true
			}
		case *ast.ForStmt, *ast.RangeStmt, *ast.SwitchStmt, *ast.SelectStmt, *ast.TypeSwitchStmt:
			return false // a break in there belongs to that statement (nested loops are refused anyway)
		}
		return !found
	})
	return found
}

// errComposite: `&T{…}` / `T{…}` as an error value: the name of the type
func (c *trCtx) errComposite(e ast.Expr) (string, bool) {
	// `return err` with `err` the (single) result of an effect call: "error of <effect>"
	if id, ok := e.(*ast.Ident); ok && c.vars[id.Name] == tyOpaque && c.assignCount[id.Name] <= 1 && c.opaqueFrom[id.Name] != "" {
		return "(some " + strconv.Quote("error of "+c.opaqueFrom[id.Name]) + ")", true
	}
	if u, ok := e.(*ast.UnaryExpr); ok && u.Op == token.AND {
		e = u.X
	}
	if cl, ok := e.(*ast.CompositeLit); ok && cl.Type != nil {
		return "(some " + strconv.Quote(exprText(c.fset, cl.Type)) + ")", true
	}
	return "", false
}

func (c *trCtx) noteAssigned(name string) {
	if c.assignCount == nil {
		c.assignCount = map[string]int{}
	}
	c.assignCount[name]++
}

// paramStillMeansTheSame: a parameter matched by the TEXT of an expression stands for the value of
// that expression at the start of the translated code.  If a Go variable occurring in the text has been
// assigned since (`a := s[0]; s = s[1:]; b := s[0]`), the same text means something else: refused.  The
// result variables of ONE effect call (`f, err := os.OpenFile(…)`; `err == nil`) are the exception: they
// are only readable through such parameters; a second assignment makes the text ambiguous.
// (A parameter whose text is the variable itself is its initial value; assignments shadow it.)
func (c *trCtx) paramStillMeansTheSame(p *trParam, e ast.Expr) error {
	if p.isState || isGoIdent(p.goText) {
		return nil
	}
	var bad error
	ast.Inspect(e, func(n ast.Node) bool {
		id, ok := n.(*ast.Ident)
		if !ok || bad != nil {
			return bad == nil
		}
		t, isVar := c.vars[id.Name]
		if !isVar {
			return true
		}
		cnt := c.assignCount[id.Name]
		if (t == tyOpaque && cnt > 1) || (t != tyOpaque && cnt > 0) {
			bad = trErr("the parameter `%s` is matched by text, but its variable %s has been assigned: the text no longer means the same value", p.goText, id.Name)
		}
		return true
	})
	return bad
}
