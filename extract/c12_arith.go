package main

// C12 facts, second group: the arithmetic and control skeleton of the code the
// model mirrors.  For every listed function the statements that matter for the
// model — conditions of if/for, assignments, inc/dec, returns, defers and calls
// other than logging — are rendered (go/printer, whitespace-normalised) in
// source order.  Props/C12.lean states, per function, that the skeleton found
// in the current tree is the one the model was written against; a flipped
// comparison, a changed constant, a dropped Signal()/runJobs() or a reordered
// Acquire therefore breaks a named obligation, in addition to the
// correspondence run.
//
//   c12Skel_<Name>       : List String
//   updateSizeCalls      : every call of ResourceSemaphore.UpdateSize outside
//                          tests/hooks: (file, enclosing func, receiver, argument)
//   localReleaseOrder    : semaphores released by Enqueue's deferred functions, in
//                          source order (they run in reverse)
//   localStartingThreads : const startingThreadCount

import (
	"bytes"
	"fmt"
	"go/ast"
	"go/parser"
	"go/printer"
	"go/token"
	"os"
	"path/filepath"
	"sort"
	"strconv"
	"strings"
)

func exprText(fset *token.FileSet, n ast.Node) string {
	var b bytes.Buffer
	printer.Fprint(&b, fset, n)
	return strings.Join(strings.Fields(b.String()), " ")
}

func isLogCall(fset *token.FileSet, c *ast.CallExpr) bool {
	t := exprText(fset, c.Fun)
	return strings.HasPrefix(t, "util.Log") || strings.HasPrefix(t, "util.Print") ||
		strings.HasPrefix(t, "fmt.") || strings.HasPrefix(t, "trace.") || t == "r.End"
}

// skeleton renders the statements of a body; keep decides which simple
// statements are kept (nil = all).
func skeleton(fset *token.FileSet, body *ast.BlockStmt, keep func(string) bool) []string {
	var out []string
	add := func(s string) {
		if keep == nil || keep(s) {
			out = append(out, s)
		}
	}
	var walk func(n ast.Node) bool
	walk = func(n ast.Node) bool {
		switch x := n.(type) {
		case *ast.IfStmt:
			if x.Init != nil {
				ast.Inspect(x.Init, walk)
			}
			add("if " + exprText(fset, x.Cond))
			ast.Inspect(x.Body, walk)
			if x.Else != nil {
				add("else")
				ast.Inspect(x.Else, walk)
			}
			return false
		case *ast.ForStmt:
			if x.Cond != nil {
				add("for " + exprText(fset, x.Cond))
			} else {
				add("for")
			}
			ast.Inspect(x.Body, walk)
			return false
		case *ast.RangeStmt:
			add("for range " + exprText(fset, x.X))
			ast.Inspect(x.Body, walk)
			return false
		case *ast.AssignStmt:
			var l, r []string
			for _, e := range x.Lhs {
				l = append(l, exprText(fset, e))
			}
			for _, e := range x.Rhs {
				if fl, ok := e.(*ast.FuncLit); ok {
					r = append(r, "func")
					add(strings.Join(l, ", ") + " " + x.Tok.String() + " func")
					ast.Inspect(fl.Body, walk)
					return false
				}
				r = append(r, exprText(fset, e))
			}
			add(strings.Join(l, ", ") + " " + x.Tok.String() + " " + strings.Join(r, ", "))
			return false
		case *ast.IncDecStmt:
			add(exprText(fset, x.X) + x.Tok.String())
			return false
		case *ast.ReturnStmt:
			var r []string
			for _, e := range x.Results {
				if c, ok := e.(*ast.CallExpr); ok && isLogCall(fset, c) {
					r = append(r, "<error>")
				} else {
					r = append(r, exprText(fset, e))
				}
			}
			add(strings.TrimSpace("return " + strings.Join(r, ", ")))
			return false
		case *ast.DeferStmt:
			if fl, ok := x.Call.Fun.(*ast.FuncLit); ok {
				add("defer func")
				ast.Inspect(fl.Body, walk)
			} else {
				add("defer " + exprText(fset, x.Call))
			}
			return false
		case *ast.GoStmt:
			add("go")
			return true
		case *ast.ExprStmt:
			if c, ok := x.X.(*ast.CallExpr); ok {
				if isLogCall(fset, c) {
					return false
				}
				if fl, ok := c.Fun.(*ast.FuncLit); ok {
					ast.Inspect(fl.Body, walk)
					return false
				}
				add(exprText(fset, c))
				return false
			}
			add(exprText(fset, x.X))
			return false
		}
		return true
	}
	ast.Inspect(body, walk)
	return out
}

type skelSpec struct {
	fact, file, recv, fn string
	keep                 func(string) bool
}

func enqueueKeep(s string) bool {
	for _, k := range []string{"centiCores", "memMb", "vmem", "procEstimate", "Sem", "sem.", "GetSystemReqs", "executeLocal"} {
		if strings.Contains(s, k) {
			return !strings.HasPrefix(s, "if self.debug") && !strings.HasPrefix(s, "threads :=")
		}
	}
	return false
}

func init() {
	specs := []skelSpec{
		{"c12Skel_Acquire", "martian/core/resource_semaphore.go", "ResourceSemaphore", "Acquire", nil},
		{"c12Skel_Release", "martian/core/resource_semaphore.go", "ResourceSemaphore", "Release", nil},
		{"c12Skel_runJobs", "martian/core/resource_semaphore.go", "ResourceSemaphore", "runJobs", nil},
		{"c12Skel_UpdateActual", "martian/core/resource_semaphore.go", "ResourceSemaphore", "UpdateActual", nil},
		{"c12Skel_UpdateSize", "martian/core/resource_semaphore.go", "ResourceSemaphore", "UpdateSize", nil},
		{"c12Skel_UpdateFreeUsed", "martian/core/resource_semaphore.go", "ResourceSemaphore", "UpdateFreeUsed", nil},
		{"c12Skel_MaxJobsAcquire", "martian/core/maxjobs_semaphore.go", "MaxJobsSemaphore", "Acquire", nil},
		{"c12Skel_MaxJobsRelease", "martian/core/maxjobs_semaphore.go", "MaxJobsSemaphore", "Release", nil},
		{"c12Skel_MaxJobsFindDone", "martian/core/maxjobs_semaphore.go", "MaxJobsSemaphore", "FindDone", nil},
		{"c12Skel_MaxJobsClear", "martian/core/maxjobs_semaphore.go", "MaxJobsSemaphore", "Clear", nil},
		// (GetSystemReqs: no textual skeleton any more — its integer logic is translated and tied
		// by theorems, Props/C12Tie.lean)
		{"c12Skel_setupSemaphores", "martian/core/jobmanager_local.go", "LocalJobManager", "setupSemaphores",
			func(s string) bool {
				return strings.Contains(s, "Sem") || strings.Contains(s, "rlim") || strings.Contains(s, "maxVmemMB") ||
					strings.Contains(s, "userProcs")
			}},
		{"c12Skel_Enqueue", "martian/core/jobmanager_local.go", "LocalJobManager", "Enqueue", enqueueKeep},
		// where the limits come from (Martian/SemaphoreConfig.lean); the sole static tie: strict
		{"c12Skel_NewLocalJobManager", "martian/core/jobmanager_local.go", "", "NewLocalJobManager",
			func(s string) bool { return strings.Contains(s, "self.set") || strings.Contains(s, "verifyJobManager") }},
		{"c12Skel_setMaxCores", "martian/core/jobmanager_local.go", "LocalJobManager", "setMaxCores", nil},
		{"c12Skel_setMaxMem", "martian/core/jobmanager_local.go", "LocalJobManager", "setMaxMem", nil},
		// the environment sampling that feeds the availability updates: which quantities go
		// into which Update* call (the values themselves are environment input)
		{"c12Skel_refreshResources", "martian/core/jobmanager_local.go", "LocalJobManager", "refreshResources",
			func(s string) bool {
				for _, k := range []string{"Sem.Update", "Sem != nil", "GetProcessTreeMemory", "sysMem.Get", "GetMaxProcs", "GetUserProcessCount", "load.Get", "limitLoad"} {
					if strings.Contains(s, k) {
						return true
					}
				}
				return false
			}},
		// cluster mode: reconciliation with the scheduler's queue (Martian/SemaphoreQueue.lean)
		{"c12Skel_queryQueue", "martian/core/pipestance.go", "Pipestance", "queryQueue",
			func(s string) bool { return !strings.Contains(s, "task") && !strings.Contains(s, "prepDone") }},
		{"c12Skel_checkQueue", "martian/core/jobmanager_remote.go", "RemoteJobManager", "checkQueue", nil},
		{"c12Skel_failNotRunning", "martian/core/metadata.go", "Metadata", "failNotRunning", nil},
		{"c12Skel_endRefresh", "martian/core/metadata.go", "Metadata", "endRefresh",
			func(s string) bool {
				return !strings.HasPrefix(s, "err") && !strings.HasPrefix(s, "if err") && !strings.HasPrefix(s, "var err")
			}},
	}
	for _, sp := range specs {
		sp := sp
		addFact(fact{
			name:   sp.fact,
			leanTy: "List String",
			deflt:  "[]",
			extract: func(repo string) (string, interface{}, error) {
				fset, f, err := parseFile(repo, sp.file)
				if err != nil {
					return "", nil, err
				}
				fd := findMethod(f, sp.recv, sp.fn)
				if sp.recv == "" {
					fd = findFunc(f, sp.fn)
				}
				if fd == nil || fd.Body == nil {
					return "", nil, fmt.Errorf("%s.%s not found", sp.recv, sp.fn)
				}
				sk := skeleton(fset, fd.Body, sp.keep)
				if len(sk) == 0 {
					return "", nil, fmt.Errorf("%s.%s: empty skeleton", sp.recv, sp.fn)
				}
				return leanStrList(sk), sk, nil
			},
		})
	}

	// durations of the queue-query reconciliation, in seconds
	durSecs := func(fset *token.FileSet, e ast.Expr) (int64, error) {
		unit := func(x ast.Expr) (int64, bool) {
			switch exprText(fset, x) {
			case "time.Second":
				return 1, true
			case "time.Minute":
				return 60, true
			case "time.Hour":
				return 3600, true
			}
			return 0, false
		}
		if u, ok := unit(e); ok {
			return u, nil
		}
		if b, ok := e.(*ast.BinaryExpr); ok && b.Op == token.MUL {
			for _, p := range [][2]ast.Expr{{b.X, b.Y}, {b.Y, b.X}} {
				if bl, ok := p[0].(*ast.BasicLit); ok && bl.Kind == token.INT {
					if u, ok := unit(p[1]); ok {
						n, err := strconv.ParseInt(bl.Value, 0, 64)
						return n * u, err
					}
				}
			}
		}
		return 0, fmt.Errorf("not a whole number of seconds: %s", exprText(fset, e))
	}
	addFact(fact{
		name:   "queueCheckLimitSecs",
		leanTy: "Nat",
		deflt:  "300",
		extract: func(repo string) (string, interface{}, error) {
			fset, f, err := parseFile(repo, "martian/core/pipestance.go")
			if err != nil {
				return "", nil, err
			}
			fd := findMethod(f, "Pipestance", "queryQueue")
			if fd == nil || fd.Body == nil {
				return "", nil, fmt.Errorf("Pipestance.queryQueue not found")
			}
			var val int64 = -1
			var bad error
			used := false
			ast.Inspect(fd.Body, func(n ast.Node) bool {
				switch x := n.(type) {
				case *ast.AssignStmt:
					if len(x.Lhs) == 1 && len(x.Rhs) == 1 && exprText(fset, x.Lhs[0]) == "QUEUE_CHECK_LIMIT" {
						if val >= 0 {
							bad = fmt.Errorf("QUEUE_CHECK_LIMIT assigned twice")
						}
						val, err = durSecs(fset, x.Rhs[0])
						if err != nil {
							bad = err
						}
					}
				case *ast.BinaryExpr:
					if exprText(fset, x) == "time.Since(self.lastQueueCheck) < QUEUE_CHECK_LIMIT" {
						used = true
					}
				}
				return true
			})
			if bad != nil {
				return "", nil, bad
			}
			if val < 0 || !used {
				return "", nil, fmt.Errorf("QUEUE_CHECK_LIMIT / its rate-limit test not found in queryQueue")
			}
			return strconv.FormatInt(val, 10), val, nil
		},
	})
	addFact(fact{
		name:   "queueGraceDefaultSecs",
		leanTy: "Nat",
		deflt:  "3600",
		extract: func(repo string) (string, interface{}, error) {
			fset, f, err := parseFile(repo, "martian/core/jobmanager.go")
			if err != nil {
				return "", nil, err
			}
			var val int64 = -1
			unitOK := false
			var bad error
			ast.Inspect(f, func(n ast.Node) bool {
				switch x := n.(type) {
				case *ast.IfStmt:
					if exprText(fset, x.Cond) == "queueGrace == 0" && len(x.Body.List) == 1 {
						if as, ok := x.Body.List[0].(*ast.AssignStmt); ok && len(as.Rhs) == 1 && exprText(fset, as.Lhs[0]) == "queueGrace" {
							val, err = durSecs(fset, as.Rhs[0])
							if err != nil {
								bad = err
							}
						}
					}
				case *ast.AssignStmt:
					if len(x.Lhs) == 1 && len(x.Rhs) == 1 && exprText(fset, x.Lhs[0]) == "queueGrace" &&
						exprText(fset, x.Rhs[0]) == "time.Duration(jobModeJson.QueueQueryGrace) * time.Second" {
						unitOK = true
					}
				}
				return true
			})
			if bad != nil {
				return "", nil, bad
			}
			if val < 0 || !unitOK {
				return "", nil, fmt.Errorf("queue_query_grace_secs conversion / default not found")
			}
			return strconv.FormatInt(val, 10), val, nil
		},
	})

	addFact(fact{
		name:   "localStartingThreads",
		leanTy: "Int",
		deflt:  "45",
		extract: func(repo string) (string, interface{}, error) {
			_, f, err := parseFile(repo, "martian/core/jobmanager_local.go")
			if err != nil {
				return "", nil, err
			}
			for _, d := range f.Decls {
				gd, ok := d.(*ast.GenDecl)
				if !ok || gd.Tok != token.CONST {
					continue
				}
				for _, spc := range gd.Specs {
					vs := spc.(*ast.ValueSpec)
					for i, n := range vs.Names {
						if n.Name == "startingThreadCount" && i < len(vs.Values) {
							if bl, ok := vs.Values[i].(*ast.BasicLit); ok && bl.Kind == token.INT {
								v, err := strconv.ParseInt(bl.Value, 0, 64)
								if err != nil {
									return "", nil, err
								}
								return strconv.FormatInt(v, 10), v, nil
							}
						}
					}
				}
			}
			return "", nil, fmt.Errorf("const startingThreadCount not found")
		},
	})

	addFact(fact{
		name:   "localReleaseOrder",
		leanTy: "List String",
		deflt:  `["centcoreSem", "memMBSem", "vmemMBSem", "procsSem"]`,
		extract: func(repo string) (string, interface{}, error) {
			_, f, err := parseFile(repo, "martian/core/jobmanager_local.go")
			if err != nil {
				return "", nil, err
			}
			fd := findMethod(f, "LocalJobManager", "Enqueue")
			if fd == nil {
				return "", nil, fmt.Errorf("LocalJobManager.Enqueue not found")
			}
			alias := map[string]string{}
			var order []string
			var bad error
			ast.Inspect(fd.Body, func(n ast.Node) bool {
				switch x := n.(type) {
				case *ast.AssignStmt:
					if x.Tok == token.DEFINE && len(x.Lhs) == 1 && len(x.Rhs) == 1 {
						if id, ok := x.Lhs[0].(*ast.Ident); ok {
							if se, ok := x.Rhs[0].(*ast.SelectorExpr); ok {
								if r, ok := se.X.(*ast.Ident); ok && r.Name == "self" {
									alias[id.Name] = se.Sel.Name
								}
							}
						}
					}
				case *ast.DeferStmt:
					fl, ok := x.Call.Fun.(*ast.FuncLit)
					if !ok {
						return true
					}
					ast.Inspect(fl.Body, func(m ast.Node) bool {
						c, ok := m.(*ast.CallExpr)
						if !ok {
							return true
						}
						se, ok := c.Fun.(*ast.SelectorExpr)
						if !ok || se.Sel.Name != "Release" {
							return true
						}
						switch rx := se.X.(type) {
						case *ast.SelectorExpr:
							order = append(order, rx.Sel.Name)
						case *ast.Ident:
							if a, ok := alias[rx.Name]; ok {
								order = append(order, a)
							} else {
								bad = fmt.Errorf("Release on unknown receiver %s", rx.Name)
							}
						}
						return true
					})
					return false
				}
				return true
			})
			if bad != nil {
				return "", nil, bad
			}
			if len(order) == 0 {
				return "", nil, fmt.Errorf("no deferred Release found in Enqueue")
			}
			return leanStrList(order), order, nil
		},
	})

	addFact(fact{
		name:   "updateSizeCalls",
		leanTy: "List (String × String × String × String)",
		deflt:  `[("jobmanager_local.go", "setupSemaphores", "self.procsSem", "rlimCur(rlim)")]`,
		extract: func(repo string) (string, interface{}, error) {
			var files []string
			for _, root := range []string{"martian", "cmd"} {
				filepath.Walk(filepath.Join(repo, root), func(p string, info os.FileInfo, err error) error {
					if err != nil || info.IsDir() {
						return nil
					}
					b := filepath.Base(p)
					if strings.HasSuffix(b, ".go") && !strings.HasSuffix(b, "_test.go") && !strings.HasPrefix(b, "verif_") {
						files = append(files, p)
					}
					return nil
				})
			}
			sort.Strings(files)
			if len(files) == 0 {
				return "", nil, fmt.Errorf("no Go sources found")
			}
			type call struct{ file, fn, recv, arg string }
			var calls []call
			for _, p := range files {
				src, err := os.ReadFile(p)
				if err != nil || !bytes.Contains(src, []byte("UpdateSize")) {
					continue
				}
				fset := token.NewFileSet()
				f, err := parser.ParseFile(fset, p, src, 0)
				if err != nil {
					return "", nil, err
				}
				for _, d := range f.Decls {
					fd, ok := d.(*ast.FuncDecl)
					if !ok || fd.Body == nil {
						continue
					}
					ast.Inspect(fd.Body, func(n ast.Node) bool {
						c, ok := n.(*ast.CallExpr)
						if !ok {
							return true
						}
						se, ok := c.Fun.(*ast.SelectorExpr)
						if !ok || se.Sel.Name != "UpdateSize" || len(c.Args) != 1 {
							return true
						}
						calls = append(calls, call{filepath.Base(p), fd.Name.Name, exprText(fset, se.X), exprText(fset, c.Args[0])})
						return true
					})
				}
			}
			var parts []string
			var js [][]string
			for _, c := range calls {
				parts = append(parts, fmt.Sprintf("(%s, %s, %s, %s)", leanStr(c.file), leanStr(c.fn), leanStr(c.recv), leanStr(c.arg)))
				js = append(js, []string{c.file, c.fn, c.recv, c.arg})
			}
			return "[" + strings.Join(parts, ", ") + "]", js, nil
		},
	})
}
