package main

import (
	"fmt"
	"go/ast"
	"go/build"
	"go/parser"
	"go/token"
	"path/filepath"
	"strconv"
	"strings"
)

// White space of the tokenizer (C08):
//
//   - tokSpaceAscii: the byte list of the ASCII fast path of leadingSpace
//     (tokenizer.go: `switch cb { case '\t', '\n', …: default: return … }`);
//     leadingSpace must call unicode.IsSpace for the rest, otherwise the fact
//     is not extracted.
//   - unicodeWhiteSpace: the table behind unicode.IsSpace for runes > 0xFF,
//     `_White_Space` of $GOROOT/src/unicode/tables.go of the toolchain the
//     harness is built with, as (lo, hi, stride) triples (R16 and R32).

func leadingSpaceAscii(repo string) ([]int, error) {
	_, f, err := parseFile(repo, "martian/syntax/tokenizer.go")
	if err != nil {
		return nil, err
	}
	fd := findFunc(f, "leadingSpace")
	if fd == nil {
		return nil, fmt.Errorf("func leadingSpace not found")
	}
	var res []int
	callsIsSpace := false
	nswitch := 0
	ast.Inspect(fd, func(n ast.Node) bool {
		switch x := n.(type) {
		case *ast.CallExpr:
			if sel, ok := x.Fun.(*ast.SelectorExpr); ok {
				if id, ok := sel.X.(*ast.Ident); ok && id.Name == "unicode" && sel.Sel.Name == "IsSpace" {
					callsIsSpace = true
				}
			}
		case *ast.SwitchStmt:
			nswitch++
			for _, st := range x.Body.List {
				cc := st.(*ast.CaseClause)
				if cc.List == nil {
					continue // default
				}
				if len(cc.Body) != 0 {
					err = fmt.Errorf("leadingSpace: a case of the ASCII switch has a body")
				}
				for _, e := range cc.List {
					lit, ok := e.(*ast.BasicLit)
					if !ok || lit.Kind != token.CHAR {
						err = fmt.Errorf("leadingSpace: case value is not a character literal")
						continue
					}
					v, _, _, uerr := strconv.UnquoteChar(lit.Value[1:len(lit.Value)-1], '\'')
					if uerr != nil || v >= 0x80 {
						err = fmt.Errorf("leadingSpace: bad case literal %s", lit.Value)
						continue
					}
					res = append(res, int(v))
				}
			}
		}
		return true
	})
	if err != nil {
		return nil, err
	}
	if nswitch != 1 || len(res) == 0 {
		return nil, fmt.Errorf("leadingSpace: expected exactly one switch over the ASCII white space bytes")
	}
	if !callsIsSpace {
		return nil, fmt.Errorf("leadingSpace does not call unicode.IsSpace")
	}
	return res, nil
}

func unicodeWhiteSpace() ([][3]int, error) {
	path := filepath.Join(build.Default.GOROOT, "src", "unicode", "tables.go")
	fset := token.NewFileSet()
	f, err := parser.ParseFile(fset, path, nil, 0)
	if err != nil {
		return nil, err
	}
	var res [][3]int
	found := false
	ast.Inspect(f, func(n ast.Node) bool {
		vs, ok := n.(*ast.ValueSpec)
		if !ok || len(vs.Names) != 1 || vs.Names[0].Name != "_White_Space" || len(vs.Values) != 1 {
			return true
		}
		found = true
		ast.Inspect(vs.Values[0], func(m ast.Node) bool {
			cl, ok := m.(*ast.CompositeLit)
			if !ok || cl.Type != nil || len(cl.Elts) != 3 {
				return true
			}
			var t [3]int
			for i, e := range cl.Elts {
				lit, ok := e.(*ast.BasicLit)
				if !ok || lit.Kind != token.INT {
					err = fmt.Errorf("_White_Space: range element is not an integer literal")
					return false
				}
				v, perr := strconv.ParseInt(lit.Value, 0, 64)
				if perr != nil {
					err = perr
					return false
				}
				t[i] = int(v)
			}
			res = append(res, t)
			return false
		})
		return false
	})
	if err != nil {
		return nil, err
	}
	if !found || len(res) == 0 {
		return nil, fmt.Errorf("_White_Space not found in %s", path)
	}
	return res, nil
}

func init() {
	addFact(fact{
		name:   "tokSpaceAscii",
		leanTy: "List Nat",
		deflt:  "[0x9, 0xa, 0xb, 0xc, 0xd, 0x20]",
		extract: func(repo string) (string, interface{}, error) {
			bs, err := leadingSpaceAscii(repo)
			if err != nil {
				return "", nil, err
			}
			return leanNatList(bs), bs, nil
		},
	})
	addFact(fact{
		name:   "unicodeWhiteSpace",
		leanTy: "List (Nat × Nat × Nat)",
		deflt:  "[(0x9, 0xd, 1), (0x20, 0x85, 101), (0xa0, 0x1680, 5600), (0x2000, 0x200a, 1), (0x2028, 0x2029, 1), (0x202f, 0x205f, 48), (0x3000, 0x3000, 1)]",
		extract: func(repo string) (string, interface{}, error) {
			ts, err := unicodeWhiteSpace()
			if err != nil {
				return "", nil, err
			}
			o := make([]string, len(ts))
			for i, t := range ts {
				o[i] = fmt.Sprintf("(0x%x, 0x%x, %d)", t[0], t[1], t[2])
			}
			return "[" + strings.Join(o, ", ") + "]", ts, nil
		},
	})
}
