package main

import (
	"fmt"
	"go/ast"
	"go/token"
	"reflect"
	"strconv"
	"strings"
)

// Facts for C16 (lean/Martian/Invocation.lean):
//
//   invocationSplitKey  – the JSON key under which a split argument travels:
//                         the struct tag `json:"split"` in convertToExp
//                         (martian/core/runtime.go) and the literal
//                         `{"split":` written by SplitExp.encodeJSON
//                         (martian/syntax/format_exp_json.go); both must agree.
//   floatExpFormat      – (format verb, precision, bit size) of the
//                         strconv.AppendFloat call in FloatExp.format and
//                         FloatExp.EncodeJSON: the model's printsAsInt is the
//                         rule of verb 'g' with precision -1.
func init() {
	addFact(fact{
		name:   "invocationSplitKey",
		leanTy: "List UInt8",
		deflt:  "[0x73, 0x70, 0x6C, 0x69, 0x74]",
		extract: func(repo string) (string, interface{}, error) {
			_, f, err := parseFile(repo, "martian/core/runtime.go")
			if err != nil {
				return "", nil, err
			}
			fd := findFunc(f, "convertToExp")
			if fd == nil {
				return "", nil, fmt.Errorf("convertToExp not found")
			}
			tagKey := ""
			ast.Inspect(fd.Body, func(n ast.Node) bool {
				st, ok := n.(*ast.StructType)
				if !ok || tagKey != "" {
					return true
				}
				for _, fl := range st.Fields.List {
					if fl.Tag == nil {
						continue
					}
					if s, err := strconv.Unquote(fl.Tag.Value); err == nil {
						if k := reflect.StructTag(s).Get("json"); k != "" {
							tagKey = strings.Split(k, ",")[0]
						}
					}
				}
				return true
			})
			if tagKey == "" {
				return "", nil, fmt.Errorf("no json struct tag in convertToExp")
			}
			_, g, err := parseFile(repo, "martian/syntax/format_exp_json.go")
			if err != nil {
				return "", nil, err
			}
			md := findMethod(g, "SplitExp", "encodeJSON")
			if md == nil {
				return "", nil, fmt.Errorf("SplitExp.encodeJSON not found")
			}
			want := `{"` + tagKey + `":`
			seen := false
			ast.Inspect(md.Body, func(n ast.Node) bool {
				if bl, ok := n.(*ast.BasicLit); ok && bl.Kind == token.STRING {
					if s, err := strconv.Unquote(bl.Value); err == nil && s == want {
						seen = true
					}
				}
				return true
			})
			if !seen {
				return "", nil, fmt.Errorf("SplitExp.encodeJSON does not write %s (convertToExp reads key %q)", want, tagKey)
			}
			return leanBytes(tagKey), tagKey, nil
		},
	})
	addFact(fact{
		name:   "floatExpFormat",
		leanTy: "List (UInt8 × Int × Int)",
		deflt:  "[(0x67, -1, 64), (0x67, -1, 64)]",
		extract: func(repo string) (string, interface{}, error) {
			var out []string
			var js []string
			for _, site := range [][3]string{
				{"martian/syntax/format_exp.go", "FloatExp", "format"},
				{"martian/syntax/format_exp_json.go", "FloatExp", "EncodeJSON"},
			} {
				_, f, err := parseFile(repo, site[0])
				if err != nil {
					return "", nil, err
				}
				md := findMethod(f, site[1], site[2])
				if md == nil {
					return "", nil, fmt.Errorf("%s.%s not found", site[1], site[2])
				}
				found := false
				var bad error
				ast.Inspect(md.Body, func(n ast.Node) bool {
					call, ok := n.(*ast.CallExpr)
					if !ok || found {
						return true
					}
					sel, ok := call.Fun.(*ast.SelectorExpr)
					if !ok || sel.Sel.Name != "AppendFloat" || len(call.Args) != 5 {
						return true
					}
					found = true
					verb, ok := call.Args[2].(*ast.BasicLit)
					if !ok || verb.Kind != token.CHAR {
						bad = fmt.Errorf("format verb is not a literal")
						return false
					}
					v, err := strconv.Unquote(verb.Value)
					if err != nil || len(v) != 1 {
						bad = fmt.Errorf("format verb %s", verb.Value)
						return false
					}
					num := func(e ast.Expr) (int, error) {
						neg := false
						if u, ok := e.(*ast.UnaryExpr); ok && u.Op == token.SUB {
							neg, e = true, u.X
						}
						bl, ok := e.(*ast.BasicLit)
						if !ok || bl.Kind != token.INT {
							return 0, fmt.Errorf("not an integer literal")
						}
						n, err := strconv.Atoi(bl.Value)
						if neg {
							n = -n
						}
						return n, err
					}
					prec, err1 := num(call.Args[3])
					bits, err2 := num(call.Args[4])
					if err1 != nil || err2 != nil {
						bad = fmt.Errorf("precision/bitsize not literal")
						return false
					}
					out = append(out, fmt.Sprintf("(0x%02X, %d, %d)", v[0], prec, bits))
					js = append(js, fmt.Sprintf("%s.%s: '%s' %d %d", site[1], site[2], v, prec, bits))
					return false
				})
				if bad != nil {
					return "", nil, bad
				}
				if !found {
					return "", nil, fmt.Errorf("no strconv.AppendFloat call in %s.%s", site[1], site[2])
				}
			}
			return "[" + strings.Join(out, ", ") + "]", js, nil
		},
	})
}
