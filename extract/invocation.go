package main

import (
	"fmt"
	"go/ast"
	"go/printer"
	"go/token"
	"reflect"
	"strconv"
	"strings"
)

// Facts for C16 (lean/Martian/Invocation.lean):
//
//   invocationSplitKey  – the JSON key under which a split argument travels:
//                         the struct tag `json:"split"` in convertToExp
//                         (martian/core/runtime.go) and the literal
//                         `{"split":` written by SplitExp.encodeJSON
//                         (martian/syntax/format_exp_json.go); both must agree.
//   floatExpFormat      – (format verb, precision, bit size) of the
//                         strconv.AppendFloat call in FloatExp.format (MRO text)
//                         and FloatExp.appendJSON (JSON fallback): the model's
//                         textAsInt is the rule of verb 'g' with precision -1.
//   floatJsonShape      – the integer guard of FloatExp.appendJSON and its callers
//                         (the model's jsonAsInt).
func init() {
	addFact(fact{
		name:   "invocationSplitKey",
		leanTy: "List UInt8",
		deflt:  "[0x73, 0x70, 0x6C, 0x69, 0x74]",
		extract: func(repo string) (string, interface{}, error) {
			_, f, err := parseFile(repo, "martian/core/runtime.go")
			if err != nil {
				return "", nil, err
			}
			fd := findFunc(f, "convertToExp")
			if fd == nil {
				return "", nil, fmt.Errorf("convertToExp not found")
			}
			tagKey := ""
			ast.Inspect(fd.Body, func(n ast.Node) bool {
				st, ok := n.(*ast.StructType)
				if !ok || tagKey != "" {
					return true
				}
				for _, fl := range st.Fields.List {
					if fl.Tag == nil {
						continue
					}
					if s, err := strconv.Unquote(fl.Tag.Value); err == nil {
						if k := reflect.StructTag(s).Get("json"); k != "" {
							tagKey = strings.Split(k, ",")[0]
						}
					}
				}
				return true
			})
			if tagKey == "" {
				return "", nil, fmt.Errorf("no json struct tag in convertToExp")
			}
			_, g, err := parseFile(repo, "martian/syntax/format_exp_json.go")
			if err != nil {
				return "", nil, err
			}
			md := findMethod(g, "SplitExp", "encodeJSON")
			if md == nil {
				return "", nil, fmt.Errorf("SplitExp.encodeJSON not found")
			}
			want := `{"` + tagKey + `":`
			seen := false
			ast.Inspect(md.Body, func(n ast.Node) bool {
				if bl, ok := n.(*ast.BasicLit); ok && bl.Kind == token.STRING {
					if s, err := strconv.Unquote(bl.Value); err == nil && s == want {
						seen = true
					}
				}
				return true
			})
			if !seen {
				return "", nil, fmt.Errorf("SplitExp.encodeJSON does not write %s (convertToExp reads key %q)", want, tagKey)
			}
			return leanBytes(tagKey), tagKey, nil
		},
	})
	addFact(fact{
		name:   "floatExpFormat",
		leanTy: "List (UInt8 × Int × Int)",
		deflt:  "[(0x67, -1, 64), (0x67, -1, 64)]",
		extract: func(repo string) (string, interface{}, error) {
			var out []string
			var js []string
			for _, site := range [][3]string{
				{"martian/syntax/format_exp.go", "FloatExp", "format"},
				{"martian/syntax/format_exp_json.go", "FloatExp", "appendJSON"},
			} {
				_, f, err := parseFile(repo, site[0])
				if err != nil {
					return "", nil, err
				}
				md := findMethod(f, site[1], site[2])
				if md == nil {
					return "", nil, fmt.Errorf("%s.%s not found", site[1], site[2])
				}
				n := 0
				var bad error
				ast.Inspect(md.Body, func(nd ast.Node) bool {
					call, ok := nd.(*ast.CallExpr)
					if !ok {
						return true
					}
					sel, ok := call.Fun.(*ast.SelectorExpr)
					if !ok || sel.Sel.Name != "AppendFloat" || len(call.Args) != 5 {
						return true
					}
					n++
					verb, ok := call.Args[2].(*ast.BasicLit)
					if !ok || verb.Kind != token.CHAR {
						bad = fmt.Errorf("format verb is not a literal")
						return false
					}
					v, err := strconv.Unquote(verb.Value)
					if err != nil || len(v) != 1 {
						bad = fmt.Errorf("format verb %s", verb.Value)
						return false
					}
					prec, err1 := c16IntLit(call.Args[3])
					bits, err2 := c16IntLit(call.Args[4])
					if err1 != nil || err2 != nil {
						bad = fmt.Errorf("precision/bitsize not literal")
						return false
					}
					out = append(out, fmt.Sprintf("(0x%02X, %d, %d)", v[0], prec, bits))
					js = append(js, fmt.Sprintf("%s.%s: '%s' %d %d", site[1], site[2], v, prec, bits))
					return false
				})
				if bad != nil {
					return "", nil, bad
				}
				if n != 1 {
					return "", nil, fmt.Errorf("%d strconv.AppendFloat calls in %s.%s (expected 1)", n, site[1], site[2])
				}
			}
			return "[" + strings.Join(out, ", ") + "]", js, nil
		},
	})
	// floatJsonShape: FloatExp.appendJSON is
	//     if <range> { if <init>; <cond> { return <then> } } ; return strconv.AppendFloat(...)
	// (the range check is optional for the extractor, required by the Lean obligation)
	// and MarshalJSON / EncodeJSON of FloatExp call it.  The statement texts are
	// emitted verbatim so that any change of the guard or of the integer printer
	// breaks the Lean obligation facts_float_json_shape.
	addFact(fact{
		name:   "floatJsonShape",
		leanTy: "List String",
		deflt: `["range e.Value >= -9223372036854775808.0 && e.Value < 9223372036854775808.0", ` +
			`"init i := int64(e.Value)", "cond float64(i) == e.Value", "then strconv.AppendInt(buf, i, 10)", ` +
			`"caller EncodeJSON", "caller MarshalJSON"]`,
		extract: func(repo string) (string, interface{}, error) {
			fset, f, err := parseFile(repo, "martian/syntax/format_exp_json.go")
			if err != nil {
				return "", nil, err
			}
			md := findMethod(f, "FloatExp", "appendJSON")
			if md == nil {
				return "", nil, fmt.Errorf("FloatExp.appendJSON not found")
			}
			show := func(n ast.Node) string {
				var sb strings.Builder
				printer.Fprint(&sb, fset, n)
				return strings.Join(strings.Fields(sb.String()), " ")
			}
			if len(md.Body.List) != 2 {
				return "", nil, fmt.Errorf("appendJSON has %d statements (expected: guarded return, return)", len(md.Body.List))
			}
			ifs, ok := md.Body.List[0].(*ast.IfStmt)
			rangeGuard := ""
			if ok && ifs.Init == nil && ifs.Else == nil && len(ifs.Body.List) == 1 {
				// if <range check> { if init; cond { return ... } }
				if inner, ok2 := ifs.Body.List[0].(*ast.IfStmt); ok2 {
					rangeGuard = show(ifs.Cond)
					ifs = inner
				}
			}
			if !ok || ifs.Init == nil || ifs.Else != nil || len(ifs.Body.List) != 1 {
				return "", nil, fmt.Errorf("appendJSON does not start with `if init; cond { return ... }`")
			}
			ret, ok := ifs.Body.List[0].(*ast.ReturnStmt)
			if !ok || len(ret.Results) != 1 {
				return "", nil, fmt.Errorf("guard body is not a single return")
			}
			if r2, ok := md.Body.List[1].(*ast.ReturnStmt); !ok || len(r2.Results) != 1 ||
				!strings.HasPrefix(show(r2.Results[0]), "strconv.AppendFloat(") {
				return "", nil, fmt.Errorf("appendJSON does not end with return strconv.AppendFloat(...)")
			}
			items := []string{"init " + show(ifs.Init), "cond " + show(ifs.Cond), "then " + show(ret.Results[0])}
			if rangeGuard != "" {
				items = append([]string{"range " + rangeGuard}, items...)
			}
			for _, m := range []string{"EncodeJSON", "MarshalJSON"} {
				fd := findMethod(f, "FloatExp", m)
				if fd == nil {
					return "", nil, fmt.Errorf("FloatExp.%s not found", m)
				}
				calls, other := false, false
				ast.Inspect(fd.Body, func(nd ast.Node) bool {
					if call, ok := nd.(*ast.CallExpr); ok {
						if sel, ok := call.Fun.(*ast.SelectorExpr); ok {
							if sel.Sel.Name == "appendJSON" {
								calls = true
							}
							if sel.Sel.Name == "AppendFloat" || sel.Sel.Name == "FormatFloat" {
								other = true
							}
						}
					}
					return true
				})
				if calls && !other {
					items = append(items, "caller "+m)
				} else {
					items = append(items, "NOT-caller "+m)
				}
			}
			return leanStrList(items), items, nil
		},
	})
}

func c16IntLit(e ast.Expr) (int, error) {
	neg := false
	if u, ok := e.(*ast.UnaryExpr); ok && u.Op == token.SUB {
		neg, e = true, u.X
	}
	bl, ok := e.(*ast.BasicLit)
	if !ok || bl.Kind != token.INT {
		return 0, fmt.Errorf("not an integer literal")
	}
	n, err := strconv.Atoi(bl.Value)
	if neg {
		n = -n
	}
	return n, err
}
