package main

import (
	"fmt"
	"go/ast"
	"go/token"
	"sort"
	"strconv"
	"strings"
)

// Facts for C11 (fork names and journal routing):
//
//	journalPairs      the (old, new) pairs of `encodeJournalName =
//	                  strings.NewReplacer(...)` in martian/core/stage.go
//	                  (every old string must be a single byte)
//	jobJournalRe      the pattern text of `jobJournalRe` in martian/core/node.go
//	metadataFileNames the MetadataFileName constants of martian/core/metadata.go
//	journalPrefixes   SplitPrefix / JoinPrefix
//	forkIdReenters    whether the recursive call that ForkId.forkId makes after
//	                  flushing an array index in front of a map part starts at
//	                  the map part (`start+i`, true) or after it
//	                  (`start+i+1`, false)

// findVarInit returns the initialiser of a package-level `var name = ...`.
func findVarInit(f *ast.File, name string) ast.Expr {
	for _, d := range f.Decls {
		gd, ok := d.(*ast.GenDecl)
		if !ok || gd.Tok != token.VAR {
			continue
		}
		for _, sp := range gd.Specs {
			vs := sp.(*ast.ValueSpec)
			for i, n := range vs.Names {
				if n.Name == name && i < len(vs.Values) {
					return vs.Values[i]
				}
			}
		}
	}
	return nil
}

func selectorIs(e ast.Expr, pkg, name string) bool {
	se, ok := e.(*ast.SelectorExpr)
	if !ok || se.Sel.Name != name {
		return false
	}
	id, ok := se.X.(*ast.Ident)
	return ok && id.Name == pkg
}

func stringLit(e ast.Expr) (string, bool) {
	bl, ok := e.(*ast.BasicLit)
	if !ok || bl.Kind != token.STRING {
		return "", false
	}
	s, err := strconv.Unquote(bl.Value)
	return s, err == nil
}

func leanBytesList(xs []string) string {
	o := make([]string, len(xs))
	for i, x := range xs {
		o[i] = leanBytes(x)
	}
	return "[" + strings.Join(o, ", ") + "]"
}

func init() {
	addFact(fact{
		name:   "journalPairs",
		leanTy: "List (UInt8 × List UInt8)",
		deflt:  "[(0x2E, [0x25, 0x32, 0x45]), (0x2F, [0x25, 0x32, 0x46])]",
		extract: func(repo string) (string, interface{}, error) {
			_, f, err := parseFile(repo, "martian/core/stage.go")
			if err != nil {
				return "", nil, err
			}
			init := findVarInit(f, "encodeJournalName")
			call, ok := init.(*ast.CallExpr)
			if !ok || !selectorIs(call.Fun, "strings", "NewReplacer") {
				return "", nil, fmt.Errorf("encodeJournalName is not a strings.NewReplacer(...) variable")
			}
			if len(call.Args)%2 != 0 {
				return "", nil, fmt.Errorf("odd number of NewReplacer arguments")
			}
			var parts []string
			js := [][2]string{}
			for i := 0; i < len(call.Args); i += 2 {
				o, ok1 := stringLit(call.Args[i])
				n, ok2 := stringLit(call.Args[i+1])
				if !ok1 || !ok2 {
					return "", nil, fmt.Errorf("non-literal NewReplacer argument")
				}
				if len(o) != 1 {
					return "", nil, fmt.Errorf("old string %q is not a single byte (the model covers byte replacers only)", o)
				}
				parts = append(parts, fmt.Sprintf("(0x%02X, %s)", o[0], leanBytes(n)))
				js = append(js, [2]string{o, n})
			}
			return "[" + strings.Join(parts, ", ") + "]", js, nil
		},
	})
	addFact(fact{
		name:   "jobJournalRe",
		leanTy: "String",
		deflt:  leanStr(`(.*)\.fork([^.]+)(?:\.chnk(\d+))?(?:\.u([a-f0-9]{10}))?\.(.*)$`),
		extract: func(repo string) (string, interface{}, error) {
			_, f, err := parseFile(repo, "martian/core/node.go")
			if err != nil {
				return "", nil, err
			}
			init := findVarInit(f, "jobJournalRe")
			call, ok := init.(*ast.CallExpr)
			if !ok || !selectorIs(call.Fun, "regexp", "MustCompile") || len(call.Args) != 1 {
				return "", nil, fmt.Errorf("jobJournalRe is not a regexp.MustCompile(literal) variable")
			}
			s, ok := stringLit(call.Args[0])
			if !ok {
				return "", nil, fmt.Errorf("non-literal pattern")
			}
			return leanStr(s), s, nil
		},
	})
	addFact(fact{
		name:   "metadataFileNames",
		leanTy: "List (List UInt8)",
		deflt:  "[]",
		extract: func(repo string) (string, interface{}, error) {
			_, f, err := parseFile(repo, "martian/core/metadata.go")
			if err != nil {
				return "", nil, err
			}
			var names []string
			for _, d := range f.Decls {
				gd, ok := d.(*ast.GenDecl)
				if !ok || gd.Tok != token.CONST {
					continue
				}
				for _, sp := range gd.Specs {
					vs := sp.(*ast.ValueSpec)
					id, ok := vs.Type.(*ast.Ident)
					if !ok || id.Name != "MetadataFileName" {
						continue
					}
					for i, n := range vs.Names {
						if i >= len(vs.Values) {
							continue
						}
						s, ok := stringLit(vs.Values[i])
						if !ok {
							return "", nil, fmt.Errorf("non-literal MetadataFileName constant %s", n.Name)
						}
						if n.Name == "AnyFile" {
							continue
						}
						names = append(names, s)
					}
				}
			}
			if len(names) < 10 {
				return "", nil, fmt.Errorf("only %d MetadataFileName constants found", len(names))
			}
			sort.Strings(names)
			return leanBytesList(names), names, nil
		},
	})
	addFact(fact{
		name:   "journalPrefixes",
		leanTy: "List (List UInt8)",
		deflt:  "[[0x73, 0x70, 0x6C, 0x69, 0x74, 0x5F], [0x6A, 0x6F, 0x69, 0x6E, 0x5F]]",
		extract: func(repo string) (string, interface{}, error) {
			_, f, err := parseFile(repo, "martian/core/metadata.go")
			if err != nil {
				return "", nil, err
			}
			got := map[string]string{}
			for _, d := range f.Decls {
				gd, ok := d.(*ast.GenDecl)
				if !ok || gd.Tok != token.CONST {
					continue
				}
				for _, sp := range gd.Specs {
					vs := sp.(*ast.ValueSpec)
					for i, n := range vs.Names {
						if (n.Name == "SplitPrefix" || n.Name == "JoinPrefix") && i < len(vs.Values) {
							if s, ok := stringLit(vs.Values[i]); ok {
								got[n.Name] = s
							}
						}
					}
				}
			}
			if len(got) != 2 {
				return "", nil, fmt.Errorf("SplitPrefix/JoinPrefix not found")
			}
			xs := []string{got["SplitPrefix"], got["JoinPrefix"]}
			return leanBytesList(xs), xs, nil
		},
	})
	addFact(fact{
		name:   "forkIdReenters",
		leanTy: "Bool",
		deflt:  "true",
		extract: func(repo string) (string, interface{}, error) {
			_, f, err := parseFile(repo, "martian/core/fork.go")
			if err != nil {
				return "", nil, err
			}
			fd := findMethod(f, "ForkId", "forkId")
			if fd == nil {
				return "", nil, fmt.Errorf("ForkId.forkId not found")
			}
			// the `case syntax.ModeMapCall:` clause of the switch on part.Id.Mode():
			// its last statement is `return f.forkId(buf, <start expr>)`.
			var result *bool
			var bad error
			ast.Inspect(fd.Body, func(n ast.Node) bool {
				cc, ok := n.(*ast.CaseClause)
				if !ok || len(cc.List) != 1 || !selectorIs(cc.List[0], "syntax", "ModeMapCall") || len(cc.Body) == 0 {
					return true
				}
				ret, ok := cc.Body[len(cc.Body)-1].(*ast.ReturnStmt)
				if !ok || len(ret.Results) != 1 {
					bad = fmt.Errorf("ModeMapCall clause does not end in `return f.forkId(...)`")
					return false
				}
				call, ok := ret.Results[0].(*ast.CallExpr)
				if !ok || len(call.Args) != 2 {
					bad = fmt.Errorf("ModeMapCall clause does not end in `return f.forkId(...)`")
					return false
				}
				if se, ok := call.Fun.(*ast.SelectorExpr); !ok || se.Sel.Name != "forkId" {
					bad = fmt.Errorf("ModeMapCall clause does not end in `return f.forkId(...)`")
					return false
				}
				var sb strings.Builder
				var flat func(e ast.Expr)
				flat = func(e ast.Expr) {
					switch e := e.(type) {
					case *ast.BinaryExpr:
						flat(e.X)
						sb.WriteString(e.Op.String())
						flat(e.Y)
					case *ast.Ident:
						sb.WriteString(e.Name)
					case *ast.BasicLit:
						sb.WriteString(e.Value)
					case *ast.ParenExpr:
						flat(e.X)
					default:
						sb.WriteString("?")
					}
				}
				flat(call.Args[1])
				var v bool
				switch sb.String() {
				case "start+i+1":
					v = false
				case "start+i":
					v = true
				default:
					bad = fmt.Errorf("unrecognised recursion start %q", sb.String())
					return false
				}
				result = &v
				return false
			})
			if bad != nil {
				return "", nil, bad
			}
			if result == nil {
				return "", nil, fmt.Errorf("ModeMapCall clause not found in ForkId.forkId")
			}
			return fmt.Sprint(*result), *result, nil
		},
	})
	addFact(fact{
		name:   "forkIdSkipsEmpty",
		leanTy: "Bool",
		deflt:  "true",
		extract: func(repo string) (string, interface{}, error) {
			_, f, err := parseFile(repo, "martian/core/fork.go")
			if err != nil {
				return "", nil, err
			}
			fd := findMethod(f, "ForkId", "forkId")
			if fd == nil {
				return "", nil, fmt.Errorf("ForkId.forkId not found")
			}
			// the first `if alen == 0 { ... }` (the `else if` after `alen < 0`):
			// `continue` = the empty part is skipped, `return` = the id stops there.
			var result *bool
			var bad error
			ast.Inspect(fd.Body, func(n ast.Node) bool {
				if result != nil || bad != nil {
					return false
				}
				is, ok := n.(*ast.IfStmt)
				if !ok {
					return true
				}
				be, ok := is.Cond.(*ast.BinaryExpr)
				if !ok || be.Op != token.EQL {
					return true
				}
				x, ok1 := be.X.(*ast.Ident)
				y, ok2 := be.Y.(*ast.BasicLit)
				if !ok1 || !ok2 || x.Name != "alen" || y.Value != "0" {
					return true
				}
				if len(is.Body.List) == 0 {
					bad = fmt.Errorf("empty body of `if alen == 0`")
					return false
				}
				var v bool
				switch st := is.Body.List[len(is.Body.List)-1].(type) {
				case *ast.BranchStmt:
					if st.Tok != token.CONTINUE {
						bad = fmt.Errorf("unexpected branch statement in `if alen == 0`")
						return false
					}
					v = true
				case *ast.ReturnStmt:
					v = false
				default:
					bad = fmt.Errorf("unrecognised body of `if alen == 0`")
					return false
				}
				result = &v
				return false
			})
			if bad != nil {
				return "", nil, bad
			}
			if result == nil {
				return "", nil, fmt.Errorf("`if alen == 0` not found in ForkId.forkId")
			}
			return fmt.Sprint(*result), *result, nil
		},
	})
}
