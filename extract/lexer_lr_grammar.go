package main

import (
	"fmt"
	"go/ast"
	"os"
	"path/filepath"
	"sort"
	"strings"
)

// The productions of martian/syntax/grammar.y (rules section between the two `%%`), numbered as
// goyacc numbers them (rule 0 is `$accept`, the rules follow in source order from 1): left-hand side
// and right-hand side symbols (`mmProdRhs`).  The Lean side checks the numbering against the parser
// tables (length of every right-hand side = mmR2[n]).
// And the CONVERSION CALL SITES of the semantic actions of grammar.go (`mmConvSites`): for every
// `case N:` of the `switch mmnt`, the calls of parseInt / parseFloat / tryParseFloat32 / parseFloat32 /
// unquote / (x).unquote with an argument of the form `mmDollar[i].val`, as (N, function, i).

type yProd struct {
	Lhs string
	Rhs []string
}

func yaccProductions(repo string) ([]yProd, error) {
	b, err := os.ReadFile(filepath.Join(repo, "martian/syntax/grammar.y"))
	if err != nil {
		return nil, err
	}
	src := string(b)
	i := strings.Index(src, "\n%%")
	if i < 0 {
		return nil, fmt.Errorf("grammar.y: no %%%% line")
	}
	src = src[i+3:]
	if j := strings.Index(src, "\n%%"); j >= 0 {
		src = src[:j]
	}
	// tokenise
	var toks []string
	for p := 0; p < len(src); {
		c := src[p]
		switch {
		case c == ' ' || c == '\t' || c == '\n' || c == '\r':
			p++
		case strings.HasPrefix(src[p:], "//"):
			for p < len(src) && src[p] != '\n' {
				p++
			}
		case strings.HasPrefix(src[p:], "/*"):
			j := strings.Index(src[p+2:], "*/")
			if j < 0 {
				return nil, fmt.Errorf("grammar.y: unterminated comment")
			}
			p += j + 4
		case c == '{':
			// action: skip to the matching brace (strings, runes and comments respected)
			depth := 0
			for p < len(src) {
				switch {
				case strings.HasPrefix(src[p:], "//"):
					for p < len(src) && src[p] != '\n' {
						p++
					}
					continue
				case strings.HasPrefix(src[p:], "/*"):
					j := strings.Index(src[p+2:], "*/")
					if j < 0 {
						return nil, fmt.Errorf("grammar.y: unterminated comment in an action")
					}
					p += j + 4
					continue
				case src[p] == '"' || src[p] == '\'' || src[p] == '`':
					q := src[p]
					p++
					for p < len(src) && src[p] != q {
						if src[p] == '\\' && q != '`' {
							p++
						}
						p++
					}
					p++
					continue
				case src[p] == '{':
					depth++
				case src[p] == '}':
					depth--
				}
				p++
				if depth == 0 {
					break
				}
			}
			toks = append(toks, "{}")
		case c == '\'':
			j := p + 1
			for j < len(src) && src[j] != '\'' {
				if src[j] == '\\' {
					j++
				}
				j++
			}
			toks = append(toks, src[p:j+1])
			p = j + 1
		case c == ':' || c == '|' || c == ';':
			toks = append(toks, string(c))
			p++
		case c == '%':
			// %prec etc. are not used in this grammar
			return nil, fmt.Errorf("grammar.y: unsupported %% directive in the rules section")
		case c == '_' || c >= 'a' && c <= 'z' || c >= 'A' && c <= 'Z':
			j := p
			for j < len(src) && (src[j] == '_' || src[j] >= 'a' && src[j] <= 'z' || src[j] >= 'A' && src[j] <= 'Z' || src[j] >= '0' && src[j] <= '9') {
				j++
			}
			toks = append(toks, src[p:j])
			p = j
		default:
			return nil, fmt.Errorf("grammar.y: unexpected character %q in the rules section", c)
		}
	}
	// rules: lhs ':' alt ('|' alt)* ';'?   (the ';' is optional in yacc: a rule also ends at `ident ':'`)
	var prods []yProd
	lhs := ""
	var cur []string
	flush := func() {
		if lhs != "" {
			prods = append(prods, yProd{lhs, cur})
		}
		cur = nil
	}
	for k := 0; k < len(toks); k++ {
		t := toks[k]
		switch {
		case k+1 < len(toks) && toks[k+1] == ":" && t != "{}" && t != "|" && t != ";" && t != ":":
			flush()
			lhs = t
			k++
		case t == "|":
			flush()
		case t == ";":
			flush()
			lhs = ""
		case t == "{}":
			// an action in the middle of a rule would be a hidden production: not used here
			if k+1 < len(toks) && toks[k+1] != "|" && toks[k+1] != ";" && !(k+2 < len(toks) && toks[k+2] == ":") {
				return nil, fmt.Errorf("grammar.y: mid-rule action in rule %s", lhs)
			}
		default:
			if lhs == "" {
				return nil, fmt.Errorf("grammar.y: symbol %s outside a rule", t)
			}
			cur = append(cur, t)
		}
	}
	flush()
	if len(prods) == 0 {
		return nil, fmt.Errorf("grammar.y: no rule found")
	}
	return prods, nil
}

type convSite struct {
	Prod int
	Fn   string
	Arg  int
}

func lrConvSites(repo string) ([]convSite, error) {
	_, f, err := parseFile(repo, lrGrammarFile)
	if err != nil {
		return nil, err
	}
	fd := findMethod(f, "mmParserImpl", "Parse")
	if fd == nil || fd.Body == nil {
		return nil, fmt.Errorf("method (*mmParserImpl).Parse not found")
	}
	var sw *ast.SwitchStmt
	ast.Inspect(fd.Body, func(n ast.Node) bool {
		if s, ok := n.(*ast.SwitchStmt); ok {
			if id, ok := s.Tag.(*ast.Ident); ok && id.Name == "mmnt" {
				sw = s
				return false
			}
		}
		return true
	})
	if sw == nil {
		return nil, fmt.Errorf("`switch mmnt` not found")
	}
	conv := map[string]bool{"parseInt": true, "parseFloat": true, "parseFloat32": true, "tryParseFloat32": true,
		"tryParseFloat": true, "tryParseInt": true, "unquote": true, "unquoteBytes": true}
	var res []convSite
	var ierr error
	for _, st := range sw.Body.List {
		cc, ok := st.(*ast.CaseClause)
		if !ok || cc.List == nil {
			continue
		}
		n, err := lrIntExpr(cc.List[0])
		if err != nil || len(cc.List) != 1 {
			return nil, fmt.Errorf("switch mmnt: unexpected case list")
		}
		for _, b := range cc.Body {
			ast.Inspect(b, func(x ast.Node) bool {
				call, ok := x.(*ast.CallExpr)
				if !ok {
					return true
				}
				name := ""
				switch fn := call.Fun.(type) {
				case *ast.Ident:
					name = fn.Name
				case *ast.SelectorExpr:
					name = fn.Sel.Name
				}
				if !conv[name] {
					return true
				}
				// the argument must be mmDollar[i].val
				arg := -1
				if len(call.Args) == 1 {
					if sel, ok := call.Args[0].(*ast.SelectorExpr); ok && sel.Sel.Name == "val" {
						if ix, ok := sel.X.(*ast.IndexExpr); ok {
							if id, ok := ix.X.(*ast.Ident); ok && id.Name == "mmDollar" {
								if v, err := lrIntExpr(ix.Index); err == nil {
									arg = v
								}
							}
						}
					}
				}
				if arg < 0 {
					ierr = fmt.Errorf("production %d: %s is called on something that is not mmDollar[i].val", n, name)
				}
				res = append(res, convSite{n, name, arg})
				return true
			})
		}
	}
	if ierr != nil {
		return nil, ierr
	}
	sort.SliceStable(res, func(i, j int) bool {
		if res[i].Prod != res[j].Prod {
			return res[i].Prod < res[j].Prod
		}
		return res[i].Arg < res[j].Arg
	})
	return res, nil
}

// mmDollarLen: the `mmDollar = mmS[mmpt-K : mmpt+1]` statement goyacc puts at the head of every action
// that uses `$i`: (production, K).  The slice is in range iff K entries lie above the bottom, i.e.
// K = mmR2[n] (the Lean side checks that) together with the no-underflow theorem.
func lrDollarLens(repo string) ([][2]int, error) {
	_, f, err := parseFile(repo, lrGrammarFile)
	if err != nil {
		return nil, err
	}
	fd := findMethod(f, "mmParserImpl", "Parse")
	if fd == nil || fd.Body == nil {
		return nil, fmt.Errorf("method (*mmParserImpl).Parse not found")
	}
	var sw *ast.SwitchStmt
	ast.Inspect(fd.Body, func(n ast.Node) bool {
		if s, ok := n.(*ast.SwitchStmt); ok {
			if id, ok := s.Tag.(*ast.Ident); ok && id.Name == "mmnt" {
				sw = s
				return false
			}
		}
		return true
	})
	if sw == nil {
		return nil, fmt.Errorf("`switch mmnt` not found")
	}
	var res [][2]int
	for _, st := range sw.Body.List {
		cc, ok := st.(*ast.CaseClause)
		if !ok || cc.List == nil {
			continue
		}
		n, err := lrIntExpr(cc.List[0])
		if err != nil {
			return nil, err
		}
		for _, b := range cc.Body {
			as, ok := b.(*ast.AssignStmt)
			if !ok || len(as.Lhs) != 1 || len(as.Rhs) != 1 {
				continue
			}
			if id, ok := as.Lhs[0].(*ast.Ident); !ok || id.Name != "mmDollar" {
				continue
			}
			// mmS[mmpt-K : mmpt+1]
			sl, ok := as.Rhs[0].(*ast.SliceExpr)
			if !ok || sl.Low == nil || sl.High == nil || sl.Max != nil {
				return nil, fmt.Errorf("production %d: unexpected form of the mmDollar assignment", n)
			}
			lo, ok1 := sl.Low.(*ast.BinaryExpr)
			hi, ok2 := sl.High.(*ast.BinaryExpr)
			if !ok1 || !ok2 || lo.Op.String() != "-" || hi.Op.String() != "+" {
				return nil, fmt.Errorf("production %d: unexpected bounds of the mmDollar slice", n)
			}
			if x, ok := lo.X.(*ast.Ident); !ok || x.Name != "mmpt" {
				return nil, fmt.Errorf("production %d: mmDollar slice does not start at mmpt-K", n)
			}
			if x, ok := hi.X.(*ast.Ident); !ok || x.Name != "mmpt" {
				return nil, fmt.Errorf("production %d: mmDollar slice does not end at mmpt+1", n)
			}
			k, err := lrIntExpr(lo.Y)
			if err != nil {
				return nil, err
			}
			one, err := lrIntExpr(hi.Y)
			if err != nil || one != 1 {
				return nil, fmt.Errorf("production %d: mmDollar slice does not end at mmpt+1", n)
			}
			res = append(res, [2]int{n, k})
		}
	}
	if len(res) == 0 {
		return nil, fmt.Errorf("no mmDollar assignment found")
	}
	return res, nil
}

func init() {
	addFact(fact{
		name:   "mmDollarLen",
		leanTy: "List (Nat × Nat)",
		deflt:  "[]",
		extract: func(repo string) (string, interface{}, error) {
			ps, err := lrDollarLens(repo)
			if err != nil {
				return "", nil, err
			}
			o := make([]string, len(ps))
			for i, p := range ps {
				o[i] = fmt.Sprintf("(%d, %d)", p[0], p[1])
			}
			return "[" + strings.Join(o, ", ") + "]", ps, nil
		},
	})
	addFact(fact{
		name:   "mmProdRhs",
		leanTy: "List (String × List String)",
		deflt:  "[]",
		extract: func(repo string) (string, interface{}, error) {
			ps, err := yaccProductions(repo)
			if err != nil {
				return "", nil, err
			}
			o := []string{`("$accept", ["file", "$end"])`}
			for _, p := range ps {
				o = append(o, fmt.Sprintf("(%s, %s)", leanStr(p.Lhs), leanStrList(p.Rhs)))
			}
			return "[" + strings.Join(o, ",\n   ") + "]", ps, nil
		},
	})
	addFact(fact{
		name:   "mmConvSites",
		leanTy: "List (Nat × String × Nat)",
		deflt:  "[]",
		extract: func(repo string) (string, interface{}, error) {
			cs, err := lrConvSites(repo)
			if err != nil {
				return "", nil, err
			}
			o := make([]string, len(cs))
			for i, c := range cs {
				o[i] = fmt.Sprintf("(%d, %s, %d)", c.Prod, leanStr(c.Fn), c.Arg)
			}
			return "[" + strings.Join(o, ", ") + "]", cs, nil
		},
	})
}
