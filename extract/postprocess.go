package main

import (
	"fmt"
	"go/ast"
	"os"
	"path/filepath"
	"sort"
	"strings"
)

// postProcessDimAware: in moveOutArrayDir (martian/core/post_process.go), is
// the type handed down for the elements of an array aware of the array's
// dimension?  The element kind is the receiver X of the `X.IsFile()` argument
// of the recursive `moveOutFiles(w, &p, X.IsFile(), v, …)` call:
//   - X is literally `t.Elem`  and the body never reads `.Dim`  → false
//     (every element, including inner arrays of a multi-dimensional array, is
//     treated as a value of the base element type);
//   - X is something else and the body (or a helper of the same file that the
//     body calls) reads `.Dim`                                    → true.
//
// Anything else is "pattern not found" (the committed default `true` is used
// and the behavioural correspondence remains the tie).
func init() {
	addFact(fact{
		name:   "postProcessDimAware",
		leanTy: "Bool",
		deflt:  "true",
		extract: func(repo string) (string, interface{}, error) {
			_, f, err := parseFile(repo, "martian/core/post_process.go")
			if err != nil {
				return "", nil, err
			}
			fd := findFunc(f, "moveOutArrayDir")
			if fd == nil {
				return "", nil, fmt.Errorf("moveOutArrayDir not found")
			}
			readsDim := false
			var recv ast.Expr
			ncalls := 0
			ast.Inspect(fd.Body, func(n ast.Node) bool {
				switch x := n.(type) {
				case *ast.SelectorExpr:
					if x.Sel.Name == "Dim" {
						readsDim = true
					}
				case *ast.CallExpr:
					if id, ok := x.Fun.(*ast.Ident); ok && id.Name == "moveOutFiles" && len(x.Args) >= 3 {
						ncalls++
						if c, ok := x.Args[2].(*ast.CallExpr); ok {
							if s, ok := c.Fun.(*ast.SelectorExpr); ok && s.Sel.Name == "IsFile" {
								recv = s.X
							}
						}
					}
				}
				return true
			})
			if !readsDim {
				// one level of helpers declared in the same file
				ast.Inspect(fd.Body, func(n ast.Node) bool {
					if call, ok := n.(*ast.CallExpr); ok {
						if id, ok := call.Fun.(*ast.Ident); ok && id.Name != "moveOutFiles" {
							if h := findFunc(f, id.Name); h != nil && h.Body != nil {
								ast.Inspect(h.Body, func(m ast.Node) bool {
									if s, ok := m.(*ast.SelectorExpr); ok && s.Sel.Name == "Dim" {
										readsDim = true
									}
									return true
								})
							}
						}
					}
					return true
				})
			}
			if ncalls != 1 || recv == nil {
				return "", nil, fmt.Errorf("moveOutArrayDir: expected one moveOutFiles(w, &p, X.IsFile(), …) call, found %d", ncalls)
			}
			isElem := false
			if s, ok := recv.(*ast.SelectorExpr); ok && s.Sel.Name == "Elem" {
				isElem = true
			}
			switch {
			case isElem && !readsDim:
				return "false", false, nil
			case !isElem && readsDim:
				return "true", true, nil
			}
			return "", nil, fmt.Errorf("moveOutArrayDir: element type pattern not recognised (elem=%v readsDim=%v)", isElem, readsDim)
		},
	})
}

// postProcessOutsWriters: the Metadata methods with which the post-processing
// path (every function of martian/core/post_process.go) writes the `_outs`
// record, in source order.  The atomicity of the rewrite (write a temp file,
// then rename over `_outs`) is what keeps the record "valid JSON of the same
// shape" under a crash or an I/O fault; it is a property of
// `Metadata.WriteAtomic` only.
func init() {
	addFact(fact{
		name:   "postProcessOutsWriters",
		leanTy: "List String",
		deflt:  `["WriteAtomic"]`,
		extract: func(repo string) (string, interface{}, error) {
			_, f, err := parseFile(repo, "martian/core/post_process.go")
			if err != nil {
				return "", nil, err
			}
			writers := map[string]bool{"Write": true, "WriteAtomic": true, "WriteRaw": true, "WriteRawBytes": true,
				"_writeRawNoLock": true, "appendRaw": true}
			var found []string
			ast.Inspect(f, func(n ast.Node) bool {
				call, ok := n.(*ast.CallExpr)
				if !ok || len(call.Args) < 1 {
					return true
				}
				sel, ok := call.Fun.(*ast.SelectorExpr)
				if !ok || !writers[sel.Sel.Name] {
					return true
				}
				if id, ok := call.Args[0].(*ast.Ident); ok && id.Name == "OutsFile" {
					found = append(found, sel.Sel.Name)
				}
				return true
			})
			if len(found) == 0 {
				return "", nil, fmt.Errorf("no write of OutsFile found in post_process.go")
			}
			return leanStrList(found), found, nil
		},
	})
	// writeAtomicSteps: the file-system steps of writeAtomicAt
	// (martian/core/write_atomic_linux.go) in order: the data goes to
	// `<target>.tmp` (writeFileAt) and only then is renamed over the target.
	addFact(fact{
		name:   "writeAtomicSteps",
		leanTy: "List String",
		deflt:  `["writeFileAt:tmp", "renameat:tmp->target"]`,
		extract: func(repo string) (string, interface{}, error) {
			_, f, err := parseFile(repo, "martian/core/write_atomic_linux.go")
			if err != nil {
				return "", nil, err
			}
			fd := findFunc(f, "writeAtomicAt")
			if fd == nil {
				return "", nil, fmt.Errorf("writeAtomicAt not found")
			}
			tmpIsSuffix := false
			var steps []string
			ast.Inspect(fd.Body, func(n ast.Node) bool {
				switch x := n.(type) {
				case *ast.AssignStmt:
					if len(x.Lhs) == 1 && len(x.Rhs) == 1 {
						if id, ok := x.Lhs[0].(*ast.Ident); ok && id.Name == "tmp" {
							if b, ok := x.Rhs[0].(*ast.BinaryExpr); ok {
								if l, ok := b.X.(*ast.Ident); ok && l.Name == "target" {
									if r, ok := b.Y.(*ast.BasicLit); ok && r.Value == `".tmp"` {
										tmpIsSuffix = true
									}
								}
							}
						}
					}
				case *ast.CallExpr:
					id, ok := x.Fun.(*ast.Ident)
					if !ok {
						return true
					}
					arg := func(i int) string {
						if i < len(x.Args) {
							if a, ok := x.Args[i].(*ast.Ident); ok {
								return a.Name
							}
						}
						return "?"
					}
					switch id.Name {
					case "writeFileAt":
						steps = append(steps, "writeFileAt:"+arg(1))
					case "renameat":
						steps = append(steps, "renameat:"+arg(1)+"->"+arg(2))
					}
				}
				return true
			})
			if !tmpIsSuffix {
				return "", nil, fmt.Errorf("writeAtomicAt: tmp := target + \".tmp\" not found")
			}
			return leanStrList(steps), steps, nil
		},
	})
}

// postProcessRecoversMoved: in moveOutFile, is the "recorded path does not
// exist" branch (`os.IsNotExist(err)` after `os.Lstat(filePath)`) more than
// "report null"?  true = it first tries to recover a file that an interrupted
// earlier post-process already moved to outs/ (any call other than `w.Write`
// in that branch); false = the branch only writes null.
func init() {
	addFact(fact{
		name:   "postProcessRecoversMoved",
		leanTy: "Bool",
		deflt:  "true",
		extract: func(repo string) (string, interface{}, error) {
			_, f, err := parseFile(repo, "martian/core/post_process.go")
			if err != nil {
				return "", nil, err
			}
			fd := findFunc(f, "moveOutFile")
			if fd == nil {
				return "", nil, fmt.Errorf("moveOutFile not found")
			}
			var branch *ast.BlockStmt
			ast.Inspect(fd.Body, func(n ast.Node) bool {
				ifs, ok := n.(*ast.IfStmt)
				if !ok || branch != nil {
					return true
				}
				isNotExist := false
				ast.Inspect(ifs.Cond, func(m ast.Node) bool {
					if s, ok := m.(*ast.SelectorExpr); ok && s.Sel.Name == "IsNotExist" {
						isNotExist = true
					}
					return true
				})
				if isNotExist {
					branch = ifs.Body
					return false
				}
				return true
			})
			if branch == nil {
				return "", nil, fmt.Errorf("moveOutFile: os.IsNotExist branch not found")
			}
			other := false
			ast.Inspect(branch, func(n ast.Node) bool {
				if call, ok := n.(*ast.CallExpr); ok {
					if s, ok := call.Fun.(*ast.SelectorExpr); ok {
						if x, ok := s.X.(*ast.Ident); ok && x.Name == "w" {
							return true
						}
					}
					other = true
				}
				return true
			})
			if other {
				return "true", true, nil
			}
			return "false", false, nil
		},
	})
}

// ---- the fork directories of mapped top-level calls ----

// c13Render prints an expression, replacing identifiers by what `subst` says
// (used for the outsPath argument of processStructOuts in Fork.postProcess).
func c13Render(e ast.Expr, subst map[string]string) string {
	switch x := e.(type) {
	case *ast.Ident:
		if s, ok := subst[x.Name]; ok {
			return s
		}
		return x.Name
	case *ast.BasicLit:
		return x.Value
	case *ast.SelectorExpr:
		return c13Render(x.X, subst) + "." + x.Sel.Name
	case *ast.ParenExpr:
		return "(" + c13Render(x.X, subst) + ")"
	case *ast.StarExpr:
		return "*" + c13Render(x.X, subst)
	case *ast.BinaryExpr:
		return c13Render(x.X, subst) + " " + x.Op.String() + " " + c13Render(x.Y, subst)
	case *ast.UnaryExpr:
		return x.Op.String() + c13Render(x.X, subst)
	case *ast.IndexExpr:
		return c13Render(x.X, subst) + "[" + c13Render(x.Index, subst) + "]"
	case *ast.SliceExpr:
		s := c13Render(x.X, subst) + "["
		if x.Low != nil {
			s += c13Render(x.Low, subst)
		}
		s += ":"
		if x.High != nil {
			s += c13Render(x.High, subst)
		}
		return s + "]"
	case *ast.CallExpr:
		s := c13Render(x.Fun, subst) + "("
		for i, a := range x.Args {
			if i > 0 {
				s += ", "
			}
			s += c13Render(a, subst)
		}
		return s + ")"
	case *ast.FuncLit:
		return "func{…}"
	}
	return fmt.Sprintf("<%T>", e)
}

func leanStrPairs(ps [][2]string) string {
	o := make([]string, len(ps))
	for i, p := range ps {
		o[i] = "(" + leanStr(p[0]) + ", " + leanStr(p[1]) + ")"
	}
	return "[" + joinComma(o) + "]"
}

func joinComma(xs []string) string {
	s := ""
	for i, x := range xs {
		if i > 0 {
			s += ", "
		}
		s += x
	}
	return s
}

// postProcessForkDirs: for every clause of the type switch over the resolved
// output type in Fork.postProcess (martian/core/post_process.go), the
// expression handed to processStructOuts as the fork's directory under outs/
// (its second argument), with the range key of the enclosing loop written
// `<rangekey>` and loop-local `x := e` definitions substituted:
//
//	ArrayType    path.Join(outsPath, strconv.Itoa(<rangekey>))   outs/<index>
//	TypedMapType path.Join(outsPath, <rangekey>)                 path.Join(outs, key)  = Martian.PostProcess.joinKey
//	default      outsPath
//
// A change that routes the key through anything else (a sanitiser, an
// encoder, a different join) changes the string and breaks the obligation
// Props.C13.mapped_fork_dir_is_joined_key.
func init() {
	addFact(fact{
		name:   "postProcessForkDirs",
		leanTy: "List (String × String)",
		deflt:  `[("ArrayType", "path.Join(outsPath, strconv.Itoa(<rangekey>))"), ("TypedMapType", "path.Join(outsPath, <rangekey>)"), ("default", "outsPath")]`,
		extract: func(repo string) (string, interface{}, error) {
			_, f, err := parseFile(repo, "martian/core/post_process.go")
			if err != nil {
				return "", nil, err
			}
			fd := findMethod(f, "Fork", "postProcess")
			if fd == nil {
				return "", nil, fmt.Errorf("Fork.postProcess not found")
			}
			var sw *ast.TypeSwitchStmt
			ast.Inspect(fd.Body, func(n ast.Node) bool {
				if s, ok := n.(*ast.TypeSwitchStmt); ok && sw == nil {
					sw = s
				}
				return sw == nil
			})
			if sw == nil {
				return "", nil, fmt.Errorf("Fork.postProcess: type switch not found")
			}
			var pairs [][2]string
			for _, st := range sw.Body.List {
				cc := st.(*ast.CaseClause)
				label := "default"
				if len(cc.List) == 1 {
					t := cc.List[0]
					if s, ok := t.(*ast.StarExpr); ok {
						t = s.X
					}
					if s, ok := t.(*ast.SelectorExpr); ok {
						label = s.Sel.Name
					} else {
						label = c13Render(t, nil)
					}
				} else if len(cc.List) > 1 {
					label = "multiple"
				}
				ncalls := 0
				// walk the clause keeping track of the innermost range statement
				var walk func(n ast.Node, subst map[string]string)
				walk = func(n ast.Node, subst map[string]string) {
					ast.Inspect(n, func(m ast.Node) bool {
						switch x := m.(type) {
						case *ast.RangeStmt:
							if x == n {
								return true
							}
							s2 := map[string]string{}
							for k, v := range subst {
								s2[k] = v
							}
							if id, ok := x.Key.(*ast.Ident); ok && id.Name != "_" {
								s2[id.Name] = "<rangekey>"
							} else if v, ok := x.Value.(*ast.Ident); ok && v.Name != "_" {
								// `for _, k := range <sorted keys>`: the element of the key list is the key
								s2[v.Name] = "<rangekey>"
							}
							for _, bs := range x.Body.List {
								if as, ok := bs.(*ast.AssignStmt); ok && as.Tok.String() == ":=" && len(as.Lhs) == 1 && len(as.Rhs) == 1 {
									if id, ok := as.Lhs[0].(*ast.Ident); ok {
										s2[id.Name] = c13Render(as.Rhs[0], s2)
									}
								}
							}
							walk(x.Body, s2)
							return false
						case *ast.CallExpr:
							if sel, ok := x.Fun.(*ast.SelectorExpr); ok && sel.Sel.Name == "processStructOuts" && len(x.Args) >= 2 {
								ncalls++
								pairs = append(pairs, [2]string{label, c13Render(x.Args[1], subst)})
							}
						}
						return true
					})
				}
				walk(cc, map[string]string{})
				if ncalls != 1 {
					return "", nil, fmt.Errorf("Fork.postProcess: clause %s has %d processStructOuts calls", label, ncalls)
				}
			}
			return leanStrPairs(pairs), pairs, nil
		},
	})
}

// ---- every writer of `_outs` ----

// allOutsWriters: every call site in martian/ and cmd/ (test files and verif
// hooks excluded) that writes the `_outs` metadata file: a call `X.M(OutsFile, …)`
// / `X.M(core.OutsFile, …)` of a *Metadata method M that writes a file, or a
// direct os.WriteFile/Create/OpenFile/Rename whose arguments mention OutsFile.
// Per site, in (file, position) order:
//
//	(site, method, atomic, next, before)
//
// site   = "<dir>/<file>:<Recv.>Func"
// atomic = derived from the BODY of M (metadata.go, write_atomic_linux.go, by
//
//	the transitive closure over same-package calls): M reaches
//	writeAtomicAt (temp file + renameat, see writeAtomicSteps) and
//	reaches no os.WriteFile / os.OpenFile / os.Create
//
// next   = the first call after the write, in source order within the same
//
//	function, that publishes the record or starts the job that
//	overwrites it: WriteTime(<marker>), UpdateJournal(OutsFile),
//	runChunk, runJoin, skip; "" when there is none.
//
// before = the last such call that DEFINITELY precedes the write: earlier in the
//
//	source and in a block that encloses the write (same block or an
//	ancestor); "" when there is none.  A write moved behind its
//	completion marker shows up here.
func init() {
	addFact(fact{
		name:   "allOutsWriters",
		leanTy: "List (String × String × Bool × String × String)",
		deflt:  "[]",
		extract: func(repo string) (string, interface{}, error) {
			// 1. the Metadata methods and their reach
			bodies := map[string]*ast.BlockStmt{}
			firstParamIsName := map[string]bool{}
			for _, rel := range []string{"martian/core/metadata.go", "martian/core/write_atomic_linux.go", "martian/core/write_atomic.go"} {
				_, f, err := parseFile(repo, rel)
				if err != nil {
					return "", nil, err
				}
				for _, d := range f.Decls {
					fd, ok := d.(*ast.FuncDecl)
					if !ok || fd.Body == nil {
						continue
					}
					if fd.Recv != nil {
						t := fd.Recv.List[0].Type
						if s, ok := t.(*ast.StarExpr); ok {
							t = s.X
						}
						if id, ok := t.(*ast.Ident); !ok || id.Name != "Metadata" {
							continue
						}
						if ps := fd.Type.Params.List; len(ps) > 0 {
							if id, ok := ps[0].Type.(*ast.Ident); ok && id.Name == "MetadataFileName" {
								firstParamIsName[fd.Name.Name] = true
							}
						}
					}
					bodies[fd.Name.Name] = fd.Body
				}
			}
			// named: the function opens the file named by its MetadataFileName argument
			// (its body calls MetadataFilePath and itself writes, directly or through writeAtomic)
			type reach struct{ inplace, atomicAt, named bool }
			// direct properties and callees per function, then the least fixpoint over the call
			// graph (the graph has cycles: WriteRawBytes -> WriteErrorString -> WriteRaw -> WriteRawBytes)
			memo := map[string]*reach{}
			callees := map[string][]string{}
			var names []string
			for name := range bodies {
				names = append(names, name)
			}
			sort.Strings(names)
			for _, name := range names {
				r := &reach{atomicAt: name == "writeAtomicAt"}
				memo[name] = r
				usesPath, direct := false, false
				ast.Inspect(bodies[name], func(n ast.Node) bool {
					call, ok := n.(*ast.CallExpr)
					if !ok {
						return true
					}
					switch fn := call.Fun.(type) {
					case *ast.Ident:
						if _, ok := bodies[fn.Name]; ok {
							callees[name] = append(callees[name], fn.Name)
							if fn.Name == "writeAtomic" || fn.Name == "writeAtomicAt" {
								direct = true
							}
						}
					case *ast.SelectorExpr:
						if fn.Sel.Name == "MetadataFilePath" {
							usesPath = true
						}
						if x, ok := fn.X.(*ast.Ident); ok {
							if x.Name == "os" && (fn.Sel.Name == "WriteFile" || fn.Sel.Name == "OpenFile" || fn.Sel.Name == "Create") {
								r.inplace = true
								direct = true
							} else if x.Name == "self" {
								if _, ok := bodies[fn.Sel.Name]; ok {
									callees[name] = append(callees[name], fn.Sel.Name)
								}
							}
						}
					}
					return true
				})
				r.named = usesPath && direct
			}
			for changed := true; changed; {
				changed = false
				for _, name := range names {
					r := memo[name]
					for _, g := range callees[name] {
						s := memo[g]
						n := reach{r.inplace || s.inplace, r.atomicAt || s.atomicAt, r.named || s.named}
						if n != *r {
							*r = n
							changed = true
						}
					}
				}
			}
			visit := func(name string) *reach { return memo[name] }
			writers := map[string]bool{}
			atomic := map[string]bool{}
			for name := range firstParamIsName {
				r := visit(name)
				if r.named && (r.inplace || r.atomicAt) {
					writers[name] = true
					atomic[name] = r.atomicAt && !r.inplace
				}
			}
			if !writers["Write"] || !writers["WriteAtomic"] {
				return "", nil, fmt.Errorf("Metadata.Write / WriteAtomic not recognised as writers")
			}
			// 2. the call sites
			isOuts := func(e ast.Expr) bool {
				switch x := e.(type) {
				case *ast.Ident:
					return x.Name == "OutsFile"
				case *ast.SelectorExpr:
					return x.Sel.Name == "OutsFile"
				}
				return false
			}
			mentionsOuts := func(e ast.Expr) bool {
				found := false
				ast.Inspect(e, func(n ast.Node) bool {
					if ex, ok := n.(ast.Expr); ok && isOuts(ex) {
						found = true
					}
					return !found
				})
				return found
			}
			var files []string
			for _, root := range []string{"martian", "cmd"} {
				filepath.Walk(filepath.Join(repo, root), func(p string, info os.FileInfo, err error) error {
					if err != nil || info.IsDir() {
						return nil
					}
					b := filepath.Base(p)
					if strings.HasSuffix(b, ".go") && !strings.HasSuffix(b, "_test.go") && !strings.HasPrefix(b, "verif_hooks") {
						rel, _ := filepath.Rel(repo, p)
						files = append(files, rel)
					}
					return nil
				})
			}
			sort.Strings(files)
			type site struct {
				Site, Method string
				Atomic       bool
				Next, Before string
			}
			var sites []site
			for _, rel := range files {
				_, f, err := parseFile(repo, rel)
				if err != nil {
					continue
				}
				for _, d := range f.Decls {
					fd, ok := d.(*ast.FuncDecl)
					if !ok || fd.Body == nil {
						continue
					}
					fname := fd.Name.Name
					if fd.Recv != nil && len(fd.Recv.List) == 1 {
						t := fd.Recv.List[0].Type
						if s, ok := t.(*ast.StarExpr); ok {
							t = s.X
						}
						if id, ok := t.(*ast.Ident); ok {
							fname = id.Name + "." + fname
						}
					}
					type ev struct {
						pos    int
						method string
						atomic bool
						marker string
						blocks []ast.Node // enclosing blocks / case clauses, outermost first
					}
					var evs []ev
					var stack []ast.Node
					var blocks []ast.Node
					ast.Inspect(fd.Body, func(n ast.Node) bool {
						if n == nil {
							top := stack[len(stack)-1]
							stack = stack[:len(stack)-1]
							switch top.(type) {
							case *ast.BlockStmt, *ast.CaseClause, *ast.CommClause:
								blocks = blocks[:len(blocks)-1]
							}
							return true
						}
						stack = append(stack, n)
						switch n.(type) {
						case *ast.BlockStmt, *ast.CaseClause, *ast.CommClause:
							blocks = append(blocks, n)
						}
						call, ok := n.(*ast.CallExpr)
						if !ok {
							return true
						}
						nb := len(evs)
						defer func() {
							for i := nb; i < len(evs); i++ {
								evs[i].blocks = append([]ast.Node{}, blocks...)
							}
						}()
						sel, ok := call.Fun.(*ast.SelectorExpr)
						if !ok {
							if id, ok := call.Fun.(*ast.Ident); ok && id.Name == "skip" {
								evs = append(evs, ev{pos: int(call.Pos()), marker: "skip"})
							}
							return true
						}
						name := sel.Sel.Name
						switch {
						case writers[name] && len(call.Args) >= 1 && isOuts(call.Args[0]):
							evs = append(evs, ev{pos: int(call.Pos()), method: name, atomic: atomic[name]})
						case name == "WriteTime" && len(call.Args) == 1:
							evs = append(evs, ev{pos: int(call.Pos()), marker: "WriteTime(" + c13Render(call.Args[0], nil) + ")"})
						case name == "UpdateJournal" && len(call.Args) == 1 && isOuts(call.Args[0]):
							evs = append(evs, ev{pos: int(call.Pos()), marker: "UpdateJournal(OutsFile)"})
						case name == "runChunk" || name == "runJoin" || name == "skip":
							evs = append(evs, ev{pos: int(call.Pos()), marker: name})
						default:
							if x, ok := sel.X.(*ast.Ident); ok && x.Name == "os" &&
								(name == "WriteFile" || name == "Create" || name == "OpenFile" || name == "Rename") {
								for _, a := range call.Args {
									if mentionsOuts(a) {
										evs = append(evs, ev{pos: int(call.Pos()), method: "os." + name, atomic: false})
										break
									}
								}
							}
						}
						return true
					})
					sort.SliceStable(evs, func(i, j int) bool { return evs[i].pos < evs[j].pos })
					for i, e := range evs {
						if e.method == "" {
							continue
						}
						next, before := "", ""
						for _, l := range evs[i+1:] {
							if l.marker != "" {
								next = l.marker
								break
							}
						}
						for _, l := range evs[:i] {
							if l.marker == "" || len(l.blocks) == 0 {
								continue
							}
							inner := l.blocks[len(l.blocks)-1]
							for _, b := range e.blocks {
								if b == inner {
									before = l.marker
								}
							}
						}
						sites = append(sites, site{rel + ":" + fname, e.method, e.atomic, next, before})
					}
				}
			}
			if len(sites) == 0 {
				return "", nil, fmt.Errorf("no writer of OutsFile found")
			}
			o := make([]string, len(sites))
			for i, s := range sites {
				o[i] = fmt.Sprintf("(%s, %s, %v, %s, %s)", leanStr(s.Site), leanStr(s.Method), s.Atomic, leanStr(s.Next), leanStr(s.Before))
			}
			return "[" + joinComma(o) + "]", sites, nil
		},
	})
}

// ---- keys that are not legal file names are refused with an error ----

// c13IllegalKeyBranches: the `if err := …IsLegalUnixFilename(x); err != nil { … }` statements
// below n: (argument rendered, body appends to errs, body continues the loop).
func c13IllegalKeyBranches(n ast.Node) (out []struct {
	arg           string
	appends, cont bool
}) {
	ast.Inspect(n, func(m ast.Node) bool {
		ifs, ok := m.(*ast.IfStmt)
		if !ok || ifs.Init == nil {
			return true
		}
		as, ok := ifs.Init.(*ast.AssignStmt)
		if !ok || len(as.Rhs) != 1 {
			return true
		}
		call, ok := as.Rhs[0].(*ast.CallExpr)
		if !ok || len(call.Args) != 1 {
			return true
		}
		name := ""
		switch f := call.Fun.(type) {
		case *ast.SelectorExpr:
			name = f.Sel.Name
		case *ast.Ident:
			name = f.Name
		}
		if name != "IsLegalUnixFilename" {
			return true
		}
		if b, ok := ifs.Cond.(*ast.BinaryExpr); !ok || b.Op.String() != "!=" {
			return true
		}
		e := struct {
			arg           string
			appends, cont bool
		}{arg: c13Render(call.Args[0], nil)}
		ast.Inspect(ifs.Body, func(x ast.Node) bool {
			switch y := x.(type) {
			case *ast.BranchStmt:
				if y.Tok.String() == "continue" {
					e.cont = true
				}
			case *ast.AssignStmt:
				if len(y.Lhs) == 1 && len(y.Rhs) == 1 {
					if id, ok := y.Lhs[0].(*ast.Ident); ok && id.Name == "errs" {
						if c, ok := y.Rhs[0].(*ast.CallExpr); ok {
							if f, ok := c.Fun.(*ast.Ident); ok && f.Name == "append" {
								e.appends = true
							}
						}
					}
				}
			}
			return true
		})
		out = append(out, e)
		return true
	})
	return
}

func init() {
	// postProcessMappedKeyCheck: in the TypedMapType clause of Fork.postProcess the loop over the
	// fork keys starts with `if err := syntax.IsLegalUnixFilename(<range key>); err != nil {` whose
	// body appends to errs and continues (the fork is not moved, its record entry is kept).
	addFact(fact{
		name:   "postProcessMappedKeyCheck",
		leanTy: "Bool",
		deflt:  "false",
		extract: func(repo string) (string, interface{}, error) {
			_, f, err := parseFile(repo, "martian/core/post_process.go")
			if err != nil {
				return "", nil, err
			}
			fd := findMethod(f, "Fork", "postProcess")
			if fd == nil {
				return "", nil, fmt.Errorf("Fork.postProcess not found")
			}
			var clause *ast.CaseClause
			ast.Inspect(fd.Body, func(n ast.Node) bool {
				if cc, ok := n.(*ast.CaseClause); ok && len(cc.List) == 1 && strings.Contains(c13Render(cc.List[0], nil), "TypedMapType") {
					clause = cc
				}
				return true
			})
			if clause == nil {
				return "", nil, fmt.Errorf("Fork.postProcess: TypedMapType clause not found")
			}
			// the loop over the fork keys: either `for k, elem := range outs` or, since the keys are
			// visited in sorted order (fix 9c2c4c3), `for _, k := range forkKeys`; a loop that only
			// collects the keys has no legality branch and is skipped
			found := false
			verdict := false
			ast.Inspect(clause, func(n ast.Node) bool {
				r, ok := n.(*ast.RangeStmt)
				if !ok {
					return true
				}
				key := c13Render(r.Key, nil)
				if key == "_" && r.Value != nil {
					key = c13Render(r.Value, nil)
				}
				bs := c13IllegalKeyBranches(r.Body)
				if len(bs) == 0 {
					return true
				}
				found = true
				for _, b := range bs {
					if b.arg == key && b.appends && b.cont {
						verdict = true
					}
				}
				return true
			})
			if !found {
				// no legality test of the fork key at all: the unrepaired shape
				return "false", false, nil
			}
			if verdict {
				return "true", true, nil
			}
			return "false", false, nil
		},
	})
	// postProcessIllegalKeyIsError: moveOutDir's branch for a typed-map key that is not a legal
	// file name appends to errs (the entry is skipped AND the failure is reported).
	addFact(fact{
		name:   "postProcessIllegalKeyIsError",
		leanTy: "Bool",
		deflt:  "false",
		extract: func(repo string) (string, interface{}, error) {
			_, f, err := parseFile(repo, "martian/core/post_process.go")
			if err != nil {
				return "", nil, err
			}
			fd := findFunc(f, "moveOutDir")
			if fd == nil {
				return "", nil, fmt.Errorf("moveOutDir not found")
			}
			bs := c13IllegalKeyBranches(fd.Body)
			if len(bs) != 1 {
				return "", nil, fmt.Errorf("moveOutDir: expected one IsLegalUnixFilename branch, found %d", len(bs))
			}
			if bs[0].appends {
				return "true", true, nil
			}
			return "false", false, nil
		},
	})
}
