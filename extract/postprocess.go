package main

import (
	"fmt"
	"go/ast"
)

// postProcessDimAware: in moveOutArrayDir (martian/core/post_process.go), is
// the type handed down for the elements of an array aware of the array's
// dimension?  The element kind is the receiver X of the `X.IsFile()` argument
// of the recursive `moveOutFiles(w, &p, X.IsFile(), v, …)` call:
//   - X is literally `t.Elem`  and the body never reads `.Dim`  → false
//     (every element, including inner arrays of a multi-dimensional array, is
//     treated as a value of the base element type);
//   - X is something else and the body (or a helper of the same file that the
//     body calls) reads `.Dim`                                    → true.
//
// Anything else is "pattern not found" (the committed default `true` is used
// and the behavioural correspondence remains the tie).
func init() {
	addFact(fact{
		name:   "postProcessDimAware",
		leanTy: "Bool",
		deflt:  "true",
		extract: func(repo string) (string, interface{}, error) {
			_, f, err := parseFile(repo, "martian/core/post_process.go")
			if err != nil {
				return "", nil, err
			}
			fd := findFunc(f, "moveOutArrayDir")
			if fd == nil {
				return "", nil, fmt.Errorf("moveOutArrayDir not found")
			}
			readsDim := false
			var recv ast.Expr
			ncalls := 0
			ast.Inspect(fd.Body, func(n ast.Node) bool {
				switch x := n.(type) {
				case *ast.SelectorExpr:
					if x.Sel.Name == "Dim" {
						readsDim = true
					}
				case *ast.CallExpr:
					if id, ok := x.Fun.(*ast.Ident); ok && id.Name == "moveOutFiles" && len(x.Args) >= 3 {
						ncalls++
						if c, ok := x.Args[2].(*ast.CallExpr); ok {
							if s, ok := c.Fun.(*ast.SelectorExpr); ok && s.Sel.Name == "IsFile" {
								recv = s.X
							}
						}
					}
				}
				return true
			})
			if !readsDim {
				// one level of helpers declared in the same file
				ast.Inspect(fd.Body, func(n ast.Node) bool {
					if call, ok := n.(*ast.CallExpr); ok {
						if id, ok := call.Fun.(*ast.Ident); ok && id.Name != "moveOutFiles" {
							if h := findFunc(f, id.Name); h != nil && h.Body != nil {
								ast.Inspect(h.Body, func(m ast.Node) bool {
									if s, ok := m.(*ast.SelectorExpr); ok && s.Sel.Name == "Dim" {
										readsDim = true
									}
									return true
								})
							}
						}
					}
					return true
				})
			}
			if ncalls != 1 || recv == nil {
				return "", nil, fmt.Errorf("moveOutArrayDir: expected one moveOutFiles(w, &p, X.IsFile(), …) call, found %d", ncalls)
			}
			isElem := false
			if s, ok := recv.(*ast.SelectorExpr); ok && s.Sel.Name == "Elem" {
				isElem = true
			}
			switch {
			case isElem && !readsDim:
				return "false", false, nil
			case !isElem && readsDim:
				return "true", true, nil
			}
			return "", nil, fmt.Errorf("moveOutArrayDir: element type pattern not recognised (elem=%v readsDim=%v)", isElem, readsDim)
		},
	})
}
