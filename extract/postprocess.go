package main

import (
	"fmt"
	"go/ast"
)

// postProcessDimAware: in moveOutArrayDir (martian/core/post_process.go), is
// the type handed down for the elements of an array aware of the array's
// dimension?  The element kind is the receiver X of the `X.IsFile()` argument
// of the recursive `moveOutFiles(w, &p, X.IsFile(), v, …)` call:
//   - X is literally `t.Elem`  and the body never reads `.Dim`  → false
//     (every element, including inner arrays of a multi-dimensional array, is
//     treated as a value of the base element type);
//   - X is something else and the body (or a helper of the same file that the
//     body calls) reads `.Dim`                                    → true.
//
// Anything else is "pattern not found" (the committed default `true` is used
// and the behavioural correspondence remains the tie).
func init() {
	addFact(fact{
		name:   "postProcessDimAware",
		leanTy: "Bool",
		deflt:  "true",
		extract: func(repo string) (string, interface{}, error) {
			_, f, err := parseFile(repo, "martian/core/post_process.go")
			if err != nil {
				return "", nil, err
			}
			fd := findFunc(f, "moveOutArrayDir")
			if fd == nil {
				return "", nil, fmt.Errorf("moveOutArrayDir not found")
			}
			readsDim := false
			var recv ast.Expr
			ncalls := 0
			ast.Inspect(fd.Body, func(n ast.Node) bool {
				switch x := n.(type) {
				case *ast.SelectorExpr:
					if x.Sel.Name == "Dim" {
						readsDim = true
					}
				case *ast.CallExpr:
					if id, ok := x.Fun.(*ast.Ident); ok && id.Name == "moveOutFiles" && len(x.Args) >= 3 {
						ncalls++
						if c, ok := x.Args[2].(*ast.CallExpr); ok {
							if s, ok := c.Fun.(*ast.SelectorExpr); ok && s.Sel.Name == "IsFile" {
								recv = s.X
							}
						}
					}
				}
				return true
			})
			if !readsDim {
				// one level of helpers declared in the same file
				ast.Inspect(fd.Body, func(n ast.Node) bool {
					if call, ok := n.(*ast.CallExpr); ok {
						if id, ok := call.Fun.(*ast.Ident); ok && id.Name != "moveOutFiles" {
							if h := findFunc(f, id.Name); h != nil && h.Body != nil {
								ast.Inspect(h.Body, func(m ast.Node) bool {
									if s, ok := m.(*ast.SelectorExpr); ok && s.Sel.Name == "Dim" {
										readsDim = true
									}
									return true
								})
							}
						}
					}
					return true
				})
			}
			if ncalls != 1 || recv == nil {
				return "", nil, fmt.Errorf("moveOutArrayDir: expected one moveOutFiles(w, &p, X.IsFile(), …) call, found %d", ncalls)
			}
			isElem := false
			if s, ok := recv.(*ast.SelectorExpr); ok && s.Sel.Name == "Elem" {
				isElem = true
			}
			switch {
			case isElem && !readsDim:
				return "false", false, nil
			case !isElem && readsDim:
				return "true", true, nil
			}
			return "", nil, fmt.Errorf("moveOutArrayDir: element type pattern not recognised (elem=%v readsDim=%v)", isElem, readsDim)
		},
	})
}

// postProcessOutsWriters: the Metadata methods with which the post-processing
// path (every function of martian/core/post_process.go) writes the `_outs`
// record, in source order.  The atomicity of the rewrite (write a temp file,
// then rename over `_outs`) is what keeps the record "valid JSON of the same
// shape" under a crash or an I/O fault; it is a property of
// `Metadata.WriteAtomic` only.
func init() {
	addFact(fact{
		name:   "postProcessOutsWriters",
		leanTy: "List String",
		deflt:  `["WriteAtomic"]`,
		extract: func(repo string) (string, interface{}, error) {
			_, f, err := parseFile(repo, "martian/core/post_process.go")
			if err != nil {
				return "", nil, err
			}
			writers := map[string]bool{"Write": true, "WriteAtomic": true, "WriteRaw": true, "WriteRawBytes": true,
				"_writeRawNoLock": true, "appendRaw": true}
			var found []string
			ast.Inspect(f, func(n ast.Node) bool {
				call, ok := n.(*ast.CallExpr)
				if !ok || len(call.Args) < 1 {
					return true
				}
				sel, ok := call.Fun.(*ast.SelectorExpr)
				if !ok || !writers[sel.Sel.Name] {
					return true
				}
				if id, ok := call.Args[0].(*ast.Ident); ok && id.Name == "OutsFile" {
					found = append(found, sel.Sel.Name)
				}
				return true
			})
			if len(found) == 0 {
				return "", nil, fmt.Errorf("no write of OutsFile found in post_process.go")
			}
			return leanStrList(found), found, nil
		},
	})
	// writeAtomicSteps: the file-system steps of writeAtomicAt
	// (martian/core/write_atomic_linux.go) in order: the data goes to
	// `<target>.tmp` (writeFileAt) and only then is renamed over the target.
	addFact(fact{
		name:   "writeAtomicSteps",
		leanTy: "List String",
		deflt:  `["writeFileAt:tmp", "renameat:tmp->target"]`,
		extract: func(repo string) (string, interface{}, error) {
			_, f, err := parseFile(repo, "martian/core/write_atomic_linux.go")
			if err != nil {
				return "", nil, err
			}
			fd := findFunc(f, "writeAtomicAt")
			if fd == nil {
				return "", nil, fmt.Errorf("writeAtomicAt not found")
			}
			tmpIsSuffix := false
			var steps []string
			ast.Inspect(fd.Body, func(n ast.Node) bool {
				switch x := n.(type) {
				case *ast.AssignStmt:
					if len(x.Lhs) == 1 && len(x.Rhs) == 1 {
						if id, ok := x.Lhs[0].(*ast.Ident); ok && id.Name == "tmp" {
							if b, ok := x.Rhs[0].(*ast.BinaryExpr); ok {
								if l, ok := b.X.(*ast.Ident); ok && l.Name == "target" {
									if r, ok := b.Y.(*ast.BasicLit); ok && r.Value == `".tmp"` {
										tmpIsSuffix = true
									}
								}
							}
						}
					}
				case *ast.CallExpr:
					id, ok := x.Fun.(*ast.Ident)
					if !ok {
						return true
					}
					arg := func(i int) string {
						if i < len(x.Args) {
							if a, ok := x.Args[i].(*ast.Ident); ok {
								return a.Name
							}
						}
						return "?"
					}
					switch id.Name {
					case "writeFileAt":
						steps = append(steps, "writeFileAt:"+arg(1))
					case "renameat":
						steps = append(steps, "renameat:"+arg(1)+"->"+arg(2))
					}
				}
				return true
			})
			if !tmpIsSuffix {
				return "", nil, fmt.Errorf("writeAtomicAt: tmp := target + \".tmp\" not found")
			}
			return leanStrList(steps), steps, nil
		},
	})
}

// postProcessRecoversMoved: in moveOutFile, is the "recorded path does not
// exist" branch (`os.IsNotExist(err)` after `os.Lstat(filePath)`) more than
// "report null"?  true = it first tries to recover a file that an interrupted
// earlier post-process already moved to outs/ (any call other than `w.Write`
// in that branch); false = the branch only writes null.
func init() {
	addFact(fact{
		name:   "postProcessRecoversMoved",
		leanTy: "Bool",
		deflt:  "true",
		extract: func(repo string) (string, interface{}, error) {
			_, f, err := parseFile(repo, "martian/core/post_process.go")
			if err != nil {
				return "", nil, err
			}
			fd := findFunc(f, "moveOutFile")
			if fd == nil {
				return "", nil, fmt.Errorf("moveOutFile not found")
			}
			var branch *ast.BlockStmt
			ast.Inspect(fd.Body, func(n ast.Node) bool {
				ifs, ok := n.(*ast.IfStmt)
				if !ok || branch != nil {
					return true
				}
				isNotExist := false
				ast.Inspect(ifs.Cond, func(m ast.Node) bool {
					if s, ok := m.(*ast.SelectorExpr); ok && s.Sel.Name == "IsNotExist" {
						isNotExist = true
					}
					return true
				})
				if isNotExist {
					branch = ifs.Body
					return false
				}
				return true
			})
			if branch == nil {
				return "", nil, fmt.Errorf("moveOutFile: os.IsNotExist branch not found")
			}
			other := false
			ast.Inspect(branch, func(n ast.Node) bool {
				if call, ok := n.(*ast.CallExpr); ok {
					if s, ok := call.Fun.(*ast.SelectorExpr); ok {
						if x, ok := s.X.(*ast.Ident); ok && x.Name == "w" {
							return true
						}
					}
					other = true
				}
				return true
			})
			if other {
				return "true", true, nil
			}
			return "false", false, nil
		},
	})
}
