package main

import (
	"fmt"
	"go/ast"
	"go/token"
	"sort"
	"strconv"
	"strings"
)

// The goyacc parser driver of martian/syntax/grammar.go (C08): its tables,
// its constants, the productions whose semantic action can abort the parse,
// and an (untrusted) certificate computed from the tables which the Lean side
// re-checks:
//
//   - mmPred[s]: the states that can lie directly below state s on the parser
//     stack (an over-approximation closed under shift and reduce/goto);
//   - mmRank[s]: the length of the longest chain of reductions that can follow
//     each other without a shift, starting in state s.
//
// Every table is emitted in chunks of lrChunk elements (List (List _)).

const lrChunk = 32

const lrGrammarFile = "martian/syntax/grammar.go"

var lrTableNames = []string{"mmExca", "mmAct", "mmPact", "mmPgo", "mmR1", "mmR2",
	"mmChk", "mmDef", "mmTok1", "mmTok2", "mmTok3"}

var lrConstNames = []string{"mmLast", "mmPrivate", "mmFlag", "mmErrCode", "mmEofCode", "mmInitialStackSize"}

type lrGrammar struct {
	tables    map[string][]int
	consts    map[string]int
	counts    map[string]int // number of elements of mmToknames, mmErrorMessages
	failProds []int
	failErr   error
}

var lrCache = map[string]*lrGrammar{}
var lrCacheErr = map[string]error{}

// lrIntExpr evaluates an integer literal with optional unary minus / parens.
func lrIntExpr(e ast.Expr) (int, error) {
	switch x := e.(type) {
	case *ast.BasicLit:
		if x.Kind != token.INT {
			return 0, fmt.Errorf("not an integer literal: %s", x.Value)
		}
		v, err := strconv.ParseInt(x.Value, 0, 64)
		return int(v), err
	case *ast.UnaryExpr:
		v, err := lrIntExpr(x.X)
		if err != nil {
			return 0, err
		}
		switch x.Op {
		case token.SUB:
			return -v, nil
		case token.ADD:
			return v, nil
		}
		return 0, fmt.Errorf("unexpected unary operator %s", x.Op)
	case *ast.ParenExpr:
		return lrIntExpr(x.X)
	}
	return 0, fmt.Errorf("not an integer literal (%T)", e)
}

// lrIsOpenArray: the type `[...]T`.
func lrIsOpenArray(e ast.Expr) (elt ast.Expr, ok bool) {
	at, ok := e.(*ast.ArrayType)
	if !ok {
		return nil, false
	}
	if _, ok := at.Len.(*ast.Ellipsis); !ok {
		return nil, false
	}
	return at.Elt, true
}

func lrLoad(repo string) (*lrGrammar, error) {
	if g, ok := lrCache[repo]; ok {
		return g, nil
	}
	if err, ok := lrCacheErr[repo]; ok {
		return nil, err
	}
	g, err := lrLoadUncached(repo)
	if err != nil {
		lrCacheErr[repo] = err
		return nil, err
	}
	lrCache[repo] = g
	return g, nil
}

func lrLoadUncached(repo string) (*lrGrammar, error) {
	_, f, err := parseFile(repo, lrGrammarFile)
	if err != nil {
		return nil, err
	}
	g := &lrGrammar{tables: map[string][]int{}, consts: map[string]int{}, counts: map[string]int{}}
	want := map[string]bool{}
	for _, n := range lrTableNames {
		want[n] = true
	}
	wantConst := map[string]bool{}
	for _, n := range lrConstNames {
		wantConst[n] = true
	}
	for _, d := range f.Decls {
		gd, ok := d.(*ast.GenDecl)
		if !ok || (gd.Tok != token.VAR && gd.Tok != token.CONST) {
			continue
		}
		for _, sp := range gd.Specs {
			vs, ok := sp.(*ast.ValueSpec)
			if !ok || len(vs.Names) != len(vs.Values) {
				continue
			}
			for i, nm := range vs.Names {
				name := nm.Name
				switch {
				case gd.Tok == token.CONST && wantConst[name]:
					v, err := lrIntExpr(vs.Values[i])
					if err != nil {
						return nil, fmt.Errorf("const %s: %v", name, err)
					}
					if _, dup := g.consts[name]; dup {
						return nil, fmt.Errorf("const %s declared twice", name)
					}
					g.consts[name] = v
				case gd.Tok == token.VAR && want[name]:
					cl, ok := vs.Values[i].(*ast.CompositeLit)
					if !ok {
						return nil, fmt.Errorf("var %s is not a composite literal", name)
					}
					elt, ok := lrIsOpenArray(cl.Type)
					if !ok {
						return nil, fmt.Errorf("var %s is not a [...]T literal", name)
					}
					if id, ok := elt.(*ast.Ident); !ok || !strings.HasPrefix(id.Name, "int") {
						return nil, fmt.Errorf("var %s: element type is not an integer type", name)
					}
					xs := make([]int, 0, len(cl.Elts))
					for _, e := range cl.Elts {
						if _, ok := e.(*ast.KeyValueExpr); ok {
							return nil, fmt.Errorf("var %s: keyed element", name)
						}
						v, err := lrIntExpr(e)
						if err != nil {
							return nil, fmt.Errorf("var %s: %v", name, err)
						}
						xs = append(xs, v)
					}
					if _, dup := g.tables[name]; dup {
						return nil, fmt.Errorf("var %s declared twice", name)
					}
					g.tables[name] = xs
				case gd.Tok == token.VAR && (name == "mmToknames" || name == "mmErrorMessages"):
					cl, ok := vs.Values[i].(*ast.CompositeLit)
					if !ok {
						return nil, fmt.Errorf("var %s is not a composite literal", name)
					}
					if _, ok := lrIsOpenArray(cl.Type); !ok {
						return nil, fmt.Errorf("var %s is not a [...]T literal", name)
					}
					for _, e := range cl.Elts {
						if _, ok := e.(*ast.KeyValueExpr); ok {
							return nil, fmt.Errorf("var %s: keyed element", name)
						}
					}
					g.counts[name] = len(cl.Elts)
				}
			}
		}
	}
	g.failProds, g.failErr = lrFailProds(f)
	return g, nil
}

// lrFailProds: the `case N:` clauses of `switch mmnt` in (*mmParserImpl).Parse
// whose body contains a return statement (not counting function literals).
func lrFailProds(f *ast.File) ([]int, error) {
	fd := findMethod(f, "mmParserImpl", "Parse")
	if fd == nil || fd.Body == nil {
		return nil, fmt.Errorf("method (*mmParserImpl).Parse not found")
	}
	var sw *ast.SwitchStmt
	nsw := 0
	ast.Inspect(fd.Body, func(n ast.Node) bool {
		if s, ok := n.(*ast.SwitchStmt); ok {
			if id, ok := s.Tag.(*ast.Ident); ok && id.Name == "mmnt" {
				sw = s
				nsw++
				return false
			}
		}
		return true
	})
	if nsw != 1 {
		return nil, fmt.Errorf("expected exactly one `switch mmnt` in Parse, found %d", nsw)
	}
	seen := map[int]bool{}
	res := []int{}
	for _, st := range sw.Body.List {
		cc, ok := st.(*ast.CaseClause)
		if !ok {
			return nil, fmt.Errorf("switch mmnt: unexpected statement")
		}
		hasRet := false
		for _, b := range cc.Body {
			ast.Inspect(b, func(n ast.Node) bool {
				switch n.(type) {
				case *ast.FuncLit:
					return false
				case *ast.ReturnStmt:
					hasRet = true
				}
				return true
			})
		}
		if cc.List == nil {
			if hasRet {
				return nil, fmt.Errorf("switch mmnt: the default clause returns")
			}
			continue
		}
		for _, e := range cc.List {
			v, err := lrIntExpr(e)
			if err != nil {
				return nil, fmt.Errorf("switch mmnt: case value: %v", err)
			}
			if seen[v] {
				return nil, fmt.Errorf("switch mmnt: duplicate case %d", v)
			}
			seen[v] = true
			if v < 0 {
				return nil, fmt.Errorf("switch mmnt: negative case %d", v)
			}
			if hasRet {
				res = append(res, v)
			}
		}
	}
	sort.Ints(res)
	return res, nil
}

// ---------------------------------------------------------------------------
// certificate

type lrCert struct {
	pred    [][]int
	rank    []int
	nedges  int
	triples int
}

func (g *lrGrammar) table(name string) ([]int, error) {
	t, ok := g.tables[name]
	if !ok {
		return nil, fmt.Errorf("var %s not found in %s", name, lrGrammarFile)
	}
	return t, nil
}

func (g *lrGrammar) konst(name string) (int, error) {
	v, ok := g.consts[name]
	if !ok {
		return 0, fmt.Errorf("const %s not found in %s", name, lrGrammarFile)
	}
	return v, nil
}

var lrCertCache = map[*lrGrammar]*lrCert{}
var lrCertErr = map[*lrGrammar]error{}

func (g *lrGrammar) cert() (*lrCert, error) {
	if c, ok := lrCertCache[g]; ok {
		return c, nil
	}
	if err, ok := lrCertErr[g]; ok {
		return nil, err
	}
	c, err := g.certUncached()
	if err != nil {
		lrCertErr[g] = err
		return nil, err
	}
	lrCertCache[g] = c
	return c, nil
}

func (g *lrGrammar) certUncached() (c *lrCert, err error) {
	var tabs [10][]int
	for i, n := range []string{"mmExca", "mmAct", "mmPact", "mmPgo", "mmR1", "mmR2", "mmChk", "mmDef", "mmTok1", "mmTok2"} {
		if tabs[i], err = g.table(n); err != nil {
			return nil, err
		}
	}
	exca, act, pact, pgo, r1, r2, chk, def, tok1, tok2 := tabs[0], tabs[1], tabs[2], tabs[3], tabs[4], tabs[5], tabs[6], tabs[7], tabs[8], tabs[9]
	last, err := g.konst("mmLast")
	if err != nil {
		return nil, err
	}
	flag, err := g.konst("mmFlag")
	if err != nil {
		return nil, err
	}
	// any out-of-range access of the computation below = no certificate
	defer func() {
		if r := recover(); r != nil {
			c, err = nil, fmt.Errorf("certificate: table access out of range (%v)", r)
		}
	}()
	ns := len(pact)
	if len(def) != ns {
		return nil, fmt.Errorf("certificate: len(mmDef) != len(mmPact)")
	}
	nt := 0
	for _, v := range tok1 {
		if v > nt {
			nt = v
		}
	}
	for _, v := range tok2 {
		if v > nt {
			nt = v
		}
	}
	nt++
	checkState := func(s int) int {
		if s < 0 || s >= ns {
			panic(fmt.Sprintf("state %d", s))
		}
		return s
	}
	shift := func(t, tok int) (int, bool) {
		if pact[t] <= flag {
			return 0, false
		}
		n := pact[t] + tok
		if n < 0 || n >= last {
			return 0, false
		}
		a := act[n]
		if chk[a] == tok {
			return checkState(a), true
		}
		return 0, false
	}
	reds := func(s int) []int {
		if def[s] == -2 {
			xi := 0
			for !(exca[xi] == -1 && exca[xi+1] == s) {
				xi += 2
			}
			var res []int
			for xi += 2; ; xi += 2 {
				if exca[xi+1] > 0 {
					res = append(res, exca[xi+1])
				}
				if exca[xi] < 0 {
					break
				}
			}
			return res
		}
		if def[s] > 0 {
			return []int{def[s]}
		}
		return nil
	}
	gotoFn := func(t, a int) int {
		gg := pgo[a]
		j := gg + t + 1
		if j >= last {
			return checkState(act[gg])
		}
		s := act[j]
		if chk[s] != -a {
			return checkState(act[gg])
		}
		return checkState(s)
	}
	// edge set: below[s] = set of t with (t -> s)
	below := make([]map[int]bool, ns)
	for i := range below {
		below[i] = map[int]bool{}
	}
	nedges := 0
	add := func(t, s int) bool {
		if below[s][t] {
			return false
		}
		below[s][t] = true
		nedges++
		return true
	}
	for t := 0; t < ns; t++ {
		for tok := 1; tok < nt; tok++ {
			if s, ok := shift(t, tok); ok {
				add(t, s)
			}
		}
	}
	type triple struct{ s, t, n int }
	var triples map[triple]bool
	for changed := true; changed; {
		changed = false
		triples = map[triple]bool{}
		for s := 0; s < ns; s++ {
			for _, n := range reds(s) {
				level := map[int]bool{s: true}
				for k := r2[n]; k > 0; k-- {
					next := map[int]bool{}
					for u := range level {
						for t := range below[u] {
							next[t] = true
						}
					}
					level = next
				}
				for t := range level {
					triples[triple{s, t, n}] = true
					if add(t, gotoFn(t, r1[n])) {
						changed = true
					}
				}
			}
		}
	}
	c = &lrCert{pred: make([][]int, ns), rank: make([]int, ns), nedges: nedges, triples: len(triples)}
	for s := 0; s < ns; s++ {
		c.pred[s] = make([]int, 0, len(below[s]))
		for t := range below[s] {
			c.pred[s] = append(c.pred[s], t)
		}
		sort.Ints(c.pred[s])
	}
	// reduce-successor graph
	succ := make([]map[int]bool, ns)
	for i := range succ {
		succ[i] = map[int]bool{}
	}
	for tr := range triples {
		succ[tr.s][gotoFn(tr.t, r1[tr.n])] = true
	}
	const (
		white = iota
		grey
		black
	)
	colour := make([]int, ns)
	cyclic := false
	var visit func(s int) int
	visit = func(s int) int {
		switch colour[s] {
		case black:
			return c.rank[s]
		case grey:
			cyclic = true
			return 0
		}
		colour[s] = grey
		best := 0
		for u := range succ[s] {
			if r := visit(u) + 1; r > best {
				best = r
			}
		}
		colour[s] = black
		c.rank[s] = best
		return best
	}
	for s := 0; s < ns; s++ {
		visit(s)
	}
	if cyclic {
		return nil, fmt.Errorf("certificate: the reduce-successor graph has a cycle")
	}
	return c, nil
}

// ---------------------------------------------------------------------------
// Lean output

func lrChunked(n int, elem func(i int) string) string {
	if n == 0 {
		return "[]"
	}
	var sb strings.Builder
	sb.WriteString("[")
	for i := 0; i < n; i += lrChunk {
		if i > 0 {
			sb.WriteString(",\n   ")
		}
		sb.WriteString("[")
		for j := i; j < n && j < i+lrChunk; j++ {
			if j > i {
				sb.WriteString(", ")
			}
			sb.WriteString(elem(j))
		}
		sb.WriteString("]")
	}
	sb.WriteString("]")
	return sb.String()
}

func lrLeanInt(v int) string {
	if v < 0 {
		return "-" + strconv.Itoa(-v)
	}
	return strconv.Itoa(v)
}

func lrLeanIntTable(xs []int) string {
	return lrChunked(len(xs), func(i int) string { return lrLeanInt(xs[i]) })
}

func lrLeanNats(xs []int) string {
	o := make([]string, len(xs))
	for i, x := range xs {
		o[i] = strconv.Itoa(x)
	}
	return "[" + strings.Join(o, ", ") + "]"
}

func init() {
	for _, name := range lrTableNames {
		name := name
		addFact(fact{
			name:   name,
			leanTy: "List (List Int)",
			deflt:  lrTableDefaults[name],
			extract: func(repo string) (string, interface{}, error) {
				g, err := lrLoad(repo)
				if err != nil {
					return "", nil, err
				}
				t, err := g.table(name)
				if err != nil {
					return "", nil, err
				}
				return lrLeanIntTable(t), t, nil
			},
		})
	}
	for _, name := range lrConstNames {
		name := name
		addFact(fact{
			name:   name,
			leanTy: "Int",
			deflt:  lrConstDefaults[name],
			extract: func(repo string) (string, interface{}, error) {
				g, err := lrLoad(repo)
				if err != nil {
					return "", nil, err
				}
				v, err := g.konst(name)
				if err != nil {
					return "", nil, err
				}
				return lrLeanInt(v), v, nil
			},
		})
	}
	for _, p := range [][2]string{{"mmNToknames", "mmToknames"}, {"mmNErrorMessages", "mmErrorMessages"}} {
		p := p
		addFact(fact{
			name:   p[0],
			leanTy: "Nat",
			deflt:  lrConstDefaults[p[0]],
			extract: func(repo string) (string, interface{}, error) {
				g, err := lrLoad(repo)
				if err != nil {
					return "", nil, err
				}
				v, ok := g.counts[p[1]]
				if !ok {
					return "", nil, fmt.Errorf("var %s not found in %s", p[1], lrGrammarFile)
				}
				return strconv.Itoa(v), v, nil
			},
		})
	}
	addFact(fact{
		name:   "mmFailProds",
		leanTy: "List Nat",
		deflt:  lrConstDefaults["mmFailProds"],
		extract: func(repo string) (string, interface{}, error) {
			g, err := lrLoad(repo)
			if err != nil {
				return "", nil, err
			}
			if g.failErr != nil {
				return "", nil, g.failErr
			}
			return lrLeanNats(g.failProds), g.failProds, nil
		},
	})
	addFact(fact{
		name:   "mmPred",
		leanTy: "List (List (List Nat))",
		deflt:  lrPredDefault,
		extract: func(repo string) (string, interface{}, error) {
			g, err := lrLoad(repo)
			if err != nil {
				return "", nil, err
			}
			c, err := g.cert()
			if err != nil {
				return "", nil, err
			}
			js := map[string]interface{}{"pred": c.pred, "edges": c.nedges, "triples": c.triples}
			return lrChunked(len(c.pred), func(i int) string { return lrLeanNats(c.pred[i]) }), js, nil
		},
	})
	addFact(fact{
		name:   "mmRank",
		leanTy: "List (List Nat)",
		deflt:  lrRankDefault,
		extract: func(repo string) (string, interface{}, error) {
			g, err := lrLoad(repo)
			if err != nil {
				return "", nil, err
			}
			c, err := g.cert()
			if err != nil {
				return "", nil, err
			}
			return lrChunked(len(c.rank), func(i int) string { return strconv.Itoa(c.rank[i]) }), c.rank, nil
		},
	})
}
