package x

// 1. byte shift by >= 8: Go gives 0, Lean UInt8 >>> takes the count mod 8
func shift8(s []byte) int {
	b := s[0]
	c := b >> 8
	return int(c)
}

// 2. truncated division / modulo of negatives
func divmod(a int, b int) int {
	return a/b + a%b
}

// 3. unsigned wrap: Go wraps, translator maps uint to Int
func uwrap(a int) int {
	var u uint
	u = uint(a)
	u--
	if u > 5 {
		return 1
	}
	return 0
}

// 4. index out of range: Go panics, Lean getD
func oob(s []byte) int {
	return int(s[len(s)])
}

// 5. text-matched parameter whose free variable is assigned
func textparam(s []byte) int {
	a := int(s[0])
	s = s[1:]
	b := int(s[0])
	return a*256 + b
}

// 6. switch with no default, and shadowing
func sw(a int) int {
	r := 0
	switch a {
	case 1:
		r = 10
	case 2, 3:
		r = 20
	}
	return r
}

// 7. loop that modifies the ranged slice
func modrange(s []byte) int {
	n := 0
	for i := range s {
		s = s[:0]
		n += i
	}
	return n + len(s)
}

// 8. int8 overflow: Go wraps at 127
func i8(a int) int {
	var x int8
	x = int8(a)
	x = x + 100
	return int(x)
}

// 9. shift by a literal < 8 (accepted)
func shift3(s []byte) int {
	b := s[0]
	return int(b >> 3)
}

// 10. the result variables of two effect calls under one name
func twoerrs() error {
	_, err := open()
	_, err = open()
	if err == nil {
		return nil
	}
	return nil
}

// 11. a modelled effect inside the arguments of an ignored (logging) call
func nestedEffect() error {
	util.LogError(remove(), "runtime", "removing")
	return nil
}

// 12. a modelled effect inside a statement that the target ignores by prefix
func droppedBody(s []byte) error {
	if len(s) == 0 {
		run()
	}
	return nil
}
