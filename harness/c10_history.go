package main

// C10, history independence: the property is quantified over HISTORIES — the result of compiling
// or formatting a source must not depend on what the same syntax.Parser object (documented as
// reusable: `mrc --all`, `mrf --all`, `mro edit` use one Parser for every file) handled before.
// A set of projects is generated in which the same include directive TEXT resolves, through the
// including file's own directory or through MROPATH, to different files (and some projects
// have errors); every project is compiled / formatted once with a fresh Parser (the reference)
// and then, in several random orders, by ONE Parser that has already handled the others.

import (
	"encoding/json"
	"fmt"
	"path/filepath"
	"sort"
	"strings"

	"github.com/martian-lang/martian/martian/syntax"
)

type c10Project struct {
	main    string   // path of the top-level file
	mropath []string // search path of this project
}

func c10HistoryResult(p *syntax.Parser, pr c10Project, root string, op int) string {
	clean := func(s string) string { return strings.ReplaceAll(s, root, "$R") }
	switch op {
	case 0:
		src, incs, ast, err := p.Compile(pr.main, pr.mropath, false)
		if err != nil {
			return "ERR:" + clean(err.Error())
		}
		out := clean(src) + "\nINCLUDES " + clean(strings.Join(incs, ","))
		if ast != nil && ast.Call != nil {
			if cg, err := ast.MakePipelineCallGraph("ID.ps.", ast.Call); err == nil {
				b, _ := json.Marshal(cg)
				out += "\nCG " + clean(string(b))
			} else {
				out += "\nCGERR " + clean(err.Error())
			}
		}
		return out
	case 1:
		s, err := p.FormatFile(pr.main, false, pr.mropath)
		if err != nil {
			return "FMTERR:" + clean(err.Error())
		}
		return clean(s)
	default:
		s, err := p.FormatFile(pr.main, true, pr.mropath)
		if err != nil {
			return "FIXERR:" + clean(err.Error())
		}
		return clean(s)
	}
}

func c10History(c *Ctx) {
	r := c.Res
	rounds, orders := 3, 4
	if c.Thorough {
		rounds, orders = 60, 8
	}
	for rd := 0; rd < rounds; rd++ {
		root := filepath.Join(c.Scratch, fmt.Sprintf("c10hist%d", rd))
		files := map[string]string{}
		var projects []c10Project
		np := 3 + c.Rng.Intn(4)
		// a library on MROPATH, in two variants (two lib dirs define the same file name)
		for v := 0; v < 2; v++ {
			files[fmt.Sprintf("lib%d/common.mro", v)] = fmt.Sprintf("filetype common%d;\n\nstage COMMON(\n    in  int n,\n    out int c%d,\n    src comp \"bin/common%d\",\n)\n", v, v, v)
		}
		for i := 0; i < np; i++ {
			d := fmt.Sprintf("proj%02d", i)
			// a private, file-relative include with the SAME name in every project but different content
			outName := fmt.Sprintf("result_%d", i)
			stages := fmt.Sprintf("# stages of %s\n\nstage WORK(\n    in  int n,\n    out int %s,\n    src comp \"bin/%s_work\",\n)\n", d, outName, d)
			nested := ""
			if c.Rng.Intn(2) == 0 {
				// the private file includes its own neighbour, again by a name every project uses
				nested = "@include \"_helpers.mro\"\n\n"
				files[d+"/_helpers.mro"] = fmt.Sprintf("filetype helper_%d;\n", i)
			}
			files[d+"/_stages.mro"] = nested + stages
			lib := c.Rng.Intn(2)
			ret := "WORK." + outName
			if c.Rng.Intn(5) == 0 {
				ret = "WORK.result_of_another_project" // an error: its text is compared too
			}
			useCommon := c.Rng.Intn(2) == 0
			inc := "@include \"_stages.mro\"\n"
			call := ""
			if useCommon {
				inc += "@include \"common.mro\"\n"
				call = "    call COMMON(\n        n = self.n,\n    )\n\n"
			}
			files[d+"/main.mro"] = inc + "\npipeline MAIN(\n    in  int n,\n    out int result,\n)\n{\n    call WORK(\n        n = self.n,\n    )\n\n" + call +
				"    return (\n        result = " + ret + ",\n    )\n}\n\ncall MAIN(\n    n = 1,\n)\n"
			projects = append(projects, c10Project{main: filepath.Join(root, d, "main.mro"), mropath: []string{filepath.Join(root, fmt.Sprintf("lib%d", lib))}})
		}
		if err := c15Write(root, files); err != nil {
			r.note("history stream: cannot write projects: %v", err)
			return
		}
		ref := make([][3]string, len(projects))
		for i, pr := range projects {
			for op := 0; op < 3; op++ {
				var fresh syntax.Parser
				ref[i][op] = c10HistoryResult(&fresh, pr, root, op)
			}
		}
		for o := 0; o < orders; o++ {
			perm := c.Rng.Perm(len(projects))
			var shared syntax.Parser
			var history []string
			for _, i := range perm {
				for _, op := range []int{0, 1, 2} {
					if c.Rng.Intn(3) == 0 && op > 0 {
						continue
					}
					got := c10HistoryResult(&shared, projects[i], root, op)
					r.hist("history_evaluations")
					r.count(fmt.Sprintf("history:%d:%d:%s", rd, op, ref[i][op]), len(history) > 0)
					if got != ref[i][op] {
						var sources []string
						for k := range files {
							sources = append(sources, k)
						}
						sort.Strings(sources)
						r.violate(Violation{Kind: "property", Key: "C10:history-dependent:" + []string{"compile", "format", "format-fix-includes"}[op],
							What: "the result for a source handled by a Parser that handled other sources before differs from the result with a fresh Parser",
							Input: map[string]interface{}{"files": files, "file": strings.TrimPrefix(projects[i].main, root+"/"),
								"mropath": strings.TrimPrefix(projects[i].mropath[0], root+"/"), "handled_before": history},
							Impl: head(got, 1500), Expect: head(ref[i][op], 1500)})
						return
					}
					history = append(history, fmt.Sprintf("%s op%d", strings.TrimPrefix(projects[i].main, root+"/"), op))
				}
			}
		}
	}
}
