package main

// C13: generator of top-level output signatures (every file-bearing type
// shape), their MRO text, JSON value trees, and the encodings sent to the
// Lean driver.

import (
	"bytes"
	"encoding/json"
	"fmt"
	"math/rand"
	"sort"
	"strconv"
	"strings"

	"github.com/martian-lang/martian/martian/syntax"
)

// c13Ty mirrors the model's Ty: s(calar) f(ile) a(rray) m(ap) t(struct).
type c13Ty struct {
	Kind  string      `json:"k"`
	Mro   string      `json:"mro,omitempty"` // MRO name of the base type (s, f, t)
	Ext   string      `json:"ext,omitempty"`
	Extra int         `json:"extra,omitempty"` // array dims - 1
	Elem  *c13Ty      `json:"elem,omitempty"`
	Ms    []c13Member `json:"ms,omitempty"`
}

type c13Member struct {
	Id      string `json:"id"`
	Help    string `json:"help,omitempty"`
	OutName string `json:"out,omitempty"`
	Ty      *c13Ty `json:"ty"`
}

func (t *c13Ty) hasFile() bool {
	switch t.Kind {
	case "f":
		return true
	case "a", "m":
		return t.Elem.hasFile()
	case "t":
		for _, m := range t.Ms {
			if m.Ty.hasFile() {
				return true
			}
		}
	}
	return false
}

func (t *c13Ty) mro() string {
	switch t.Kind {
	case "a":
		return t.Elem.mro() + strings.Repeat("[]", t.Extra+1)
	case "m":
		return "map<" + t.Elem.mro() + ">"
	}
	return t.Mro
}

// shape label for the histogram
func (t *c13Ty) shape() string {
	switch t.Kind {
	case "a":
		return t.Elem.shape() + strings.Repeat("[]", t.Extra+1)
	case "m":
		return "map<" + t.Elem.shape() + ">"
	case "t":
		if t.hasFile() {
			return "STRUCT+f"
		}
		return "STRUCT"
	case "f":
		if t.Mro == "file" || t.Mro == "path" {
			return t.Mro
		}
		return "usertype"
	}
	return "scalar"
}

func (t *c13Ty) enc(sb *strings.Builder) {
	switch t.Kind {
	case "s":
		sb.WriteString("s")
	case "f":
		sb.WriteString("f " + hx(t.Ext))
	case "a":
		fmt.Fprintf(sb, "a %d ", t.Extra)
		t.Elem.enc(sb)
	case "m":
		sb.WriteString("m ")
		t.Elem.enc(sb)
	case "t":
		c13EncMembers(sb, "t", t.Ms)
	}
}

func c13EncMembers(sb *strings.Builder, prefix string, ms []c13Member) {
	if prefix != "" {
		sb.WriteString(prefix + " ")
	}
	fmt.Fprintf(sb, "%d", len(ms))
	for _, m := range ms {
		sb.WriteString(" " + hx(m.Id) + " " + hx(m.OutName) + " ")
		m.Ty.enc(sb)
	}
}

func c13EncParams(ms []c13Member) string {
	var sb strings.Builder
	c13EncMembers(&sb, "", ms)
	return sb.String()
}

// expected out file name, computed here independently of the model
func (m *c13Member) expectName() string {
	if m.OutName != "" {
		return m.OutName
	}
	if m.Ty.Kind == "f" && m.Ty.Ext != "" {
		return m.Id + "." + m.Ty.Ext
	}
	return m.Id
}

// ---- JSON trees with ordered keys ----

type c13J struct {
	K    byte // n l q A O
	S    string
	Arr  []*c13J
	Keys []string
	Vals []*c13J
}

var c13Null = &c13J{K: 'n'}

func c13Str(s string) *c13J { return &c13J{K: 'q', S: s} }
func c13Lit(s string) *c13J { return &c13J{K: 'l', S: s} }

func (j *c13J) get(k string) *c13J {
	if j == nil || j.K != 'O' {
		return nil
	}
	var r *c13J
	for i, kk := range j.Keys {
		if kk == k {
			r = j.Vals[i]
		}
	}
	return r
}

func (j *c13J) enc(sb *strings.Builder) {
	switch j.K {
	case 'n':
		sb.WriteString("n")
	case 'l':
		sb.WriteString("l " + hx(j.S))
	case 'q':
		sb.WriteString("q " + hx(j.S))
	case 'A':
		fmt.Fprintf(sb, "A %d", len(j.Arr))
		for _, x := range j.Arr {
			sb.WriteByte(' ')
			x.enc(sb)
		}
	case 'O':
		fmt.Fprintf(sb, "O %d", len(j.Keys))
		for i, k := range j.Keys {
			sb.WriteString(" " + hx(k) + " ")
			j.Vals[i].enc(sb)
		}
	}
}

func (j *c13J) encStr() string {
	var sb strings.Builder
	j.enc(&sb)
	return sb.String()
}

// compact JSON text, strings through encoding/json (as the stages' _outs are)
func (j *c13J) text(w *bytes.Buffer) {
	switch j.K {
	case 'n':
		w.WriteString("null")
	case 'l':
		w.WriteString(j.S)
	case 'q':
		b, _ := json.Marshal(j.S)
		w.Write(b)
	case 'A':
		w.WriteByte('[')
		for i, x := range j.Arr {
			if i > 0 {
				w.WriteByte(',')
			}
			x.text(w)
		}
		w.WriteByte(']')
	case 'O':
		w.WriteByte('{')
		for i, k := range j.Keys {
			if i > 0 {
				w.WriteByte(',')
			}
			b, _ := json.Marshal(k)
			w.Write(b)
			w.WriteByte(':')
			j.Vals[i].text(w)
		}
		w.WriteByte('}')
	}
}

func (j *c13J) String() string {
	var w bytes.Buffer
	j.text(&w)
	return w.String()
}

// c13ParseJSON: order-preserving parse of JSON text (numbers / booleans keep their literal text).
func c13ParseJSON(b []byte) (*c13J, error) {
	dec := json.NewDecoder(bytes.NewReader(b))
	dec.UseNumber()
	j, err := c13ParseVal(dec)
	if err != nil {
		return nil, err
	}
	if _, err := dec.Token(); err == nil {
		return nil, fmt.Errorf("trailing data")
	}
	return j, nil
}

func c13ParseVal(dec *json.Decoder) (*c13J, error) {
	t, err := dec.Token()
	if err != nil {
		return nil, err
	}
	switch v := t.(type) {
	case nil:
		return c13Null, nil
	case bool:
		return c13Lit(strconv.FormatBool(v)), nil
	case json.Number:
		return c13Lit(v.String()), nil
	case string:
		return c13Str(v), nil
	case json.Delim:
		switch v {
		case '[':
			r := &c13J{K: 'A'}
			for dec.More() {
				x, err := c13ParseVal(dec)
				if err != nil {
					return nil, err
				}
				r.Arr = append(r.Arr, x)
			}
			_, err := dec.Token()
			return r, err
		case '{':
			r := &c13J{K: 'O'}
			for dec.More() {
				kt, err := dec.Token()
				if err != nil {
					return nil, err
				}
				k, ok := kt.(string)
				if !ok {
					return nil, fmt.Errorf("bad key")
				}
				x, err := c13ParseVal(dec)
				if err != nil {
					return nil, err
				}
				r.Keys = append(r.Keys, k)
				r.Vals = append(r.Vals, x)
			}
			_, err := dec.Token()
			return r, err
		}
	}
	return nil, fmt.Errorf("unexpected token %v", t)
}

// canonical text: object keys sorted (last duplicate wins), compact
func (j *c13J) canon() string {
	var w bytes.Buffer
	j.canonTo(&w)
	return w.String()
}

func (j *c13J) canonTo(w *bytes.Buffer) {
	switch j.K {
	case 'A':
		w.WriteByte('[')
		for i, x := range j.Arr {
			if i > 0 {
				w.WriteByte(',')
			}
			x.canonTo(w)
		}
		w.WriteByte(']')
	case 'O':
		m := map[string]*c13J{}
		for i, k := range j.Keys {
			m[k] = j.Vals[i]
		}
		ks := make([]string, 0, len(m))
		for k := range m {
			ks = append(ks, k)
		}
		sort.Strings(ks)
		w.WriteByte('{')
		for i, k := range ks {
			if i > 0 {
				w.WriteByte(',')
			}
			b, _ := json.Marshal(k)
			w.Write(b)
			w.WriteByte(':')
			m[k].canonTo(w)
		}
		w.WriteByte('}')
	default:
		j.text(w)
	}
}

// ---- signature generator ----

type c13Sig struct {
	Filetypes []string
	Structs   []*c13Ty // declaration order (inner first)
	Params    []c13Member
}

type c13Gen struct {
	rng      *rand.Rand
	sig      *c13Sig
	nstruct  int
	nearMiss bool // allow duplicate / illegal out names
}

var c13UserTypes = []string{"txt", "bam", "tar.gz", "json"}
var c13Scalars = []string{"int", "string", "float", "bool", "map"}
var c13OutNames = []string{"res.x", "my file", "α.txt", "a&b", "name", "q", "0", "00", "f1.txt", "x-y_z.tar.gz", "é", "a"}
var c13Ids = []string{"a", "b", "c", "f1", "q", "r", "x_y", "out1", "A0", "zz"}

func (g *c13Gen) base(depth int) *c13Ty {
	r := g.rng.Intn(20)
	switch {
	case r < 3:
		return &c13Ty{Kind: "s", Mro: c13Scalars[g.rng.Intn(len(c13Scalars))]}
	case r < 7:
		return &c13Ty{Kind: "f", Mro: "file"}
	case r < 9:
		return &c13Ty{Kind: "f", Mro: "path"}
	case r < 14:
		u := c13UserTypes[g.rng.Intn(len(c13UserTypes))]
		return &c13Ty{Kind: "f", Mro: u, Ext: u}
	default:
		if depth >= 2 {
			return &c13Ty{Kind: "f", Mro: "file"}
		}
		return g.newStruct(depth)
	}
}

func (g *c13Gen) newStruct(depth int) *c13Ty {
	if len(g.sig.Structs) > 0 && g.rng.Intn(3) == 0 {
		return g.sig.Structs[g.rng.Intn(len(g.sig.Structs))]
	}
	n := 1 + g.rng.Intn(4)
	ms := g.members(n, depth+1)
	g.nstruct++
	t := &c13Ty{Kind: "t", Mro: fmt.Sprintf("S%d", g.nstruct), Ms: ms}
	g.sig.Structs = append(g.sig.Structs, t)
	return t
}

func (g *c13Gen) ty(depth int) *c13Ty {
	b := g.base(depth)
	wrapArr := func(t *c13Ty, maxDim int) *c13Ty {
		return &c13Ty{Kind: "a", Elem: t, Extra: g.rng.Intn(maxDim)}
	}
	switch g.rng.Intn(12) {
	case 0, 1, 2, 3:
		return b
	case 4, 5:
		return wrapArr(b, 1)
	case 6:
		return wrapArr(b, 3)
	case 7, 8:
		if b.Mro == "map" {
			return b
		}
		return &c13Ty{Kind: "m", Elem: b}
	case 9:
		if b.Mro == "map" {
			return b
		}
		return &c13Ty{Kind: "m", Elem: wrapArr(b, 2)}
	case 10:
		if b.Mro == "map" {
			return b
		}
		return wrapArr(&c13Ty{Kind: "m", Elem: b}, 2)
	default:
		if b.Mro == "map" {
			return b
		}
		return wrapArr(&c13Ty{Kind: "m", Elem: wrapArr(b, 2)}, 2)
	}
}

func (g *c13Gen) members(n, depth int) []c13Member {
	var ms []c13Member
	used := map[string]bool{}
	usedNames := map[string]bool{}
	for len(ms) < n {
		id := c13Ids[g.rng.Intn(len(c13Ids))]
		if used[id] {
			continue
		}
		m := c13Member{Id: id, Ty: g.ty(depth)}
		if g.rng.Intn(3) == 0 {
			m.Help = "help " + id
			if g.rng.Intn(2) == 0 {
				m.OutName = c13OutNames[g.rng.Intn(len(c13OutNames))]
			}
		}
		if g.nearMiss && m.Ty.hasFile() && len(usedNames) > 0 && g.rng.Intn(4) == 0 {
			// near miss: reuse a sibling's output file name (must be rejected by the compiler)
			names := make([]string, 0, len(usedNames))
			for n := range usedNames {
				names = append(names, n)
			}
			sort.Strings(names)
			m.Help = "help " + id
			m.OutName = names[g.rng.Intn(len(names))]
		}
		if m.Ty.hasFile() {
			nm := m.expectName()
			if usedNames[nm] && !g.nearMiss {
				continue
			}
			usedNames[nm] = true
		}
		used[id] = true
		ms = append(ms, m)
	}
	return ms
}

func c13GenSig(rng *rand.Rand, nearMiss bool) *c13Sig {
	g := &c13Gen{rng: rng, sig: &c13Sig{Filetypes: c13UserTypes}, nearMiss: nearMiss}
	for tries := 0; ; tries++ {
		g.sig.Structs = nil
		g.nstruct = 0
		g.sig.Params = g.members(1+rng.Intn(4), 0)
		for _, p := range g.sig.Params {
			if p.Ty.hasFile() {
				return g.sig
			}
		}
		if tries > 20 {
			return g.sig
		}
	}
}

func c13MroMember(m c13Member, kw string) string {
	s := "    " + kw + m.Ty.mro() + " " + m.Id
	if m.Help != "" || m.OutName != "" {
		s += " " + c13MroString(m.Help)
		if m.OutName != "" {
			s += " " + c13MroString(m.OutName)
		}
	}
	return s + ",\n"
}

func c13MroString(s string) string {
	var sb strings.Builder
	sb.WriteByte('"')
	for _, r := range s {
		switch r {
		case '"':
			sb.WriteString("\\\"")
		case '\\':
			sb.WriteString("\\\\")
		default:
			sb.WriteRune(r)
		}
	}
	sb.WriteByte('"')
	return sb.String()
}

// mro renders the declarations, a stage MK producing the outputs, and a top
// pipeline returning them.  mapped: "" | "array" | "map" (top-level map call).
// viaInner: the outputs pass through a sub-pipeline first.
func (s *c13Sig) mro(mapped string, viaInner bool) string {
	return s.mroDup(mapped, viaInner, false)
}

// mroDup: dupReturn additionally binds every stage output to a SECOND top-level
// output `<id>_2` of the same type (one file, two outputs).
func (s *c13Sig) mroDup(mapped string, viaInner, dupReturn bool) string {
	var sb strings.Builder
	for _, f := range s.Filetypes {
		sb.WriteString("filetype " + f + ";\n")
	}
	sb.WriteString("\n")
	for _, st := range s.Structs {
		sb.WriteString("struct " + st.Mro + "(\n")
		for _, m := range st.Ms {
			sb.WriteString(c13MroMember(m, ""))
		}
		sb.WriteString(")\n\n")
	}
	sb.WriteString("stage MK(\n    in int x,\n")
	for _, p := range s.Params {
		sb.WriteString(c13MroMember(p, "out "))
	}
	sb.WriteString("    src comp \"x\",\n)\n\n")
	callee := "MK"
	if viaInner {
		sb.WriteString("pipeline INNER(\n    in int x,\n")
		for _, p := range s.Params {
			sb.WriteString(c13MroMember(c13Member{Id: p.Id, Ty: p.Ty}, "out "))
		}
		sb.WriteString(")\n{\n    call MK(\n        x = self.x,\n    )\n\n    return (\n")
		for _, p := range s.Params {
			sb.WriteString("        " + p.Id + " = MK." + p.Id + ",\n")
		}
		sb.WriteString("    )\n}\n\n")
		callee = "INNER"
	}
	sb.WriteString("pipeline TOP(\n    in int x,\n")
	for _, p := range s.Params {
		sb.WriteString(c13MroMember(p, "out "))
	}
	if dupReturn {
		for _, p := range s.Params {
			sb.WriteString(c13MroMember(c13Member{Id: p.Id + "_2", Ty: p.Ty}, "out "))
		}
	}
	sb.WriteString(")\n{\n    call " + callee + "(\n        x = self.x,\n    )\n\n    return (\n")
	for _, p := range s.Params {
		sb.WriteString("        " + p.Id + " = " + callee + "." + p.Id + ",\n")
	}
	if dupReturn {
		for _, p := range s.Params {
			sb.WriteString("        " + p.Id + "_2 = " + callee + "." + p.Id + ",\n")
		}
	}
	sb.WriteString("    )\n}\n\n")
	switch mapped {
	case "array":
		sb.WriteString("map call TOP(\n    x = split [1, 2, 3],\n)\n")
	case "map":
		sb.WriteString("map call TOP(\n    x = split {\n        \"k1\": 1,\n        \"b\": 2,\n    },\n)\n")
	default:
		sb.WriteString("call TOP(\n    x = 1,\n)\n")
	}
	return sb.String()
}

// c13FromSyntax converts the compiler's view of a type to the model's.
func c13FromSyntax(lookup *syntax.TypeLookup, t syntax.Type) *c13Ty {
	switch tt := t.(type) {
	case *syntax.BuiltinType:
		if tt.Id == syntax.KindFile || tt.Id == syntax.KindPath {
			return &c13Ty{Kind: "f", Mro: tt.Id}
		}
		return &c13Ty{Kind: "s", Mro: tt.Id}
	case *syntax.UserType:
		return &c13Ty{Kind: "f", Mro: tt.Id, Ext: tt.Id}
	case *syntax.ArrayType:
		return &c13Ty{Kind: "a", Extra: int(tt.Dim) - 1, Elem: c13FromSyntax(lookup, tt.Elem)}
	case *syntax.TypedMapType:
		return &c13Ty{Kind: "m", Elem: c13FromSyntax(lookup, tt.Elem)}
	case *syntax.StructType:
		r := &c13Ty{Kind: "t", Mro: tt.Id}
		for _, m := range tt.Members {
			r.Ms = append(r.Ms, c13MemberFromSyntax(lookup, m))
		}
		return r
	}
	return &c13Ty{Kind: "s", Mro: "?"}
}

func c13MemberFromSyntax(lookup *syntax.TypeLookup, m *syntax.StructMember) c13Member {
	return c13Member{Id: m.Id, Help: m.Help, OutName: m.OutName, Ty: c13FromSyntax(lookup, lookup.Get(m.Tname))}
}

func c13ParamsFromSyntax(lookup *syntax.TypeLookup, ps *syntax.OutParams) []c13Member {
	var r []c13Member
	for _, p := range ps.List {
		r = append(r, c13MemberFromSyntax(lookup, &p.StructMember))
	}
	return r
}

func c13TyEqual(a, b *c13Ty) bool {
	if a.Kind != b.Kind || a.Ext != b.Ext || a.Extra != b.Extra || len(a.Ms) != len(b.Ms) {
		return false
	}
	if a.Elem != nil && !c13TyEqual(a.Elem, b.Elem) {
		return false
	}
	for i := range a.Ms {
		if a.Ms[i].Id != b.Ms[i].Id || a.Ms[i].OutName != b.Ms[i].OutName || !c13TyEqual(a.Ms[i].Ty, b.Ms[i].Ty) {
			return false
		}
	}
	return true
}

// maxLeaves: upper bound on the number of file leaves a fake stage produces for this type
// (arrays and maps have at most 3 entries per level).
func (t *c13Ty) maxLeaves() int {
	switch t.Kind {
	case "f":
		return 1
	case "a":
		n := t.Elem.maxLeaves()
		for i := 0; i <= t.Extra; i++ {
			n *= 3
		}
		return n
	case "m":
		return 3 * t.Elem.maxLeaves()
	case "t":
		n := 0
		for _, m := range t.Ms {
			n += m.Ty.maxLeaves()
		}
		return n
	}
	return 0
}

func (s *c13Sig) maxLeaves() int {
	n := 0
	for _, p := range s.Params {
		n += p.Ty.maxLeaves()
	}
	return n
}

// c13GenSmallSig: a signature whose values stay small (for exhaustive sweeps).
func c13GenSmallSig(rng *rand.Rand, limit int) *c13Sig {
	for {
		if sig := c13GenSig(rng, false); sig.maxLeaves() <= limit && sig.maxLeaves() >= 2 {
			return sig
		}
	}
}

// hasDirMap: does the type contain a typed map of directory kind (a map whose entries contain files)?
func (t *c13Ty) hasDirMap() bool {
	switch t.Kind {
	case "m":
		return t.Elem.hasFile() || t.Elem.hasDirMap()
	case "a":
		return t.Elem.hasDirMap()
	case "t":
		for _, m := range t.Ms {
			if m.Ty.hasDirMap() {
				return true
			}
		}
	}
	return false
}

func (s *c13Sig) hasDirMap() bool {
	for _, p := range s.Params {
		if p.Ty.hasDirMap() {
			return true
		}
	}
	return false
}
