package main

// C11, tier A: MAPPED pipestances over adversarial map-key sets through the
// real runtime (in-process fake job manager, see tiera.go).  Property text:
// "a mapped call over any legal key set completes and returns a map with
// exactly those keys".
//
// Runs happen in child processes of this binary (pseudo-property "C11W": the
// runtime may end the process, and a run that hangs is abandoned with its
// process).  The ECHO* stages copy their first input to their first output, so
// the value returned for a key identifies the fork that computed it.
//
// Oracle per pipestance whose names all fit NAME_MAX (model: mapForkDir_fits /
// journal_name_fits): Final == complete; the top-level output map has EXACTLY
// the input key set and under each key the payload of that key; the fork
// directories on disk are pairwise distinct and are the model's fork ids; the
// journal names the jobs were given parse (model parseRun) to the node and to
// the model's journalEnc of the fork id.
// Beyond NAME_MAX (a legal key whose directory name or journal file name
// exceeds 255 bytes): the run must END (no hang, no panic, no process exit)
// and must never return a wrong key set; how it ends is recorded.

import (
	"bufio"
	"encoding/json"
	"fmt"
	"io"
	"io/fs"
	"os"
	"os/exec"
	"path/filepath"
	"sort"
	"strings"
	"sync"
	"time"

	"github.com/martian-lang/martian/martian/syntax"
)

type c11TAJob struct {
	Fqname  string `json:"fqname"`
	Shell   string `json:"shell"`
	Journal string `json:"journal"` // base name of the journal prefix the job was given
}

type c11TARes struct {
	Index    int             `json:"index"`
	Name     string          `json:"name"`
	Final    string          `json:"final"`
	ErrMsg   string          `json:"errmsg,omitempty"`
	Compile  string          `json:"compile,omitempty"`
	TopOuts  json.RawMessage `json:"top_outs,omitempty"`
	Jobs     []c11TAJob      `json:"jobs,omitempty"`
	ForkDirs []string        `json:"fork_dirs,omitempty"` // directories named fork* below the pipestance, relative
	NEvents  int             `json:"n_events"`
	WallMs   int64           `json:"wall_ms"`
	Crashed  bool            `json:"crashed,omitempty"`
	FailMsgs []string        `json:"fail_msgs,omitempty"`
}

func c11TARunSpec(spec *TASpec, scratch string) *c11TARes {
	res := &c11TARes{Index: spec.Index, Name: spec.Name}
	start := time.Now()
	opts := TAOpts{InlineFinish: spec.InlineFinish, StartSeparate: spec.StartSeparate, StepBias: spec.StepBias, Adversarial: spec.Adversarial}
	var run *TARun
	opts.OutsHook = func(job *TAJob, outs map[string]interface{}) {
		if run == nil || !strings.HasPrefix(job.StageName, "ECHO") || job.ShellName == "split" {
			return
		}
		stage, _ := run.Ast.Callables.Table[job.StageName].(*syntax.Stage)
		if stage == nil || len(stage.InParams.List) == 0 || len(stage.OutParams.List) == 0 {
			return
		}
		var args map[string]interface{}
		if json.Unmarshal(job.Args, &args) == nil {
			outs[stage.OutParams.List[0].Id] = args[stage.InParams.List[0].Id]
		}
	}
	run, err := NewTARun(spec.Src, scratch, spec.Seed, opts)
	if err != nil {
		res.Final = "compile-error"
		res.Compile = err.Error()
		return res
	}
	defer run.Close()
	run.LaunchHook = func(job *TAJob) {
		res.Jobs = append(res.Jobs, c11TAJob{Fqname: job.Fqname, Shell: job.ShellName, Journal: filepath.Base(job.JournalFile)})
	}
	to := time.Duration(spec.TimeoutS) * time.Second
	if to == 0 {
		to = 20 * time.Second
	}
	run.RunTimed(to)
	res.Final = run.Final
	res.ErrMsg = run.ErrMsg
	if len(res.ErrMsg) > 3000 {
		res.ErrMsg = res.ErrMsg[:3000]
	}
	res.FailMsgs = run.FailMsgs
	res.NEvents = len(run.Events)
	if outs, err := run.TopOuts(); err == nil {
		res.TopOuts = outs
	}
	if run.Final != "hang" {
		filepath.WalkDir(run.PsDir, func(p string, d fs.DirEntry, err error) error {
			if err != nil {
				return nil
			}
			if d.IsDir() && strings.HasPrefix(d.Name(), "fork") {
				if rel, e := filepath.Rel(run.PsDir, p); e == nil {
					res.ForkDirs = append(res.ForkDirs, rel)
				}
			}
			if d.IsDir() && (d.Name() == "files" || strings.HasPrefix(d.Name(), "chnk") || d.Name() == "split" || d.Name() == "join" || d.Name() == "journal" || d.Name() == "tmp") {
				return filepath.SkipDir
			}
			return nil
		})
		sort.Strings(res.ForkDirs)
	}
	res.WallMs = time.Since(start).Milliseconds()
	return res
}

func init() {
	register("C11W", func(c *Ctx) {
		taInit()
		in := bufio.NewReaderSize(os.Stdin, 1<<22)
		out := bufio.NewWriter(os.Stdout)
		for {
			line, err := in.ReadBytes('\n')
			if len(line) > 1 {
				var spec TASpec
				if json.Unmarshal(line, &spec) != nil {
					fatal("bad spec")
				}
				fmt.Fprintf(out, "BEGIN %d\n", spec.Index)
				out.Flush()
				res := c11TARunSpec(&spec, c.Scratch)
				b, _ := json.Marshal(res)
				out.Write(b)
				out.WriteByte('\n')
				out.Flush()
				if res.Final == "hang" {
					os.RemoveAll(c.Scratch)
					os.Exit(7)
				}
			}
			if err != nil {
				os.RemoveAll(c.Scratch)
				os.Exit(0) // do not let main print a Result onto the protocol stream
			}
		}
	})
}

type c11TAWorker struct {
	cmd   *exec.Cmd
	stdin io.WriteCloser
	rd    *bufio.Reader
}

func c11TAStartWorker() *c11TAWorker {
	w := &c11TAWorker{}
	w.cmd = exec.Command(os.Args[0], "C11W")
	w.cmd.Stderr = nil
	w.stdin, _ = w.cmd.StdinPipe()
	so, _ := w.cmd.StdoutPipe()
	w.rd = bufio.NewReaderSize(so, 1<<22)
	w.cmd.Env = append(os.Environ(), "GOMAXPROCS=2")
	if err := w.cmd.Start(); err != nil {
		fatal("worker: %v", err)
	}
	return w
}

func (w *c11TAWorker) stop() {
	if w != nil && w.cmd != nil {
		w.stdin.Close()
		w.cmd.Process.Kill()
		w.cmd.Wait()
		w.cmd = nil
	}
}

func (w *c11TAWorker) run(spec *TASpec) *c11TARes {
	b, _ := json.Marshal(spec)
	w.stdin.Write(append(b, '\n'))
	var res *c11TARes
	for {
		line, err := w.rd.ReadBytes('\n')
		if err != nil {
			break
		}
		if strings.HasPrefix(string(line), `{"index":`) {
			var r c11TARes
			if json.Unmarshal(line, &r) == nil {
				res = &r
				break
			}
		}
	}
	if res == nil {
		res = &c11TARes{Index: spec.Index, Name: spec.Name, Final: "process-exit", Crashed: true}
		w.cmd.Wait()
		if w.cmd.ProcessState != nil {
			res.ErrMsg = w.cmd.ProcessState.String()
		}
		w.cmd = nil
	} else if res.Final == "hang" {
		w.cmd.Wait()
		w.cmd = nil
	}
	return res
}

func c11TARunSpecs(specs []*TASpec, parallel int) []*c11TARes {
	results := make([]*c11TARes, len(specs))
	for i, s := range specs {
		s.Index = i
	}
	var mu sync.Mutex
	next := 0
	take := func() *TASpec {
		mu.Lock()
		defer mu.Unlock()
		if next >= len(specs) {
			return nil
		}
		s := specs[next]
		next++
		return s
	}
	var wg sync.WaitGroup
	for i := 0; i < parallel; i++ {
		wg.Add(1)
		go func() {
			defer wg.Done()
			var w *c11TAWorker
			defer func() { w.stop() }()
			for {
				spec := take()
				if spec == nil {
					return
				}
				if w == nil || w.cmd == nil {
					w = c11TAStartWorker()
				}
				results[spec.Index] = w.run(spec)
			}
		}()
	}
	wg.Wait()
	return results
}
