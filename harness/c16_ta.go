package main

// C16, Tier A: the `_invocation` file mrp records for every fork of every
// node of REAL pipestances (in-process runtime, fake stages: tiera.go).
//
// Programs: GenProgram (static and run-time splits, keyed map calls, mapped
// sub-pipelines, disabled calls, struct/typed-map arguments) with the
// declarations in `defs.mro` on MROPATH and the top-level call as the
// invocation source; the top-level call is left as generated or turned into a
// top-level `map call` (array or keyed) over a random subset of its
// arguments.  After the run EVERY `<node>/<fork>/_invocation` is read and
// must (1) exist and be non-empty for a fork that ran, (2) compile on its own
// against the program's declarations, (3) call the node's callable under the
// node's call id, (4) convert to invocation data and back to the same text,
// and (5) for stage forks carry exactly the arguments mrp delivered to the
// fork's first job (`_args` of split, else of the main chunk), compared as
// JSON trees, with no argument left split.  (6) The model of Fork.writeInvocation
// (c16_fork.go): per fork the inputs Node.resolveInputs(forkId, true) returns are
// serialised in their dynamic types and the driver's invocationOf / forkCompiles /
// printFork are compared with the real file: built, compiles, text bytes, stage data.
//
// Runs happen in a child process of this binary (pseudo-property "C16W"): the
// real runtime may end the process.

import (
	"encoding/json"
	"fmt"
	"math/rand"
	"os"
	"os/exec"
	"path/filepath"
	"sort"
	"strings"
	"time"

	"github.com/martian-lang/martian/martian/core"
	"github.com/martian-lang/martian/martian/syntax"
)

type c16TASpec struct {
	Name string `json:"name"`
	Defs string `json:"defs"`
	Call string `json:"call"`
	Seed int64  `json:"seed"`
	Top  string `json:"top"` // plain | map-array | map-keyed
}

type c16TAFail struct {
	Key   string      `json:"key"`
	What  string      `json:"what"`
	Node  string      `json:"node"`
	Fork  string      `json:"fork"`
	Impl  interface{} `json:"impl,omitempty"`
	Expct interface{} `json:"expect,omitempty"`
}

type c16TARes struct {
	Name       string         `json:"name"`
	Final      string         `json:"final"`
	ErrMsg     string         `json:"errmsg,omitempty"`
	Compile    string         `json:"compile,omitempty"`
	Forks      int            `json:"forks"`
	Checked    int            `json:"checked"`
	StageForks int            `json:"stage_forks"`
	ArgsCmp    int            `json:"args_compared"`
	Hist       map[string]int `json:"hist"`
	Fails      []c16TAFail    `json:"fails,omitempty"`
	Sample     string         `json:"sample,omitempty"`
	Models     []*c16TAModel  `json:"models,omitempty"`
}

func init() { register("C16W", c16Worker) }

func c16Worker(c *Ctx) {
	taInit()
	b, err := os.ReadFile(os.Getenv("C16_SPECS"))
	if err != nil {
		fatal("%v", err)
	}
	var specs []*c16TASpec
	if err := json.Unmarshal(b, &specs); err != nil {
		fatal("%v", err)
	}
	first := 0
	fmt.Sscan(os.Getenv("C16_FIRST"), &first)
	outDir := os.Getenv("C16_OUT")
	for i := first; i < len(specs); i++ {
		os.WriteFile(filepath.Join(outDir, fmt.Sprintf("%d.begin", i)), nil, 0o644)
		res := c16TARunOne(c, specs[i], i)
		rb, _ := json.Marshal(res)
		os.WriteFile(filepath.Join(outDir, fmt.Sprintf("%d.json", i)), rb, 0o644)
		if res.Final == "hang" {
			os.Exit(7)
		}
	}
}

func c16TARunOne(c *Ctx, spec *c16TASpec, idx int) *c16TARes {
	res := &c16TARes{Name: spec.Name, Hist: map[string]int{}}
	dir := filepath.Join(c.Scratch, fmt.Sprintf("ta%d", idx))
	os.MkdirAll(dir, 0o755)
	defer os.RemoveAll(dir)
	if err := os.WriteFile(filepath.Join(dir, "defs.mro"), []byte(spec.Defs), 0o644); err != nil {
		res.Final = "error:" + err.Error()
		return res
	}
	mroPaths := []string{dir}
	opts := TAOpts{StepBias: 0.4, StartSeparate: 0.3, MroPaths: mroPaths, SrcPath: filepath.Join(dir, "invocation.mro")}
	if strings.HasPrefix(spec.Name, "fixed-disagreeing-splits") {
		opts.OutsHook = func(job *TAJob, outs map[string]interface{}) {
			switch {
			case strings.Contains(job.Key, ".GEN_B."):
				outs["result"] = true
			case strings.Contains(job.Key, ".GEN2."):
				outs["result"] = []int{9}
			}
		}
		prev := syntax.GetEnforcementLevel()
		syntax.SetEnforcementLevel(syntax.EnforceDisable)
		defer syntax.SetEnforcementLevel(prev)
	}
	run, err := NewTARun(spec.Call, c.Scratch, spec.Seed, opts)
	if err != nil {
		res.Final = "compile-error"
		res.Compile = err.Error()
		return res
	}
	defer run.Close()
	// first job of every fork, by metadata path
	run.RunTimed(30 * time.Second)
	res.Final, res.ErrMsg = run.Final, run.ErrMsg
	if len(res.ErrMsg) > 1500 {
		res.ErrMsg = res.ErrMsg[:1500]
	}
	if run.Final == "hang" || strings.HasPrefix(run.Final, "panic") || run.ps == nil {
		return res
	}
	var nodes []core.VerifNodeView
	func() {
		defer func() { recover() }()
		nodes = run.ps.VerifNodes()
	}()
	sort.Slice(nodes, func(i, j int) bool { return nodes[i].Fqname < nodes[j].Fqname })
	fail := func(key, what string, n core.VerifNodeView, f core.VerifForkView, impl, exp interface{}) {
		if len(res.Fails) < 40 {
			res.Fails = append(res.Fails, c16TAFail{Key: key, What: what, Node: n.Fqname, Fork: f.Id, Impl: impl, Expct: exp})
		}
	}
	for _, n := range nodes {
		callId := n.Fqname[strings.LastIndexByte(n.Fqname, '.')+1:]
		var callable syntax.Callable
		if run.Ast.Callables != nil {
			callable = run.Ast.Callables.Table[n.Callable]
		}
		for _, f := range n.Forks {
			res.Forks++
			res.Hist["fork_state_"+string(f.State)]++
			raw, rerr := os.ReadFile(filepath.Join(f.Path, "_invocation"))
			if rerr != nil {
				if f.State == core.Complete {
					fail("C16:fork-invocation-missing", "a fork that ran to completion has no _invocation file", n, f, rerr.Error(), nil)
				} else {
					res.Hist["no_invocation_"+string(f.State)]++
				}
				continue
			}
			text := string(raw)
			res.Checked++
			model := c16TAModelOf(run, n, f, callable, res.Hist)
			if model != nil {
				model.Text = text
				model.CallId = callId
				model.DecId = n.Callable
				model.Kind = n.Kind
				if n.Kind == "pipeline" {
					model.Kind = "top"
					if strings.Count(n.Fqname, ".") > 2 {
						model.Kind = "sub"
					}
				}
				res.Models = append(res.Models, model)
			}
			res.Hist["invocation_"+n.Kind]++
			if res.Sample == "" && len(f.Parts) > 0 {
				res.Sample = n.Fqname + "/" + f.Id + ":\n" + text
			}
			// known finding C16-N8: the split arguments of the map call disagree in this fork
			disagree := model != nil && n.Kind == "stage" && (len(model.Mapped) > 0 || model.ResErr != "")
			if disagree && strings.TrimSpace(text) == "" {
				res.Hist["stage_fork_disagreeing_splits_empty_invocation"]++
				fail("C16:stage-fork-invocation:split-arguments-disagree",
					"the _invocation of a stage fork whose split arguments disagree is EMPTY (resolveInputs failed, BuildCallSource failed, both errors dropped): "+model.ResErr, n, f, nil, nil)
				continue
			}
			if strings.TrimSpace(text) == "" {
				fail("C16:fork-invocation-empty", "the _invocation file is empty (BuildCallSource failed and the error was dropped)", n, f, nil, nil)
				continue
			}
			// (2) compiles on its own against the program's declarations
			var ast *syntax.Ast
			var cerr error
			if pan := c16Recover(func() {
				_, _, ast, cerr = syntax.ParseSourceBytes(raw, filepath.Join(dir, "fork_invocation.mro"), mroPaths, false)
			}); pan != nil || cerr != nil || ast == nil || ast.Call == nil {
				if model != nil {
					model.CompErr = fmt.Sprintf("%v %v", pan, cerr)
				}
				key := "C16:fork-invocation-does-not-compile"
				what := "the _invocation mrp recorded for the fork does not compile"
				if disagree {
					key = "C16:stage-fork-invocation:split-arguments-disagree"
					what = "the _invocation of a stage fork whose split arguments disagree does not compile (a parameter left split with a null value: `map call` without a split binding)"
					res.Hist["stage_fork_disagreeing_splits_map_call_without_split"]++
				}
				if n.Kind == "pipeline" && strings.Count(n.Fqname, ".") > 2 {
					// a sub-pipeline: its fork "only sort-of forks" (stage.go): splits of
					// enclosing map calls and run-time split sources stay unresolved
					key = "C16:nested-pipeline-fork-invocation-does-not-compile"
					what = "the _invocation of a sub-pipeline's fork does not compile"
					shape := "other"
					switch {
					case c16NestedSplit(text):
						shape = "split_inside_literal"
					case strings.Contains(text, "split [],") || strings.Contains(text, "split {},") || strings.Contains(text, "split null,"):
						shape = "split_over_empty"
					case cerr != nil && strings.Contains(cerr.Error(), "inconsistent split inputs"):
						shape = "outer_split_leaks_with_other_length"
					}
					what += " (" + shape + ")"
					res.Hist["nested_pipeline_invocation_"+shape]++
				}
				fail(key, fmt.Sprintf("%s: %v %v", what, pan, cerr), n, f, text, nil)
				continue
			}
			if model != nil {
				model.Compiles = true
			}
			if strings.HasPrefix(strings.TrimSpace(text[strings.Index(text, "\n\n")+1:]), "map call") {
				res.Hist["invocation_is_map_call"]++
			}
			// (3) the right callable under the node's call id
			if ast.Call.DecId != n.Callable || ast.Call.Id != callId {
				fail("C16:fork-invocation-callable", fmt.Sprintf("the _invocation calls %s as %s, the node is %s as %s",
					ast.Call.DecId, ast.Call.Id, n.Callable, callId), n, f, text, nil)
				continue
			}
			// (4) text -> data -> text
			var d *core.InvocationData
			var derr error
			var back string
			if pan := c16Recover(func() {
				if d, derr = core.InvocationDataFromSource(raw, mroPaths); derr == nil {
					back, derr = d.BuildCallSource(mroPaths)
				}
			}); pan != nil || derr != nil {
				fail("C16:fork-invocation-roundtrip", fmt.Sprintf("the _invocation does not convert to invocation data and back: %v %v", pan, derr),
					n, f, text, nil)
				continue
			}
			if ast.Call.Id == ast.Call.DecId && back != text {
				// (an aliased call `call X as Y` is not representable in invocation data)
				fail("C16:fork-invocation-roundtrip", "_invocation -> invocation data -> text is not the identity", n, f, back, text)
				continue
			}
			if n.Kind != "stage" || callable == nil {
				continue
			}
			// (5) the stage fork's arguments
			res.StageForks++
			var job *TAJob
			for _, want := range []string{"split", "main"} {
				for _, j := range run.Jobs {
					if j.ShellName == want && j.Args != nil && strings.HasPrefix(j.MetadataPath, f.Path+"/") &&
						(job == nil || j.Seq < job.Seq) {
						job = j
					}
				}
				if job != nil {
					break
				}
			}
			if job == nil {
				res.Hist["stage_fork_without_job"]++
				continue
			}
			if len(d.SplitArgs) > 0 {
				fail("C16:fork-invocation-args", fmt.Sprintf("the _invocation of a stage fork still has split arguments %v", d.SplitArgs),
					n, f, text, string(job.Args))
				continue
			}
			var delivered map[string]json.RawMessage
			if json.Unmarshal(job.Args, &delivered) != nil {
				continue
			}
			if model != nil {
				model.ArgsJSON = string(job.Args)
			}
			res.ArgsCmp++
			for _, p := range callable.GetInParams().List {
				want, ok := delivered[p.GetId()]
				if !ok {
					continue // not delivered (e.g. chunk-only parameter)
				}
				wt, err1 := c16CanonText(want, true)
				got, ok2 := d.Args[p.GetId()]
				gt, err2 := c16CanonText(got, true)
				if !ok2 || err1 != nil || err2 != nil || wt != gt {
					fail("C16:fork-invocation-args",
						fmt.Sprintf("argument %s of the recorded _invocation differs from what mrp delivered to the fork's %s job (_args)",
							p.GetId(), job.ShellName), n, f,
						map[string]string{"invocation": text, "invocation_arg": string(got)}, string(want))
					break
				}
			}
		}
	}
	return res
}

// c16NestedSplit: the text contains a `split` that is not the direct operand
// of a binding (`x = split <collection>`), e.g. `"a": split [3]`, `[split {..}]`
// or `x = split split [..]`.
func c16NestedSplit(text string) bool {
	for _, line := range strings.Split(text, "\n") {
		t := strings.TrimSpace(line)
		i := strings.Index(t, "split ")
		if i < 0 {
			continue
		}
		if strings.HasPrefix(t, "split ") || strings.Contains(t, ": split ") || strings.Contains(t, "split split ") {
			return true
		}
	}
	return false
}

// c16SplitProgram separates GenProgram's output into declarations and the
// final `call TOP(...)`.
func c16SplitProgram(src string) (defs, call string, ok bool) {
	i := strings.LastIndex(src, "\ncall TOP(")
	if i < 0 {
		return "", "", false
	}
	return src[:i+1], src[i+1:], true
}

// c16MapTop turns `call TOP(a = X, b = Y)` into a top-level map call over a
// random non-empty subset of its arguments (every operand has n elements).
func c16MapTop(rng *rand.Rand, call string, keyed bool) (string, bool) {
	lines := strings.Split(strings.TrimRight(call, "\n"), "\n")
	if len(lines) < 3 || lines[0] != "call TOP(" || lines[len(lines)-1] != ")" {
		return "", false
	}
	body := lines[1 : len(lines)-1]
	type arg struct{ name, lit string }
	var args []arg
	for _, l := range body {
		t := strings.TrimSpace(l)
		eq := strings.Index(t, " = ")
		if eq < 0 || !strings.HasSuffix(t, ",") {
			return "", false // multi-line literal: leave the program alone
		}
		args = append(args, arg{t[:eq], strings.TrimSuffix(t[eq+3:], ",")})
	}
	if len(args) == 0 {
		return "", false
	}
	n := 1 + rng.Intn(3)
	keys := []string{"k1", "b/fork_c", "clé"}[:n]
	var sb strings.Builder
	sb.WriteString("map call TOP(\n")
	any := false
	for i, a := range args {
		if rng.Intn(2) == 0 || (!any && i == len(args)-1) {
			any = true
			parts := make([]string, n)
			for j := range parts {
				if keyed {
					parts[j] = fmt.Sprintf("%q: %s", keys[j], a.lit)
				} else {
					parts[j] = a.lit
				}
			}
			if keyed {
				fmt.Fprintf(&sb, "    %s = split {%s},\n", a.name, strings.Join(parts, ", "))
			} else {
				fmt.Fprintf(&sb, "    %s = split [%s],\n", a.name, strings.Join(parts, ", "))
			}
		} else {
			fmt.Fprintf(&sb, "    %s = %s,\n", a.name, a.lit)
		}
	}
	sb.WriteString(")\n")
	return sb.String(), true
}

// a fixed program: top-level map call of a pipeline containing a static map
// call of a splitting stage (the shape of seed w2-3 plus nesting).
const c16TAFixedDefs = `struct PAIR(
    int    n,
    string s,
)

stage GREET(
    in  string    name,
    in  string    suffix,
    in  float     scale,
    in  PAIR      pair,
    in  map<int>  counts,
    out string    greeting,
    src comp      "greet",
)

stage SPL(
    in  int[] xs,
    out int   total,
    src comp  "spl",
) split (
    in  int   x,
    out int   y,
)

pipeline P(
    in  string   names,
    in  string   suffix,
    in  float    scales,
    out string   greeting,
    out int[]    total,
)
{
    call GREET(
        name   = self.names,
        suffix = self.suffix,
        scale  = self.scales,
        pair   = {
            n: 1,
            s: self.names,
        },
        counts = {
            "a b": 1,
            "c":   2,
        },
    )

    map call SPL(
        xs = split [
            [
                1,
                2,
            ],
            [3],
        ],
    )

    return (
        greeting = GREET.greeting,
        total    = SPL.total,
    )
}
`

const c16TAFixedCall = `@include "defs.mro"

map call P(
    names  = split [
        "a",
        "b",
    ],
    suffix = "x",
    scales = split [
        1.5,
        2.5,
    ],
)
`

// a second fixed program: a sub-pipeline (LEAF) below a mapped pipeline (MID) whose binding has the
// split of the enclosing map call INSIDE an array literal, and a pipeline mapped over an empty array – the shapes of known finding
// C16-N6, so that every run exercises the negative side of the model's `forkCompiles`.
const c16TAFixedDefs2 = `stage SUM(
    in  int[] items,
    in  bool  enable,
    out int   total,
    src comp  "sum",
)

pipeline LEAF(
    in  int[] items,
    in  bool  enable,
    out int   total,
)
{
    call SUM(
        items  = self.items,
        enable = self.enable,
    )

    return (
        total = SUM.total,
    )
}

pipeline MID(
    in  int  x,
    in  bool enable,
    out int  total,
)
{
    call LEAF(
        items  = [
            13,
            self.x,
        ],
        enable = self.enable,
    )

    return (
        total = LEAF.total,
    )
}

pipeline OUTER(
    in  int[]  xs,
    in  bool[] none,
    out int[]  totals,
    out int[]  nothing,
)
{
    map call MID(
        x      = split self.xs,
        enable = true,
    )

    map call MID as EMPTY(
        x      = 1,
        enable = split self.none,
    )

    return (
        totals  = MID.total,
        nothing = EMPTY.total,
    )
}
`

const c16TAFixedCall2 = `@include "defs.mro"

call OUTER(
    xs   = [
        1,
        2,
    ],
    none = [],
)
`

// third / fourth fixed program (audit pass 3, A13; known finding C16-N8): a map call of a STAGE with
// two split arguments that DISAGREE at run time – the second comes from a producer that is disabled
// (=> `other = null` in a `map call` without split: the grammar rejects it) or has another length
// (=> resolveInputs fails, BuildCallSource fails, a 0-byte _invocation).  Run at the default
// enforcement level, where the pipestance completes.
const c16TAFixedDefs3 = `stage GEN_AI(
    in  int[] what,
    out int[] result,
    src comp  "gen_ai",
)

stage GEN_B(
    in  bool what,
    out bool result,
    src comp "gen_b",
)

stage ADD(
    in  int what,
    in  int other,
    in  int konst,
    out int result,
    src comp "add",
)

pipeline P(
    out int[] r,
)
{
    call GEN_B(
        what = true,
    )

    call GEN_AI as GEN2(
        what = [
            3,
            4,
        ],
    ) using (
        disabled = GEN_B.result,
    )

    map call ADD(
        what  = split [
            1,
            2,
        ],
        other = split GEN2.result,
        konst = 7,
    )

    return (
        r = ADD.result,
    )
}
`

const c16TAFixedDefs4 = `stage GEN_AI(
    in  int[] what,
    out int[] result,
    src comp  "gen_ai",
)

stage ADD(
    in  int what,
    in  int other,
    in  int konst,
    out int result,
    src comp "add",
)

pipeline P(
    out int[] r,
)
{
    call GEN_AI as GEN2(
        what = [9],
    )

    map call ADD(
        what  = split [
            1,
            2,
        ],
        other = split GEN2.result,
        konst = 7,
    )

    return (
        r = ADD.result,
    )
}
`

const c16TAFixedCall3 = `@include "defs.mro"

call P()
`

func (x *c16Runner) tierA(nprog int) {
	c, r := x.c, x.r
	specs := []*c16TASpec{{Name: "fixed-disagreeing-splits-disabled-producer", Defs: c16TAFixedDefs3, Call: c16TAFixedCall3, Seed: c.Seed, Top: "plain"},
		{Name: "fixed-disagreeing-splits-length", Defs: c16TAFixedDefs4, Call: c16TAFixedCall3, Seed: c.Seed, Top: "plain"}, {Name: "fixed-top-level-map-call", Defs: c16TAFixedDefs, Call: c16TAFixedCall, Seed: c.Seed, Top: "map-array"},
		{Name: "fixed-sub-pipeline-forks", Defs: c16TAFixedDefs2, Call: c16TAFixedCall2, Seed: c.Seed, Top: "plain"}}
	for i := 0; len(specs) < nprog+4 && i < nprog*4; i++ {
		src, _ := GenProgram(c.Rng, GenOpts{})
		defs, call, ok := c16SplitProgram(src)
		if !ok {
			continue
		}
		top := "plain"
		switch c.Rng.Intn(3) {
		case 1:
			if mc, ok := c16MapTop(c.Rng, call, false); ok {
				call, top = mc, "map-array"
			}
		case 2:
			if mc, ok := c16MapTop(c.Rng, call, true); ok {
				call, top = mc, "map-keyed"
			}
		}
		specs = append(specs, &c16TASpec{Name: fmt.Sprintf("gen%d", i), Defs: defs,
			Call: "@include \"defs.mro\"\n\n" + call, Seed: c.Rng.Int63(), Top: top})
	}
	dir := filepath.Join(c.Scratch, "c16ta")
	os.MkdirAll(dir, 0o755)
	sb, _ := json.Marshal(specs)
	specFile := filepath.Join(dir, "specs.json")
	os.WriteFile(specFile, sb, 0o644)
	first := 0
	for first < len(specs) {
		cmd := exec.Command(os.Args[0], "-tier", c.Tier, "-seed", fmt.Sprint(c.Seed), "-repo", c.RepoDir, "C16W")
		cmd.Env = append(os.Environ(), "C16_SPECS="+specFile, "C16_OUT="+dir, fmt.Sprintf("C16_FIRST=%d", first))
		cmd.Stdout, cmd.Stderr = nil, nil
		cmd.Run()
		// the first spec that began but has no result killed the child
		next := len(specs)
		for i := first; i < len(specs); i++ {
			if _, err := os.Stat(filepath.Join(dir, fmt.Sprintf("%d.json", i))); err != nil {
				next = i
				break
			}
		}
		if next < len(specs) {
			if _, err := os.Stat(filepath.Join(dir, fmt.Sprintf("%d.begin", next))); err == nil {
				r.hist("TA_child_died")
				r.note("Tier A: the worker process ended while running %s (top=%s); skipped", specs[next].Name, specs[next].Top)
				next++
			} else if next == first {
				r.note("Tier A: worker did not start (%s)", specs[next].Name)
				break
			}
		}
		first = next
	}
	for i, spec := range specs {
		b, err := os.ReadFile(filepath.Join(dir, fmt.Sprintf("%d.json", i)))
		if err != nil {
			continue
		}
		var res c16TARes
		if json.Unmarshal(b, &res) != nil {
			continue
		}
		r.hist("TA_top_" + spec.Top)
		r.hist("TA_final_" + strings.SplitN(res.Final, ":", 2)[0])
		if res.Final == "compile-error" {
			r.hist("TA_program_rejected")
			if spec.Top == "plain" || i < 4 {
				r.note("Tier A: generated program does not compile: %s", res.Compile)
			}
			continue
		}
		r.count("TA:"+spec.Call+spec.Defs, res.Checked > 1)
		for k, v := range res.Hist {
			if r.Histogram == nil {
				r.Histogram = map[string]int{}
			}
			r.Histogram["TA_"+k] += v
		}
		r.Histogram["TA_forks"] += res.Forks
		r.Histogram["TA_invocations_checked"] += res.Checked
		r.Histogram["TA_stage_fork_args_compared"] += res.ArgsCmp
		if i == 2 && res.Sample != "" {
			r.sample(map[string]interface{}{"tier_a_invocation": res.Sample})
		}
		for _, m := range res.Models {
			x.forkModel(spec, m.DecId, m)
		}
		x.flush()
		for _, f := range res.Fails {
			r.violate(Violation{Kind: "property", Key: f.Key, What: f.What,
				Input: map[string]interface{}{"defs.mro": spec.Defs, "invocation.mro": spec.Call, "node": f.Node, "fork": f.Fork,
					"run_final": res.Final, "seed": spec.Seed},
				Impl: f.Impl, Expect: f.Expct})
		}
	}
}
