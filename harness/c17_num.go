package main

// C17: numerals as Go reads them.  Ties Num.round64 / Num.goInt? /
// Num.finite64 (lean/Martian/Json.lean) to strconv.ParseFloat and to the real
// BuiltinType.IsValidJson / FilterJson of `int` and `float` on a stream of
// numerals built to sit on rounding boundaries: long mantissas, exact
// halfway points between adjacent float64 values (ties-to-even), neighbours
// one unit above/below them, 2^53 / 2^63 / 2^64 edges, the overflow
// threshold, subnormals, underflow to zero, huge exponents.

import (
	"fmt"
	"math"
	"math/big"
	"strconv"
	"strings"

	"github.com/martian-lang/martian/martian/syntax"
)

// c17ExactDecimal: the exact decimal expansion of a finite float64 (every
// binary64 is a finite decimal).
func c17ExactDecimal(f float64) string {
	return new(big.Float).SetFloat64(f).Text('f', -1)
}

// c17Midpoint: exact decimal text of the midpoint between |f| and the next float64 above.
func c17Midpoint(f float64) string {
	a := new(big.Float).SetPrec(2000).SetFloat64(math.Abs(f))
	b := new(big.Float).SetPrec(2000).SetFloat64(math.Nextafter(math.Abs(f), math.Inf(1)))
	m := new(big.Float).SetPrec(2000).Add(a, b)
	m.Quo(m, big.NewFloat(2))
	return m.Text('f', -1)
}

func c17BumpLastDigit(s string, up bool) string {
	// append a digit after the last one: slightly above (…1) or, for "below", decrement
	if !strings.Contains(s, ".") {
		s += ".0"
	}
	if up {
		return s + "0000000000000000000001"
	}
	// slightly below: subtract one unit in a far-away place
	f, _, _ := new(big.Float).SetPrec(4000).Parse(s, 10)
	eps := new(big.Float).SetPrec(4000).SetMantExp(big.NewFloat(1), -3000)
	f.Sub(f, eps)
	return f.Text('f', 1100)
}

func (x *c17NumGen) randFloat() float64 {
	rng := x.c.Rng
	switch rng.Intn(8) {
	case 0: // integers around 2^53
		return float64(int64(1)<<53 + int64(rng.Intn(64)-32)*2)
	case 1: // around 2^63, 2^64
		return math.Ldexp(1, 62+rng.Intn(3)) * (1 + float64(rng.Intn(8))/4096)
	case 2: // subnormals
		return math.Float64frombits(uint64(rng.Int63n(1 << 20)))
	case 3: // near max
		return math.Float64frombits(0x7FEFFFFFFFFFFFFF - uint64(rng.Intn(4)))
	case 4: // small integers / halves
		return float64(rng.Intn(4000)-2000) / 2
	case 5: // integral, large
		return math.Trunc(math.Ldexp(rng.Float64()+0.5, 40+rng.Intn(30)))
	default:
		return math.Float64frombits(uint64(rng.Int63())) // any finite (exp field < 0x7FF since bit 63 clear and Int63 < 2^63)
	}
}

var c17IntEdges = []string{"9007199254740992", "9007199254740993", "9007199254740994", "9223372036854775807", "9223372036854775808",
	"9223372036854775809", "9223372036854776832", "9223372036854776833", "9223372036854774784", "18446744073709551615", "18446744073709551616",
	"9223372036854777856", "9223372036854776831", "123456789012345678901234567890", "1" + strings.Repeat("0", 308), "1" + strings.Repeat("0", 309),
	"17976931348623157" + strings.Repeat("0", 292), "17976931348623158" + strings.Repeat("0", 292), "17976931348623159" + strings.Repeat("0", 292)}

var c17FloatEdges = []string{"9007199254740993.0", "9223372036854775808.0", "9223372036854775807.0", "9223372036854775808.5", "9223372036854776832.0",
	"9223372036854776833.0", "9.223372036854775807e18", "9.223372036854775808e18", "1.0000000000000001", "1.00000000000000011102230246251565404236316680908203125",
	"1.000000000000000111022302462515654042363166809082031250000001", "0.99999999999999994448884876874217297882", "0.999999999999999944488848768742172978818416595458984375",
	"4503599627370496.5", "4503599627370497.5", "4503599627370495.5", "2251799813685248.25", "1e22", "1e23", "8.41e21", "2.5e-324", "2.4703282292062327e-324", "2.4703282292062328e-324",
	"4.9e-324", "1e-400", "1e-1000000", "0.0", "0e999999", "1e400", "1e999999", "1.7976931348623157e308", "1.7976931348623158e308", "1.797693134862315807e308", "1.797693134862315808e308",
	"179769313486231580793728971405303415079934132710037826936173778980444968292764750946649017977587207096330286416692887910946555547851940402630657488671505820681908902000708383676273854845817711531764475730270069855571366959622842914819860834936475292719074168444365510704342711559699508093042880177904174497791.9999999999999999999999999999999999999999"}

// the witnesses of Props/C17 (rounding_decides_witnesses, float_range_witnesses, exact_model_differs_on_rounding)
var c17NumWitnesses = []string{"9007199254740993.0", "1.0000000000000001", "1e-400", "-9223372036854775809", "9223372036854775808",
	"1.5", "1.0", "1e3", "7", "1e309", "1.7976931348623157e308", "1.7976931348623159e308", "4.9e-324", "9223372036854775807"}

type c17NumGen struct{ c *Ctx }

func (x *c17NumGen) numeral() (text, how string) {
	rng := x.c.Rng
	sign := ""
	if rng.Intn(3) == 0 {
		sign = "-"
	}
	switch rng.Intn(12) {
	case 0: // exact decimal of a float64
		f := x.randFloat()
		if math.IsInf(f, 0) || math.IsNaN(f) {
			f = 1
		}
		return sign + c17ExactDecimal(math.Abs(f)), "exact-float64"
	case 1, 2: // exact midpoint (tie)
		f := x.randFloat()
		if math.IsInf(f, 0) || math.IsNaN(f) || math.Abs(f) >= math.MaxFloat64 {
			f = 3
		}
		return sign + c17Midpoint(f), "midpoint-tie"
	case 3: // just above / below a midpoint
		f := x.randFloat()
		if math.IsInf(f, 0) || math.IsNaN(f) || math.Abs(f) >= math.MaxFloat64 {
			f = 5
		}
		return sign + c17BumpLastDigit(c17Midpoint(f), rng.Intn(2) == 0), "midpoint-neighbour"
	case 4: // long random mantissa with exponent
		n := 16 + rng.Intn(30)
		var sb strings.Builder
		sb.WriteByte(byte('1' + rng.Intn(9)))
		for i := 1; i < n; i++ {
			sb.WriteByte(byte('0' + rng.Intn(10)))
		}
		m := sb.String()
		dot := 1 + rng.Intn(n-1)
		return fmt.Sprintf("%s%s.%se%d", sign, m[:dot], m[dot:], rng.Intn(80)-40), "long-mantissa"
	case 5: // integer-syntax edges
		edges := c17IntEdges
		return sign + edges[rng.Intn(len(edges))], "int-edge"
	case 6: // the same edges written as floats
		edges := c17FloatEdges
		return sign + edges[rng.Intn(len(edges))], "float-edge"
	case 7: // integral floats
		return fmt.Sprintf("%s%d.%s", sign, rng.Int63n(1<<40), strings.Repeat("0", 1+rng.Intn(3))), "integral-float"
	case 8: // exponent forms of integers
		return fmt.Sprintf("%s%de%d", sign, 1+rng.Intn(999), rng.Intn(25)), "int-exponent"
	case 9: // negative exponents making integers or not
		return fmt.Sprintf("%s%d%se-%d", sign, 1+rng.Intn(99999), strings.Repeat("0", rng.Intn(6)), rng.Intn(8)), "neg-exponent"
	case 10: // shortest repr of a random float
		f := x.randFloat()
		if math.IsInf(f, 0) || math.IsNaN(f) {
			f = 7
		}
		return sign + strconv.FormatFloat(math.Abs(f), 'g', -1, 64), "shortest"
	default: // 17 significant digits
		f := x.randFloat()
		if math.IsInf(f, 0) || math.IsNaN(f) {
			f = 9
		}
		return sign + strconv.FormatFloat(math.Abs(f), 'e', 16+rng.Intn(4), 64), "17-digits"
	}
}

// c17Numerals: numerals at `int`, `float`, `int[]` through the ordinary case
// pipeline (all monitors + both models), plus Num.round64 vs strconv.ParseFloat directly.
func c17Numerals(c *Ctx, u *c17Universe, n int) {
	r := c.Res
	get := func(s string) *c17Ty {
		var id syntax.TypeId
		if err := id.UnmarshalText([]byte(s)); err != nil {
			panic(err)
		}
		return c17FromTypeId(u, id)
	}
	tInt, tFloat, tArr := get("int"), get("float"), get("int[]")
	if tInt == nil || tFloat == nil || tArr == nil {
		r.note("C17 numerals: builtin types not found in the fixed universe")
		return
	}
	g := &c17NumGen{c: c}
	var cases []*c17Case
	var reqs [][]string
	var texts []string
	var fixed []string
	fixed = append(fixed, c17NumWitnesses...)
	for _, e := range append(append([]string{}, c17IntEdges...), c17FloatEdges...) {
		fixed = append(fixed, e, "-"+e)
	}
	for i := 0; i < n+2*len(fixed); i++ {
		var text, how string
		if i < 2*len(fixed) {
			// every fixed numeral at `int` and at `float`
			text, how = fixed[i/2], "fixed-witness"
		} else {
			text, how = g.numeral()
		}
		v, err := c17ParseNumber(text)
		if err != nil {
			r.note("numeral generator: %q: %v", text, err)
			continue
		}
		if v.kind == 'd' && (v.exp > 2000000 || v.exp < -2000000) {
			how += "+huge-exponent"
		}
		r.hist("numeral:" + how)
		t := []*c17Ty{tInt, tFloat, tInt, tArr}[i%4]
		if i < 2*len(fixed) {
			t = []*c17Ty{tInt, tFloat}[i%2]
		}
		txt := text
		if t == tArr {
			txt = "[" + text + ",1]"
		}
		tree, perr := c17ParseJSON([]byte(txt))
		if perr != nil {
			r.note("numeral generator: %q does not parse: %v", txt, perr)
			continue
		}
		cases = append(cases, &c17Case{u: u, t: t, v: tree, text: []byte(txt), how: "numeral:" + how})
		reqs = append(reqs, []string{"C17.num", v.encModel()})
		texts = append(texts, text)
	}
	// direct: round64 / finite64 vs strconv.ParseFloat; goInt? vs the Go expression of FilterJson
	reps := c.Drv.AskBatch(reqs)
	for i, rep := range reps {
		text := texts[i]
		f, err := strconv.ParseFloat(text, 64)
		isInf := err != nil
		parts := strings.Split(rep, " | ")
		in := map[string]interface{}{"numeral": text}
		if len(parts) != 5 {
			r.violate(Violation{Kind: "correspondence", Key: "C17:num:driver-reply", What: "driver reply " + rep, Input: in, Broken: "correspondence C17.num"})
			continue
		}
		goVal := "inf"
		if !isInf {
			goVal = new(big.Float).SetFloat64(f).Text('p', 0) // exact: 0x1.…p±e is canonical per value
		}
		modelVal := "inf"
		if parts[0] != "inf" {
			q := strings.Split(parts[0], ":")
			m, _ := new(big.Int).SetString(q[1], 10)
			e, _ := strconv.Atoi(q[2])
			bf := new(big.Float).SetPrec(4000).SetInt(m)
			bf.SetMantExp(bf, e)
			if q[0] == "1" {
				bf.Neg(bf)
			}
			ff, acc := bf.Float64()
			if acc != big.Exact {
				modelVal = "not-a-float64:" + parts[0]
			} else {
				modelVal = new(big.Float).SetFloat64(ff).Text('p', 0)
				if m.Sign() == 0 {
					// the sign of zero is not part of the model's numeral (mantissa 0)
					goVal = new(big.Float).SetFloat64(math.Abs(f)).Text('p', 0)
					modelVal = new(big.Float).SetFloat64(0).Text('p', 0)
				}
			}
		}
		if goVal != modelVal {
			r.violate(Violation{Kind: "correspondence", Key: "C17:num:round64", What: "Lean Num.round64 differs from strconv.ParseFloat(·, 64)",
				Input: in, Impl: goVal, Model: modelVal, Broken: "Num.round64~strconv.ParseFloat"})
		}
		if (parts[2] == "true") == isInf {
			r.violate(Violation{Kind: "correspondence", Key: "C17:num:finite64", What: "Lean Num.finite64 differs from ParseFloat's ErrRange",
				Input: in, Impl: fmt.Sprint(!isInf), Model: parts[2], Broken: "Num.finite64~strconv.ParseFloat"})
		}
		// the Go expression of FilterJson: i := int64(tmp); float64(i) == tmp
		goInt := "none"
		if !isInf {
			if i := int64(f); float64(i) == f {
				goInt = fmt.Sprintf("some %d", i)
			}
		}
		if goInt != parts[1] {
			r.violate(Violation{Kind: "correspondence", Key: "C17:num:goInt", What: "Lean Num.goInt? differs from `i := int64(tmp); float64(i) == tmp` on the parsed float",
				Input: in, Impl: goInt, Model: parts[1], Broken: "Num.goInt?~BuiltinType.FilterJson(int)"})
		}
		// exact64 numerals: the exact-decimal model and the rounded model agree
		if parts[3] == "true" {
			r.hist("numeral-exact64")
			if parts[1] != parts[4] {
				r.violate(Violation{Kind: "correspondence", Key: "C17:num:exact64-agreement",
					What:  "on a numeral that is exactly a float64 the rounded decision differs from the exact-decimal one",
					Input: in, Impl: parts[1], Model: parts[4], Broken: "Num.exact64 (agreement of Martian.Types and Martian.TypesR)"})
			}
			if !isInf && c17ExactDecimalEq(text, f) == false {
				r.violate(Violation{Kind: "correspondence", Key: "C17:num:exact64", What: "Lean Num.exact64 says the numeral is a float64 but ParseFloat rounds it",
					Input: in, Broken: "Num.exact64"})
			}
		} else {
			r.hist("numeral-rounded")
			if !isInf && c17ExactDecimalEq(text, f) {
				r.violate(Violation{Kind: "correspondence", Key: "C17:num:exact64", What: "Lean Num.exact64 says the numeral is rounded but it is exactly the float64 ParseFloat returns",
					Input: in, Broken: "Num.exact64"})
			}
		}
	}
	c17RunCases(c, cases)
}

// c17ExactDecimalEq: the decimal numeral denotes exactly the float64 f.
func c17ExactDecimalEq(text string, f float64) bool {
	v, err := c17ParseNumber(text)
	if err != nil {
		return false
	}
	exp := int64(0)
	if v.kind == 'd' {
		exp = v.exp
	}
	if exp > 5000 || exp < -5000 {
		return v.ival.Sign() == 0 && f == 0
	}
	q := new(big.Rat).SetInt(v.ival)
	p := new(big.Int).Exp(big.NewInt(10), big.NewInt(int64(math.Abs(float64(exp)))), nil)
	if exp >= 0 {
		q.Mul(q, new(big.Rat).SetInt(p))
	} else {
		q.Quo(q, new(big.Rat).SetInt(p))
	}
	fr := new(big.Rat)
	if fr.SetFloat64(f) == nil {
		return false
	}
	return q.Cmp(fr) == 0
}
