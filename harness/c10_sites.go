package main

// C10, extension round: the loops that walk a Go map and accumulate one contribution per entry
// (invertSplit, wrapDisabled, MergeExp.BindingPath, CallGraphStage/CallGraphPipeline.unsplit,
// Node.resolveInputs, TopNode.resolveMap, convertToExp).
//   * provocations: inputs with many entries of which several fail with DIFFERENT texts, run
//     repeatedly by c10RunProvocations (byte-identical text required);
//   * differential: the real function on a generated map vs the Lean model `accumulate` /
//     `firstFailure` fed the per-entry contributions (each computed by the real code on a map
//     with that single entry) in Go's own iteration order, its reverse and a shuffle.

import (
	"encoding/json"
	"fmt"
	"path/filepath"
	"sort"
	"strings"

	"github.com/martian-lang/martian/martian/core"
	"github.com/martian-lang/martian/martian/syntax"
)

func c10ResolveSrc(n int, params, mapEntries bool) string {
	var outs, ins, binds, mbinds []string
	for i := 0; i < n; i++ {
		outs = append(outs, fmt.Sprintf("    out int o%02d,", i))
		if params {
			ins = append(ins, fmt.Sprintf("    in  int p%02d,", (i*3)%n))
			binds = append(binds, fmt.Sprintf("        p%02d = A.o%02d,", i, i))
		}
		mbinds = append(mbinds, fmt.Sprintf("            \"k%02d\": A.o%02d,", (i*7)%n, i))
	}
	m := "        m = {},\n"
	if mapEntries {
		m = "        m = {\n" + strings.Join(mbinds, "\n") + "\n        },\n"
	}
	if len(ins) > 0 {
		ins = append(ins, "")
		binds = append(binds, "")
	}
	return "stage A(\n    in  int x,\n" + strings.Join(outs, "\n") + "\n    src comp \"bin/a\",\n)\n\n" +
		"stage B(\n" + strings.Join(ins, "\n") + "    in  map<int> m,\n    out int r,\n    src comp \"bin/b\",\n)\n\n" +
		"pipeline P(\n    in  int x,\n    out int r,\n)\n{\n    call A(\n        x = self.x,\n    )\n\n    call B(\n" + strings.Join(binds, "\n") +
		m + "    )\n\n    return (\n        r = B.r,\n    )\n}\n\ncall P(\n    x = 1,\n)\n"
}

// c10SiteProvocations adds the provocations of the extension round to out.
func c10SiteProvocations(c *Ctx, out map[string]func() string) {
	if ps, err := syntax.VerifC10SiteProvocations(); err != nil {
		c.Res.note("syntax site provocations unavailable: %v", err)
	} else {
		for k, f := range ps {
			out[k+"(failing entries)"] = f
		}
	}
	n := 11
	// core: the argument resolver of a node whose producer wrote an ill-typed / a truncated _outs file
	illTyped := map[string]interface{}{}
	for i := 0; i < n; i++ {
		illTyped[fmt.Sprintf("o%02d", i)] = fmt.Sprintf("str%d", i)
	}
	illTypedJSON, _ := json.Marshal(illTyped)
	resolve := func(name string, params, mapEntries bool, outs []byte) {
		dir := filepath.Join(c.Scratch, "c10resolve", fmt.Sprint(len(out)))
		src := c10ResolveSrc(n, params, mapEntries)
		out[name] = func() string {
			w, err := core.VerifNewWorld(src, "ps", dir)
			if err != nil {
				return "WORLD-ERR " + err.Error()
			}
			if err := w.VerifC10WriteOuts("ID.ps.P.A", outs); err != nil {
				return "WRITE-ERR " + err.Error()
			}
			mapped, res, e := w.VerifC10ResolveInputs("ID.ps.P.B", false)
			return strings.ReplaceAll(fmt.Sprint(mapped, " / ", res, " / ", e), dir, "$D")
		}
	}
	resolve("Node.resolveInputs(ill-typed outs)", true, false, illTypedJSON)
	resolve("Node.resolveInputs(truncated outs)", true, false, []byte("{\"o00\": "))
	resolve("TopNode.resolveMap(ill-typed outs)", false, true, illTypedJSON)
	resolve("TopNode.resolveMap(truncated outs)", false, true, []byte("{\"o00\": "))
	// core: convertToExp on argument maps with several malformed entries
	if _, _, ast, err := syntax.ParseSourceBytes([]byte(c10ResolveSrc(2, true, true)), filepath.Join(c.Scratch, "c10conv.mro"), nil, false); err != nil {
		c.Res.note("convertToExp provocation program does not compile: %v", err)
	} else {
		lookup := &ast.TypeTable
		tid := syntax.TypeId{Tname: syntax.KindInt, MapDim: 1}
		show := func(e syntax.ValExp, err error) string {
			s := "<nil>"
			if e != nil {
				s = e.GoString()
			}
			return fmt.Sprint(s, " / ", err)
		}
		out["convertToExp(LazyArgumentMap)"] = func() string {
			m := core.LazyArgumentMap{}
			for i := 0; i < n; i++ {
				m[fmt.Sprintf("k%02d", (i*7)%n)] = json.RawMessage(fmt.Sprintf("{bad%d", i))
			}
			return show(core.VerifConvertToExp(false, m, tid, lookup))
		}
		out["convertToExp(MarshalerMap)"] = func() string {
			m := core.MarshalerMap{}
			for i := 0; i < n; i++ {
				m[fmt.Sprintf("k%02d", (i*7)%n)] = json.RawMessage(fmt.Sprintf("[oops%d", i))
			}
			return show(core.VerifConvertToExp(false, m, tid, lookup))
		}
	}
}

func c10ParseKV(s string) map[string]string {
	r := map[string]string{}
	if s == "." {
		return r
	}
	for _, p := range strings.Split(s, ";") {
		if i := strings.Index(p, "="); i >= 0 {
			r[unhx(p[:i])] = unhx(p[i+1:])
		}
	}
	return r
}

func c10ParseHexList(s string) []string {
	if s == "." {
		return nil
	}
	var r []string
	for _, p := range strings.Split(s, ",") {
		r = append(r, unhx(p))
	}
	return r
}

func c10SameMap(a, b map[string]string) bool {
	if len(a) != len(b) {
		return false
	}
	for k, v := range a {
		if w, ok := b[k]; !ok || w != v {
			return false
		}
	}
	return true
}

// c10Orders returns idx in the order given, reversed, and shuffled.
func c10Orders(c *Ctx, n int) [][]int {
	id := make([]int, n)
	rev := make([]int, n)
	for i := range id {
		id[i] = i
		rev[i] = n - 1 - i
	}
	sh := append([]int(nil), id...)
	c.Rng.Shuffle(n, func(i, j int) { sh[i], sh[j] = sh[j], sh[i] })
	return [][]int{id, rev, sh}
}

var c10AccumSites = []string{"invertSplit", "wrapDisabled", "MergeExp.BindingPath", "CallGraphStage.unsplit", "CallGraphPipeline.unsplit"}

// c10SiteDifferential: real accumulating functions vs the Lean model.
func c10SiteDifferential(c *Ctx, perSite int) {
	r := c.Res
	type kase struct {
		site  string
		keys  []string
		shape []int
		arg   int
		whole syntax.VerifC10Accumulated
		ents  []syntax.VerifC10Entry
	}
	var cases []kase
	var reqs [][]string
	for _, site := range c10AccumSites {
		for i := 0; i < perSite; i++ {
			nk := c.Rng.Intn(13)
			if i < 3 {
				nk = i // 0, 1, 2 entries always
			}
			seen := map[string]bool{}
			var keys []string
			for _, k := range c10Keys(c.Rng, nk) {
				if c.Rng.Intn(4) == 0 { // keys a sorter might confuse: case, blanks, prefixes, non-ASCII
					adv := []string{"a", "A", "a ", " a", "a_", "ab", "aB", "\u00e9", "\u00c9", "k1", "k10", "k2", "K1", "~", "0"}
					k = adv[c.Rng.Intn(len(adv))]
				}
				if seen[k] {
					continue
				}
				seen[k] = true
				keys = append(keys, k)
			}
			sort.Strings(keys)
			shape := make([]int, len(keys))
			for j := range shape {
				shape[j] = c.Rng.Intn(6)
			}
			arg := c.Rng.Intn(6)
			ents, whole, err := syntax.VerifC10Differential(site, keys, shape, arg)
			if err != nil {
				r.note("differential %s: real code failed on keys=%q shape=%v arg=%d: %v", site, keys, shape, arg, err)
				continue
			}
			k := kase{site: site, keys: keys, shape: shape, arg: arg, whole: whole, ents: ents}
			for _, ord := range c10Orders(c, len(ents)) {
				var fs []string
				for _, j := range ord {
					e := ents[j]
					fs = append(fs, strings.Join([]string{hx(e.Key), b01(e.Done), b01(e.Changed), b01(e.Err != ""), hx(e.Err), hx(e.Val)}, ":"))
				}
				req := "."
				if len(fs) > 0 {
					req = strings.Join(fs, ",")
				}
				reqs = append(reqs, []string{"C10.accum", req})
			}
			cases = append(cases, k)
		}
	}
	reps := c.Drv.AskBatch(reqs)
	for i, k := range cases {
		nfail := 0
		for _, e := range k.ents {
			if e.Err != "" {
				nfail++
			}
		}
		r.count(fmt.Sprintf("accum\x00%s\x00%q\x00%v\x00%d", k.site, k.keys, k.shape, k.arg), nfail >= 2)
		r.hist("accumulating-site-differential:" + k.site)
		input := map[string]interface{}{"site": k.site, "keys": k.keys, "shape": k.shape, "arg": k.arg}
		first := ""
		for j := 0; j < 3; j++ {
			r.Evals++
			rep := reps[3*i+j]
			f := strings.Fields(rep)
			if len(f) != 8 || f[5] != "true" {
				r.violate(Violation{Kind: "correspondence", Key: "C10:model-mismatch:accum:" + k.site,
					What: "ill-formed reply of the Lean model `accumulate` (or duplicate keys)", Input: input, Model: rep,
					Broken: "correspondence C10.accum (Martian.Determinism.accumulate)"})
				break
			}
			sorted := strings.Join(f[:6], " ")
			if j == 0 {
				first = sorted
			} else if sorted != first {
				r.violate(Violation{Kind: "correspondence", Key: "C10:model-mismatch:accum-order:" + k.site,
					What:  "the Lean model `accumulate` gives different results for two orders of the same entries",
					Input: input, Model: rep, Expect: first, Broken: "accumulate_order_independent"})
				break
			}
			got := strings.Join(c10ParseHexList(f[2]), "\n")
			want := strings.Join(k.whole.Errs, "\n")
			if f[0] != fmt.Sprint(k.whole.Done) || f[1] != fmt.Sprint(k.whole.Changed) || got != want ||
				!c10SameMap(c10ParseKV(f[3]), k.whole.Vals) {
				what := "flags / result map"
				if got != want {
					what = "error list (order or content)"
				}
				r.violate(Violation{Kind: "correspondence", Key: "C10:model-mismatch:accum:" + k.site,
					What: fmt.Sprintf("%s on a generated map: the %s differs from the Lean model `accumulate` fed the per-entry contributions "+
						"(order %d of: Go's iteration order, reverse, shuffle)", k.site, what, j),
					Input: input, Impl: map[string]interface{}{"done": k.whole.Done, "changed": k.whole.Changed, "errs": k.whole.Errs, "vals": k.whole.Vals},
					Model:  map[string]interface{}{"done": f[0], "changed": f[1], "errs": c10ParseHexList(f[2]), "vals": c10ParseKV(f[3])},
					Broken: "correspondence C10.accum (Martian.Determinism.accumulate; theorem " + c10SiteTheorem[k.site] + ")"})
				break
			}
			// the loop in the order GIVEN: same flags and map (accumulateIn_order_independent_up_to_error_order)
			if !c10SameMap(c10ParseKV(f[7]), k.whole.Vals) {
				r.violate(Violation{Kind: "correspondence", Key: "C10:model-mismatch:accum-unsorted:" + k.site,
					What:  "the result map of the unsorted model loop `accumulateIn` differs from the real function's",
					Input: input, Model: rep, Broken: "accumulateIn_order_independent_up_to_error_order"})
				break
			}
		}
	}
}

var c10SiteTheorem = map[string]string{
	"invertSplit":               "invertSplit_order_independent",
	"wrapDisabled":              "wrapDisabled_order_independent",
	"MergeExp.BindingPath":      "mergeBindingPath_order_independent",
	"CallGraphStage.unsplit":    "unsplit_order_independent",
	"CallGraphPipeline.unsplit": "unsplit_order_independent",
}

// c10ConvertDifferential: convertToExp on generated argument maps vs the Lean model `firstFailure`.
func c10ConvertDifferential(c *Ctx, n int) {
	r := c.Res
	_, _, ast, err := syntax.ParseSourceBytes([]byte(c10ResolveSrc(2, true, true)), filepath.Join(c.Scratch, "c10conv.mro"), nil, false)
	if err != nil {
		r.note("convertToExp differential: program does not compile: %v", err)
		return
	}
	lookup := &ast.TypeTable
	tid := syntax.TypeId{Tname: syntax.KindInt, MapDim: 1}
	type kase struct {
		lazy  bool
		m     map[string]json.RawMessage
		vals  map[string]string
		err   string
		order []string
	}
	var cases []kase
	var reqs [][]string
	conv := func(lazy bool, m map[string]json.RawMessage) (vals map[string]string, order []string, errText string) {
		var arg json.Marshaler
		if lazy {
			a := core.LazyArgumentMap{}
			for k, v := range m {
				a[k] = v
			}
			for k := range a {
				order = append(order, k)
			}
			arg = a
		} else {
			a := core.MarshalerMap{}
			for k, v := range m {
				a[k] = v
			}
			for k := range a {
				order = append(order, k)
			}
			arg = a
		}
		e, err := core.VerifConvertToExp(false, arg, tid, lookup)
		vals = map[string]string{}
		if me, ok := e.(*syntax.MapExp); ok && me != nil {
			for k, v := range me.Value {
				vals[k] = v.GoString()
			}
		}
		if err != nil {
			errText = err.Error()
		}
		return
	}
	for i := 0; i < n; i++ {
		nk := c.Rng.Intn(12)
		m := map[string]json.RawMessage{}
		for _, k := range c10Keys(c.Rng, nk) {
			switch c.Rng.Intn(5) {
			case 0:
				m[k] = json.RawMessage(fmt.Sprintf("{bad%d", c.Rng.Intn(1000)))
			case 1:
				m[k] = json.RawMessage(fmt.Sprintf("[%d,", c.Rng.Intn(1000)))
			case 2:
				m[k] = json.RawMessage(fmt.Sprintf("%q", k))
			default:
				m[k] = json.RawMessage(fmt.Sprint(c.Rng.Intn(1000)))
			}
		}
		k := kase{lazy: c.Rng.Intn(2) == 0, m: m}
		k.vals, k.order, k.err = conv(k.lazy, m)
		// per-entry contributions: the real function on a map with that single entry
		field := map[string]string{}
		for key, v := range m {
			vals, _, e := conv(k.lazy, map[string]json.RawMessage{key: v})
			if e != "" {
				field[key] = hx(key) + ":0:" + hx(e)
			} else {
				field[key] = hx(key) + ":1:" + hx(vals[key])
			}
		}
		for _, ord := range c10Orders(c, len(k.order)) {
			var fs []string
			for _, j := range ord {
				fs = append(fs, field[k.order[j]])
			}
			req := "."
			if len(fs) > 0 {
				req = strings.Join(fs, ",")
			}
			reqs = append(reqs, []string{"C10.firstfail", req})
		}
		cases = append(cases, k)
	}
	reps := c.Drv.AskBatch(reqs)
	for i, k := range cases {
		b, _ := json.Marshal(k.m)
		r.count("convert\x00"+string(b), k.err != "")
		r.hist("convertToExp-differential")
		for j := 0; j < 3; j++ {
			r.Evals++
			rep := reps[3*i+j]
			f := strings.Fields(rep)
			ok := false
			if len(f) == 3 && f[1] == "none" && f[2] == "true" {
				ok = k.err == "" && c10SameMap(c10ParseKV(f[0]), k.vals)
			} else if len(f) == 4 && f[1] == "some" && f[3] == "true" {
				ok = k.err == unhx(f[2]) && c10SameMap(c10ParseKV(f[0]), k.vals)
			}
			if !ok {
				r.violate(Violation{Kind: "correspondence", Key: "C10:model-mismatch:convertToExp",
					What: fmt.Sprintf("convertToExp on a generated argument map differs from the Lean model `firstFailure` (first failing entry in "+
						"sorted key order, entries converted before it) fed the per-entry results in order %d of: Go's iteration order, reverse, shuffle", j),
					Input: map[string]interface{}{"map": string(b), "lazy": k.lazy}, Impl: map[string]interface{}{"vals": k.vals, "err": k.err}, Model: rep,
					Broken: "correspondence C10.firstfail (Martian.Determinism.firstFailure; theorem convertToExp_order_independent)"})
				break
			}
		}
	}
}
