package main

// C07 compile-time half, part 2: model vs real compiler on generated calls
// (tiny programs), literal delivery monitor, entry point.

import (
	"encoding/json"
	"fmt"
	"math/big"
	"math/rand"
	"regexp"
	"sort"
	"strings"

	"github.com/martian-lang/martian/martian/syntax"
)

func init() {
	c07CompileHook = c07Compile
	register("C07C", func(c *Ctx) { c.Res.Histogram = map[string]int{}; c07Compile(c) })
}

func c07Compile(c *Ctx) {
	r := c.Res
	if r.Histogram == nil {
		r.Histogram = map[string]int{}
	}
	r.Rule += " || compile-time half: (a) generated calls (1-3 typed parameters, bindings built type-directed with near-misses and references into pipeline inputs / a producer call made singly, array-mapped or map-mapped): accept/reject of the real compiler vs the model's checkCall, error location, and for accepted reference-free literals real EncodeJSON+IsValidJson vs the model's eval/valid; (b) every single-point ill-typed mutation (by construction, double-checked by the model) of every single-line binding of accepted programs (GenProgram, repo *.mro, corpus) must be rejected with an error located at the binding or its call; targeted streams (every quick run, counts in the histogram as stream_*): depth = references between all 64 ordered pairs of nestings (T, T[], T[][], map<T>, map<T[]>, map<T[][]>, map<T>[], map<T[]>[]) of the same base type, bound plainly / via a call output / as array element / as map value / via split over arrays and typed maps / via struct members; splits = map calls with 2..4 split arguments in every order over {reference of unknown length, reference into a mapped call, literal of matching / other length, other key set, other kind}; default = the legacy shorthand `x = STAGE` / `x = STAGE.default` for all ordered pairs of 15 parameter / unnamed-default-output types (stage called singly and array-mapped); order = the three calls in all 6 textual orders with the `disabled` modifier (modelled as a bool pseudo-parameter) bound to an output of a producer called singly / array-mapped / map-mapped, as the only dependency or next to an ordinary / split binding; the random stream also permutes the calls, adds disabled modifiers and uses the shorthand; untyped = references at depth 1..3 inside literals for untyped map parameters (map, map[], map[][], struct member, array of structs, map of structs); every call accepted by both is also invoked (top-level call with conforming inputs + MakePipelineCallGraph must succeed), and a call the model rejects but the compiler accepts is invoked too, and a conforming value of the referenced type is pushed through the real FilterJson/IsValidJson of the parameter type (failure = concrete property violation); non-trivial (a) = case has a reference, a composite literal or a split"
	c07Corpus(c)
	c07Witnesses(c)
	n := 2000
	if c.Thorough {
		n = 40000
	}
	c07PairCorrespondence(c, n)
	c07Streams(c)
	np := 300
	if c.Thorough {
		np = 8000
	}
	c07PathStream(c, np)
	c07FieldTypeTie(c, np/2)
	c07StrictStream(c, np*2)
	c07Pipelines(c)
	c07MutationOracle(c)
}

// ---- environment of a tiny program ----

type c07Env struct {
	selfs    []c17Field // pipeline inputs
	prodOuts []c17Field // outputs of stage PROD
	prodMode byte       // 0: no producer, 's', 'a', 'm'
	cands    []c07Cand  // references with their model type
}

type c07Cand struct {
	e *c07Exp
	t *c17Ty // nil: does not resolve
}

func (env *c07Env) enc() string {
	var sb strings.Builder
	fmt.Fprintf(&sb, "%d", len(env.selfs))
	for _, s := range env.selfs {
		sb.WriteString(" " + hx(s.id) + " " + s.t.enc())
	}
	if env.prodMode == 0 {
		sb.WriteString(" 0")
		return sb.String()
	}
	src := "-"
	switch env.prodMode {
	case 'a':
		src = "A 2"
	case 'm':
		src = "K " + hxList([]string{"ka", "kb"})
	}
	fmt.Fprintf(&sb, " 1 %s %s %c %s %d", hx("PROD"), hx("PROD"), env.prodMode, src, len(env.prodOuts))
	for _, o := range env.prodOuts {
		sb.WriteString(" " + hx(o.id) + " " + o.t.enc())
	}
	return sb.String()
}

// syntactic reference candidates: every path through struct members (looking
// through array / map wrappers), depth <= 3
func c07Paths(t *c17Ty, depth int) [][]string {
	out := [][]string{{}}
	for t.kind == 'a' || t.kind == 'm' {
		t = t.elem
	}
	if t.kind != 's' || depth >= 3 {
		return out
	}
	for _, f := range t.fields {
		for _, p := range c07Paths(f.t, depth+1) {
			out = append(out, append([]string{f.id}, p...))
		}
	}
	return out
}

func c07NewEnv(c *Ctx) *c07Env {
	rng := c.Rng
	env := &c07Env{}
	ns := rng.Intn(3)
	for i := 0; i < ns; i++ {
		env.selfs = append(env.selfs, c17Field{fmt.Sprintf("s%d", i), c07RandType(rng)})
	}
	if rng.Intn(4) != 0 {
		env.prodMode = "ssam"[rng.Intn(4)]
		no := 1 + rng.Intn(3)
		for i := 0; i < no; i++ {
			env.prodOuts = append(env.prodOuts, c17Field{fmt.Sprintf("o%d", i), c07RandType(rng)})
		}
		if rng.Intn(3) == 0 {
			env.prodOuts = append(env.prodOuts, c17Field{"default", c07RandType(rng)})
		}
	}
	var es []*c07Exp
	for _, s := range env.selfs {
		for _, p := range c07Paths(s.t, 0) {
			es = append(es, c07Ref('r', s.id, p...))
		}
	}
	if env.prodMode != 0 {
		es = append(es, c07Ref('c', "PROD"))
		for _, o := range env.prodOuts {
			for _, p := range c07Paths(o.t, 0) {
				if o.id == "default" && len(p) > 0 {
					continue // `ID.default.x` is not expressible in the grammar
				}
				es = append(es, c07Ref('c', "PROD", append([]string{o.id}, p...)...))
			}
		}
	}
	if len(es) > 0 {
		reqs := make([][]string, len(es))
		ee := env.enc()
		for i, e := range es {
			reqs[i] = []string{"C07.exp", ee, "int", e.enc()}
		}
		for i, rep := range c.Drv.AskBatch(reqs) {
			f := strings.SplitN(rep, " ", 3)
			cd := c07Cand{e: es[i]}
			if len(f) == 3 && f[2] != "-" {
				cd.t, _ = c07ParseTyEnc(strings.Split(f[2], " "))
			}
			env.cands = append(env.cands, cd)
		}
	}
	return env
}

// generator-side approximation of assignability (the compiler and the model decide)
func c07Compat(dst, src *c17Ty) bool {
	if dst.kind != src.kind {
		if dst.kind == 'b' && dst.name == "map" && (src.kind == 's') {
			return true
		}
		if dst.kind == 'b' && src.kind == 'u' {
			return dst.name == "file" || dst.name == "string"
		}
		if dst.kind == 'u' && src.kind == 'b' {
			return src.name == "file" || src.name == "string"
		}
		return false
	}
	switch dst.kind {
	case 'a', 'm':
		return c07Compat(dst.elem, src.elem)
	case 'b':
		return dst.name == src.name || dst.name == "float" && src.name == "int" ||
			(dst.name == "file" || dst.name == "path") && src.name == "string"
	case 'u':
		return dst.name == src.name
	case 's':
		for _, f := range dst.fields {
			ok := false
			for _, g := range src.fields {
				if g.id == f.id && c07Compat(f.t, g.t) {
					ok = true
				}
			}
			if !ok {
				return false
			}
		}
		return true
	}
	return false
}

// ---- expression generator: type-directed, with near-misses ----

type c07Gen struct {
	rng         *rand.Rand
	env         *c07Env
	miss        int  // 1/miss of the nodes are near-misses (0: none)
	nestedRef   bool // a reference was put inside an untyped map literal
	shorthand   bool // `x = STAGE` with a stage that has an unnamed default output
	sameBaseRef bool // a reference of the same base type but different nesting was chosen
	noBogus     bool // never produce references to things that do not exist (pipeline stream, clean mode)
}

var c07Keys = []string{"a", "b", "k1", "x y", "a/b", "..", "z"}

func (g *c07Gen) near() bool { return g.miss > 0 && g.rng.Intn(g.miss) == 0 }

func (g *c07Gen) ref(t *c17Ty) *c07Exp {
	if len(g.env.cands) == 0 {
		return nil
	}
	// the legacy shorthand `x = STAGE` for `x = STAGE.default`
	for _, o := range g.env.prodOuts {
		if o.id == "default" && g.rng.Intn(4) == 0 {
			g.shorthand = true
			return c07Ref('c', "PROD")
		}
	}
	var good []c07Cand
	for _, cd := range g.env.cands {
		if cd.t != nil && c07Compat(t, cd.t) {
			good = append(good, cd)
		}
	}
	if len(good) > 0 && !g.near() {
		return good[g.rng.Intn(len(good))].e
	}
	// near-miss of choice: same base type, different array / map nesting
	if g.miss > 0 && g.rng.Intn(2) == 0 {
		var sameBase []c07Cand
		for _, cd := range g.env.cands {
			if cd.t != nil && c07BaseName(cd.t) == c07BaseName(t) && cd.t.enc() != t.enc() {
				sameBase = append(sameBase, cd)
			}
		}
		if len(sameBase) > 0 {
			g.sameBaseRef = true
			return sameBase[g.rng.Intn(len(sameBase))].e
		}
	}
	if !g.noBogus && g.rng.Intn(3) == 0 {
		// non-existent call / output / field / input
		switch g.rng.Intn(4) {
		case 0:
			return c07Ref('c', "NOCALL", "o0")
		case 1:
			return c07Ref('r', "nosuch")
		case 2:
			return c07Ref('c', "PROD", "nosuch")
		default:
			cd := g.env.cands[g.rng.Intn(len(g.env.cands))]
			if len(cd.e.path) > 0 && cd.e.path[0] == "default" {
				return c07Ref('r', "nosuch")
			}
			e := *cd.e
			e.path = append(append([]string{}, e.path...), "nosuch")
			return &e
		}
	}
	if g.miss == 0 {
		return nil
	}
	return g.env.cands[g.rng.Intn(len(g.env.cands))].e
}

func c07BaseName(t *c17Ty) string {
	for t.kind == 'a' || t.kind == 'm' {
		t = t.elem
	}
	return t.name
}

// a value inside an untyped map literal: anything goes, except that no
// reference may occur at any depth
func (g *c07Gen) untyped(depth int) *c07Exp {
	switch g.rng.Intn(7) {
	case 0:
		if depth < 3 {
			e := c07Arr()
			for i, n := 0, g.rng.Intn(3); i < n; i++ {
				e.elems = append(e.elems, g.untyped(depth+1))
			}
			return e
		}
	case 1:
		if depth < 3 {
			e := &c07Exp{kind: 'm'}
			if g.rng.Intn(3) == 0 {
				e.kind = 'S'
			}
			for i, n := 0, 1+g.rng.Intn(2); i < n; i++ {
				e.keys = append(e.keys, fmt.Sprintf("j%d", i))
				e.elems = append(e.elems, g.untyped(depth+1))
			}
			return e
		}
	case 2:
		if g.miss > 0 && g.rng.Intn(3) == 0 && len(g.env.cands) > 0 {
			g.nestedRef = true
			return g.env.cands[g.rng.Intn(len(g.env.cands))].e
		}
	}
	return g.scalarOfKind(g.rng.Intn(5))
}

func (g *c07Gen) scalarOfKind(k int) *c07Exp {
	switch k {
	case 0:
		return c07Int(int64(g.rng.Intn(30) - 5))
	case 1:
		return c07Flo(c07Floats[g.rng.Intn(len(c07Floats))])
	case 2:
		return c07Str([]string{"x", "hello", "", "a b", "a/b"}[g.rng.Intn(5)])
	case 3:
		return c07Bool(g.rng.Intn(2) == 0)
	}
	return c07Null()
}

func (g *c07Gen) exp(t *c17Ty, depth int) *c07Exp {
	if g.rng.Intn(10) < 3 || depth > 3 {
		if e := g.ref(t); e != nil {
			return e
		}
	}
	if g.rng.Intn(14) == 0 {
		return c07Null()
	}
	if g.near() {
		// a literal of some other shape
		switch g.rng.Intn(6) {
		case 0:
			return g.scalarOfKind(g.rng.Intn(4))
		case 1:
			return c07Arr(g.exp(t, depth+1)) // one level too deep
		case 2:
			if t.kind == 'a' || t.kind == 'm' {
				return g.exp(t.elem, depth+1) // one level too shallow
			}
		case 3:
			return &c07Exp{kind: 'm', keys: []string{"a"}, elems: []*c07Exp{g.exp(t, depth+1)}}
		case 4:
			return g.exp(c07RandType(g.rng), depth+1)
		}
	}
	switch t.kind {
	case 'a':
		n := []int{0, 1, 2, 2, 3}[g.rng.Intn(5)]
		e := c07Arr()
		for i := 0; i < n; i++ {
			e.elems = append(e.elems, g.exp(t.elem, depth+1))
		}
		return e
	case 'm':
		n := []int{0, 1, 2, 2}[g.rng.Intn(4)]
		e := &c07Exp{kind: 'm'}
		perm := g.rng.Perm(len(c07Keys))
		for i := 0; i < n; i++ {
			k := c07Keys[perm[i]]
			if (k == "a/b" || k == "..") && !g.near() && g.rng.Intn(3) != 0 {
				k = "q" + fmt.Sprint(i)
			}
			e.keys = append(e.keys, k)
			e.elems = append(e.elems, g.exp(t.elem, depth+1))
		}
		if n > 0 && g.near() {
			e.kind = 'S' // struct syntax for a typed map
			for i := range e.keys {
				e.keys[i] = fmt.Sprintf("f%d", i)
			}
		}
		return e
	case 's':
		e := &c07Exp{kind: 'S'}
		if g.rng.Intn(5) == 0 {
			e.kind = 'm' // map syntax is accepted for structs too
		}
		for _, f := range t.fields {
			if g.near() {
				continue // missing field
			}
			e.keys = append(e.keys, f.id)
			e.elems = append(e.elems, g.exp(f.t, depth+1))
		}
		if g.near() {
			e.keys = append(e.keys, "extra")
			e.elems = append(e.elems, c07Int(1))
		}
		return e
	case 'u':
		return c07Str("f." + t.name)
	}
	switch t.name {
	case "int":
		if g.rng.Intn(6) == 0 {
			return c07Flo(c07Floats[g.rng.Intn(len(c07Floats))]) // integral floats are accepted
		}
		return g.scalarOfKind(0)
	case "float":
		return g.scalarOfKind(g.rng.Intn(2))
	case "string", "path", "file":
		return g.scalarOfKind(2)
	case "bool":
		return g.scalarOfKind(3)
	}
	// untyped map
	e := &c07Exp{kind: 'm'}
	n := g.rng.Intn(3)
	for i := 0; i < n; i++ {
		e.keys = append(e.keys, fmt.Sprintf("k%d", i))
		e.elems = append(e.elems, g.untyped(1))
	}
	return e
}

// ---- one case = one call ----

type c07Case struct {
	env    *c07Env
	params []c17Field // a parameter named "disabled" stands for the `disabled` modifier (type bool)
	binds  []c07NamedBind
	mapped bool
	order  []int // textual order of the calls PROD (0), SINK (1), S (2); nil = that order
}

type c07NamedBind struct {
	id string
	b  c07Bind
}

func (cs *c07Case) paramsEnc() string {
	var sb strings.Builder
	fmt.Fprintf(&sb, "%d", len(cs.params))
	for _, p := range cs.params {
		sb.WriteString(" " + hx(p.id) + " " + p.t.enc())
	}
	return sb.String()
}

func (cs *c07Case) bindsEnc() string {
	var sb strings.Builder
	fmt.Fprintf(&sb, "%d", len(cs.binds))
	for _, b := range cs.binds {
		sb.WriteString(" " + hx(b.id) + " " + b.b.enc())
	}
	return sb.String()
}

// program text; returns the line of the call under test and of each binding
func (cs *c07Case) program() (string, int, []int) {
	var sb strings.Builder
	sb.WriteString(c07Decls)
	env := cs.env
	if env.prodMode != 0 {
		sb.WriteString("stage PROD(\n    in  int seed,\n")
		for _, o := range env.prodOuts {
			if o.id == "default" { // the legacy unnamed output
				fmt.Fprintf(&sb, "    out %s,\n", o.t.mro())
			} else {
				fmt.Fprintf(&sb, "    out %s %s,\n", o.t.mro(), o.id)
			}
		}
		sb.WriteString("    src comp \"fake\",\n)\n\n")
	}
	if len(env.selfs) > 0 {
		sb.WriteString("stage SINK(\n")
		for _, s := range env.selfs {
			fmt.Fprintf(&sb, "    in  %s %s,\n", s.t.mro(), s.id)
		}
		sb.WriteString("    out int r,\n    src comp \"fake\",\n)\n\n")
	}
	sb.WriteString("stage S(\n")
	for _, p := range cs.params {
		if p.id == "disabled" { // the `disabled` modifier: a bool pseudo-parameter of every call
			continue
		}
		fmt.Fprintf(&sb, "    in  %s %s,\n", p.t.mro(), p.id)
	}
	sb.WriteString("    out int r,\n    src comp \"fake\",\n)\n\n")
	sb.WriteString("pipeline P(\n")
	for _, s := range env.selfs {
		fmt.Fprintf(&sb, "    in  %s %s,\n", s.t.mro(), s.id)
	}
	sb.WriteString("    out int r,\n)\n{\n")
	// the three calls, in the order asked for (the compiler sorts them topologically)
	prodBlock := ""
	switch env.prodMode {
	case 's':
		prodBlock = "    call PROD(\n        seed = 1,\n    )\n"
	case 'a':
		prodBlock = "    map call PROD(\n        seed = split [1, 2],\n    )\n"
	case 'm':
		prodBlock = "    map call PROD(\n        seed = split {\"ka\": 1, \"kb\": 2},\n    )\n"
	}
	sinkBlock := ""
	if len(env.selfs) > 0 {
		var b strings.Builder
		b.WriteString("    call SINK(\n")
		for _, s := range env.selfs {
			fmt.Fprintf(&b, "        %s = self.%s,\n", s.id, s.id)
		}
		b.WriteString("    )\n")
		sinkBlock = b.String()
	}
	line := func() int { return strings.Count(sb.String(), "\n") + 1 }
	callLine := 0
	lines := make([]int, len(cs.binds))
	emitS := func() {
		callLine = line()
		mapped := false
		for _, b := range cs.binds {
			if b.b.split && b.id != "disabled" {
				mapped = true
			}
		}
		if mapped || cs.mapped {
			sb.WriteString("    map call S(\n")
		} else {
			sb.WriteString("    call S(\n")
		}
		for i, b := range cs.binds {
			if b.id == "disabled" {
				continue
			}
			lines[i] = line()
			fmt.Fprintf(&sb, "        %s = %s,\n", b.id, b.b.mro())
		}
		sb.WriteString("    )")
		first := true
		for i, b := range cs.binds {
			if b.id != "disabled" {
				continue
			}
			if first {
				sb.WriteString(" using (\n")
				first = false
			}
			lines[i] = line()
			fmt.Fprintf(&sb, "        disabled = %s,\n", b.b.mro())
		}
		if !first {
			sb.WriteString("    )")
		}
		sb.WriteString("\n")
	}
	order := cs.order
	if len(order) != 3 {
		order = []int{0, 1, 2}
	}
	for _, k := range order {
		switch k {
		case 0:
			sb.WriteString(prodBlock)
		case 1:
			sb.WriteString(sinkBlock)
		case 2:
			emitS()
		}
	}
	sb.WriteString("    return (\n        r = null,\n    )\n}\n")
	return sb.String(), callLine, lines
}

func c07GenCase(c *Ctx, env *c07Env) *c07Case {
	rng := c.Rng
	cs := &c07Case{env: env}
	np := 1 + rng.Intn(3)
	g := &c07Gen{rng: rng, env: env, miss: []int{0, 12, 12, 5}[rng.Intn(4)]}
	wantMap := rng.Intn(4) == 0
	splitLen := 1 + rng.Intn(3)
	splitKind := byte('a')
	if rng.Intn(3) == 0 {
		splitKind = 'm'
	}
	for i := 0; i < np; i++ {
		p := c17Field{fmt.Sprintf("x%d", i), c07RandType(rng)}
		cs.params = append(cs.params, p)
		var b c07Bind
		if wantMap && (i == 0 || rng.Intn(2) == 0) {
			b.split = true
			cs.mapped = true
			kind, n := splitKind, splitLen
			if g.near() {
				n++
			}
			if g.near() {
				kind = 'a' + 'm' - kind
			}
			switch {
			case rng.Intn(4) == 0:
				// split over a reference
				lifted := c07A(p.t)
				if kind == 'm' && !p.t.isMapInside() {
					lifted = c07M(p.t)
				}
				if e := g.ref(lifted); e != nil {
					b.e = e
					break
				}
				fallthrough
			case kind == 'a':
				b.e = c07Arr()
				for j := 0; j < n; j++ {
					b.e.elems = append(b.e.elems, g.exp(p.t, 1))
				}
			default:
				b.e = &c07Exp{kind: 'm'}
				for j := 0; j < n; j++ {
					k := []string{"ka", "kb", "kc", "kd"}[j]
					if g.near() {
						k = "other" + k
					}
					b.e.keys = append(b.e.keys, k)
					b.e.elems = append(b.e.elems, g.exp(p.t, 1))
				}
			}
		} else {
			b.e = g.exp(p.t, 0)
		}
		cs.binds = append(cs.binds, c07NamedBind{p.id, b})
	}
	// call-level near-misses
	if g.miss > 0 {
		switch rng.Intn(14) {
		case 0:
			cs.binds = cs.binds[:len(cs.binds)-1] // missing argument
		case 1:
			cs.binds = append(cs.binds, c07NamedBind{"nosuch", c07Bind{e: c07Int(1)}})
		case 2:
			cs.binds[len(cs.binds)-1].id = "nosuch"
		case 3:
			cs.binds = append(cs.binds, cs.binds[0]) // bound twice
		}
	}
	if rng.Intn(2) == 0 {
		cs.order = rng.Perm(3)
		c.Res.hist("gen_calls_out_of_order")
	}
	if rng.Intn(5) == 0 {
		if e := g.ref(c07B("bool")); e != nil {
			cs.params = append(cs.params, c17Field{"disabled", c07B("bool")})
			cs.binds = append(cs.binds, c07NamedBind{"disabled", c07Bind{e: e}})
			c.Res.hist("gen_disabled_modifier")
		}
	}
	cs.mapped = false
	nsplit := 0
	for _, b := range cs.binds {
		if b.b.split {
			cs.mapped = true
			nsplit++
		}
	}
	if g.nestedRef {
		c.Res.hist("gen_ref_nested_in_untyped_map")
	}
	if g.shorthand {
		c.Res.hist("gen_whole_stage_shorthand")
	}
	if g.sameBaseRef {
		c.Res.hist("gen_ref_same_base_other_nesting")
	}
	if nsplit >= 3 {
		c.Res.hist("gen_three_or_more_splits")
	}
	return cs
}

var c07LocRe = regexp.MustCompile(`pipeline\.mro:(\d+)`)

func c07ErrLines(err error) map[int]bool {
	out := map[int]bool{}
	for _, m := range c07LocRe.FindAllStringSubmatch(err.Error(), -1) {
		var n int
		fmt.Sscan(m[1], &n)
		out[n] = true
	}
	return out
}

func c07RealCompile(src string) (ast *syntax.Ast, err error) {
	defer func() {
		if p := recover(); p != nil {
			err = fmt.Errorf("PANIC: %v", p)
		}
	}()
	_, _, ast, err = syntax.ParseSourceBytes([]byte(src), "pipeline.mro", nil, false)
	return ast, err
}

type c07Verdict struct {
	accept  bool
	shape   string
	bindOk  []bool
	implErr error
	ast     *syntax.Ast
	src     string
	call    int
	lines   []int
}

func c07Evaluate(c *Ctx, cs *c07Case) *c07Verdict {
	v := &c07Verdict{}
	ee := cs.env.enc()
	reqs := [][]string{{"C07.call", ee, cs.paramsEnc(), cs.bindsEnc()}}
	for _, b := range cs.binds {
		var pt *c17Ty
		for _, p := range cs.params {
			if p.id == b.id {
				pt = p.t
			}
		}
		if pt == nil {
			reqs = append(reqs, []string{"C07.bind", ee, "int", "P s -"}) // unknown parameter: always reported as bad below
		} else {
			reqs = append(reqs, []string{"C07.bind", ee, pt.enc(), b.b.enc()})
		}
	}
	reps := c.Drv.AskBatch(reqs)
	v.accept = strings.HasPrefix(reps[0], "true")
	v.shape = strings.TrimPrefix(reps[0], "true ")
	for i, b := range cs.binds {
		known := false
		for _, p := range cs.params {
			if p.id == b.id {
				known = true
			}
		}
		v.bindOk = append(v.bindOk, known && strings.HasPrefix(reps[i+1], "true"))
	}
	if reps[0] == "bad-op" {
		c.Res.note("driver bad-op on %v", reqs[0])
	}
	v.src, v.call, v.lines = cs.program()
	v.ast, v.implErr = c07RealCompile(v.src)
	return v
}

func (cs *c07Case) describe(v *c07Verdict) map[string]interface{} {
	m := map[string]interface{}{"program": v.src, "model_accepts": v.accept, "model_binding_ok": v.bindOk}
	if v.implErr != nil {
		m["compiler_error"] = v.implErr.Error()
	}
	return m
}

// remove parameters / bindings while the model and the compiler still disagree
func c07ShrinkCase(c *Ctx, cs *c07Case) *c07Case {
	cur := cs
	for changed := true; changed; {
		changed = false
		for i := range cur.binds {
			if len(cur.binds) <= 1 {
				break
			}
			cand := &c07Case{env: cur.env, mapped: false, order: cur.order}
			for j, b := range cur.binds {
				if j != i {
					cand.binds = append(cand.binds, b)
					if b.b.split {
						cand.mapped = true
					}
				}
			}
			for _, p := range cur.params {
				if p.id != cur.binds[i].id {
					cand.params = append(cand.params, p)
				}
			}
			if len(cand.params) == 0 {
				continue
			}
			v := c07Evaluate(c, cand)
			if v.accept != (v.implErr == nil) {
				cur = cand
				changed = true
				break
			}
		}
	}
	return cur
}

// c07JudgeCase compares the model and the real compiler on one call; class
// names the targeted stream ("" = the random stream).  Returns the verdict and
// whether the call was accepted by both.
func c07JudgeCase(c *Ctx, cs *c07Case, class string) (*c07Verdict, bool) {
	r := c.Res
	v := c07Evaluate(c, cs)
	implAccept := v.implErr == nil
	nontriv := cs.mapped
	for _, b := range cs.binds {
		if b.b.e.hasRef() || len(b.b.e.elems) > 0 {
			nontriv = true
		}
	}
	suffix := ""
	if class != "" {
		suffix = ":" + class
		r.hist("stream_" + class)
		r.hist(fmt.Sprintf("stream_%s_model=%v", class, v.accept))
	}
	r.count(v.src, nontriv)
	r.hist(fmt.Sprintf("call_model=%v_impl=%v", v.accept, implAccept))
	if cs.mapped {
		r.hist("call_mapped")
	}
	if v.implErr != nil && strings.HasPrefix(v.implErr.Error(), "PANIC") {
		r.violate(Violation{Kind: "property", Key: "C07:compiler-panic" + suffix, What: "the compiler panics on a generated call: " + firstLine(v.implErr.Error()), Input: cs.describe(v)})
		return v, false
	}
	if v.accept != implAccept {
		small := c07ShrinkCase(c, cs)
		sv := c07Evaluate(c, small)
		r.violate(Violation{Kind: "correspondence", Key: fmt.Sprintf("C07:corr:call:model=%v,impl=%v%s", sv.accept, sv.implErr == nil, suffix),
			What:  "the model's checkCall and the real compiler disagree on accepting a call",
			Input: small.describe(sv), Model: sv.accept, Impl: sv.implErr == nil, Broken: "correspondence validCall ~ BindStms.compile/IsValidExpression"})
		if sv.implErr == nil && !sv.accept {
			// the model calls it ill-typed and the compiler accepts it: does invoking it fail?
			failed := false
			if top, ok := small.topCall(""); ok {
				if err := c07CallGraph(sv.src + top); err != nil {
					failed = true
					r.violate(Violation{Kind: "property", Key: "C07:ill-typed-accepted:callgraph-fails" + suffix,
						What:  "the compiler accepts a call the typing model rejects, and invoking the pipeline then fails: " + firstLine(err.Error()),
						Input: map[string]interface{}{"program": sv.src + top, "error": err.Error(), "model_binding_ok": sv.bindOk}})
				}
			}
			if !failed {
				c07DeliveredValue(c, small, sv, suffix)
				c07DeliveredLiteral(c, small, sv, suffix)
			}
		}
		return v, false
	}
	if !implAccept {
		// location: the error must name the line of a binding the model rejects, or the call
		expect := map[int]bool{v.call: true}
		allOk := true
		for j, ok := range v.bindOk {
			if !ok {
				expect[v.lines[j]] = true
				allOk = false
			}
		}
		if allOk { // call-level problem (missing / duplicate / inconsistent split): anywhere in the call
			for _, l := range v.lines {
				expect[l] = true
			}
			expect[v.call+len(v.lines)+1] = true
		}
		got := c07ErrLines(v.implErr)
		hit := false
		for l := range got {
			if expect[l] {
				hit = true
			}
		}
		if !hit {
			r.violate(Violation{Kind: "property", Key: "C07:location:generated-call" + suffix,
				What:  "the compile error of a rejected call does not name the line of an offending binding or of the call",
				Input: cs.describe(v), Expect: fmt.Sprint(c07SortedLines(expect)), Impl: fmt.Sprint(c07SortedLines(got))})
		}
		return v, false
	}
	// accepted by both: invoking the pipeline (call-graph resolution, what mrp does
	// at start-up) must succeed too
	if top, ok := cs.topCall(v.shape); ok {
		r.hist("callgraph_checked")
		if err := c07CallGraph(v.src + top); err != nil {
			r.violate(Violation{Kind: "property", Key: "C07:accepted-but-callgraph-fails" + suffix,
				What:  "a call the compiler accepts cannot be resolved when the pipeline is invoked: " + firstLine(err.Error()),
				Input: map[string]interface{}{"program": v.src + top, "error": err.Error()}})
			return v, false
		}
	}
	return v, true
}

// c07DeliveredValue: for a plain reference binding the model rejects but the
// compiler accepts, a conforming (non-null) value of the reference's declared
// type is pushed through the real FilterJson / IsValidJson of the parameter type.
func c07DeliveredValue(c *Ctx, cs *c07Case, v *c07Verdict, suffix string) {
	r := c.Res
	ee := cs.env.enc()
	for j, b := range cs.binds {
		if v.bindOk[j] || b.b.split || (b.b.e.kind != 'r' && b.b.e.kind != 'c') {
			continue
		}
		var rb *syntax.BindStm
		for _, p := range v.ast.Pipelines {
			for _, call := range p.Calls {
				if call.Id == "S" {
					if b.id == "disabled" {
						if call.Modifiers != nil && call.Modifiers.Bindings != nil {
							rb = call.Modifiers.Bindings.Table[b.id]
						}
					} else {
						rb = call.Bindings.Table[b.id]
					}
				}
			}
		}
		if rb == nil {
			continue
		}
		e := b.b.e
		if ref, ok := rb.Exp.(*syntax.RefExp); ok && e.kind == 'c' && len(e.path) == 0 && ref.OutputId == "default" {
			e = c07Ref('c', e.id, "default") // the compiler rewrote the shorthand
		}
		rep := strings.SplitN(c.Drv.Ask("C07.exp", ee, "int", e.enc()), " ", 3)
		if len(rep) != 3 || rep[2] == "-" {
			continue
		}
		st, _ := c07ParseTyEnc(strings.Split(rep[2], " "))
		dst := v.ast.TypeTable.Get(rb.Tname)
		if st == nil || dst == nil {
			continue
		}
		val := c07Witness(st).json()
		fm, _, _ := dst.FilterJson([]byte(val), &v.ast.TypeTable)
		var alarms strings.Builder
		verr := dst.IsValidJson(fm, &alarms, &v.ast.TypeTable)
		if verr != nil || alarms.Len() > 0 {
			r.violate(Violation{Kind: "property", Key: "C07:ill-typed-accepted:delivered-value-invalid" + suffix,
				What: "the compiler accepts a binding the typing model rejects; a conforming value of the referenced " + st.mro() +
					" does not validate against the parameter type " + rb.Tname.String() + ": " + firstLine(fmt.Sprint(verr)),
				Input: map[string]interface{}{"program": v.src, "binding": b.id + " = " + b.b.mro(), "producer_value": val,
					"delivered": string(fm), "error": fmt.Sprint(verr, alarms.String())}})
			return
		}
	}
}

// c07DeliveredLiteral: a reference-free literal binding the model rejects but the
// compiler accepts: the JSON the real EncodeJSON writes for it is pushed through
// the real IsValidJson of the parameter type (for a split literal: every element).
func c07DeliveredLiteral(c *Ctx, cs *c07Case, v *c07Verdict, suffix string) {
	r := c.Res
	for j, b := range cs.binds {
		if v.bindOk[j] || b.b.e.hasRef() || b.id == "disabled" {
			continue
		}
		var rb *syntax.BindStm
		for _, p := range v.ast.Pipelines {
			for _, call := range p.Calls {
				if call.Id == "S" {
					rb = call.Bindings.Table[b.id]
				}
			}
		}
		if rb == nil {
			continue
		}
		dst := v.ast.TypeTable.Get(rb.Tname)
		if dst == nil {
			continue
		}
		var values []syntax.Exp
		switch e := rb.Exp.(type) {
		case *syntax.SplitExp:
			switch inner := e.Value.(type) {
			case *syntax.ArrayExp:
				values = append(values, inner.Value...)
			case *syntax.MapExp:
				for _, k := range inner.Value {
					values = append(values, k)
				}
			}
		default:
			values = []syntax.Exp{rb.Exp}
		}
		for _, val := range values {
			js, err := json.Marshal(val)
			if err != nil {
				continue
			}
			var alarms strings.Builder
			verr := dst.IsValidJson(js, &alarms, &v.ast.TypeTable)
			if verr != nil || alarms.Len() > 0 {
				r.violate(Violation{Kind: "property", Key: "C07:ill-typed-accepted:literal-invalid" + suffix,
					What: "the compiler accepts a literal binding the typing model rejects, and the JSON it delivers does not validate against the parameter type " +
						rb.Tname.String() + ": " + firstLine(fmt.Sprint(verr, alarms.String())),
					Input: map[string]interface{}{"program": v.src, "binding": b.id + " = " + b.b.mro(), "delivered_json": string(js),
						"error": fmt.Sprint(verr, alarms.String())}, Broken: "validExp_literal_sound"})
				return
			}
		}
	}
}

// topCall: a top-level invocation of P with type-conforming, non-null inputs.
// Inputs a call is split over get the length / keys of the merged split shape.
// Not produced when some input is split over through a projection (the shape of
// the value cannot be chosen independently then).
func (cs *c07Case) topCall(shape string) (string, bool) {
	splitOver := map[string]bool{}
	for _, b := range cs.binds {
		if b.b.split && b.b.e.kind == 'r' {
			if len(b.b.e.path) > 0 {
				return "", false
			}
			splitOver[b.b.e.id] = true
		}
	}
	var sb strings.Builder
	sb.WriteString("\ncall P(\n")
	for _, s := range cs.env.selfs {
		w := c07Witness(s.t)
		if splitOver[s.id] && (s.t.kind == 'a' || s.t.kind == 'm') {
			f := strings.Fields(shape)
			n, keys := 2, []string{"ka", "kb"}
			if len(f) == 2 && f[0] == "A" && f[1] != "?" {
				fmt.Sscan(f[1], &n)
			}
			if len(f) == 2 && f[0] == "K" && f[1] != "?" {
				keys = nil
				if f[1] != "." {
					for _, k := range strings.Split(f[1], ",") {
						keys = append(keys, unhx(k))
					}
				}
			}
			el := c07Witness(s.t.elem)
			if s.t.kind == 'a' {
				w = c07Arr()
				for i := 0; i < n; i++ {
					w.elems = append(w.elems, el)
				}
			} else {
				w = &c07Exp{kind: 'm'}
				for _, k := range keys {
					w.keys = append(w.keys, k)
					w.elems = append(w.elems, el)
				}
			}
		}
		fmt.Fprintf(&sb, "    %s = %s,\n", s.id, w.mro())
	}
	sb.WriteString(")\n")
	return sb.String(), true
}

func c07CallGraph(src string) (err error) {
	defer func() {
		if p := recover(); p != nil {
			err = fmt.Errorf("PANIC: %v", p)
		}
	}()
	_, _, ast, err := syntax.ParseSourceBytes([]byte(src), "pipeline.mro", nil, false)
	if err != nil {
		return fmt.Errorf("with the top-level call the program no longer compiles: %v", err)
	}
	_, err = ast.MakePipelineCallGraph("ID.ps.", ast.Call)
	return err
}

func c07PairCorrespondence(c *Ctx, n int) {
	r := c.Res
	var env *c07Env
	type litCheck struct {
		cs   *c07Case
		v    *c07Verdict
		i    int
		real *syntax.BindStm
	}
	var lits []litCheck
	type hypReq struct{ env, t, e string }
	var hyps []hypReq
	for i := 0; i < n; i++ {
		if i%6 == 0 {
			env = c07NewEnv(c)
		}
		cs := c07GenCase(c, env)
		v, ok := c07JudgeCase(c, cs, "")
		if !ok {
			continue
		}
		if len(r.Samples) < 6 && i%97 == 0 {
			r.sample(cs.describe(v))
		}
		for _, b := range cs.binds {
			for _, p := range cs.params {
				if p.id == b.id {
					hyps = append(hyps, hypReq{cs.env.enc(), p.t.enc(), b.b.e.enc()})
				}
			}
		}
		// accepted: literal delivery monitor
		for j, b := range cs.binds {
			if b.b.split || b.b.e.hasRef() {
				continue
			}
			var rb *syntax.BindStm
			for _, p := range v.ast.Pipelines {
				for _, call := range p.Calls {
					if call.Id == "S" {
						rb = call.Bindings.Table[b.id]
					}
				}
			}
			if rb != nil {
				lits = append(lits, litCheck{cs, v, j, rb})
			}
		}
	}
	// the decidable hypotheses of the soundness theorems on every binding of every accepted call
	{
		var hreqs [][]string
		for _, h := range hyps {
			hreqs = append(hreqs, []string{"C07.hyp", h.env, h.t, h.e})
		}
		for i, rep := range c.Drv.AskBatch(hreqs) {
			f := strings.Fields(rep)
			if len(f) != 3 {
				r.note("bad reply of C07.hyp: %q", rep)
				continue
			}
			r.hist("hyp_holeFree=" + f[2])
			if f[0] != "true" || f[1] != "true" {
				r.violate(Violation{Kind: "correspondence", Key: "C07:hyp:wf", What: "a generated binding the compiler accepts does not satisfy Ty.wf / Exp.wf (hypotheses of every soundness theorem): " + rep,
					Input: map[string]interface{}{"type": hyps[i].t, "exp": hyps[i].e}, Broken: "hypotheses t.wf, e.wf"})
			}
		}
	}
	// literal monitor, batched
	reqs := make([][]string, len(lits))
	for i, l := range lits {
		var pt *c17Ty
		for _, p := range l.cs.params {
			if p.id == l.cs.binds[l.i].id {
				pt = p.t
			}
		}
		reqs[i] = []string{"C07.lit", pt.enc(), l.cs.binds[l.i].b.e.enc()}
	}
	reps := c.Drv.AskBatch(reqs)
	for i, l := range lits {
		b := l.cs.binds[l.i]
		r.hist("literal_checked")
		f := strings.Split(reps[i], " ")
		if len(f) < 4 {
			r.note("bad lit reply %q for %v", reps[i], reqs[i])
			continue
		}
		mValid, mValidF := f[len(f)-2] == "true", f[len(f)-1] == "true"
		mJson := strings.Join(f[1:len(f)-2], " ")
		js, err := json.Marshal(l.real.Exp)
		if err != nil {
			r.note("EncodeJSON failed: %v", err)
			continue
		}
		rt := l.v.ast.TypeTable.Get(l.real.Tname)
		var alarms strings.Builder
		verr := rt.IsValidJson(js, &alarms, &l.v.ast.TypeTable)
		implValid := verr == nil && alarms.Len() == 0
		tree, perr := c17ParseJSON(js)
		in := map[string]interface{}{"type": l.real.Tname.String(), "literal": b.b.e.mro(), "delivered_json": string(js),
			"program": l.v.src}
		if perr != nil {
			r.violate(Violation{Kind: "property", Key: "C07:literal:unparsable-json", What: "EncodeJSON of an accepted literal is not JSON", Input: in})
			continue
		}
		if mt, _, e2 := c17ParseEnc(strings.Split(mJson, " ")); e2 != nil || c07NormJ(mt).enc(true) != c07NormJ(tree).enc(true) {
			r.violate(Violation{Kind: "correspondence", Key: "C07:corr:literal-json", What: "model eval and real EncodeJSON of a literal differ",
				Input: in, Model: mJson, Impl: tree.enc(true), Broken: "correspondence eval ~ Exp.EncodeJSON"})
			continue
		}
		if mValid != implValid {
			r.violate(Violation{Kind: "correspondence", Key: "C07:corr:literal-valid", What: "model valid and real IsValidJson differ on the delivered literal",
				Input: in, Model: mValid, Impl: fmt.Sprint(verr, alarms.String()), Broken: "correspondence valid ~ IsValidJson"})
			continue
		}
		if !implValid {
			key := "C07:literal:invalid-json"
			if b.b.e.hasBigIntegralFloat() && mValidF {
				key = "C07:literal:int-from-float-exponent-syntax"
			}
			in["validation_error"] = fmt.Sprint(verr, alarms.String())
			r.hist("literal_delivered_invalid")
			r.violate(Violation{Kind: "property", Key: key,
				What:  "the compiler accepts a literal binding whose delivered JSON does not validate against the parameter type: " + firstLine(fmt.Sprint(verr)),
				Input: in, Broken: "validExp_literal_sound"})
		}
	}
}

func c07SortedLines(m map[int]bool) []int {
	var out []int
	for k := range m {
		out = append(out, k)
	}
	sort.Ints(out)
	return out
}

// c07NormJ: float-syntax numbers compared by value (trailing zeros of the mantissa moved into the exponent)
func c07NormJ(v *c17J) *c17J {
	if v.kind == 'd' && v.ival.Sign() != 0 {
		ten := big.NewInt(10)
		m := new(big.Int).Set(v.ival)
		e := v.exp
		for {
			q, r := new(big.Int).QuoRem(m, ten, new(big.Int))
			if r.Sign() != 0 {
				break
			}
			m, e = q, e+1
		}
		return &c17J{kind: 'd', ival: m, exp: e}
	}
	if v.kind == 'd' {
		return &c17J{kind: 'd', ival: big.NewInt(0), exp: 0}
	}
	if len(v.arr) > 0 {
		o := *v
		o.arr = make([]*c17J, len(v.arr))
		for i, x := range v.arr {
			o.arr[i] = c07NormJ(x)
		}
		return &o
	}
	return v
}
