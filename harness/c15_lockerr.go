package main

// C15: two outcomes of the lock protocol that the first model did not have.
//
// (1) The exclusive create of `_lock` fails with an error OTHER than "exists"
//     (EPERM / EACCES / ENOSPC / EROFS / EIO ...).  Reproduced by making the
//     pipestance directory immutable (`chattr +i`: root on ext4; skipped with a
//     note where that does not work): the create fails with EPERM while every
//     read still works.  Property: nobody may then own the pipestance - an
//     attach for writing that returns success without `_lock` existing lets a
//     second one in.
//
// (2) Two mrp START the same fresh pipestance at the same instant
//     (Runtime.InvokePipeline twice, released together).  Exactly one may own
//     it; the refused one must not touch the winner's directory.

import (
	"errors"
	"fmt"
	"os"
	"os/exec"
	"path/filepath"
	"sync"

	"github.com/martian-lang/martian/martian/core"
)

func c15Immutable(dir string, on bool) error {
	flag := "-i"
	if on {
		flag = "+i"
	}
	out, err := exec.Command("chattr", flag, dir).CombinedOutput()
	if err != nil {
		return fmt.Errorf("chattr %s: %v %s", flag, err, string(out))
	}
	return nil
}

// c15LockCreateError: history E1,E2 (both creates fail), then the directory is made writable again and A3.
func c15LockCreateError(c *Ctx, rt *core.Runtime, pr *c15Pair, n int) {
	r := c.Res
	psdir := filepath.Join(c.Scratch, fmt.Sprintf("le%06d", n))
	defer func() {
		c15Immutable(psdir, false)
		os.RemoveAll(psdir)
	}()
	ps, err := rt.InvokePipeline(pr.a.inv, filepath.Join(pr.a.dir, "invocation.mro"), "ps", psdir,
		[]string{pr.a.dir}, "verif", nil, nil)
	if err != nil {
		return
	}
	ps.Unlock()
	if err := c15Immutable(psdir, true); err != nil {
		r.hist("lock-create-error:skipped(cannot make the directory immutable)")
		if len(r.Notes) < 12 {
			r.note("lock-create-error stream skipped: %v", err)
		}
		return
	}
	// probe: the create really fails with something else than "exists"
	if f, err := os.OpenFile(filepath.Join(psdir, "_probe"), os.O_WRONLY|os.O_CREATE|os.O_EXCL, 0644); err == nil {
		f.Close()
		r.hist("lock-create-error:skipped(directory still writable)")
		return
	} else if os.IsExist(err) {
		return
	}
	// E1: the create fails; whatever ReattachToPipestance returns, the process must not end up registered
	// as the owner of a lock it does not have
	before := c15RegistrySet()
	np, err := c15Attach(rt, psdir, pr.a, false)
	left := c15NewObjects(before)
	e1 := "0"
	if err == nil {
		e1 = "1"
	} else if len(r.Notes) < 14 {
		r.note("lock-create-error: the attach whose lock-file create fails returns: %.160s; signal handlers left registered: %d", err.Error(), len(left))
	}
	_, lockErr := os.Stat(filepath.Join(psdir, "_lock"))
	r.hist(fmt.Sprintf("lock-create-error:attach-succeeded=%v:lock-file=%v:handlers-left=%d", err == nil, lockErr == nil, len(left)))
	r.count(fmt.Sprintf("lockerr\x00%d", n), true)
	input := map[string]interface{}{"history": "E1,A2,S1,A3", "program": pr.a.text,
		"how": "E1: pipestance directory immutable (chattr +i), so os.OpenFile(_lock, O_CREATE|O_EXCL) fails with EPERM; then writable again"}
	if err == nil {
		r.violate(Violation{Kind: "property", Key: "C15:lock-create-error-ignored",
			What:  fmt.Sprintf("the lock file cannot be created (the create fails with an error other than 'exists'), yet ReattachToPipestance for writing succeeds; _lock exists = %v", lockErr == nil),
			Input: input, Expect: "attach refused with an error", Broken: "theorem Props.C15.lts_mutual_exclusion (create error outcome)"})
		np.Unlock()
		return
	}
	// A2: the directory is writable again, a second mrp attaches and owns the pipestance
	c15Immutable(psdir, false)
	p2, err2 := c15Attach(rt, psdir, pr.a, false)
	if err2 != nil {
		r.violate(Violation{Kind: "property", Key: "C15:attach-refused-after-create-errors",
			What: "after an attach that failed to create the lock file, an attach on the (again writable) pipestance is refused: " + err2.Error(), Input: input})
		c15Die(left)
		return
	}
	// S1: the first mrp (whose attach failed) exits the way cmd/mrp does on an error: through the handlers it registered
	c15Die(left)
	_, lockErr2 := os.Stat(filepath.Join(psdir, "_lock"))
	// A3: a third mrp
	p3, err3 := c15Attach(rt, psdir, pr.a, false)
	got := []string{e1, "1", "1", "0"}
	if err3 == nil {
		got[3] = "1"
	}
	if lockErr2 != nil || err3 == nil {
		r.violate(Violation{Kind: "property", Key: "C15:failed-locker-removed-owners-lock",
			What: fmt.Sprintf("history: mrp#1's attach fails because _lock cannot be created (error other than 'exists'; Lock() logs it, registers its signal handler and returns nil, the attach then fails with %q); "+
				"mrp#2 attaches and owns the pipestance; mrp#1 exits through the signal-handler path (%d object(s) it left registered) and removes mrp#2's _lock (exists afterwards = %v); mrp#3's attach for writing succeeded = %v while mrp#2 is alive",
				c19FirstLine(err.Error()), len(left), lockErr2 == nil, err3 == nil),
			Input: input, Impl: map[string]interface{}{"lock_file_after_S1": lockErr2 == nil, "third_attach_succeeded": err3 == nil},
			Expect: "lock file kept, third attach refused", Broken: "theorem Props.C15.lts_mutual_exclusion (create error outcome)"})
	}
	// the model under the regenerated facts
	holders := 1
	if err3 == nil {
		holders = 2
	}
	_, lockErr3 := os.Stat(filepath.Join(psdir, "_lock"))
	want := append(got, fmt.Sprint(lockErr3 == nil), fmt.Sprint(holders))
	// In LTS terms: E1 = Lock() with a failing create (under the regenerated fact c15LockCreateErrorIgnored: the
	// error is returned and nothing is registered; before the repair: returns nil, handler registered, no file,
	// the caller then fails on "read only mode" and Unlock()s); the process leaves without touching a file (K1);
	// A2,G2 = the second mrp; S1 = the first one dies through the handler path; A3 = the third.
	_ = want
	if rep := c.Drv.Ask("C15.lts", "E1,K1,A2,G2,S1,A3"); rep != "bad-op" {
		f := splitFields(rep)
		// reply: verdicts of the six actions, lockFile, holders, registered
		if len(f) < 8 || f[0] != e1 || f[2] != got[1] || f[5] != got[3] || f[6] != fmt.Sprint(lockErr3 == nil) || f[7] != fmt.Sprint(holders) {
			r.violate(Violation{Kind: "correspondence", Key: "C15:lock-lts-mismatch",
				What:  "history E1,K1,A2,G2,S1,A3 (an attach whose lock-file create fails and which then gives up, a second attach, the death of the first process, a third attach) on a real pipestance differs from the Lean lock LTS",
				Input: "E1,K1,A2,G2,S1,A3", Impl: append(got, fmt.Sprint(lockErr3 == nil), fmt.Sprint(holders)), Model: rep,
				Broken: "correspondence C15.lts (Martian.LockLTS.step, acquireErr)"})
		}
	}
	if err3 == nil {
		p3.Unlock()
	}
	p2.Unlock()
}

func splitFields(s string) []string {
	var out []string
	cur := ""
	for _, ch := range s {
		if ch == ' ' {
			if cur != "" {
				out = append(out, cur)
			}
			cur = ""
		} else {
			cur += string(ch)
		}
	}
	if cur != "" {
		out = append(out, cur)
	}
	return out
}

// c15StartRace: two InvokePipeline calls on the same fresh directory, released together.
func c15StartRace(c *Ctx, rt *core.Runtime, pr *c15Pair, trials int) {
	r := c.Res
	for t := 0; t < trials; t++ {
		// every third trial the second starter is given an invocation that does not compile: it fails
		// BEFORE it reaches Lock() (parse / compile / call-graph error), not with PipestanceLockedError
		badLoser := t%3 == 2
		psdir := filepath.Join(c.Scratch, fmt.Sprintf("sr%06d", t))
		var wg sync.WaitGroup
		start := make(chan struct{})
		type res struct {
			ps  *core.Pipestance
			err error
		}
		out := make([]res, 2)
		for i := 0; i < 2; i++ {
			wg.Add(1)
			go func(i int) {
				defer wg.Done()
				<-start
				inv := pr.a.inv
				if badLoser && i == 1 {
					inv += "\ncall NO_SUCH_PIPELINE_AT_ALL(\n    x = 1,\n)\n"
				}
				ps, err := rt.InvokePipeline(inv, filepath.Join(pr.a.dir, "invocation.mro"), "ps", psdir,
					[]string{pr.a.dir}, "verif", nil, nil)
				out[i] = res{ps, err}
			}(i)
		}
		close(start)
		wg.Wait()
		winners := 0
		var kinds []string
		for _, o := range out {
			if o.err == nil {
				winners++
				kinds = append(kinds, "started")
			} else {
				var le *core.PipestanceLockedError
				var ee *core.PipestanceExistsError
				switch {
				case errors.As(o.err, &le):
					kinds = append(kinds, "refused:locked")
				case errors.As(o.err, &ee):
					kinds = append(kinds, "refused:exists")
				default:
					kinds = append(kinds, "refused:other")
				}
			}
		}
		if badLoser {
			r.hist(fmt.Sprintf("start-race(second starter does not compile):%s/%s", kinds[0], kinds[1]))
		} else {
			r.hist(fmt.Sprintf("start-race:%s/%s", kinds[0], kinds[1]))
		}
		r.count(fmt.Sprintf("startrace\x00%d", t), true)
		input := map[string]interface{}{"history": "two Runtime.InvokePipeline calls on the same fresh pipestance directory, released together", "program": pr.a.text, "outcomes": kinds}
		if winners > 1 {
			r.violate(Violation{Kind: "property", Key: "C15:two-writers", What: "two concurrent starts both own the pipestance", Input: input,
				Broken: "theorem Props.C15.lts_mutual_exclusion"})
		}
		if winners == 1 {
			// the winner's directory must be intact
			missing := ""
			for _, f := range []string{"_lock", "_invocation", "_mrosource", "_jobmode"} {
				if _, err := os.Stat(filepath.Join(psdir, f)); err != nil {
					missing += " " + f
				}
			}
			if missing != "" {
				r.violate(Violation{Kind: "property", Key: "C15:refused-start-deleted-running-pipestance",
					What: "a start that failed (" + kinds[0] + "/" + kinds[1] + ") while another mrp holds the pipestance removed files of the RUNNING pipestance (missing after both returned:" + missing +
						"): InvokePipeline runs os.RemoveAll(pipestancePath) on instantiation errors of a call that does not own the pipestance",
					Input: input, Impl: "missing:" + missing, Expect: "a refused start changes nothing", Broken: "theorem Props.C15.lts_refused_attach_changes_nothing (start)"})
			}
		}
		if winners == 1 && (kinds[0] == "refused:locked" || kinds[1] == "refused:locked") {
			// the same history in the LTS (under the regenerated fact c15RefusedStartRemovesDir)
			_, lerr := os.Stat(filepath.Join(psdir, "_lock"))
			if rep := c.Drv.Ask("C15.lts", "T1,G1,T2"); rep != "bad-op" {
				f := splitFields(rep)
				if len(f) < 5 || f[0] != "1" || f[2] != "0" || f[3] != fmt.Sprint(lerr == nil) || f[4] != "1" {
					r.violate(Violation{Kind: "correspondence", Key: "C15:lock-lts-mismatch",
						What:  "history T1,G1,T2 (two concurrent starts, the second refused with PipestanceLockedError) on a real pipestance differs from the Lean lock LTS (under the regenerated fact c15RefusedStartRemovesDir)",
						Input: "T1,G1,T2", Impl: []string{"1", "1", "0", fmt.Sprint(lerr == nil), "1"}, Model: rep,
						Broken: "correspondence C15.lts (Martian.LockLTS.step, start)"})
				}
			}
		}
		if winners == 1 && badLoser && (kinds[0] == "refused:other" || kinds[1] == "refused:other") {
			// a start that fails before Lock(): Act.startFail
			_, lerr := os.Stat(filepath.Join(psdir, "_lock"))
			if rep := c.Drv.Ask("C15.lts", "T1,G1,F2"); rep != "bad-op" {
				f := splitFields(rep)
				if len(f) < 5 || f[0] != "1" || f[2] != "0" || f[3] != fmt.Sprint(lerr == nil) || f[4] != "1" {
					r.violate(Violation{Kind: "correspondence", Key: "C15:lock-lts-mismatch",
						What:  "history T1,G1,F2 (two concurrent starts, the second fails before Lock() because its source does not compile) on a real pipestance differs from the Lean lock LTS (under the regenerated fact c15RefusedStartRemovesDir)",
						Input: "T1,G1,F2", Impl: []string{"1", "1", "0", fmt.Sprint(lerr == nil), "1"}, Model: rep,
						Broken: "correspondence C15.lts (Martian.LockLTS.step, startFail)"})
				}
			}
		}
		for _, o := range out {
			if o.err == nil && o.ps != nil {
				o.ps.Unlock()
			}
		}
		os.RemoveAll(psdir)
	}
}
