package main

// Translation of a Tier-A run into the event alphabet of the Lean `Sched`
// model (lean/Martian/SCHED_SPEC.md).  Snapshots of the real scheduler's view
// (core.Pipestance.VerifNodes) are taken after every refresh, at every job
// submission and after every StepNodes; consecutive snapshots are diffed into
// sentinel-level events.

import (
	"fmt"
	"sort"
	"strings"

	"github.com/martian-lang/martian/martian/core"
)

var schedSentinels = map[string]bool{"errors": true, "assert": true, "complete": true,
	"disabled": true, "log": true, "jobinfo": true, "queued_locally": true}

type objSnap struct {
	names map[string]bool
	state string
}

type forkSnap struct {
	id     string
	state  string
	splits bool
	meta   objSnap
	split  objSnap
	join   objSnap
	chunks []objSnap
}

type nodeSnap struct {
	fq     string
	kind   string
	cached string
	live   string
	pre    []string
	forks  []forkSnap
	byIx   map[int]forkSnap // model fork index -> snapshot (filled by observe)
}

type SchedTracer struct {
	run       *TARun
	Lines     []string
	nodeIx    map[string]int            // fqname -> model node id
	order     []string                  // nodes, prenodes first
	forkIx    map[string]map[string]int // fqname -> fork dir id -> model fork index
	forkPos   map[string][]int          // fqname -> real list position -> model fork index (this incarnation)
	prev      map[string]*nodeSnap
	inited    bool
	nForks    map[string]int
	lastIds   map[string]map[string]int
	matchById bool
}

func filterNames(ns []string) map[string]bool {
	m := map[string]bool{}
	for _, n := range ns {
		if schedSentinels[n] {
			m[n] = true
		}
	}
	return m
}

func snapOf(v core.VerifNodeView) *nodeSnap {
	s := &nodeSnap{fq: v.Fqname, kind: v.Kind, cached: string(v.State), live: string(v.LiveState)}
	s.pre = append(s.pre, v.Prenodes...)
	sort.Strings(s.pre)
	for _, f := range v.Forks {
		fs := forkSnap{id: f.Id, state: string(f.State), splits: f.Splits,
			meta: objSnap{names: filterNames(f.Meta)}, split: objSnap{names: filterNames(f.Split)},
			join: objSnap{names: filterNames(f.Join)}}
		for _, c := range f.Chunks {
			fs.chunks = append(fs.chunks, objSnap{names: filterNames(c.Names), state: string(c.State)})
		}
		s.forks = append(s.forks, fs)
	}
	return s
}

func (t *SchedTracer) emit(f string, a ...interface{}) {
	t.Lines = append(t.Lines, fmt.Sprintf(f, a...))
}

func stName(s string) string {
	if s == "" {
		return "none"
	}
	return s
}

// begin emits the init lines from the first snapshot.
func (t *SchedTracer) begin(views []core.VerifNodeView) {
	t.nodeIx = map[string]int{}
	t.forkIx = map[string]map[string]int{}
	t.forkPos = map[string][]int{}
	t.prev = map[string]*nodeSnap{}
	t.nForks = map[string]int{}
	names := make([]string, 0, len(views))
	byName := map[string]core.VerifNodeView{}
	for _, v := range views {
		names = append(names, v.Fqname)
		byName[v.Fqname] = v
	}
	sort.Strings(names)
	// topological order, prenodes first
	done := map[string]bool{}
	var visit func(n string)
	visit = func(n string) {
		if done[n] {
			return
		}
		done[n] = true
		pre := append([]string(nil), byName[n].Prenodes...)
		sort.Strings(pre)
		for _, p := range pre {
			if _, ok := byName[p]; ok {
				visit(p)
			}
		}
		t.order = append(t.order, n)
	}
	for _, n := range names {
		visit(n)
	}
	for i, n := range t.order {
		t.nodeIx[n] = i
	}
	for _, n := range t.order {
		v := byName[n]
		kind := "pipeline"
		if v.Kind == "stage" {
			kind = "stage"
			if len(v.Forks) > 0 && v.Forks[0].Splits {
				kind = "splitstage"
			}
		}
		pre := make([]string, 0, len(v.Prenodes))
		ps := append([]string(nil), v.Prenodes...)
		sort.Strings(ps)
		for _, p := range ps {
			pre = append(pre, fmt.Sprint(t.nodeIx[p]))
		}
		flags := ""
		if v.Preflight {
			flags = " preflight"
		}
		t.emit("node %d %s [%s]%s", t.nodeIx[n], kind, strings.Join(pre, " "), flags)
		t.forkIx[n] = map[string]int{}
		empty := &nodeSnap{fq: n, kind: v.Kind, cached: "", byIx: map[int]forkSnap{}}
		t.prev[n] = empty
	}
	t.emit("start")
	t.inited = true
}

func (t *SchedTracer) modelFork(n string, pos int, id string) (int, bool) {
	for len(t.forkPos[n]) <= pos {
		t.forkPos[n] = append(t.forkPos[n], -1)
	}
	if ix := t.forkPos[n][pos]; ix >= 0 {
		// fork directory ids can change within an incarnation (Fork.updateId on
		// dynamic expansion); remember the latest for matching after a restart
		t.forkIx[n][id] = ix
		return ix, false
	}
	if t.matchById {
		if ix, ok := t.lastIds[n][id]; ok {
			taken := false
			for _, other := range t.forkPos[n] {
				if other == ix {
					taken = true
				}
			}
			if !taken {
				t.forkPos[n][pos] = ix
				t.forkIx[n][id] = ix
				return ix, false
			}
		}
	}
	ix := t.nForks[n]
	t.nForks[n]++
	t.forkIx[n][id] = ix
	t.forkPos[n][pos] = ix
	return ix, true
}

func objDiff(prev, cur objSnap) (added, removed []string) {
	for k := range cur.names {
		if !prev.names[k] {
			added = append(added, k)
		}
	}
	for k := range prev.names {
		if !cur.names[k] {
			removed = append(removed, k)
		}
	}
	sort.Strings(added)
	sort.Strings(removed)
	return
}

type deferKey struct {
	n    string
	fpos int
	obj  string
}

// observe diffs the current real view against the previous snapshot.  ctx is
// "R" (refresh made it visible), "W" (mrp wrote it) or "D" (restart: loaded
// from disk; lost sentinels become `reset` events).  Events of the object
// `hold` (the job object being launched) are returned instead of emitted.
func (t *SchedTracer) observe(ctx string, hold *deferKey) []string {
	views := t.run.ps.VerifNodes()
	if !t.inited {
		t.begin(views)
	}
	cur := map[string]*nodeSnap{}
	for _, v := range views {
		cur[v.Fqname] = snapOf(v)
	}
	var held []string
	for _, n := range t.order {
		c, p := cur[n], t.prev[n]
		if c == nil {
			continue
		}
		c.byIx = map[int]forkSnap{}
		ni := t.nodeIx[n]
		changed := false
		for pos, f := range c.forks {
			fi, isNew := t.modelFork(n, pos, f.id)
			c.byIx[fi] = f
			if isNew {
				t.emit("fork %d %d", ni, fi)
				changed = true
			}
		}
		if ctx == "D" {
			// the real fork list of the new incarnation, in list order (model indices)
			var sb strings.Builder
			fmt.Fprintf(&sb, "forkorder %d", ni)
			for pos, f := range c.forks {
				fi, _ := t.modelFork(n, pos, f.id)
				fmt.Fprintf(&sb, " %d", fi)
			}
			t.emit("%s", sb.String())
		}
		nodeStateEmitted := false
		if c.cached != p.cached && c.cached == "running" && ctx != "D" {
			// a node becomes running before its forks act (same scheduler pass)
			line := fmt.Sprintf("nodestate %d %s", ni, stName(c.cached))
			t.emit("%s", line)
			nodeStateEmitted = true
			changed = true
		}
		for pos, f := range c.forks {
			fi, _ := t.modelFork(n, pos, f.id)
			pf := p.byIx[fi]
			if len(f.chunks) != len(pf.chunks) {
				t.emit("mkchunks %d %d %d", ni, fi, len(f.chunks))
				changed = true
			}
			out := func(obj string, prevO, curO objSnap) {
				add, rem := objDiff(prevO, curO)
				stateLost := false
				for _, s := range rem {
					if s != "queued_locally" {
						stateLost = true
					}
				}
				if ctx == "D" && stateLost {
					t.emit("reset %d %d %s", ni, fi, obj)
					changed = true
					// after a reset whatever is there now was written afresh
					for k := range curO.names {
						t.emit("W %d %d %s %s", ni, fi, obj, k)
					}
					return
				}
				for _, s := range add {
					ectx := ctx
					if ctx == "D" && obj == "fork" {
						// fork-level sentinels are only ever written by mrp itself, and then
						// seen at once: one that shows up at restart was written while re-attaching
						ectx = "W"
					}
					line := fmt.Sprintf("%s %d %d %s %s", ectx, ni, fi, obj, s)
					if hold != nil && hold.n == n && hold.fpos == pos && hold.obj == obj {
						held = append(held, line)
					} else {
						t.emit("%s", line)
					}
					changed = true
				}
				for _, s := range rem {
					t.emit("U %d %d %s %s", ni, fi, obj, s)
					changed = true
				}
			}
			out("split", pf.split, f.split)
			for ci, ch := range f.chunks {
				var pc objSnap
				if ci < len(pf.chunks) {
					pc = pf.chunks[ci]
				}
				out(fmt.Sprintf("chunk:%d", ci), pc, ch)
			}
			out("join", pf.join, f.join)
			out("fork", pf.meta, f.meta)
			if f.state != pf.state {
				changed = true
			}
		}
		if c.cached != p.cached && !nodeStateEmitted {
			line := fmt.Sprintf("nodestate %d %s", ni, stName(c.cached))
			if hold != nil && hold.n == n {
				held = append(held, line)
			} else {
				t.emit("%s", line)
			}
			changed = true
		}
		if changed || c.live != p.live {
			var sb strings.Builder
			fmt.Fprintf(&sb, "snapshot %d %s %s", ni, stName(c.cached), stName(c.live))
			ixs := make([]int, 0, len(c.byIx))
			for fi := range c.byIx {
				ixs = append(ixs, fi)
			}
			sort.Ints(ixs)
			for _, fi := range ixs {
				f := c.byIx[fi]
				fmt.Fprintf(&sb, " %d:%s", fi, stName(f.state))
				for ci, ch := range f.chunks {
					fmt.Fprintf(&sb, ",%d=%s", ci, stName(ch.state))
				}
			}
			if hold == nil || hold.n != n {
				t.emit("%s", sb.String())
			} else {
				held = append(held, sb.String())
			}
		}
		t.prev[n] = c
	}
	return held
}

// newIncarnation forgets list positions (fork objects are rebuilt on restart).
func (t *SchedTracer) newIncarnation() {
	t.forkPos = map[string][]int{}
	// ids as of the end of the previous incarnation identify forks across the restart
	t.lastIds = map[string]map[string]int{}
	for n, p := range t.prev {
		m := map[string]int{}
		for ix, f := range p.byIx {
			m[f.id] = ix
		}
		t.lastIds[n] = m
	}
	t.matchById = true
}

// roleOf maps a job to (node fqname, fork journal name suffix, role).
func (t *SchedTracer) locate(job *TAJob) (n string, fpos int, role string, ok bool) {
	fq := job.Fqname
	role = job.ShellName
	chunk := -1
	if i := strings.LastIndex(fq, ".chnk"); i >= 0 && job.ShellName == "main" {
		fmt.Sscanf(fq[i+5:], "%d", &chunk)
		fq = fq[:i]
		role = fmt.Sprintf("chunk:%d", chunk)
	}
	for _, v := range t.run.ps.VerifNodes() {
		for pos, f := range v.Forks {
			if f.Fqname == fq {
				return v.Fqname, pos, role, true
			}
		}
	}
	return "", 0, role, false
}

func (t *SchedTracer) jobRef(job *TAJob) string {
	if job.traceRef != "" {
		return job.traceRef
	}
	n, fpos, role, ok := t.locate(job)
	if !ok {
		return "? ? " + role
	}
	fi := t.forkPos[n][fpos]
	job.traceRef = fmt.Sprintf("%d %d %s", t.nodeIx[n], fi, role)
	return job.traceRef
}

// History returns the whole trace as one ';'-separated request argument.
func (t *SchedTracer) History() string {
	return strings.Join(t.Lines, ";")
}
