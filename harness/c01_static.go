package main

// C01 — tie of the two-phase resolver MODEL (lean/Martian/ResolverStatic.lean) to the code.
//
// STATIC phase: the model's `staticProgram` (resolved inputs of every stage node,
// resolved outputs of the top node) against the real compiler's call graph
// (`(*syntax.Ast).MakeCallGraph`: CallGraphStage.Inputs / Outputs), node by
// node, parameter by parameter, expression by expression — on every PLAIN
// program (no map call, no `disabled`) that the check sees: corpus, the
// generated Tier-A programs, a dedicated stream of generated plain programs run
// under Tier A, and a larger static-only stream (compiled, not run).
//
// RUN-TIME phase: the model's `evalRT` over the recorded outs against the
// `_args` the real resolver delivered to every stage job and the recorded
// top-level outs of the same Tier-A run.
//
// The refinement theorems with node-wise store (`resolver_refines_den_mapstatic_checked` for map calls
// of stages, `resolver_refines_den_mappedpipes_checked` for mapped pipelines / nesting; both cover
// plain programs) are replayed on every program
// whose decidable hypotheses hold (`frag=1`): twoPhase must equal den.

import (
	"fmt"
	"os"
	"strconv"
	"strings"

	"github.com/martian-lang/martian/martian/syntax"
)

// ---- the real static phase, rendered canonically ----

func c01RExp(sb *strings.Builder, e syntax.Exp) error {
	switch t := e.(type) {
	case nil:
		sb.WriteString("(lit n)")
	case *syntax.NullExp:
		sb.WriteString("(lit n)")
	case *syntax.StringExp:
		sb.WriteString("(lit " + c01Atom(c01Str(t.Value)) + ")")
	case *syntax.BoolExp:
		if t.Value {
			sb.WriteString("(lit " + c01Atom("true") + ")")
		} else {
			sb.WriteString("(lit " + c01Atom("false") + ")")
		}
	case *syntax.IntExp:
		sb.WriteString("(lit " + c01Atom(strconv.FormatInt(t.Value, 10)) + ")")
	case *syntax.FloatExp:
		sb.WriteString("(lit " + c01Atom(c01Num(strconv.FormatFloat(t.Value, 'g', -1, 64))) + ")")
	case *syntax.ArrayExp:
		sb.WriteString("(arr")
		for _, x := range t.Value {
			sb.WriteByte(' ')
			if err := c01RExp(sb, x); err != nil {
				return err
			}
		}
		sb.WriteString(")")
	case *syntax.MapExp:
		type kv struct{ k, v string }
		kvs := make([]kv, 0, len(t.Value))
		for k, x := range t.Value {
			var vb strings.Builder
			if err := c01RExp(&vb, x); err != nil {
				return err
			}
			kvs = append(kvs, kv{c01hx(k), vb.String()})
		}
		// sorted by the hex text of the key, like the driver
		for i := 1; i < len(kvs); i++ {
			for j := i; j > 0 && kvs[j].k < kvs[j-1].k; j-- {
				kvs[j], kvs[j-1] = kvs[j-1], kvs[j]
			}
		}
		if t.Kind == syntax.KindStruct {
			sb.WriteString("(st")
		} else {
			sb.WriteString("(map")
		}
		for _, e := range kvs {
			sb.WriteString(" (kv " + e.k + " " + e.v + ")")
		}
		sb.WriteString(")")
	case *syntax.RefExp:
		sb.WriteString("(ref " + t.Id)
		// known fork indices, sorted by call id like the driver
		var fks [][2]string
		for call, ix := range t.Forks {
			if call == nil || ix == nil {
				continue
			}
			if k := ix.IndexSource(); k != nil {
				continue // not known until run time
			}
			if ix.Mode() == syntax.ModeMapCall {
				fks = append(fks, [2]string{call.Id, "(k " + c01hx(ix.MapKey()) + ")"})
			} else {
				fks = append(fks, [2]string{call.Id, fmt.Sprintf("(i %d)", ix.ArrayIndex())})
			}
		}
		for i := 1; i < len(fks); i++ {
			for j := i; j > 0 && fks[j][0] < fks[j-1][0]; j-- {
				fks[j], fks[j-1] = fks[j-1], fks[j]
			}
		}
		for _, e := range fks {
			sb.WriteString(" (fk " + e[0] + " " + e[1] + ")")
		}
		sb.WriteString(c01Path(t.OutputId) + ")")
	case *syntax.SplitExp:
		id := "?"
		if t.Call != nil {
			id = t.Call.Id
		}
		sb.WriteString("(split " + id + " ")
		if err := c01RExp(sb, t.Value); err != nil {
			return err
		}
		sb.WriteString(")")
	case *syntax.MergeExp:
		id := "?"
		if t.Call != nil {
			id = t.Call.GetFqid()
		}
		sb.WriteString("(merge " + id + " ")
		// the node whose forks enumerate the elements at run time (`findMergeForkNode`)
		if t.ForkNode != nil {
			sb.WriteString("(fn " + t.ForkNode.Id + ") ")
		} else {
			sb.WriteString("(fn) ")
		}
		if err := c01RExp(sb, t.Value); err != nil {
			return err
		}
		sb.WriteString(")")
	case *syntax.DisabledExp:
		var ds, vs strings.Builder
		if err := c01RExp(&ds, t.Disabled); err != nil {
			return err
		}
		if err := c01RExp(&vs, t.Value); err != nil {
			return err
		}
		// two wrappers on the same control are one (canonical form, like the driver)
		if strings.HasPrefix(vs.String(), "(dis "+ds.String()+" ") {
			sb.WriteString(vs.String())
		} else {
			sb.WriteString("(dis " + ds.String() + " " + vs.String() + ")")
		}
	default:
		return &c01Unsupported{fmt.Sprintf("resolved expression %T", e)}
	}
	return nil
}

func c01CGNodes(sb *strings.Builder, node syntax.CallGraphNode) error {
	if node == nil {
		return &c01Unsupported{"nil call graph node"}
	}
	if node.Kind() == syntax.KindPipeline {
		for _, ch := range node.GetChildren() {
			if err := c01CGNodes(sb, ch); err != nil {
				return err
			}
		}
		return nil
	}
	// a node that is always disabled (constant true control) never runs: left out on both sides
	if ds := node.Disabled(); len(ds) > 0 {
		if b, ok := ds[0].(*syntax.BoolExp); ok && b.Value {
			return nil
		}
	}
	sb.WriteString(" (node " + node.GetFqid() + " (forks")
	for _, fr := range node.ForkRoots() {
		sb.WriteString(" " + fr.Call().Id)
	}
	sb.WriteString(") (disabled")
	seenDis := map[string]bool{}
	for _, d := range node.Disabled() {
		var db strings.Builder
		if err := c01RExp(&db, d); err != nil {
			return err
		}
		if !seenDis[db.String()] {
			seenDis[db.String()] = true
			sb.WriteString(" " + db.String())
		}
	}
	sb.WriteString(")")
	ins := node.ResolvedInputs()
	for _, p := range node.Callable().GetInParams().List {
		rb := ins[p.Id]
		if rb == nil {
			return &c01Unsupported{"parameter without resolved binding"}
		}
		tid := rb.Type.TypeId()
		fmt.Fprintf(sb, " (in %s %s %d %d ", p.Id, tid.Tname, tid.MapDim, tid.ArrayDim)
		if err := c01RExp(sb, rb.Exp); err != nil {
			return err
		}
		sb.WriteString(")")
	}
	sb.WriteString(")")
	return nil
}

// c01CallGraph compiles `src` afresh (MakeCallGraph mutates split nodes of the AST
// it is given) and renders the resolved inputs of every stage node in call order
// and the resolved outputs of the top node.
func c01CallGraph(src string, mroPaths []string) (cg string, err error) {
	defer func() {
		if e := recover(); e != nil {
			cg, err = "", fmt.Errorf("panic: %v", e)
		}
	}()
	_, _, ast, err := syntax.ParseSourceBytes([]byte(src), "pipeline.mro", mroPaths, false)
	if err != nil {
		return "", err
	}
	if ast.Call == nil {
		return "", &c01Unsupported{"no top-level call"}
	}
	root, err := ast.MakeCallGraph("", ast.Call)
	if err != nil {
		return "", err
	}
	var sb strings.Builder
	sb.WriteString("(cg")
	if err := c01CGNodes(&sb, root); err != nil {
		return "", err
	}
	sb.WriteString(" (out ")
	out := root.ResolvedOutputs()
	if out == nil || out.Exp == nil {
		sb.WriteString("(lit n)")
	} else if _, isNull := out.Exp.(*syntax.NullExp); isNull && len(root.Callable().GetOutParams().List) == 0 {
		sb.WriteString("(st)") // a pipeline without outputs: the empty struct
	} else if err := c01RExp(&sb, out.Exp); err != nil {
		return "", err
	}
	sb.WriteString("))")
	return sb.String(), nil
}

// c01CompileStatic: program encoding (from the source-level AST) + real call graph.
func c01CompileStatic(src string) (prog, cg string, err error) {
	defer func() {
		if e := recover(); e != nil {
			err = fmt.Errorf("panic: %v", e)
		}
	}()
	_, _, ast, err := syntax.ParseSourceBytes([]byte(src), "pipeline.mro", nil, false)
	if err != nil {
		return "", "", err
	}
	prog, err = c01Program(ast)
	if err != nil {
		return "", "", err
	}
	cg, err = c01CallGraph(src, nil)
	return prog, cg, err
}

type c01StaticReply struct {
	skip   bool
	frag   bool
	kinds  string
	why    string
	den    string
	rt     string
	static string
	bad    string
}

func c01ParseStatic(reply string) c01StaticReply {
	if strings.HasPrefix(reply, "skip") {
		return c01StaticReply{skip: true}
	}
	f := strings.Split(reply, "\t")
	if len(f) != 5 || f[0] != "static" {
		return c01StaticReply{bad: reply}
	}
	why := ""
	if i := strings.Index(f[1], "|"); i >= 0 {
		why = f[1][i+1:]
		f[1] = f[1][:i]
	}
	return c01StaticReply{frag: strings.HasPrefix(f[1], "frag=1"), kinds: strings.TrimPrefix(f[1], "frag=1"), why: why, den: strings.TrimPrefix(f[2], "den="),
		rt: strings.TrimPrefix(f[3], "rt="), static: f[4]}
}

// first differing node / parameter of two canonical static renderings
func c01StaticDiff(model, impl string) string {
	ms := strings.Split(model, " (node ")
	is := strings.Split(impl, " (node ")
	for i := 0; i < len(ms) && i < len(is); i++ {
		if ms[i] != is[i] {
			return fmt.Sprintf("model: %s  ||  compiler: %s", c01Trunc(ms[i], 400), c01Trunc(is[i], 400))
		}
	}
	return fmt.Sprintf("model has %d nodes, compiler %d", len(ms)-1, len(is)-1)
}

type c01StaticCase struct {
	name, src, prog, cg, obs string
}

// c01StaticCheck asks the driver about a batch of plain programs and reports.
func c01StaticCheck(c *Ctx, cases []c01StaticCase, stream string, reported map[string]int) {
	r := c.Res
	reqs := make([][]string, len(cases))
	for i, cs := range cases {
		o := cs.obs
		if o == "" {
			o = "-"
		}
		reqs[i] = []string{"C01.static", cs.prog, o}
	}
	replies := c.Drv.AskBatch(reqs)
	for i, cs := range cases {
		rep := c01ParseStatic(replies[i])
		if rep.skip {
			r.hist("static:" + stream + ":" + strings.TrimSpace(replies[i]))
			continue
		}
		nodes := strings.Count(rep.static, " (node ")
		r.count("static|"+stream+"|"+cs.src, nodes >= 2)
		if rep.bad != "" {
			r.violate(Violation{Kind: "correspondence", Key: "C01:driver-bad-reply",
				What:   "the Lean driver could not evaluate C01.static: " + c01Trunc(rep.bad, 200),
				Input:  map[string]interface{}{"program": cs.src, "name": cs.name},
				Broken: "C01.static"})
			continue
		}
		r.hist("static:" + stream + ":covered by the static model (plain or statically sized map calls of stages)")
		if rep.frag {
			r.hist("static:" + stream + ":inside-proved-fragment")
			if strings.Contains(rep.kinds, "R") {
				r.hist("static:" + stream + ":inside-proved-fragment with map calls of run-time size (given the recorded index sets)")
			}
			if strings.Contains(rep.kinds, "E") {
				r.hist("static:" + stream + ":inside-proved-fragment with run-time disabled controls (modulo dnull->null)")
			}
		} else {
			r.hist("static:" + stream + ":outside-proved-fragment (type check of the model)")
			if rep.why != "" {
				r.hist("static:" + stream + ":outside because: " + rep.why)
			}
			if strings.Contains(rep.kinds, "X") {
				r.hist("static:" + stream + ":run-time sized fragment except the index sets (empty / null source, or recorded != source)")
			}
		}
		if rep.static != cs.cg {
			r.hist("static:" + stream + ":DIFF")
			if reported["static"] < 2 {
				reported["static"]++
				src, model, impl := cs.src, rep.static, cs.cg
				// shrink: compile + compare only
				pred := func(s string) bool {
					p, g, err := c01CompileStatic(s)
					if err != nil {
						return false
					}
					rr := c01ParseStatic(c.Drv.Ask("C01.static", p, "-"))
					return !rr.skip && rr.bad == "" && rr.static != g
				}
				if small := shrinkLines(src, pred, 300); small != src {
					if p, g, err := c01CompileStatic(small); err == nil {
						rr := c01ParseStatic(c.Drv.Ask("C01.static", p, "-"))
						if !rr.skip && rr.bad == "" && rr.static != g {
							src, model, impl = small, rr.static, g
						}
					}
				}
				r.violate(Violation{Kind: "correspondence", Key: "C01:static-phase",
					What: "the model's static phase (resolved inputs per stage node) differs from the real compiler's call graph: " +
						c01StaticDiff(model, impl),
					Input: map[string]interface{}{"program": src, "name": cs.name,
						"replay": "harness: c01CompileStatic(program) -> driver C01.static <prog> - ; compare with MakeCallGraph"},
					Impl: impl, Model: model,
					Broken: "staticProgram (Martian.ResolverStatic) vs syntax.MakeCallGraph"})
			}
			continue
		}
		r.hist("static:" + stream + ":equal")
		if cs.obs == "" {
			continue
		}
		if rep.frag && rep.den != "eq" {
			r.hist("static:" + stream + ":THEOREM-REPLAY-FAILED")
			if reported["den"] < 2 {
				reported["den"]++
				r.violate(Violation{Kind: "correspondence", Key: "C01:two-phase-vs-den",
					What:   "twoPhase differs from den on a program that passes wellTypedB/acyclicB (the driver's encoding or the theorem's replay is broken)",
					Input:  map[string]interface{}{"program": cs.src, "name": cs.name},
					Broken: "resolver_refines_den_mapstatic_checked / resolver_refines_den_mappedpipes_checked / resolver_refines_den_disabled_checked / resolver_refines_den_runtime_checked"})
			}
		}
		if rep.den == "eq" {
			r.hist("static:" + stream + ":twoPhase=den")
		} else {
			r.hist("static:" + stream + ":twoPhase!=den (outside the fragment)")
		}
		if rep.rt == "ok" {
			r.hist("static:" + stream + ":run-time phase = delivered args")
		} else {
			r.hist("static:" + stream + ":RT-DIFF")
			if reported["rt"] < 2 {
				reported["rt"]++
				f := strings.Split(rep.rt, "\x1f")
				r.violate(Violation{Kind: "correspondence", Key: "C01:runtime-phase",
					What:   "the model's run-time phase over the recorded outs differs from what the real resolver delivered: " + strings.Join(f, " | "),
					Input:  map[string]interface{}{"program": cs.src, "name": cs.name, "replay": "TA_MRO=f.mro harness TA ; driver C01.static"},
					Broken: "evalRT (Martian.ResolverStatic) vs core.TopNode.resolve"})
			}
		}
	}
}

// C01CG: debugging entry: print the real call graph rendering and the model's static phase
// for one program (env C01_MRO).
func init() {
	register("C01CG", func(c *Ctx) {
		b, err := os.ReadFile(os.Getenv("C01_MRO"))
		if err != nil {
			fatal("%v", err)
		}
		prog, cg, err := c01CompileStatic(string(b))
		fmt.Fprintln(os.Stderr, "err:", err)
		fmt.Fprintln(os.Stderr, "compiler:", strings.ReplaceAll(cg, " (node ", "\n  (node "))
		if prog != "" && c.Drv != nil {
			rep := c.Drv.Ask("C01.static", prog, "-")
			fmt.Fprintln(os.Stderr, "model:   ", strings.ReplaceAll(rep, " (node ", "\n  (node "))
		}
	})
}
