package main

// C01 program families around struct NARROWING and nested run-time `disabled`
// controls (used by runC01 only):
//
//   - narrow-lit: array / typed-map literals of a WIDE struct type whose elements
//     mix struct literals, references (whole outputs and projections) and null in
//     every order, written at the wide type, carried through 1..2 pipeline
//     boundaries and bound there to parameters (and return values) of NARROWER
//     struct types: the static filter of literals (`Exp.filter`) and the run-time
//     filter of references (`FilterJson`) must both drop exactly the undeclared
//     members, element by element, wherever the literal elements stand.
//   - narrow-share: ONE producer output path (a struct, an array / typed map of
//     structs, a projection through an array of structs) bound to parameters and
//     return values of 2..3 DIFFERENT struct types (narrow, middle, wide) by
//     several consumers, the consumers in every textual order (and ≥ 2 schedules
//     each): what a consumer receives depends on its own declared type only, not
//     on who else reads the same path or who was resolved first.
//   - disabled-same-stage: 2..3 nested pipelines each disabled by a run-time flag,
//     all flags being DIFFERENT outputs of the SAME stage, around a pass-through
//     value (a literal, a pipeline input, the output of an outside stage) and a
//     value produced inside; every combination of flag values.
//
// Producers are ECHOALL* stages: output i is input i (OutsHook in c01_worker.go),
// so the recorded outs carry every member of the wide type on purpose.

import (
	"fmt"
	"math/rand"
	"strings"
)

const c01NarrowDecls = `struct A_S(
    int a,
)

struct AB_S(
    int    a,
    string b,
)

struct ABC_S(
    int    a,
    string b,
    float  c,
)

struct HOLD(
    ABC_S inner,
    int   n,
)

stage ECHOALLW(
    in  ABC_S      w_,
    in  ABC_S[]    ws_,
    in  map<ABC_S> wm_,
    in  HOLD[]     hs_,
    in  HOLD       h_,
    out ABC_S      w,
    out ABC_S[]    ws,
    out map<ABC_S> wm,
    out HOLD[]     hs,
    out HOLD       h,
    src comp       "fake",
)

stage TAKE_A(
    in  A_S      v,
    in  A_S[]    vs,
    in  map<A_S> vm,
    out int      r,
    src comp     "fake",
)

stage TAKE_AB(
    in  AB_S      v,
    in  AB_S[]    vs,
    in  map<AB_S> vm,
    out int       r,
    src comp      "fake",
)

stage TAKE_ABC(
    in  ABC_S      v,
    in  ABC_S[]    vs,
    in  map<ABC_S> vm,
    out int        r,
    src comp       "fake",
)

`

func c01WideLit(rng *rand.Rand) string {
	return fmt.Sprintf(`{a: %d, b: "s%d", c: %d.5}`, rng.Intn(90)+1, rng.Intn(9), rng.Intn(9))
}

func c01HoldLit(rng *rand.Rand) string {
	return fmt.Sprintf(`{inner: %s, n: %d}`, c01WideLit(rng), rng.Intn(50))
}

func c01ProducerCall(rng *rand.Rand) string {
	var ws, hs, wm []string
	for i, n := 0, 1+rng.Intn(3); i < n; i++ {
		ws = append(ws, c01WideLit(rng))
	}
	for i, n := 0, 1+rng.Intn(3); i < n; i++ {
		hs = append(hs, c01HoldLit(rng))
	}
	for i, n := 0, 1+rng.Intn(3); i < n; i++ {
		wm = append(wm, fmt.Sprintf(`"k%d": %s`, i, c01WideLit(rng)))
	}
	return fmt.Sprintf("    call ECHOALLW as P(\n        w_  = %s,\n        ws_ = [%s],\n        wm_ = {%s},\n        hs_ = [%s],\n        h_  = %s,\n    )\n\n",
		c01WideLit(rng), strings.Join(ws, ", "), strings.Join(wm, ", "), strings.Join(hs, ", "), c01HoldLit(rng))
}

// an element of type ABC_S, as it can be written in TOP: literal, reference, projection, null
func c01WideElem(rng *rand.Rand, kind int) string {
	switch kind {
	case 0:
		return c01WideLit(rng)
	case 1:
		return "P.w"
	case 2:
		return "P.h.inner"
	default:
		return "null"
	}
}

// a mixed list of element kinds with at least one struct literal and one non-literal
func c01MixedKinds(rng *rand.Rand) []int {
	n := 2 + rng.Intn(3)
	ks := make([]int, n)
	for i := range ks {
		ks[i] = rng.Intn(4)
	}
	i := rng.Intn(n)
	ks[i] = 0
	if j := (i + 1 + rng.Intn(n-1)) % n; ks[j] == 0 {
		ks[j] = 1 + rng.Intn(3)
	}
	return ks
}

var c01TakeTypes = []string{"A_S", "AB_S", "ABC_S"}

func c01NarrowLitProgram(rng *rand.Rand, depth int) string {
	var sb strings.Builder
	sb.WriteString(c01NarrowDecls)
	consumers := rng.Perm(3)[:2+rng.Intn(2)]
	retTy := c01TakeTypes[rng.Intn(2)] // a narrowing return value as well
	// innermost pipeline: the consumers at their own types
	fmt.Fprintf(&sb, "pipeline IN1(\n    in  ABC_S      w,\n    in  ABC_S[]    ws,\n    in  map<ABC_S> wm,\n    out int        r,\n    out %s[]       back,\n    out map<%s>    backm,\n)\n{\n", retTy, retTy)
	for _, ci := range consumers {
		t := c01TakeTypes[ci]
		fmt.Fprintf(&sb, "    call TAKE_%s as C%d(\n        v  = self.w,\n        vs = self.ws,\n        vm = self.wm,\n    )\n\n", strings.TrimSuffix(t, "_S"), ci)
	}
	fmt.Fprintf(&sb, "    return (\n        r     = C%d.r,\n        back  = self.ws,\n        backm = self.wm,\n    )\n}\n\n", consumers[0])
	for d := 2; d <= depth; d++ {
		fmt.Fprintf(&sb, "pipeline IN%d(\n    in  ABC_S      w,\n    in  ABC_S[]    ws,\n    in  map<ABC_S> wm,\n    out int        r,\n    out %s[]       back,\n    out map<%s>    backm,\n)\n{\n", d, retTy, retTy)
		fmt.Fprintf(&sb, "    call IN%d(\n        w  = self.w,\n        ws = self.ws,\n        wm = self.wm,\n    )\n\n    return (\n        r     = IN%d.r,\n        back  = IN%d.back,\n        backm = IN%d.backm,\n    )\n}\n\n", d-1, d-1, d-1, d-1)
	}
	fmt.Fprintf(&sb, "pipeline TOP(\n    out int      r,\n    out A_S[]    back,\n    out map<A_S> backm,\n    out int      r2,\n)\n{\n")
	sb.WriteString(c01ProducerCall(rng))
	var arr, m []string
	for _, k := range c01MixedKinds(rng) {
		arr = append(arr, c01WideElem(rng, k))
	}
	for i, k := range c01MixedKinds(rng) {
		m = append(m, fmt.Sprintf(`"m%d": %s`, i, c01WideElem(rng, k)))
	}
	fmt.Fprintf(&sb, "    call IN%d(\n        w  = %s,\n        ws = [%s],\n        wm = {%s},\n    )\n\n", depth, c01WideElem(rng, rng.Intn(3)), strings.Join(arr, ", "), strings.Join(m, ", "))
	// a consumer of the narrowed return values at a still narrower type
	fmt.Fprintf(&sb, "    call TAKE_A as LAST(\n        v  = P.w,\n        vs = IN%d.back,\n        vm = IN%d.backm,\n    )\n\n", depth, depth)
	fmt.Fprintf(&sb, "    return (\n        r     = IN%d.r,\n        back  = IN%d.back,\n        backm = IN%d.backm,\n        r2    = LAST.r,\n    )\n}\n\ncall TOP()\n", depth, depth, depth)
	return sb.String()
}

// one producer path, several consumers at different struct types, in the given order
func c01NarrowShareProgram(rng *rand.Rand, order []int, viaPipeline bool) string {
	var sb strings.Builder
	sb.WriteString(c01NarrowDecls)
	// the shared paths: struct, array, projection through an array of structs, typed map
	single := []string{"P.w", "P.h.inner"}[rng.Intn(2)]
	array := []string{"P.ws", "P.hs.inner"}[rng.Intn(2)]
	if viaPipeline {
		sb.WriteString("pipeline INNER(\n    in  AB_S      w,\n    in  AB_S[]    ws,\n    in  map<AB_S> wm,\n    out int       r,\n    out A_S       n,\n)\n{\n")
		sb.WriteString("    call TAKE_A as CI(\n        v  = self.w,\n        vs = self.ws,\n        vm = self.wm,\n    )\n\n    return (\n        r = CI.r,\n        n = self.w,\n    )\n}\n\n")
	}
	sb.WriteString("pipeline TOP(\n    out A_S      o1,\n    out AB_S     o2,\n    out ABC_S[]  o3,\n    out A_S[]    o4,\n    out map<AB_S> o5,\n    out int      r,\n)\n{\n")
	sb.WriteString(c01ProducerCall(rng))
	last := ""
	for _, ci := range order {
		if ci == 3 {
			if !viaPipeline {
				continue
			}
			fmt.Fprintf(&sb, "    call INNER(\n        w  = %s,\n        ws = %s,\n        wm = P.wm,\n    )\n\n", single, array)
			last = "INNER"
			continue
		}
		t := strings.TrimSuffix(c01TakeTypes[ci], "_S")
		fmt.Fprintf(&sb, "    call TAKE_%s as C%d(\n        v  = %s,\n        vs = %s,\n        vm = P.wm,\n    )\n\n", t, ci, single, array)
		last = fmt.Sprintf("C%d", ci)
	}
	fmt.Fprintf(&sb, "    return (\n        o1 = %s,\n        o2 = %s,\n        o3 = %s,\n        o4 = %s,\n        o5 = P.wm,\n        r  = %s.r,\n    )\n}\n\ncall TOP()\n", single, single, array, array, last)
	return sb.String()
}

// nested pipelines, each disabled by a different output of ONE flag stage
func c01DisabledSameStageProgram(depth int, flags []bool, source int) string {
	var sb strings.Builder
	sb.WriteString("stage ECHOALLF(\n    in  bool f1_,\n    in  bool f2_,\n    in  bool f3_,\n    out bool f1,\n    out bool f2,\n    out bool f3,\n    src comp \"fake\",\n)\n\n")
	sb.WriteString("stage WORKS(\n    in  string x,\n    out string y,\n    out int    n,\n    src comp   \"fake\",\n)\n\n")
	sb.WriteString("stage SINK(\n    in  string v,\n    in  string w,\n    in  int    n,\n    out int    r,\n    src comp   \"fake\",\n)\n\n")
	// innermost: a pass-through value and a produced one
	sb.WriteString("pipeline P1(\n    in  string x,\n    out string y,\n    out string z,\n    out int    n,\n)\n{\n    call WORKS(\n        x = self.x,\n    )\n\n    return (\n        y = self.x,\n        z = WORKS.y,\n        n = WORKS.n,\n    )\n}\n\n")
	for d := 2; d <= depth; d++ {
		fmt.Fprintf(&sb, "pipeline P%d(\n    in  string x,\n", d)
		for k := 1; k < d; k++ {
			fmt.Fprintf(&sb, "    in  bool   g%d,\n", k)
		}
		sb.WriteString("    out string y,\n    out string z,\n    out int    n,\n)\n{\n")
		fmt.Fprintf(&sb, "    call P%d(\n        x = self.x,\n", d-1)
		for k := 1; k < d-1; k++ {
			fmt.Fprintf(&sb, "        g%d = self.g%d,\n", k, k)
		}
		fmt.Fprintf(&sb, "    ) using (\n        disabled = self.g%d,\n    )\n\n    return (\n        y = P%d.y,\n        z = P%d.z,\n        n = P%d.n,\n    )\n}\n\n", d-1, d-1, d-1, d-1)
	}
	sb.WriteString("pipeline TOP(\n    in  string s,\n    out string y,\n    out string z,\n    out int    n,\n    out int    r,\n)\n{\n")
	fmt.Fprintf(&sb, "    call ECHOALLF as FLAGS(\n        f1_ = %v,\n        f2_ = %v,\n        f3_ = %v,\n    )\n\n", flags[0], flags[1], flags[2])
	src := `"hello"`
	// the outside stage is always there (it uses the pipeline input `s`)
	sb.WriteString("    call WORKS as OUTSIDE(\n        x = self.s,\n    )\n\n")
	switch source {
	case 1:
		src = "self.s"
	case 2:
		src = "OUTSIDE.y"
	}
	fmt.Fprintf(&sb, "    call P%d(\n        x = %s,\n", depth, src)
	for k := 1; k < depth; k++ {
		fmt.Fprintf(&sb, "        g%d = FLAGS.f%d,\n", k, k)
	}
	fmt.Fprintf(&sb, "    ) using (\n        disabled = FLAGS.f%d,\n    )\n\n", depth)
	fmt.Fprintf(&sb, "    call SINK(\n        v = P%d.y,\n        w = P%d.z,\n        n = P%d.n,\n    )\n\n", depth, depth, depth)
	fmt.Fprintf(&sb, "    return (\n        y = P%d.y,\n        z = P%d.z,\n        n = P%d.n,\n        r = SINK.r,\n    )\n}\n\ncall TOP(\n    s = \"top\",\n)\n", depth, depth, depth)
	return sb.String()
}

func c01NarrowFamilies(rng *rand.Rand, thorough bool) []c01Case {
	var cases []c01Case
	nLit, nShare := 10, 8
	if thorough {
		nLit, nShare = 40, 24
	}
	for i := 0; i < nLit; i++ {
		cases = append(cases, c01Case{name: fmt.Sprintf("family/narrow-lit-%d", i), src: c01NarrowLitProgram(rng, 1+i%2)})
	}
	for i := 0; i < nShare; i++ {
		via := i%2 == 1
		order := rng.Perm(4)
		cases = append(cases, c01Case{name: fmt.Sprintf("family/narrow-share-%d", i), src: c01NarrowShareProgram(rng, order, via)})
		if i < 4 || thorough {
			// the same program with the consumers in the reverse textual order
			rev := make([]int, len(order))
			for k := range order {
				rev[k] = order[len(order)-1-k]
			}
			r2 := rand.New(rand.NewSource(int64(i)*7919 + 13))
			r3 := rand.New(rand.NewSource(int64(i)*7919 + 13))
			cases[len(cases)-1].src = c01NarrowShareProgram(r2, order, via)
			cases = append(cases, c01Case{name: fmt.Sprintf("family/narrow-share-%d-rev", i), src: c01NarrowShareProgram(r3, rev, via)})
		}
	}
	// nested disabled controls from one stage: every flag combination at depth 2, a sample at depth 3
	for mask := 0; mask < 4; mask++ {
		flags := []bool{mask&1 != 0, mask&2 != 0, false}
		cases = append(cases, c01Case{name: fmt.Sprintf("family/disabled-same-stage-2-%d", mask),
			src: c01DisabledSameStageProgram(2, flags, mask%3)})
	}
	n3 := 4
	if thorough {
		n3 = 24
	}
	for i := 0; i < n3; i++ {
		mask := rng.Intn(8)
		if i == 0 {
			mask = 4 // outermost true, inner ones false
		}
		flags := []bool{mask&1 != 0, mask&2 != 0, mask&4 != 0}
		cases = append(cases, c01Case{name: fmt.Sprintf("family/disabled-same-stage-3-%d", mask),
			src: c01DisabledSameStageProgram(3, flags, rng.Intn(3))})
	}
	return cases
}
