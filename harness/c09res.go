package main

// C09, the trailing clauses of a stage declaration: the model
// Martian.FormatRes (fmtGB / readGB, fmtRes / pResources, fmtRetain / pRetain,
// fmtSrc / pSrc) against the real formatter and parser.
//
// formatGB is not exported; it is reached through FormatSrcBytes on
//     stage S(\n    src py "x",\n) using (\n    mem_gb = <text>,\n)\n
// and the printed value is cut out of the result.
//
// (a) formatGB: every mb in [-3072, 3072] (all 1024 fractions, both signs),
//     random mb below 2^24, random float32-exact larger ones, and literal
//     spellings: real printed value == model fmtGB; model readGB == the real
//     Resources.MemGB; and (property monitor C09:resources-changed) the real
//     re-parse of the real output holds the same float32.
// (b) whole stages: `using` blocks in random order with repeats and every
//     subset, `retain`, `src` lines with arguments in every language, with and
//     without parameters (which set typeWidth): the real output == `stage S(`
//     + the real parameter lines + model src line + model clauses, byte for
//     byte; the real AST vs the model's readers; near-miss texts.

import (
	"fmt"
	"math/big"
	"math/rand"
	"strconv"
	"strings"
	"unicode/utf8"

	"github.com/martian-lang/martian/martian/syntax"
)

const c09resHead = "stage S(\n    src py \"x\",\n) using (\n    mem_gb = "
const c09resFoot = ",\n)\n"

// exact decimal text of mb/1024 (at most 10 decimals)
func c09resExactGB(mb *big.Int) string {
	r := new(big.Rat).SetFrac(mb, big.NewInt(1024))
	s := r.FloatString(10)
	if strings.Contains(s, ".") {
		s = strings.TrimRight(s, "0")
		s = strings.TrimSuffix(s, ".")
	}
	return s
}

// gb*1024 as an exact decimal integer (ok=false: not an integer)
func c09resMB(gb float32) (string, bool) {
	f := new(big.Float).SetPrec(200).SetFloat64(float64(gb))
	f.Mul(f, big.NewFloat(1024))
	i, acc := f.Int(nil)
	return i.String(), acc == big.Exact
}

// the `threads` text the model keeps, canonicalised by the REAL conversion (harness/c09.go
// c09RealThreads = the abstract h of the model)
func c09resCanonThreads(raw string) string { return c09RealThreads(raw) }

// canonThreadsEnc rewrites the threads word (index 7) of a Stage0 encoding
func c09resCanonEnc(enc string) string {
	if !strings.HasPrefix(enc, "some ") {
		return enc
	}
	w := strings.Split(strings.TrimPrefix(enc, "some "), " ")
	if len(w) == 11 && strings.HasPrefix(w[7], "s") {
		w[7] = "s" + hx(c09resCanonThreads(unhx(w[7][1:])))
	}
	return "some " + strings.Join(w, " ")
}

// c09resDump parses with the real parser: "none", "other: …" or "some <Stage0 enc>"
// (the parameters of the stage are not part of the encoding; their number is returned)
func c09resDump(text string) (string, int) {
	ast, err, pan := c09Parse([]byte(text), "stage.mro")
	if pan != "" {
		return "panic: " + pan, 0
	}
	if err != nil || ast == nil {
		return "none", 0
	}
	if ast.Call != nil || ast.Callables == nil || len(ast.Callables.List) != 1 || len(ast.UserTypes) > 0 ||
		len(ast.StructTypes) > 0 || len(ast.Includes) > 0 {
		return "other: not one stage", 0
	}
	st, ok := ast.Callables.List[0].(*syntax.Stage)
	if !ok {
		return "other: not a stage", 0
	}
	if st.Split {
		return "other: split", 0
	}
	np := 0
	if st.InParams != nil {
		np += len(st.InParams.List)
	}
	if st.OutParams != nil {
		np += len(st.OutParams.List)
	}
	w := []string{hx(st.Id), string(st.Src.Lang), hx(st.Src.Path), hxList(st.Src.Args)}
	res := []string{"0", ".", ".", ".", ".", "."}
	if r := st.Resources; r != nil {
		res[0] = "1"
		if r.MemNode != nil {
			s, exact := c09resMB(r.MemGB)
			if !exact {
				s = "inexact:" + s
			}
			res[1] = s
		}
		if r.SpecialNode != nil {
			res[2] = "s" + hx(r.Special)
		}
		if r.ThreadNode != nil {
			res[3] = "s" + hx(fmt.Sprintf("%g", r.Threads))
		}
		if r.VMemNode != nil {
			s, exact := c09resMB(r.VMemGB)
			if !exact {
				s = "inexact:" + s
			}
			res[4] = s
		}
		if r.VolatileNode != nil {
			if r.StrictVolatile {
				res[5] = "strict"
			} else {
				res[5] = "false"
			}
		}
	}
	w = append(w, res...)
	if st.Retain == nil {
		w = append(w, "none")
	} else {
		var ids []string
		for _, p := range st.Retain.Params {
			ids = append(ids, p.Id)
		}
		w = append(w, "r"+hxList(ids))
	}
	return "some " + strings.Join(w, " "), np
}

// c09resProperty: the property itself on the real code for one source: the
// output parses, holds the same clauses (float32 bits included) and is a fixed point.
func c09resProperty(c *Ctx, src, origin string) {
	r := c.Res
	d0, _ := c09resDump(src)
	if !strings.HasPrefix(d0, "some ") {
		return
	}
	w0 := strings.Split(d0, " ")
	for _, f := range []int{6, 9} { // F25 (known): a value beyond the int64 range of formatGB
		if m, ok := new(big.Int).SetString(w0[f], 10); ok && m.BitLen() > 62 {
			r.hist("property:huge-resource(F25)")
			return
		}
	}
	strs := []string{unhx(w0[3])}
	if w0[4] != "." {
		for _, a := range strings.Split(w0[4], ",") {
			strs = append(strs, unhx(a))
		}
	}
	if strings.HasPrefix(w0[7], "s") {
		strs = append(strs, unhx(w0[7][1:]))
	}
	for _, s := range strs {
		if !utf8.ValidString(s) { // F6b (known): strings that are not valid UTF-8
			r.hist("property:invalid-utf8(F6b)")
			return
		}
	}
	out, err, pan := c09Format([]byte(src), "stage.mro")
	in := map[string]interface{}{"source": src, "origin": origin}
	const expect = "formatter output parses, is a fixed point and denotes the same stage clauses"
	if pan != "" || err != nil {
		r.violate(Violation{Kind: "property", Key: "C09:stage-clause-format-failed", What: "the formatter fails on a stage the parser accepts",
			Input: in, Impl: fmt.Sprint(pan, err), Expect: expect})
		return
	}
	d1, _ := c09resDump(out)
	if d1 != d0 {
		key := "C09:resources-changed"
		w1 := strings.Split(d1, " ")
		if len(w0) == 12 && len(w1) == 12 {
			onlyThreads, onlyGB := true, true
			for i := range w0 {
				if w0[i] == w1[i] {
					continue
				}
				if i != 8 {
					onlyThreads = false
				}
				if i != 6 && i != 9 {
					onlyGB = false
					continue
				}
				// known finding F29: for |gb| >= 256 the float32 rounding of the printed decimal comes
				// before roundUpTo, and the value read back is one float32/MB step closer to zero
				a, oka := new(big.Int).SetString(w0[i], 10)
				b, okb := new(big.Int).SetString(w1[i], 10)
				if !oka || !okb || a.Sign() != b.Sign() || new(big.Int).Abs(a).Cmp(big.NewInt(262144)) < 0 {
					onlyGB = false
					continue
				}
				step := big.NewInt(1)
				if n := a.BitLen() - 24; n > 0 {
					step.Lsh(step, uint(n))
				}
				d := new(big.Int).Sub(new(big.Int).Abs(a), new(big.Int).Abs(b))
				if d.Sign() <= 0 || d.Cmp(step) > 0 {
					onlyGB = false
				}
			}
			if onlyThreads {
				key = "C09:resources-changed:threads-hundredths"
			} else if onlyGB {
				key = "C09:resources-changed:gb-float32-rounding"
			}
		}
		in["output"] = out
		r.violate(Violation{Kind: "property", Key: key, What: "the stage clauses read from the formatter's output differ from those of the source",
			Input: in, Impl: d1, Expect: d0})
		return
	}
	out2, err2, pan2 := c09Format([]byte(out), "stage.mro")
	if pan2 != "" || err2 != nil || out2 != out {
		in["output"] = out
		r.violate(Violation{Kind: "property", Key: "C09:stage-clause-not-idempotent", What: "formatting the formatter's output changes it",
			Input: in, Impl: out2, Expect: out})
	}
}

var c09resLiterals = []string{
	"0", "-0", "0.0", "-0.0", "00", "007", "1", "1.0", "1.50", "0.0009", "0.0009765625", "0.00097656251", "0.001",
	"1e-5", "1E-5", "1e-50", "1e-46", "7e-46", "1.5e1", "15e-1", "2.5E+2", "0.5000000001", "0.49999999999",
	"0.2138672", "123456.789", "16383.999", "16777215", "16777216", "1e3", "1e+3", "-1e-5", "-0.001", "3.999",
	"3.9999", "0.99999", "0.9999", "0.999", "1e40", "3.4e38", "3.5e38", "1e39", "12345678901234567890",
	"9223372036854775808", "0.1", "0.2", "0.3", "-2.75", "100", "1e0", "00.5", "1.e5", ".5", "5.", "1e", "--1", "+1",
	"1_000", "0x10", "1e-400000000", "1e400000000", "0.000000000000000000000000000000000000000000001",
	"0.00000000000000000000000000000000000000000000001", "2.0000001", "2.00000001", "-0.29999", "1.25", "64", "-64.5",
}

func c09resRandLiteral(c *Ctx) string {
	var b strings.Builder
	if c.Rng.Intn(4) == 0 {
		b.WriteByte('-')
	}
	for k := 1 + c.Rng.Intn(4); k > 0; k-- {
		b.WriteByte(byte('0' + c.Rng.Intn(10)))
	}
	if c.Rng.Intn(4) != 0 {
		b.WriteByte('.')
		for k := 1 + c.Rng.Intn(7); k > 0; k-- {
			b.WriteByte(byte('0' + c.Rng.Intn(10)))
		}
	}
	if c.Rng.Intn(4) == 0 {
		b.WriteString([]string{"e", "E", "e-", "e+"}[c.Rng.Intn(4)])
		b.WriteString(strconv.Itoa(c.Rng.Intn(5)))
	}
	return b.String()
}

func c09resGB(c *Ctx) {
	r := c.Res
	mismatch := func(key, what, broken string, in map[string]interface{}, impl, model string) {
		r.violate(Violation{Kind: "correspondence", Key: key, What: what, Input: in, Impl: impl, Model: model, Broken: broken})
	}
	const brokenFmt = "correspondence C09.fmtgb (Martian.FormatRes.fmtGB vs formatGB)"
	const brokenRead = "correspondence C09.readgb (Martian.FormatRes.readGB vs float_32 + roundUpTo)"

	// ---- values ----
	lim, nrand, nbig := int64(3072), 2000, 300
	if c.Thorough {
		lim, nrand, nbig = 30720, 20000, 3000
	}
	var mbs []*big.Int
	for v := -lim; v <= lim; v++ {
		mbs = append(mbs, big.NewInt(v))
	}
	for i := 0; i < nrand; i++ {
		v := int64(c.Rng.Intn(1 << 24))
		switch c.Rng.Intn(4) {
		case 0:
			v = int64(c.Rng.Intn(1 << 16))
		case 1:
			v = int64(1<<24) - 1 - int64(c.Rng.Intn(4096))
		}
		if c.Rng.Intn(3) == 0 {
			v = -v
		}
		mbs = append(mbs, big.NewInt(v))
	}
	for i := 0; i < nbig; i++ { // float32-exact values beyond 2^24 MB, below 2^63
		m := int64(1<<23 + c.Rng.Intn(1<<23))
		v := new(big.Int).Lsh(big.NewInt(m), uint(1+c.Rng.Intn(38)))
		if c.Rng.Intn(3) == 0 {
			v.Neg(v)
		}
		mbs = append(mbs, v)
	}
	var reqs [][]string
	for _, v := range mbs {
		reqs = append(reqs, []string{"C09.fmtgb", v.String()})
	}
	reps := c.Drv.AskBatch(reqs)
	printed := make([]string, len(mbs))
	reread := make([]string, len(mbs)) // MemGB the real parser reads from the real output, in MB
	var reqs2 [][]string
	for i, v := range mbs {
		text := c09resExactGB(v)
		src := c09resHead + text + c09resFoot
		in := map[string]interface{}{"mb": v.String(), "source": src}
		small := v.BitLen() <= 24
		r.hist(fmt.Sprintf("gb:value:small=%v,whole=%v", small, new(big.Int).Mod(v, big.NewInt(1024)).Sign() == 0))
		r.count("gb:"+v.String(), new(big.Int).Mod(v, big.NewInt(1024)).Sign() != 0)
		d, _ := c09resDump(src)
		w := strings.Split(d, " ")
		if len(w) != 12 || w[6] != v.String() {
			mismatch("C09:readgb-mismatch", "the exact decimal text of mb/1024 does not parse to MemGB = mb/1024", brokenRead, in, d, v.String())
			printed[i] = "?"
			reqs2 = append(reqs2, []string{"C09.readgb", hx("?")}, []string{"C09.readgb32", hx("?")})
			continue
		}
		out, err, pan := c09Format([]byte(src), "stage.mro")
		p := "?"
		if pan == "" && err == nil && strings.HasPrefix(out, c09resHead) && strings.HasSuffix(out, c09resFoot) {
			p = out[len(c09resHead) : len(out)-len(c09resFoot)]
		}
		printed[i] = p
		if p != unhx(reps[i]) {
			mismatch("C09:formatgb-mismatch", "formatGB prints something else than the model's fmtGB", brokenFmt, in, out+fmt.Sprint(err, pan), unhx(reps[i]))
		}
		c09resProperty(c, src, "gb-value")
		if d1, _ := c09resDump(out); strings.HasPrefix(d1, "some ") {
			reread[i] = strings.Split(d1, " ")[6]
		} else {
			reread[i] = d1
		}
		reqs2 = append(reqs2, []string{"C09.readgb", hx(p)}, []string{"C09.readgb32", hx(p)})
	}
	reps2 := c.Drv.AskBatch(reqs2)
	for i, v := range mbs {
		if printed[i] == "?" {
			continue
		}
		in := map[string]interface{}{"mb": v.String(), "printed": printed[i]}
		if reps2[2*i] != "some "+v.String() {
			mismatch("C09:readgb-mismatch", "the model's readGB of the text formatGB printed is not the value (theorem formatGB_roundtrip evaluated)",
				"Props.C09.formatGB_roundtrip", in, "", reps2[2*i])
		}
		// with the float32 rounding of the literal the model must read what the real parser reads,
		// also where that is not the value (F29)
		if reps2[2*i+1] != "some "+reread[i] {
			mismatch("C09:readgb-mismatch", "MemGB the parser reads from the printed value differs from the model's readGB32", brokenRead, in, reread[i], reps2[2*i+1])
		}
		if reread[i] != v.String() {
			r.hist("gb:value:float32-rounding-loses-a-step(F29)")
		}
	}

	// ---- F25: the int64 conversion (known finding; model and code must agree on it) ----
	for _, t := range []string{"9007199254740992", "-9007199254740992", "1e30", "-3e38", "18014398509481984"} {
		src := c09resHead + t + c09resFoot
		ast, err, _ := c09Parse([]byte(src), "stage.mro")
		if err != nil || ast == nil {
			continue
		}
		gb := ast.Callables.List[0].(*syntax.Stage).Resources.MemGB
		x, _ := c09resMB(gb)
		out, _, _ := c09Format([]byte(src), "stage.mro")
		rep := c.Drv.AskBatch([][]string{{"C09.fmtgbgo", x}})
		want := c09resHead + unhx(rep[0]) + c09resFoot
		r.count("gb-overflow:"+t, true)
		if out != want {
			mismatch("C09:formatgb-overflow-mismatch", "formatGB beyond the int64 range (F25) prints something else than the model's fmtGBgo",
				"Props.C09.formatGB_overflow", map[string]interface{}{"source": src, "gb_times_1024": x}, out, want)
		} else {
			r.hist("gb:overflow-replayed")
		}
	}
	r.note("F25 replayed: mem_gb = 9007199254740992 prints as -9007199254740992 (real code == model fmtGBgo)")

	// ---- literal spellings ----
	lits := append([]string{}, c09resLiterals...)
	nl := 600
	if c.Thorough {
		nl = 6000
	}
	for i := 0; i < nl; i++ {
		lits = append(lits, c09resRandLiteral(c))
	}
	var reqs3 [][]string
	for _, t := range lits {
		reqs3 = append(reqs3, []string{"C09.readgb", hx(t)}, []string{"C09.readgb32", hx(t)})
	}
	reps3 := c.Drv.AskBatch(reqs3)
	type litRes struct {
		src, real string
	}
	var todo []litRes
	var reqs4 [][]string
	for i, t := range lits {
		src := c09resHead + t + c09resFoot
		in := map[string]interface{}{"literal": t, "source": src}
		d, _ := c09resDump(src)
		r.count("gb-literal:"+t, true)
		exactRep, f32Rep := reps3[2*i], reps3[2*i+1]
		if !strings.HasPrefix(d, "some ") {
			r.hist("gb:literal:rejected")
			if exactRep != "none" || f32Rep != "none" {
				mismatch("C09:readgb-mismatch", "the parser rejects a mem_gb literal the model reads", brokenRead, in, d, exactRep+" / "+f32Rep)
			}
			continue
		}
		realMB := strings.Split(d, " ")[6]
		if f32Rep != "some "+realMB {
			mismatch("C09:readgb-mismatch", "MemGB read from a literal differs from the model's readGB32 (float32 rounding of the literal, then roundUpTo)",
				brokenRead, in, realMB, f32Rep)
		}
		if exactRep == "some "+realMB {
			r.hist("gb:literal:exact-reading-agrees")
		} else {
			r.hist("gb:literal:float32-rounding-of-the-literal-matters")
		}
		todo = append(todo, litRes{src, realMB})
		reqs4 = append(reqs4, []string{"C09.fmtgbgo", realMB})
	}
	reps4 := c.Drv.AskBatch(reqs4)
	for j, k := range todo {
		out, err, pan := c09Format([]byte(k.src), "stage.mro")
		want := c09resHead + unhx(reps4[j]) + c09resFoot
		if pan != "" || err != nil || out != want {
			mismatch("C09:formatgb-mismatch", "formatGB of the value read from a literal differs from the model", brokenFmt,
				map[string]interface{}{"source": k.src, "mb": k.real}, out+fmt.Sprint(err, pan), want)
		}
		c09resProperty(c, k.src, "gb-literal")
	}
}

// ---- whole stages ----

var c09resPaths = []string{"x", "a/b.py", "/usr/bin/env", "bin/tool", "été.py", "a\"b", "c\\d", "stage.exe", "#x", "a,b"}
var c09resArgs = []string{"-x", "--flag=1", "y", "été", "a,b", "\"q\"", "1", "[]", "src"}
var c09resSpecials = []string{"", "highmem", "a b", "q\"uote", "été", "x\ty", "coffee\\"}
var c09resThreads = []string{"1", "2", "4", "16", "64", "0.5", "0.25", "1.5", "2.75", "1e6", "3e+07", "0", "-1", "100", "007", "1.0", "12.5"}
var c09resTypes = []string{"int", "bool", "float", "string", "int[]", "string[][]", "path"}

type c09resCase struct {
	src string
	tw  int
}

func c09resGenStage(c *Ctx) c09resCase {
	var b strings.Builder
	sp := func() {
		switch c.Rng.Intn(5) {
		case 0:
			b.WriteString("\n")
		case 1:
			b.WriteString("   ")
		case 2:
			b.WriteString("\t")
		default:
			b.WriteString(" ")
		}
	}
	opt := func() {
		if c.Rng.Intn(2) == 0 {
			sp()
		}
	}
	id := "S"
	if c.Rng.Intn(3) == 0 {
		id = c09callId(c, 12)
	}
	b.WriteString("stage")
	sp()
	b.WriteString(id)
	opt()
	b.WriteByte('(')
	tw := 0
	if c.Rng.Intn(10) < 3 {
		for k := 1 + c.Rng.Intn(2); k > 0; k-- {
			t := c09resTypes[c.Rng.Intn(len(c09resTypes))]
			if len(t) > tw {
				tw = len(t)
			}
			opt()
			b.WriteString("in")
			sp()
			b.WriteString(t)
			sp()
			b.WriteString("p" + strconv.Itoa(k))
			opt()
			b.WriteByte(',')
		}
	}
	opt()
	b.WriteString("src")
	sp()
	b.WriteString([]string{"py", "exec", "comp"}[c.Rng.Intn(3)])
	sp()
	var cmd strings.Builder
	ws := func() {
		switch c.Rng.Intn(8) {
		case 0:
			cmd.WriteString("  ")
		case 1:
			cmd.WriteString("\t")
		case 2:
			cmd.WriteString("\u00a0")
		case 3:
			cmd.WriteString(" \u2003 ")
		default:
			cmd.WriteString(" ")
		}
	}
	if c.Rng.Intn(6) == 0 {
		ws()
	}
	cmd.WriteString(c09resPaths[c.Rng.Intn(len(c09resPaths))])
	for k := c.Rng.Intn(4); k > 0 && c.Rng.Intn(3) != 0; k-- {
		ws()
		cmd.WriteString(c09resArgs[c.Rng.Intn(len(c09resArgs))])
	}
	if c.Rng.Intn(6) == 0 {
		ws()
	}
	b.WriteString(c09callQuote(cmd.String()))
	opt()
	b.WriteByte(',')
	opt()
	b.WriteByte(')')
	if c.Rng.Intn(4) != 0 {
		opt()
		b.WriteString("using")
		opt()
		b.WriteByte('(')
		n := c.Rng.Intn(8)
		if c.Rng.Intn(3) == 0 {
			n = c.Rng.Intn(3)
		}
		for k := 0; k < n; k++ {
			opt()
			var key, val string
			switch c.Rng.Intn(5) {
			case 0:
				key = []string{"mem_gb", "memgb"}[c.Rng.Intn(2)]
				val = c09resGBText(c)
			case 1:
				key = []string{"vmem_gb", "vmemgb"}[c.Rng.Intn(2)]
				val = c09resGBText(c)
			case 2:
				key = "threads"
				val = c09resThreads[c.Rng.Intn(len(c09resThreads))]
			case 3:
				key = "special"
				val = c09callQuote(c09resSpecials[c.Rng.Intn(len(c09resSpecials))])
			default:
				key = "volatile"
				val = []string{"strict", "false"}[c.Rng.Intn(2)]
			}
			b.WriteString(key)
			opt()
			b.WriteByte('=')
			opt()
			b.WriteString(val)
			opt()
			b.WriteByte(',')
		}
		opt()
		b.WriteByte(')')
	}
	if c.Rng.Intn(2) == 0 {
		opt()
		b.WriteString("retain")
		opt()
		b.WriteByte('(')
		for k := c.Rng.Intn(4); k > 0; k-- {
			opt()
			b.WriteString(c09callId(c, 10))
			opt()
			b.WriteByte(',')
		}
		opt()
		b.WriteByte(')')
	}
	opt()
	return c09resCase{b.String(), tw}
}

func c09resGBText(c *Ctx) string {
	v := int64(c.Rng.Intn(1 << 16))
	switch c.Rng.Intn(5) {
	case 0:
		v = int64(c.Rng.Intn(64)) * 1024
	case 1:
		v = int64(c.Rng.Intn(1 << 24))
	case 2:
		return []string{"1", "4", "0.5", "1.5", "2.25", "0", "-1", "16", "1e1", "0.001", "0.3", "3.999"}[c.Rng.Intn(12)]
	}
	if c.Rng.Intn(8) == 0 {
		v = -v
	}
	return c09resExactGB(big.NewInt(v))
}

var c09resNearMisses = []string{
	"stage S(src py \"x\",) using (mem_gb = 1e40,)", "stage S(src py \"x\",) using (threads = 1e40,)",
	"stage S(src py \"x\",) using (threads = \"2\",)", "stage S(src py \"x\",) using (volatile = true,)",
	"stage S(src py \"x\",) using (volatile = strict,)", "stage S(src py \"x\",) using (volatile = false,)",
	"stage S(src py \"x\",) using (special = x,)", "stage S(src py \"x\",) using (mem_gb = 1)",
	"stage S(src py \"x\",) using (mem_gb = 1,)", "stage S(src py \"x\",) using (mem_gb = 1,,)",
	"stage S(src py \"x\",) using (mem_gb 1,)", "stage S(src py \"x\",) using (= 1,)",
	"stage S(src py \"\",)", "stage S(src py \"  \",)", "stage S(src py \"\\t\\n\",)", "stage S(src py \"\u00a0\",)",
	"stage S(src py \"x\",) retain (a)", "stage S(src py \"x\",) retain (a,,)", "stage S(src py \"x\",) retain (a,)",
	"stage S(src py \"x\",) retain ()", "stage S(src py \"x\",) using ()", "stage S(src py \"x\",) using () retain ()",
	"stage S(src py \"x\",) retain () using ()", "stage S(src py \"x\",) using () using ()",
	"stage S(src py \"x\",) retain (in,)", "stage S(src py \"x\",) retain (retain, using, split,)",
	"stage S(src py \"x\",) using (retain = 1,)", "stage S(src py \"x\",) using (threads = threads,)",
	"stage S(src py \"x\")", "stage S(src py x,)", "stage S(src \"x\",)", "stage S(src go \"x\",)", "stage S(src comp \"x\",)",
	"stage S(src exec \"x y  z\",)", "stage S(py \"x\",)", "stage S()", "stage (src py \"x\",)", "stage src(src py \"x\",)",
	"stage exec(src exec \"exec\",)", "stage S(src py \"x\",) using", "stage S(src py \"x\",) using (", "stage S(src py \"x\",) using (threads = 1,",
	"stage S(src py \"x\",) using (threads = 1, threads = 2, mem_gb = 3, memgb = 4, vmemgb = 5, vmem_gb = 6,)",
	"stage S(src py \"x\",) using (threads = -1, mem_gb = -0.0, special = \"\", volatile = false, volatile = strict,)",
	"stage S(src py \"x\",) using (threads = 0.001,)", "stage S(src py \"x\",) using (threads = 1e-50,)",
	"stage S(src py \"x\",) using (mem_gb = 1e-50, vmem_gb = 1e-5,)", "stage S(src py \"x\",) using (mem_gb = 9223372036854775808,)",
	"stage S(src py \"x\",) using (mem_gb = 1.,)", "stage S(src py \"x\",) using (mem_gb = .5,)", "stage S(src py \"x\",) using (mem_gb = +1,)",
	"stage S(src py \"x\",) using (special = \"\\xff\",)", "stage S(src py \"a\\u2003b\\u0085c\\u3000d\",)", "stage S(src py \"a\\xe2\\x80b\",)",
	"stage S(src py \"x\",)\nusing(threads=1,)retain(a,)",
	"stage S(src py \"x\",) split ()", "stage S(src py \"x\",) using (threads = 1,) stage T(src py \"y\",)",
}

func c09resStages(c *Ctx) {
	r := c.Res
	mismatch := func(key, what, broken string, in map[string]interface{}, impl, model string) {
		r.violate(Violation{Kind: "correspondence", Key: key, What: what, Input: in, Impl: impl, Model: model, Broken: broken})
	}
	const brokenParse = "correspondence C09.parsestage (Martian.FormatRes.pStage0 vs src_stm/resources/stage_retain)"
	const brokenFmt = "correspondence C09.fmtclauses (Martian.FormatRes.fmtSrc/fmtRes/fmtRetain vs SrcParam.format/Resources.format/RetainParams.format)"
	n := 1500
	if c.Thorough {
		n = 9000
	}
	cases := make([]c09resCase, 0, n+len(c09resNearMisses)+40)
	// every subset of the five entries, in the canonical and in the reverse order
	entries := []string{"mem_gb = 1.5,", "special = \"s\",", "threads = 2,", "vmem_gb = 3,", "volatile = strict,"}
	for m := 0; m < 32; m++ {
		var fw, bw []string
		for i, e := range entries {
			if m&(1<<i) != 0 {
				fw = append(fw, e)
				bw = append([]string{e}, bw...)
			}
		}
		cases = append(cases, c09resCase{"stage S(src py \"x\",) using (" + strings.Join(fw, " ") + ")", 0})
		cases = append(cases, c09resCase{"stage S(src comp \"x\",) using (" + strings.Join(bw, " ") + ") retain (a,)", 0})
	}
	nfixed := len(cases)
	for i := 0; i < n; i++ {
		cases = append(cases, c09resGenStage(c))
	}
	for _, t := range c09resNearMisses {
		cases = append(cases, c09resCase{t, 0})
	}
	var reqs [][]string
	for _, k := range cases {
		reqs = append(reqs, []string{"C09.parsestage", hx(k.src)})
	}
	reps := c.Drv.AskBatch(reqs)

	dumps := make([]string, len(cases))
	nps := make([]int, len(cases))
	var reqs2 [][]string
	var idx2 []int
	for i, k := range cases {
		dumps[i], nps[i] = c09resDump(k.src)
		kind := "generated"
		if i < nfixed {
			kind = "subset"
		} else if i >= nfixed+n {
			kind = "near-miss"
		}
		r.hist(fmt.Sprintf("stage:%s:real=%s,params=%v", kind, strings.SplitN(dumps[i], " ", 2)[0], nps[i] > 0))
		r.count("stage:"+k.src, strings.Contains(k.src, "using") || strings.Contains(k.src, "retain"))
		in := map[string]interface{}{"source": k.src}
		if strings.HasPrefix(dumps[i], "other:") {
			continue
		}
		if strings.HasPrefix(dumps[i], "panic:") {
			r.violate(Violation{Kind: "property", Key: "C09:stage-clause-parser-panic", What: "the parser panics", Input: in, Impl: dumps[i], Expect: "an error or an AST"})
			continue
		}
		if nps[i] == 0 {
			if got := c09resCanonEnc(reps[i]); got != dumps[i] {
				mismatch("C09:stage-clause-parse-mismatch", "Stage.Src / Resources / Retain read by the real parser differ from the model's readers", brokenParse, in, dumps[i], got)
			}
		}
		if strings.HasPrefix(dumps[i], "some ") {
			enc := strings.TrimPrefix(dumps[i], "some ")
			reqs2 = append(reqs2, []string{"C09.fmtclauses", strconv.Itoa(k.tw), enc}, []string{"C09.wfstage", enc}, []string{"C09.fmtstage", enc})
			idx2 = append(idx2, i)
		}
	}
	reps2 := c.Drv.AskBatch(reqs2)
	var reqs3 [][]string
	var idx3 []int
	for j, i := range idx2 {
		k := cases[i]
		enc := strings.TrimPrefix(dumps[i], "some ")
		in := map[string]interface{}{"source": k.src, "stage": enc}
		w := strings.Split(reps2[3*j], " ")
		wf := reps2[3*j+1] == "wf=true"
		r.hist(fmt.Sprintf("stage:wf=%v", wf))
		huge := false
		for _, f := range []int{5, 8} {
			if m, ok := new(big.Int).SetString(strings.Split(enc, " ")[f], 10); ok && m.BitLen() > 62 {
				huge = true
			}
		}
		if len(w) != 2 {
			mismatch("C09:stage-clause-format-mismatch", "the model cannot print the stage the parser read", brokenFmt, in, dumps[i], reps2[3*j])
			continue
		}
		out, err, pan := c09Format([]byte(k.src), "stage.mro")
		id := unhx(strings.Split(enc, " ")[0])
		head := "stage " + id + "(\n"
		srcLine, tail := unhx(w[0]), unhx(w[1])
		ok := pan == "" && err == nil && strings.HasPrefix(out, head)
		if ok {
			at := strings.Index(out, "    src ")
			ok = at >= len(head) && out[at:] == srcLine+tail
			if ok {
				params := out[len(head):at]
				if nps[i] == 0 {
					ok = params == ""
				} else {
					for _, l := range strings.Split(strings.TrimSuffix(params, "\n"), "\n") {
						ok = ok && strings.HasPrefix(l, "    in ")
					}
				}
			}
		}
		if !ok && !huge {
			mismatch("C09:stage-clause-format-mismatch", "the real formatter's output is not `stage S(` + parameter lines + the model's src line and clauses", brokenFmt,
				in, out+fmt.Sprint(err, pan), head+"<params>"+srcLine+tail)
		}
		if huge {
			r.hist("stage:huge-resource(F25)")
			continue
		}
		c09resProperty(c, k.src, "stage")
		if wf && nps[i] == 0 {
			reqs3 = append(reqs3, []string{"C09.parsestage", reps2[3*j+2]})
			idx3 = append(idx3, i)
		} else if !wf {
			r.hist("stage:not-wf")
		}
	}
	reps3 := c.Drv.AskBatch(reqs3)
	for j, i := range idx3 {
		if reps3[j] != dumps[i] {
			mismatch("C09:stage-clause-roundtrip-model", "the model's parseStage0 (fmtStage0 s) is not s for a well-formed stage (theorem parse_format_stage0 evaluated)",
				"Props.C09.parse_format_stage0", map[string]interface{}{"source": cases[i].src}, dumps[i], reps3[j])
		}
	}
}

func c09Res(c0 *Ctx) {
	// a generator of its own (seeded from VERIF_SEED), so that this part does not shift the
	// random stream of the monitors that run after it
	cc := *c0
	cc.Rng = rand.New(rand.NewSource(c0.Seed*1000003 + 0x5e5))
	c := &cc
	c09resGB(c)
	c09resStages(c)
	// F30 (fixed by the roundUpTo repair): roundUpTo(·, 100) was not stable under the float32 rounding of
	// k/100 (threads = 0.065 -> 0.07 -> 0.08; 10.01 -> 10.02 -> 10.03).  Replayed, and checked
	// EXHAUSTIVELY over the hundredths: every k/100, 1 <= k <= 6400 (and the negatives of a sample),
	// written with two decimals reads as the float32 nearest to k/100, and print + read leaves it there.
	c09resProperty(c, "stage S(\n    src py \"x\",\n) using (\n    threads = 0.065,\n)\n", "replay threads-hundredths")
	c09resProperty(c, "stage S(in i x,out y,src comp\"b\",)using(memgb=0,threads=10.01,)", "replay threads 10.01")
	for k := -6400; k <= 6400; k++ {
		if k == 0 || (k < 0 && k%4 != 0) {
			continue
		}
		lit := strconv.FormatFloat(float64(k)/100, 'f', 2, 64)
		src := "stage S(\n    src py \"x\",\n) using (\n    threads = " + lit + ",\n)\n"
		r := c.Res
		r.hist("threads:hundredths")
		r.count("threads:"+lit, true)
		ast, err, pan := c09Parse([]byte(src), "t.mro")
		if pan != "" || err != nil || ast == nil || len(ast.Stages) != 1 || ast.Stages[0].Resources == nil {
			r.violate(Violation{Kind: "property", Key: "C09:threads-hundredths", What: "a stage with a two-decimal threads value is not parsed", Input: src, Impl: fmt.Sprint(err, pan)})
			continue
		}
		t0 := ast.Stages[0].Resources.Threads
		out, _, _ := c09Format([]byte(src), "t.mro")
		ast1, _, _ := c09Parse([]byte(out), "t.mro")
		var t1 float32 = -12345
		if ast1 != nil && len(ast1.Stages) == 1 && ast1.Stages[0].Resources != nil {
			t1 = ast1.Stages[0].Resources.Threads
		}
		if want := float32(float64(k) / 100); t0 != want || t1 != t0 {
			r.violate(Violation{Kind: "property", Key: "C09:threads-hundredths",
				What:  "a threads value with two decimals is changed by reading it, or by formatting and reading it again",
				Input: map[string]interface{}{"source": src, "formatted": out}, Impl: fmt.Sprintf("read %g, after format %g", t0, t1), Expect: fmt.Sprintf("%g both times", want),
				Broken: "C09 monitor: resources are preserved by the formatter (roundUpTo is idempotent on its own output)"})
			break
		}
	}
}
