package main

// C04 / C14, Tier B: real mrp + mrjob + stage processes (this binary in
// -stage mode) with VDR enabled.  The cleanup goroutines run with their real
// timing; the job log records, at the start of every real stage process,
// which pipestance files named in its arguments are absent.

import (
	"bufio"
	"encoding/json"
	"fmt"
	"os"
	"os/exec"
	"path"
	"path/filepath"
	"regexp"
	"sort"
	"strings"
	"syscall"
	"time"

	"github.com/martian-lang/martian/martian/syntax"
)

var reSrcX = regexp.MustCompile(`src\s+comp\s+"x"`)

func vdrTierB(c *Ctx, prop string, cleanSrcs []string) {
	r := c.Res
	nRuns := 2
	if c.Thorough {
		nRuns = 24
	}
	env, err := tbSetup(c)
	if err != nil {
		r.note("tier B not run: %v", err)
		return
	}
	// programs: the corpus program with retain/split/several consumers, and generated
	// ones that the in-process runtime completes (known runtime findings are judged elsewhere)
	var srcs []string
	if b, err := os.ReadFile(path.Join(path.Dir(c.Corpus), "C04", "basic_retain_split.mro")); err == nil {
		srcs = append(srcs, string(b))
	}
	// (quick: the programs the Tier-A stream of this check already completed cleanly;
	// thorough: more candidates are generated and pre-run)
	for _, src := range cleanSrcs {
		if len(srcs) < nRuns {
			srcs = append(srcs, src)
		}
	}
	var cand []*VdrSpec
	for i := 0; i < 3*nRuns && len(srcs) < nRuns; i++ {
		src, _ := GenVdrProgram(c.Rng, "rolling")
		if strings.Contains(src, "path") {
			continue // directory outputs: removed entries cannot be reconstructed from _outs alone
		}
		cand = append(cand, &VdrSpec{Name: fmt.Sprint("tbgen", i), Src: src, Seed: int64(i + 1), VdrMode: "rolling", StepBias: 0.4, TimeoutS: 30})
	}
	for i, res := range RunVdrSpecs(cand, 12) {
		if res.Final == "complete" && len(res.Violations) == 0 && len(srcs) < nRuns {
			srcs = append(srcs, cand[i].Src)
		}
	}
	var specs []*TBSpec
	for i := 0; i < nRuns && len(srcs) > 0; i++ {
		src := srcs[i%len(srcs)]
		s := &TBSpec{Name: fmt.Sprint("vdr-tb", i), Src: reSrcX.ReplaceAllString(src, `src comp "fake"`),
			Cores: 4, MemGB: 8, Vdr: []string{"rolling", "strict", "post"}[i%3], Timeout: 120 * time.Second}
		s.Control.Files = true
		s.Control.SleepMs = [2]int{5, 80}
		if c.Thorough && i%4 == 3 { // interruption between partial and final cleanup
			s.Signals = []TBSignal{{AfterMs: 400 + c.Rng.Intn(1500), Sig: []string{"INT", "KILL"}[c.Rng.Intn(2)]}}
		}
		specs = append(specs, s)
	}
	if prop == "C14" {
		nk, k0 := 1, int(c.Seed%3)
		if c.Thorough {
			nk, k0 = 6, 0
		}
		for i := k0; i < k0+nk; i++ {
			spec, res := vdrTBKillOnReport(env, 1+i, []string{"rolling", "post", "strict"}[i%3], r)
			r.hist("tierB-killwindow-final-" + res.Final)
			if res.Final != "complete" {
				r.note("tier B run %s not judged: %s %s", spec.Name, res.Final, res.Stuck)
				continue
			}
			for _, vv := range vdrTierBAnalyse(spec, res, r) {
				if vv.Prop == prop {
					r.violate(Violation{Kind: "property", Key: vv.Key, What: "[tier B, mrp killed at the write of a fork's kill report, then restarted] " + vv.What,
						Input: map[string]interface{}{"program": spec.Src, "vdrmode": spec.Vdr, "detail": vv.Extra}})
				}
			}
			r.count("tierB-killwindow|"+spec.Name+spec.Vdr, true)
		}
	}
	for i, res := range tbParallel(env, c, specs, 4) {
		r.hist("tierB-final-" + res.Final)
		if res.Final != "complete" {
			out := ""
			if n := len(res.Incs); n > 0 {
				out = res.Incs[n-1].Output
				if len(out) > 600 {
					out = out[len(out)-600:]
				}
			}
			r.note("tier B run %s (%s) not judged: %s %s", specs[i].Name, specs[i].Vdr, res.Final, out)
			continue
		}
		r.hist("tierB-mode-" + specs[i].Vdr)
		nv := 0
		for _, vv := range vdrTierBAnalyse(specs[i], res, r) {
			if vv.Prop != prop {
				continue
			}
			nv++
			r.violate(Violation{Kind: "property", Key: vv.Key, What: "[tier B, real mrp] " + vv.What,
				Input: map[string]interface{}{"program": specs[i].Src, "vdrmode": specs[i].Vdr, "signals": specs[i].Signals, "detail": vv.Extra}})
		}
		r.count("tierB|"+specs[i].Vdr+"|"+specs[i].Src, true)
		if len(r.Samples) < 6 {
			r.sample(map[string]interface{}{"tierB": specs[i].Name, "mode": specs[i].Vdr, "jobs": len(res.Log) / 2, "incarnations": len(res.Incs), "violations": nv})
		}
	}
}

func vdrTierBAnalyse(spec *TBSpec, res *TBResult, r *Result) []VdrViolation {
	var out []VdrViolation
	add := func(prop, key, what string, extra interface{}) {
		ex := ""
		if extra != nil {
			b, _ := json.Marshal(extra)
			ex = string(b)
		}
		out = append(out, VdrViolation{Prop: prop, Kind: "property", Key: key, What: what, Extra: ex})
	}
	psdir := res.PsDir
	_, _, ast, err := syntax.ParseSourceBytes([]byte(spec.Src), "pipeline.mro", nil, false)
	if err != nil {
		return nil
	}
	v := &vdrRun{spec: &VdrSpec{VdrMode: spec.Vdr}, r: &TARun{Ast: ast}, psdir: psdir}
	v.r.Opts.Psid = "ps"
	v.staticInfo()
	volatile, _, retains, unresolved := v.specVolatility()
	// ---- C04: every real stage process found its argument files
	started := map[string]bool{}
	for _, rec := range res.Log {
		if rec.Ev == "start" {
			started[rec.Job] = true
			if len(rec.Missing) > 0 {
				add("C04", "C04:tierB-arg-file-missing",
					fmt.Sprintf("stage process %s started but %v, named in its arguments, did not exist", rec.Job, rec.Missing), nil)
			}
		}
	}
	// ---- C04: final outputs exist with generated content
	for _, p := range pathsInJSON(res.TopOuts, psdir) {
		st, err := os.Stat(p)
		if err != nil {
			add("C04", "C04:tierB-final-output-missing", fmt.Sprintf("top-level output names %s which does not exist after completion", strings.TrimPrefix(p, psdir+"/")), nil)
		} else if !st.IsDir() {
			if b, err := os.ReadFile(p); err != nil || !strings.HasPrefix(string(b), "content of ") {
				add("C04", "C04:tierB-final-output-changed", fmt.Sprintf("top-level output %s has not the content its stage wrote", strings.TrimPrefix(p, psdir+"/")), nil)
			}
		}
	}
	// ---- forks and job directories
	nodeOfFork := func(forkDir string) string {
		return "ID.ps." + strings.ReplaceAll(path.Dir(forkDir), "/", ".")
	}
	jobDirKey := map[string]string{} // un-uniquified job dir -> job key (from the job log)
	for job := range started {
		parts := strings.Split(strings.TrimPrefix(job, "ID.ps."), ".")
		shell := parts[len(parts)-1]
		d := strings.Join(parts[:len(parts)-1], "/")
		if shell != "main" {
			d += "/" + shell
		}
		jobDirKey[d] = job
	}
	readRel := func(rel string) []byte {
		b, _ := os.ReadFile(path.Join(psdir, rel))
		return b
	}
	var forkDirs []string
	for rel, e := range res.Tree {
		if e.Kind == "dir" && strings.HasPrefix(path.Base(rel), "fork") {
			if _, ok := v.stageOfNode[nodeOfFork(rel)]; ok {
				forkDirs = append(forkDirs, rel)
			}
		}
	}
	sort.Strings(forkDirs)
	// retained names per fork
	retainedNames := map[string][]string{}
	for _, fd := range forkDirs {
		for _, rt := range retains {
			if rt.node != nodeOfFork(fd) {
				continue
			}
			var val interface{}
			if json.Unmarshal(readRel(fd+"/_outs"), &val) != nil {
				continue
			}
			sub, _ := json.Marshal(v.specTypedPath(rt.node, val, rt.out))
			for _, p := range pathsInJSON(sub, psdir) {
				retainedNames[fd] = append(retainedNames[fd], strings.TrimPrefix(p, psdir+"/"))
			}
		}
	}
	type tot struct{ count, size uint64 }
	var sumForks tot
	for _, fd := range forkDirs {
		node := nodeOfFork(fd)
		stage := v.stageOfNode[node]
		// ---- C14: temp directories, chunk files, survivors
		written := map[string]string{} // rel -> content, reconstructed
		reconstructed := true
		for rel, e := range res.Tree {
			if !strings.HasPrefix(rel, fd+"/") {
				continue
			}
			base := path.Base(rel)
			parent := path.Base(path.Dir(rel))
			isJob := strings.HasPrefix(parent, "chnk") || strings.HasPrefix(parent, "split") || strings.HasPrefix(parent, "join")
			if e.Kind == "dir" && base == "tmp" && isJob && path.Dir(path.Dir(rel)) == fd {
				add("C14", "C14:tierB-tmp-dir-survives", fmt.Sprintf("per-job temporary directory %s still exists after completion", rel), nil)
			}
			jd, region, ok := stageRegion(rel)
			if ok && region == "files" && path.Dir(jd) == fd && e.Kind == "file" {
				if stage.Split && strings.HasPrefix(path.Base(jd), "chnk") {
					add("C14", "C14:tierB-chunk-file-survives", fmt.Sprintf("chunk-level file %s of splitting stage %s still exists after completion", rel, node), nil)
				} else if volatile[node] && !unresolved {
					named := false
					for _, n := range retainedNames[fd] {
						if vdrOverlap(rel, n) {
							named = true
						}
					}
					if !named {
						add("C14", "C14:tierB-volatile-file-survives",
							fmt.Sprintf("%s was written by volatile stage %s, is not named by a retain declaration nor (it was not moved to outs/) by a top-level output, and still exists after completion", rel, node),
							map[string]interface{}{"retained": retainedNames[fd]})
					}
				}
			}
			// reconstruct what the jobs of this fork wrote: what their _outs name below their
			// files/ directory, and the scratch file of every job that ran
			if e.Kind == "dir" && path.Dir(rel) == fd && strings.Contains(base, "-u") &&
				(strings.HasPrefix(base, "chnk") || strings.HasPrefix(base, "join") || strings.HasPrefix(base, "split")) {
				key, ok := jobDirKey[stripUniq(rel)]
				if !ok {
					reconstructed = false
					continue
				}
				for _, p := range pathsInJSON(readRel(rel+"/_outs"), psdir+"/"+rel+"/files") {
					written[strings.TrimPrefix(p, psdir+"/")] = "content of " + path.Base(p) + " by " + key
				}
				if !strings.HasPrefix(base, "split") {
					shell := "main"
					if strings.HasPrefix(base, "join") {
						shell = "join"
					}
					written[rel+"/files/scratch_"+shell+".tmp"] = "scratch " + key
				}
			}
		}
		// ---- C14: the fork's kill report
		var rep *vdrReport
		repRel := ""
		for _, name := range []string{"_vdrkill", "_vdrkill.partial"} {
			if _, ok := res.Tree[fd+"/"+name]; ok {
				if rr, ok := parseVdrReport(fd+"/"+name, readRel(fd+"/"+name)); ok {
					rep, repRel = rr, fd+"/"+name
				}
				break
			}
		}
		var gone []string
		var goneSize uint64
		for w, content := range written {
			if _, ok := res.Tree[w]; !ok {
				gone = append(gone, w)
				goneSize += uint64(len(content))
			}
		}
		sort.Strings(gone)
		if rep == nil {
			if len(gone) > 0 {
				add("C14", "C14:tierB-removed-without-report", fmt.Sprintf("%s was removed but fork %s has no kill report", gone[0], fd), nil)
			}
			continue
		}
		if path.Base(repRel) == "_vdrkill" {
			sumForks.count += rep.Count
			sumForks.size += rep.Size
		}
		for _, p := range rep.Paths {
			if !strings.HasPrefix(p, psdir+"/") {
				add("C14", "C14:tierB-report-path-outside", fmt.Sprintf("kill report %s lists %s outside the pipestance", repRel, p), nil)
			} else if _, err := os.Lstat(p); err == nil {
				add("C14", "C14:tierB-report-path-exists", fmt.Sprintf("kill report %s lists %s which still exists", repRel, strings.TrimPrefix(p, psdir+"/")), nil)
			}
		}
		if len(spec.Signals) > 0 || !reconstructed {
			r.hist("tierB-report-totals-not-judged")
			continue
		}
		r.hist("tierB-report-judged")
		if rep.Count != uint64(len(gone)) || rep.Size != goneSize {
			add("C14", "C14:tierB-report-totals",
				fmt.Sprintf("kill report %s says count=%d size=%d but %d files with %d bytes written by the fork's jobs are gone", repRel, rep.Count, rep.Size, len(gone), goneSize),
				map[string]interface{}{"gone": gone, "listed": rep.Paths})
		}
	}
	if b := readRel("_vdrkill"); len(b) > 0 {
		if rep, ok := parseVdrReport("_vdrkill", b); ok && len(spec.Signals) == 0 {
			if rep.Count != sumForks.count || rep.Size != sumForks.size {
				add("C14", "C14:tierB-pipestance-report-totals",
					fmt.Sprintf("pipestance kill report says count=%d size=%d, the stage forks' final reports add up to count=%d size=%d", rep.Count, rep.Size, sumForks.count, sumForks.size), nil)
			}
		}
	} else {
		add("C14", "C14:tierB-no-pipestance-report", "no _vdrkill at the pipestance level after completion", nil)
	}
	return out
}

// ---- interruption INSIDE a fork's final kill ----

const vdrKillWindowProgram = `filetype txt;

stage SPLITTER(
    in  int x,
    out txt o,
    src comp "x",
) split (
    in  int c,
    out txt co,
)

stage CONS(
    in  txt o,
    in  int x,
    out int r,
    src comp "x",
)

pipeline TOP(
    in  int x,
    out int r,
)
{
    call SPLITTER(
        x = self.x,
    )
    call CONS(
        o = SPLITTER.o,
        x = self.x,
    )
    return (
        r = CONS.r,
    )
}

call TOP(
    x = %d,
)
`

var reStageX = regexp.MustCompile(`(?s)stage (\w+)\((.*?)src\s+comp\s+"x"`)

// vdrTBKillOnReport runs real mrp on a pipestance whose splitting stage has
// many chunk-level files, SIGKILLs mrp's process group at the instant the
// stage fork's final kill report appears on disk (i.e. inside or right after
// Fork.vdrKill), restarts mrp and lets it complete.
func vdrTBKillOnReport(env *TBEnv, x int, mode string, r *Result) (*TBSpec, *TBResult) {
	dir, _ := os.MkdirTemp(env.Root, "runk")
	psdir := path.Join(dir, "ps")
	wrap := path.Join(dir, "wrap.sh")
	os.WriteFile(wrap, []byte(fmt.Sprintf(`#!/bin/sh
name="$1"; shift
"%s" -stage "$name" "$@"
rc=$?
if [ "$1" = "main" ] && [ "$name" = "SPLITTER" ]; then
  i=0
  while [ $i -lt 400 ]; do echo bulk > "$3/bulk_$i.bin"; i=$((i+1)); done
fi
exit $rc
`, env.Harness)), 0o755)
	src := fmt.Sprintf(vdrKillWindowProgram, x)
	mroText := reStageX.ReplaceAllString(src, `stage ${1}(${2}src comp "`+wrap+` ${1}"`)
	mro := path.Join(dir, "pipeline.mro")
	os.WriteFile(mro, []byte(mroText), 0o644)
	ctlPath := path.Join(dir, "control.json")
	os.WriteFile(ctlPath, []byte(`{"extra_files":true}`), 0o644)
	logPath := path.Join(dir, "jobs.log")
	spec := &TBSpec{Name: fmt.Sprintf("kill-in-vdrKill-x%d", x), Src: reSrcX.ReplaceAllString(src, `src comp "fake"`), Vdr: mode,
		Signals: []TBSignal{{Sig: "KILL"}}}
	res := &TBResult{Name: spec.Name, PsDir: psdir}
	start := func() *exec.Cmd {
		cmd := exec.Command(env.Mrp, mro, "ps", "--disable-ui", "--jobmode=local", "--localcores=4", "--localmem=8",
			"--vdrmode="+mode, "--autoretry=0")
		cmd.Dir = dir
		cmd.Env = append(os.Environ(), "VERIF_TB_MRO="+mro, "VERIF_TB_CTL="+ctlPath, "VERIF_TB_LOG="+logPath,
			"VERIF_TB_PSDIR="+psdir, "MROPATH="+dir, "MRO_DISABLE_SYSTEMD_SCOPE=1")
		cmd.SysProcAttr = &syscall.SysProcAttr{Setpgid: true}
		if f, err := os.OpenFile(path.Join(dir, "mrp.out"), os.O_WRONLY|os.O_CREATE|os.O_APPEND, 0o644); err == nil {
			cmd.Stdout, cmd.Stderr = f, f
		}
		if cmd.Start() != nil {
			return nil
		}
		return cmd
	}
	waitGroup := func(pgid int) {
		for i := 0; i < 200; i++ {
			if syscall.Kill(-pgid, 0) != nil {
				return
			}
			time.Sleep(25 * time.Millisecond)
		}
	}
	// first incarnation: killed when the report of the splitting stage's fork appears
	report := path.Join(psdir, "TOP", "SPLITTER", "fork0", "_vdrkill")
	cmd := start()
	if cmd == nil {
		res.Final = "failed"
		return spec, res
	}
	done := make(chan struct{})
	go func() { cmd.Wait(); close(done) }()
	fired := false
	deadline := time.After(90 * time.Second)
watch:
	for {
		select {
		case <-done:
			break watch
		case <-deadline:
			syscall.Kill(-cmd.Process.Pid, syscall.SIGKILL)
			<-done
			break watch
		default:
		}
		if b, err := os.ReadFile(report); err == nil && len(b) > 0 && json.Valid(b) {
			// the complete report is on disk
			syscall.Kill(-cmd.Process.Pid, syscall.SIGKILL)
			fired = true
			<-done
			break watch
		}
		time.Sleep(50 * time.Microsecond)
	}
	waitGroup(cmd.Process.Pid)
	res.Incs = append(res.Incs, TBIncarnation{Signal: "KILL"})
	if fired {
		r.hist("tierB-killed-at-report-write")
		left := 0
		if ms, _ := filepath.Glob(path.Join(psdir, "TOP", "SPLITTER", "fork0", "chnk*", "files", "*")); ms != nil {
			left = len(ms)
		}
		if left > 0 {
			r.hist("tierB-killed-with-chunk-files-still-present")
		}
	} else {
		r.hist("tierB-kill-trigger-not-reached")
	}
	os.Remove(path.Join(psdir, "_lock"))
	// second incarnation: to completion
	cmd = start()
	if cmd == nil {
		res.Final = "failed"
		return spec, res
	}
	done2 := make(chan error, 1)
	go func() { done2 <- cmd.Wait() }()
	select {
	case <-done2:
	case <-time.After(120 * time.Second):
		syscall.Kill(-cmd.Process.Pid, syscall.SIGKILL)
		<-done2
		res.Final = "timeout"
	}
	waitGroup(cmd.Process.Pid)
	if res.Final == "" {
		if cmd.ProcessState != nil && cmd.ProcessState.ExitCode() == 0 {
			res.Final = "complete"
		} else {
			res.Final = "failed"
		}
	}
	if f, err := os.Open(logPath); err == nil {
		sc := bufio.NewScanner(f)
		sc.Buffer(make([]byte, 1<<20), 1<<24)
		for sc.Scan() {
			var rec tbLogRec
			if json.Unmarshal(sc.Bytes(), &rec) == nil {
				res.Log = append(res.Log, rec)
			}
		}
		f.Close()
	}
	if b, err := os.ReadFile(path.Join(psdir, "TOP", "fork0", "_outs")); err == nil {
		res.TopOuts = compactJSON(b)
	}
	res.Tree = dirTree(psdir)
	if res.Final != "complete" {
		if b, err := os.ReadFile(path.Join(dir, "mrp.out")); err == nil {
			o := string(b)
			if len(o) > 900 {
				o = o[len(o)-900:]
			}
			res.Stuck = o
		}
	}
	return spec, res
}
