package main

// C04 / C14: the directory walk.  Random directory trees are really created
// (files, directories, symbolic links to files and to directories inside and
// outside the tree, links to an ancestor (cycles), dangling links, nested
// links, odd names), the real util.Walk is run on them — with the root a
// directory, a file, a link to a directory, or missing — and what it reports
// (path, lstat kind) is compared with the model's walk
// (lean/Martian/VdrWalk.lean); the model also says whether the tree is
// well-formed (the hypothesis of walkBelow_parentsReal).

import (
	"fmt"
	"math/rand"
	"os"
	"path"
	"sort"
	"strings"

	"github.com/martian-lang/martian/martian/util"
)

type vwNode struct {
	Name     string
	Kind     byte // f d l
	Target   string
	Children []*vwNode
}

var vwNames = []string{"a", "b", "files", "tmp", "x.txt", "sub dir", "données", "l", "d.1", "z\tz", "q\"q"}

func vwGen(rng *rand.Rand, depth int, abs string, outside string) []*vwNode {
	n := rng.Intn(4)
	if depth == 0 {
		n = 1 + rng.Intn(4)
	}
	used := map[string]bool{}
	var out []*vwNode
	for i := 0; i < n; i++ {
		name := vwNames[rng.Intn(len(vwNames))]
		if used[name] {
			continue
		}
		used[name] = true
		nd := &vwNode{Name: name}
		switch k := rng.Intn(10); {
		case k < 4:
			nd.Kind = 'f'
		case k < 7 && depth < 3:
			nd.Kind = 'd'
			nd.Children = vwGen(rng, depth+1, abs+"/"+name, outside)
		default:
			nd.Kind = 'l'
			nd.Target = []string{
				outside,                  // a directory outside the tree
				outside + "/x.txt",       // a file outside
				"..",                     // the parent: a cycle
				abs,                      // the own directory (absolute): a cycle
				"nowhere/at/all",         // dangling
				"a",                      // a sibling, if there is one
				"../" + path.Base(abs),   // round about
				outside + "/../" + path.Base(outside), // unclean absolute
			}[rng.Intn(8)]
		}
		out = append(out, nd)
	}
	return out
}

func vwMaterialise(dir string, nodes []*vwNode) error {
	for _, nd := range nodes {
		p := path.Join(dir, nd.Name)
		switch nd.Kind {
		case 'f':
			if err := os.WriteFile(p, []byte("content of "+nd.Name), 0o644); err != nil {
				return err
			}
		case 'd':
			if err := os.Mkdir(p, 0o755); err != nil {
				return err
			}
			if err := vwMaterialise(p, nd.Children); err != nil {
				return err
			}
		case 'l':
			if err := os.Symlink(nd.Target, p); err != nil {
				return err
			}
		}
	}
	return nil
}

func vwEncode(nodes []*vwNode) string {
	var sb strings.Builder
	for _, nd := range nodes {
		switch nd.Kind {
		case 'f':
			sb.WriteString("F " + hx(nd.Name) + " 1 ")
		case 'l':
			sb.WriteString("L " + hx(nd.Name) + " " + hx(nd.Target) + " ")
		case 'd':
			sb.WriteString("D " + hx(nd.Name) + " " + vwEncode(nd.Children) + " ")
		}
	}
	sb.WriteString("N")
	return sb.String()
}

func vdrWalkChecks(c *Ctx, prop string) {
	r := c.Res
	if c.Drv == nil {
		return
	}
	n := 60
	if c.Thorough {
		n = 1500
	}
	base, err := os.MkdirTemp(c.Scratch, "walk")
	if err != nil {
		return
	}
	outside := path.Join(base, "outside")
	os.MkdirAll(outside, 0o755)
	os.WriteFile(path.Join(outside, "x.txt"), []byte("outside"), 0o644)
	var reqs [][]string
	var expect, what []string
	for i := 0; i < n; i++ {
		root := path.Join(base, fmt.Sprint("t", i))
		nodes := vwGen(c.Rng, 0, root, outside)
		if os.Mkdir(root, 0o755) != nil || vwMaterialise(root, nodes) != nil {
			continue
		}
		type rootCase struct{ p, node string }
		cases := []rootCase{{root, "d " + vwEncode(nodes)}}
		switch c.Rng.Intn(4) {
		case 0: // the root of the walk is a link to the directory
			lnk := root + ".lnk"
			if os.Symlink(root, lnk) == nil {
				cases = append(cases, rootCase{lnk, "l"})
			}
		case 1:
			cases = append(cases, rootCase{root + ".missing", "m"})
		case 2:
			f := root + ".file"
			if os.WriteFile(f, []byte("x"), 0o644) == nil {
				cases = append(cases, rootCase{f, "f"})
			}
		}
		for _, rc := range cases {
			var got []string
			util.Walk(rc.p, func(p string, info os.FileInfo, err error) error {
				if err != nil || info == nil {
					return nil
				}
				k := "f"
				switch {
				case info.Mode()&os.ModeSymlink != 0:
					k = "l"
				case info.IsDir():
					k = "d"
				}
				got = append(got, hx(p)+":"+k)
				return nil
			})
			sort.Strings(got)
			exp := "."
			if len(got) > 0 {
				exp = strings.Join(got, ",")
			}
			reqs = append(reqs, []string{"C04.walk", hx(rc.p), rc.node})
			expect = append(expect, "wf=true "+exp)
			what = append(what, "util.Walk("+rc.p+") root kind "+rc.node[:1])
			r.hist("walk-root-" + rc.node[:1])
			r.count("walk|"+rc.node+"|"+fmt.Sprint(len(got)), len(got) > 3)
		}
	}
	for i, rep := range c.Drv.AskBatch(reqs) {
		if rep != expect[i] {
			r.violate(Violation{Kind: "correspondence", Key: prop + ":model:walk", What: what[i] + ": the entries the real walk reports differ from the model's (or the generated tree is not well-formed)",
				Input: map[string]interface{}{"request": reqs[i]}, Impl: expect[i], Model: rep, Broken: "Vdr.walk"})
		}
	}
	os.RemoveAll(base)
}
