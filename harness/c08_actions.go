package main

// C08, action level: the grammar actions of grammar.y that convert a token
// text (parseInt / parseFloat / tryParseFloat32 / unquote / roundUpTo / the
// src_stm fields / the arr_list dimension counter), driven through the REAL
// generated parser on tiny programs, against the Lean model
// Martian.LexerActions (driver ops C08.act / C08.arr / C08.mapdim / C08.f32u).

import (
	"errors"
	"fmt"
	"path/filepath"
	"strconv"
	"strings"
	"time"

	"github.com/martian-lang/martian/martian/syntax"
)

// one grammar position a token can be put into
type c08ActSite struct {
	name   string // histogram / key name (several positions may share one model site)
	model  string // site name of the driver op C08.act
	class  string // "num" | "str" | "val": which token pool is accepted there
	follow string // the byte that follows the token in the program (for the one-token check)
	// build the tiny program around the token; run it through the real parser and
	// render the value the action produced ("int 5", "str <hex>", "f32 <float32 bits>", …)
	prog func(tok string) string
	run  func(c *Ctx, src []byte) (string, error)
}

const c08ActStageHead = "stage S(\n    in  int x,\n    src py \"s\",\n)"

func c08ActParse(c *Ctx, src []byte) (*syntax.Ast, error) {
	var ps syntax.Parser
	// UncheckedParse: the generated parser and its actions alone, no semantic checks
	return ps.UncheckedParse(src, filepath.Join(c.Scratch, "act.mro"))
}

func c08ActStage(c *Ctx, src []byte) (*syntax.Stage, error) {
	ast, err := c08ActParse(c, src)
	if err != nil {
		return nil, err
	}
	if ast == nil || len(ast.Stages) != 1 {
		return nil, fmt.Errorf("harness: no stage in the tree")
	}
	return ast.Stages[0], nil
}

func c08F32Str(f float32) string { return "f32 " + strconv.FormatFloat(float64(f), 'g', -1, 32) }

func c08ActResource(field string) func(c *Ctx, src []byte) (string, error) {
	return func(c *Ctx, src []byte) (string, error) {
		st, err := c08ActStage(c, src)
		if err != nil {
			return "", err
		}
		if st.Resources == nil {
			return "no-resources", nil
		}
		switch field {
		case "threads":
			return c08F32Str(st.Resources.Threads), nil
		case "mem_gb":
			return c08F32Str(st.Resources.MemGB), nil
		case "vmem_gb":
			return c08F32Str(st.Resources.VMemGB), nil
		}
		return "str " + hx(st.Resources.Special), nil
	}
}

func c08ActValStr(e syntax.Exp) string {
	switch v := e.(type) {
	case *syntax.IntExp:
		return "int " + strconv.FormatInt(v.Value, 10)
	case *syntax.FloatExp:
		return "float"
	case *syntax.StringExp:
		return "str " + hx(v.Value)
	case nil:
		return "nil"
	}
	return fmt.Sprintf("other %T", e)
}

func c08ActSites() []c08ActSite {
	usingProg := func(field string) func(string) string {
		return func(tok string) string {
			return c08ActStageHead + " using (\n    " + field + " = " + tok + ",\n)\n"
		}
	}
	valRun := func(pick func(syntax.ValExp) (string, error)) func(c *Ctx, src []byte) (string, error) {
		return func(c *Ctx, src []byte) (string, error) {
			var ps syntax.Parser
			e, err := ps.ParseValExp(src)
			if err != nil {
				return "", err
			}
			return pick(e)
		}
	}
	mapKeys := func(e syntax.ValExp) (string, error) {
		m, ok := e.(*syntax.MapExp)
		if !ok {
			return fmt.Sprintf("other %T", e), nil
		}
		// the generated key is the one that is not "k0" (or "k0" itself when it unquotes to that)
		key := "k0"
		for k := range m.Value {
			if k != "k0" {
				key = k
			}
		}
		return "str " + hx(key), nil
	}
	inHelp := func(c *Ctx, src []byte) (string, error) {
		st, err := c08ActStage(c, src)
		if err != nil {
			return "", err
		}
		return "str " + hx(st.InParams.List[0].Help), nil
	}
	outField := func(help bool) func(c *Ctx, src []byte) (string, error) {
		return func(c *Ctx, src []byte) (string, error) {
			st, err := c08ActStage(c, src)
			if err != nil {
				return "", err
			}
			if help {
				return "str " + hx(st.OutParams.List[0].Help), nil
			}
			return "str " + hx(st.OutParams.List[0].OutName), nil
		}
	}
	structField := func(help bool) func(c *Ctx, src []byte) (string, error) {
		return func(c *Ctx, src []byte) (string, error) {
			ast, err := c08ActParse(c, src)
			if err != nil {
				return "", err
			}
			if ast == nil || len(ast.StructTypes) != 1 || len(ast.StructTypes[0].Members) != 1 {
				return "no-struct", nil
			}
			if help {
				return "str " + hx(ast.StructTypes[0].Members[0].Help), nil
			}
			return "str " + hx(ast.StructTypes[0].Members[0].OutName), nil
		}
	}
	include := func(i int) func(c *Ctx, src []byte) (string, error) {
		return func(c *Ctx, src []byte) (string, error) {
			ast, err := c08ActParse(c, src)
			if err != nil {
				return "", err
			}
			if ast == nil || len(ast.Includes) <= i {
				return "no-include", nil
			}
			return "str " + hx(ast.Includes[i].Value), nil
		}
	}
	return []c08ActSite{
		{name: "threads", model: "threads", class: "num", follow: ",", prog: usingProg("threads"), run: c08ActResource("threads")},
		{name: "mem_gb", model: "mem_gb", class: "num", follow: ",", prog: usingProg("mem_gb"), run: c08ActResource("mem_gb")},
		{name: "vmem_gb", model: "vmem_gb", class: "num", follow: ",", prog: usingProg("vmem_gb"), run: c08ActResource("vmem_gb")},
		{name: "special", model: "special", class: "str", follow: ",", prog: usingProg("special"), run: c08ActResource("special")},
		{name: "help:in", model: "help", class: "str", follow: ",",
			prog: func(t string) string { return "stage S(\n    in  int x " + t + ",\n    src py \"s\",\n)\n" }, run: inHelp},
		{name: "help:out", model: "help", class: "str", follow: ",",
			prog: func(t string) string { return "stage S(\n    out int " + t + ",\n    src py \"s\",\n)\n" }, run: outField(true)},
		{name: "help:out+outname", model: "help", class: "str", follow: " ",
			prog: func(t string) string { return "stage S(\n    out int " + t + " \"o\",\n    src py \"s\",\n)\n" }, run: outField(true)},
		{name: "outname:out", model: "outname", class: "str", follow: ",",
			prog: func(t string) string { return "stage S(\n    out int \"h\" " + t + ",\n    src py \"s\",\n)\n" }, run: outField(false)},
		{name: "help:struct", model: "help", class: "str", follow: ",",
			prog: func(t string) string { return "struct T(\n    int y " + t + ",\n)\n" }, run: structField(true)},
		{name: "outname:struct", model: "outname", class: "str", follow: ",",
			prog: func(t string) string { return "struct T(\n    int y \"h\" " + t + ",\n)\n" }, run: structField(false)},
		{name: "include:first", model: "include", class: "str", follow: "\n",
			prog: func(t string) string { return "@include " + t + "\n\n" + c08ActStageHead + "\n" }, run: include(0)},
		{name: "include:next", model: "include", class: "str", follow: "\n",
			prog: func(t string) string { return "@include \"a.mro\"\n@include " + t + "\n\n" + c08ActStageHead + "\n" }, run: include(1)},
		{name: "src", model: "src", class: "str", follow: ",",
			prog: func(t string) string { return "stage S(\n    in  int x,\n    src comp " + t + ",\n)\n" },
			run: func(c *Ctx, src []byte) (string, error) {
				st, err := c08ActStage(c, src)
				if err != nil {
					return "", err
				}
				if st.Src == nil {
					return "no-src", nil
				}
				return "src " + hx(st.Src.Path) + " " + hxList(st.Src.Args), nil
			}},
		{name: "mapkey:first", model: "mapkey", class: "str", follow: ":",
			prog: func(t string) string { return "{" + t + ": 1}" }, run: valRun(mapKeys)},
		{name: "mapkey:next", model: "mapkey", class: "str", follow: ":",
			prog: func(t string) string { return "{\"k0\": 1, " + t + ": 2}" }, run: valRun(mapKeys)},
		{name: "valexp:top", model: "valexp", class: "val", follow: "",
			prog: func(t string) string { return t },
			run:  valRun(func(e syntax.ValExp) (string, error) { return c08ActValStr(e), nil })},
		{name: "valexp:array", model: "valexp", class: "val", follow: ",",
			prog: func(t string) string { return "[null, " + t + ",]" },
			run: valRun(func(e syntax.ValExp) (string, error) {
				a, ok := e.(*syntax.ArrayExp)
				if !ok || len(a.Value) != 2 {
					return fmt.Sprintf("other %T", e), nil
				}
				return c08ActValStr(a.Value[1]), nil
			})},
		{name: "valexp:mapvalue", model: "valexp", class: "val", follow: "}",
			prog: func(t string) string { return "{\"a\": " + t + "}" },
			run: valRun(func(e syntax.ValExp) (string, error) {
				m, ok := e.(*syntax.MapExp)
				if !ok || len(m.Value) != 1 {
					return fmt.Sprintf("other %T", e), nil
				}
				return c08ActValStr(m.Value["a"]), nil
			})},
		{name: "valexp:binding", model: "valexp", class: "val", follow: ",",
			prog: func(t string) string { return "call S(\n    x = " + t + ",\n)\n" },
			run: func(c *Ctx, src []byte) (string, error) {
				ast, err := c08ActParse(c, src)
				if err != nil {
					return "", err
				}
				if ast == nil || ast.Call == nil || ast.Call.Bindings == nil || len(ast.Call.Bindings.List) != 1 {
					return "no-call", nil
				}
				return c08ActValStr(ast.Call.Bindings.List[0].Exp), nil
			}},
		// the type assertion `$4.(MapCallSource)` of split_bind_stm (array and map form)
		{name: "split-assert:array", model: "valexp", class: "val", follow: ",",
			prog: func(t string) string { return "map call S(\n    x = split [" + t + ", null],\n)\n" },
			run: func(c *Ctx, src []byte) (string, error) {
				ast, err := c08ActParse(c, src)
				if err != nil {
					return "", err
				}
				if ast == nil || ast.Call == nil || len(ast.Call.Bindings.List) != 1 {
					return "no-call", nil
				}
				sp, ok := ast.Call.Bindings.List[0].Exp.(*syntax.SplitExp)
				if !ok || sp.Source == nil {
					return "no-split-source", nil
				}
				a, ok := sp.Value.(*syntax.ArrayExp)
				if !ok || len(a.Value) != 2 {
					return fmt.Sprintf("other %T", sp.Value), nil
				}
				return c08ActValStr(a.Value[0]), nil
			}},
		{name: "split-assert:map", model: "valexp", class: "val", follow: ",",
			prog: func(t string) string { return "map call S(\n    x = split {\"a\": " + t + ", \"b\": null},\n)\n" },
			run: func(c *Ctx, src []byte) (string, error) {
				ast, err := c08ActParse(c, src)
				if err != nil {
					return "", err
				}
				if ast == nil || ast.Call == nil || len(ast.Call.Bindings.List) != 1 {
					return "no-call", nil
				}
				sp, ok := ast.Call.Bindings.List[0].Exp.(*syntax.SplitExp)
				if !ok || sp.Source == nil {
					return "no-split-source", nil
				}
				m, ok := sp.Value.(*syntax.MapExp)
				if !ok {
					return fmt.Sprintf("other %T", sp.Value), nil
				}
				return c08ActValStr(m.Value["a"]), nil
			}},
	}
}

// the token kind ("NUM_INT", "NUM_FLOAT", "LITSTRING") when tok+follow is lexed
// as exactly the one token tok; otherwise "" and the reason
func c08ActKind(tok, follow string) (kind, why string) {
	id, v, pn := c08NextTokenGuarded([]byte(tok + follow))
	if pn != "" {
		return "", "tokenizer-panic"
	}
	if len(v) != len(tok) || len(tok) == 0 {
		return "", "not-one-token"
	}
	switch n := syntax.VerifTokenName(id); n {
	case "NUM_INT", "NUM_FLOAT", "LITSTRING":
		return n, ""
	default:
		return "", "kind:" + n
	}
}

// compare the value the model gives with the value observed; "f32 ?" = not modelled
func c08ActSameValue(model, impl string) bool {
	if model == impl {
		return true
	}
	mf, gf := strings.Fields(model), strings.Fields(impl)
	if len(mf) == 3 && len(gf) == 3 && mf[0] == "ok" && gf[0] == "ok" && mf[1] == "f32" && gf[1] == "f32" {
		if mf[2] == "?" {
			return true
		}
		i, err1 := strconv.ParseInt(mf[2], 10, 64)
		g, err2 := strconv.ParseFloat(gf[2], 32)
		return err1 == nil && err2 == nil && float32(i) == float32(g)
	}
	return false
}

type c08ActCase struct {
	site  *c08ActSite
	tok   string
	kind  string
	prog  string
	class string // ok / error / error-unlocated / panic / hang
	impl  string // "ok <value>" | "error" | …
	msg   string
}

func c08ActRun(c *Ctx, site *c08ActSite, tok, kind string) c08ActCase {
	cs := c08ActCase{site: site, tok: tok, kind: kind, prog: site.prog(tok)}
	res := c08GuardRendered(3*time.Second, func() (string, error) { return site.run(c, []byte(cs.prog)) })
	switch {
	case res.Panic != "":
		cs.class, cs.impl, cs.msg = "panic", "panic", res.Panic
	case res.TimedOut:
		cs.class, cs.impl = "hang", "hang"
	case res.Err != nil:
		cs.msg = res.Err.Error()
		if c08LocRe.MatchString(cs.msg) {
			cs.class, cs.impl = "error", "error"
		} else {
			cs.class, cs.impl = "error-unlocated", "error"
		}
	default:
		cs.class, cs.impl = "ok", "ok "+res.Out
	}
	return cs
}

func c08Actions(c *Ctx) {
	r := c.Res
	t0 := time.Now()
	n := 1500
	if c.Thorough {
		n *= 30
	}
	sites := c08ActSites()

	// ---- token pools: catalogues first, then generated ----
	var nums, strs []string
	nums = append(nums, c08Numerals...)
	nums = append(nums, c08BigBoundary...)
	for _, b := range c08BigBoundary {
		nums = append(nums, "-"+b)
	}
	// around the float32 / float64 overflow thresholds and the exactly-representable integers
	nums = append(nums, "16777216", "16777217", "-16777216", "16777216.0", "1e7", "1.6777216e7", "33554432", "4.0", "0.5", "1.5",
		"0.001", "0.0001", "1e-3", "100", "1024", "3.4028234e38", "3.4028235e38", "3.4028236e38", "3.5e38", "-3.5e38", "1e38", "1e39", "-1e39",
		"340282346638528859811704183484516925440", "340282356779733661637539395458142568447", "340282356779733661637539395458142568448",
		"9223372036854775807", "-9223372036854775808", "1e-46", "1e-400", "0e999", "0.0e400")
	strs = append(strs, c08Strings...)
	for i := 0; i < n; i++ {
		if c.Rng.Intn(3) == 0 {
			nums = append(nums, c08GenLongNum(c))
		} else {
			nums = append(nums, c08GenNum(c))
		}
		// up to three draws for a candidate that starts with a string token (about half of the
		// generated literals contain an escape the rule rejects)
		st := c08GenStr(c)
		for k := 0; k < 2; k++ {
			if id, v, pn := c08NextTokenGuarded([]byte(st)); pn == "" && len(v) > 0 && syntax.VerifTokenName(id) == "LITSTRING" {
				break
			}
			st = c08GenStr(c)
		}
		strs = append(strs, st)
	}
	// exponent sweep across the float32 boundary (random mantissa, exponent 30..45 and 300..310)
	for i := 0; i < n/10; i++ {
		e := 30 + c.Rng.Intn(16)
		if c.Rng.Intn(4) == 0 {
			e = 300 + c.Rng.Intn(11)
		}
		nums = append(nums, fmt.Sprintf("%s%d.%de%d", []string{"", "-"}[c.Rng.Intn(2)], 1+c.Rng.Intn(9), c.Rng.Intn(1000), e))
	}

	// a candidate that starts with a convertible token followed by other text is cut down to
	// that token (the candidates that do not are kept: they are counted as skipped)
	cut := func(pool []string) {
		for i, t := range pool {
			id, v, pn := c08NextTokenGuarded([]byte(t))
			if pn != "" || len(v) == 0 || len(v) == len(t) {
				continue
			}
			switch syntax.VerifTokenName(id) {
			case "NUM_INT", "NUM_FLOAT", "LITSTRING":
				pool[i] = string(v)
			}
		}
	}
	cut(nums)
	cut(strs)

	// ---- run: every token at sites of its class; a smaller stream at sites of the WRONG class
	// (the model says: located syntax error) ----
	var cases []c08ActCase
	var reqs [][]string
	add := func(site *c08ActSite, tok string) {
		kind, why := c08ActKind(tok, site.follow)
		if kind == "" {
			r.hist("action:skip:" + why)
			return
		}
		if site.model == "src" {
			// strings.Fields / TrimSpace know the non-ASCII Unicode spaces, the model is ASCII only
			unq := c08Try(func() string { return syntax.VerifUnquote([]byte(tok)) })
			for i := 0; i < len(unq); i++ {
				if unq[i] >= 0x80 {
					r.hist("action:skip:src-non-ascii")
					return
				}
			}
		}
		cases = append(cases, c08ActRun(c, site, tok, kind))
		reqs = append(reqs, []string{"C08.act", site.model, kind, hx(tok)})
	}
	for i := range sites {
		s := &sites[i]
		// sites that share a model site with others get a share of the pool
		take := func(pool []string, share int) {
			for j, t := range pool {
				if j < 200 || c.Rng.Intn(share) == 0 {
					add(s, t)
				}
			}
		}
		switch s.class {
		case "num":
			take(nums, 1)
			for j := 0; j < n/10; j++ {
				add(s, strs[c.Rng.Intn(len(strs))])
			}
		case "str":
			take(strs, 2)
			for j := 0; j < n/20; j++ {
				add(s, nums[c.Rng.Intn(len(nums))])
			}
		case "val":
			take(nums, 4)
			take(strs, 4)
		}
	}

	// ---- float_32 alone, through the hook (value and class) ----
	f32site := &c08ActSite{name: "float32", model: "float32"}
	for _, t := range nums {
		kind, why := c08ActKind(t, ",")
		if kind == "" {
			r.hist("action:skip:" + why)
			continue
		}
		cs := c08ActCase{site: f32site, tok: t, kind: kind, prog: t}
		res := c08GuardRendered(3*time.Second, func() (string, error) {
			if kind == "NUM_INT" {
				return c08F32Str(syntax.VerifFloat32OfInt([]byte(t))), nil
			}
			v, ok := syntax.VerifTryParseFloat32([]byte(t))
			if !ok {
				return "", fmt.Errorf("act.mro:1: value out of range for a 32-bit float")
			}
			return c08F32Str(v), nil
		})
		switch {
		case res.Panic != "":
			cs.class, cs.impl, cs.msg = "panic", "panic", res.Panic
		case res.Err != nil:
			cs.class, cs.impl = "error", "error"
		default:
			cs.class, cs.impl = "ok", "ok "+res.Out
			// roundUpTo on the value: the model says it is the identity on modelled values
			if v, err := strconv.ParseFloat(strings.Fields(res.Out)[1], 32); err == nil {
				f := float32(v)
				if f == float32(int32(f)) && f <= 1<<24 && f >= -(1<<24) {
					for _, g := range []float64{100, 1024} {
						if got := syntax.VerifRoundUpTo(f, g); got != f {
							r.violate(Violation{Kind: "correspondence", Key: "C08:action-mismatch:roundUpTo",
								What:  "roundUpTo is not the identity on an integer of magnitude ≤ 2^24",
								Input: fmt.Sprintf("roundUpTo(%v, %v)", f, g), Impl: fmt.Sprint(got), Model: fmt.Sprint(f),
								Broken: "correspondence C08.act (Martian.LexerActions.roundUpTo; Props.C08.actions_total)"})
						}
					}
				}
			}
		}
		cases = append(cases, cs)
		reqs = append(reqs, []string{"C08.act", "float32", kind, hx(t)})
	}

	reps := c.Drv.AskBatch(reqs)
	nonTrivial := 0
	for i, cs := range cases {
		site := cs.site.name
		r.count("act:"+site+":"+cs.tok, true)
		r.hist("action:" + site + ":" + cs.class)
		nonTrivial++
		model := reps[i]
		switch cs.class {
		case "panic", "hang":
			r.violate(Violation{Kind: "property", Key: "C08:panic:action:" + site,
				What:  "the real parser " + cs.class + "s in the grammar action at site " + site + " on a " + cs.kind + " token: " + cs.msg,
				Input: cs.prog, Impl: cs.class, Model: model, Expect: "a tree or a located error"})
			continue
		case "error-unlocated":
			r.violate(Violation{Kind: "property", Key: "C08:unlocated-error:action:" + site,
				What:  "the grammar action at site " + site + " reports an error without a source position: " + cs.msg,
				Input: cs.prog, Impl: cs.msg, Model: model, Expect: "a located error"})
			continue
		}
		if !c08ActSameValue(model, cs.impl) {
			r.violate(Violation{Kind: "correspondence", Key: "C08:action-mismatch:" + site,
				What:  "grammar action at site " + site + " on the " + cs.kind + " token " + strconv.Quote(cs.tok) + " differs from the Lean model (C08.act " + cs.site.model + ")",
				Input: cs.prog, Impl: cs.impl, Model: model,
				Broken: "correspondence C08.act (Martian.LexerActions.act; Props.C08.actions_total)"})
		}
	}

	c08ArrList(c)
	c08ActWitnesses(c)
	r.note("action phase: %d cases at %d grammar positions (+ float_32 through the hook), %.1fs", nonTrivial, len(sites), time.Since(t0).Seconds())
}

// arr_list: the int16 dimension counter and its guard, `MapDim: 1 + $4`
func c08ArrList(c *Ctx) {
	r := c.Res
	if m := syntax.VerifMaxArrayDim(); m != 32767 {
		r.violate(Violation{Kind: "correspondence", Key: "C08:action-mismatch:arr_list",
			What:  "TypeId.ArrayDim is not an int16 any more: the model of the arr_list counter does not apply",
			Input: "VerifMaxArrayDim()", Impl: strconv.Itoa(m), Model: "32767",
			Broken: "correspondence C08.arr (Martian.LexerActions.arrList; Props.C08.arr_list_total)"})
		return
	}
	dims := []int{0, 1, 2, 3, 100, 1000, 32765, 32766, 32767, 32768, 32769, 32770, 40000, 65535, 65536, 65537, 70000}
	extra := 6
	if c.Thorough {
		extra = 60
	}
	for i := 0; i < extra; i++ {
		switch c.Rng.Intn(3) {
		case 0:
			dims = append(dims, c.Rng.Intn(40))
		case 1:
			dims = append(dims, 32760+c.Rng.Intn(16))
		default:
			dims = append(dims, c.Rng.Intn(140000))
		}
	}
	type arrCase struct {
		form         string
		inner, outer int
		prog, short  string
	}
	var cs []arrCase
	for _, d := range dims {
		sep := []string{"[]", "[ ]", "[\n]"}[c.Rng.Intn(3)]
		cs = append(cs, arrCase{"plain", 0, d,
			"stage S(\n    in  int" + strings.Repeat(sep, d) + " x,\n    src py \"s\",\n)\n",
			fmt.Sprintf("stage S(in int + %d x %q + x, src py \"s\",)", d, sep)})
	}
	for _, d := range []int{0, 1, 5, 32766, 32767, 32768} {
		for _, o := range []int{0, 2, 32767, 32768} {
			cs = append(cs, arrCase{"map", d, o,
				"stage S(\n    in  map<int" + strings.Repeat("[]", d) + ">" + strings.Repeat("[]", o) + " x,\n    src py \"s\",\n)\n",
				fmt.Sprintf("stage S(in map<int + %d x \"[]\" + > + %d x \"[]\" + x, src py \"s\",)", d, o)})
		}
	}
	var reqs [][]string
	for _, a := range cs {
		reqs = append(reqs, []string{"C08.arr", strconv.Itoa(a.outer)}, []string{"C08.arr", strconv.Itoa(a.inner)},
			[]string{"C08.mapdim", strconv.Itoa(a.inner)})
	}
	reps := c.Drv.AskBatch(reqs)
	for i, a := range cs {
		mOuter, mInner, mMap := reps[3*i], reps[3*i+1], reps[3*i+2]
		model := ""
		switch {
		case a.form == "plain":
			model = mOuter
			if strings.HasPrefix(mOuter, "ok ") {
				model += " 0"
			}
		case mInner == "error" || mOuter == "error" || mMap == "error":
			model = "error"
		case mInner == "panic" || mOuter == "panic" || mMap == "panic":
			model = "panic"
		default:
			model = mOuter + " " + strings.TrimPrefix(mMap, "ok ")
		}
		prog := a.prog
		res := c08GuardRendered(5*time.Second, func() (string, error) {
			st, err := c08ActStage(c, []byte(prog))
			if err != nil {
				return "", err
			}
			t := st.InParams.List[0].Tname
			return fmt.Sprintf("ok %d %d", t.ArrayDim, t.MapDim), nil
		})
		impl, class := res.Out, "ok"
		switch {
		case res.Panic != "":
			impl, class = "panic", "panic"
		case res.TimedOut:
			impl, class = "hang", "hang"
		case res.Err != nil:
			impl, class = "error", "error"
			if !c08LocRe.MatchString(res.Err.Error()) {
				class = "error-unlocated"
			}
		}
		r.count(fmt.Sprintf("act:arr_list:%s:%d:%d", a.form, a.inner, a.outer), true)
		r.hist("action:arr_list:" + class)
		switch class {
		case "panic", "hang":
			r.violate(Violation{Kind: "property", Key: "C08:panic:action:arr_list",
				What:  "the real parser " + class + "s on a type with many array dimensions: " + res.Panic,
				Input: a.short, Impl: class, Model: model, Expect: "a tree or a located error"})
			continue
		case "error-unlocated":
			r.violate(Violation{Kind: "property", Key: "C08:unlocated-error:action:arr_list",
				What:  "the arr_list action reports an error without a source position: " + res.Err.Error(),
				Input: a.short, Impl: res.Err.Error(), Model: model, Expect: "a located error"})
			continue
		}
		if impl != model {
			r.violate(Violation{Kind: "correspondence", Key: "C08:action-mismatch:arr_list",
				What:  "dimension counter of arr_list / MapDim differs from the Lean model (C08.arr, C08.mapdim)",
				Input: a.short, Impl: impl, Model: model,
				Broken: "correspondence C08.arr (Martian.LexerActions.arrList, mapDim; Props.C08.arr_list_total)"})
		}
		if class == "ok" && strings.HasSuffix(impl, " -32768") {
			// Props.C08.map_dim_wraps is about the action before its repair: the real code must not wrap any more
			r.violate(Violation{Kind: "property", Key: "C08:mapdim-wrapped",
				What:  "the map dimension of a map type wrapped around (int16): the type is then treated as its element type",
				Input: a.short, Impl: impl, Expect: "a located error (too many array dimensions)", Broken: "Props.C08.map_dim_total"})
		}
	}
}

// replay of the model's negative witnesses against the real converters
func c08ActWitnesses(c *Ctx) {
	r := c.Res
	// float32_unchecked_panics: 1e39 is a NUM_FLOAT on which parseFloat32 panics, the action reports an error
	kind, _ := c08ActKind("1e39", ",")
	direct := c08Try(func() string { syntax.VerifParseFloat32([]byte("1e39")); return "ok" })
	_, ok := syntax.VerifTryParseFloat32([]byte("1e39"))
	reps := c.Drv.AskBatch([][]string{{"C08.f32u", hx("1e39")}, {"C08.act", "float32", "NUM_FLOAT", hx("1e39")},
		{"C08.arr0", "32768"}, {"C08.arr", "32768"}})
	impl := fmt.Sprintf("%s %s %v", kind, direct, ok)
	model := "NUM_FLOAT " + reps[0] + " " + strconv.FormatBool(reps[1] != "error")
	r.count("act:witness:f32", true)
	if impl != "NUM_FLOAT panic false" || model != impl {
		r.violate(Violation{Kind: "correspondence", Key: "C08:action-mismatch:witness-float32",
			What:  "negative witness float32_unchecked_panics does not replay (token kind, parseFloat32 directly, tryParseFloat32 ok)",
			Input: "1e39", Impl: impl, Model: model, Broken: "Props.C08.float32_unchecked_panics"})
	}
	// arrListUnguarded_wraps: int16(32767)+1
	d := int16(32767)
	d++
	r.count("act:witness:arr", true)
	if reps[2] != fmt.Sprintf("ok %d", d) || reps[3] != "error" {
		r.violate(Violation{Kind: "correspondence", Key: "C08:action-mismatch:witness-arr",
			What:  "negative witness arrListUnguarded_wraps does not replay",
			Input: "32768 pairs", Impl: fmt.Sprintf("ok %d", d), Model: reps[2] + " / " + reps[3], Broken: "Props.C08.arr_list_unguarded_wraps"})
	}
	// map_dim_wraps: the unguarded 1 + int16(32767); the guarded action is an error there (the real
	// code is compared with the guarded model in c08ArrList)
	md := c.Drv.AskBatch([][]string{{"C08.mapdim0", "32767"}, {"C08.mapdim", "32767"}, {"C08.mapdim", "32766"}})
	r.count("act:witness:mapdim", true)
	if md[0] != fmt.Sprintf("%d", d) || md[1] != "error" || md[2] != "ok 32767" {
		r.violate(Violation{Kind: "correspondence", Key: "C08:action-mismatch:witness-mapdim",
			What:  "negative witness map_dim_wraps (unguarded) / map_dim_total (guarded) does not replay on the model",
			Input: "32767 inner dimensions", Impl: fmt.Sprintf("%d / error / ok 32767", d), Model: strings.Join(md, " / "), Broken: "Props.C08.map_dim_wraps"})
	}
}

// c08GuardRendered: like c08Guard, and a returned error is rendered (Error()) inside the guarded
// goroutine too - rendering a syntax error runs code under test (mmLexError.writeTo), a panic there
// is a panic of the parser's error path, not of the harness.
func c08GuardRendered(limit time.Duration, f func() (string, error)) c08Res {
	return c08Guard(limit, func() (string, error) {
		out, err := f()
		if err != nil {
			err = errors.New(err.Error())
		}
		return out, err
	})
}
