package main

// C13, the naming function: StructMember.GetOutFilename on (id, type) pairs
// where the id is a RUN-TIME KEY of a typed map (or an array element name), not
// only a declared identifier.  The real function is called exactly as
// moveOutDir / moveOutArrayDir call it (a synthesised member of the element
// type) and compared with the model's outFilename; independently of the model,
// distinct keys of one map must get distinct names (Props.C13.map_entry_names_injective).

import (
	"fmt"
	"strings"

	"github.com/martian-lang/martian/martian/syntax"
)

const c13NamesMro = `filetype txt;
filetype bam;
filetype tar.gz;
filetype json;

struct S1(
    txt f,
    int n,
)

stage MK(
    in  int           x,
    out map<txt>      m_txt,
    out map<bam>      m_bam,
    out map<tar.gz>   m_tgz,
    out map<json>     m_json,
    out map<file>     m_file,
    out map<path>     m_path,
    out map<S1>       m_struct,
    out map<txt[]>    m_arr,
    out map<json[][]> m_arr2,
    src comp          "x",
)
`

func c13NamesStream(c *Ctx, r *Result) {
	_, _, ast, err := syntax.ParseSourceBytes([]byte(c13NamesMro), "c13names.mro", nil, false)
	if err != nil {
		r.note("names stream: %v", err)
		return
	}
	stage, _ := ast.Callables.Table["MK"].(*syntax.Stage)
	lookup := &ast.TypeTable
	rounds := 12
	if c.Thorough {
		rounds = 300
	}
	for round := 0; round < rounds; round++ {
		for _, p := range stage.OutParams.List {
			mt, ok := lookup.Get(p.Tname).(*syntax.TypedMapType)
			if !ok {
				continue
			}
			elem := c13FromSyntax(lookup, mt.Elem)
			keys, _ := c13MapKeyNames(c.Rng, elem, 2+c.Rng.Intn(5), false)
			if round%3 == 0 {
				// names of array elements as ids
				keys = append(keys, "0", "00", "1", "01")
			}
			var sb strings.Builder
			elem.enc(&sb)
			names := map[string]string{}
			for _, k := range keys {
				m := syntax.StructMember{Tname: mt.Elem.TypeId()}
				m.CacheIsFile(mt.Elem)
				m.Id = k
				real := m.GetOutFilename()
				model := unhx(c.Drv.Ask("C13.outname", sb.String(), hx(k), hx("")))
				r.count("outname:"+p.Tname.String()+"|"+k, true)
				r.hist("outname:" + elem.shape())
				input := map[string]interface{}{"map_type": p.Tname.String(), "key": k}
				if real != model {
					r.violate(Violation{Kind: "correspondence", Key: "C13:outname", Broken: "outFilename = StructMember.GetOutFilename (on run-time keys)",
						What: "the name derived for a typed-map entry differs between the real GetOutFilename and the model", Input: input, Impl: real, Model: model})
				}
				if other, dup := names[real]; dup && other != k {
					r.violate(Violation{Kind: "property", Key: "C13:map-entry-names-collide",
						What: fmt.Sprintf("two distinct keys of one %s value get the same name under outs/: %q and %q -> %q (the entry processed second is taken for already moved and skipped)",
							p.Tname.String(), other, k, real),
						Input:  map[string]interface{}{"map_type": p.Tname.String(), "keys": []string{other, k}},
						Impl:   real,
						Expect: "distinct keys of one typed map get distinct names (map_entry_names_injective)"})
				}
				names[real] = k
			}
		}
	}
}
