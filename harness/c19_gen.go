package main

// C19: generator of compiling MRO programs.  Parameter names come from a small
// pool in which a name determines its type, so wildcard bindings (`* = self`),
// struct wildcards (`* = self.pt`), struct projections and whole-call struct
// bindings type-check by construction; every generated program is compiled
// by the real compiler and discarded if rejected.

import (
	"fmt"
	"math/rand"
	"sort"
	"strings"
)

type c19Param struct{ Name, Type string }

var c19Pool = []c19Param{
	{"a", "int"}, {"b", "int"}, {"c", "int"},
	{"xs", "int[]"}, {"ys", "int[]"},
	{"m", "map<int>"},
	{"flag", "bool"}, {"skip", "bool"},
	{"pt", "PT"},
	{"f", "file"}, {"g", "file"},
	// names that have another pool name as a proper prefix (pt/pt_alt, xt/xt_alt,
	// a/a_2, f/f_idx), and a second struct type with bool and file members so that
	// projections can stand in disabled modifiers and retains as well
	{"pt_alt", "PT"}, {"xt", "XT"}, {"xt_alt", "XT"}, {"a_2", "int"}, {"f_idx", "file"},
}

// c19Siblings: when the first name is picked, the second is often added too.
var c19Siblings = map[string]string{"pt": "pt_alt", "xt": "xt_alt", "a": "a_2", "f": "f_idx"}

// c19Fields lists the members of the struct types as (name, type).
var c19Fields = map[string][]c19Param{
	"PT": {{"a", "int"}, {"b", "int"}},
	"XT": {{"on", "bool"}, {"h", "file"}, {"n", "int"}},
}

func c19WithSiblings(r *rand.Rand, ps []c19Param) []c19Param {
	for _, q := range ps {
		if sib, ok := c19Siblings[q.Name]; ok && !c19Has(ps, sib) && r.Intn(2) == 0 {
			for _, cand := range c19Pool {
				if cand.Name == sib {
					ps = append(ps, cand)
				}
			}
		}
	}
	return ps
}

type c19Callable struct {
	Name    string
	Pipe    bool
	Ins     []c19Param
	Outs    []c19Param
	Retain  []string // stage: retained outputs
	Body    string   // pipeline body text (calls, return, retain)
	CallIds []string
	Callees []string
}

type c19Prog struct {
	Callables []*c19Callable
	Top       string
	Src       string
	Features  map[string]bool
}

func c19Pick(r *rand.Rand, n int, avoid map[string]bool) []c19Param {
	idx := r.Perm(len(c19Pool))
	var out []c19Param
	for _, i := range idx {
		if len(out) >= n {
			break
		}
		if avoid != nil && avoid[c19Pool[i].Name] {
			continue
		}
		out = append(out, c19Pool[i])
	}
	return out
}

func c19Lit(r *rand.Rand, t string) string {
	switch t {
	case "int":
		return fmt.Sprint(r.Intn(9))
	case "int[]":
		return fmt.Sprintf("[%d, %d]", r.Intn(9), r.Intn(9))
	case "map<int>":
		return fmt.Sprintf("{\"k%d\": %d}", r.Intn(3), r.Intn(9))
	case "bool":
		if r.Intn(2) == 0 {
			return "true"
		}
		return "false"
	case "PT":
		return fmt.Sprintf("{a: %d, b: %d}", r.Intn(9), r.Intn(9))
	case "XT":
		return fmt.Sprintf("{on: %v, h: \"/p/%d\", n: %d}", r.Intn(2) == 0, r.Intn(9), r.Intn(9))
	case "file":
		return fmt.Sprintf("\"/p/%d\"", r.Intn(9))
	}
	return "null"
}

type c19Sources map[string][]string

func (s c19Sources) add(t, e string) { s[t] = append(s[t], e) }

// exp builds an expression of type t from the available sources.
func c19Exp(r *rand.Rand, t string, src c19Sources, depth int) string {
	if len(src[t]) > 0 && r.Intn(10) < 7 {
		return src[t][r.Intn(len(src[t]))]
	}
	if depth < 2 && r.Intn(10) < 6 {
		switch t {
		case "int[]":
			return fmt.Sprintf("[%s, %s]", c19Exp(r, "int", src, depth+1), c19Exp(r, "int", src, depth+1))
		case "map<int>":
			return fmt.Sprintf("{\"k\": %s, \"l\": %s}", c19Exp(r, "int", src, depth+1), c19Exp(r, "int", src, depth+1))
		case "PT":
			return fmt.Sprintf("{a: %s, b: %s}", c19Exp(r, "int", src, depth+1), c19Exp(r, "int", src, depth+1))
		case "XT":
			return fmt.Sprintf("{on: %s, h: %s, n: %s}", c19Exp(r, "bool", src, depth+1), c19Exp(r, "file", src, depth+1), c19Exp(r, "int", src, depth+1))
		}
	}
	return c19Lit(r, t)
}

func c19Has(ps []c19Param, name string) bool {
	for _, p := range ps {
		if p.Name == name {
			return true
		}
	}
	return false
}

func c19Gen(r *rand.Rand) *c19Prog {
	p := &c19Prog{Features: map[string]bool{}}
	nStages := 2 + r.Intn(3)
	nPipes := 1 + r.Intn(4)
	for i := 0; i < nStages; i++ {
		s := &c19Callable{Name: fmt.Sprintf("ST%d", i)}
		if i > 0 && r.Intn(4) == 0 {
			s.Name = p.Callables[i-1].Name + "_B" // a name that has another callable's name as a prefix
		}
		s.Ins = c19WithSiblings(r, c19Pick(r, 1+r.Intn(3), nil))
		var avoid map[string]bool
		if r.Intn(3) != 0 { // usually distinct in/out names, sometimes shared
			avoid = map[string]bool{}
			for _, q := range s.Ins {
				avoid[q.Name] = true
			}
		}
		s.Outs = c19WithSiblings(r, c19Pick(r, 1+r.Intn(3), avoid))
		if r.Intn(6) == 0 {
			// a stage producing exactly the fields of PT (whole-call struct bindings)
			s.Outs = []c19Param{{"a", "int"}, {"b", "int"}}
		}
		for _, o := range s.Outs {
			if o.Type == "file" && r.Intn(3) == 0 {
				s.Retain = append(s.Retain, o.Name)
			}
		}
		p.Callables = append(p.Callables, s)
	}
	aliasN := 0
	for i := 0; i < nPipes; i++ {
		pl := &c19Callable{Name: fmt.Sprintf("PL%d", i), Pipe: true}
		if r.Intn(4) == 0 {
			pl.Name = p.Callables[len(p.Callables)-1].Name + "_P"
		}
		pl.Ins = c19WithSiblings(r, c19Pick(r, 1+r.Intn(4), nil))
		src := c19Sources{}
		for _, q := range pl.Ins {
			src.add(q.Type, "self."+q.Name)
			for _, fl := range c19Fields[q.Type] {
				src.add(fl.Type, "self."+q.Name+"."+fl.Name)
			}
		}
		var body strings.Builder
		used := map[string]bool{}
		nCalls := 1 + r.Intn(4)
		var fileRefs []string
		wildUsed := map[string]bool{}
		for k := 0; k < nCalls; k++ {
			callee := p.Callables[r.Intn(len(p.Callables))]
			id := callee.Name
			if used[id] || r.Intn(10) < 3 {
				aliasN++
				id = fmt.Sprintf("AL%d", aliasN)
				if r.Intn(4) == 0 {
					id = callee.Name + fmt.Sprintf("_%d", aliasN) // the callee's name is a prefix of the alias
				} else if len(pl.CallIds) > 0 && r.Intn(5) == 0 {
					id = pl.CallIds[len(pl.CallIds)-1] + "_X" // another call id is a prefix of the alias
				}
				if r.Intn(8) == 0 {
					// an alias that is the name of some other callable not (yet) called here
					o := p.Callables[r.Intn(len(p.Callables))]
					if !used[o.Name] && o != callee {
						id = o.Name
					}
				}
				p.Features["alias"] = true
			}
			if used[id] {
				continue
			}
			used[id] = true
			mapCall := false
			splitParam := ""
			if r.Intn(5) == 0 && len(src["int[]"]) > 0 {
				for _, q := range callee.Ins {
					if q.Type == "int" {
						mapCall, splitParam = true, q.Name
						break
					}
				}
			}
			// wildcard
			wild := ""
			covered := map[string]bool{}
			if !mapCall {
				if r.Intn(20) < 7 {
					for _, q := range callee.Ins {
						if c19Has(pl.Ins, q.Name) {
							covered[q.Name] = true
						}
					}
					if len(covered) > 0 {
						wild = "self"
						p.Features["wildcard-self"] = true
					}
				} else if r.Intn(10) == 0 && c19Has(pl.Ins, "pt") {
					for _, q := range callee.Ins {
						if q.Name == "a" || q.Name == "b" {
							covered[q.Name] = true
						}
					}
					if len(covered) > 0 {
						wild = "self.pt"
						p.Features["wildcard-struct"] = true
					}
				}
			}
			if mapCall {
				body.WriteString("    map call " + callee.Name)
				p.Features["map-call"] = true
			} else {
				body.WriteString("    call " + callee.Name)
			}
			if id != callee.Name {
				body.WriteString(" as " + id)
			}
			body.WriteString("(\n")
			for _, q := range callee.Ins {
				if covered[q.Name] {
					continue
				}
				var e string
				if mapCall && q.Name == splitParam {
					e = "split " + src["int[]"][r.Intn(len(src["int[]"]))]
				} else {
					e = c19Exp(r, q.Type, src, 0)
				}
				fmt.Fprintf(&body, "        %s = %s,\n", q.Name, e)
			}
			if wild != "" {
				fmt.Fprintf(&body, "        * = %s,\n", wild)
				if wild == "self" {
					for n := range covered {
						wildUsed[n] = true
					}
				}
			}
			body.WriteString("    )")
			if len(src["bool"]) > 0 && r.Intn(4) == 0 {
				fmt.Fprintf(&body, " using (\n        disabled = %s,\n    )", src["bool"][r.Intn(len(src["bool"]))])
				p.Features["disabled"] = true
			}
			body.WriteString("\n\n")
			pl.CallIds = append(pl.CallIds, id)
			pl.Callees = append(pl.Callees, callee.Name)
			for _, o := range callee.Outs {
				if mapCall {
					if o.Type == "int" {
						src.add("int[]", id+"."+o.Name)
					}
					continue
				}
				src.add(o.Type, id+"."+o.Name)
				for _, fl := range c19Fields[o.Type] {
					src.add(fl.Type, id+"."+o.Name+"."+fl.Name)
					p.Features["projection"] = true
					if fl.Type == "file" {
						fileRefs = append(fileRefs, id+"."+o.Name+"."+fl.Name)
					}
				}
				if o.Type == "file" {
					fileRefs = append(fileRefs, id+"."+o.Name)
				}
			}
			if !mapCall && c19Has(callee.Outs, "a") && c19Has(callee.Outs, "b") {
				// the whole call as a struct value
				src.add("PT", id)
				p.Features["whole-call-struct"] = true
			}
		}
		if len(pl.CallIds) == 0 {
			continue
		}
		pl.Outs = c19WithSiblings(r, c19Pick(r, 1+r.Intn(3), nil))
		body.WriteString("    return (\n")
		for _, o := range pl.Outs {
			fmt.Fprintf(&body, "        %s = %s,\n", o.Name, c19Exp(r, o.Type, src, 0))
		}
		body.WriteString("    )\n")
		if len(fileRefs) > 0 && r.Intn(3) == 0 {
			fmt.Fprintf(&body, "\n    retain (\n        %s,\n    )\n", fileRefs[r.Intn(len(fileRefs))])
			p.Features["retain"] = true
		}
		pl.Body = body.String()
		// the compiler rejects unused pipeline inputs: keep the referenced ones
		var kept []c19Param
		for _, q := range pl.Ins {
			if wildUsed[q.Name] || c19Mentions(pl.Body, "self."+q.Name) {
				kept = append(kept, q)
			}
		}
		pl.Ins = kept
		p.Callables = append(p.Callables, pl)
	}
	var top *c19Callable
	for _, c := range p.Callables {
		if c.Pipe {
			top = c
		}
	}
	if top == nil {
		return nil
	}
	p.Top = top.Name
	var sb strings.Builder
	sb.WriteString("filetype txt;\n\nstruct PT(\n    int a,\n    int b,\n)\n\nstruct XT(\n    bool on,\n    file h,\n    int  n,\n)\n\n")
	decl := p.Callables
	if r.Intn(4) == 0 {
		// callers declared before their callees (declaration order is free in MRO)
		decl = nil
		for i := len(p.Callables) - 1; i >= 0; i-- {
			decl = append(decl, p.Callables[i])
		}
		p.Features["caller-declared-first"] = true
	}
	for _, c := range decl {
		if c.Pipe {
			fmt.Fprintf(&sb, "pipeline %s(\n", c.Name)
		} else {
			fmt.Fprintf(&sb, "stage %s(\n", c.Name)
		}
		for _, q := range c.Ins {
			fmt.Fprintf(&sb, "    in  %s %s,\n", q.Type, q.Name)
		}
		for _, q := range c.Outs {
			fmt.Fprintf(&sb, "    out %s %s,\n", q.Type, q.Name)
		}
		if c.Pipe {
			sb.WriteString(")\n{\n" + c.Body + "}\n\n")
		} else {
			fmt.Fprintf(&sb, "    src py \"stages/%s\",\n)", strings.ToLower(c.Name))
			if len(c.Retain) > 0 {
				sb.WriteString(" retain (\n")
				for _, q := range c.Retain {
					fmt.Fprintf(&sb, "    %s,\n", q)
				}
				sb.WriteString(")")
			}
			sb.WriteString("\n\n")
		}
	}
	fmt.Fprintf(&sb, "call %s(\n", top.Name)
	for _, q := range top.Ins {
		fmt.Fprintf(&sb, "    %s = %s,\n", q.Name, c19Lit(r, q.Type))
	}
	sb.WriteString(")\n")
	p.Src = sb.String()
	return p
}

func c19FeatureKey(f map[string]bool) string {
	var ks []string
	for k := range f {
		ks = append(ks, k)
	}
	sort.Strings(ks)
	if len(ks) == 0 {
		return "plain"
	}
	return strings.Join(ks, "+")
}

func c19Mentions(body, ref string) bool {
	for i := 0; ; {
		j := strings.Index(body[i:], ref)
		if j < 0 {
			return false
		}
		k := i + j + len(ref)
		if k >= len(body) || !(body[k] == '_' || body[k] >= 'a' && body[k] <= 'z' || body[k] >= 'A' && body[k] <= 'Z' || body[k] >= '0' && body[k] <= '9') {
			return true
		}
		i = k
	}
}
