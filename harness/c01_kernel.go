package main

// C01 kernel differential: the real run-time projection + filtering
// (core.LazyArgumentMap.Path: resolvePath through arrays / typed maps / structs,
// then Type.FilterJson to the destination type) against the Lean model's
// `projPath` / `resolvePath` followed by `narrow`, on generated typed values.

import (
	"encoding/json"
	"fmt"
	"math/rand"
	"strings"

	"github.com/martian-lang/martian/martian/core"
	"github.com/martian-lang/martian/martian/syntax"
)

const c01KernelSrc = `
struct PAIR(
    int    a,
    string b,
)

struct WIDE(
    int    a,
    string b,
    float  c,
    int[]  xs,
)

struct OUTER(
    PAIR        p,
    int[]       ys,
    map<int>    m,
    PAIR[]      ps,
    WIDE        w,
    WIDE[][]    wss,
    map<WIDE>   mw,
    map<WIDE[]> mws,
)

struct ROOT(
    OUTER        o,
    OUTER[]      os,
    map<OUTER>   mo,
    OUTER[][]    oss,
    map<OUTER[]> mos,
    WIDE         w,
    map          any,
)

stage S(
    in  ROOT r,
    out ROOT r,
    src comp "x",
)
`

type c01KGen struct {
	rng    *rand.Rand
	lookup *syntax.TypeLookup
}

// a value of the given type (extra=true: structs may carry an undeclared member)
func (g *c01KGen) value(tid syntax.TypeId, depth int) interface{} {
	if g.rng.Intn(9) == 0 {
		return nil
	}
	if tid.ArrayDim > 0 {
		n := []int{0, 1, 2, 2, 3}[g.rng.Intn(5)]
		if depth > 3 && n > 1 {
			n = 1
		}
		e := tid
		e.ArrayDim--
		arr := make([]interface{}, n)
		for i := range arr {
			arr[i] = g.value(e, depth+1)
		}
		return arr
	}
	if tid.MapDim > 0 {
		n := []int{0, 1, 2, 2}[g.rng.Intn(4)]
		keys := []string{"k1", "a", "z z", "é"}
		g.rng.Shuffle(len(keys), func(i, j int) { keys[i], keys[j] = keys[j], keys[i] })
		e := syntax.TypeId{Tname: tid.Tname, ArrayDim: tid.MapDim - 1}
		m := map[string]interface{}{}
		for _, k := range keys[:n] {
			m[k] = g.value(e, depth+1)
		}
		return m
	}
	switch tid.Tname {
	case "int":
		return g.rng.Intn(100) - 10
	case "float":
		return float64(g.rng.Intn(8)) + 0.5
	case "string":
		return []string{"x", "", "a b", "é\"q"}[g.rng.Intn(4)]
	case "map":
		return map[string]interface{}{"k": 1, "j": []interface{}{"v", nil}}
	}
	if st, ok := g.lookup.Get(tid).(*syntax.StructType); ok {
		m := map[string]interface{}{}
		for _, mem := range st.Members {
			m[mem.Id] = g.value(mem.Tname, depth+1)
		}
		if g.rng.Intn(4) == 0 {
			m["zz_extra"] = g.rng.Intn(5)
		}
		return m
	}
	return nil
}

// fieldType, re-implemented (struct_type.go fieldType)
func (g *c01KGen) fieldTy(t syntax.TypeId, f string) (syntax.TypeId, bool) {
	st, ok := g.lookup.Get(syntax.TypeId{Tname: t.Tname}).(*syntax.StructType)
	if !ok {
		return t, false
	}
	for _, m := range st.Members {
		if m.Id == f {
			ft := m.Tname
			if t.MapDim == 0 {
				ft.ArrayDim += t.ArrayDim
				return ft, true
			}
			if ft.MapDim != 0 {
				return ft, false // projection through nested maps is rejected by the compiler
			}
			return syntax.TypeId{Tname: ft.Tname, MapDim: t.MapDim + ft.ArrayDim, ArrayDim: t.ArrayDim}, true
		}
	}
	return t, false
}

func c01KStructs(ast *syntax.Ast) string {
	var sb strings.Builder
	sb.WriteString("(structs")
	for _, s := range ast.StructTypes {
		sb.WriteString(" (s " + s.Id)
		for _, m := range s.Members {
			sb.WriteString(" " + c01Param(m.Id, m.Tname))
		}
		sb.WriteString(")")
	}
	sb.WriteString(")")
	return sb.String()
}

func c01KernelDiff(c *Ctx) {
	r := c.Res
	_, _, ast, err := syntax.ParseSourceBytes([]byte(c01KernelSrc), "kernel.mro", nil, false)
	if err != nil {
		r.note("kernel differential: fixture does not compile: %v", err)
		return
	}
	lookup := &ast.TypeTable
	// own PRNG stream (derived from the seed) so that the program generator's stream does not depend on this part
	g := &c01KGen{rng: rand.New(rand.NewSource(c.Seed*7907 + 13)), lookup: lookup}
	structs := c01KStructs(ast)
	root := syntax.TypeId{Tname: "ROOT"}
	rootT := lookup.Get(root)
	n := 1500
	if c.Thorough {
		n = 20000
	}
	type kcase struct {
		path   []string
		dest   syntax.TypeId
		val    interface{}
		real   string
		realJV string
	}
	var cases []kcase
	var reqs [][]string
	for i := 0; i < n; i++ {
		// a random valid path from ROOT
		t := root
		var path []string
		for len(path) < 5 {
			st, ok := lookup.Get(syntax.TypeId{Tname: t.Tname}).(*syntax.StructType)
			if !ok || (len(path) > 0 && g.rng.Intn(3) == 0) {
				break
			}
			m := st.Members[g.rng.Intn(len(st.Members))]
			ft, ok := g.fieldTy(t, m.Id)
			if !ok {
				break
			}
			path = append(path, m.Id)
			t = ft
		}
		if len(path) == 0 {
			continue
		}
		dest := t
		if t.Tname == "WIDE" && g.rng.Intn(2) == 0 {
			dest.Tname = "PAIR" // binding to a narrower struct
		}
		destT := lookup.Get(dest)
		if destT == nil {
			continue
		}
		val := g.value(root, 0)
		if val == nil {
			val = map[string]interface{}{}
			for _, m := range rootT.(*syntax.StructType).Members {
				val.(map[string]interface{})[m.Id] = nil
			}
		}
		raw, _ := json.Marshal(val)
		var args core.LazyArgumentMap
		if json.Unmarshal(raw, &args) != nil {
			continue
		}
		kc := kcase{path: path, dest: dest, val: val}
		func() {
			defer func() {
				if e := recover(); e != nil {
					kc.real = fmt.Sprintf("panic: %v", e)
				}
			}()
			res, err := args.Path(strings.Join(path, "."), rootT, destT, lookup)
			if err != nil {
				kc.real = "error: " + err.Error()
				return
			}
			var b []byte
			if res == nil {
				b = []byte("null")
			} else if b, err = res.MarshalJSON(); err != nil {
				kc.real = "error: marshal: " + err.Error()
				return
			}
			kc.real = string(b)
			if jv, err := c01RawJV(b); err == nil {
				kc.realJV = jv
			}
		}()
		cases = append(cases, kc)
		v2, _ := c01DecodeJSON(raw)
		reqs = append(reqs, []string{"C01.projnarrow", structs, c01Param("x", root),
			"(path " + strings.Join(path, " ") + ")", c01Param("d", dest), c01JVof(v2)})
	}
	replies := c.Drv.AskBatch(reqs)
	bad := 0
	for i, rep := range replies {
		kc := cases[i]
		f := strings.Split(rep, "\t")
		canon := fmt.Sprintf("kernel|%s|%v|%s", strings.Join(kc.path, "."), kc.dest, kc.real)
		r.count(canon, len(kc.path) >= 2)
		r.hist(fmt.Sprintf("kernel:path-len-%d", len(kc.path)))
		if len(f) != 3 {
			if bad < 3 {
				r.violate(Violation{Kind: "correspondence", Key: "C01:kernel:driver-bad-reply", What: "driver could not evaluate projnarrow: " + c01Trunc(rep, 100),
					Input: map[string]interface{}{"path": kc.path, "dest": kc.dest.String(), "value": kc.val}, Broken: "C01.projnarrow"})
			}
			bad++
			continue
		}
		wantTy := fmt.Sprintf("%s %d %d", kcTy(g, root, kc.path).Tname, kcTy(g, root, kc.path).MapDim, kcTy(g, root, kc.path).ArrayDim)
		mjv, err1 := c01RawJV([]byte(f[1]))
		rjv, err2 := c01RawJV([]byte(f[2]))
		if err1 != nil || err2 != nil || f[0] != wantTy || mjv != kc.realJV || rjv != kc.realJV {
			if bad < 3 {
				r.violate(Violation{Kind: "correspondence", Key: "C01:kernel:path-filter",
					What:   "LazyArgumentMap.Path (projection + FilterJson) disagrees with the model's projPath/resolvePath + narrow",
					Input:  map[string]interface{}{"path": strings.Join(kc.path, "."), "dest": kc.dest.String(), "value": kc.val},
					Impl:   kc.real,
					Model:  map[string]string{"type": f[0], "projPath": f[1], "resolvePath": f[2], "expected_type": wantTy},
					Broken: "resolver_path_refines / filter_narrow (kernel correspondence)"})
			}
			bad++
		}
	}
	r.note("kernel differential (LazyArgumentMap.Path vs projPath/resolvePath+narrow): %d cases, %d disagreements", len(cases), bad)
}

func kcTy(g *c01KGen, t syntax.TypeId, path []string) syntax.TypeId {
	for _, f := range path {
		t, _ = g.fieldTy(t, f)
	}
	return t
}
