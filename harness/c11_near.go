package main

// C11: near-equal sibling keys.  The lookup from a journal entry's fork part to
// the fork must be EXACT (getFork_exact).  Any equivalence coarser than byte
// equality — case folding, Unicode normalisation, trimming, the hex case of an
// escape, leading zeros, '+' for space, fullwidth forms, a trailing dot or
// underscore — confuses two legal keys of one call.  c11NearEqualFamily builds,
// for a base key, its siblings under a list of such lossy normalisations; the
// base and its siblings are always put into the SAME fork table / key set.

import (
	"strings"
	"unicode"

	"github.com/martian-lang/martian/martian/core"
)

var c11NearBases = []string{"S1", "Control", "chrM", "a b", "k01", "x%2fy", "\u00e91", "Ab", "a+b", "Z", "q.r", "T_", "7a"}

func c11FlipCase(r rune) rune {
	if unicode.IsUpper(r) {
		return unicode.ToLower(r)
	}
	return unicode.ToUpper(r)
}

// c11NearEqualFamily: the base first, then its distinct siblings (valid UTF-8, no control characters).
func c11NearEqualFamily(base string) []string {
	rs := []rune(base)
	var sib []string
	add := func(s string) { sib = append(sib, s) }
	// ASCII / Unicode case: one letter flipped, all upper, all lower
	for i, r := range rs {
		if unicode.IsLetter(r) && c11FlipCase(r) != r {
			x := append([]rune{}, rs...)
			x[i] = c11FlipCase(r)
			add(string(x))
			break
		}
	}
	add(strings.ToUpper(base))
	add(strings.ToLower(base))
	// trimming
	add(base + " ")
	add(" " + base)
	add(base + ".")
	add(base + "_")
	add("_" + base)
	// NFC / NFD of a non-ASCII letter
	if strings.Contains(base, "\u00e9") {
		add(strings.ReplaceAll(base, "\u00e9", "e\u0301"))
	} else {
		add(base + "\u00e9")
		add(base + "e\u0301")
	}
	// hex case of an escape written literally inside the key
	if strings.Contains(base, "%2f") {
		add(strings.ReplaceAll(base, "%2f", "%2F"))
		add(strings.ReplaceAll(base, "%2f", "/"))
	} else {
		add(base + "%2f")
		add(base + "%2F")
	}
	// numbers: leading zeros, sign
	if len(base) > 0 && base[0] >= '0' && base[0] <= '9' {
		add("0" + base)
		add("+" + base)
	} else {
		add(base + "1")
		add(base + "01")
	}
	// '+' vs space
	if strings.Contains(base, " ") {
		add(strings.ReplaceAll(base, " ", "+"))
	} else if strings.Contains(base, "+") {
		add(strings.ReplaceAll(base, "+", " "))
	}
	// fullwidth form of the first ASCII character
	if len(rs) > 0 && rs[0] > 0x20 && rs[0] < 0x7f {
		x := append([]rune{}, rs...)
		x[0] = rs[0] - 0x20 + 0xFF00
		add(string(x))
	}
	out := []string{base}
	seen := map[string]bool{base: true}
	for _, s := range sib {
		if !seen[s] {
			seen[s] = true
			out = append(out, s)
		}
	}
	return out
}

func c11NearBase(c *Ctx) string {
	if c.Rng.Intn(2) == 0 {
		return c11NearBases[c.Rng.Intn(len(c11NearBases))]
	}
	// a short identifier-like key with at least one letter
	n := 1 + c.Rng.Intn(5)
	var sb strings.Builder
	sb.WriteByte("ABCDEFGHKMSTXZabcdefghkmstxz"[c.Rng.Intn(28)])
	for i := 0; i < n; i++ {
		sb.WriteByte("abcXYZ019_ -."[c.Rng.Intn(13)])
	}
	return sb.String()
}

// a PRNG subset of a family that always contains the base and at least one sibling
func c11NearSubset(c *Ctx, base string, max int) []string {
	fam := c11NearEqualFamily(base)
	out := []string{fam[0]}
	rest := fam[1:]
	c.Rng.Shuffle(len(rest), func(a, b int) { rest[a], rest[b] = rest[b], rest[a] })
	n := 1 + c.Rng.Intn(len(rest))
	if n > max-1 {
		n = max - 1
	}
	return append(out, rest[:n]...)
}

// c11NearKeys: (d) directory / journal collision enumeration and encoder differential over whole families.
func c11NearKeys(c *Ctx) {
	r := c.Res
	bases := append([]string{}, c11NearBases...)
	n := 6
	if c.Thorough {
		n = 200
	}
	for i := 0; i < n; i++ {
		bases = append(bases, c11NearBase(c))
	}
	for _, b := range bases {
		keys := c11NearEqualFamily(b)
		var reqs [][]string
		var forks []c11Fork
		for _, k := range keys {
			ps := []c11Part{{Kind: "map", Key: k, Keys: keys, Static: true}}
			reqs = append(reqs, []string{"C11.esc", hx(k)}, []string{"C11.forkid", c11EncodeParts(ps)})
			id, ok, e := c11ForkId(ps)
			if !ok {
				r.note("near-equal keys: ForkIdString failed: %s", e)
				continue
			}
			forks = append(forks, c11Fork{ps, id})
		}
		reps := c.Drv.AskBatch(reqs)
		for i, k := range keys {
			r.count("nearkey:"+b+":"+k, true)
			r.hist("near_equal_keys")
			id, _, _ := c11ForkId([]c11Part{{Kind: "map", Key: k, Keys: keys, Static: true}})
			if hx(core.VerifMakeKeySafe(k)) != reps[2*i] || "some "+hx(id) != reps[2*i+1] {
				r.violate(Violation{Kind: "correspondence", Key: "C11:near-key-model-mismatch", What: "makeKeySafe / the fork id of a key differs from the model",
					Input: map[string]interface{}{"key": k, "family_of": b}, Impl: id, Model: unhx(strings.TrimPrefix(reps[2*i+1], "some ")), Broken: "correspondence C11.esc / C11.forkid"})
			}
		}
		c11CheckDistinct(c, forks, "near-equal-keys")
	}
}
