package main

import (
	"bufio"
	"os"
	"path/filepath"
	"sort"
	"strconv"
	"strings"
)

// readCorpusLines reads corpus/<id>/*.txt: one Go-quoted string per line
// ("..." with Go escapes); lines starting with # are comments.
func readCorpusLines(dir string) []string {
	if dir == "" {
		return nil
	}
	files, _ := filepath.Glob(filepath.Join(dir, "*.txt"))
	sort.Strings(files)
	var out []string
	for _, f := range files {
		fh, err := os.Open(f)
		if err != nil {
			continue
		}
		sc := bufio.NewScanner(fh)
		sc.Buffer(make([]byte, 1<<20), 1<<24)
		for sc.Scan() {
			line := strings.TrimSpace(sc.Text())
			if line == "" || strings.HasPrefix(line, "#") {
				continue
			}
			if s, err := strconv.Unquote(line); err == nil {
				out = append(out, s)
			}
		}
		fh.Close()
	}
	return out
}
