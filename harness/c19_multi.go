package main

// C19: several operations in ONE Refactor call (what `mro edit` does when it is
// given several options: cmd/mro/edit/main.go fills one RefactorConfig and
// Refactor applies renames of callables, of inputs, of outputs, removals of
// inputs, of outputs and then the remove-unused loop, each step working on the
// compiled AST as the previous steps left it).
//
// Oracle: the one-shot result must equal the composition of the single steps,
// each done on a freshly compiled program (text identical; if not, it must at
// least compile to an identical resolved call graph - reported either way), and
// the Lean model's composition of the single steps must equal the real AST.

import (
	"fmt"
	"sort"
	"strings"

	"github.com/martian-lang/martian/martian/syntax"
)

func c19MultiEdit(steps []c19Edit) c19Edit { return c19Edit{Op: "multi", Steps: steps} }

func c19MultiClass(steps []c19Edit) string {
	ops := make([]string, len(steps))
	for i, s := range steps {
		ops[i] = s.Op
	}
	return strings.Join(ops, "+")
}

func c19ModelSeqArgs(prog string, steps []c19Edit) []string {
	a := []string{"C19.applyseq", prog}
	for _, s := range steps {
		a = append(a, c19ModelArgs(prog, s)[2:]...)
	}
	return a
}

// c19CheckMulti evaluates one multi-step edit.  skip != "" means the pair is
// not evaluated (a single step already fails: that is a single-edit matter).
func c19CheckMulti(c *Ctx, cs *c19Case, steps []c19Edit) (out c19Outcome, skip string) {
	cur := cs.Src
	var tags []string
	var asts []*syntax.Ast
	for i, st := range steps {
		b, err := c19Compile(cur, cs.Path)
		if err != nil {
			return c19Outcome{}, "intermediate-does-not-compile"
		}
		asts = append(asts, b.Ast)
		if b.Ast.Callables.Table[st.Callable] == nil && st.Op != "removeUnused" {
			return c19Outcome{}, "step-names-unknown-callable"
		}
		if t := c19Tag(b.Ast, st); t != "plain" {
			tags = append(tags, strings.Split(t, "+")...)
		}
		resp := c19W.apply(cur, cs.Path, st)
		if resp.Err != "" {
			return c19Outcome{}, fmt.Sprintf("single-step-%d-fails", i+1)
		}
		if resp.NoSplit {
			tags = append(tags, "leaves-map-call-without-split")
		}
		cur = resp.Out
	}
	seq, err := c19Compile(cur, cs.Path)
	if err != nil {
		return c19Outcome{}, "sequential-result-does-not-compile"
	}
	asts = append(asts, seq.Ast)
	interference := c19Interferes(asts, steps)
	if interference != "" {
		tags = append(tags, "later-step-renames-a-name-an-earlier-edit-reads")
	}
	sort.Strings(tags)
	var u []string
	for i, t := range tags {
		if i == 0 || tags[i-1] != t {
			u = append(u, t)
		}
	}
	tag := "plain"
	if len(u) > 0 {
		tag = strings.Join(u, "+")
	}
	class := c19MultiClass(steps)
	multi := c19MultiEdit(steps)
	fail := func(what, detail string) c19Outcome {
		if interference != "" {
			detail = "(" + interference + ") " + detail
		}
		return c19Outcome{Kind: "property", Key: c19Family("multi("+class+")", what, tag),
			What: "[multi(" + class + "):" + what + ":" + tag + "] " + detail}
	}
	resp := c19W.apply(cs.Src, cs.Path, multi)
	if resp.Err != "" {
		return fail("refactor-"+c19ErrKind(fmt.Errorf("%s", resp.Err)),
			"every single step succeeds on a freshly compiled program, but the same steps in one Refactor call fail: "+resp.Err), ""
	}
	if c.Drv != nil {
		var parser syntax.Parser
		if plain, err := parser.UncheckedParse([]byte(cs.Src), cs.Path); err == nil {
			a := c19ModelSeqArgs(c19Encode(plain), steps)
			// (with interference the real result deviates from the composition by KF7; the
			// property oracle below reports it)
			if m := c.Drv.Ask(a[0], a[1:]...); m != "unsupported" && m != resp.Enc && interference == "" {
				c19LastCorr = &c19Outcome{Kind: "correspondence", Key: "C19:model:multi", What: "the model's composition of the single steps differs from the real one-shot result",
					Impl: resp.Enc, Model: m}
			}
		}
	}
	if resp.Out == cur {
		return c19Outcome{}, ""
	}
	one, err := c19Compile(resp.Out, cs.Path)
	if err != nil {
		return fail("compile-"+c19ErrKind(err), "the steps in one Refactor call give a program that does not compile (done one at a time they do): "+
			c19FirstLine(err.Error())+"\n--- one call ---\n"+resp.Out+"\n--- one step at a time ---\n"+cur), ""
	}
	if seq.Graph != nil {
		if one.Graph == nil {
			return fail("graph-missing", "no call graph"), ""
		}
		g1, err1 := c19Dump(seq.Graph)
		g2, err2 := c19Dump(one.Graph)
		if err1 == nil && err2 == nil {
			if d := c19GraphDiff(g1, g2); d != "" {
				return fail("graph", "the steps in one Refactor call give a different resolved call graph than one step at a time: "+d+
					"\n--- one call ---\n"+resp.Out+"\n--- one step at a time ---\n"+cur), ""
			}
		}
	}
	return fail("text", "the steps in one Refactor call give a different program text than one step at a time (same call graph)\n--- one call ---\n"+
		resp.Out+"\n--- one step at a time ---\n"+cur), ""
}

func c19GraphDiff(a, b *c19Node) string {
	if a.Fqid != b.Fqid || a.Callable != b.Callable || a.CallId != b.CallId || len(a.Children) != len(b.Children) {
		return fmt.Sprintf("node %s (%s, %d children) vs %s (%s, %d children)", a.Fqid, a.Callable, len(a.Children), b.Fqid, b.Callable, len(b.Children))
	}
	if d := c19JSONDiff(a.JSON, b.JSON, a.Fqid); d != "" {
		return d
	}
	for i := range a.Children {
		if d := c19GraphDiff(a.Children[i], b.Children[i]); d != "" {
			return d
		}
	}
	return ""
}

// c19PlanMulti chooses the multi-step edits for one program.
func c19PlanMulti(c *Ctx, cs *c19Case, plan []c19Planned, fresh func() string) [][]c19Edit {
	nFirst, nSecond := 4, 4
	if c.Thorough {
		nFirst, nSecond = 6, 5
	}
	var renames, others []c19Edit
	for _, pl := range plan {
		if !pl.Applicable {
			continue
		}
		if pl.Edit.Op == "renameCallable" {
			renames = append(renames, pl.Edit)
		} else if pl.Edit.Op != "removeUnused" {
			others = append(others, pl.Edit)
		}
	}
	pick := func(xs []c19Edit, n int) []c19Edit {
		c.Rng.Shuffle(len(xs), func(i, j int) { xs[i], xs[j] = xs[j], xs[i] })
		if len(xs) > n {
			xs = xs[:n]
		}
		return xs
	}
	firsts := append(pick(renames, (nFirst+1)/2), pick(others, nFirst/2)...)
	var out [][]c19Edit
	for _, e1 := range firsts {
		r1 := c19W.apply(cs.Src, cs.Path, e1)
		if r1.Err != "" {
			continue
		}
		b1, err := c19Compile(r1.Out, cs.Path)
		if err != nil {
			continue
		}
		focus := e1.Callable
		if e1.Op == "renameCallable" {
			focus = e1.NewName
		}
		var pref, rest []c19Edit
		for _, pl := range c19Enumerate(b1.Ast, fresh) {
			if c19Cat(pl.Edit.Op) < c19Cat(e1.Op) || !pl.Applicable {
				continue
			}
			if pl.Edit.Callable == focus || pl.Edit.Op == "removeUnused" {
				pref = append(pref, pl.Edit)
			} else {
				rest = append(rest, pl.Edit)
			}
		}
		seconds := append(pick(pref, (nSecond+1)/2+1), pick(rest, nSecond/2)...)
		if len(seconds) > nSecond {
			seconds = seconds[:nSecond]
		}
		for _, e2 := range seconds {
			steps := []c19Edit{e1, e2}
			if c.Rng.Intn(4) == 0 && e2.Op != "removeUnused" {
				// a third step
				if r2 := c19W.apply(r1.Out, cs.Path, e2); r2.Err == "" {
					if b2, err := c19Compile(r2.Out, cs.Path); err == nil {
						var thirds []c19Edit
						for _, pl := range c19Enumerate(b2.Ast, fresh) {
							if c19Cat(pl.Edit.Op) >= c19Cat(e2.Op) && pl.Applicable {
								thirds = append(thirds, pl.Edit)
							}
						}
						if t := pick(thirds, 1); len(t) == 1 {
							steps = append(steps, t[0])
						}
					}
				}
			}
			out = append(out, steps)
		}
	}
	return out
}

// c19ShrinkMulti drops program parts as long as the same failure key remains.
func c19ShrinkMulti(c *Ctx, cs *c19Case, steps []c19Edit, key string) *c19Case {
	cur := cs
	for round := 0; round < 40; round++ {
		improved := false
		for _, v := range c19Variants(cur.Src, cur.Path) {
			if len(v) >= len(cur.Src) {
				continue
			}
			cand := &c19Case{Name: cs.Name + "-shrunk", Src: v, Path: cs.Path}
			if _, err := c19Compile(v, cs.Path); err != nil {
				continue
			}
			c19LastCorr = nil
			o, skip := c19CheckMulti(c, cand, steps)
			if skip != "" {
				continue
			}
			if o.Key == "" && c19LastCorr != nil {
				o = *c19LastCorr
			}
			if o.Key == key {
				cur = cand
				improved = true
				break
			}
		}
		if !improved {
			break
		}
	}
	return cur
}

// ---- known-finding classification for multi-step edits (C19-KF7) ----
//
// The primitive edits hold POINTERS to nodes of the compiled AST (pipeline,
// call, binding, callable) and read their names when they are replayed on the
// unchecked AST.  A later rename step of the same Refactor call mutates those
// nodes, so an earlier edit then looks for the new name in a file that still
// has the old one and silently does nothing.  c19Interferes detects exactly
// that situation: the names an earlier rename step's edits read (R) meet the
// names a later rename step mutates (M).

func c19CallsOf(p *syntax.Pipeline, callable string) []*syntax.CallStm {
	var out []*syntax.CallStm
	for _, c := range p.Calls {
		if c.DecId == callable {
			out = append(out, c)
		}
	}
	return out
}

// c19RefSites lists the binding sites of pipeline p whose expression contains
// a reference accepted by match: "BIND:P.call.binding" / "RET:P.binding",
// plus "CALL:P.call" for the enclosing call.
func c19RefSites(p *syntax.Pipeline, match func(*syntax.RefExp) bool) []string {
	var out []string
	has := func(e syntax.Exp) bool {
		if r, ok := e.(*syntax.RefExp); ok {
			return match(r)
		}
		for _, r := range e.FindRefs() {
			if match(r) {
				return true
			}
		}
		return false
	}
	for _, c := range p.Calls {
		lists := []*syntax.BindStms{c.Bindings}
		if c.Modifiers != nil {
			lists = append(lists, c.Modifiers.Bindings)
		}
		for _, l := range lists {
			if l == nil {
				continue
			}
			for _, b := range l.List {
				if has(b.Exp) {
					out = append(out, "CALL:"+p.Id+"."+c.Id, "BIND:"+p.Id+"."+c.Id+"."+b.Id)
				}
			}
		}
	}
	if p.Ret != nil && p.Ret.Bindings != nil {
		for _, b := range p.Ret.Bindings.List {
			if has(b.Exp) {
				out = append(out, "RET:"+p.Id+"."+b.Id)
			}
		}
	}
	return out
}

// c19Reads: names the edits of rename step st read at replay time, in the
// names of `after` (the compiled program after the step).
func c19Reads(after *syntax.Ast, st c19Edit) map[string]bool {
	r := map[string]bool{}
	add := func(xs ...string) {
		for _, x := range xs {
			r[x] = true
		}
	}
	switch st.Op {
	case "renameCallable":
		for _, p := range after.Pipelines {
			calls := c19CallsOf(p, st.NewName)
			if len(calls) == 0 {
				continue
			}
			add("PIPE:" + p.Id)
			for _, c := range calls {
				if c.Id == st.NewName { // the call took the new name: references were rewritten
					add(c19RefSites(p, func(x *syntax.RefExp) bool { return x.Kind == syntax.KindCall && x.Id == st.NewName })...)
				}
			}
		}
	case "renameInput":
		add("CALLABLE:" + st.Callable)
		for _, p := range after.Pipelines {
			if p.Id == st.Callable {
				sites := c19RefSites(p, func(x *syntax.RefExp) bool { return x.Kind == syntax.KindSelf && x.Id == st.NewName })
				if len(sites) > 0 {
					add("PIPE:" + p.Id)
					add(sites...)
				}
			} else if len(c19CallsOf(p, st.Callable)) > 0 {
				add("PIPE:" + p.Id)
			}
		}
	case "renameOutput":
		add("CALLABLE:" + st.Callable)
		for _, p := range after.Pipelines {
			if p.Id == st.Callable {
				continue
			}
			for _, c := range c19CallsOf(p, st.Callable) {
				cid := c.Id
				sites := c19RefSites(p, func(x *syntax.RefExp) bool {
					return x.Kind == syntax.KindCall && x.Id == cid && c19Head(x.OutputId) == st.NewName
				})
				if len(sites) > 0 {
					add("PIPE:" + p.Id)
					add(sites...)
				}
			}
		}
	}
	return r
}

// c19Mutates: names rename step st changes on the compiled AST `before`.
func c19Mutates(before *syntax.Ast, st c19Edit) map[string]bool {
	m := map[string]bool{}
	switch st.Op {
	case "renameCallable":
		m["CALLABLE:"+st.Callable] = true
		if _, ok := before.Callables.Table[st.Callable].(*syntax.Pipeline); ok {
			m["PIPE:"+st.Callable] = true
		}
		for _, p := range before.Pipelines {
			taken := false
			for _, c := range p.Calls {
				if c.Id == st.NewName {
					taken = true
				}
			}
			for _, c := range c19CallsOf(p, st.Callable) {
				if c.Id == c.DecId && !taken {
					m["CALL:"+p.Id+"."+c.Id] = true
				}
			}
		}
	case "renameInput":
		for _, p := range before.Pipelines {
			for _, c := range c19CallsOf(p, st.Callable) {
				m["BIND:"+p.Id+"."+c.Id+"."+st.Param] = true
			}
		}
	case "renameOutput":
		if _, ok := before.Callables.Table[st.Callable].(*syntax.Pipeline); ok {
			m["RET:"+st.Callable+"."+st.Param] = true
		}
	}
	return m
}

// c19Interferes: asts[k] is the compiled program before step k (len(steps)+1
// entries, the last one being the sequential result).
func c19Interferes(asts []*syntax.Ast, steps []c19Edit) string {
	for j := 1; j < len(steps); j++ {
		if !strings.HasPrefix(steps[j].Op, "rename") {
			continue
		}
		mut := c19Mutates(asts[j], steps[j])
		for i := 0; i < j; i++ {
			if !strings.HasPrefix(steps[i].Op, "rename") {
				continue
			}
			for name := range c19Reads(asts[i+1], steps[i]) {
				if mut[name] {
					return fmt.Sprintf("step %d (%s) renames %s, which the edits of step %d (%s) look up by its current name when replayed", j+1, steps[j], name, i+1, steps[i])
				}
			}
		}
	}
	return ""
}
