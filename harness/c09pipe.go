package main

// C09, whole pipeline declarations: the model Martian.FormatPipe (fmtPipeline /
// fmtPipelineRaw / parsePipeline / normPipeline / wfPipeline / callEdges /
// depsError / callCycle) against the real parser, formatter and topoSort.
//
// A. generated pipelines: 0-3 in / 0-3 out parameters (help texts around the
//    alignment thresholds), 0-7 calls whose references form a random dependency
//    graph (plain bindings, arrays, maps, struct literals, split bindings,
//    wildcard bindings, `disabled = X.y` modifiers; forward and backward
//    references along a hidden order, so most graphs are acyclic but need
//    reordering; occasionally cycles, a reference of a call to itself, a call
//    of the pipeline itself, duplicate call ids), return bindings, retain.
//    The MODEL prints the pipeline with its calls in SOURCE order
//    (fmtpipeline-raw); on that text
//      (a) the real FormatSrcBytes must give the model's fmtPipeline byte for
//          byte (C09:pipeline-format-mismatch): this ties sortCalls /
//          callEdges / depsError to Pipeline.topoSort / directDepsMap;
//      (b) the real UncheckedParse AST (Id, params, calls in order with every
//          field, Ret.Bindings, Retain.Refs) must dump to what the model's
//          parsePipeline returns (C09:pipeline-parse-mismatch);
//      (c) real topoSort error <-> model depsError || callCycle, and for
//          distinct call ids the closed dependency map of the real code
//          (directDepsMap + addNextDeps) = closure of the model's callEdges
//          (C09:pipeline-deps-mismatch).
//    The same on the formatted text and on a respelling (other white space,
//    keyword modifiers, unsorted using blocks) in source order.  For
//    well-formed pipelines the theorems are evaluated: parsePipeline
//    (fmtPipeline p) = normPipeline p, fmtPipeline (normPipeline p) =
//    fmtPipeline p (C09:pipeline-roundtrip-model).
// B. property monitors on the real code for every accepted text: second format
//    = first (C09:pipeline-not-idempotent), real parse of the output = real
//    parse of the input up to call order (C09:pipeline-ast-changed).
// C. near-miss texts: accept/reject, AST, formatted text.

import (
	"fmt"
	"sort"
	"strconv"
	"strings"

	"github.com/martian-lang/martian/martian/syntax"
)

type c09pCase struct {
	id        string
	ins, outs []c09dParam
	body      *c09c2Body
	mode      string
}

func (p *c09pCase) enc() string {
	return hx(p.id) + " " + c09dEncParams(p.ins) + " " + c09dEncParams(p.outs) + " " + p.body.enc()
}

func c09pRef(c *Ctx) *c09cx {
	e := &c09cx{kind: 'r', id: "X"}
	switch c.Rng.Intn(5) {
	case 0:
		e.out = []string{"default"}
	case 1:
	default:
		for k := 1 + c.Rng.Intn(2); k > 0; k-- {
			e.out = append(e.out, c09callId(c, 6))
		}
	}
	return e
}

// c09pDepBind: a binding whose value holds references to calls
func c09pDepBind(c *Ctx) c09callBind {
	b := c09callBind{id: c09callId(c, 12)}
	refs := func(n int) []*c09cx {
		var xs []*c09cx
		for i := 0; i < n; i++ {
			if c.Rng.Intn(4) == 0 {
				xs = append(xs, c09callExp(c, 1))
			} else {
				xs = append(xs, c09pRef(c))
			}
		}
		return xs
	}
	switch c.Rng.Intn(9) {
	case 0, 1, 2:
		b.exp = c09pRef(c)
	case 3:
		b.exp = &c09cx{kind: '[', xs: refs(1 + c.Rng.Intn(3))}
	case 4:
		n := 1 + c.Rng.Intn(2)
		b.exp = &c09cx{kind: '{', keys: c09callKeys(c, n, false), xs: refs(n)}
	case 5:
		n := 1 + c.Rng.Intn(2)
		b.exp = &c09cx{kind: '<', keys: c09callKeys(c, n, true), xs: refs(n)}
	case 6:
		b.split = true
		b.exp = c09pRef(c)
	case 7:
		b.split = true
		b.exp = &c09cx{kind: '[', xs: refs(1 + c.Rng.Intn(3))}
	default:
		b.split = true
		n := 1 + c.Rng.Intn(2)
		b.exp = &c09cx{kind: '{', keys: c09callKeys(c, n, false), xs: refs(n)}
	}
	return b
}

// c09pGenCall: a call with extra bindings that hold references, often a `disabled` modifier
func c09pGenCall(c *Ctx) *c09c2Call {
	k := c09c2GenCall(c)
	for n := c.Rng.Intn(3); n > 0; n-- {
		k.binds = append(k.binds, c09pDepBind(c))
	}
	if c.Rng.Intn(3) == 0 {
		has := false
		for _, m := range k.mods {
			has = has || m.id == "disabled"
		}
		if !has {
			k.mods = append(k.mods, c09c2Mod{"disabled", c09pRef(c)})
			switch k.spelling {
			case "none":
				k.spelling = "bindings"
			case "keywords":
				k.spelling = "both"
			}
		}
	}
	return k
}

// c09pPools: calls and parameter lists the model calls well formed (so that most generated
// pipelines are); c09pGen takes an unchecked one now and then.
type c09pPools struct {
	calls  []*c09c2Call
	params [][]c09dParam
}

func c09pMakePools(c *Ctx, nCalls, nParams int) *c09pPools {
	ps := &c09pPools{}
	for len(ps.calls) < nCalls {
		batch := make([]*c09c2Call, 512)
		var reqs [][]string
		for i := range batch {
			batch[i] = c09pGenCall(c)
			reqs = append(reqs, []string{"C09.wfcall2", batch[i].enc()})
		}
		for i, rep := range c.Drv.AskBatch(reqs) {
			if rep == "wf=true" {
				ps.calls = append(ps.calls, batch[i])
			}
		}
	}
	for len(ps.params) < nParams {
		batch := make([][]c09dParam, 512)
		var reqs [][]string
		for i := range batch {
			batch[i] = c09dGenParams(c, c.Rng.Intn(4), c.Rng.Intn(4))
			reqs = append(reqs, []string{"C09.wfparams", c09dEncParams(batch[i])})
		}
		for i, rep := range c.Drv.AskBatch(reqs) {
			if rep == "wf=true" {
				ps.params = append(ps.params, batch[i])
			}
		}
	}
	return ps
}

func (ps *c09pPools) call(c *Ctx) *c09c2Call {
	if len(ps.calls) == 0 || c.Rng.Intn(40) == 0 {
		return c09pGenCall(c)
	}
	k := ps.calls[len(ps.calls)-1]
	ps.calls = ps.calls[:len(ps.calls)-1]
	return k
}

func (ps *c09pPools) paramList(c *Ctx) []c09dParam {
	if len(ps.params) == 0 || c.Rng.Intn(25) == 0 {
		return c09dGenParams(c, c.Rng.Intn(4), c.Rng.Intn(4))
	}
	l := ps.params[len(ps.params)-1]
	ps.params = ps.params[:len(ps.params)-1]
	return l
}

func c09pGen(c *Ctx, pools *c09pPools) *c09pCase {
	p := &c09pCase{id: c09dSafeId(c)}
	if c.Rng.Intn(25) == 0 {
		p.id = c09callId(c, 20)
	}
	for _, q := range pools.paramList(c) {
		if q.isOut {
			p.outs = append(p.outs, q)
		} else {
			p.ins = append(p.ins, q)
		}
	}
	b := &c09c2Body{}
	p.body = b
	nc := 1 + c.Rng.Intn(7)
	if c.Rng.Intn(40) == 0 {
		nc = 0
	}
	p.mode = "dag"
	switch c.Rng.Intn(24) {
	case 0, 1:
		p.mode = "any" // references in every direction: cycles likely
	case 2:
		p.mode = "selfref"
	case 3:
		p.mode = "selfcall"
	case 4:
		p.mode = "dupids"
	case 5, 6:
		p.mode = "sorted" // references to earlier calls only
	}
	ids := map[string]bool{}
	for j := 0; j < nc; j++ {
		k := pools.call(c)
		if k.decId == p.id {
			k.decId += "x"
			if k.id == p.id {
				k.id = k.decId
			}
		}
		for ids[k.id] {
			if k.id == k.decId {
				k.decId += "x"
			}
			k.id += "x"
		}
		ids[k.id] = true
		b.calls = append(b.calls, k)
	}
	rank := c.Rng.Perm(nc)
	if p.mode == "sorted" {
		for i := range rank {
			rank[i] = i
		}
	}
	for j, k := range b.calls {
		k.walkRefs(func(r *c09cx) {
			if r.self {
				return
			}
			var cands []int
			for i := range b.calls {
				if i != j && (p.mode == "any" || rank[i] < rank[j]) {
					cands = append(cands, i)
				}
			}
			if len(cands) > 0 && c.Rng.Intn(10) < 7 {
				r.id = b.calls[cands[c.Rng.Intn(len(cands))]].id
				return
			}
			for ids[r.id] || r.id == "X" && c.Rng.Intn(2) == 0 {
				r.id = "Q" + r.id
			}
		})
	}
	if nc > 0 {
		switch p.mode {
		case "selfref":
			k := b.calls[c.Rng.Intn(nc)]
			r := c09pRef(c)
			r.id = k.id
			k.binds = append(k.binds, c09callBind{id: c09callId(c, 8), exp: r})
		case "selfcall":
			k := b.calls[c.Rng.Intn(nc)]
			if k.id == k.decId && c.Rng.Intn(2) == 0 {
				k.id = p.id
			}
			k.decId = p.id
		case "dupids":
			if nc > 1 {
				i, j := c.Rng.Intn(nc), c.Rng.Intn(nc)
				if i != j {
					if b.calls[j].id == b.calls[j].decId {
						b.calls[j].decId = b.calls[i].id
					}
					b.calls[j].id = b.calls[i].id
				}
			}
		}
	}
	b.ret = c09c2Binds(c, c.Rng.Intn(4), c.Rng.Intn(12) == 0)
	if c.Rng.Intn(6) == 0 {
		b.retWild = c09c2Wild(c)
	}
	if c.Rng.Intn(2) == 0 {
		b.retained = true
		for n := c.Rng.Intn(4); n > 0; n-- {
			if c.Rng.Intn(15) == 0 {
				b.retain = append(b.retain, c09callExp(c, 1))
			} else {
				b.retain = append(b.retain, c09callRef(c))
			}
		}
	}
	if nc > 0 {
		fix := func(r *c09cx) {
			if !r.self && c.Rng.Intn(2) == 0 {
				r.id = b.calls[c.Rng.Intn(nc)].id
			}
		}
		for _, bd := range b.ret {
			c09c2WalkRefs(bd.exp, fix)
		}
		for _, e := range b.retain {
			c09c2WalkRefs(e, fix)
		}
	}
	return p
}

func (p *c09pCase) spellable() bool {
	for _, q := range append(append([]c09dParam{}, p.ins...), p.outs...) {
		if !c09dSpellable(q.help) || !c09dSpellable(q.out) {
			return false
		}
	}
	return true
}

// spell: a non-canonical spelling, calls in source order
func (p *c09pCase) spell(c *Ctx) (text string, decoy bool) {
	var sb strings.Builder
	ws := func() string { return []string{"", " ", "\n", "\t ", "  "}[c.Rng.Intn(5)] }
	sb.WriteString(ws() + "pipeline" + []string{" ", "\n", "\t"}[c.Rng.Intn(3)] + p.id + ws() + "(")
	sb.WriteString(c09dSpellParams(c, append(append([]c09dParam{}, p.ins...), p.outs...)))
	sb.WriteString(")" + ws() + "{")
	body, decoy := p.body.spell(c)
	sb.WriteString(body)
	return sb.String(), decoy
}

// ---- dump of the real AST in the driver's word format ----

func c09pOnePipeline(ast *syntax.Ast) (*syntax.Pipeline, string) {
	if ast.Call != nil || ast.Callables == nil || len(ast.Callables.List) != 1 || len(ast.UserTypes) > 0 ||
		len(ast.StructTypes) > 0 || len(ast.Includes) > 0 {
		return nil, "other: not one pipeline"
	}
	p, ok := ast.Callables.List[0].(*syntax.Pipeline)
	if !ok {
		return nil, "other: not a pipeline"
	}
	return p, ""
}

func c09pDumpPipeline(p *syntax.Pipeline) string {
	var ins, outs []c09dParam
	for _, q := range c09dParamsOf(p.InParams, p.OutParams) {
		if q.isOut {
			outs = append(outs, q)
		} else {
			ins = append(ins, q)
		}
	}
	w := []string{hx(p.Id), c09dEncParams(ins), c09dEncParams(outs), strconv.Itoa(len(p.Calls))}
	for _, cs := range p.Calls {
		if bad := c09c2DumpCall(&w, cs); bad != "" {
			return "bad: " + bad
		}
	}
	if p.Ret == nil {
		return "bad: Ret == nil"
	}
	if bad := c09c2DumpBinds(&w, p.Ret.Bindings); bad != "" {
		return "bad: " + bad
	}
	if p.Retain == nil {
		w = append(w, "_")
	} else {
		w = append(w, "R", strconv.Itoa(len(p.Retain.Refs)))
		for _, e := range p.Retain.Refs {
			c09callEncW(e, &w)
		}
	}
	return "some " + strings.Join(w, " ")
}

// c09pDump parses a file with the real parser: "none", "other: …", or "some <enc>".
func c09pDump(text string) (string, *syntax.Pipeline) {
	ast, err, pan := c09Parse([]byte(text), "pipe.mro")
	if pan != "" {
		return "panic: " + pan, nil
	}
	if err != nil || ast == nil {
		return "none", nil
	}
	p, other := c09pOnePipeline(ast)
	if p == nil {
		return other, nil
	}
	return c09pDumpPipeline(p), p
}

// c09pRealDeps: topoSort error, and (distinct call ids, no error) the closed dependency pairs by position
func c09pRealDeps(p *syntax.Pipeline) (isErr bool, pairs string, distinct bool) {
	pos := map[string]int{}
	distinct = true
	for i, cs := range p.Calls {
		if _, dup := pos[cs.Id]; dup {
			distinct = false
		}
		pos[cs.Id] = i
	}
	closed, err := syntax.VerifClosedDeps(p)
	if err != nil {
		return true, "", distinct
	}
	var ps [][2]int
	for a, ds := range closed {
		for _, b := range ds {
			ps = append(ps, [2]int{pos[a], pos[b]})
		}
	}
	sort.Slice(ps, func(i, j int) bool { return ps[i][0] < ps[j][0] || ps[i][0] == ps[j][0] && ps[i][1] < ps[j][1] })
	var ws []string
	for _, e := range ps {
		ws = append(ws, fmt.Sprintf("%d-%d", e[0], e[1]))
	}
	if len(ws) == 0 {
		return false, ".", distinct
	}
	return false, strings.Join(ws, ","), distinct
}

var c09pNearMisses = []string{
	"pipeline P()\n{\n}\n",
	"pipeline P() {}",
	"pipeline P(\n)\n{\n    return ()\n}\n",
	"pipeline P(\n)\n{\n    call A()\n}\n",
	"pipeline P(\n)\n{\n    call A()\n    return ()\n}\n",
	"pipeline P(\n)\n{\n    return ()\n    call A()\n}\n",
	"pipeline P(\n)\n{\n    call A()\n    retain (A.o,)\n    return ()\n}\n",
	"pipeline P(\n)\n{\n    call A()\n    return ()\n    retain (A.o,)\n}\n",
	"pipeline P(\n    out int r,\n    in  int a,\n)\n{\n    call A()\n    return ()\n}\n",
	"pipeline P(\n    in  int a,\n    out int r,\n)\n{\n    call A(x = self.a,)\n    return (r = A.o,)\n}\n",
	"pipeline P(\n    in  int a,\n    in  int b \"help\",\n    out int r \"h\" \"name\",\n    out int,\n)\n{\n    call A(x = self.a,)\n    return (r = A.o,)\n}\n",
	"pipeline P(in int a, out int r,) { call B(x = A.o,) call A(x = self.a,) return (r = B.o,) }",
	"pipeline P(in int a, out int r,) { call C(x = B.o,) call B(x = A.o,) call A(x = self.a,) return (r = C.o,) }",
	"pipeline P(in int a, out int r,) { call B(x = 1,) using (disabled = A.o,) call A(x = self.a,) return (r = B.o,) }",
	"pipeline P(in int a, out int r,) { call B(* = A,) call A(x = self.a,) return (* = B,) }",
	"pipeline P(in int a, out int r,) { map call B(x = split A.o,) call A(x = self.a,) return (r = B.o,) }",
	"pipeline P(in int a, out int r,) { call B(x = [{\"k\": A.o}],) call A(x = self.a,) return (r = B.o,) }",
	"pipeline P(in int a, out int r,) { call B(x = {f: A.o, g: 1},) call A(x = self.a,) return (r = B.o,) }",
	"pipeline P(in int a, out int r,) { call B(x = A.o,) call A(x = B.o,) return (r = B.o,) }",
	"pipeline P(in int a, out int r,) { call C(x = 1,) call B(x = A.o,) call A(x = B.o,) return (r = B.o,) }",
	"pipeline P(in int a, out int r,) { call B(x = B.o,) call A(x = 1,) return (r = B.o,) }",
	"pipeline P(in int a, out int r,) { call B(x = A.o,) call A(x = 1,) call P(y = 2,) return (r = B.o,) }",
	"pipeline P(in int a, out int r,) { call B(x = A.o,) call A(x = 1,) call Q as P(y = 2,) return (r = B.o,) }",
	"pipeline P(in int a, out int r,) { call B(x = A.o,) call P as A(x = 1,) return (r = B.o,) }",
	"pipeline P(in int a, out int r,) { call B(x = A.o,) call A(x = 1,) call A(y = 2,) return (r = B.o,) }",
	"pipeline P(in int a, out int r,) { call A(x = 1,) call B(x = A.o,) call A(y = 2,) return (r = B.o,) }",
	"pipeline P(in int a, out int r,) { call A(x = A.o,) call B(x = 1,) call A(y = 2,) return (r = B.o,) }",
	"pipeline P(in int a, out int r,) { call A(x = B.o,) call B(x = A.o,) call A(y = 2,) return (r = B.o,) }",
	"pipeline P(in int a, out int r,) { call A(x = B.o,) call B(x = 1,) call A(y = B.o,) return (r = B.o,) }",
	"pipeline P(in int a, out int r,) { call X(a = B.o,) call Y as X() call C(c = X.o,) call B() return (r = C.o,) }",
	"pipeline P(in int a, out int r,) { call X(a = C.o,) call Y as X() call C(c = X.o,) return (r = C.o,) }",
	"pipeline P(in int a, out int r,) { call B(x = Z.o,) call A(x = self.b,) return (r = B.o,) }",
	"pipeline P(in int a, out int r,) { call B(x = self.A,) call A(x = 1,) return (r = B.o,) }",
	"pipeline P(in int a, out int r,) { call B(x = \"A.o\",) call A(x = 1,) return (r = B.o,) }",
	"pipeline P(in int a, out int r,) { call B(x = A.default,) call A(x = 1,) return (r = B,) retain (B.o, A,) }",
	"pipeline P(in int a, out int r,) { call local B(x = A,) call volatile A(x = 1,) return (r = B,) }",
	"pipeline P(in int a, out int r,) { call D(x = C.o,) call C(x = [A.o, B.o],) call B(y = A.o,) call A() return (r = D,) }",
	"pipeline P(in int a, out int r,) { call D(x = B.o,) call C(x = A.o,) call B() call A() return (r = D,) }",
	"pipeline P(in int a out int r) { return () }",
	"pipeline P(in int a, out int r,) return () }",
	"pipeline P(in int a, out int r,) { return () } }",
	"pipeline (in int a, out int r,) { return () }",
	"pipeline pipeline(in int a,) { return () }",
	"pipeline retain(in int a,) { return (retain = retain,) retain (retain,) }",
	"pipeline local(in int local,) { call local local() return () }",
	"pipeline P(in int a,) { return () }\npipeline Q(in int a,) { return () }\n",
	"Pipeline P(in int a,) { return () }",
	"pipeline P(in int a, src py \"x\",) { return () }",
	"pipeline P(in map<int> a, out map<string[]>[] r \"h\",) { return (r = self.a,) }",
	"pipeline P(in int a,) { call A() using (disabled = self.a,) call B() using (disabled = A.x,) return () }",
	"pipeline P(in int a,) { call B() using (disabled = A.x,) call A() using (disabled = B.x,) return () }",
}

func c09Pipe(c *Ctx) {
	r := c.Res
	n := 800
	if c.Thorough {
		n *= 5
	}
	mismatch := func(key, what, broken string, in map[string]interface{}, impl, model string) {
		r.violate(Violation{Kind: "correspondence", Key: key, What: what, Input: in, Impl: impl, Model: model, Broken: broken})
	}
	property := func(key, what string, in map[string]interface{}, impl string) {
		r.violate(Violation{Kind: "property", Key: key, What: what, Input: in, Impl: impl,
			Expect: "formatting a pipeline twice gives the first result; the output denotes the same pipeline up to call order"})
	}
	const bParse = "correspondence C09.parsepipeline (Martian.FormatPipe.parsePipeline vs UncheckedParse)"
	const bFmt = "correspondence C09.fmtpipeline (Martian.FormatPipe.fmtPipeline, sortCalls, callEdges vs Pipeline.format, topoSort, directDepsMap)"
	const bDeps = "correspondence C09.calledges (Martian.FormatPipe.callEdges, depsError, callCycle vs directDepsMap, addNextDeps)"

	// a text known to the harness, with what the model says about it
	type textCase struct {
		text     string
		in       map[string]interface{}
		mparse   string // model's parsePipeline
		real     string // real dump
		realP    *syntax.Pipeline
		mfmt     string // model's fmtPipeline of what the model read
		medges   string // model's calledges of what the real parser read
		mclosure string
	}
	var texts []*textCase
	addText := func(text string, in map[string]interface{}) *textCase {
		t := &textCase{text: text, in: in}
		texts = append(texts, t)
		return t
	}

	pools := c09pMakePools(c, 4*n+8, n)
	cases := make([]*c09pCase, n)
	encs := make([]string, n)
	var reqs [][]string
	for i := range cases {
		cases[i] = c09pGen(c, pools)
		encs[i] = cases[i].enc()
		reqs = append(reqs, []string{"C09.fmtpipeline-raw", encs[i]}, []string{"C09.fmtpipeline", encs[i]},
			[]string{"C09.wfpipeline", encs[i]}, []string{"C09.normpipeline", encs[i]}, []string{"C09.calledges", encs[i]})
	}
	reps := c.Drv.AskBatch(reqs)
	type perCase struct{ raw, fmtd, resp *textCase }
	pcs := make([]perCase, n)
	var reqsN [][]string
	for i, p := range cases {
		raw, fmtd := unhx(reps[5*i]), unhx(reps[5*i+1])
		pcs[i].raw = addText(raw, map[string]interface{}{"pipeline": encs[i], "text": raw, "which": "model text, calls in source order"})
		pcs[i].fmtd = addText(fmtd, map[string]interface{}{"pipeline": encs[i], "text": fmtd, "which": "model text, calls sorted"})
		if p.spellable() && c.Rng.Intn(2) == 0 {
			t, decoy := p.spell(c)
			pcs[i].resp = addText(t, map[string]interface{}{"pipeline": encs[i], "text": t, "which": "respelling, calls in source order", "decoy_using_block": decoy})
		}
		norm := reps[5*i+3]
		reqsN = append(reqsN, []string{"C09.fmtpipeline", norm}, []string{"C09.wfpipeline", norm}, []string{"C09.normpipeline", norm})
	}
	repsN := c.Drv.AskBatch(reqsN)
	nGen := len(texts)
	for _, t := range c09pNearMisses {
		addText(t, map[string]interface{}{"text": t, "which": "near miss"})
	}

	// model parse of every text; real parse
	var reqsP [][]string
	for _, t := range texts {
		reqsP = append(reqsP, []string{"C09.parsepipeline", hx(t.text)})
		t.real, t.realP = c09pDump(t.text)
	}
	repsP := c.Drv.AskBatch(reqsP)
	var reqsF [][]string
	var idxF []*textCase
	for j, t := range texts {
		t.mparse = repsP[j]
		if strings.HasPrefix(t.mparse, "some ") {
			reqsF = append(reqsF, []string{"C09.fmtpipeline", strings.TrimPrefix(t.mparse, "some ")})
			idxF = append(idxF, t)
		}
	}
	repsF := c.Drv.AskBatch(reqsF)
	for j, t := range idxF {
		t.mfmt = unhx(repsF[j])
	}
	var reqsE [][]string
	var idxE []*textCase
	for _, t := range texts {
		if strings.HasPrefix(t.real, "some ") {
			reqsE = append(reqsE, []string{"C09.calledges", strings.TrimPrefix(t.real, "some ")})
			idxE = append(idxE, t)
		}
	}
	repsE := c.Drv.AskBatch(reqsE)
	var reqsC [][]string
	for j, t := range idxE {
		t.medges = repsE[j]
		f := strings.Split(t.medges, " ")
		edges := "."
		if len(f) == 3 {
			edges = f[2]
		}
		reqsC = append(reqsC, []string{"C09.closure", strconv.Itoa(len(t.realP.Calls)), edges})
	}
	repsC := c.Drv.AskBatch(reqsC)
	for j, t := range idxE {
		t.mclosure = repsC[j]
	}

	// ---- every text: parse, format, dependencies, monitors ----
	for j, t := range texts {
		kind := "gen"
		if j >= nGen {
			kind = "near-miss"
			r.count("pipenm:"+t.text, true)
		}
		r.hist("pipe-text:" + kind + ":real=" + strings.SplitN(t.real, " ", 2)[0])
		if strings.HasPrefix(t.real, "other:") {
			continue
		}
		if t.real != t.mparse {
			mismatch("C09:pipeline-parse-mismatch", "the pipeline the real parser reads (Id, params, calls in order, Ret, Retain) differs from the model's parsePipeline", bParse, t.in, t.real, t.mparse)
			continue
		}
		if !strings.HasPrefix(t.real, "some ") {
			continue
		}
		// dependencies
		realErr, realPairs, distinct := c09pRealDeps(t.realP)
		f := strings.Split(t.medges, " ")
		if len(f) != 3 {
			mismatch("C09:pipeline-deps-mismatch", "bad calledges reply", bDeps, t.in, "", t.medges)
			continue
		}
		mErr := f[0] == "err=true" || f[1] == "cycle=true"
		if realErr != mErr {
			mismatch("C09:pipeline-deps-mismatch", "directDepsMap/addNextDeps return an error iff the model says depsError or callCycle", bDeps, t.in, fmt.Sprint("error=", realErr), t.medges)
		} else if !realErr && distinct {
			cf := strings.Split(t.mclosure, " ")
			if len(cf) != 3 || cf[2] != realPairs {
				mismatch("C09:pipeline-deps-mismatch", "the closed dependency map of the real code differs from the closure of the model's callEdges", bDeps, t.in, realPairs, t.medges+" closure: "+t.mclosure)
			}
		}
		r.hist(fmt.Sprintf("pipe-deps:%s:err=%v", kind, realErr))
		// the formatter
		out, err, pan := c09Format([]byte(t.text), "pipe.mro")
		if pan != "" || err != nil || out != t.mfmt {
			mismatch("C09:pipeline-format-mismatch", "FormatSrcBytes differs from the model's fmtPipeline of the pipeline read from the text", bFmt, t.in, c09c2Impl(out, err, pan), t.mfmt)
			continue
		}
		// monitors on the real code
		out2, err2, pan2 := c09Format([]byte(out), "pipe.mro")
		if pan2 != "" || err2 != nil || out2 != out {
			in := map[string]interface{}{"source": t.text, "formatted": out, "formatted_twice": c09c2Impl(out2, err2, pan2)}
			key, what := "C09:pipeline-not-idempotent", "format(format(x)) differs from format(x) for a pipeline declaration"
			if !distinct {
				// callMap[id] is the LAST call with that id: the first sort can change which one that is
				key += ":duplicate-call-ids"
				what += " in which two calls have the same id"
			}
			property(key, what, in, c09c2Impl(out2, err2, pan2))
		}
		ast0, _, _ := c09Parse([]byte(t.text), "pipe.mro")
		ast1, e1, p1 := c09Parse([]byte(out), "pipe.mro")
		if ast0 != nil {
			if ast1 == nil || e1 != nil || p1 != "" {
				property("C09:pipeline-ast-changed", "the formatted pipeline is rejected by the parser", map[string]interface{}{"source": t.text, "formatted": out}, fmt.Sprint(e1, p1))
			} else if d := c09DiffDump(c09Dump(ast0, true), c09Dump(ast1, true)); d != "" {
				property("C09:pipeline-ast-changed", "formatting changed the pipeline (compared up to call order): "+d, map[string]interface{}{"source": t.text, "formatted": out}, d)
			}
		}
	}

	// ---- generated cases: the text in source order formats to the model's fmtPipeline; theorems evaluated ----
	for i, p := range cases {
		wf, norm, edges := reps[5*i+2] == "wf=true", reps[5*i+3], reps[5*i+4]
		raw, fmtd := pcs[i].raw, pcs[i].fmtd
		fmtNorm, wfNorm, normNorm := unhx(repsN[3*i]), repsN[3*i+1], repsN[3*i+2]
		moved := raw.text != fmtd.text
		ef := strings.Split(edges, " ")
		st := "ok"
		if len(ef) == 3 && ef[0] == "err=true" {
			st = "error"
		} else if len(ef) == 3 && ef[1] == "cycle=true" {
			st = "cycle"
		}
		r.hist(fmt.Sprintf("pipe:wf=%v,mode=%s,deps=%s,moved=%v", wf, p.mode, st, moved))
		r.hist(fmt.Sprintf("pipe:calls=%d", len(p.body.calls)))
		r.count("pipe:"+encs[i], moved)
		if i%397 == 0 {
			r.sample(map[string]string{"pipeline_source_order": raw.text, "formatted": fmtd.text, "calledges": edges})
		}
		in := map[string]interface{}{"pipeline": encs[i], "text": raw.text}
		if wf {
			if !strings.HasPrefix(raw.real, "some ") {
				mismatch("C09:pipeline-parse-mismatch", "the model's text (source order) of a well-formed pipeline is rejected by the real parser", bParse, in, raw.real, "some …")
			} else if out, err, pan := c09Format([]byte(raw.text), "pipe.mro"); pan != "" || err != nil || out != fmtd.text {
				mismatch("C09:pipeline-format-mismatch", "FormatSrcBytes on the model's text with calls in source order differs from the model's fmtPipeline (sortCalls/callEdges vs topoSort/directDepsMap)", bFmt, in, c09c2Impl(out, err, pan), fmtd.text)
			}
			if fmtd.mparse != "some "+norm {
				mismatch("C09:pipeline-roundtrip-model", "parsePipeline (fmtPipeline p) is not normPipeline p for a well-formed pipeline (theorem parse_format_pipeline evaluated)", "Props.C09.parse_format_pipeline", in, "", fmtd.mparse+" / expected some "+norm)
			}
			if fmtNorm != fmtd.text {
				mismatch("C09:pipeline-roundtrip-model", "fmtPipeline (normPipeline p) differs from fmtPipeline p (theorem format_pipeline_idem evaluated)", "Props.C09.format_pipeline_idem", in, "", fmtNorm+" / expected "+fmtd.text)
			}
			if wfNorm != "wf=true" || normNorm != norm {
				mismatch("C09:pipeline-roundtrip-model", "normPipeline p is not well formed or not a fixed point of normPipeline (normPipeline_stable evaluated)", "Props.C09.normPipeline_stable", in, "", wfNorm+" "+normNorm)
			}
			if raw.mfmt != fmtd.text && strings.HasPrefix(raw.mparse, "some ") {
				mismatch("C09:pipeline-roundtrip-model", "the model formats the pipeline it reads from its own source-order text differently from the pipeline itself", "Props.C09.format_pipeline_idem", in, "", raw.mfmt+" / expected "+fmtd.text)
			}
			if rs := pcs[i].resp; rs != nil {
				if !strings.HasPrefix(rs.real, "some ") {
					mismatch("C09:pipeline-parse-mismatch", "a respelling of a well-formed pipeline is rejected", bParse, rs.in, rs.real, "some …")
				} else if decoy, _ := rs.in["decoy_using_block"].(bool); !decoy && rs.mfmt != fmtd.text {
					mismatch("C09:pipeline-format-mismatch", "the formatted respelling differs from the formatted pipeline", bFmt, rs.in, rs.mfmt, fmtd.text)
				}
			}
		}
	}

	// ---- accepted texts: the hypotheses of Props.C09 (AcceptedCallTexts) on what the REAL parser returned ----
	var hEncs, hTexts []string
	for _, t := range texts {
		if strings.HasPrefix(t.real, "some ") {
			hEncs = append(hEncs, strings.TrimPrefix(t.real, "some "))
			hTexts = append(hTexts, t.text)
		}
	}
	c09AcceptedHyps(c, "pipeline", "C09.pipehyps", hEncs, hTexts)
}
