package main

// C04 / C14: one pipestance run under Tier A with volatile data removal
// enabled, observed closely: the tree is snapshotted before every scheduler
// step (what the stages have written), after every step behind a storage
// barrier (what VDR removed), right before the final VDRKill, after it and
// after post-processing.  The monitors of both properties run here on the
// real code; the requests for the Lean model (one-step correspondence of
// partialVdrKill on the real bookkeeping state and whole-run replay from the
// initial bookkeeping) are returned to the parent, which owns the driver.

import (
	"context"
	"encoding/json"
	"fmt"
	"math/rand"
	"os"
	"path"
	"path/filepath"
	"runtime"
	"sort"
	"strings"
	"time"

	"github.com/martian-lang/martian/martian/core"
	"github.com/martian-lang/martian/martian/syntax"
)

// VdrSpec is one run.
type VdrSpec struct {
	Index         int     `json:"index"`
	Name          string  `json:"name"`
	Src           string  `json:"src"`
	Seed          int64   `json:"seed"`
	VdrMode       string  `json:"vdr"`
	CrashAt       []int   `json:"crash_at,omitempty"`
	CrashSurvive  float64 `json:"crash_survive"`
	InlineFinish  float64 `json:"inline_finish"`
	StartSeparate float64 `json:"start_separate"`
	StepBias      float64 `json:"step_bias"`
	Adversarial   bool    `json:"adversarial"`
	LateConsumers bool    `json:"late"` // consumers are finished as late as possible
	TimeoutS      int     `json:"timeout_s"`
	NoExtra       bool    `json:"no_extra"`   // stages write nothing beyond what their outputs name (and tmp files)
	FailChunk     bool    `json:"fail_chunk"` // the first chunk of a volatile splitting stage fails once; mrp is restarted (retry)
	// the pipestance directory is reached through a symbolic link, and stages
	// report some of their files by their canonical (fully resolved) path
	LinkedRoot bool `json:"linked_root"`
	// a job that takes pipestance files as arguments (the FailAt-th such launch)
	// fails once in the given way (errors | assert | exit); the other jobs in
	// flight finish before mrp looks again; mrp is restarted (retry)
	FailConsumer string `json:"fail_consumer,omitempty"`
	FailAt       int    `json:"fail_at,omitempty"`
	// between the death of mrp (first crash) and its restart a sub-pipeline's
	// directory is moved out of the pipestance directory and linked back
	RelocateSub bool `json:"relocate_sub,omitempty"`
	// what is relocated: "" a sub-pipeline directory; "fork" a stage's fork directory, "job" a
	// job's real directory (chnkN-u…), "files" a job's files directory
	RelocLevel string `json:"reloc_level,omitempty"`
}

// With a linked root: the canonical spelling of the pipestance directory and
// the spelling mrp uses; paths found in JSON are brought to the latter.
var vdrAliasFrom, vdrAliasTo string

// every entry (not only links) carries its other logical names
var vdrAllAlts bool

type vdrEnt struct {
	Kind string `json:"k"` // f d l
	Size int64  `json:"s"`
	// for a symbolic link: the size of what it points to (what a walk that
	// starts at the link reports) and the link text
	Follow int64  `json:"f,omitempty"`
	Dest   string `json:"d,omitempty"`
	// the other logical names getLogicalFileNames gives for the link
	Alts []string `json:"a,omitempty"`
	// content hash of a regular file below a job's files/ or tmp/ directory (full snapshots only)
	Hash uint32 `json:"h,omitempty"`
}

// sizeAsWalked: the size the VDR code records for the entry (a symbolic
// link is an entry of its own size; Walk does not follow it).
func sizeAsWalked(rel string, e vdrEnt) int64 { return e.Size }

// VdrViolation is a monitor failure found by the worker.
type VdrViolation struct {
	Prop  string `json:"prop"` // C04 | C14
	Kind  string `json:"kind"` // property | correspondence
	Key   string `json:"key"`
	What  string `json:"what"`
	Extra string `json:"extra,omitempty"`
}

// VdrModelCheck is a request for the Lean model with the reply the real code
// corresponds to.
type VdrModelCheck struct {
	Prop   string   `json:"prop"`
	Name   string   `json:"name"` // which correspondence
	Req    []string `json:"req"`
	Expect string   `json:"expect"`
	What   string   `json:"what"`
	// compare only what happened to the disk and the report (the bookkeeping
	// maps are rebuilt when mrp restarts)
	DiskOnly bool `json:"disk_only,omitempty"`
}

type VdrResult struct {
	Index      int               `json:"index"`
	Name       string            `json:"name"`
	Final      string            `json:"final"`
	ErrMsg     string            `json:"errmsg,omitempty"`
	Compile    string            `json:"compile,omitempty"`
	Violations []VdrViolation    `json:"violations,omitempty"`
	Checks     []VdrModelCheck   `json:"checks,omitempty"`
	Hist       map[string]int    `json:"hist,omitempty"`
	Canon      string            `json:"canon"`
	Nontrivial bool              `json:"nontrivial"`
	NEvents    int               `json:"n_events"`
	Incs       int               `json:"incs"`
	Sample     map[string]string `json:"sample,omitempty"`
	Crashed    bool              `json:"crashed,omitempty"`
	WallMs     int64             `json:"wall_ms"`
	Debug      interface{}       `json:"debug,omitempty"`
}

type vdrRun struct {
	spec    *VdrSpec
	r       *TARun
	res     *VdrResult
	psdir   string
	outside map[string]string // sentinel path -> content
	extDir  string            // a directory with data outside the pipestance
	extFile string            // a file outside the pipestance
	// every entry ever seen below a job's files/ or tmp/ directory
	// (relative path -> kind/size at first sighting)
	ever map[string]vdrEnt
	// relative path -> event number at which it was found gone
	gone map[string]int
	// entries that disappeared during a crash/restart (reset, not VDR)
	resetGone map[string]bool
	// content of stage-written files (relative)
	written     map[string]string
	writtenBy   map[string]string // relative path -> job key
	tmpFiles    map[string]bool
	initView    map[string]core.VerifVdrFork // node fqname -> bookkeeping at construction (fork 0)
	retained    map[string][]string          // node fqname -> retained output ids (from the program)
	stageVol    map[string]string            // stage name -> "", "strict", "false"
	callVol     map[string]bool              // node fqname -> call-level volatile
	preFinal    *vdrSnapshot
	postKill    *vdrSnapshot
	final       *vdrSnapshot
	launchArg   map[string][]string // job key -> pipestance paths named in its args
	lastDone    map[string]bool
	preNames    map[string]vdrArgNames // fork dir -> names per argument at the pre-final snapshot
	stageOfNode map[string]*syntax.Stage
	faultSet    bool
	retried     bool
	faultKey    string
	nFileLaunch int
	reloc       *vdrReloc
	knownForks  map[string]bool
	bindEnc     map[string]map[string]vdrNodeBinding
	nReach      int
}

type vdrSnapshot struct {
	Tree  map[string]vdrEnt
	Forks []core.VerifVdrFork
	// forks below a relocated (linked) sub-pipeline directory
	RelocForks []core.VerifVdrFork
	Nodes      map[string]core.MetadataState
	Reports    map[string]json.RawMessage // relative path of _vdrkill / _vdrkill.partial -> content
	Outs       map[string]json.RawMessage // fork path (relative) -> _outs
}

func (v *vdrRun) hist(k string) {
	if v.res.Hist == nil {
		v.res.Hist = map[string]int{}
	}
	v.res.Hist[k]++
}

func (v *vdrRun) violate(prop, kind, key, what string, extra interface{}) {
	for _, o := range v.res.Violations {
		if o.Key == key && o.What == what {
			return
		}
	}
	ex := ""
	if extra != nil {
		b, _ := json.Marshal(extra)
		ex = string(b)
		if len(ex) > 4000 {
			ex = ex[:4000]
		}
	}
	v.res.Violations = append(v.res.Violations, VdrViolation{Prop: prop, Kind: kind, Key: key, What: what, Extra: ex})
}

func (v *vdrRun) rel(p string) string { return strings.TrimPrefix(p, v.psdir+"/") }

// lstatTree lists everything below root (relative names, Lstat kinds/sizes).
func lstatTree(root string) map[string]vdrEnt {
	out := map[string]vdrEnt{}
	filepath.Walk(root, func(p string, info os.FileInfo, err error) error {
		if err != nil {
			return nil
		}
		rel, _ := filepath.Rel(root, p)
		if rel == "." {
			return nil
		}
		switch {
		case info.Mode()&os.ModeSymlink != 0:
			e := vdrEnt{Kind: "l", Size: info.Size(), Follow: info.Size()}
			e.Dest, _ = os.Readlink(p)
			if st, err := os.Stat(p); err == nil {
				e.Follow = st.Size()
			}
			for _, n := range core.VerifLogicalFileNames(p) {
				if n != p {
					e.Alts = append(e.Alts, n)
				}
			}
			out[rel] = e
		case info.IsDir():
			out[rel] = vdrEnt{Kind: "d", Size: info.Size()}
		default:
			out[rel] = vdrEnt{Kind: "f", Size: info.Size()}
		}
		if vdrAllAlts && info.Mode()&os.ModeSymlink == 0 {
			if _, _, ok := stageRegion(rel); ok {
				e := out[rel]
				for _, n := range core.VerifLogicalFileNames(p) {
					if n != p {
						e.Alts = append(e.Alts, n)
					}
				}
				out[rel] = e
			}
		}
		return nil
	})
	return out
}

// stageRegion: is rel strictly below a job's files/ or tmp/ directory?
// returns the job directory (…/forkN/chnkM-u…), the region and whether it is.
func stageRegion(rel string) (jobdir, region string, ok bool) {
	parts := strings.Split(rel, "/")
	for i := 0; i+2 < len(parts); i++ {
		if !strings.HasPrefix(parts[i], "fork") {
			continue
		}
		j := parts[i+1]
		if !(strings.HasPrefix(j, "chnk") || strings.HasPrefix(j, "split") || strings.HasPrefix(j, "join")) {
			continue
		}
		if parts[i+2] == "files" || parts[i+2] == "tmp" {
			if i+3 < len(parts) {
				return strings.Join(parts[:i+2], "/"), parts[i+2], true
			}
			return "", "", false
		}
	}
	return "", "", false
}

// forkDirOf returns the fork directory (…/forkN) a relative path lies in.
func forkDirOf(rel string) string {
	parts := strings.Split(rel, "/")
	for i := len(parts) - 1; i >= 0; i-- {
		if strings.HasPrefix(parts[i], "fork") && i+1 < len(parts) {
			j := parts[i+1]
			if strings.HasPrefix(j, "chnk") || strings.HasPrefix(j, "split") || strings.HasPrefix(j, "join") || j == "files" || strings.HasPrefix(j, "_") {
				return strings.Join(parts[:i+1], "/")
			}
		}
	}
	return ""
}

func (v *vdrRun) snapshot(full bool) *vdrSnapshot {
	s := &vdrSnapshot{Tree: lstatTree(v.psdir)}
	for rel, e := range s.Tree {
		if _, _, ok := stageRegion(rel); ok && !v.underReloc(rel) {
			if _, seen := v.ever[rel]; !seen {
				v.ever[rel] = e
			}
		}
	}
	if full {
		for rel, e := range s.Tree {
			if e.Kind != "f" {
				continue
			}
			if _, _, ok := stageRegion(rel); ok {
				if b, err := os.ReadFile(path.Join(v.psdir, rel)); err == nil {
					e.Hash = uint32(hash64("content", string(b)))%1000000007 + 1
					s.Tree[rel] = e
				}
			}
		}
	}
	if full && v.r.ps != nil {
		s.Forks = v.r.ps.VerifVdrView()
		if v.reloc != nil {
			var kept []core.VerifVdrFork
			for _, f := range s.Forks {
				if !v.underReloc(v.rel(f.Path)) {
					kept = append(kept, f)
				} else {
					s.RelocForks = append(s.RelocForks, f)
				}
			}
			s.Forks = kept
		}
		s.Nodes = v.r.ps.VerifNodeStates()
		s.Reports = map[string]json.RawMessage{}
		s.Outs = map[string]json.RawMessage{}
		for rel := range s.Tree {
			base := path.Base(rel)
			if base == "_vdrkill" || base == "_vdrkill.partial" {
				if b, err := os.ReadFile(path.Join(v.psdir, rel)); err == nil {
					s.Reports[rel] = b
				}
			}
			if base == "_outs" && strings.HasPrefix(path.Base(path.Dir(rel)), "fork") {
				if b, err := os.ReadFile(path.Join(v.psdir, rel)); err == nil {
					s.Outs[path.Dir(rel)] = b
				}
			}
		}
	}
	return s
}

// observe: after a step (behind a storage barrier): which entries went away,
// and is each removal allowed (C04 safety: nothing that an unfinished
// consumer or the top level still names).
// checkOutside: the data outside the pipestance directory is as it was.
func (v *vdrRun) checkOutside(key, by string) {
	for p, c := range v.outside {
		if b, err := os.ReadFile(p); err != nil || string(b) != c {
			v.violate("C14", "property", key,
				fmt.Sprintf("%s (outside the pipestance directory %s) was removed or changed %s", p, v.psdir, by), nil)
			v.outside[p] = string(b) // report once
			if err != nil {
				delete(v.outside, p)
			}
		}
	}
}

func (v *vdrRun) observe(duringReset bool) {
	v.checkOutside("C14:outside-touched", "while the pipestance ran")
	if !duringReset {
		v.checkNewForks()
	}
	tree := lstatTree(v.psdir)
	seq := len(v.r.Events)
	var newly []string
	for rel := range v.ever {
		if _, ok := v.gone[rel]; ok {
			continue
		}
		if _, ok := tree[rel]; !ok {
			// a path below a directory that became a symlink is still reachable
			if _, err := os.Lstat(path.Join(v.psdir, rel)); err == nil {
				continue
			}
			v.gone[rel] = seq
			newly = append(newly, rel)
			if duringReset {
				v.resetGone[rel] = true
			}
		}
	}
	for rel, e := range tree {
		if _, _, ok := stageRegion(rel); ok {
			if _, seen := v.ever[rel]; !seen {
				v.ever[rel] = e
			}
			// rewritten after a reset
			if _, was := v.gone[rel]; was {
				delete(v.gone, rel)
				delete(v.resetGone, rel)
			}
		}
	}
	if duringReset || len(newly) == 0 || v.r.ps == nil {
		return
	}
	sort.Strings(newly)
	// Safety in between barriers: a removed stage-written file must not be
	// named in the arguments of a job that has not finished yet, nor of one
	// that is launched later (checked at launch by the Missing monitor).
	for _, job := range v.r.Jobs {
		if job.Done || job.Dead {
			continue
		}
		for _, p := range v.launchArg[job.Key] {
			for _, g := range newly {
				if vdrOverlap(g, p) {
					v.violate("C04", "property", "C04:removed-while-consumer-running",
						fmt.Sprintf("%s was removed while job %s, whose arguments name %s, has not finished", g, job.Key, p),
						map[string]interface{}{"event": seq})
				}
			}
		}
	}
}

// vdrOverlap: equal, or one is a directory prefix of the other (clean relative or absolute paths).
func vdrOverlap(a, b string) bool {
	return a == b || strings.HasPrefix(a, b+"/") || strings.HasPrefix(b, a+"/")
}

func pathsInJSON(b []byte, prefix string) []string {
	var val interface{}
	if json.Unmarshal(b, &val) != nil {
		return nil
	}
	var ss []string
	jsonStrings(val, &ss)
	var keys func(x interface{})
	keys = func(x interface{}) {
		switch t := x.(type) {
		case []interface{}:
			for _, y := range t {
				keys(y)
			}
		case map[string]interface{}:
			for k, y := range t {
				ss = append(ss, k)
				keys(y)
			}
		}
	}
	keys(val)
	var out []string
	for _, s := range ss {
		if vdrAliasFrom != "" && strings.HasPrefix(s, vdrAliasFrom+"/") {
			s = vdrAliasTo + s[len(vdrAliasFrom):]
		}
		if strings.HasPrefix(s, prefix+"/") {
			out = append(out, path.Clean(s))
		}
	}
	sort.Strings(out)
	return out
}

// outsHook: beyond what the type-directed generator of Tier A writes, stages
// put paths into string / untyped-map outputs, write nested directories,
// files in their tmp directory and files nobody names.
func (v *vdrRun) outsHook(job *TAJob, outs map[string]interface{}) {
	r := v.r
	stage, _ := r.Ast.Callables.Table[job.StageName].(*syntax.Stage)
	if stage == nil {
		return
	}
	if job.ShellName == "split" {
		// the split leaves data in its temp directory
		td := path.Join(job.MetadataPath, "tmp")
		if st, err := os.Stat(td); err == nil && st.IsDir() {
			for i := 0; i < 2; i++ {
				p := path.Join(td, fmt.Sprintf("split_%d.tmp", i))
				c := fmt.Sprintf("split tmp %d %s", i, job.Key)
				if os.WriteFile(p, []byte(c), 0o644) == nil {
					r.Written[p] = c
					v.writtenBy[v.rel(p)] = job.Key
					v.tmpFiles[v.rel(p)] = true
				}
			}
		}
		return
	}
	if strings.HasPrefix(job.StageName, "FLAG") {
		// the run-time flag of a `disabled` modifier: mostly false (the call runs)
		if _, ok := outs["o0"]; ok {
			outs["o0"] = hash64("vdr-flag", job.Key)%4 == 0
			if outs["o0"].(bool) {
				v.hist("shape-sub-pipeline-disabled-at-run-time")
			} else {
				v.hist("shape-sub-pipeline-enabled-behind-disabled-modifier")
			}
		}
		return
	}
	write := func(p, content string) bool {
		if err := os.MkdirAll(path.Dir(p), 0o755); err != nil {
			return false
		}
		if err := os.WriteFile(p, []byte(content), 0o644); err != nil {
			return false
		}
		r.Written[p] = content
		v.writtenBy[v.rel(p)] = job.Key
		return true
	}
	var params []*syntax.OutParam
	if job.ShellName == "main" && stage.Split {
		if stage.ChunkOuts != nil {
			params = stage.ChunkOuts.List
		}
	} else {
		params = stage.OutParams.List
	}
	for _, p := range params {
		rng := rand.New(rand.NewSource(int64(hash64("vdr", job.Key, p.Id))))
		if _, present := outs[p.Id]; !present {
			continue
		}
		switch {
		case p.Tname.Tname == syntax.KindString && p.Tname.ArrayDim == 0 && p.Tname.MapDim == 0:
			shape := rng.Intn(8)
			if shape == 3 { // (more weight on the outputs that go through links)
				shape = []int{7, 5, 4}[rng.Intn(3)]
			}
			switch shape {
			case 7: // the data is in files/data_x, files/current_x -> data_x, the output goes through the link
				real := path.Join(job.FilesPath, "data_"+p.Id, "part.txt")
				lnk := path.Join(job.FilesPath, "current_"+p.Id)
				if write(real, "aliased "+job.Key+" "+p.Id) {
					os.Remove(lnk)
					if os.Symlink("data_"+p.Id, lnk) == nil {
						outs[p.Id] = lnk + "/part.txt"
						v.hist("shape-output-through-linked-directory")
					}
				}
			case 5: // files/extref -> a directory OUTSIDE the pipestance; the output names one file through the link
				lnk := path.Join(job.FilesPath, "extref_"+p.Id)
				os.Remove(lnk)
				if os.Symlink(v.extDir, lnk) == nil {
					outs[p.Id] = lnk + "/y.txt"
					v.hist("shape-output-through-link-to-external-dir")
				}
			case 6: // the output names a link to a FILE outside the pipestance
				lnk := path.Join(job.FilesPath, "extf_"+p.Id+".lnk")
				os.Remove(lnk)
				if os.Symlink(v.extFile, lnk) == nil {
					outs[p.Id] = lnk
					v.hist("shape-output-link-to-external-file")
				}
			case 4: // the output names a symbolic link to data kept elsewhere below files/
				real := path.Join(job.FilesPath, "real_"+p.Id, "data.bin")
				lnk := path.Join(job.FilesPath, "lnk_"+p.Id+".dat")
				if write(real, "linked "+job.Key+" "+p.Id) {
					os.Remove(lnk)
					if os.Symlink(real, lnk) == nil {
						r.Written[lnk] = "linked " + job.Key + " " + p.Id
						v.writtenBy[v.rel(lnk)] = job.Key
						outs[p.Id] = lnk
					}
				}
			case 0: // a path in a plain string
				f := path.Join(job.FilesPath, "str_"+p.Id+".dat")
				if write(f, "string-named "+job.Key+" "+p.Id) {
					outs[p.Id] = f
				}
			case 1: // a file inside a sub directory: the directory is an ancestor of what the output names
				f := path.Join(job.FilesPath, "sub_"+p.Id, "deep", "leaf.dat")
				if write(f, "deep "+job.Key+" "+p.Id) {
					write(path.Join(job.FilesPath, "sub_"+p.Id, "sibling.dat"), "sibling "+job.Key)
					outs[p.Id] = f
				}
			case 2: // names a path outside the pipestance
				for o := range v.outside {
					outs[p.Id] = o
					break
				}
			}
		case p.Tname.Tname == syntax.KindMap && p.Tname.ArrayDim == 0 && p.Tname.MapDim == 0:
			switch rng.Intn(3) {
			case 0:
				f := path.Join(job.FilesPath, "map_"+p.Id+".dat")
				g := path.Join(job.FilesPath, "mapkey_"+p.Id+".dat")
				if write(f, "map-named "+job.Key+" "+p.Id) && write(g, "key-named "+job.Key+" "+p.Id) {
					outs[p.Id] = map[string]interface{}{"n": 3, "nested": map[string]interface{}{"list": []interface{}{1, f}}, g: true}
				}
			case 1:
				outs[p.Id] = map[string]interface{}{"n": 3, "s": "no/leading/slash"}
			}
		}
	}
	// a stage that canonicalises its paths (os.path.realpath) while the
	// pipestance is reached through a symbolic link
	if vdrAliasFrom != "" {
		rr := rand.New(rand.NewSource(int64(hash64("vdr-realpath", job.Key))))
		var canon func(x interface{}) interface{}
		canon = func(x interface{}) interface{} {
			switch t := x.(type) {
			case string:
				if strings.HasPrefix(t, vdrAliasTo+"/") && rr.Intn(2) == 0 {
					v.hist("shape-output-by-canonical-path")
					return vdrAliasFrom + t[len(vdrAliasTo):]
				}
				return t
			case []interface{}:
				for i := range t {
					t[i] = canon(t[i])
				}
				return t
			case map[string]interface{}:
				for k := range t {
					t[k] = canon(t[k])
				}
				return t
			}
			return x
		}
		for k := range outs {
			outs[k] = canon(outs[k])
		}
	}
	v.moreShapes(job, stage, params, outs)
	v.escapeNames(job, outs)
	// unreferenced material: a directory tree under files/ and files in tmp/
	rng := rand.New(rand.NewSource(int64(hash64("vdr-extra", job.Key))))
	if rng.Intn(2) == 0 && !v.spec.NoExtra {
		write(path.Join(job.FilesPath, "scratchdir", "a", "x.bin"), "x "+job.Key)
		write(path.Join(job.FilesPath, "scratchdir", "y.bin"), "y "+job.Key)
	}
	if rng.Intn(3) == 0 && !v.spec.NoExtra {
		// links nobody names, to a directory and to a file outside the pipestance
		a, b := path.Join(job.FilesPath, "extdir_unref"), path.Join(job.FilesPath, "extfile_unref")
		os.Remove(a)
		os.Remove(b)
		if os.Symlink(v.extDir, a) == nil && os.Symlink(v.extFile, b) == nil {
			v.hist("shape-unreferenced-links-to-outside")
		}
	}
	if rng.Intn(3) != 0 {
		td := path.Join(job.MetadataPath, "tmp")
		if st, err := os.Stat(td); err == nil && st.IsDir() {
			if rng.Intn(3) == 0 {
				os.Remove(path.Join(td, "extdir"))
				os.Remove(path.Join(td, "extf"))
				if os.Symlink(v.extDir, path.Join(td, "extdir")) == nil && os.Symlink(v.extFile, path.Join(td, "extf")) == nil {
					v.hist("shape-tmp-links-to-outside")
				}
			}
			if write(path.Join(td, "t1.tmp"), "tmp "+job.Key) {
				v.tmpFiles[v.rel(path.Join(td, "t1.tmp"))] = true
			}
			if rng.Intn(2) == 0 && write(path.Join(td, "td", "t2.tmp"), "tmp2 "+job.Key) {
				v.tmpFiles[v.rel(path.Join(td, "td", "t2.tmp"))] = true
			}
		}
	}
}

func (v *vdrRun) launchHook(job *TAJob) {
	if v.spec.FailChunk && !v.faultSet && job.ShellName == "main" {
		if st, _ := v.r.Ast.Callables.Table[job.StageName].(*syntax.Stage); st != nil && st.Split {
			v.faultSet = true
			v.r.Opts.Faults = append(v.r.Opts.Faults, &Fault{JobKey: job.Key, Kind: "errors"})
			v.hist("chunk-failure-injected")
		}
	}
	v.deliveryCheck(job)
	ps := pathsInJSON(job.Args, v.psdir)
	rels := make([]string, 0, len(ps))
	for _, p := range ps {
		rels = append(rels, v.rel(p))
		if _, err := os.Stat(p); err != nil {
			v.violate("C04", "property", "C04:arg-file-missing-at-start",
				fmt.Sprintf("job %s starts but %s, named in its arguments, does not exist", job.Key, v.rel(p)),
				map[string]interface{}{"event": len(v.r.Events), "args": string(compactJSON(job.Args))})
		} else if want, ok := v.r.Written[p]; ok {
			if got, err := os.ReadFile(p); err != nil || string(got) != want {
				v.violate("C04", "property", "C04:arg-file-changed",
					fmt.Sprintf("job %s starts but %s, named in its arguments, has not its original content", job.Key, v.rel(p)), nil)
			}
		}
	}
	if len(rels) > 0 {
		v.hist("launch-with-file-args")
		if v.r.Launches[job.Key] > 1 {
			v.hist("relaunch-with-file-args")
		}
		if v.spec.FailConsumer != "" && !v.faultSet {
			if v.nFileLaunch == v.spec.FailAt {
				v.faultSet = true
				v.faultKey = job.Key
				v.r.Opts.Faults = append(v.r.Opts.Faults, &Fault{JobKey: job.Key, Kind: v.spec.FailConsumer})
				v.hist("consumer-failure-injected-" + v.spec.FailConsumer + "-" + job.ShellName)
			}
			v.nFileLaunch++
		}
	}
	v.launchArg[job.Key] = rels
}

// staticInfo: retain declarations and volatility from the program text (AST).
func (v *vdrRun) staticInfo() {
	ast := v.r.Ast
	v.retained = map[string][]string{}
	v.stageVol = map[string]string{}
	v.callVol = map[string]bool{}
	v.stageOfNode = map[string]*syntax.Stage{}
	v.walkCalls(func(fq string, call *syntax.CallStm, callable syntax.Callable, parent *syntax.Pipeline, prefix string) {
		if st, ok := callable.(*syntax.Stage); ok {
			v.stageOfNode[fq] = st
		}
	})
	for _, c := range ast.Callables.List {
		if st, ok := c.(*syntax.Stage); ok {
			switch {
			case st.Resources != nil && st.Resources.StrictVolatile:
				v.stageVol[st.Id] = "strict"
			case st.Resources != nil && st.Resources.VolatileNode != nil:
				v.stageVol[st.Id] = "false"
			}
		}
	}
}

func runVdrSpec(spec *VdrSpec, scratch string) *VdrResult {
	res := &VdrResult{Index: spec.Index, Name: spec.Name}
	start := time.Now()
	v := &vdrRun{spec: spec, res: res, ever: map[string]vdrEnt{}, gone: map[string]int{}, resetGone: map[string]bool{},
		writtenBy: map[string]string{}, tmpFiles: map[string]bool{}, launchArg: map[string][]string{}, outside: map[string]string{}}
	opts := TAOpts{VdrMode: spec.VdrMode, CrashSurvive: spec.CrashSurvive, InlineFinish: spec.InlineFinish,
		StartSeparate: spec.StartSeparate, StepBias: spec.StepBias, Adversarial: spec.Adversarial, ExtraFiles: !spec.NoExtra}
	if len(spec.CrashAt) > 0 {
		opts.CrashAt = map[int]bool{}
		for _, c := range spec.CrashAt {
			opts.CrashAt[c] = true
		}
	}
	opts.OutsHook = v.outsHook
	opts.FileHook = func(job *TAJob, param string, p string) { v.writtenBy[v.rel(p)] = job.Key }
	vdrAliasFrom, vdrAliasTo, vdrAllAlts = "", "", false
	if spec.LinkedRoot {
		// scratch/volN is the real place, scratch/homeN -> volN the way mrp is told to go
		vol, _ := os.MkdirTemp(scratch, "vol")
		home := vol + "_home"
		if os.Symlink(path.Base(vol), home) == nil {
			scratch = home
		}
	}
	run, err := NewTARun(spec.Src, scratch, spec.Seed, opts)
	if err != nil {
		res.Final = "compile-error"
		res.Compile = err.Error()
		return res
	}
	defer run.Close()
	v.r = run
	v.psdir = run.PsDir
	if spec.LinkedRoot {
		if real, err := filepath.EvalSymlinks(run.PsDir); err == nil && real != run.PsDir {
			vdrAliasFrom, vdrAliasTo, vdrAllAlts = real, run.PsDir, true
			v.hist("linked-root")
		}
	}
	run.LaunchHook = v.launchHook
	// sentinels outside the pipestance directory: a sibling file, and a
	// sibling directory whose name has the pipestance path as a string prefix
	base := filepath.Dir(run.PsDir)
	for _, s := range []string{path.Join(base, "sentinel.txt"), run.PsDir + "x/inside.txt", run.PsDir + ".bak"} {
		os.MkdirAll(path.Dir(s), 0o755)
		c := "sentinel " + path.Base(s)
		if os.WriteFile(s, []byte(c), 0o644) == nil {
			v.outside[s] = c
		}
	}
	// data outside the pipestance that stages link to from their files/ and tmp/ directories
	v.extDir = path.Join(base, "extdata")
	v.extFile = path.Join(base, "extfile.bin")
	for _, s := range []string{v.extDir + "/x.txt", v.extDir + "/y.txt", v.extDir + "/sub/z.txt", v.extFile} {
		os.MkdirAll(path.Dir(s), 0o755)
		c := "external " + path.Base(s) + strings.Repeat(".", 300)
		if os.WriteFile(s, []byte(c), 0o644) == nil {
			v.outside[s] = c
		}
	}
	v.staticInfo()
	v.initView = map[string]core.VerifVdrFork{}
	for _, f := range run.ps.VerifVdrView() {
		if _, ok := v.initView[f.Node]; !ok {
			v.initView[f.Node] = f
		}
	}
	v.buildChecks()
	v.checkNewForks()
	to := time.Duration(spec.TimeoutS) * time.Second
	if to == 0 {
		to = 40 * time.Second
	}
	done := make(chan struct{})
	go func() {
		defer close(done)
		v.loop()
	}()
	select {
	case <-done:
	case <-time.After(to):
		buf := make([]byte, 1<<16)
		buf = buf[:runtime.Stack(buf, true)]
		run.Final = "hang"
		run.ErrMsg = string(buf)
	}
	res.Final = run.Final
	res.ErrMsg = run.ErrMsg
	if len(res.ErrMsg) > 4000 {
		res.ErrMsg = res.ErrMsg[:4000]
	}
	res.NEvents = len(run.Events)
	res.Incs = run.Inc + 1
	if run.Final == "complete" && v.final != nil {
		v.written = map[string]string{}
		for p, c := range run.Written {
			if !v.underReloc(v.rel(p)) {
				v.written[v.rel(p)] = c
			}
		}
		v.monitors()
		v.modelChecks()
		if os.Getenv("VDR_DEBUG") != "" {
			var tree []string
			for k, e := range v.postKill.Tree {
				if !strings.Contains(k, "/_") && !strings.HasPrefix(k, "_") {
					tree = append(tree, k+" "+e.Kind)
				}
			}
			sort.Strings(tree)
			res.Debug = map[string]interface{}{"forks": v.postKill.Forks, "tree": tree, "pre": v.preFinal.Forks, "events": run.Events, "reports": v.postKill.Reports, "prereports": v.preFinal.Reports}
		}
	}
	res.WallMs = time.Since(start).Milliseconds()
	return res
}

// loop is TARun.Run with observation points.
func (v *vdrRun) loop() {
	r := v.r
	defer func() {
		if e := recover(); e != nil {
			r.Final = fmt.Sprintf("panic:%v", e)
			buf := make([]byte, 4096)
			buf = buf[:runtime.Stack(buf, false)]
			r.ErrMsg = string(buf)
		}
	}()
	idle := 0
	ctx := context.Background()
	for len(r.Events) < r.Opts.MaxEvents {
		if v.spec.RelocateSub && v.reloc == nil && len(r.Opts.CrashAt) > 0 && len(r.Events) < 600 {
			// mrp is interrupted at the first moment from the chosen one on at which
			// a sub-pipeline has stage files to relocate
			due := -1
			for k := range r.Opts.CrashAt {
				if due < 0 || k < due {
					due = k
				}
			}
			if len(r.Events) >= due {
				delete(r.Opts.CrashAt, due)
				if len(v.relocCandidates()) > 0 {
					r.Opts.CrashAt[len(r.Events)] = true
				} else {
					r.Opts.CrashAt[len(r.Events)+1+r.Rng.Intn(3)] = true
				}
			}
		}
		if r.Opts.CrashAt != nil && r.Opts.CrashAt[len(r.Events)] {
			delete(r.Opts.CrashAt, len(r.Events))
			// storage goroutines of the mrp that is about to die belong to its lifetime
			time.Sleep(3 * time.Millisecond)
			r.ps.VerifStorageBarrier()
			v.observe(false)
			crash := r.Crash
			if v.spec.RelocateSub {
				crash = v.crashRelocateRestart
			}
			if err := crash(); err != nil {
				r.Final = "error:" + err.Error()
				return
			}
			v.observe(true)
			v.hist("crash-restart")
			idle = 0
			continue
		}
		doStep := len(r.Pending) == 0 || r.Rng.Float64() < r.Opts.StepBias
		if !doStep {
			job := v.pickJob()
			if !job.Started && r.Rng.Float64() < r.Opts.StartSeparate {
				r.startJob(job)
			} else {
				r.finishJob(job)
				if v.faultKey != "" && job.Key == v.faultKey && v.spec.FailConsumer != "" && r.Rng.Intn(3) != 0 {
					// the other jobs in flight finish before mrp reads the journal again
					for len(r.Pending) > 0 {
						r.finishJob(r.Pending[0])
					}
					v.hist("others-finish-with-the-failure")
				}
			}
			idle = 0
			continue
		}
		// what the stages have written so far
		v.snapshot(false)
		r.ps.RefreshState(ctx)
		if st := r.ps.GetState(ctx); st == core.Complete || st == core.DisabledState {
			r.ps.VerifStorageBarrier()
			v.observe(false)
			v.preFinal = v.snapshot(true)
			v.collectPreNames(v.preFinal)
			v.valueChecks(v.preFinal)
			v.guardChecks()
			v.hfsChecks()
			v.runWalkChecks(v.preFinal)
			r.log("complete", "", string(st))
			r.ps.VDRKill()
			r.ps.VerifStorageBarrier()
			v.checkOutside("C14:outside-touched", "by volatile data removal")
			v.postKill = v.snapshot(true)
			if v.reloc != nil {
				v.reloc.treeAtKill = v.relocTree()
			}
			v.unwatchRelocated()
			r.ps.PostProcess()
			v.checkOutside("C14:outside-touched-by-postprocess", "by post-processing")
			v.final = v.snapshot(true)
			r.ps.Unlock()
			r.Final = "complete"
			return
		}
		done, progress := r.stepOnce()
		if done {
			if r.Final == "failed" && (v.spec.FailChunk || v.spec.FailConsumer != "") && v.faultSet && !v.retried {
				// the operator restarts mrp; the failed chunk is reset and retried
				v.retried = true
				r.killPending(0)
				r.Final, r.ErrMsg = "", ""
				// the storage goroutines of the mrp that is going away belong to its
				// lifetime: let them finish before the new one loads the directory
				time.Sleep(3 * time.Millisecond)
				r.ps.VerifStorageBarrier()
				v.observe(false)
				if v.spec.FailConsumer != "" {
					// a kill pass over every node while the failed consumer waits for its
					// retry (any completion of a neighbour triggers such passes): the model
					// replays it from the real bookkeeping, with the failed node NOT done
					v.snapshot(false)
					preFail := v.snapshot(true)
					v.collectPreNames(preFail)
					r.ps.VDRKill()
					r.ps.VerifStorageBarrier()
					v.checkOutside("C14:outside-touched", "by volatile data removal at failure time")
					postFail := v.snapshot(true)
					v.modelChecksOn(preFail, postFail, "kill pass while a failed consumer awaits its retry", false)
					v.observe(false)
				}
				if err := r.Restart(); err != nil {
					r.Final = "error:" + err.Error()
					return
				}
				v.observe(true)
				if v.spec.FailConsumer != "" {
					v.hist("restart-after-consumer-failure")
				} else {
					v.hist("restart-after-chunk-failure")
				}
				idle = 0
				continue
			}
			return
		}
		r.ps.VerifStorageBarrier()
		v.observe(false)
		if progress {
			idle = 0
		}
		if !progress && len(r.Pending) == 0 {
			idle++
			if idle > 6 {
				r.log("stall", "", "")
				r.Final = "stall"
				r.ps.Unlock()
				return
			}
		}
	}
	r.Final = "error:event budget exhausted"
	if r.ps != nil {
		r.ps.Unlock()
	}
}

// pickJob: with LateConsumers, jobs that take file arguments are finished
// only when nothing else is pending (consumers start/finish long after their
// producers), which keeps producers' files needed for as long as possible.
func (v *vdrRun) pickJob() *TAJob {
	r := v.r
	if v.spec.LateConsumers && r.Rng.Intn(4) != 0 {
		var others []*TAJob
		for _, j := range r.Pending {
			if len(v.launchArg[j.Key]) == 0 {
				others = append(others, j)
			}
		}
		if len(others) > 0 {
			return others[r.Rng.Intn(len(others))]
		}
	}
	if r.Opts.Adversarial && r.Rng.Intn(3) != 0 {
		return r.Pending[len(r.Pending)-1]
	}
	return r.Pending[r.Rng.Intn(len(r.Pending))]
}
