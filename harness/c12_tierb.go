package main

// C12, Tier B (real mrp + local job manager + stage processes) with load
// awareness: time-outs scale with the machine load, and anything that would
// be reported is first re-executed alone (nothing else of this check running)
// with a doubled time-out; only a reproduced failure is reported.

import (
	"fmt"
	"os"
	"runtime"
	"strconv"
	"strings"
	"time"
)

// c12LoadScale: 1 on an idle machine, up to 8; load average per CPU + 1.
func c12LoadScale() float64 {
	b, err := os.ReadFile("/proc/loadavg")
	if err != nil {
		return 1
	}
	f := strings.Fields(string(b))
	if len(f) == 0 {
		return 1
	}
	l, err := strconv.ParseFloat(f[0], 64)
	if err != nil {
		return 1
	}
	s := 1 + l/float64(runtime.NumCPU())
	if s > 8 {
		s = 8
	}
	return s
}

func c12Scaled(d time.Duration) time.Duration {
	return time.Duration(float64(d) * c12LoadScale())
}

type c12TBVerdict struct {
	key, what string
	extra     interface{}
}

func c12TBJudge(spec *TBSpec, res *TBResult, src string) *c12TBVerdict {
	in := map[string]interface{}{"cores": spec.Cores, "mem": spec.MemGB}
	if res.Final != "complete" {
		out := ""
		if len(res.Incs) > 0 {
			out = res.Incs[len(res.Incs)-1].Output
		}
		in["output"] = out
		in["stuck"] = res.Stuck
		return &c12TBVerdict{"C12:tierB-not-complete",
			"a pipestance whose jobs each fit (after clamping) the local limits did not finish: " + res.Final, in}
	}
	ivs := tbIntervals(res.Log)
	for _, iv := range ivs {
		if iv.Threads > float64(spec.Cores)+1e-9 || iv.MemGB > float64(spec.MemGB)+1e-9 {
			return &c12TBVerdict{"C12:tierB-not-clamped",
				fmt.Sprintf("job %s ran with reservation threads=%g mem=%g above the limits %d/%d", iv.Job, iv.Threads, iv.MemGB, spec.Cores, spec.MemGB), in}
		}
	}
	if bad := overlapViolations(ivs, float64(spec.Cores), float64(spec.MemGB)); len(bad) > 0 {
		in["all"] = bad
		in["program"] = src
		return &c12TBVerdict{"C12:tierB-overcommit", "concurrently running local jobs exceeded the configured limits: " + bad[0], in}
	}
	return nil
}

func c12TierB(c *Ctx, env *TBEnv, nruns int) {
	r := c.Res
	p, err := compileProgram("tb:resources", tbResourceProgram, nil)
	if err != nil {
		r.note("tier B resource program does not compile: %v", err)
		return
	}
	scale := c12LoadScale()
	r.note("tier B: load scale %.1f (time-outs multiplied)", scale)
	mk := func(i int, timeout time.Duration) *TBSpec {
		limits := [][2]int{{4, 4}, {3, 8}, {8, 3}, {2, 2}}
		l := limits[i%len(limits)]
		s := &TBSpec{Name: fmt.Sprintf("res%d", i), Src: p.Src, Cores: l[0], MemGB: l[1], Strict: "error", Timeout: timeout}
		s.Control.SleepMs = [2]int{30, 150}
		return s
	}
	// a stall already established on the semaphores / the job manager: one run, short time-out
	stallKnown := false
	for _, v := range r.Violations {
		if strings.Contains(v.Key, "stall") || strings.Contains(v.Key, "lost-wakeup") {
			stallKnown = true
		}
	}
	timeout := c12Scaled(90 * time.Second)
	if timeout > 150*time.Second {
		timeout = 150 * time.Second
	}
	if stallKnown {
		nruns, timeout = 1, 30*time.Second
		r.note("tier B reduced to one run: a stall was already found by the in-process monitors")
	}
	var specs []*TBSpec
	for i := 0; i < nruns; i++ {
		specs = append(specs, mk(i, timeout))
	}
	reexecuted := map[string]bool{}
	for i, res := range tbParallel(env, c, specs, 4) {
		r.hist("tierB_final_" + res.Final)
		ivs := tbIntervals(res.Log)
		r.count(fmt.Sprintf("tb-res-%d-%d", specs[i].Cores, specs[i].MemGB), len(ivs) > 4)
		v := c12TBJudge(specs[i], res, p.Src)
		if v == nil {
			if len(r.Samples) < 6 {
				r.sample(map[string]interface{}{"tierB": specs[i].Name, "limits": []int{specs[i].Cores, specs[i].MemGB}, "jobs": len(ivs)})
			}
			continue
		}
		if stallKnown {
			r.violate(Violation{Kind: "property", Key: v.key, What: v.what, Input: v.extra})
			continue
		}
		if reexecuted[v.key] {
			continue // one confirmed instance per failure class is enough
		}
		reexecuted[v.key] = true
		// re-execute alone, doubled time-out, before believing it
		again := mk(i, 2*timeout)
		res2 := env.Run(again, nil)
		r.hist("tierB_reexecuted_alone")
		v2 := c12TBJudge(again, res2, p.Src)
		if v2 == nil {
			r.note("tier B run %s: %s — did not reproduce when re-executed alone (load scale %.1f); not reported", specs[i].Name, v.key, c12LoadScale())
			continue
		}
		r.violate(Violation{Kind: "property", Key: v2.key, What: v2.what + " (reproduced when re-executed alone)", Input: v2.extra})
	}
}
