package main

// C17, bytes.  Ties lean/Martian/JsonBytes.lean to the real code:
//   parseTop   ~ encoding/json (json.Valid = the scanner; the decoder's token stream for the tree)
//   printJ     ~ read back by encoding/json to the same tree (json_parse_print on the real decoder)
//   filterBytes ~ Type.FilterJson, BYTE FOR BYTE: which path ran (input slice returned with its
//                white space / container re-encoded), key order, key escaping, number rewriting.

import (
	"bytes"
	"encoding/json"
	"fmt"
	"strings"
)

func c17JudgeBytes(cs *c17Case, g *c17Go, replyB string, report bool, r *Result, fail func(Violation)) {
	if !bytes.Equal(bytes.TrimSpace(cs.text), cs.text) {
		if report {
			r.hist("bytes:skipped-padded-top-level")
		}
		return
	}
	want := hx(string(g.out)) + " " + g.ferr
	// `nd=<noDupA> cls=<error class equals the tree-level model's>`: the hypothesis and the conclusion of
	// filter_bytes_error_class (audit pass 2, C17-M1) evaluated on the real input
	if i := strings.Index(replyB, " nd="); i >= 0 {
		extra := replyB[i+1:]
		replyB = replyB[:i]
		nd, cls := strings.Contains(extra, "nd=true"), strings.Contains(extra, "cls=true")
		if report {
			r.hist(fmt.Sprintf("bytes:nodup-%v-class-agrees-%v", nd, cls))
		}
		if !nd && !cs.v.hasDup() {
			fail(Violation{Kind: "correspondence", Key: "C17:bytes:nodup-hypothesis",
				What:   "noDupA is false on a document the generator built without a duplicated key (the hypothesis of filter_bytes_error_class would exclude ordinary inputs)",
				Broken: "filter_bytes_error_class (hypothesis noDupA)"})
		}
		if nd && !cls {
			fail(Violation{Kind: "correspondence", Key: "C17:bytes:error-class-theorem",
				What:   "noDupA holds but the byte-level and tree-level models report different error classes (contradicts filter_bytes_error_class)",
				Broken: "filter_bytes_error_class"})
		}
	}
	if report {
		if bytes.Equal(g.out, cs.text) {
			r.hist("bytes:input-slice-returned")
		} else {
			r.hist("bytes:re-encoded")
		}
	}
	if replyB != want {
		mo := replyB
		if f := strings.SplitN(replyB, " ", 2); len(f) == 2 {
			mo = fmt.Sprintf("%q %s", unhx(f[0]), f[1])
		}
		fail(Violation{Kind: "correspondence", Key: "C17:bytes:filter-output",
			What: "FilterJson's returned bytes / error class differ from the byte-level model (Martian.JsonBytes.filterBytes)",
			Impl: fmt.Sprintf("%q %s", string(g.out), g.ferr), Model: mo,
			Broken: "correspondence C17.filterb (Martian.JsonBytes.filterA ~ Type.FilterJson)"})
	}
}

// ---- generator of JSON texts (valid, with odd white space, duplicate keys, every string
// escape form, deep nesting, big numbers) and syntactic near-misses ----

type c17bGen struct{ c *Ctx }

func (g *c17bGen) ws(sb *strings.Builder) {
	rng := g.c.Rng
	if rng.Intn(3) != 0 {
		return
	}
	for n := rng.Intn(3) + 1; n > 0; n-- {
		sb.WriteByte(" \t\n\r"[rng.Intn(4)])
	}
}

var c17bStrPieces = []string{"a", "b", "key", "é", "日", "\U0001F600", `\"`, `\\`, `\/`, `\b`, `\f`, `\n`, `\r`, `\t`, `\u0041`, `\u00e9`, `\u2028`,
	`\ud83d\ude00`, `\uD83D\uDE00`, `\ud800`, `\udc00x`, `\ud800\u0041`, " ", "<", ">", "&", "\x7f", "\xff", "\xc3", "\xed\xa0\x80", "'", "/", "{", "[", ",", ":"}

func (g *c17bGen) str(sb *strings.Builder) {
	rng := g.c.Rng
	sb.WriteByte('"')
	for n := rng.Intn(4); n > 0; n-- {
		sb.WriteString(c17bStrPieces[rng.Intn(len(c17bStrPieces))])
	}
	sb.WriteByte('"')
}

var c17bNums = []string{"0", "-0", "1", "-1", "12", "1.5", "-0.0", "0.10", "1e3", "1E3", "1e+3", "1e-3", "1.25e2", "9007199254740993", "18446744073709551616",
	"-9223372036854775809", "1e400", "1e-400", "123456789012345678901234567890.123456789", "0e0", "0.0e-0", "4.9e-324", "1.7976931348623157e308"}

func (g *c17bGen) value(sb *strings.Builder, depth int) {
	rng := g.c.Rng
	k := rng.Intn(9)
	if depth <= 0 && k >= 6 {
		k = rng.Intn(6)
	}
	switch k {
	case 0:
		sb.WriteString("null")
	case 1:
		sb.WriteString("true")
	case 2:
		sb.WriteString("false")
	case 3, 4:
		sb.WriteString(c17bNums[rng.Intn(len(c17bNums))])
	case 5:
		g.str(sb)
	case 6, 7:
		sb.WriteByte('[')
		g.ws(sb)
		n := rng.Intn(4)
		for i := 0; i < n; i++ {
			if i > 0 {
				sb.WriteByte(',')
			}
			g.ws(sb)
			g.value(sb, depth-1)
			g.ws(sb)
		}
		sb.WriteByte(']')
	default:
		sb.WriteByte('{')
		g.ws(sb)
		n := rng.Intn(4)
		keys := []string{`"a"`, `"b"`, `"a"`, `"\u0061"`, `""`, `"k\n"`}
		for i := 0; i < n; i++ {
			if i > 0 {
				sb.WriteByte(',')
			}
			g.ws(sb)
			if rng.Intn(2) == 0 {
				sb.WriteString(keys[rng.Intn(len(keys))])
			} else {
				g.str(sb)
			}
			g.ws(sb)
			sb.WriteByte(':')
			g.ws(sb)
			g.value(sb, depth-1)
			g.ws(sb)
		}
		sb.WriteByte('}')
	}
}

var c17bBreaks = []string{",", "]", "}", "[", "{", ":", "\"", "\\", "0", "1", ".", "e", "-", "+", "\x00", "\x01", "\x1f", "n", "nul", "tru", "a", " ", "\\u12", "\\x", "'", "/"}

// nearMiss: one byte-level edit
func (g *c17bGen) nearMiss(t string) string {
	rng := g.c.Rng
	if len(t) == 0 {
		return c17bBreaks[rng.Intn(len(c17bBreaks))]
	}
	pos := rng.Intn(len(t) + 1)
	switch rng.Intn(4) {
	case 0: // insert
		return t[:pos] + c17bBreaks[rng.Intn(len(c17bBreaks))] + t[pos:]
	case 1: // delete
		if pos == len(t) {
			pos--
		}
		return t[:pos] + t[pos+1:]
	case 2: // truncate
		return t[:pos]
	default: // replace
		if pos == len(t) {
			pos--
		}
		return t[:pos] + c17bBreaks[rng.Intn(len(c17bBreaks))] + t[pos+1:]
	}
}

func c17ParseBytes(c *Ctx, n int) {
	r := c.Res
	g := &c17bGen{c: c}
	fixed := []string{"", " ", "null", " null ", "[]", "{}", "[ ]", "{ }", "[01]", "[1,]", "[,1]", "{\"a\":1,}", "{\"a\" 1}", "{a:1}", "1 2", "\"\\u12\"", "\"\x01\"",
		"\"unterminated", "[1", "-", "1.", "1e", ".5", "+1", "-01", "0x10", "tru", "nul", "\"\\'\"", "\"\xff\"", "{\"a\":1,\"a\":2}", "[[[[[[[[[[[[[[[[1]]]]]]]]]]]]]]]]",
		"1e99999", "123456789012345678901234567890", "\"\\ud800\\udc00\"", "\"\\udc00\\ud800\"", "\ufeff1", "[1\x0c]", "[1\x0b]", "\"a\"\"b\""}
	var texts []string
	texts = append(texts, fixed...)
	for i := 0; i < n; i++ {
		var sb strings.Builder
		if i%7 == 0 {
			g.ws(&sb)
		}
		g.value(&sb, 1+c.Rng.Intn(5))
		if i%7 == 0 {
			g.ws(&sb)
		}
		t := sb.String()
		if i%3 == 2 {
			t = g.nearMiss(t)
		}
		texts = append(texts, t)
	}
	reqs := make([][]string, len(texts))
	for i, t := range texts {
		reqs[i] = []string{"C17.parseb", hx(t)}
	}
	reps := c.Drv.AskBatch(reqs)
	var printReqs [][]string
	var printTrees []*c17J
	var printSrc []string
	for i, t := range texts {
		valid := json.Valid([]byte(t))
		r.count("parseb:"+t, len(t) > 4)
		in := map[string]interface{}{"text": t, "text_hex": hx(t)}
		want := "none"
		var tree *c17J
		if valid {
			r.hist("bytes:parse-valid")
			var err error
			tree, err = c17ParseJSON([]byte(t))
			if err != nil {
				// a number whose exponent the harness cannot represent: accept/reject only
				r.hist("bytes:parse-valid-tree-not-representable")
				if reps[i] == "none" {
					r.violate(Violation{Kind: "correspondence", Key: "C17:bytes:parse-accept", What: "json.Valid accepts a text the byte-level model rejects",
						Input: in, Impl: "valid", Model: reps[i], Broken: "correspondence C17.parseb (Martian.JsonBytes.parseTop ~ encoding/json scanner)"})
				}
				continue
			}
			var sb strings.Builder
			tree.encTo(&sb, false)
			want = "some " + sb.String()
		} else {
			r.hist("bytes:parse-invalid")
		}
		if reps[i] != want {
			r.violate(Violation{Kind: "correspondence", Key: "C17:bytes:parse", What: "the byte-level JSON grammar model differs from encoding/json (accept/reject or tree)",
				Input: in, Impl: want, Model: reps[i], Broken: "correspondence C17.parseb (Martian.JsonBytes.parseTop ~ encoding/json)"})
			continue
		}
		if valid && i%2 == 0 {
			var sb strings.Builder
			tree.encTo(&sb, false)
			printReqs = append(printReqs, []string{"C17.printb", sb.String()})
			printTrees = append(printTrees, tree)
			printSrc = append(printSrc, t)
		}
	}
	// json_parse_print on the real decoder: the model's canonical text of a tree is read by
	// encoding/json as that tree
	preps := c.Drv.AskBatch(printReqs)
	for i, rep := range preps {
		text := unhx(rep)
		r.hist("bytes:print-roundtrip")
		in := map[string]interface{}{"source_text": printSrc[i], "printed": text}
		back, err := c17ParseJSON([]byte(text))
		var a, b strings.Builder
		printTrees[i].encTo(&a, false)
		if err == nil {
			back.encTo(&b, false)
		}
		if err != nil || !json.Valid([]byte(text)) || a.String() != b.String() {
			r.violate(Violation{Kind: "property", Key: "C17:bytes:print-roundtrip", What: "the canonical text of a tree is not read back by encoding/json as that tree",
				Input: in, Impl: fmt.Sprintf("%v %s", err, b.String()), Expect: a.String(), Broken: "json_parse_print"})
		}
	}
}
