package main

// C08/C09 tie: the goyacc parser MODEL with semantic values (Martian.LexerLR.parseLR: the driver loop on
// the regenerated tables + the actions of the value-expression sub-grammar) against x-c09's
// recursive-descent reader (Martian.FormatExp.parseToks), model vs model through the driver op
// C08.lrcmp, on generated value expressions and token-level mutants; and accept/reject of both against
// the real Parser.ParseValExp.

import (
	"fmt"
	"strconv"
	"strings"

	"github.com/martian-lang/martian/martian/syntax"
)

var c08LrAtoms = []string{"1", "-7", "0", "2.5", "1e3", "-0.0", "\"a\"", "\"\"", "\"k\\n\"", "\"é\"", "true", "false", "null",
	"self.x", "self.x.y.z", "FOO", "FOO.out", "FOO.default", "FOO.a.b", "split", "struct", "retain.x", "self.strict", "[]", "{}",
	"9223372036854775807", "9223372036854775808", "1e999", "\"\\x41\"", "x", "_y", "mem_gb"}

var c08LrTokens = []string{"[", "]", "{", "}", ",", ":", ".", "=", "(", ")", "*", ";", "<", ">", "self", "default", "true", "null",
	"stage", "in", "int", "map", "call", "x", "FOO", "1", "2.5", "\"s\"", "\"k\"", "split", "struct", "@include", "a", "b", ",,", "..", "#c\n"}

func c08LrGenExp(c *Ctx, depth int) string {
	k := c.Rng.Intn(10)
	if depth <= 0 {
		k = c.Rng.Intn(4)
	}
	sp := func() string { return []string{"", " ", "\n", "  ", " # c\n"}[c.Rng.Intn(5)] }
	switch {
	case k < 4:
		return c08LrAtoms[c.Rng.Intn(len(c08LrAtoms))]
	case k < 6:
		n := c.Rng.Intn(4)
		var xs []string
		for i := 0; i < n; i++ {
			xs = append(xs, sp()+c08LrGenExp(c, depth-1)+sp())
		}
		s := "[" + strings.Join(xs, ",")
		if n > 0 && c.Rng.Intn(2) == 0 {
			s += ","
		}
		return s + sp() + "]"
	case k < 8:
		n := c.Rng.Intn(4)
		var xs []string
		for i := 0; i < n; i++ {
			key := []string{"\"a\"", "\"b\"", "\"a\"", "\"\"", "\"k\\n\"", "\"\\x61\""}[c.Rng.Intn(6)]
			xs = append(xs, sp()+key+sp()+":"+sp()+c08LrGenExp(c, depth-1))
		}
		s := "{" + strings.Join(xs, ",")
		if n > 0 && c.Rng.Intn(2) == 0 {
			s += ","
		}
		return s + sp() + "}"
	default:
		n := c.Rng.Intn(4)
		var xs []string
		for i := 0; i < n; i++ {
			key := []string{"a", "b", "a", "split", "mem_gb", "_k", "x1"}[c.Rng.Intn(7)]
			xs = append(xs, sp()+key+sp()+":"+sp()+c08LrGenExp(c, depth-1))
		}
		s := "{" + strings.Join(xs, ",")
		if n > 0 && c.Rng.Intn(2) == 0 {
			s += ","
		}
		return s + sp() + "}"
	}
}

// c08LrMutate: token-level mutation (tokens found with the real scanner): delete / duplicate / swap /
// replace / insert a token.
func c08LrMutate(c *Ctx, src string) string {
	toks, _, _ := syntax.VerifLexAll([]byte(src), 1<<16)
	var ts []string
	for _, t := range toks {
		if t.Id != syntax.VerifTokINVALID {
			ts = append(ts, string(t.Text))
		}
	}
	if len(ts) == 0 {
		return c08LrTokens[c.Rng.Intn(len(c08LrTokens))]
	}
	n := 1 + c.Rng.Intn(2)
	for i := 0; i < n && len(ts) > 0; i++ {
		p := c.Rng.Intn(len(ts))
		switch c.Rng.Intn(5) {
		case 0:
			ts = append(ts[:p:p], ts[p+1:]...)
		case 1:
			ts = append(ts[:p+1:p+1], ts[p:]...)
		case 2:
			q := c.Rng.Intn(len(ts))
			ts[p], ts[q] = ts[q], ts[p]
		case 3:
			ts[p] = c08LrTokens[c.Rng.Intn(len(c08LrTokens))]
		default:
			ins := c08LrTokens[c.Rng.Intn(len(c08LrTokens))]
			ts = append(ts[:p:p], append([]string{ins}, ts[p:]...)...)
		}
	}
	return strings.Join(ts, " ")
}

func c08LrSem(c *Ctx) {
	r := c.Res
	n := 6000
	if c.Thorough {
		n = 120000
	}
	var srcs []string
	for i := 0; i < n; i++ {
		e := c08LrGenExp(c, 3)
		srcs = append(srcs, e, c08LrMutate(c, e))
	}
	// programs and bind expressions are no value expressions: both sides must say so
	for _, s := range []string{"stage S(in int x, src py \"s\",)", "call S(x = 1,)", "x = 1", "", " ", "# c", "[1] [2]", "FOO.x", "self", "self.x"} {
		srcs = append(srcs, s)
	}
	reqs := make([][]string, len(srcs))
	for i, s := range srcs {
		reqs[i] = []string{"C08.lrcmp", hx(s)}
	}
	reps := c.Drv.AskBatch(reqs)
	for i, s := range srcs {
		rep := reps[i]
		f := strings.Fields(rep)
		r.count("lrsem:"+s, len(f) >= 2 && f[1] == "some")
		switch {
		case rep == "nolex":
			r.hist("lr-vs-reader:no-tokens(INVALID)")
			continue
		case strings.HasPrefix(rep, "differ"):
			small := c08ShrinkBytes(s, func(x string) bool {
				return strings.HasPrefix(c.Drv.Ask("C08.lrcmp", hx(x)), "differ")
			}, 150)
			r.violate(Violation{Kind: "correspondence", Key: "C08:lr-vs-reader-mismatch",
				What:  "the goyacc parser model with semantic values (parseLR: driver loop on the regenerated tables + the grammar actions) and x-c09's recursive-descent reader (FormatExp.parseToks) give different results on the tokens of a source",
				Input: strconv.Quote(small), Impl: c.Drv.Ask("C08.lrcmp", hx(small)), Broken: "hypothesis LRAgrees of Props.C09Tie.format_then_goyacc_parse (checked per run, not proved)"})
			continue
		}
		r.hist("lr-vs-reader:same:" + f[1])
		// both models against the real parser: accepted as a value expression or not
		res := c08Guard(3e9, func() (string, error) {
			var p syntax.Parser
			v, err := p.ParseValExp([]byte(s))
			if err != nil || v == nil {
				return "none", nil
			}
			return "some", nil
		})
		real := res.Out
		if res.Panic != "" {
			real = "panic"
		} else if res.TimedOut {
			real = "hang"
		}
		if real != f[1] {
			r.violate(Violation{Kind: "correspondence", Key: "C08:lr-sem-accepts-differently",
				What:  "Parser.ParseValExp and the two parser models disagree on whether the source is a value expression",
				Input: strconv.Quote(s), Impl: real, Model: f[1], Broken: "correspondence C08.lrcmp (Martian.LexerLR.parseLR)"})
		}
	}

	// bounded-exhaustive: EVERY token sequence of length <= 4 (thorough: <= 5) over an alphabet with one
	// token of each kind the value-expression grammar distinguishes (18 tokens), compared inside the driver
	maxLen := 4
	if c.Thorough {
		maxLen = 5
	}
	for k := 0; k <= maxLen; k++ {
		rep := c.Drv.Ask("C08.lrexh", strconv.Itoa(k))
		f := strings.Fields(rep)
		if len(f) < 3 {
			fatal("C08.lrexh: bad reply %q", rep)
		}
		nseq, _ := strconv.Atoi(f[0])
		r.Evals += nseq
		r.hist(fmt.Sprintf("lr-vs-reader:exhaustive-length-%d:%s-sequences:%s-accepted", k, f[0], f[1]))
		if f[2] != "all-same" {
			r.violate(Violation{Kind: "correspondence", Key: "C08:lr-vs-reader-mismatch",
				What:  fmt.Sprintf("bounded-exhaustive comparison (all token sequences of length %d): the goyacc parser model and x-c09's reader disagree", k),
				Input: strings.Join(f[3:], " "), Broken: "hypothesis LRAgrees of Props/C09Tie.lean"})
		}
	}
	// call statements: `file: call_stm` through the goyacc model vs x-c09's pCall2
	nc := 3000
	if c.Thorough {
		nc = 60000
	}
	var csrc []string
	for i := 0; i < nc; i++ {
		e := c08LrGenCall(c)
		csrc = append(csrc, e, c08LrMutate(c, e))
	}
	csrc = append(csrc, "call S()", "map call S()", "call local()", "call local local(x = 1,)", "call S(x = split,)", "map call S(x = split split,)",
		"call S(* = self,)", "call S(x = 1, * = T,) using () using (local = true,)", "call S(x = 1,) call T()", "stage S(in int x, src py \"s\",)\ncall S(x = 1,)")
	creqs := make([][]string, len(csrc))
	for i, s := range csrc {
		creqs[i] = []string{"C08.lrcmpcall", hx(s)}
	}
	for i, rep := range c.Drv.AskBatch(creqs) {
		s := csrc[i]
		f := strings.Fields(rep)
		r.count("lrsemcall:"+s, len(f) >= 2 && f[1] == "some")
		switch {
		case rep == "nolex":
			r.hist("lr-vs-reader:call:no-tokens(INVALID)")
		case strings.HasPrefix(rep, "differ"):
			small := c08ShrinkBytes(s, func(x string) bool {
				return strings.HasPrefix(c.Drv.Ask("C08.lrcmpcall", hx(x)), "differ")
			}, 150)
			r.violate(Violation{Kind: "correspondence", Key: "C08:lr-vs-reader-mismatch:call",
				What:  "the goyacc parser model with semantic values (parseLRCall) and x-c09's reader of a call statement (FormatCall2.pCall2) give different results on the tokens of a source",
				Input: strconv.Quote(small), Impl: c.Drv.Ask("C08.lrcmpcall", hx(small)), Broken: "hypothesis LRCallAgrees of Props/C09Tie.lean (checked per run, not proved)"})
		default:
			r.hist("lr-vs-reader:call:same:" + f[1])
		}
	}
}

func c08LrGenCall(c *Ctx) string {
	pick := func(xs ...string) string { return xs[c.Rng.Intn(len(xs))] }
	sp := func() string { return pick(" ", " ", "\n", "  ", " # c\n") }
	isMap := c.Rng.Intn(3) == 0
	var sb strings.Builder
	if isMap {
		sb.WriteString("map" + sp())
	}
	sb.WriteString("call" + sp())
	for c.Rng.Intn(3) == 0 {
		sb.WriteString(pick("local", "preflight", "volatile") + sp())
	}
	sb.WriteString(pick("S", "T_1", "local", "split", "struct", "P") + sp())
	if c.Rng.Intn(4) == 0 {
		sb.WriteString("as" + sp() + pick("A", "S", "volatile") + sp())
	}
	sb.WriteString("(")
	n := c.Rng.Intn(4)
	for i := 0; i < n; i++ {
		id := pick("x", "y", "x", "p", "split", "mem_gb", "_z")
		val := c08LrGenExp(c, 2)
		if isMap && c.Rng.Intn(2) == 0 {
			val = "split" + sp() + pick("[1, 2]", "{\"a\": 1}", "self.xs", "T.ys", "[]", "{}", "1", c08LrGenExp(c, 1))
		}
		sb.WriteString(sp() + id + sp() + "=" + sp() + val + ",")
	}
	if c.Rng.Intn(4) == 0 {
		sb.WriteString(sp() + "*" + sp() + "=" + sp() + pick("self", "T", "self.x", "T.out", "1", "self.x.y") + ",")
	}
	sb.WriteString(sp() + ")")
	for c.Rng.Intn(4) == 0 {
		sb.WriteString(sp() + "using" + sp() + "(")
		m := c.Rng.Intn(3)
		for i := 0; i < m; i++ {
			sb.WriteString(sp() + pick("local = true,", "volatile = false,", "preflight = true,", "disabled = self.d,", "disabled = T.off,", "local = 1,", "disabled = true,", "threads = 1,"))
		}
		sb.WriteString(sp() + ")")
	}
	return sb.String()
}
