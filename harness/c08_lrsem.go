package main

// C08/C09 tie: the goyacc parser MODEL with semantic values (Martian.LexerLR.parseLR: the driver loop on
// the regenerated tables + the actions of the value-expression sub-grammar) against x-c09's
// recursive-descent reader (Martian.FormatExp.parseToks), model vs model through the driver op
// C08.lrcmp, on generated value expressions and token-level mutants; and accept/reject of both against
// the real Parser.ParseValExp.

import (
	"strconv"
	"strings"

	"github.com/martian-lang/martian/martian/syntax"
)

var c08LrAtoms = []string{"1", "-7", "0", "2.5", "1e3", "-0.0", "\"a\"", "\"\"", "\"k\\n\"", "\"é\"", "true", "false", "null",
	"self.x", "self.x.y.z", "FOO", "FOO.out", "FOO.default", "FOO.a.b", "split", "struct", "retain.x", "self.strict", "[]", "{}",
	"9223372036854775807", "9223372036854775808", "1e999", "\"\\x41\"", "x", "_y", "mem_gb"}

var c08LrTokens = []string{"[", "]", "{", "}", ",", ":", ".", "=", "(", ")", "*", ";", "<", ">", "self", "default", "true", "null",
	"stage", "in", "int", "map", "call", "x", "FOO", "1", "2.5", "\"s\"", "\"k\"", "split", "struct", "@include", "a", "b", ",,", "..", "#c\n"}

func c08LrGenExp(c *Ctx, depth int) string {
	k := c.Rng.Intn(10)
	if depth <= 0 {
		k = c.Rng.Intn(4)
	}
	sp := func() string { return []string{"", " ", "\n", "  ", " # c\n"}[c.Rng.Intn(5)] }
	switch {
	case k < 4:
		return c08LrAtoms[c.Rng.Intn(len(c08LrAtoms))]
	case k < 6:
		n := c.Rng.Intn(4)
		var xs []string
		for i := 0; i < n; i++ {
			xs = append(xs, sp()+c08LrGenExp(c, depth-1)+sp())
		}
		s := "[" + strings.Join(xs, ",")
		if n > 0 && c.Rng.Intn(2) == 0 {
			s += ","
		}
		return s + sp() + "]"
	case k < 8:
		n := c.Rng.Intn(4)
		var xs []string
		for i := 0; i < n; i++ {
			key := []string{"\"a\"", "\"b\"", "\"a\"", "\"\"", "\"k\\n\"", "\"\\x61\""}[c.Rng.Intn(6)]
			xs = append(xs, sp()+key+sp()+":"+sp()+c08LrGenExp(c, depth-1))
		}
		s := "{" + strings.Join(xs, ",")
		if n > 0 && c.Rng.Intn(2) == 0 {
			s += ","
		}
		return s + sp() + "}"
	default:
		n := c.Rng.Intn(4)
		var xs []string
		for i := 0; i < n; i++ {
			key := []string{"a", "b", "a", "split", "mem_gb", "_k", "x1"}[c.Rng.Intn(7)]
			xs = append(xs, sp()+key+sp()+":"+sp()+c08LrGenExp(c, depth-1))
		}
		s := "{" + strings.Join(xs, ",")
		if n > 0 && c.Rng.Intn(2) == 0 {
			s += ","
		}
		return s + sp() + "}"
	}
}

// c08LrMutate: token-level mutation (tokens found with the real scanner): delete / duplicate / swap /
// replace / insert a token.
func c08LrMutate(c *Ctx, src string) string {
	toks, _, _ := syntax.VerifLexAll([]byte(src), 1<<16)
	var ts []string
	for _, t := range toks {
		if t.Id != syntax.VerifTokINVALID {
			ts = append(ts, string(t.Text))
		}
	}
	if len(ts) == 0 {
		return c08LrTokens[c.Rng.Intn(len(c08LrTokens))]
	}
	n := 1 + c.Rng.Intn(2)
	for i := 0; i < n && len(ts) > 0; i++ {
		p := c.Rng.Intn(len(ts))
		switch c.Rng.Intn(5) {
		case 0:
			ts = append(ts[:p:p], ts[p+1:]...)
		case 1:
			ts = append(ts[:p+1:p+1], ts[p:]...)
		case 2:
			q := c.Rng.Intn(len(ts))
			ts[p], ts[q] = ts[q], ts[p]
		case 3:
			ts[p] = c08LrTokens[c.Rng.Intn(len(c08LrTokens))]
		default:
			ins := c08LrTokens[c.Rng.Intn(len(c08LrTokens))]
			ts = append(ts[:p:p], append([]string{ins}, ts[p:]...)...)
		}
	}
	return strings.Join(ts, " ")
}

func c08LrSem(c *Ctx) {
	r := c.Res
	n := 6000
	if c.Thorough {
		n = 120000
	}
	var srcs []string
	for i := 0; i < n; i++ {
		e := c08LrGenExp(c, 3)
		srcs = append(srcs, e, c08LrMutate(c, e))
	}
	// programs and bind expressions are no value expressions: both sides must say so
	for _, s := range []string{"stage S(in int x, src py \"s\",)", "call S(x = 1,)", "x = 1", "", " ", "# c", "[1] [2]", "FOO.x", "self", "self.x"} {
		srcs = append(srcs, s)
	}
	reqs := make([][]string, len(srcs))
	for i, s := range srcs {
		reqs[i] = []string{"C08.lrcmp", hx(s)}
	}
	reps := c.Drv.AskBatch(reqs)
	for i, s := range srcs {
		rep := reps[i]
		f := strings.Fields(rep)
		r.count("lrsem:"+s, len(f) >= 2 && f[1] == "some")
		switch {
		case rep == "nolex":
			r.hist("lr-vs-reader:no-tokens(INVALID)")
			continue
		case strings.HasPrefix(rep, "differ"):
			small := c08ShrinkBytes(s, func(x string) bool {
				return strings.HasPrefix(c.Drv.Ask("C08.lrcmp", hx(x)), "differ")
			}, 150)
			r.violate(Violation{Kind: "correspondence", Key: "C08:lr-vs-reader-mismatch",
				What:  "the goyacc parser model with semantic values (parseLR: driver loop on the regenerated tables + the grammar actions) and x-c09's recursive-descent reader (FormatExp.parseToks) give different results on the tokens of a source",
				Input: strconv.Quote(small), Impl: c.Drv.Ask("C08.lrcmp", hx(small)), Broken: "hypothesis LRAgrees of Props.C09Tie.format_then_goyacc_parse (checked per run, not proved)"})
			continue
		}
		r.hist("lr-vs-reader:same:" + f[1])
		// both models against the real parser: accepted as a value expression or not
		res := c08Guard(3e9, func() (string, error) {
			var p syntax.Parser
			v, err := p.ParseValExp([]byte(s))
			if err != nil || v == nil {
				return "none", nil
			}
			return "some", nil
		})
		real := res.Out
		if res.Panic != "" {
			real = "panic"
		} else if res.TimedOut {
			real = "hang"
		}
		if real != f[1] {
			r.violate(Violation{Kind: "correspondence", Key: "C08:lr-sem-accepts-differently",
				What:  "Parser.ParseValExp and the two parser models disagree on whether the source is a value expression",
				Input: strconv.Quote(s), Impl: real, Model: f[1], Broken: "correspondence C08.lrcmp (Martian.LexerLR.parseLR)"})
		}
	}
}
