package main

// C16: references in call arguments and aliased calls are OUTSIDE the round
// trip; this file re-establishes on every run, on the real code, exactly what
// Props/C16 says about them:
//   * a top-level call with a reference (top level, in an array, in a map,
//     under split) is rejected by the compiler, so "the call compiles" excludes it;
//   * the unchecked text -> data leg writes {"__reference__": "ID.out"}, and the
//     data -> text leg has no reader for it: a map literal comes back, the JSON
//     is a fixed point (reference_not_restored, reference_json_fixed_point);
//   * `call X as Y(...)` yields the data of `call X(...)` and is regenerated
//     as `call X(...)` (alias_not_in_data, alias_roundtrip_data).

import (
	"encoding/json"
	"fmt"
	"strings"

	"github.com/martian-lang/martian/martian/core"
	"github.com/martian-lang/martian/martian/syntax"
)

func (x *c16Runner) refsAliases(sig *c16Sig) {
	r := x.r
	if len(sig.Params) == 0 {
		return
	}
	paths := []string{sig.Dir}
	p := sig.Params[x.c.Rng.Intn(len(sig.Params))]
	refs := []string{"OTHER.val", "OTHER", "self.thing", "OTHER.val.member"}
	ref := refs[x.c.Rng.Intn(len(refs))]
	wantRef := fmt.Sprintf(`{"__reference__":%q}`, ref)
	shapes := []struct{ name, mro, json string }{
		{"top", ref, wantRef},
		{"in_array", "[" + ref + ", null]", "[" + wantRef + ",null]"},
		{"in_map", `{"k": ` + ref + `}`, `{"k":` + wantRef + `}`},
		{"under_split", "split " + ref, `{"split":` + wantRef + `}`},
	}
	sh := shapes[x.c.Rng.Intn(len(shapes))]
	mapKw := ""
	if sh.name == "under_split" {
		mapKw = "map "
	}
	src := fmt.Sprintf("@include \"decl.mro\"\n\n%scall %s(\n    %s = %s,\n)\n", mapKw, sig.Callable, p.Name, sh.mro)
	in := map[string]interface{}{"decl": sig.Decl, "call_mro": src, "shape": sh.name}
	r.count("ref:"+src, true)
	r.hist("ref_shape_" + sh.name)

	// 1. the compiler rejects it
	_, _, _, cerr := syntax.ParseSourceBytes([]byte(src), "call.mro", paths, true)
	if cerr == nil {
		r.violate(Violation{Kind: "property", Key: "C16:ref:compiles",
			What:  "a top-level call with a reference in an argument compiles: the exclusion of references from the round trip (hypothesis: the call compiles) no longer holds",
			Input: in, Broken: "reference_not_restored (exclusion hypothesis)"})
		return
	}
	// 2. text -> data writes the marker object
	var d1 *core.InvocationData
	var err error
	if pan := c16Recover(func() { d1, err = core.InvocationDataFromSource([]byte(src), paths) }); pan != nil || err != nil {
		r.violate(Violation{Kind: "property", Key: "C16:ref:text-to-json",
			What: fmt.Sprintf("unchecked conversion of a call with a reference fails: %v %v", pan, err), Input: in})
		return
	}
	got := string(d1.Args[p.Name])
	if c1, e1 := c16CanonText([]byte(got), false); e1 != nil {
		r.violate(Violation{Kind: "property", Key: "C16:ref:text-to-json", What: "marshalled reference is not JSON: " + e1.Error(), Input: in, Impl: got})
		return
	} else if c2, _ := c16CanonText([]byte(sh.json), false); c1 != c2 {
		r.violate(Violation{Kind: "property", Key: "C16:ref:text-to-json",
			What: "a reference is not marshalled as {\"__reference__\": \"ID.out\"}", Input: in, Impl: got, Expect: sh.json,
			Broken: "encodeRef~RefExp.MarshalJSON"})
		return
	}
	// 3. data -> call: a map literal, never a reference; JSON fixed point
	var ast *syntax.Ast
	if pan := c16Recover(func() { ast, err = d1.BuildCallAst(paths) }); pan != nil || err != nil || ast == nil || ast.Call == nil {
		r.violate(Violation{Kind: "property", Key: "C16:ref:json-to-call",
			What: fmt.Sprintf("BuildCallAst fails on marshalled reference: %v %v", pan, err), Input: in})
		return
	}
	for _, b := range ast.Call.Bindings.List {
		if b.Id != p.Name {
			continue
		}
		hasRef := false
		var walk func(e syntax.Exp)
		walk = func(e syntax.Exp) {
			switch e := e.(type) {
			case *syntax.RefExp:
				hasRef = true
			case *syntax.SplitExp:
				walk(e.Value)
			case *syntax.ArrayExp:
				for _, v := range e.Value {
					walk(v)
				}
			case *syntax.MapExp:
				for _, v := range e.Value {
					walk(v)
				}
			}
		}
		walk(b.Exp)
		if hasRef {
			r.violate(Violation{Kind: "correspondence", Key: "C16:ref:restored",
				What:  "BuildCallAst restored a reference from {\"__reference__\": …}: the model (a map literal comes back) is out of date",
				Input: in, Broken: "reference_not_restored"})
		}
		mj, merr := b.Exp.MarshalJSON()
		c1, _ := c16CanonText(mj, false)
		c2, _ := c16CanonText([]byte(sh.json), false)
		if merr != nil || c1 != c2 {
			r.violate(Violation{Kind: "property", Key: "C16:ref:json-fixed-point",
				What: "the JSON of a marshalled reference changes in JSON -> call -> JSON", Input: in, Impl: string(mj), Expect: sh.json,
				Broken: "reference_json_fixed_point"})
		}
	}

	// aliases: `call X as Y(...)` == `call X(...)` at the data level, and is regenerated unaliased
	g := &c16Gen{c: x.c, sig: sig, feats: map[string]bool{}}
	v := g.genTyped(p.Ty, true, -1, nil)
	var vb strings.Builder
	v.mro(x.c, &vb)
	plain := fmt.Sprintf("@include \"decl.mro\"\n\ncall %s(\n    %s = %s,\n)\n", sig.Callable, p.Name, vb.String())
	aliased := strings.Replace(plain, "call "+sig.Callable+"(", "call "+sig.Callable+" as ALIAS_1(", 1)
	ain := map[string]interface{}{"decl": sig.Decl, "call_mro": aliased}
	r.count("alias:"+aliased, true)
	r.hist("alias_case")
	var dp, da *core.InvocationData
	var ep, ea error
	if pan := c16Recover(func() {
		dp, ep = core.InvocationDataFromSource([]byte(plain), paths)
		da, ea = core.InvocationDataFromSource([]byte(aliased), paths)
	}); pan != nil || ep != nil || ea != nil {
		r.violate(Violation{Kind: "property", Key: "C16:alias:text-to-json",
			What: fmt.Sprintf("valid (aliased) call text rejected: %v %v %v", pan, ep, ea), Input: ain})
		return
	}
	jp, _ := json.Marshal(dp)
	ja, _ := json.Marshal(da)
	if string(jp) != string(ja) || da.Call != sig.Callable {
		r.violate(Violation{Kind: "property", Key: "C16:alias:data",
			What: "the invocation data of an aliased call differs from that of the same call without alias", Input: ain,
			Impl: string(ja), Expect: string(jp), Broken: "alias_not_in_data"})
		return
	}
	var text2 string
	if pan := c16Recover(func() { text2, err = da.BuildCallSource(paths) }); pan != nil || err != nil {
		r.violate(Violation{Kind: "property", Key: "C16:alias:json-to-text",
			What: fmt.Sprintf("BuildCallSource fails on the data of an aliased call: %v %v", pan, err), Input: ain})
		return
	}
	if !strings.Contains(text2, "call "+sig.Callable+"(") || strings.Contains(text2, " as ") {
		r.violate(Violation{Kind: "correspondence", Key: "C16:alias:regenerated",
			What: "the call regenerated from the data of an aliased call is not the unaliased call of the callable", Input: ain,
			Impl: text2, Broken: "alias_roundtrip_data"})
		return
	}
	d3, err := core.InvocationDataFromSource([]byte(text2), paths)
	j3, _ := json.Marshal(d3)
	// data' is the canonical form of data: every parameter present, absent ones null (call_roundtrip)
	same := err == nil && d3 != nil && d3.Call == da.Call && len(d3.SplitArgs) == len(da.SplitArgs)
	if same {
		for _, q := range sig.Params {
			a, b := "null", "null"
			if raw, ok := da.Args[q.Name]; ok {
				a = string(raw)
			}
			if raw, ok := d3.Args[q.Name]; ok {
				b = string(raw)
			}
			ca, _ := c16CanonText([]byte(a), true)
			cb, _ := c16CanonText([]byte(b), true)
			if ca != cb {
				same = false
			}
		}
	}
	if !same {
		r.violate(Violation{Kind: "property", Key: "C16:alias:roundtrip",
			What: "aliased text -> data -> text' -> data' changes the data", Input: ain, Impl: string(j3), Expect: string(ja),
			Broken: "alias_roundtrip_data"})
	}
}
