package main

// C08 — the parser/compiler is total.
//
//  1. token-level correspondence: Go regexp token rules / converters /
//     nextToken (verif exports) vs the Lean recognisers and Option-valued
//     converters (lean/Martian/Lexer.lean);
//  2. property monitors = failing-input search on the real exported API
//     (ParseSourceBytes / ParseValExp / FormatSrcBytes) under recover() and a
//     per-input deadline: grammar-aware mutation of near-valid programs;
//  3. scaling probes in a SUBPROCESS (deep nesting, long inputs): a fatal Go
//     stack overflow cannot be recovered in-process.

import (
	"bytes"
	"encoding/json"
	"fmt"
	"math"
	"math/rand"
	"os"
	"os/exec"
	"path/filepath"
	"regexp"
	"runtime"
	"runtime/debug"
	"sort"
	"strconv"
	"strings"
	"sync"
	"sync/atomic"
	"syscall"
	"time"

	"github.com/martian-lang/martian/martian/syntax"
)

func init() {
	register("C08", runC08)
	register("C08-probe", runC08Probe)
	register("C08-api", runC08API)
	register("C08-inctree", runC08IncTree)
}

// ---------- guarded calls ----------

type c08Res struct {
	Panic    string
	TimedOut bool
	Dur      time.Duration
	Err      error
	Out      string
}

func c08Guard(limit time.Duration, f func() (string, error)) c08Res {
	ch := make(chan c08Res, 1)
	start := time.Now()
	go func() {
		var r c08Res
		defer func() {
			if p := recover(); p != nil {
				r.Panic = fmt.Sprint(p)
			}
			r.Dur = time.Since(start)
			ch <- r
		}()
		r.Out, r.Err = f()
	}()
	select {
	case r := <-ch:
		return r
	case <-time.After(limit):
		return c08Res{TimedOut: true, Dur: time.Since(start)}
	}
}

var c08NumRe = regexp.MustCompile(`[0-9]+`)
var c08QuotedRe = regexp.MustCompile(`"[^"]*"|'[^']*'`)

// normalise a panic / error message into a class name
func c08Norm(s string) string {
	s = c08QuotedRe.ReplaceAllString(s, `""`)
	s = c08NumRe.ReplaceAllString(s, "#")
	if i := strings.IndexByte(s, '\n'); i >= 0 {
		s = s[:i]
	}
	if len(s) > 90 {
		s = s[:90]
	}
	return s
}

var c08LocRe = regexp.MustCompile(`:[0-9]+|\bline [0-9]+`)

type c08API struct {
	name string
	run  func(src []byte, path string, inc []string) (string, error)
}

var c08APIs = []c08API{
	{"ParseSourceBytes", func(src []byte, path string, inc []string) (string, error) {
		out, _, _, err := syntax.ParseSourceBytes(src, path, inc, false)
		return out, err
	}},
	{"ParseValExp", func(src []byte, path string, inc []string) (string, error) {
		var p syntax.Parser
		v, err := p.ParseValExp(src)
		if err != nil || v == nil {
			return "", err
		}
		return "exp", nil
	}},
	{"FormatSrcBytes", func(src []byte, path string, inc []string) (string, error) {
		return syntax.FormatSrcBytes(src, path, false, inc)
	}},
}

// c08Check runs one input through the three APIs; returns the violation keys seen.
func c08Check(c *Ctx, src []byte, path string, inc []string, origin string, report bool) []string {
	r := c.Res
	var keys []string
	limit := 2*time.Second + time.Duration(len(src))*20*time.Microsecond
	for _, api := range c08APIs {
		res := c08Guard(limit, func() (string, error) { return api.run(src, path, inc) })
		var key, what string
		switch {
		case res.Panic != "":
			key = "C08:panic:" + c08Norm(res.Panic)
			what = api.name + " panicked: " + res.Panic
			r.hist("outcome:panic")
		case res.TimedOut:
			key = "C08:hang:" + api.name
			what = fmt.Sprintf("%s did not return within %v on a %d-byte input", api.name, limit, len(src))
			r.hist("outcome:hang")
		case res.Err != nil:
			r.hist("outcome:error")
			msg := res.Err.Error()
			if !c08LocRe.MatchString(msg) {
				key = "C08:unlocated-error:" + c08Norm(msg)
				what = api.name + " returned an error without a source position: " + msg
			}
		default:
			r.hist("outcome:tree")
		}
		if key == "" {
			continue
		}
		keys = append(keys, key)
		if report {
			r.violate(Violation{Kind: "property", Key: key, What: what,
				Input: map[string]interface{}{"api": api.name, "source": string(src), "source_q": strconv.Quote(string(src)),
					"origin": origin},
				Impl: what, Expect: "a syntax tree or an error carrying a source position"})
		}
	}
	return keys
}

func c08HasKey(keys []string, k string) bool {
	for _, x := range keys {
		if x == k {
			return true
		}
	}
	return false
}

// c08Shrink: delta-debugging style reduction keeping the violation class.
func c08Shrink(c *Ctx, src []byte, path string, inc []string, key string) []byte {
	cur := append([]byte{}, src...)
	tries := 0
	for chunk := len(cur) / 2; chunk >= 1; {
		changed := false
		for i := 0; i+chunk <= len(cur) && tries < 4000; {
			cand := append(append([]byte{}, cur[:i]...), cur[i+chunk:]...)
			tries++
			if c08HasKey(c08Check(c, cand, path, inc, "", false), key) {
				cur = cand
				changed = true
			} else {
				i += chunk
			}
		}
		if !changed || chunk == 1 {
			if chunk == 1 && !changed {
				break
			}
			if chunk > 1 {
				chunk /= 2
			}
		}
		if tries >= 4000 {
			break
		}
	}
	return cur
}

// ---------- seeds ----------

var c08BuiltinSeeds = []string{
	`filetype txt;
filetype json.gz;

struct PAIR(
    int    a "help a",
    string b,
)

# adds things
stage ADD(
    in  int      x     "the x",
    in  float[]  ys,
    in  map<int> m,
    in  PAIR     p,
    out int      sum   "help"  "sum.txt",
    out txt      log,
    src py       "stages/add -v --flag",
) split using (
    in  int      chunk,
    out int      part,
) using (
    mem_gb   = 2,
    threads  = 1.5,
    vmem_gb  = 4,
    special  = "highmem",
    volatile = strict,
) retain (
    log,
)

stage GATE(
    in  int  x,
    out bool ok,
    src exec "gate",
)

pipeline TOP(
    in  int  x,
    in  PAIR p,
    out int  r,
    out txt  l,
)
{
    call GATE(
        x = self.x,
    )
    call ADD(
        x  = self.x,
        ys = [1.5, 2e3, -0.5, 1e-7],
        m  = {"a": 1, "b": -2},
        p  = self.p,
    ) using (
        local    = true,
        volatile = true,
        disabled = GATE.ok,
    )
    map call ADD as ADD2(
        x  = split [1, 2, 3],
        ys = [],
        m  = {},
        p  = {a: 1, b: "s\n\"q\""},
    )
    return (
        r = ADD.sum,
        l = ADD.log,
    )
    retain (
        ADD.log,
    )
}

call TOP(
    x = 1,
    p = {
        a: 9223372036854775807,
        b: "é\x41\101\U0001F600\t",
    },
)
`,
	`stage S(in int x, out int y, src comp "bin/s arg", ) using (mem_gb = 0.5, threads = 2,)
pipeline P(in int x, out int y,) { call S(x = self.x,) return (y = S.y,) }
call P(x = -0,)
`,
	`stage A(in string s, in map<string[]> m, in int[][] a, out file[] f, out path p, out map<float> q, out bool b, src py "a",)
call A(s = "", m = {"": [""], "k": []}, a = [[1], [], [2, 3]],)
`,
}

var c08ExpSeeds = []string{
	`{"a": [1, 2.5, "s", null, true, false], "b": {c: 1, d: [{}, []]}, "": -1e-3}`,
	`[9223372036854775807, -9223372036854775808, 1.7976931348623157e308, 0.0, "x\"y\\z"]`,
	`"\a\b\f\n\r\t\v\\\"\101\x41A\U00000041"`,
	`{x: {y: {z: [[["deep"]]]}}}`,
	`-12`, `1e5`, `null`, `true`, `""`, `[]`, `{}`,
}

type c08Seed struct {
	src  []byte
	path string
	inc  []string
	name string
}

func c08LoadSeeds(c *Ctx) (prog []c08Seed, exps []c08Seed) {
	for i, s := range c08BuiltinSeeds {
		prog = append(prog, c08Seed{[]byte(s), filepath.Join(c.Scratch, fmt.Sprintf("seed%d.mro", i)), nil, fmt.Sprintf("builtin%d", i)})
	}
	pats := []string{"martian/syntax/testdata/*.mro", "martian/syntax/testdata/subdir/*.mro", "test/*/*.mro", "test/*/*/*.mro"}
	var files []string
	for _, p := range pats {
		m, _ := filepath.Glob(filepath.Join(c.RepoDir, p))
		files = append(files, m...)
	}
	sort.Strings(files)
	for _, f := range files {
		b, err := os.ReadFile(f)
		if err != nil || len(b) == 0 || len(b) > 40000 {
			continue
		}
		prog = append(prog, c08Seed{b, f, []string{filepath.Dir(f)}, strings.TrimPrefix(f, c.RepoDir+"/")})
	}
	for i, s := range c08ExpSeeds {
		exps = append(exps, c08Seed{[]byte(s), "exp", nil, fmt.Sprintf("exp%d", i)})
	}
	return
}

// ---------- mutation ----------

var c08Numerals = []string{
	"0", "-0", "00", "1", "-1", "007", "9223372036854775807", "9223372036854775808", "-9223372036854775808",
	"-9223372036854775809", "9999999999999999999", "10000000000000000000", "0009223372036854775808",
	"18446744073709551615", "18446744073709551616", "23058430092136939520", "00000000000000000000000001",
	"1e5", "1E5", "1e+5", "1e-5", "1.5", "-1.5e3", "1e308", "1e309", "1e999", "-1e999", "1e-999", "1e99", "1e39", "3.5e38",
	"1.7976931348623157e308", "1.7976931348623159e308", "0.0", "-0.0", "0e0", "1e00000000000000000000001",
	"1e99999999999999999999", "1:e5", "1:.5e3", "1.e5", "1e", "1e+", "1.5.5", "1..5", ".5", "1.", "+1", "--1", "1_000",
	"0x10", "1e5x", "12abc", "1.5abc", "1e5.5", "4.9e-324", "2.5e-324", "123456789012345678901234567890.5",
}

var c08Strings = []string{
	`""`, `" "`, `"\t \n"`, `"a"`, `"a b  c"`, `"\a\b\f\n\r\t\v"`, `"\\"`, `"\""`, `"a\"b"`, `"a\\ b"`, `"\\\""`,
	`"\000"`, `"\101"`, `"\377"`, `"\400"`, `"\777"`, `"\x00"`, `"\x41"`, `"\xff"`, `"\xFF"`, `"\u0000"`, `"A"`,
	`"é"`, `"😀"`, `"\udfff"`, `"￾"`, `" "`, `"\U0001F600"`, `"\U00110000"`, `"\U80000000"`,
	`"\UFFFFFFFF"`, `"\U0000D800"`, `"é"`, `"😀"`, "\"\xff\"", "\"\xc3\"", "\"\xe2\x98\"", "\"a\nb\"", "\"a\x00b\"",
	`"\x1"`, `"\xg1"`, `"\u12"`, `"\u123g"`, `"\U1234567"`, `"\8"`, `"\q"`, `"\`, `"\7"`, `"\12"`, `"\18a"`, `"\/"`,
	`"unterminated`, `"`, `"//"`, `"a/b"`, `"."`, `".."`, `"/"`, `"default"`, `"a.b"`, `" x "`, `"x "`, `"#"`, `"*"`,
	`"` + strings.Repeat("a", 300) + `"`,
}

// bind statements (and modifier blocks) in every shape the grammar allows, resolvable or not
var c08BindForms = []string{
	"* = self,", "* = S,", "* = T,", "* = self.x,", "* = self.p,", "* = T.q,", "* = T.y,", "* = NOPE,", "* = NOPE.a.b,", "* = self.nope,",
	"x = self.x,", "x = self.nope,", "x = self.p.a,", "x = S,", "x = S.y,", "x = T.q.a,", "x = T.default,", "x = NOPE,", "x = NOPE.out.deep,",
	"x = 1, x = 2,", "x = 1, * = self,", "* = self, * = self,", "p = {a: self.x, b: T.y},", "p = {a: 1, b: \"s\", c: 3},", "p = {a: 1},", "p = self.p,", "p = T.q,", "p = T,",
	"x = [self.x],", "x = {\"k\": NOPE},", "x = [T.y, S.y],", "x = null,", "x = \"s\",", "p = null,", "nope = 1,", "",
	"x = split self.x,", "x = split [1, 2],", "x = split T.y,", "x = split {\"a\": 1},", "x = split NOPE,", "x = split self.xs, p = split self.ps,", "x = split [1], p = split {\"a\": {a: 1, b: \"s\"}},",
	"x = split [],", "x = split {},", "p = split self,",
}

var c08BindTemplates = []string{
	// top-level call of a stage / a pipeline / something undeclared
	"struct PAIR(int a, string b,)\nstage S(in int x, in PAIR p, out int y, src py \"s\",)\nstage T(in int x, out int y, out PAIR q, src py \"t\",)\ncall S(\n    %s\n)\n",
	"struct PAIR(int a, string b,)\nstage S(in int x, in PAIR p, out int y, src py \"s\",)\nstage T(in int x, out int y, out PAIR q, src py \"t\",)\nmap call S(\n    %s\n)\n",
	"struct PAIR(int a, string b,)\nstage S(in int x, in PAIR p, out int y, src py \"s\",)\ncall local preflight volatile S(\n    %s\n) using (\n    disabled = self.x,\n)\n",
	"struct PAIR(int a, string b,)\nstage S(in int x, in PAIR p, out int y, src py \"s\",)\ncall S(\n    x = 1,\n) using (\n    disabled = S.y,\n    local = true,\n)\n%s",
	"struct PAIR(int a, string b,)\nstage S(in int x, in PAIR p, out int y, src py \"s\",)\npipeline P(in int x, in PAIR p, out int y,)\n{\n    call S(\n        %s\n    )\n    return (\n        y = S.y,\n    )\n}\ncall P(\n    %s\n)\n",
	"call NOPE(\n    %s\n)\n",
	// inside a pipeline: call bindings and return bindings
	"struct PAIR(int a, string b,)\nstage S(in int x, in PAIR p, out int y, src py \"s\",)\nstage T(in int x, out int y, out PAIR q, src py \"t\",)\npipeline P(in int x, in int[] xs, in PAIR p, in PAIR[] ps, out int y, out PAIR q,)\n{\n    call T(\n        x = self.x,\n    )\n    call S(\n        %s\n    )\n    return (\n        y = S.y,\n        q = T.q,\n    )\n}\n",
	"struct PAIR(int a, string b,)\nstage S(in int x, in PAIR p, out int y, src py \"s\",)\nstage T(in int x, out int y, out PAIR q, src py \"t\",)\npipeline P(in int x, in int[] xs, in PAIR p, in PAIR[] ps, out int y, out PAIR q,)\n{\n    call T(\n        x = self.x,\n    )\n    map call S(\n        %s\n    ) using (\n        disabled = T.y,\n    )\n    return (\n        y = S.y,\n        q = T.q,\n    )\n}\n",
	"struct PAIR(int a, string b,)\nstage T(in int x, out int y, out PAIR q, src py \"t\",)\npipeline P(in int x, in PAIR p, out int y, out PAIR q, out int x,)\n{\n    call T(\n        x = self.x,\n    )\n    return (\n        %s\n    )\n}\n",
}

// scope shapes the grammar has separate alternatives for (a pipeline WITHOUT call statements, with
// and without retain; only out parameters, so that no unused-input error hides what follows)
func init() {
	c08BindTemplates = append(c08BindTemplates,
		"struct PAIR(int a, string b,)\npipeline P(in int x, in int[] xs, in PAIR p, in PAIR[] ps, out int y, out PAIR q, out int x,)\n{\n    return (\n        %s\n    )\n}\n",
		"struct PAIR(int a, string b,)\npipeline P(out int y, out PAIR q, out int x, out PAIR p,)\n{\n    return (\n        %s\n    )\n}\n",
		"struct PAIR(int a, string b,)\nstage T(in int x, out int y, out PAIR q, src py \"t\",)\npipeline P(out int y, out PAIR q, out int x, out PAIR p,)\n{\n    return (\n        %s\n    )\n\n    retain (\n        T.q,\n    )\n}\n",
		"struct PAIR(int a, string b,)\nstage T(in int x, out int y, out PAIR q, src py \"t\",)\npipeline Q(out int y, out PAIR q, out int x, out PAIR p,)\n{\n    return (\n        %s\n    )\n}\npipeline P(out int y,)\n{\n    call Q()\n    return (\n        y = Q.y,\n    )\n}\ncall P()\n")
}

// the reference list of a retain statement in every form, resolvable or not
var c08RetainForms = []string{"", "T.y,", "T.q,", "T.q.a,", "T,", "NOPE.z,", "NOPE,", "self.x,", "self,", "T.y, T.y,", "T.nope,", "P.y,", "y,", "x,"}

var c08RetainTemplates = []string{
	// pipeline with a call / without any call / stage-level retain of parameters
	"struct PAIR(int a, string b,)\nstage T(in int x, out int y, out PAIR q, src py \"t\",)\npipeline P(in int x, out int y,)\n{\n    call T(\n        x = self.x,\n    )\n    return (\n        y = T.y,\n    )\n\n    retain (\n        %s\n    )\n}\n",
	"struct PAIR(int a, string b,)\nstage T(in int x, out int y, out PAIR q, src py \"t\",)\npipeline P(out int y,)\n{\n    return (\n        y = 1,\n    )\n\n    retain (\n        %s\n    )\n}\n",
	"struct PAIR(int a, string b,)\nstage T(in int x, out int y, out PAIR q, src py \"t\",)\npipeline P(in int x, out int y,)\n{\n    return (\n        y = self.x,\n    )\n\n    retain (\n        %s\n    )\n}\ncall P(\n    x = 1,\n)\n",
	"filetype txt;\nstage T(in int x, out int y, out txt q, src py \"t\",) retain (\n    %s\n)\n",
}

// names of every length class: 1, around the column caps of the formatter (25, 35, 40), powers of
// two, long.  The length of a name is independent of everything else about it; layout code pads
// columns by differences of lengths.
var c08NameLengths = []int{1, 2, 7, 8, 15, 16, 17, 23, 24, 25, 26, 31, 32, 33, 34, 35, 36, 39, 40, 41, 47, 48, 63, 64, 65, 80, 127, 128, 200}

var c08LongNameTemplates = []string{
	"filetype %s;\nstage S(in %s a, out %s b, src py \"s\",)\n",
	"struct %s(int a, string b,)\nstage S(in %s a, in map<%s> c, out %s[] b, out map<%s[]>[] d, src py \"s\",) split (in %s e, out %s f,)\npipeline P(in %s a, out %s b,)\n{\n    return (\n        b = self.a,\n    )\n}\n",
	"stage %s(in int a, out int b, src py \"s\",)\npipeline P%s(in int a, out int b,)\n{\n    call %s(\n        a = self.a,\n    )\n    return (\n        b = %s.b,\n    )\n}\ncall P%s(\n    a = 1,\n)\n",
	"struct T(int %s, string b \"%s\" \"%s\",)\nstage S(in int %s \"%s\", in T t, out int b%s \"%s\" \"%s\", src py \"%s\",) using (mem_gb = 1,) retain (b%s,)\n",
	"call S(\n    %s = {\"%s\": 1, %s: [%s.%s]},\n)\n",
}

func c08NameOfLen(n int) string {
	const al = "ABCDEFGHIJKLMNOPQRSTUVWXYZ_0123456789"
	b := make([]byte, n)
	for i := range b {
		b[i] = al[(i*7+n)%len(al)]
	}
	if b[0] == '_' || (b[0] >= '0' && b[0] <= '9') {
		b[0] = 'N'
	}
	return string(b)
}

var c08Keywords = []string{"as", "bool", "call", "comp", "default", "disabled", "exec", "false", "filetype", "float",
	"in", "int", "local", "map", "mem_gb", "memgb", "null", "out", "path", "pipeline", "preflight", "py", "retain",
	"return", "self", "special", "split", "src", "stage", "strict", "string", "struct", "threads", "true", "using",
	"volatile", "vmem_gb", "vmemgb", "file", "_x", "__x", "x_", "X", "é", "a-b", "in_", "maps"}

var c08Punct = []string{"(", ")", "{", "}", "[", "]", "<", ">", ",", ".", "=", ";", ":", "*", "\"", "#", "@", "@include",
	"\n", " ", "\t", "\x00", "\xff", "\xc3", " ", " ", "-", "+", "\\", "'", "`", "$", "/*", "//", "\r\n", "\ufeff"}

var (
	c08ReNum  = regexp.MustCompile(`-?[0-9]+(?:\.[0-9]+)?(?:[eE][+-]?[0-9]+)?`)
	c08ReStr  = regexp.MustCompile(`"(?:[^"\\\n]|\\.)*"`)
	c08ReId   = regexp.MustCompile(`[A-Za-z_][A-Za-z0-9_]*`)
	c08ReBind = regexp.MustCompile(`(?:[A-Za-z_][A-Za-z0-9_]*|\*)[ \t]*=[ \t]*[^,\n(){}\[\]]+,`)
)

func c08ReplaceMatch(c *Ctx, src []byte, re *regexp.Regexp, repl func() string) ([]byte, bool) {
	locs := re.FindAllIndex(src, -1)
	if len(locs) == 0 {
		return src, false
	}
	l := locs[c.Rng.Intn(len(locs))]
	out := append([]byte{}, src[:l[0]]...)
	out = append(out, repl()...)
	out = append(out, src[l[1]:]...)
	return out, true
}

func c08Nest(c *Ctx, inner string) string {
	d := 1 + c.Rng.Intn(40)
	if c.Rng.Intn(8) == 0 {
		d = 200 + c.Rng.Intn(1500)
	}
	switch c.Rng.Intn(4) {
	case 0:
		return strings.Repeat("[", d) + inner + strings.Repeat("]", d)
	case 1:
		return strings.Repeat(`{"k":`, d) + inner + strings.Repeat("}", d)
	case 2:
		return strings.Repeat(`{k:`, d) + inner + strings.Repeat("}", d)
	default:
		return strings.Repeat("[", d) + inner // unbalanced
	}
}

// c08Mutate applies 1..3 grammar-aware mutations; returns the mutant and the mutation names.
func c08Mutate(c *Ctx, seed []byte, others []c08Seed) ([]byte, string) {
	src := append([]byte{}, seed...)
	var names []string
	k := 1 + c.Rng.Intn(3)
	for i := 0; i < k; i++ {
		ok := false
		name := ""
		switch c.Rng.Intn(13) {
		case 12:
			name = "name-length"
			src, ok = c08ReplaceMatch(c, src, c08ReId, func() string {
				return c08NameOfLen(c08NameLengths[c.Rng.Intn(len(c08NameLengths))])
			})
		case 11:
			name = "bind-form"
			src, ok = c08ReplaceMatch(c, src, c08ReBind, func() string { return c08BindForms[c.Rng.Intn(len(c08BindForms))] })
		case 0, 1:
			name = "numeral"
			src, ok = c08ReplaceMatch(c, src, c08ReNum, func() string { return c08Numerals[c.Rng.Intn(len(c08Numerals))] })
		case 2, 3:
			name = "string"
			src, ok = c08ReplaceMatch(c, src, c08ReStr, func() string { return c08Strings[c.Rng.Intn(len(c08Strings))] })
		case 4:
			name = "keyword-as-id"
			src, ok = c08ReplaceMatch(c, src, c08ReId, func() string { return c08Keywords[c.Rng.Intn(len(c08Keywords))] })
		case 5:
			name = "truncate"
			if len(src) > 0 {
				src = src[:c.Rng.Intn(len(src))]
				ok = true
			}
		case 6:
			name = "insert-punct"
			pos := c.Rng.Intn(len(src) + 1)
			p := c08Punct[c.Rng.Intn(len(c08Punct))]
			src = append(append(append([]byte{}, src[:pos]...), p...), src[pos:]...)
			ok = true
		case 7:
			name = "delete-span"
			if len(src) > 1 {
				a := c.Rng.Intn(len(src))
				b := a + 1 + c.Rng.Intn(minInt(12, len(src)-a))
				src = append(append([]byte{}, src[:a]...), src[b:]...)
				ok = true
			}
		case 8:
			name = "nest"
			re := c08ReNum
			if c.Rng.Intn(2) == 0 {
				re = c08ReStr
			}
			src, ok = c08ReplaceMatch(c, src, re, func() string { return c08Nest(c, "1") })
		case 9:
			name = "splice"
			o := others[c.Rng.Intn(len(others))].src
			if len(o) > 2 && len(src) > 0 {
				a := c.Rng.Intn(len(o) - 1)
				b := a + 1 + c.Rng.Intn(minInt(80, len(o)-a-1))
				pos := c.Rng.Intn(len(src) + 1)
				src = append(append(append([]byte{}, src[:pos]...), o[a:b]...), src[pos:]...)
				ok = true
			}
		default:
			name = "dup-span"
			if len(src) > 1 {
				a := c.Rng.Intn(len(src))
				b := a + 1 + c.Rng.Intn(minInt(60, len(src)-a))
				src = append(append(append([]byte{}, src[:b]...), src[a:b]...), src[b:]...)
				ok = true
			}
		}
		if ok {
			names = append(names, name)
		}
	}
	sort.Strings(names)
	return src, strings.Join(names, "+")
}

func minInt(a, b int) int {
	if a < b {
		return a
	}
	return b
}

// ---------- token-level generators ----------

// c08Zeros: a run of 0..60 zeros; short runs and the lengths around common table sizes
// (15-24 digits) are favoured.
func c08Zeros(c *Ctx) string {
	var k int
	switch c.Rng.Intn(4) {
	case 0:
		k = c.Rng.Intn(4)
	case 1:
		k = 13 + c.Rng.Intn(14)
	default:
		k = 1 + c.Rng.Intn(60)
	}
	return strings.Repeat("0", k)
}

func c08Digits(c *Ctx, n int) string {
	b := make([]byte, n)
	for i := range b {
		b[i] = byte('0' + c.Rng.Intn(10))
	}
	if n > 0 && b[0] == '0' {
		b[0] = byte('1' + c.Rng.Intn(9))
	}
	return string(b)
}

// c08GenLongNum: LONG numerals of small magnitude information: zeros(1..60) before and after the
// significant digits, on both sides of the point, few (0-3, sometimes up to 17) significant
// digits, with and without point and exponent.  The length of a literal, the number of its
// decimals and the number of its significant digits are independent of each other and of its
// magnitude; converters with fast paths index tables by any of them.
func c08GenLongNum(c *Ctx) string {
	sig := func() string {
		switch c.Rng.Intn(6) {
		case 0:
			return ""
		case 1:
			return c08Digits(c, 4+c.Rng.Intn(14))
		default:
			return c08Digits(c, 1+c.Rng.Intn(3))
		}
	}
	opt := func(s string) string {
		if c.Rng.Intn(3) == 0 {
			return ""
		}
		return s
	}
	var sb strings.Builder
	if c.Rng.Intn(4) == 0 {
		sb.WriteByte('-')
	}
	ip := opt(c08Zeros(c)) + sig() + opt(c08Zeros(c))
	if ip == "" {
		ip = "0"
	}
	sb.WriteString(ip)
	if c.Rng.Intn(5) != 0 {
		fp := opt(c08Zeros(c)) + sig() + opt(c08Zeros(c))
		if fp == "" {
			fp = "0"
		}
		sb.WriteString("." + fp)
	}
	if c.Rng.Intn(3) == 0 {
		sb.WriteString([]string{"e", "E"}[c.Rng.Intn(2)] + []string{"", "+", "-"}[c.Rng.Intn(3)])
		sb.WriteString(opt(strings.Repeat("0", c.Rng.Intn(4))) + strconv.Itoa(c.Rng.Intn([]int{10, 40, 400}[c.Rng.Intn(3)])))
	}
	return sb.String()
}

// long numerals of the catalogue (they also go into every literal position of the API-level
// mutants): k zeros on either side of the point and of the significant digits, k around the
// sizes that digit-count-indexed tables usually have
func init() {
	for _, k := range []int{1, 7, 15, 16, 17, 18, 19, 20, 21, 22, 23, 24, 25, 31, 32, 33, 40, 60} {
		z := strings.Repeat("0", k)
		c08Numerals = append(c08Numerals,
			"0."+z, "0."+z+"1", "1."+z, "1."+z+"1", "0."+z+"123456789012", z+"1.5", z+"."+z, "1"+z+".0", "1"+z+"."+z+"1",
			"-0."+z+"5", "0."+z+"1e5", "0."+z+"1e-5", "1"+z+"e-"+strconv.Itoa(k), z+"7", "12"+z)
	}
}

func c08GenNum(c *Ctx) string {
	var s string
	switch c.Rng.Intn(9) {
	case 7, 8:
		s = c08GenLongNum(c)
	case 0, 1:
		s = c08Numerals[c.Rng.Intn(len(c08Numerals))]
	case 2:
		// digit string of chosen length, optional sign and leading zeros
		n := 1 + c.Rng.Intn(24)
		var sb strings.Builder
		if c.Rng.Intn(3) == 0 {
			sb.WriteByte('-')
		}
		sb.WriteString(strings.Repeat("0", c.Rng.Intn(4)*c.Rng.Intn(3)))
		for i := 0; i < n; i++ {
			sb.WriteByte(byte('0' + c.Rng.Intn(10)))
		}
		s = sb.String()
	case 3:
		// around 2^63 and 2^64
		base := []string{"9223372036854775807", "9223372036854775808", "18446744073709551615", "9223372036854775799", "922337203685477580"}
		b := []byte(base[c.Rng.Intn(len(base))])
		b[len(b)-1-c.Rng.Intn(3)] = byte('0' + c.Rng.Intn(10))
		s = string(b)
		if c.Rng.Intn(2) == 0 {
			s = "-" + s
		}
		if c.Rng.Intn(4) == 0 {
			s += string(byte('0' + c.Rng.Intn(10)))
		}
	case 4:
		// float with boundary exponents
		mant := []string{"1", "1.0", "1.7976931348623157", "1.7976931348623158", "1.79769313486231580793", "1.797693134862315807", "3.4028235", "3.4028236", "3.40282357",
			"9.99", "0.0001", "17976931348623157", "340282356779733661637539395458142568448", "340282356779733661637539395458142568447", "0", "0.0", "123.456"}
		exps := []string{"0", "1", "22", "23", "37", "38", "39", "-38", "-46", "292", "307", "308", "309", "310", "-307", "-324", "-400", "400", "999", "4000", "00308", "+308", "-0"}
		s = mant[c.Rng.Intn(len(mant))]
		if c.Rng.Intn(5) != 0 {
			s += []string{"e", "E"}[c.Rng.Intn(2)] + exps[c.Rng.Intn(len(exps))]
		} else if !strings.Contains(s, ".") {
			s += ".0"
		}
		if c.Rng.Intn(3) == 0 {
			s = "-" + s
		}
	case 5:
		s = c08BigBoundary[c.Rng.Intn(len(c08BigBoundary))]
	default:
		const alpha = "0123456789012345.eE+-:_ax ,"
		n := 1 + c.Rng.Intn(10)
		b := make([]byte, n)
		for i := range b {
			b[i] = alpha[c.Rng.Intn(len(alpha))]
		}
		s = string(b)
	}
	if c.Rng.Intn(3) == 0 {
		suffix := []string{" ", ",", "]", "a", "_", ".", "e", ":", "\xff", "é", ")", "\n", "e5", ".5", "-"}
		s += suffix[c.Rng.Intn(len(suffix))]
	}
	return s
}

// 2^1024 - 2^970 (smallest decimal that overflows binary64), the integer below it,
// and the same for binary32 (2^128 - 2^103)
var c08BigBoundary = []string{
	"179769313486231580793728971405303415079934132710037826936173778980444968292764750946649017977587207096330286416692887910946555547851940402630657488671505820681908902000708383676273854845817711531764475730270069855571366959622842914819860834936475292719074168444365510704342711559699508093042880177904174497792.0",
	"179769313486231580793728971405303415079934132710037826936173778980444968292764750946649017977587207096330286416692887910946555547851940402630657488671505820681908902000708383676273854845817711531764475730270069855571366959622842914819860834936475292719074168444365510704342711559699508093042880177904174497791.0",
	"179769313486231580793728971405303415079934132710037826936173778980444968292764750946649017977587207096330286416692887910946555547851940402630657488671505820681908902000708383676273854845817711531764475730270069855571366959622842914819860834936475292719074168444365510704342711559699508093042880177904174497791.9999",
	"340282356779733661637539395458142568448.0",
	"340282356779733661637539395458142568447.0",
	"340282356779733661637539395458142568447.99e0",
	"3402823567797336616375393954581425684480e-1",
	"0.00000000000000000000000000000000000000000000000001e358",
	"0.00000000000000000000000000000000000000000000000001e359",
}

var c08StrPieces = []string{
	"a", "b", " ", "xyz", "/", ".", "#", `\a`, `\b`, `\f`, `\n`, `\r`, `\t`, `\v`, `\\`, `\"`,
	`\000`, `\101`, `\377`, `\400`, `\777`, `\177`, `\x00`, `\x41`, `\x7f`, `\x80`, `\xff`, `\xFf`, `\u0000`, `A`,
	`é`, `\ud83d`, `\ude00`, `\udfff`, `￾`, `￿`, ` `, `ࠀ`, `߿`, `\U0001F600`, `\U00010000`, `\U0010FFFF`,
	`\U00110000`, `\U80000000`, `\UFFFFFFFF`, `\U0000D800`, `\U7FFFFFFF`, `\U00000041`, "é", "😀", "\xff", "\xc3", "\xe2\x98", "\n", "\x00", "\t",
	`\ud83d\ude00`, `\ud83d\ud83d`, `\ude00\ud83d`, `\ud83d\u0041`, `\udbff\udfff`, `\ud800\udc00`, `\ud83d\ude0`, `\ud83d\uzz00`, `\ud83d\U0000de00`, `\ud83d\n`,
	`\x1`, `\xg1`, `\x1g`, `\u12`, `\u123g`, `\ug123`, `\U1234567`, `\U0001F60g`, `\8`, `\9`, `\q`, `\`, `\7`, `\12`, `\18a`, `\81a`, `\/`, `\'`, `"`, `\x`, `\u`, `\U`, `\1`,
}

func c08GenStr(c *Ctx) string {
	var sb strings.Builder
	if c.Rng.Intn(20) != 0 {
		sb.WriteByte('"')
	}
	n := c.Rng.Intn(6)
	for i := 0; i < n; i++ {
		sb.WriteString(c08StrPieces[c.Rng.Intn(len(c08StrPieces))])
	}
	if c.Rng.Intn(8) != 0 {
		sb.WriteByte('"')
	}
	if c.Rng.Intn(4) == 0 {
		sb.WriteString([]string{" ", ",", "x", `"`, `"tail"`, "\n"}[c.Rng.Intn(6)])
	}
	return sb.String()
}

// recover-wrapped converter call
func c08Try(f func() string) (out string) {
	defer func() {
		if p := recover(); p != nil {
			out = "panic"
		}
	}()
	return f()
}

// c08NextTokenGuarded: nextToken under recover (pn = the panic value, "" if none)
func c08NextTokenGuarded(b []byte) (id int, v []byte, pn string) {
	type res struct {
		id int
		v  []byte
		pn string
	}
	if c08ScannerHung {
		return 0, nil, "HANG (not called again: the tokenizer did not return on an earlier input)"
	}
	ch := make(chan res, 1)
	go func() {
		var o res
		defer func() {
			if p := recover(); p != nil {
				o.pn = c08Norm(fmt.Sprint(p))
			}
			ch <- o
		}()
		o.id, o.v = syntax.VerifNextToken(b)
	}()
	t := time.NewTimer(c08ScanDeadline)
	defer t.Stop()
	select {
	case o := <-ch:
		return o.id, o.v, o.pn
	case <-t.C:
		c08ScannerHung = true
		return 0, nil, "HANG: nextToken did not return within " + c08ScanDeadline.String()
	}
}

// The real tokenizer runs in this process; a call that does not return cannot be stopped, only
// abandoned (its goroutine keeps spinning until the harness exits).  After the first such call the
// tokenizer is not called again by the token-level phases.
var c08ScannerHung bool

const c08ScanDeadline = 10 * time.Second

func optHexGo(b []byte) string {
	if b == nil {
		return "none"
	}
	return "some " + hx(string(b))
}

// ---------- main runner ----------

func runC08(c *Ctx) {
	r := c.Res
	r.Rule = "(1) token level: numeric-looking strings (boundary numerals around 2^63/2^64/MaxFloat64/MaxFloat32, random digit/exponent strings, the regex-typo alphabet incl. ':') and string-literal-looking strings (every escape form, near-miss escapes, raw control/non-ASCII/invalid bytes): Go regexp token rules, nextToken, parseInt/parseFloat/parseFloat32/unquoteBytes (panic = recover) vs the Lean recognisers/converters; non-trivial = the rule matched or a converter was exercised. (1b) regex model: generated regex/input pairs inside the syntax subset of Martian.Regex.parse (alternation, greedy and counted repetition, classes, negated classes, anchors; inputs sampled from the regex, corrupted, with non-ASCII/invalid tails) through Go regexp Compile+Find vs the Lean parser + leftmost-first matcher, and the four regenerated rule regexes through the generic matcher vs the real rule functions; non-trivial = Go found a match. (1c) whole tokenizer: token streams (id, text, line, column), comment blocks and final position of the real mmLexInfo.Lex loop vs the Lean tokenizer model (interpreted from the regenerated keywordToken switch and token constants) on the repo .mro files, byte-level mutants and concatenations of keywords/near-keywords/numerals/strings/comments/ASCII and non-ASCII white space/invalid bytes, plus nextToken on single heads and a direct prefix/progress monitor; non-trivial = more than one token. (2) API level: grammar-aware mutants (numeral/string/keyword substitution, truncation at every byte of small seeds, punctuation/byte insertion, span delete/dup/splice, nesting) of the repo's own .mro files + built-in near-valid programs and value expressions through ParseSourceBytes, ParseValExp, FormatSrcBytes under recover() with a deadline of 2 s + 20 us/byte; non-trivial = mutant differs from its seed; distinct = distinct input. (3) scaling probes in a subprocess (nesting depth up to 1e5/1e6, long lists/strings/comments, many declarations/calls/comments)."
	if c.Drv == nil {
		fatal("C08 needs the Lean driver")
	}
	rules := c.Drv.Ask("C08.rules")
	r.note("regenerated regex strings equal the model's [int float(fixed) float(colon-typo) string]: %s", rules)
	rf := strings.Fields(rules)
	if len(rf) == 4 {
		if rf[0] != "true" || rf[3] != "true" || (rf[1] != "true" && rf[2] != "true") {
			r.violate(Violation{Kind: "correspondence", Key: "C08:regex-source-changed",
				What:  "a token regex in tokenizer.go is not one the Lean recognisers were written for: " + rules,
				Input: rules, Broken: "Props.C08.int_rule_src / float_rule_src / string_rule_src"})
		}
	}

	// development aid: VERIF_C08_ONLY=lex runs the lexer-level phases only
	if only := os.Getenv("VERIF_C08_ONLY"); strings.HasPrefix(only, "lex") {
		t0 := time.Now()
		if only == "lex" || only == "lex:tokens" {
			c08Tokens(c)
			r.note("token phase: %.1fs", time.Since(t0).Seconds())
		}
		if only == "lex" || only == "lex:regex" {
			c08Regex(c)
		}
		if only == "lex" || only == "lex:stream" {
			c08TokenStream(c)
		}
		if only == "lex" || only == "lex:actions" {
			c08Actions(c)
		}
		if only == "lex" || only == "lex:lrsem" {
			c08LrSem(c)
		}
		if only == "lex" || only == "lex:extra" {
			c08LexExtra(c)
		}
		if only == "lex" || only == "lex:parse" {
			c08ParserTrace(c)
		}
		return
	}

	// ---- 0 + 2. corpus and API-level monitors, in a child process: a fatal Go error
	// (stack overflow, out of memory) in the code under test cannot be recovered in-process.
	// ---- 3b. include trees with planted errors (child process). ---- 4a. first pass of the scaling
	// probes (subprocesses). These three use neither the Lean driver nor c.Rng (the children derive
	// their own generators from the seed; the probes are fixed inputs), so they run concurrently with
	// the token-level phases, each into its own Result; the results are merged in a fixed order. ----
	t0 := time.Now()
	type phase struct {
		res  *Result
		done chan struct{}
		dur  time.Duration
	}
	launch := func(f func(cc *Ctx)) *phase {
		p := &phase{res: &Result{}, done: make(chan struct{})}
		cc := *c
		cc.Res = p.res
		go func() {
			f(&cc)
			p.dur = time.Since(t0)
			close(p.done)
		}()
		return p
	}
	pAPI := launch(c08RunAPIChild)
	pTree := launch(c08RunIncTrees)
	var scale *c08ScaleState
	pScale := launch(func(cc *Ctx) { scale = c08ScalingFirstPass(cc) })

	// ---- 1. token-level correspondence ----
	c08Tokens(c)
	// ---- 1b. regex model vs Go regexp; 1c. whole tokenizer: token streams vs the model ----
	c08Regex(c)
	c08TokenStream(c)
	// ---- 3. src_stm action: Go vs model ----
	c08SrcAction(c)
	// ---- 3a. every token-consuming grammar action: real parser on tiny programs vs Martian.LexerActions ----
	c08Actions(c)
	// ---- 3c. identifier recogniser; white-space set ----
	c08LexExtra(c)
	// ---- 3d. goyacc model with semantic values vs x-c09's reader (value expressions) ----
	c08LrSem(c)
	// ---- 3d. the goyacc driver: debug trace of the real parser vs the Lean model of the LR loop ----
	c08ParserTrace(c)
	tTok := time.Since(t0)

	<-pTree.done
	<-pScale.done
	<-pAPI.done
	tConc := time.Since(t0)

	// ---- 4b. scaling probes, verdicts: a kind with a timing verdict is measured again now, when nothing
	// else of this harness is running, before anything is reported ----
	t1 := time.Now()
	{
		cc := *c
		cc.Res = pScale.res
		c08ScalingFinish(&cc, scale)
	}
	tAlone := time.Since(t1)

	for _, sub := range []*Result{pTree.res, pScale.res, pAPI.res} {
		c08Merge(r, sub)
	}
	r.note("phase wall times: token level+src action %.1fs; concurrently: include trees %.1fs, scaling probes first pass %.1fs, API monitors (child) %.1fs; all concurrent phases done after %.1fs; scaling probes re-measured alone %.1fs",
		tTok.Seconds(), pTree.dur.Seconds(), pScale.dur.Seconds(), pAPI.dur.Seconds(), tConc.Seconds(), tAlone.Seconds())
}

// c08Merge adds the counts, samples, histogram, violations, notes and extras of sub to r.
func c08Merge(r, sub *Result) {
	r.Evals += sub.Evals
	r.Distinct += sub.Distinct
	for _, x := range sub.Samples {
		r.sample(x)
	}
	for k, v := range sub.Histogram {
		if r.Histogram == nil {
			r.Histogram = map[string]int{}
		}
		r.Histogram[k] += v
	}
	r.Violations = append(r.Violations, sub.Violations...)
	r.Notes = append(r.Notes, sub.Notes...)
	for k, v := range sub.Extra {
		if r.Extra == nil {
			r.Extra = map[string]interface{}{}
		}
		r.Extra[k] = v
	}
}

// c08RunAPIChild runs runC08API in a subprocess and merges its result; if the child dies,
// the input it was working on (recorded before every call) is the replay.
func c08RunAPIChild(c *Ctx) {
	r := c.Res
	self, err := os.Executable()
	if err != nil {
		r.note("API monitors skipped: %v", err)
		return
	}
	outf := filepath.Join(c.Scratch, "api-result.json")
	last := filepath.Join(c.Scratch, "api-last-input.json")
	cmd := exec.Command(self, "-tier", c.Tier, "-seed", strconv.FormatInt(c.Seed, 10), "-out", outf,
		"-corpus", c.Corpus, "-repo", c.RepoDir, "C08-api")
	cmd.Env = append(os.Environ(), "VERIF_C08_LAST="+last)
	var eb bytes.Buffer
	cmd.Stderr = &eb
	cmd.Stdout = &eb
	runErr := cmd.Run()
	if runErr == nil {
		if b, err := os.ReadFile(outf); err == nil {
			var cr Result
			if json.Unmarshal(b, &cr) == nil {
				r.Evals += cr.Evals
				r.Distinct += cr.Distinct
				for _, s := range cr.Samples {
					r.sample(s)
				}
				for k, v := range cr.Histogram {
					if r.Histogram == nil {
						r.Histogram = map[string]int{}
					}
					r.Histogram[k] += v
				}
				r.Violations = append(r.Violations, cr.Violations...)
				r.Notes = append(r.Notes, cr.Notes...)
				return
			}
		}
		r.note("API monitor child produced no readable result")
		return
	}
	msg := eb.String()
	cls := "crash"
	switch {
	case strings.Contains(msg, "stack overflow") || strings.Contains(msg, "stack exceeds"):
		cls = "stack-overflow"
	case strings.Contains(msg, "out of memory"):
		cls = "out-of-memory"
	case strings.Contains(msg, "concurrent map"):
		cls = "concurrent-map-access"
	}
	head := msg
	if i := strings.Index(head, "fatal error"); i >= 0 {
		head = head[i:]
	}
	if len(head) > 1500 {
		head = head[:1500]
	}
	var in map[string]interface{}
	if b, err := os.ReadFile(last); err == nil {
		json.Unmarshal(b, &in)
	}
	r.violate(Violation{Kind: "property", Key: "C08:fatal:" + cls,
		What:  "the process running ParseSourceBytes/ParseValExp/FormatSrcBytes (or rendering the returned error) died with an unrecoverable Go error: " + cls,
		Input: in, Impl: head, Expect: "a syntax tree or a located error; the process survives"})
}

// runC08API: corpus + API-level monitors (child process of runC08).
func runC08API(c *Ctx) {
	r := c.Res
	lastFile := os.Getenv("VERIF_C08_LAST")
	progSeeds, expSeeds := c08LoadSeeds(c)
	allSeeds := append(append([]c08Seed{}, progSeeds...), expSeeds...)
	reported := map[string]bool{}
	shrunk := 0
	checkInput := func(src []byte, path string, inc []string, origin string, nontrivial bool) {
		r.count(string(src), nontrivial)
		if lastFile != "" {
			if b, err := json.Marshal(map[string]interface{}{"source": string(src), "source_go_quoted": strconv.Quote(string(src)),
				"path": path, "include_paths": inc, "origin": origin}); err == nil {
				os.WriteFile(lastFile, b, 0o644)
			}
		}
		keys := c08Check(c, src, path, inc, origin, false)
		for _, k := range keys {
			if reported[k] {
				r.hist("violating-inputs")
				continue
			}
			reported[k] = true
			min := src
			if shrunk < 16 && len(src) > 1 {
				shrunk++
				min = c08Shrink(c, src, path, inc, k)
			}
			// re-run reporting on the minimised input (only the matching class is new)
			r.hist("violating-inputs")
			for _, api := range c08APIs {
				res := c08Guard(5*time.Second, func() (string, error) { return api.run(min, path, inc) })
				var what string
				switch {
				case res.Panic != "" && "C08:panic:"+c08Norm(res.Panic) == k:
					what = api.name + " panicked: " + res.Panic
				case res.TimedOut && "C08:hang:"+api.name == k:
					what = api.name + " did not return in time"
				case res.Err != nil && "C08:unlocated-error:"+c08Norm(res.Err.Error()) == k:
					what = api.name + " returned an error without a source position: " + res.Err.Error()
				default:
					continue
				}
				r.violate(Violation{Kind: "property", Key: k, What: what,
					Input: map[string]interface{}{"api": api.name, "source": string(min), "source_go_quoted": strconv.Quote(string(min)),
						"origin": origin, "unshrunk_len": len(src)},
					Impl: what, Expect: "a syntax tree or an error carrying a source position; no panic, no hang"})
				break
			}
		}
	}

	// ---- 0. corpus first ----
	for _, s := range readCorpusLines(c.Corpus) {
		r.hist("corpus")
		checkInput([]byte(s), filepath.Join(c.Scratch, "corpus.mro"), nil, "corpus", true)
	}

	// include cycles (two files including each other, and a self-include): the error must be renderable
	{
		dir := filepath.Join(c.Scratch, "cyc")
		os.MkdirAll(dir, 0o755)
		a := []byte("@include \"b.mro\"\n\nfiletype x;\n")
		os.WriteFile(filepath.Join(dir, "a.mro"), a, 0o644)
		os.WriteFile(filepath.Join(dir, "b.mro"), []byte("@include \"a.mro\"\n\nfiletype y;\n"), 0o644)
		self := []byte("@include \"s.mro\"\n\nfiletype z;\n")
		os.WriteFile(filepath.Join(dir, "s.mro"), self, 0o644)
		r.hist("include-cycle")
		checkInput(a, filepath.Join(dir, "a.mro"), []string{dir}, "include-cycle a<->b", true)
		checkInput(self, filepath.Join(dir, "s.mro"), []string{dir}, "include-cycle self", true)
	}

	// ---- 2. API-level monitors ----
	// every seed unchanged must be handled
	for _, s := range allSeeds {
		r.hist("seed")
		checkInput(s.src, s.path, s.inc, "seed:"+s.name, false)
	}
	// every numeral / string of the catalogue in value position and in every string position
	for _, n := range c08Numerals {
		for _, tmpl := range []string{"%s", "[%s]", "{\"k\": %s}", "call F(x = %s,)", "stage S(in int x, src py \"s\",) using (mem_gb = %s,)", "stage S(in int x, src py \"s\",) using (threads = %s, vmem_gb = %s,)"} {
			src := strings.ReplaceAll(tmpl, "%s", n)
			r.hist("catalogue-numeral")
			checkInput([]byte(src), filepath.Join(c.Scratch, "n.mro"), nil, "numeral-catalogue", true)
		}
	}
	strTemplates := []string{"%s", "[%s]", "{%s: 1}", "@include %s\n", "call F(x = %s,)",
		"stage S(in int x %s, out int y %s %s, src py %s,)", "stage S(in int x, src exec %s,)", "stage S(in int x, src comp %s,) using (special = %s,)",
		"struct T(int a %s %s,)", "stage S(in int x, out int %s, src py \"s\",)"}
	for _, s := range c08Strings {
		for _, tmpl := range strTemplates {
			src := strings.ReplaceAll(tmpl, "%s", s)
			r.hist("catalogue-string")
			checkInput([]byte(src), filepath.Join(c.Scratch, "s.mro"), nil, "string-catalogue", true)
		}
	}
	// every bind-statement form in a top-level call, a pipeline call and a return statement
	for _, b := range c08BindForms {
		for _, tmpl := range c08BindTemplates {
			src := strings.ReplaceAll(tmpl, "%s", b)
			r.hist("catalogue-bind-form")
			checkInput([]byte(src), filepath.Join(c.Scratch, "b.mro"), nil, "bind-form-catalogue", true)
		}
	}
	// every retain-list form in a pipeline with a call, without any call, and in a stage
	for _, b := range c08RetainForms {
		for _, tmpl := range c08RetainTemplates {
			src := strings.ReplaceAll(tmpl, "%s", b)
			r.hist("catalogue-retain-form")
			checkInput([]byte(src), filepath.Join(c.Scratch, "rt.mro"), nil, "retain-form-catalogue", true)
		}
	}
	// names of every length class in every name position; array types of every number of dimensions
	for _, n := range c08NameLengths {
		nm := c08NameOfLen(n)
		for _, tmpl := range c08LongNameTemplates {
			src := strings.ReplaceAll(tmpl, "%s", nm)
			r.hist("catalogue-name-length")
			checkInput([]byte(src), filepath.Join(c.Scratch, "ln.mro"), nil, "name-length-catalogue", true)
		}
		if n <= 128 {
			dims := strings.Repeat("[]", n)
			src := "stage S(in int" + dims + " a, in map<int" + dims + "> m, out string" + dims + " b, src py \"s\",)\n"
			r.hist("catalogue-name-length")
			checkInput([]byte(src), filepath.Join(c.Scratch, "ln.mro"), nil, "name-length-catalogue", true)
		}
	}
	// truncation at every byte of the small seeds
	for _, s := range allSeeds {
		if (len(s.src) > 1200 && !c.Thorough) || len(s.src) > 6000 {
			continue
		}
		// quick tier: every byte of the seeds up to 600 bytes, every second byte (parity drawn per seed)
		// of the seeds up to 1200 bytes; thorough tier: every byte
		from, step := 0, 1
		if !c.Thorough && len(s.src) > 600 {
			from, step = c.Rng.Intn(2), 2
		}
		for i := from; i < len(s.src); i += step {
			r.hist("truncate-every-byte")
			checkInput(s.src[:i], s.path, s.inc, "truncate:"+s.name, true)
		}
	}
	// keywords as identifiers in every identifier position of the first builtin seeds
	for si := 0; si < 3 && si < len(progSeeds); si++ {
		s := progSeeds[si]
		locs := c08ReId.FindAllIndex(s.src, -1)
		for _, l := range locs {
			kw := c08Keywords[c.Rng.Intn(len(c08Keywords))]
			src := append(append(append([]byte{}, s.src[:l[0]]...), kw...), s.src[l[1]:]...)
			r.hist("keyword-every-position")
			checkInput(src, s.path, s.inc, "keyword:"+s.name, true)
		}
	}
	// random mutants
	n := 3000
	if c.Thorough {
		n = 400000
	}
	deadline := time.Now().Add(12 * time.Second)
	if c.Thorough {
		deadline = time.Now().Add(200 * time.Second)
	}
	done := 0
	for i := 0; i < n && time.Now().Before(deadline); i++ {
		var seed c08Seed
		if c.Rng.Intn(4) == 0 {
			seed = expSeeds[c.Rng.Intn(len(expSeeds))]
		} else if c.Rng.Intn(3) == 0 {
			seed = progSeeds[c.Rng.Intn(minInt(3, len(progSeeds)))]
		} else {
			seed = progSeeds[c.Rng.Intn(len(progSeeds))]
		}
		m, names := c08Mutate(c, seed.src, allSeeds)
		if names == "" {
			names = "none"
		}
		r.hist("mutant:" + names)
		if i%701 == 0 {
			r.sample(map[string]string{"seed": seed.name, "mutations": names, "input_head": strconv.Quote(string(m[:minInt(len(m), 160)]))})
		}
		checkInput(m, seed.path, seed.inc, "mutant("+names+"):"+seed.name, !bytes.Equal(m, seed.src))
		done++
	}
	r.note("random mutants run: %d", done)
}

// ---------- token level ----------

func c08Tokens(c *Ctx) {
	r := c.Res
	n := 4000
	if c.Thorough {
		n = 200000
	}
	// numerals
	var nums []string
	nums = append(nums, c08Numerals...)
	nums = append(nums, c08BigBoundary...)
	for i := 0; i < n; i++ {
		nums = append(nums, c08GenNum(c))
	}
	reqs := make([][]string, 0, 3*len(nums))
	for _, s := range nums {
		reqs = append(reqs, []string{"C08.int", hx(s)}, []string{"C08.float", hx(s)}, []string{"C08.numtok", hx(s)})
	}
	reps := c.Drv.AskBatch(reqs)
	var convReqs [][]string
	type conv struct {
		kind, tok, goRes string
	}
	var convs []conv
	for i, s := range nums {
		b := []byte(s)
		gi, gf := syntax.VerifTokInt(b), syntax.VerifTokFloat(b)
		nontriv := gi != nil || gf != nil
		r.count("num:"+s, nontriv)
		if i%499 == 0 {
			r.sample(map[string]string{"numeric_input": s, "go_int_rule": optHexGo(gi), "go_float_rule": optHexGo(gf), "model_numtok": reps[3*i+2]})
		}
		if g := optHexGo(gi); g != reps[3*i] {
			r.violate(Violation{Kind: "correspondence", Key: "C08:int-rule-mismatch", What: "tokIntRule differs from Lean matchInt",
				Input: strconv.Quote(s), Impl: g, Model: reps[3*i], Broken: "correspondence C08.int (Martian.Lexer.matchInt)"})
		}
		if g := optHexGo(gf); g != reps[3*i+1] {
			r.violate(Violation{Kind: "correspondence", Key: "C08:float-rule-mismatch", What: "tokFloatRule differs from Lean matchFloat",
				Input: strconv.Quote(s), Impl: g, Model: reps[3*i+1], Broken: "correspondence C08.float (Martian.Lexer.matchFloat)"})
		}
		if len(b) > 0 && (b[0] == '-' || (b[0] >= '0' && b[0] <= '9')) {
			id, v, pn := c08NextTokenGuarded(b)
			if strings.HasPrefix(pn, "HANG") {
				r.violate(Violation{Kind: "property", Key: "C08:hang:nextToken", What: "nextToken does not terminate: " + pn,
					Input: strconv.Quote(s), Impl: pn, Expect: "a token or INVALID", Broken: "Props.C08.lexer_progress_full"})
				continue
			}
			if pn != "" {
				r.violate(Violation{Kind: "property", Key: "C08:panic:nextToken",
					What:  "nextToken (the tokenizer, before any grammar action) panics on a numeric-looking head: " + pn,
					Input: strconv.Quote(s), Impl: "panic: " + pn, Expect: "a token or INVALID", Broken: "Props.C08.num_tok_converts"})
				continue
			}
			var g string
			switch {
			case id == syntax.VerifTokNUM_FLOAT:
				g = "float " + hx(string(v))
				r.hist("tok:float")
			case id == syntax.VerifTokNUM_INT:
				g = "int " + hx(string(v))
				r.hist("tok:int")
			case id == syntax.VerifTokINVALID && len(v) > 0:
				g = "invalid " + hx(string(v))
				r.hist("tok:invalid-with-text")
			case id == syntax.VerifTokINVALID:
				g = "nomatch"
				r.hist("tok:nomatch")
			default:
				g = fmt.Sprintf("token %d %s", id, hx(string(v)))
			}
			if g != reps[3*i+2] {
				r.violate(Violation{Kind: "correspondence", Key: "C08:numtok-mismatch",
					What:  "numeric branch of nextToken differs from Lean numTok (the model hands a token to a converter only when the converter accepts it)",
					Input: strconv.Quote(s), Impl: g, Model: reps[3*i+2], Broken: "correspondence C08.numtok (theorem Props.C08.num_tok_converts)"})
			}
		}
		// converters on what the rules admit
		if gi != nil {
			tok := string(gi)
			convs = append(convs, conv{"parseint", tok, c08Try(func() string { return "some " + strconv.FormatInt(syntax.VerifParseInt([]byte(tok)), 10) })})
			convReqs = append(convReqs, []string{"C08.parseint", hx(tok)})
		}
		if gf != nil {
			tok := string(gf)
			convs = append(convs, conv{"parsefloat64", tok, c08Try(func() string { syntax.VerifParseFloat([]byte(tok)); return "ok" })})
			convReqs = append(convReqs, []string{"C08.parsefloat", "64", hx(tok)})
			convs = append(convs, conv{"parsefloat32", tok, c08Try(func() string { syntax.VerifParseFloat32([]byte(tok)); return "ok" })})
			convReqs = append(convReqs, []string{"C08.parsefloat", "32", hx(tok)})
		}
		// converters called directly on digit strings beyond the rule (uint64 wrap-around)
		if gi == nil && len(s) > 0 && len(s) < 30 && strings.Trim(s, "0123456789") == "" {
			convs = append(convs, conv{"parseint-direct", s, c08Try(func() string { return "some " + strconv.FormatInt(syntax.VerifParseInt([]byte(s)), 10) })})
			convReqs = append(convReqs, []string{"C08.parseint", hx(s)})
		}
	}
	creps := c.Drv.AskBatch(convReqs)
	for i, cv := range convs {
		r.hist("conv:" + cv.kind + ":" + strings.Fields(cv.goRes)[0])
		if cv.goRes != creps[i] {
			r.violate(Violation{Kind: "correspondence", Key: "C08:converter-mismatch:" + cv.kind,
				What:  cv.kind + " differs from the Lean model (panic = none)",
				Input: strconv.Quote(cv.tok), Impl: cv.goRes, Model: creps[i], Broken: "correspondence C08." + cv.kind})
		}
	}

	// strings
	var strs []string
	strs = append(strs, c08Strings...)
	for _, p := range c08StrPieces {
		strs = append(strs, `"`+p+`"`, `"a`+p+`b"`, `"`+p+p+`"`)
	}
	for i := 0; i < n; i++ {
		strs = append(strs, c08GenStr(c))
	}
	sreqs := make([][]string, 0, len(strs))
	for _, s := range strs {
		sreqs = append(sreqs, []string{"C08.string", hx(s)})
	}
	sreps := c.Drv.AskBatch(sreqs)
	var ureqs [][]string
	var ucs []conv
	for i, s := range strs {
		gs := syntax.VerifTokString([]byte(s))
		r.count("str:"+s, gs != nil)
		if i%499 == 0 {
			r.sample(map[string]string{"string_input": strconv.Quote(s), "go_string_rule": optHexGo(gs)})
		}
		if g := optHexGo(gs); g != sreps[i] {
			r.violate(Violation{Kind: "correspondence", Key: "C08:string-rule-mismatch", What: "tokStringRule differs from Lean matchString",
				Input: strconv.Quote(s), Impl: g, Model: sreps[i], Broken: "correspondence C08.string (Martian.Lexer.matchString)"})
		}
		if gs != nil {
			tok := string(gs)
			ucs = append(ucs, conv{"unquote", tok, c08Try(func() string { return "some " + hx(string(syntax.VerifUnquoteBytes([]byte(tok)))) })})
			ureqs = append(ureqs, []string{"C08.unquote", hx(tok)})
		} else if len(s) >= 2 && s[0] == '"' && s[len(s)-1] == '"' {
			// outside the rule: the model must still predict panic / value
			ucs = append(ucs, conv{"unquote-direct", s, c08Try(func() string { return "some " + hx(string(syntax.VerifUnquoteBytes([]byte(s)))) })})
			ureqs = append(ureqs, []string{"C08.unquote", hx(s)})
		}
	}
	ureps := c.Drv.AskBatch(ureqs)
	for i, cv := range ucs {
		r.hist("conv:" + cv.kind + ":" + strings.Fields(cv.goRes)[0])
		if cv.goRes != ureps[i] {
			r.violate(Violation{Kind: "correspondence", Key: "C08:converter-mismatch:" + cv.kind,
				What:  "unquoteBytes differs from the Lean model (panic = none)",
				Input: strconv.Quote(cv.tok), Impl: cv.goRes, Model: ureps[i], Broken: "correspondence C08.unquote"})
		}
		if cv.kind == "unquote" && cv.goRes == "panic" {
			r.violate(Violation{Kind: "property", Key: "C08:panic:unquoteBytes-on-admitted-token",
				What:  "unquoteBytes panics on a token the string rule admits",
				Input: strconv.Quote(cv.tok), Impl: "panic", Expect: "bytes", Broken: "Props.C08.string_tok_unquote_total"})
		}
	}

	// nextToken progress on arbitrary heads
	m := 3000
	if c.Thorough {
		m = 100000
	}
	for i := 0; i < m; i++ {
		var head []byte
		switch c.Rng.Intn(3) {
		case 0:
			head = []byte(c08Punct[c.Rng.Intn(len(c08Punct))] + c08Keywords[c.Rng.Intn(len(c08Keywords))] + c08Punct[c.Rng.Intn(len(c08Punct))])
		case 1:
			head = []byte(c08Keywords[c.Rng.Intn(len(c08Keywords))] + c08Punct[c.Rng.Intn(len(c08Punct))] + c08GenNum(c))
		default:
			k := 1 + c.Rng.Intn(6)
			head = make([]byte, k)
			for j := range head {
				head[j] = byte(c.Rng.Intn(256))
			}
		}
		id, v, pn := c08NextTokenGuarded(head)
		if pn != "" {
			r.violate(Violation{Kind: "property", Key: "C08:panic:nextToken",
				What:  "nextToken panics: " + pn,
				Input: strconv.Quote(string(head)), Impl: "panic: " + pn, Expect: "a token or INVALID", Broken: "Props.C08.lexer_progress"})
			continue
		}
		r.count("head:"+string(head), len(v) > 0)
		if (id != syntax.VerifTokINVALID && len(v) == 0) || !bytes.HasPrefix(head, v) {
			r.violate(Violation{Kind: "property", Key: "C08:lexer-no-progress",
				What:  fmt.Sprintf("nextToken returned token %d with text %q which is empty or not a prefix of the input", id, v),
				Input: strconv.Quote(string(head)), Broken: "Props.C08.lexer_progress (hypothesis on the rules)"})
		}
	}
}

// ---------- src_stm action ----------

func c08SrcAction(c *Ctx) {
	r := c.Res
	pieces := []string{" ", "  ", `\t`, `\n`, "\t", "a", "bin/x", "-v", "--k=v", `\x20`, `\040`, ` `, "é", `\\`, `\"q\"`, "x y", `\r`, `\f`, `\v`, "#"}
	n := 400
	if c.Thorough {
		n = 20000
	}
	var cmds []string
	cmds = append(cmds, "", " ", `\t`, `\n \t`, "a", " a ", "a b", `a\tb\nc`)
	for i := 0; i < n; i++ {
		var sb strings.Builder
		k := c.Rng.Intn(5)
		for j := 0; j < k; j++ {
			sb.WriteString(pieces[c.Rng.Intn(len(pieces))])
		}
		cmds = append(cmds, sb.String())
	}
	type row struct{ cmd, unq, goRes string }
	var rows []row
	var reqs [][]string
	for _, cmd := range cmds {
		lit := `"` + cmd + `"`
		if syntax.VerifTokString([]byte(lit)) == nil || len(syntax.VerifTokString([]byte(lit))) != len(lit) {
			continue
		}
		unq := c08Try(func() string { return string(syntax.VerifUnquoteBytes([]byte(lit))) })
		src := []byte("stage S(\n    in  int x,\n    src comp " + lit + ",\n)\n")
		res := c08Guard(3*time.Second, func() (string, error) {
			// UncheckedParse: the grammar action alone, no semantic checks
			var ps syntax.Parser
			ast, err := ps.UncheckedParse(src, filepath.Join(c.Scratch, "src.mro"))
			if err != nil {
				return "", err
			}
			if ast == nil || len(ast.Stages) != 1 || ast.Stages[0].Src == nil {
				return "no-stage", nil
			}
			sp := ast.Stages[0].Src
			return "ok " + hx(sp.Path) + " " + hxList(sp.Args), nil
		})
		g := res.Out
		switch {
		case res.Panic != "":
			g = "panic"
		case res.TimedOut:
			g = "hang"
		case res.Err != nil:
			g = "error"
		}
		rows = append(rows, row{cmd, unq, g})
		reqs = append(reqs, []string{"C08.src", hx(unq)})
	}
	reps := c.Drv.AskBatch(reqs)
	for i, rw := range rows {
		r.count("src:"+rw.cmd, true)
		r.hist("src-action:" + strings.Fields(rw.goRes)[0])
		if rw.goRes == "panic" || rw.goRes == "hang" {
			// reported by the API monitor as well; here as the negative witness of the model
			continue
		}
		if rw.goRes != reps[i] {
			r.violate(Violation{Kind: "correspondence", Key: "C08:src-action-mismatch",
				What:  "src_stm grammar action differs from Lean srcAction",
				Input: strconv.Quote(rw.cmd), Impl: rw.goRes, Model: reps[i], Broken: "correspondence C08.src (theorem Props.C08.src_action_total)"})
		}
	}
}

// ---------- scaling probes ----------

type c08Probe struct {
	Kind  string  `json:"kind"`
	N     int     `json:"n"`
	Bytes int     `json:"bytes"`
	API   string  `json:"api"`
	Ms    float64 `json:"ms"`
	CpuMs float64 `json:"cpu_ms"`
	// AllocBytes: bytes allocated during the call (runtime.MemStats.TotalAlloc) - deterministic, unlike
	// the CPU time, which for inputs that allocate hundreds of MB is dominated by page faults and GC
	// locality and varies several-fold with the load of the machine
	AllocBytes float64 `json:"alloc_bytes"`
	Out        string  `json:"outcome"`
	Msg        string  `json:"msg,omitempty"`
	Loc        bool    `json:"located"`
	// Truncated: the measurement was stopped when the CPU budget given by the parent was used up;
	// CpuMs / Ms are then lower bounds
	Truncated bool `json:"truncated,omitempty"`
}

func c08CpuMs() float64 {
	var ru syscall.Rusage
	if syscall.Getrusage(syscall.RUSAGE_SELF, &ru) != nil {
		return 0
	}
	return float64(ru.Utime.Sec+ru.Stime.Sec)*1000 + float64(ru.Utime.Usec+ru.Stime.Usec)/1000
}

func c08ProbeInput(kind string, n int) []byte {
	var sb strings.Builder
	switch kind {
	case "nest-array-exp":
		sb.WriteString(strings.Repeat("[", n) + "1" + strings.Repeat("]", n))
	case "nest-map-exp":
		sb.WriteString(strings.Repeat(`{"k":`, n) + "1" + strings.Repeat("}", n))
	case "nest-struct-exp":
		sb.WriteString(strings.Repeat(`{k:`, n) + "1" + strings.Repeat("}", n))
	case "nest-array-call":
		sb.WriteString("stage S(in int x, src py \"s\",)\ncall S(x = " + strings.Repeat("[", n) + "1" + strings.Repeat("]", n) + ",)\n")
	case "nest-unbalanced":
		sb.WriteString(strings.Repeat("[", n))
	case "long-array":
		sb.WriteString("[" + strings.Repeat("1,", n) + "1]")
	case "long-map":
		sb.WriteString("{")
		for i := 0; i < n; i++ {
			fmt.Fprintf(&sb, "\"k%d\":%d,", i, i)
		}
		sb.WriteString("}")
	case "long-string":
		sb.WriteString(`"` + strings.Repeat("a", n) + `"`)
	case "long-escapes":
		sb.WriteString(`"` + strings.Repeat(`\né\x41`, n/12+1) + `"`)
	case "long-comment":
		sb.WriteString("#" + strings.Repeat("c", n) + "\nfiletype a;\n")
	case "long-unterminated":
		sb.WriteString(`"` + strings.Repeat(`a`, n))
	case "leading-zeros":
		sb.WriteString(strings.Repeat("0", n) + "1")
	case "dotted-id":
		sb.WriteString("filetype a" + strings.Repeat(".b", n) + ";\n")
	case "array-dims":
		sb.WriteString("stage S(in int" + strings.Repeat("[]", n) + " x, src py \"s\",)\n")
	case "many-stages":
		for i := 0; i < n; i++ {
			fmt.Fprintf(&sb, "stage S%d(in int x, out int y, src py \"s\",)\n", i)
		}
	case "many-params":
		sb.WriteString("stage S(\n")
		for i := 0; i < n; i++ {
			fmt.Fprintf(&sb, "in int x%d,\n", i)
		}
		sb.WriteString("src py \"s\",)\n")
	case "trailing-comments":
		for i := 0; i < n/2; i++ {
			fmt.Fprintf(&sb, "stage S%d(in int x, out int y, src py \"s\",)\n", i)
		}
		for i := 0; i < n/2; i++ {
			sb.WriteString("# trailing comment\n")
		}
	case "leading-comments":
		for i := 0; i < n/2; i++ {
			sb.WriteString("# leading comment\n")
		}
		for i := 0; i < n/2; i++ {
			fmt.Fprintf(&sb, "stage S%d(in int x, out int y, src py \"s\",)\n", i)
		}
	case "call-chain", "call-chain-reversed":
		sb.WriteString("stage S(in int x, out int y, src py \"s\",)\npipeline P(in int x, out int y,)\n{\n")
		if kind == "call-chain" {
			sb.WriteString("call S as C0(x = self.x,)\n")
			for i := 1; i < n; i++ {
				fmt.Fprintf(&sb, "call S as C%d(x = C%d.y,)\n", i, i-1)
			}
		} else {
			for i := n - 1; i >= 1; i-- {
				fmt.Fprintf(&sb, "call S as C%d(x = C%d.y,)\n", i, i-1)
			}
			sb.WriteString("call S as C0(x = self.x,)\n")
		}
		fmt.Fprintf(&sb, "return (y = C%d.y,)\n}\n", n-1)
	case "wide-calls":
		sb.WriteString("stage S(in int x, out int y, src py \"s\",)\npipeline P(in int x, out int y,)\n{\n")
		for i := 0; i < n; i++ {
			fmt.Fprintf(&sb, "call S as C%d(x = self.x,)\n", i)
		}
		sb.WriteString("return (y = C0.y,)\n}\n")
	case "struct-assign":
		// structurally equal but differently named nested structs: A_n <- B_n
		sb.WriteString("struct A0(int x,)\nstruct B0(int x,)\n")
		for i := 1; i <= n; i++ {
			fmt.Fprintf(&sb, "struct A%d(A%d l, A%d r,)\nstruct B%d(B%d l, B%d r,)\n", i, i-1, i-1, i, i-1, i-1)
		}
		fmt.Fprintf(&sb, "stage T(out B%d b, src py \"t\",)\nstage S(in A%d a, src py \"s\",)\npipeline P()\n{\n    call T()\n    call S(a = T.b,)\n    return ()\n}\n", n, n)
	case "many-invalid":
		sb.WriteString(strings.Repeat("\x01", n))
	case "many-quotes":
		sb.WriteString(strings.Repeat(`"`, n))
	case "many-spaces":
		sb.WriteString(strings.Repeat(" \n\t ", n/5+1) + "filetype a;")
	}
	return []byte(sb.String())
}

// runC08Probe is executed in a subprocess: VERIF_C08_PROBE="kind:n". Optional: VERIF_C08_PROBE_API
// restricts the run to one API; VERIF_C08_PROBE_BUDGET_MS (with one API) stops the measurement as soon
// as that much CPU time has been used - the parent sets the budget above every threshold the
// measurement is compared with, so the verdicts are those of the complete run.
func runC08Probe(c *Ctx) {
	spec := strings.SplitN(os.Getenv("VERIF_C08_PROBE"), ":", 2)
	if len(spec) != 2 {
		fatal("VERIF_C08_PROBE not set")
	}
	n, _ := strconv.Atoi(spec[1])
	onlyAPI := os.Getenv("VERIF_C08_PROBE_API")
	budget, _ := strconv.ParseFloat(os.Getenv("VERIF_C08_PROBE_BUDGET_MS"), 64)
	reps, _ := strconv.Atoi(os.Getenv("VERIF_C08_PROBE_REPS"))
	src := c08ProbeInput(spec[0], n)
	var out []c08Probe
	for _, api := range c08APIs {
		if onlyAPI != "" && api.name != onlyAPI {
			continue
		}
		api := api
		measure := func() (p c08Probe) {
			p = c08Probe{Kind: spec[0], N: n, Bytes: len(src), API: api.name}
			var m0 runtime.MemStats
			runtime.ReadMemStats(&m0)
			start := time.Now()
			cpu0 := c08CpuMs()
			defer func() {
				if x := recover(); x != nil {
					p.Out = "panic"
					p.Msg = fmt.Sprint(x)
				}
				p.Ms = float64(time.Since(start).Microseconds()) / 1000
				p.CpuMs = c08CpuMs() - cpu0
				var m1 runtime.MemStats
				runtime.ReadMemStats(&m1)
				p.AllocBytes = float64(m1.TotalAlloc - m0.TotalAlloc)
			}()
			_, err := api.run(src, filepath.Join(c.Scratch, "probe.mro"), nil)
			if err != nil {
				p.Out = "error"
				p.Msg = err.Error()
				p.Loc = c08LocRe.MatchString(p.Msg)
				if len(p.Msg) > 300 {
					p.Msg = p.Msg[:300]
				}
			} else {
				p.Out = "tree"
			}
			return p
		}
		if budget <= 0 || onlyAPI == "" {
			best := measure()
			for rep := 1; rep < reps && best.Out != "panic"; rep++ {
				runtime.GC()
				if p := measure(); p.CpuMs < best.CpuMs {
					best = p
				}
			}
			out = append(out, best)
			continue
		}
		start := time.Now()
		cpu0 := c08CpuMs()
		ch := make(chan c08Probe, 1)
		go func() { ch <- measure() }()
		tick := time.NewTicker(10 * time.Millisecond)
		for fin := false; !fin; {
			select {
			case p := <-ch:
				out = append(out, p)
				fin = true
			case <-tick.C:
				if cpu := c08CpuMs() - cpu0; cpu > budget {
					// leave the call running; the process ends with this function's caller
					out = append(out, c08Probe{Kind: spec[0], N: n, Bytes: len(src), API: api.name, Out: "stopped-at-cpu-budget",
						Truncated: true, CpuMs: cpu, Ms: float64(time.Since(start).Microseconds()) / 1000})
					fin = true
				}
			}
		}
		tick.Stop()
	}
	c.Res.Extra = map[string]interface{}{"probes": out}
}

type c08Job struct {
	kind string
	n    int
	// reps > 1: every complete (not budgeted) measurement is repeated and the one with the least CPU
	// time is reported (the re-measurement before a timing verdict: one run under load can be several
	// times slower - GC work on a heap of hundreds of MB is memory-bound - without the code being so)
	reps int
}

type c08JobRes struct {
	j      c08Job
	probes []c08Probe
	crash  string
}

// c08ScaleState: what the first pass of the scaling probes hands to the verdict pass.
type c08ScaleState struct {
	self    string
	results []c08JobRes // in the order of the probe table (kind, increasing n)
}

// c08RunProbe runs one probe subprocess; api == "" runs the three APIs in one process; budgetMs > 0
// (with one API) stops the measurement once that much CPU has been used.
func c08RunProbe(c *Ctx, self string, tag string, j c08Job, api string, budgetMs float64) c08JobRes {
	outf := filepath.Join(c.Scratch, fmt.Sprintf("probe-%s-%s-%d%s.json", tag, j.kind, j.n, api))
	cmd := exec.Command(self, "-tier", c.Tier, "-out", outf, "-repo", c.RepoDir, "C08-probe")
	cmd.Env = append(os.Environ(), fmt.Sprintf("VERIF_C08_PROBE=%s:%d", j.kind, j.n), "GOMAXPROCS=2",
		fmt.Sprintf("VERIF_C08_PROBE_REPS=%d", j.reps))
	if api != "" {
		cmd.Env = append(cmd.Env, "VERIF_C08_PROBE_API="+api, fmt.Sprintf("VERIF_C08_PROBE_BUDGET_MS=%.0f", budgetMs))
	}
	var eb bytes.Buffer
	cmd.Stderr = &eb
	if err := cmd.Start(); err != nil {
		return c08JobRes{j: j, crash: "cannot start: " + err.Error()}
	}
	wd := make(chan error, 1)
	go func() { wd <- cmd.Wait() }()
	limit := 60 * time.Second
	select {
	case err := <-wd:
		res := c08JobRes{j: j}
		if err != nil {
			msg := eb.String()
			if k := strings.Index(msg, "\n\n"); k > 0 {
				msg = msg[:k]
			}
			if len(msg) > 400 {
				msg = msg[:400]
			}
			res.crash = fmt.Sprintf("%v: %s", err, msg)
		} else if b, err := os.ReadFile(outf); err == nil {
			var rr struct {
				Extra struct {
					Probes []c08Probe `json:"probes"`
				} `json:"extra"`
			}
			if json.Unmarshal(b, &rr) == nil {
				res.probes = rr.Extra.Probes
			}
		}
		os.Remove(outf)
		return res
	case <-time.After(limit):
		cmd.Process.Kill()
		<-wd
		return c08JobRes{j: j, crash: fmt.Sprintf("killed after %v", limit)}
	}
}

// c08ScalingFirstPass runs every probe once, several at a time and possibly next to other phases of
// this harness. Nothing is judged here: CPU times measured under contention only err upwards, and
// every timing verdict is measured again alone by c08ScalingFinish before it is reported.
func c08ScalingFirstPass(c *Ctx) *c08ScaleState {
	r := c.Res
	type pr struct {
		kind string
		ns   []int
	}
	deep := []int{1000, 10000, 100000}
	long := []int{20000, 200000}
	decl := []int{500, 2000, 8000}
	if c.Thorough {
		deep = []int{1000, 10000, 100000, 300000}
		long = []int{20000, 200000, 2000000}
		decl = []int{500, 2000, 8000, 32000}
	}
	probes := []pr{
		{"nest-array-exp", deep}, {"nest-map-exp", deep}, {"nest-struct-exp", deep}, {"nest-unbalanced", deep},
		// the formatter indents by nesting depth: output is quadratic in the depth, so keep this one small
		{"nest-array-call", []int{1000, 3000, 9000}},
		{"long-array", long}, {"long-map", long}, {"long-string", long}, {"long-escapes", long}, {"long-comment", long},
		{"long-unterminated", long}, {"leading-zeros", long}, {"dotted-id", long}, {"array-dims", []int{100, 32767, 32768, 70000}},
		{"many-stages", decl}, {"many-params", decl}, {"trailing-comments", decl}, {"leading-comments", decl},
		{"call-chain", []int{40, 120, 360}}, {"call-chain-reversed", []int{40, 120, 360}}, {"wide-calls", decl},
		{"struct-assign", []int{12, 18, 24}}, {"many-invalid", long}, {"many-quotes", long}, {"many-spaces", long},
	}
	self, err := os.Executable()
	if err != nil {
		r.note("scaling probes skipped: %v", err)
		return nil
	}
	var jobs []c08Job
	for _, p := range probes {
		for _, n := range p.ns {
			jobs = append(jobs, c08Job{kind: p.kind, n: n})
		}
	}
	// start order: the largest size of the kinds that take longest first, so that the longest job is
	// not the last one to be started (results are stored by index: the order has no other effect)
	heavy := []string{"call-chain-reversed", "call-chain", "long-map", "nest-struct-exp", "nest-map-exp", "nest-array-call",
		"long-array", "struct-assign", "nest-array-exp", "many-stages"}
	var order []int
	taken := make([]bool, len(jobs))
	for _, k := range heavy {
		best := -1
		for i, j := range jobs {
			if j.kind == k && (best < 0 || j.n > jobs[best].n) {
				best = i
			}
		}
		if best >= 0 {
			order = append(order, best)
			taken[best] = true
		}
	}
	for i := range jobs {
		if !taken[i] {
			order = append(order, i)
		}
	}
	workers := 6
	if c.Thorough {
		workers = 4 // the largest inputs of this tier need the memory
	}
	// Quick tier: the jobs put first are run API by API (three processes that can run side by side),
	// each stopped once its CPU time is certainly above the slow limit (limit*1.05 + 50 ms): from there on
	// the job has a timing verdict whatever the final figure, and is measured again alone anyway.
	type unit struct {
		job int
		api string // "" = the three APIs in one process
	}
	var units []unit
	for _, i := range order {
		if taken[i] && !c.Thorough {
			for _, api := range c08APIs {
				units = append(units, unit{i, api.name})
			}
		} else {
			units = append(units, unit{i, ""})
		}
	}
	results := make([]c08JobRes, len(jobs))
	parts := make([][]c08JobRes, len(jobs)) // per job, per API index
	for i := range parts {
		parts[i] = make([]c08JobRes, len(c08APIs))
	}
	queue := make(chan unit, len(units))
	for _, u := range units {
		queue <- u
	}
	close(queue)
	fin := make(chan struct{}, workers)
	for w := 0; w < workers; w++ {
		go func() {
			for u := range queue {
				if u.api == "" {
					results[u.job] = c08RunProbe(c, self, fmt.Sprintf("a%d", u.job), jobs[u.job], "", 0)
					continue
				}
				budget := (2000+float64(len(c08ProbeInput(jobs[u.job].kind, jobs[u.job].n)))*0.05)*1.05 + 50
				for k, api := range c08APIs {
					if api.name == u.api {
						parts[u.job][k] = c08RunProbe(c, self, fmt.Sprintf("a%d", u.job), jobs[u.job], u.api, budget)
					}
				}
			}
			fin <- struct{}{}
		}()
	}
	for w := 0; w < workers; w++ {
		<-fin
	}
	for i := range jobs {
		if !(taken[i] && !c.Thorough) {
			continue
		}
		res := c08JobRes{j: jobs[i]}
		for _, part := range parts[i] {
			if part.crash != "" {
				res.crash, res.probes = part.crash, nil
				break
			}
			res.probes = append(res.probes, part.probes...)
		}
		results[i] = res
	}
	return &c08ScaleState{self: self, results: results}
}

// c08ScalingFinish judges the probes kind by kind. It must be called when nothing else of this harness
// is running: a kind with a timing verdict (slow, superlinear, hang) is measured again, alone, one
// process at a time, and only what that second measurement shows is reported.
func c08ScalingFinish(c *Ctx, st *c08ScaleState) {
	r := c.Res
	if st == nil {
		return
	}
	const alphaMax = 1.7
	limitOf := func(bytes int) float64 { return 2000 + float64(bytes)*0.05 }
	type pt struct {
		bytes int
		cpu   float64
		alloc float64
	}
	// a growth verdict needs both: CPU time growing faster than size^alphaMax AND (for complete
	// measurements) allocation growing faster than size^alphaAlloc - see c08Probe.AllocBytes
	const alphaAlloc = 1.35
	// verdict for one kind given its results in increasing n: (key suffix, what); first = CPU times of the
	// first pass by "n/api", quoted next to a measurement that was stopped at its budget
	type verdict struct{ cls, what string }
	judge := func(kind string, rs []c08JobRes, first map[string]float64) []verdict {
		var out []verdict
		last := map[string]pt{}
		for _, res := range rs {
			if res.crash != "" {
				cls := "crash"
				switch {
				case strings.Contains(res.crash, "stack overflow") || strings.Contains(res.crash, "stack exceeds"):
					cls = "stack-overflow"
				case strings.Contains(res.crash, "killed after"):
					cls = "hang"
				case strings.Contains(res.crash, "out of memory") || strings.Contains(res.crash, "signal: killed"):
					cls = "out-of-memory"
				}
				out = append(out, verdict{cls + ":" + kind, fmt.Sprintf("process running the parser on probe %s n=%d (%d bytes) died / did not finish: %s",
					kind, res.j.n, len(c08ProbeInput(kind, res.j.n)), res.crash)})
				continue
			}
			for _, p := range res.probes {
				limitMs := limitOf(p.Bytes)
				cpuTxt := fmt.Sprintf("%.0f ms", p.CpuMs)
				if p.Truncated {
					cpuTxt = fmt.Sprintf("more than %.0f ms (measurement alone stopped there; %.0f ms or more in the first, concurrent pass)",
						p.CpuMs, first[fmt.Sprintf("%d/%s", p.N, p.API)])
				}
				switch {
				case p.Out == "panic":
					out = append(out, verdict{"panic:" + c08Norm(p.Msg), fmt.Sprintf("%s panicked on probe %s n=%d: %s", p.API, p.Kind, p.N, p.Msg)})
				case p.CpuMs > limitMs:
					out = append(out, verdict{"slow:" + kind, fmt.Sprintf("%s used %s of CPU (%.0f ms wall) on probe %s n=%d (%d bytes; limit 2 s + 50 us/byte)", p.API, cpuTxt, p.Ms, p.Kind, p.N, p.Bytes)})
				case p.Out == "error" && !p.Loc:
					out = append(out, verdict{"unlocated-error:" + c08Norm(p.Msg), fmt.Sprintf("%s returned an error without position on probe %s n=%d: %s", p.API, p.Kind, p.N, p.Msg)})
				}
				if prev, ok := last[p.API]; ok && p.CpuMs > 1000 && prev.cpu > 0 && p.Bytes > prev.bytes {
					alpha := math.Log(p.CpuMs/prev.cpu) / math.Log(float64(p.Bytes)/float64(prev.bytes))
					allocGrows := true
					// (only a measurement that allocates a lot - 50 MB or more - is memory-bound in this sense;
					// CPU-bound growth with little allocation, like the struct-assign probe, is judged on CPU time)
					if !p.Truncated && prev.alloc > 0 && p.AllocBytes >= 50e6 {
						allocGrows = math.Log(p.AllocBytes/prev.alloc)/math.Log(float64(p.Bytes)/float64(prev.bytes)) > alphaAlloc
					}
					if alpha > alphaMax && !allocGrows {
						r.hist("scaling-probe-cpu-superlinear-allocation-linear(no verdict)")
					}
					if alpha > alphaMax && allocGrows {
						grows := fmt.Sprintf("like size^%.1f", alpha)
						if p.Truncated {
							grows = fmt.Sprintf("at least like size^%.1f", alpha)
						}
						out = append(out, verdict{"superlinear:" + kind, fmt.Sprintf("%s: CPU time grows %s on probe %s: %d bytes -> %.0f ms, %d bytes -> %s",
							p.API, grows, kind, prev.bytes, prev.cpu, p.Bytes, cpuTxt)})
					}
				}
				if p.Truncated {
					delete(last, p.API) // a lower bound is no base for the growth to the next size
				} else {
					last[p.API] = pt{p.Bytes, math.Max(p.CpuMs, 1), p.AllocBytes}
				}
			}
		}
		return out
	}
	isTiming := func(cls string) bool {
		return strings.HasPrefix(cls, "slow:") || strings.HasPrefix(cls, "superlinear:") || strings.HasPrefix(cls, "hang:")
	}
	// measureAlone: the jobs of one kind again, one process at a time. Thorough tier: every job complete.
	// Quick tier: a job that needed more than 0.5 s of CPU in the first pass is run API by API, each
	// stopped once its CPU time is above every threshold judge compares it with (the slow limit; 1000 ms
	// and prev*ratio^1.7 for the growth from the previous size, prev measured alone and complete):
	// the verdicts are those of the complete measurement, the reported time is a lower bound.
	measureAlone := func(kind string, rs []c08JobRes) []c08JobRes {
		var again []c08JobRes
		lastAlone := map[string]pt{}
		noteProbe := func(q c08Probe) {
			if q.Truncated {
				delete(lastAlone, q.API)
			} else {
				lastAlone[q.API] = pt{q.Bytes, math.Max(q.CpuMs, 1), q.AllocBytes}
			}
		}
		for i, res := range rs {
			total := 0.0
			for _, p := range res.probes {
				total += p.CpuMs
			}
			if c.Thorough || res.crash != "" || len(res.probes) != len(c08APIs) || total < 500 {
				jr := res.j
				jr.reps = 3
				nr := c08RunProbe(c, st.self, fmt.Sprintf("b%d", i), jr, "", 0)
				for _, q := range nr.probes {
					noteProbe(q)
				}
				again = append(again, nr)
				continue
			}
			nr := c08JobRes{j: res.j}
			for _, p := range res.probes {
				budget := limitOf(p.Bytes)
				if prev, ok := lastAlone[p.API]; ok && p.Bytes > prev.bytes {
					t := math.Max(1000, prev.cpu*math.Pow(float64(p.Bytes)/float64(prev.bytes), alphaMax))
					budget = math.Max(budget, t)
				}
				budget = budget*1.05 + 50
				one := c08RunProbe(c, st.self, fmt.Sprintf("b%d", i), res.j, p.API, budget)
				// one measurement under load proves nothing: a result that would give a timing verdict
				// (over the limit, superlinear against the previous size, or stopped at the budget) is
				// measured again - twice if complete, once if stopped - and the least CPU time counts
				suspicious := func(q c08Probe) bool {
					if q.Truncated || q.CpuMs > limitOf(q.Bytes) {
						return true
					}
					if prev, ok := lastAlone[q.API]; ok && q.CpuMs > 1000 && prev.cpu > 0 && q.Bytes > prev.bytes {
						return math.Log(q.CpuMs/prev.cpu)/math.Log(float64(q.Bytes)/float64(prev.bytes)) > alphaMax
					}
					return false
				}
				for rep := 0; rep < 2 && one.crash == "" && len(one.probes) == 1 && suspicious(one.probes[0]); rep++ {
					if rep == 1 && one.probes[0].Truncated {
						break
					}
					ag := c08RunProbe(c, st.self, fmt.Sprintf("b%dr%d", i, rep), res.j, p.API, budget)
					if ag.crash == "" && len(ag.probes) == 1 &&
						(one.probes[0].Truncated && !ag.probes[0].Truncated || ag.probes[0].Truncated == one.probes[0].Truncated && ag.probes[0].CpuMs < one.probes[0].CpuMs) {
						one = ag
					}
				}
				if one.crash != "" {
					nr.crash, nr.probes = one.crash, nil
					break
				}
				for _, q := range one.probes {
					noteProbe(q)
				}
				nr.probes = append(nr.probes, one.probes...)
			}
			again = append(again, nr)
		}
		return again
	}
	byKind := map[string][]c08JobRes{}
	var kinds []string
	for _, res := range st.results {
		if _, ok := byKind[res.j.kind]; !ok {
			kinds = append(kinds, res.j.kind)
		}
		byKind[res.j.kind] = append(byKind[res.j.kind], res)
	}
	var table []map[string]interface{}
	// pass A: judge the first (concurrent) pass of every kind
	firstOf := map[string]map[string]float64{}
	vsOf := map[string][]verdict{}
	var remeasure []string
	for _, kind := range kinds {
		rs := byKind[kind]
		first := map[string]float64{}
		for _, res := range rs {
			r.count(fmt.Sprintf("probe:%s:%d", kind, res.j.n), true)
			r.hist("scaling-probe")
			for _, p := range res.probes {
				first[fmt.Sprintf("%d/%s", p.N, p.API)] = p.CpuMs
			}
		}
		firstOf[kind] = first
		vs := judge(kind, rs, first)
		vsOf[kind] = vs
		for _, v := range vs {
			if isTiming(v.cls) {
				remeasure = append(remeasure, kind)
				break
			}
		}
	}
	// pass B: a kind with a timing verdict is measured once more before anything is reported, when the
	// rest of this harness has finished: the jobs of one kind strictly one after the other (the growth
	// exponent compares consecutive sizes).  Thorough tier: one kind at a time.  Quick tier: up to three
	// kinds side by side - the verdicts are on CPU time, which three single-threaded processes on this
	// many cores do not disturb, and the machine is shared with other checks anyway.
	again := map[string][]c08JobRes{}
	{
		workers := 3
		if c.Thorough {
			workers = 1
		}
		var wg sync.WaitGroup
		var mu sync.Mutex
		queue := make(chan string, len(remeasure))
		for _, k := range remeasure {
			queue <- k
		}
		close(queue)
		for w := 0; w < workers; w++ {
			wg.Add(1)
			go func() {
				defer wg.Done()
				for kind := range queue {
					rs := measureAlone(kind, byKind[kind])
					mu.Lock()
					again[kind] = rs
					mu.Unlock()
				}
			}()
		}
		wg.Wait()
	}
	// pass C: report, in the fixed order of the kinds
	for _, kind := range kinds {
		rs := byKind[kind]
		first := firstOf[kind]
		vs := vsOf[kind]
		if rs2, ok := again[kind]; ok {
			// verdicts that are not about time (panic, unlocated error, crash) stand from either pass
			r.hist("scaling-probe-rerun-alone")
			firstVs := vs
			rs = rs2
			for _, res := range rs {
				for _, q := range res.probes {
					if q.Truncated {
						r.hist("scaling-probe-rerun-alone-stopped-at-budget")
					}
				}
			}
			vs = judge(kind, rs, first)
			have := map[string]bool{}
			for _, v := range vs {
				have[v.cls] = true
			}
			for _, v := range firstVs {
				if !isTiming(v.cls) && !have[v.cls] {
					vs = append(vs, v)
				}
			}
		}
		for _, res := range rs {
			for _, p := range res.probes {
				row := map[string]interface{}{"kind": p.Kind, "n": p.N, "bytes": p.Bytes, "api": p.API, "ms": p.Ms, "cpu_ms": p.CpuMs, "outcome": p.Out}
				if p.Truncated {
					row["cpu_ms_is_lower_bound"] = true
					row["first_pass_cpu_ms"] = first[fmt.Sprintf("%d/%s", p.N, p.API)]
				}
				table = append(table, row)
			}
		}
		for _, v := range vs {
			r.violate(Violation{Kind: "property", Key: "C08:" + v.cls, What: v.what,
				Input: map[string]interface{}{"probe": kind, "generator": "harness/c08.go c08ProbeInput(kind, n)"},
				Impl:  v.what, Expect: "tree or located error in time and memory proportional to the input"})
		}
	}
	if c.Res.Extra == nil {
		c.Res.Extra = map[string]interface{}{}
	}
	c.Res.Extra["scaling_probes"] = table
}

// ---------- include trees with planted errors ----------

type c08TreeCase struct {
	Index   int               `json:"index"`
	Files   map[string]string `json:"files"`
	Root    string            `json:"root"`
	Planted string            `json:"planted_error"`
	Shape   string            `json:"shape"`
}

// c08GenTree builds case k deterministically from (seed, k): an include graph over 2..6 files
// (tree + back edges = cycles of any length, also below the root; cross edges = several includers;
// self includes; duplicate and missing includes) with an error planted in a random file.
func c08GenTree(seed int64, k int) c08TreeCase {
	rng := rand.New(rand.NewSource(seed*1000003 + int64(k)*7919 + 17))
	n := 2 + rng.Intn(5)
	names := make([]string, n)
	for i := range names {
		if i > 0 && rng.Intn(3) == 0 {
			names[i] = fmt.Sprintf("sub/f%d.mro", i)
		} else {
			names[i] = fmt.Sprintf("f%d.mro", i)
		}
	}
	inc := make([][]string, n)
	var shape []string
	add := func(i int, target string) { inc[i] = append(inc[i], target) }
	for i := 1; i < n; i++ { // spanning tree: everything reachable from the root
		add(rng.Intn(i), names[i])
	}
	extra := rng.Intn(4)
	for e := 0; e < extra; e++ {
		i, j := rng.Intn(n), rng.Intn(n)
		switch {
		case i == j:
			shape = append(shape, "self-include")
		case j < i:
			shape = append(shape, "back-edge")
		default:
			shape = append(shape, "cross-edge")
		}
		add(i, names[j])
	}
	if rng.Intn(3) == 0 { // a definite cycle of length 1..4 somewhere (possibly below the root)
		l := 1 + rng.Intn(minInt(4, n))
		start := rng.Intn(n - l + 1)
		for t := 0; t < l; t++ {
			add(start+t, names[start+(t+1)%l])
		}
		shape = append(shape, fmt.Sprintf("cycle%d@%d", l, start))
	}
	if rng.Intn(5) == 0 {
		i := rng.Intn(n)
		if len(inc[i]) > 0 {
			add(i, inc[i][0])
			shape = append(shape, "duplicate-include")
		}
	}
	files := map[string]string{}
	body := func(i int) string {
		var sb strings.Builder
		for _, t := range inc[i] {
			fmt.Fprintf(&sb, "@include \"%s\"\n", t)
		}
		fmt.Fprintf(&sb, "\nfiletype t%d;\n\nstage S%d(\n    in  int x,\n    out t%d y,\n    src py  \"s%d\",\n)\n", i, i, i, i)
		if i == 0 {
			sb.WriteString("\ncall S0(\n    x = 1,\n)\n")
		}
		return sb.String()
	}
	for i := range names {
		files[names[i]] = body(i)
	}
	planted := "none"
	nerr := rng.Intn(3)
	for e := 0; e < nerr; e++ {
		i := rng.Intn(n)
		src := files[names[i]]
		kind := []string{"lex-error", "truncation", "syntax-error", "compile-error", "missing-include", "unterminated-string", "duplicate-stage"}[rng.Intn(7)]
		switch kind {
		case "lex-error":
			pos := rng.Intn(len(src) + 1)
			src = src[:pos] + "$" + src[pos:]
		case "truncation":
			if len(src) > 0 { // a second truncation of the same file may find it already empty
				src = src[:rng.Intn(len(src))]
			}
		case "syntax-error":
			src = strings.Replace(src, "stage S", "stage (S", 1)
		case "compile-error":
			src = strings.Replace(src, "in  int x", "in  nosuchtype x", 1)
		case "missing-include":
			src = "@include \"nope/missing.mro\"\n" + src
		case "unterminated-string":
			src = strings.Replace(src, "\",\n)", ",\n)", 1)
		case "duplicate-stage":
			src += fmt.Sprintf("\nstage S%d(\n    in  int other,\n    src py \"dup\",\n)\n", rng.Intn(n))
		}
		files[names[i]] = src
		if planted == "none" {
			planted = ""
		}
		planted += fmt.Sprintf("%s in %s; ", kind, names[i])
	}
	sort.Strings(shape)
	return c08TreeCase{Index: k, Files: files, Root: names[0], Planted: planted, Shape: strings.Join(shape, "+")}
}

func c08TreeCount(c *Ctx) int {
	if c.Thorough {
		return 15000
	}
	return 600
}

// runC08IncTree (child): cases VERIF_C08_TREE_START.. ; stack capped, watchdog on heap and time.
func runC08IncTree(c *Ctx) {
	r := c.Res
	start, _ := strconv.Atoi(os.Getenv("VERIF_C08_TREE_START"))
	lastFile := os.Getenv("VERIF_C08_LAST")
	debug.SetMaxStack(64 << 20)
	var caseStart atomic.Int64
	caseStart.Store(time.Now().UnixNano())
	go func() { // watchdog: a runaway rendering must not take the machine down
		for {
			time.Sleep(50 * time.Millisecond)
			var ms runtime.MemStats
			runtime.ReadMemStats(&ms)
			if ms.HeapAlloc > 768<<20 {
				fmt.Fprintln(os.Stderr, "C08-inctree watchdog: heap above 768 MB")
				os.Exit(97)
			}
			if time.Since(time.Unix(0, caseStart.Load())) > 6*time.Second {
				fmt.Fprintln(os.Stderr, "C08-inctree watchdog: one case running for more than 6 s")
				os.Exit(98)
			}
		}
	}()
	n := c08TreeCount(c)
	dir := filepath.Join(c.Scratch, "tree")
	for k := start; k < n; k++ {
		tc := c08GenTree(c.Seed, k)
		if lastFile != "" {
			if b, err := json.Marshal(tc); err == nil {
				os.WriteFile(lastFile, b, 0o644)
			}
		}
		caseStart.Store(time.Now().UnixNano())
		os.RemoveAll(dir)
		total := 0
		for rel, content := range tc.Files {
			p := filepath.Join(dir, rel)
			os.MkdirAll(filepath.Dir(p), 0o755)
			os.WriteFile(p, []byte(content), 0o644)
			total += len(content)
		}
		r.count(fmt.Sprintf("tree:%d", k), tc.Planted != "none" || tc.Shape != "")
		r.hist("include-tree")
		for _, sh := range strings.Split(tc.Shape, "+") {
			if sh != "" {
				r.hist("include-tree-shape:" + strings.TrimRight(sh, "0123456789@"))
			}
		}
		root := filepath.Join(dir, tc.Root)
		var err error
		var panicked string
		func() {
			defer func() {
				if x := recover(); x != nil {
					panicked = fmt.Sprint(x)
				}
			}()
			_, _, _, err = syntax.ParseSourceBytes([]byte(tc.Files[tc.Root]), root, []string{dir}, false)
			if err == nil {
				r.hist("include-tree-outcome:tree")
				return
			}
			r.hist("include-tree-outcome:error")
			// render the error and every element of an error list
			var all []error
			var walk func(e error, depth int)
			walk = func(e error, depth int) {
				if e == nil || depth > 8 {
					return
				}
				all = append(all, e)
				if l, ok := e.(syntax.ErrorList); ok {
					for _, x := range l {
						walk(x, depth+1)
					}
				}
			}
			walk(err, 0)
			for _, e := range all {
				msg := e.Error()
				r.hist("include-tree-errors-rendered")
				if len(msg) > 1<<20 || len(msg) > 4096*(total+200) {
					r.violate(Violation{Kind: "property", Key: "C08:oversized-error-message",
						What:  fmt.Sprintf("an error message of %d bytes for %d bytes of source in %d files", len(msg), total, len(tc.Files)),
						Input: tc, Impl: msg[:400], Expect: "a message of a size proportional to the input"})
				}
				if _, isList := e.(syntax.ErrorList); !isList && !c08LocRe.MatchString(msg) {
					r.violate(Violation{Kind: "property", Key: "C08:unlocated-error:" + c08Norm(msg),
						What: "an error of an include tree carries no source position: " + msg, Input: tc})
				}
			}
		}()
		if panicked != "" {
			r.violate(Violation{Kind: "property", Key: "C08:panic:" + c08Norm(panicked),
				What: "ParseSourceBytes / Error() panicked on an include tree: " + panicked, Input: tc})
		}
		if d := time.Since(time.Unix(0, caseStart.Load())); d > 2*time.Second {
			r.violate(Violation{Kind: "property", Key: "C08:hang:include-tree",
				What: fmt.Sprintf("compiling and rendering the errors of %d bytes in %d files took %v", total, len(tc.Files), d), Input: tc})
		}
	}
}

// c08RunIncTrees (parent): runs the child, restarts it after the case it died on.
func c08RunIncTrees(c *Ctx) {
	r := c.Res
	self, err := os.Executable()
	if err != nil {
		r.note("include-tree stream skipped: %v", err)
		return
	}
	n := c08TreeCount(c)
	start := 0
	for restarts := 0; start < n && restarts < 6; restarts++ {
		outf := filepath.Join(c.Scratch, fmt.Sprintf("tree-result-%d.json", restarts))
		last := filepath.Join(c.Scratch, "tree-last.json")
		os.Remove(last)
		cmd := exec.Command(self, "-tier", c.Tier, "-seed", strconv.FormatInt(c.Seed, 10), "-out", outf, "-repo", c.RepoDir, "C08-inctree")
		cmd.Env = append(os.Environ(), "VERIF_C08_LAST="+last, fmt.Sprintf("VERIF_C08_TREE_START=%d", start), "GOMAXPROCS=4")
		var eb bytes.Buffer
		cmd.Stderr = &eb
		cmd.Stdout = &eb
		runErr := cmd.Run()
		if runErr == nil {
			if b, err := os.ReadFile(outf); err == nil {
				var cr Result
				if json.Unmarshal(b, &cr) == nil {
					r.Evals += cr.Evals
					r.Distinct += cr.Distinct
					for k, v := range cr.Histogram {
						if r.Histogram == nil {
							r.Histogram = map[string]int{}
						}
						r.Histogram[k] += v
					}
					r.Violations = append(r.Violations, cr.Violations...)
				}
			}
			return
		}
		msg := eb.String()
		cls := "crash"
		switch {
		case strings.Contains(msg, "stack overflow") || strings.Contains(msg, "stack exceeds"):
			cls = "stack-overflow"
		case strings.Contains(msg, "heap above") || strings.Contains(msg, "out of memory"):
			cls = "out-of-memory"
		case strings.Contains(msg, "running for more than"):
			cls = "hang"
		}
		head := msg
		if i := strings.Index(head, "fatal error"); i >= 0 {
			head = head[i:]
		}
		if len(head) > 1200 {
			head = head[:1200]
		}
		var tc c08TreeCase
		if b, err := os.ReadFile(last); err == nil {
			json.Unmarshal(b, &tc)
		}
		if cls == "crash" && strings.Contains(msg, "panic:") && !strings.Contains(msg, "github.com/martian-lang/martian/") {
			// the worker died in the harness itself (no frame of the code under test on the stack):
			// a defect of this machinery, not an observation about martian
			r.note("include-tree worker died inside the harness after case %d (not judged): %s", tc.Index, head)
			start = tc.Index + 2
			continue
		}
		r.violate(Violation{Kind: "property", Key: "C08:fatal:" + cls,
			What:  "compiling an include tree, or rendering (Error()) an error it returned, killed the process: " + cls + " (stack capped at 64 MB, heap watchdog 768 MB, 6 s per case)",
			Input: tc, Impl: head, Expect: "a located error message of proportionate size; the process survives"})
		start = tc.Index + 1
	}
}
