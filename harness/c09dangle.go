package main

// C09 — the 'dangling' comment mode of the program generator.
//
// The strict mode of c09Gen writes comments only where the property promises "kept exactly once
// and the output is a fixed point": before a declaration, parameter, binding, call, return or
// collection element.  This mode places comments in EVERY gap between two tokens of a generated
// program (and after the last one): before closing brackets, inside empty brackets, between a
// keyword and its bracket, after a comma on the same line, between key, ':' and value, before
// duplicated / multi-line keys, inside type brackets, between the words of a parameter, ...
//
// The program is generated as in the strict mode (with values that have the shapes the comment
// positions need: empty / one-element / nested collections, duplicated keys, keys spanning lines),
// cut into tokens with the real tokenizer, every gap is classified (c09GapTags), and comments are
// written into gaps chosen from c.Rng.  The result is checked in mode c09Dangling: output parses,
// same AST dump, no comment text lost, format∘format is a fixed point of format.

import (
	"fmt"
	"sort"
	"strings"

	"github.com/martian-lang/martian/martian/syntax"
)

// dval: a value for the dangling mode
func (g *c09Gen) dval(depth int) string {
	rng := g.c.Rng
	// layout of a collection: all on one line, or one element per line
	join := func(open string, parts []string, close string, trailing bool) string {
		if len(parts) == 0 {
			return open + close
		}
		if rng.Intn(2) == 0 {
			s := open + strings.Join(parts, ", ")
			if trailing {
				s += ","
			}
			return s + close
		}
		ind := strings.Repeat("    ", depth+3)
		s := open + "\n"
		for i, p := range parts {
			s += ind + p
			if i+1 < len(parts) || trailing {
				s += ","
			}
			s += "\n"
		}
		return s + ind[4:] + close
	}
	k := rng.Intn(14)
	if depth >= 3 && k >= 5 && k <= 10 {
		k = 0
	}
	switch k {
	case 0, 1:
		return g.pick(c09NumVals)
	case 2:
		return g.pick(c09StrVals)
	case 3:
		return g.pick([]string{"true", "false", "null"})
	case 4:
		return g.pick([]string{"self.a", "self.a.b", "Q0", "Q0.o", "Q0.o.x", "Q1.default", "self.threads"})
	case 5:
		g.f("comments:dangling:value:empty-collection")
		return g.pick([]string{"[]", "{}", "[ ]", "{ }", "[\n        ]", "{\n        }"})
	case 6:
		g.f("comments:dangling:value:one-element-array")
		return join("[", []string{g.dval(depth + 1)}, "]", rng.Intn(3) == 0)
	case 7:
		g.f("comments:dangling:value:nested-one-element-array")
		return "[[" + g.dval(depth+2) + "]]"
	case 8:
		n := 2 + rng.Intn(2)
		parts := make([]string, n)
		for i := range parts {
			parts[i] = g.dval(depth + 1)
		}
		return join("[", parts, "]", rng.Intn(2) == 0)
	case 9:
		n := 1 + rng.Intn(3)
		var parts []string
		keys := []string{`"k0"`, `"a b"`, `"é"`, `"q\"k"`, `""`}
		for i := 0; i < n; i++ {
			key := keys[rng.Intn(len(keys))]
			if rng.Intn(6) == 0 {
				g.f("comments:dangling:value:multi-line-key")
				key = "\"line1\nline2\""
			}
			parts = append(parts, key+": "+g.dval(depth+1))
		}
		if rng.Intn(4) == 0 {
			g.f("comments:dangling:value:duplicated-map-key")
			parts = append(parts, parts[0][:strings.Index(parts[0], ": ")]+": "+g.dval(depth+1))
		}
		return join("{", parts, "}", rng.Intn(2) == 0)
	case 10:
		n := 1 + rng.Intn(3)
		var parts []string
		for i := 0; i < n; i++ {
			parts = append(parts, fmt.Sprintf("f%d: %s", i, g.dval(depth+1)))
		}
		if rng.Intn(4) == 0 {
			g.f("comments:dangling:value:duplicated-struct-key")
			parts = append(parts, "f0: "+g.dval(depth+1))
		}
		return join("{", parts, "}", rng.Intn(2) == 0)
	default:
		return g.pick(c09NumVals)
	}
}

// ---------- tokens and gaps ----------

type c09Tok struct {
	id         int
	s          string
	start, end int // byte offsets in the source; the gap before the token is src[previous end:start]
}

func c09Tokens(src string) []c09Tok {
	var toks []c09Tok
	b := []byte(src)
	pos := 0
	for pos < len(b) {
		id, v := syntax.VerifNextToken(b[pos:])
		if len(v) == 0 {
			break
		}
		if id != syntax.VerifTokSKIP && id != syntax.VerifTokCOMMENT {
			toks = append(toks, c09Tok{id, string(v), pos, pos + len(v)})
		}
		pos += len(v)
	}
	return toks
}

func c09IsWord(s string) bool {
	if s == "" {
		return false
	}
	ch := s[0]
	return ch == '_' || ch == '@' || (ch >= 'a' && ch <= 'z') || (ch >= 'A' && ch <= 'Z')
}

type c09Frame struct {
	open  int    // token index of the opening bracket
	label string // what the bracket encloses
	elems int    // array literals: number of elements
	lit   bool   // a literal (array / map / struct value)
	keys  map[int]string
}

// c09GapTags classifies the gap before each token (index len(toks) = after the last token): the
// lexical positions of the task list.  A gap can carry several tags.
func c09GapTags(toks []c09Tok) [][]string {
	n := len(toks)
	tags := make([][]string, n+1)
	// pass 1: partner of every bracket
	match := make([]int, n)
	var st []int
	for i, t := range toks {
		match[i] = -1
		switch t.s {
		case "(", "[", "{", "<":
			st = append(st, i)
		case ")", "]", "}", ">":
			if len(st) > 0 {
				match[i] = st[len(st)-1]
				match[st[len(st)-1]] = i
				st = st[:len(st)-1]
			}
		}
	}
	at := func(i int) string {
		if i < 0 || i >= n {
			return ""
		}
		return toks[i].s
	}
	label := func(i int, stack []*c09Frame) *c09Frame {
		f := &c09Frame{open: i}
		top := ""
		if len(stack) > 0 {
			top = stack[len(stack)-1].label
		}
		prev, pp := at(i-1), at(i-2)
		switch toks[i].s {
		case "<":
			f.label = "map-type"
		case "(":
			switch {
			case prev == "using" && pp == "split":
				f.label = "split-params"
			case prev == "using" && pp == ")" && top == "pipeline-body":
				f.label = "call-using"
			case prev == "using" && pp == ")":
				// a top-level call or a stage: whichever keyword came last at depth 0
				f.label = "stage-using"
				for j := i - 1; j >= 0; j-- {
					if toks[j].s == "call" {
						f.label = "call-using"
						break
					} else if toks[j].s == "stage" {
						break
					}
				}
			case prev == "split" && pp == ")":
				f.label = "split-params"
			case prev == "retain" && pp == ")" && top == "pipeline-body":
				f.label = "pipeline-retain"
			case prev == "retain" && pp == ")":
				f.label = "stage-retain"
			case prev == "return" && top == "pipeline-body":
				f.label = "return"
			case pp == "stage":
				f.label = "stage-params"
			case pp == "pipeline":
				f.label = "pipeline-params"
			case pp == "struct":
				f.label = "struct-members"
			default:
				f.label = "call-bindings"
			}
		case "{":
			if prev == ")" && len(stack) == 0 {
				f.label = "pipeline-body"
			} else {
				f.lit = true
				f.keys = map[int]string{}
				switch nx := at(i + 1); {
				case nx == "}":
					f.label = "braces"
				case strings.HasPrefix(nx, `"`):
					f.label = "map-literal"
				default:
					f.label = "struct-literal"
				}
			}
		case "[":
			switch prev {
			case "=", ":", ",", "[", "split":
				f.lit = true
				f.label = "array"
				if m := match[i]; m > i+1 {
					f.elems = 1
					depth := 0
					for j := i + 1; j < m; j++ {
						switch toks[j].s {
						case "(", "[", "{", "<":
							depth++
						case ")", "]", "}", ">":
							depth--
						case ",":
							if depth == 0 && j+1 < m {
								f.elems++
							}
						}
					}
				}
			default:
				f.label = "type-dimension"
			}
		}
		if f.lit && match[i] > i {
			// keys of a map / struct literal: a token at the start of an element which is followed by ':'
			depth := 0
			for j := i + 1; j < match[i]; j++ {
				switch toks[j].s {
				case "(", "[", "{", "<":
					depth++
				case ")", "]", "}", ">":
					depth--
				}
				if depth == 0 && at(j+1) == ":" && (j == i+1 || at(j-1) == ",") {
					f.keys[j] = toks[j].s
				}
			}
		}
		return f
	}
	var stack []*c09Frame
	params := map[string]bool{"stage-params": true, "pipeline-params": true, "struct-members": true, "split-params": true}
	for i := 0; i <= n; i++ {
		prev, pp, next := at(i-1), at(i-2), at(i)
		top := &c09Frame{label: "file"}
		if len(stack) > 0 {
			top = stack[len(stack)-1]
		}
		litDepth := 0
		for _, f := range stack {
			if f.lit {
				litDepth++
			}
		}
		add := func(format string, a ...interface{}) { tags[i] = append(tags[i], fmt.Sprintf(format, a...)) }
		closer := next == ")" || next == "]" || next == "}" || next == ">"
		switch {
		case i == n:
			add("after-last-declaration")
		case i == 0:
			add("before-first-token")
		case closer && i > 0 && match[i] == i-1:
			add("in-empty:%s", top.label)
		case closer && top.lit:
			add("before-close:%s:depth%d", top.label, litDepth)
		case closer:
			add("before-close:%s", top.label)
		}
		if i < n && i > 0 {
			switch {
			case next == "(" || next == "<":
				add("before-open:%s", label(i, stack).label)
			case next == "{" && prev == ")" && len(stack) == 0:
				add("before-open:pipeline-body")
			case next == "[" && label(i, stack).label == "type-dimension":
				add("before-open:type-dimension")
			}
			if next == "@include" {
				add("before-include")
			}
			if pp == "@include" {
				add("after-include")
			}
			if prev == "@include" {
				add("between-include-and-string")
			}
			if next == ";" {
				add("filetype-before-semicolon")
			}
			if prev == "filetype" {
				add("filetype-before-name")
			}
			if prev == ";" {
				add("after-filetype")
			}
			if prev == "," {
				add("after-comma:%s", top.label)
			}
			if prev == "(" || prev == "[" || prev == "{" {
				if !closer {
					add("after-open:%s", top.label)
				}
			}
			if next == "," {
				add("before-comma:%s", top.label)
			}
			if next == ":" {
				add("between-key-and-colon:%s", top.label)
			}
			if prev == ":" {
				add("between-colon-and-value:%s", top.label)
			}
			if next == "=" {
				add("before-equals:%s", top.label)
			}
			if prev == "=" {
				add("after-equals:%s", top.label)
			}
			if next == "." || prev == "." {
				add("inside-dotted-name")
			}
			if k, ok := top.keys[i]; ok {
				first, later := false, false
				for j, k2 := range top.keys {
					if k2 == k && j > i {
						first = true
					} else if k2 == k && j < i {
						later = true
					}
				}
				if first {
					add("before-duplicated-key:overwritten-entry")
				}
				if later {
					add("before-duplicated-key:overwriting-entry")
				}
				if strings.Contains(k, "\n") {
					add("before-multi-line-key")
				}
			}
			if top.label == "array" && top.elems == 1 {
				if len(stack) > 1 && stack[len(stack)-2].label == "array" {
					add("in-one-element-array:nested")
				} else {
					add("in-one-element-array")
				}
			}
			if top.label == "map-type" {
				add("in-map-type-brackets")
			}
			if params[top.label] {
				switch {
				case prev == "in" || prev == "out":
					add("parameter:between-%s-and-type", prev)
				case next == "in" || next == "out":
					if prev == "," || prev == "(" {
						add("parameter:before-%s", next)
					}
				case next == "src" && (prev == "," || prev == "("):
					add("before-src")
				case prev == "src":
					add("between-src-and-language")
				case pp == "src":
					add("between-src-language-and-string")
				case strings.HasPrefix(next, `"`) && strings.HasPrefix(prev, `"`):
					add("parameter:between-help-and-outname")
				case strings.HasPrefix(next, `"`):
					add("parameter:before-help")
				case c09IsWord(next) && (c09IsWord(prev) || prev == "]" || prev == ">") && (at(i+1) == "," || strings.HasPrefix(at(i+1), `"`)):
					add("parameter:between-type-and-id")
				}
			}
			switch prev {
			case "call", "map", "as", "local", "preflight", "volatile", "stage", "pipeline", "struct", "return", "retain", "using", "split":
				if next != "=" && next != "," && next != ":" && !(prev == "map" && params[top.label]) {
					add("after-keyword:%s", prev)
				}
			}
			switch next {
			case "call", "map", "return", "retain", "stage", "pipeline", "struct", "filetype":
				if prev == ")" || prev == "}" || prev == "{" || prev == ";" || pp == "@include" {
					add("before-statement:%s", next)
				}
			case "split", "using":
				if prev == ")" {
					add("before-clause:%s", next)
				}
			}
		}
		// the stack after token i
		if i < n {
			switch next {
			case "(", "[", "{", "<":
				stack = append(stack, label(i, stack))
			case ")", "]", "}", ">":
				if len(stack) > 0 {
					stack = stack[:len(stack)-1]
				}
			}
		}
	}
	return tags
}

var c09DangleTexts = []string{"note", "é ünï ☃", "\"quoted\" text", "# double", "trailing spaces   ", "trailing tab\t", "tab\tinside", "", "(", ")", "]", "}", "{", ",",
	"call X(", "@include \"x\"", " nbsp", "x = 1,", "####", "!", "cr\rinside", "vt\v", "nel\u0085", "ls\u2028x", "ff\finside \"unterminated"}

// commentBlock writes 1..3 comment lines (after `first`, which is "" or ends a line), each
// followed by a newline; returns the text and the features used
func (g *c09Gen) dangleBlock(indent string, serial *int) (string, []string) {
	rng := g.c.Rng
	var sb strings.Builder
	var feats []string
	lines := 1
	if rng.Intn(3) == 0 {
		lines = 2 + rng.Intn(2)
	}
	feats = append(feats, fmt.Sprintf("lines-in-a-row:%d", lines))
	for l := 0; l < lines; l++ {
		if l > 0 && rng.Intn(3) == 0 {
			sb.WriteString("\n")
			feats = append(feats, "blank-line-between-comments")
		}
		if l > 0 {
			sb.WriteString(indent)
		}
		text := g.pick(c09DangleTexts)
		*serial++
		switch k := rng.Intn(10); {
		case k == 0:
			sb.WriteString("#") // `#` only
			feats = append(feats, "text:hash-only")
		case k == 1:
			fmt.Fprintf(&sb, "#d%d", *serial) // no blank after '#'
			feats = append(feats, "text:no-space")
		default:
			fmt.Fprintf(&sb, "# d%d %s", *serial, text)
			switch {
			case strings.HasSuffix(text, " "):
				feats = append(feats, "text:trailing-spaces")
			case strings.HasSuffix(text, "\t"):
				feats = append(feats, "text:trailing-tab")
			case !isASCII(text):
				feats = append(feats, "text:non-ascii")
			case text == "":
				feats = append(feats, "text:trailing-space-only")
			case len(text) <= 2 || strings.HasSuffix(text, "(") || strings.HasSuffix(text, ","):
				feats = append(feats, "text:punctuation")
			default:
				feats = append(feats, "text:plain")
			}
		}
		if rng.Intn(12) == 0 {
			sb.WriteString("\r")
			feats = append(feats, "text:crlf")
		}
		sb.WriteString("\n")
	}
	return sb.String(), feats
}

// dangle writes comments into the gaps of src
func (g *c09Gen) dangle(src string) string {
	rng := g.c.Rng
	toks := c09Tokens(src)
	if len(toks) == 0 {
		return src
	}
	tags := c09GapTags(toks)
	// density of the comments: sparse / medium / dense / all gaps of one class
	p := []float64{0.02, 0.06, 0.2, 0.6}[rng.Intn(4)]
	focus := ""
	if rng.Intn(2) == 0 {
		seen := map[string]bool{}
		var classes []string
		for _, ts := range tags {
			for _, t := range ts {
				if !seen[t] {
					seen[t] = true
					classes = append(classes, t)
				}
			}
		}
		sort.Strings(classes)
		if len(classes) > 0 {
			focus = classes[rng.Intn(len(classes))]
			p = 0.01
		}
	}
	relayout := rng.Intn(4) == 0 // some pure white-space gaps become one blank / a line break
	if relayout {
		g.f("comments:dangling:layout:gaps-rewritten")
	}
	serial := 0
	var sb strings.Builder
	prevEnd := 0
	for i := 0; i <= len(toks); i++ {
		var gap string
		if i < len(toks) {
			gap = src[prevEnd:toks[i].start]
		} else {
			gap = src[prevEnd:]
		}
		pure := strings.TrimSpace(gap) == ""
		if relayout && pure && i > 0 && i < len(toks) && rng.Intn(6) == 0 {
			switch rng.Intn(3) {
			case 0:
				gap = " "
			case 1:
				gap = "\n"
			default:
				gap = "\n\n    "
			}
		}
		put := rng.Float64() < p
		if focus != "" {
			for _, t := range tags[i] {
				if t == focus {
					put = true
				}
			}
		}
		if !put || !pure && rng.Intn(2) == 0 {
			sb.WriteString(gap)
		} else {
			// indentation of the line the next token stands on
			indent := ""
			if k := strings.LastIndexByte(gap, '\n'); k >= 0 {
				indent = gap[k+1:]
			} else if k := strings.LastIndexByte(src[:prevEnd], '\n'); k >= 0 {
				line := src[k+1 : prevEnd]
				indent = line[:len(line)-len(strings.TrimLeft(line, " \t"))]
			}
			if rng.Intn(5) == 0 {
				indent = g.pick([]string{"", "  ", "\t", "            "})
			}
			trimmed := strings.TrimRight(gap, " \t")
			atLineStart := strings.HasSuffix(trimmed, "\n") || i == 0 && trimmed == ""
			if atLineStart && trimmed == gap && i > 0 {
				gap += indent
			}
			style := "own-line"
			var text string
			var feats []string
			switch {
			case i == 0:
				text, feats = g.dangleBlock("", &serial)
				text = gap + text
			case rng.Intn(3) == 0:
				// on the line of the previous token
				style = "same-line"
				text, feats = g.dangleBlock(indent, &serial)
				text = g.pick([]string{" ", "", "  ", "\t"}) + text
				if strings.Contains(gap, "\n") {
					text += gap[strings.IndexByte(gap, '\n')+1:]
				} else {
					text += indent
				}
			case atLineStart:
				text, feats = g.dangleBlock(indent, &serial)
				text = gap + text + indent
			default:
				text, feats = g.dangleBlock(indent, &serial)
				text = gap + "\n" + indent + text + indent
			}
			if i == len(toks) && rng.Intn(3) == 0 && strings.HasSuffix(text, "\n") && !strings.HasSuffix(text, "\r\n") {
				// the source ends in the comment, without a line break
				text = text[:len(text)-1]
				feats = append(feats, "comment-ends-the-file-without-newline")
			}
			if i < len(toks) && rng.Intn(4) == 0 {
				// a blank line between the comment and the next token
				k := strings.LastIndexByte(text, '\n')
				text = text[:k+1] + "\n" + text[k+1:]
				feats = append(feats, "blank-line-after-comment")
			}
			sb.WriteString(text)
			for _, t := range tags[i] {
				g.f("comments:dangling:%s", t)
				if style == "same-line" && strings.HasPrefix(t, "after-comma:") {
					g.f("comments:dangling:after-comma-on-the-same-line")
				}
			}
			if len(tags[i]) == 0 {
				g.f("comments:dangling:other-gap")
			}
			g.f("comments:dangling:style:%s", style)
			for _, f := range feats {
				g.f("comments:dangling:style:%s", f)
			}
		}
		if i < len(toks) {
			sb.WriteString(toks[i].s)
			prevEnd = toks[i].end
		}
	}
	if focus != "" {
		g.f("comments:dangling:mode:every-gap-of-one-class")
	} else {
		g.f("comments:dangling:mode:density-%v", p)
	}
	return sb.String()
}

// programDangling: a program of the strict generator with dangling-mode values, then comments
// in arbitrary gaps
func (g *c09Gen) programDangling() string {
	g.dangling = true
	src := g.program()
	g.dangling = false
	out := g.dangle(src)
	g.f("comments:dangling:programs")
	return out
}

// c09CommentAnchors lists, for each comment of src that stands in a strict position, "comment
// text NUL the token that follows the comment (and the comments after it)", sorted.  A strict
// position is the start of a declaration, parameter, binding, call, return, retain entry, resource
// entry or collection element: the token before the comment ends the previous one or opens the
// bracket (`,` `(` `[` `{` `;` `)` `}`, an include path, the start of the file) and the token after it
// is not a closing bracket, not the end of the file and not a clause keyword after `)`.
// ok = false when a stage's using block names a resource twice: the later entry replaces the
// earlier one and a comment before the earlier one goes to whatever follows.
func c09CommentAnchors(src []byte) (anchors []string, ok bool) {
	norm := func(t string) string {
		switch t {
		case "memgb":
			return "mem_gb"
		case "vmemgb":
			return "vmem_gb"
		}
		return t
	}
	var pending []string
	prev, pp := "", ""
	pos := 0
	for pos < len(src) {
		id, v := syntax.VerifNextToken(src[pos:])
		if len(v) == 0 {
			break
		}
		pos += len(v)
		switch id {
		case syntax.VerifTokSKIP:
		case syntax.VerifTokCOMMENT:
			pending = append(pending, strings.TrimSpace(string(v)))
		default:
			next := string(v)
			strict := false
			switch prev {
			case "", ",", "(", "[", "{", ";", ")", "}":
				strict = true
			default:
				strict = pp == "@include"
			}
			switch next {
			case ")", "]", "}", ">":
				strict = false
			case "using", "split", "retain", "{":
				if prev == ")" {
					strict = false
				}
			}
			if strict {
				for _, c := range pending {
					anchors = append(anchors, c+"\x00"+norm(next))
				}
			}
			pending = pending[:0]
			pp, prev = prev, next
		}
	}
	sort.Strings(anchors)
	// a resource named twice
	toks := c09Tokens(string(src))
	ok = true
	for i := 0; i+2 < len(toks); i++ {
		if toks[i].s == ")" && toks[i+1].s == "using" && toks[i+2].s == "(" {
			seen := map[string]bool{}
			for j := i + 3; j+1 < len(toks) && toks[j].s != ")"; j++ {
				if toks[j+1].s == "=" {
					k := norm(toks[j].s)
					if seen[k] {
						ok = false
					}
					seen[k] = true
				}
			}
		}
	}
	return anchors, ok
}
