package main

// C07 run-time half of the typing model (audit finding H1): the model's
// `pathVal` / `wholeRT` (Martian/TypingRun.lean, driver op C07.path) against the
// real `core.LazyArgumentMap.Path(p, source, dest, lookup)` – exactly what
// Fork.resolveRef calls with dest = the parameter's type – on conforming values
// of generated output types, for every destination type the model's binding
// checker accepts for the reference (and a sample of those it rejects):
//   * differential: same error / same JSON;
//   * delivered-value oracle: for an ACCEPTED reference whose value conforms to
//     the declared output type, the real Path must succeed and what it returns
//     must validate cleanly against the parameter type, whenever the model says
//     holeFree (and the share of accepted bindings that are holeFree is counted);
//   * `project` (driver op C07.proj, used by the value-level corollaries) must be
//     defined whenever the real Path with no destination succeeds.

import (
	"encoding/json"
	"fmt"
	"sort"
	"strings"

	"github.com/martian-lang/martian/martian/core"
	"github.com/martian-lang/martian/martian/syntax"
)

func c07RealPath(ast *syntax.Ast, val []byte, path []string, dest syntax.Type) (out []byte, err error) {
	defer func() {
		if p := recover(); p != nil {
			err = fmt.Errorf("PANIC: %v", p)
		}
	}()
	src := ast.TypeTable.Get(syntax.TypeId{Tname: "PROD"})
	if src == nil {
		return nil, fmt.Errorf("no struct type for PROD")
	}
	args := core.LazyArgumentMap{"o": json.RawMessage(val)}
	m, err := args.Path(strings.Join(path, "."), src, dest, &ast.TypeTable)
	if err != nil {
		return nil, err
	}
	if m == nil {
		return []byte("null"), nil
	}
	out, err = m.MarshalJSON()
	return out, err
}

// destination candidates for a reference of (model) type s
func c07DestCandidates(c *Ctx, s *c17Ty) []*c17Ty {
	rng := c.Rng
	out := []*c17Ty{s}
	var vary func(t *c17Ty) *c17Ty
	vary = func(t *c17Ty) *c17Ty {
		switch t.kind {
		case 'a':
			return c07A(vary(t.elem))
		case 'm':
			if rng.Intn(3) == 0 {
				return c07B("map") // an untyped map takes a typed map
			}
			return c07M(vary(t.elem))
		case 's':
			switch rng.Intn(4) {
			case 0:
				return c07B("map")
			case 1:
				if len(t.fields) > 1 { // a narrower struct
					k := rng.Intn(len(t.fields))
					n := &c17Ty{kind: 's', name: t.name}
					for i, f := range t.fields {
						if i != k {
							n.fields = append(n.fields, f)
						}
					}
					for _, b := range c07Bases {
						if b.kind == 's' && len(b.fields) == len(n.fields) && c07Compat(b, t) {
							return b
						}
					}
				}
			}
			return t
		case 'u':
			return []*c17Ty{t, c07B("file"), c07B("string")}[rng.Intn(3)]
		}
		switch t.name {
		case "int":
			return []*c17Ty{t, c07B("float")}[rng.Intn(2)]
		case "string":
			return []*c17Ty{t, c07B("file"), c07B("path"), c07U("txt")}[rng.Intn(4)]
		case "file":
			return []*c17Ty{t, c07B("string"), c07U("bam")}[rng.Intn(3)]
		}
		return t
	}
	for i := 0; i < 3; i++ {
		out = append(out, vary(s))
	}
	out = append(out, c07RandType(rng)) // mostly not accepted
	return out
}

func c07PathStream(c *Ctx, n int) {
	r := c.Res
	rng := c.Rng
	for i := 0; i < n; i++ {
		ot := c07RandType(rng)
		paths := c07Paths(ot, 0)
		path := paths[rng.Intn(len(paths))]
		env := &c07Env{prodMode: 's', prodOuts: []c17Field{{"o", ot}}}
		ref := c07Ref('c', "PROD", append([]string{"o"}, path...)...)
		// the reference's type according to the model
		rep := strings.SplitN(c.Drv.Ask("C07.exp", env.enc(), "int", ref.enc()), " ", 3)
		if len(rep) != 3 || rep[2] == "-" {
			r.hist("path_ref_does_not_resolve")
			continue
		}
		st, _ := c07ParseTyEnc(strings.Split(rep[2], " "))
		if st == nil || c07Undeclarable(st) {
			continue
		}
		val := c17GenValid(rng, ot, 3)
		rd := c17Render{rng: rng, ws: 0}
		var vb strings.Builder
		rd.render(&vb, val)
		tree, err := c17ParseJSON([]byte(vb.String()))
		if err != nil {
			continue
		}
		srcEnc := "S " + hx("PROD") + " 1 " + hx("o") + " " + ot.enc()
		objEnc := (&c17J{kind: 'o', keys: []string{"o"}, arr: []*c17J{tree}}).encModel()
		fullPath := hxList(append([]string{"o"}, path...))
		for _, dt := range c07DestCandidates(c, st) {
			if c07Undeclarable(dt) {
				continue
			}
			var sb strings.Builder
			sb.WriteString(c07Decls)
			fmt.Fprintf(&sb, "stage PROD(\n    in  int seed,\n    out %s o,\n    src comp \"fake\",\n)\n\nstage CONS(\n    in  %s x,\n    out int r,\n    src comp \"fake\",\n)\n", ot.mro(), dt.mro())
			ast, cerr := c07RealCompile(sb.String())
			if cerr != nil {
				r.note("path stream: declarations do not compile: %v", firstLine(cerr.Error()))
				continue
			}
			dest := ast.TypeTable.Get(dt.typeId())
			if dest == nil {
				continue
			}
			reps := c.Drv.AskBatch([][]string{
				{"C07.exp", env.enc(), dt.enc(), ref.enc()},
				{"C07.path", dt.enc(), srcEnc, objEnc, fullPath, "new"},
				{"C07.path", "-", srcEnc, objEnc, fullPath, "new"},
				{"C07.proj", srcEnc, objEnc, fullPath},
				{"C07.evalT", env.enc(), hx("PROD"), objEnc, dt.enc(), ref.enc()},
			})
			f := strings.SplitN(reps[0], " ", 3)
			accepted, holeFree := len(f) >= 2 && f[0] == "true", len(f) >= 2 && f[1] == "true"
			real, rerr := c07RealPath(ast, []byte(vb.String()), path2(path), dest)
			r.count(sb.String()+vb.String()+strings.Join(path, "."), true)
			r.hist(fmt.Sprintf("path_accepted=%v_holeFree=%v", accepted, holeFree))
			in := map[string]interface{}{"out_type": ot.mro(), "path": "o." + strings.Join(path, "."), "ref_type": st.mro(), "param_type": dt.mro(),
				"value": vb.String(), "model_accepts": accepted, "model_holeFree": holeFree}
			if rerr != nil {
				in["real_error"] = rerr.Error()
				if strings.HasPrefix(rerr.Error(), "PANIC") && !accepted {
					r.hist("path_real_panics_on_rejected_pair")
					continue // Path is only ever called for accepted bindings
				}
			}
			// (1) differential
			modelOk := reps[1] != "none" && reps[1] != "bad-op"
			if reps[1] == "bad-op" {
				r.note("driver bad-op for C07.path %v", in)
				continue
			}
			if accepted {
				if modelOk != (rerr == nil) {
					r.violate(Violation{Kind: "correspondence", Key: fmt.Sprintf("C07:path:model=%v,real=%v", modelOk, rerr == nil),
						What: "the model's pathVal and the real LazyArgumentMap.Path disagree on whether the reference resolves", Input: in,
						Model: reps[1], Impl: fmt.Sprint(rerr), Broken: "correspondence pathVal ~ LazyArgumentMap.Path"})
					continue
				}
				if rerr == nil {
					rt, perr := c17ParseJSON(real)
					mt, _, e2 := c17ParseEnc(strings.Split(reps[1], " "))
					if perr != nil || e2 != nil || c07NormJ(rt).enc(true) != c07NormJ(mt).enc(true) {
						in["real_value"] = string(real)
						r.violate(Violation{Kind: "correspondence", Key: "C07:path:value", What: "the model's pathVal and the real LazyArgumentMap.Path deliver different values",
							Input: in, Model: reps[1], Impl: string(real), Broken: "correspondence pathVal ~ LazyArgumentMap.Path"})
						continue
					}
					r.hist("path_value_equal")
				}
				// the same through the model's evalT / refRT (environment + store, as program_sound_partial uses them)
				if len(reps) > 4 && reps[4] != reps[1] {
					r.violate(Violation{Kind: "correspondence", Key: "C07:evalT:differs-from-path", What: "the model's evalT on a call reference and its pathVal (tied to the real Path) differ",
						Input: in, Model: reps[4], Impl: reps[1], Broken: "correspondence evalT / refRT ~ Fork.resolveRef → LazyArgumentMap.Path"})
					continue
				}
				r.hist("evalT_equals_real_path")
				// `x = split REF` into a parameter of the element type: the model's deliveredT against the elements
				// of what the real Path delivers for the whole collection (as multisets: a map's forks are keyed)
				if rerr == nil && (dt.kind == 'a' || dt.kind == 'm') {
					drep := c.Drv.Ask("C07.deliveredT", env.enc(), hx("PROD"), objEnc, dt.elem.enc(), c07Bind{split: true, e: ref}.enc())
					rt, _ := c17ParseJSON(real)
					var want []string
					if rt != nil && (rt.kind == 'a' || rt.kind == 'o') {
						for _, x := range rt.arr {
							want = append(want, c07NormJ(x).enc(true))
						}
					}
					var got []string
					if mt, _, e2 := c17ParseEnc(strings.Split(drep, " ")); e2 == nil && mt != nil && mt.kind == 'a' {
						for _, x := range mt.arr {
							got = append(got, c07NormJ(x).enc(true))
						}
					}
					sort.Strings(want)
					sort.Strings(got)
					switch {
					case rt != nil && rt.kind == 'n':
						r.hist("deliveredT_null_collection") // T-K3 territory: the real code makes no forks
					case drep == "none" || strings.Join(want, "\x00") != strings.Join(got, "\x00"):
						r.violate(Violation{Kind: "correspondence", Key: "C07:deliveredT:differs", What: "the model's deliveredT for `split REF` and the elements of the real Path's value differ",
							Input: in, Model: drep, Impl: string(real), Broken: "correspondence deliveredT ~ resolveSplit over LazyArgumentMap.Path"})
						continue
					default:
						r.hist("deliveredT_elements_equal")
					}
				}
			} else if modelOk != (rerr == nil) {
				r.hist("path_rejected_pair_differs") // outside what the run time is ever asked
			}
			// (2) delivered-value oracle
			if accepted && holeFree {
				if rerr != nil {
					r.violate(Violation{Kind: "property", Key: "C07:delivered:path-fails",
						What:  "a reference binding the compiler's rules accept (model: accepted, holeFree), with a conforming producer value, fails in the real LazyArgumentMap.Path: " + firstLine(rerr.Error()),
						Input: in, Broken: "validExp_sound_rt_partial"})
					continue
				}
				var alarms strings.Builder
				if verr := dest.IsValidJson(real, &alarms, &ast.TypeTable); verr != nil || alarms.Len() > 0 {
					in["real_value"] = string(real)
					r.violate(Violation{Kind: "property", Key: "C07:delivered:invalid",
						What:  "the value the real Path delivers for an accepted, holeFree reference binding does not validate against the parameter type: " + firstLine(fmt.Sprint(verr, alarms.String())),
						Input: in, Broken: "validExp_sound_rt_partial"})
					continue
				}
				r.hist("path_delivered_valid")
			}
			// (3) no destination: the projection itself
			if len(path) > 0 {
				realNil, nerr := c07RealPath(ast, []byte(vb.String()), path2(path), nil)
				if (reps[2] != "none") != (nerr == nil) {
					in["real_error_nil_dest"] = fmt.Sprint(nerr)
					r.violate(Violation{Kind: "correspondence", Key: "C07:path:nil-dest", What: "pathVal without destination and the real Path(dest = nil) disagree",
						Input: in, Model: reps[2], Impl: string(realNil), Broken: "correspondence pathVal ~ LazyArgumentMap.Path"})
				} else if nerr == nil && reps[3] == "none" {
					r.violate(Violation{Kind: "correspondence", Key: "C07:proj:undefined", What: "the real Path(dest = nil) succeeds on a conforming value but the model's project is undefined",
						Input: in, Model: reps[3], Impl: string(realNil), Broken: "fieldType_sound (project)"})
				} else if nerr == nil {
					rt, perr := c17ParseJSON(realNil)
					m2, _, e2 := c17ParseEnc(strings.Split(reps[2], " "))
					m3, _, e3 := c17ParseEnc(strings.Split(reps[3], " "))
					if perr != nil || e2 != nil || c07NormJ(rt).enc(true) != c07NormJ(m2).enc(true) {
						r.violate(Violation{Kind: "correspondence", Key: "C07:path:nil-dest-value", What: "pathVal without destination and the real Path(dest = nil) deliver different values",
							Input: in, Model: reps[2], Impl: string(realNil), Broken: "correspondence pathVal ~ LazyArgumentMap.Path"})
					} else if e3 != nil || c07NormJ(rt).enc(true) != c07NormJ(m3).enc(true) {
						// `project` (value level, used by fieldType_sound only) does not filter; the real Path
						// filters a struct leaf with the member's own type even without a destination (pathVal
						// models that and is compared by value above).  Counted, not a violation.
						r.hist("path_nil_dest_equal_project_unfiltered_differs")
					} else {
						r.hist("path_nil_dest_and_project_values_equal")
					}
				} else {
					r.hist("path_nil_dest_and_project_agree")
				}
			}
		}
	}
}

// c07WholeRefStream: `x = PROD` (the struct of all outputs of a singly-called stage) bound to a struct
// with the same member at an assignable type, or to an untyped `map`: the model's evalT (→ wholeRT) against
// the real LazyArgumentMap.Path("", source, dest) (→ LazyArgumentMap.filter), values compared.
func c07WholeRefStream(c *Ctx, n int) {
	r := c.Res
	rng := c.Rng
	for i := 0; i < n; i++ {
		ot := c07RandType(rng)
		if c07Undeclarable(ot) {
			continue
		}
		env := &c07Env{prodMode: 's', prodOuts: []c17Field{{"o", ot}}}
		ref := c07Ref('c', "PROD")
		val := c17GenValid(rng, ot, 3)
		rd := c17Render{rng: rng, ws: 0}
		var vb strings.Builder
		rd.render(&vb, val)
		tree, err := c17ParseJSON([]byte(vb.String()))
		if err != nil {
			continue
		}
		objEnc := (&c17J{kind: 'o', keys: []string{"o"}, arr: []*c17J{tree}}).encModel()
		dests := []*c17Ty{c07B("map")}
		for _, mt := range c07DestCandidates(c, ot) {
			if !c07Undeclarable(mt) {
				dests = append(dests, &c17Ty{kind: 's', name: "SAME", fields: []c17Field{{"o", mt}}})
			}
		}
		for _, dt := range dests {
			var sb strings.Builder
			sb.WriteString(c07Decls)
			if dt.kind == 's' {
				fmt.Fprintf(&sb, "struct SAME(\n    %s o,\n)\n\n", dt.fields[0].t.mro())
			}
			fmt.Fprintf(&sb, "stage PROD(\n    in  int seed,\n    out %s o,\n    src comp \"fake\",\n)\n\nstage CONS(\n    in  %s x,\n    out int r,\n    src comp \"fake\",\n)\n", ot.mro(), dt.mro())
			ast, cerr := c07RealCompile(sb.String())
			if cerr != nil {
				r.note("whole-ref stream: declarations do not compile: %v", firstLine(cerr.Error()))
				continue
			}
			dest := ast.TypeTable.Get(dt.typeId())
			if dest == nil {
				continue
			}
			reps := c.Drv.AskBatch([][]string{
				{"C07.exp", env.enc(), dt.enc(), ref.enc()},
				{"C07.evalT", env.enc(), hx("PROD"), objEnc, dt.enc(), ref.enc()},
			})
			f := strings.SplitN(reps[0], " ", 3)
			accepted, holeFree := len(f) >= 2 && f[0] == "true", len(f) >= 2 && f[1] == "true"
			r.count(sb.String()+vb.String(), true)
			r.hist(fmt.Sprintf("whole_ref_accepted=%v_holeFree=%v", accepted, holeFree))
			if !accepted {
				continue
			}
			real, rerr := c07RealPath(ast, []byte(vb.String()), nil, dest)
			in := map[string]interface{}{"out_type": ot.mro(), "param_type": dt.mro(), "value": vb.String(), "model_holeFree": holeFree, "real_error": fmt.Sprint(rerr)}
			modelOk := reps[1] != "none"
			if modelOk != (rerr == nil) {
				r.violate(Violation{Kind: "correspondence", Key: fmt.Sprintf("C07:whole:model=%v,real=%v", modelOk, rerr == nil),
					What: "the model's evalT (wholeRT) and the real LazyArgumentMap.Path(\"\", …) disagree on whether `x = PROD` resolves", Input: in,
					Model: reps[1], Impl: fmt.Sprint(rerr), Broken: "correspondence wholeRT ~ LazyArgumentMap.filter"})
				continue
			}
			if rerr != nil {
				continue
			}
			rt, perr := c17ParseJSON(real)
			mt, _, e2 := c17ParseEnc(strings.Split(reps[1], " "))
			if perr != nil || e2 != nil || c07NormJ(rt).enc(true) != c07NormJ(mt).enc(true) {
				in["real_value"] = string(real)
				r.violate(Violation{Kind: "correspondence", Key: "C07:whole:value", What: "the model's evalT (wholeRT) and the real LazyArgumentMap.Path(\"\", …) deliver different values for `x = PROD`",
					Input: in, Model: reps[1], Impl: string(real), Broken: "correspondence wholeRT ~ LazyArgumentMap.filter"})
				continue
			}
			r.hist("whole_ref_value_equal")
			if holeFree {
				var alarms strings.Builder
				if verr := dest.IsValidJson(real, &alarms, &ast.TypeTable); verr != nil || alarms.Len() > 0 {
					in["real_value"] = string(real)
					r.violate(Violation{Kind: "property", Key: "C07:delivered:invalid",
						What:  "the value the real Path delivers for an accepted, holeFree whole-call reference does not validate against the parameter type: " + firstLine(fmt.Sprint(verr, alarms.String())),
						Input: in, Broken: "validExp_sound_rt_partial"})
					continue
				}
				r.hist("whole_ref_delivered_valid")
			}
		}
	}
}

// the Go-side path: "o" followed by the members
func path2(p []string) []string { return append([]string{"o"}, p...) }

// c07FieldTypeTie: the model's fieldType (driver op C07.ftype) against the real
// compiler: `pipeline P(out X r) { call PROD(...) return (r = PROD.o.<path>) }`
// must be accepted when X is the type the model computes for the projection,
// and rejected when X has one array dimension more.
func c07FieldTypeTie(c *Ctx, n int) {
	r := c.Res
	rng := c.Rng
	for i := 0; i < n; i++ {
		ot := c07RandType(rng)
		paths := c07Paths(ot, 0)
		path := paths[rng.Intn(len(paths))]
		rep := c.Drv.Ask("C07.ftype", ot.enc(), hxList(path))
		refText := "PROD.o"
		if len(path) > 0 {
			refText += "." + strings.Join(path, ".")
		}
		prog := func(x string) string {
			return c07Decls + fmt.Sprintf("stage PROD(\n    in  int seed,\n    out %s o,\n    src comp \"fake\",\n)\n\npipeline P(\n    out %s r,\n)\n{\n    call PROD(\n        seed = 1,\n    )\n    return (\n        r = %s,\n    )\n}\n", ot.mro(), x, refText)
		}
		r.count(prog("?"), true)
		if rep == "none" {
			// the projection does not resolve: whatever the declared type, the compiler must refuse
			_, cerr := c07RealCompile(prog("int"))
			r.hist("ftype_none")
			if cerr == nil {
				r.violate(Violation{Kind: "correspondence", Key: "C07:ftype:none-accepted", What: "the model's fieldType is undefined but the compiler resolves the projection",
					Input: map[string]interface{}{"program": prog("int")}, Broken: "correspondence fieldType ~ syntax.fieldType"})
			}
			continue
		}
		st, _ := c07ParseTyEnc(strings.Split(rep, " "))
		if st == nil || c07Undeclarable(st) {
			continue
		}
		_, e1 := c07RealCompile(prog(st.mro()))
		_, e2 := c07RealCompile(prog(c07A(st).mro()))
		r.hist("ftype_checked")
		if e1 != nil || e2 == nil {
			r.violate(Violation{Kind: "correspondence", Key: fmt.Sprintf("C07:ftype:exact=%v,deeper=%v", e1 == nil, e2 == nil),
				What:  "the type the model's fieldType computes for a projection is not the type the real compiler gives it",
				Input: map[string]interface{}{"program": prog(st.mro()), "model_type": st.mro(), "error": fmt.Sprint(e1)}, Broken: "correspondence fieldType ~ syntax.fieldType"})
		}
	}
}

// c07StrictStream replays Props.C07.rejected_invalid_or_overstrict on the real
// validator: a reference-free literal the model rejects WITHOUT being in one of
// the over-strict classes must denote JSON that the real IsValidJson refuses
// (error or alarm) for the parameter type.
func c07StrictStream(c *Ctx, n int) {
	r := c.Res
	rng := c.Rng
	for i := 0; i < n; i++ {
		t := c07RandType(rng)
		g := &c07Gen{rng: rng, env: &c07Env{}, miss: 3, noBogus: true}
		e := g.exp(t, 0)
		if e.hasRef() {
			continue
		}
		rep := strings.Fields(c.Drv.Ask("C07.strict", "0 0", t.enc(), e.enc()))
		if len(rep) != 2 {
			r.note("bad reply of C07.strict: %v", rep)
			continue
		}
		r.count(t.enc()+" "+e.enc(), true)
		r.hist("strict_valid=" + rep[0] + "_overStrict=" + rep[1])
		if rep[0] == "true" || rep[1] == "true" {
			continue
		}
		ast, cerr := c07RealCompile(c07Decls + fmt.Sprintf("stage S(\n    in  %s x,\n    src comp \"fake\",\n)\n", t.mro()))
		if cerr != nil {
			continue
		}
		rt := ast.TypeTable.Get(t.typeId())
		if rt == nil {
			continue
		}
		var alarms strings.Builder
		verr := rt.IsValidJson([]byte(e.json()), &alarms, &ast.TypeTable)
		if verr == nil && alarms.Len() == 0 {
			r.violate(Violation{Kind: "correspondence", Key: "C07:strict:rejected-but-valid",
				What:  "a literal the model rejects outside the enumerated over-strict classes denotes JSON the real IsValidJson accepts cleanly",
				Input: map[string]interface{}{"type": t.mro(), "literal": e.mro(), "json": e.json()}, Broken: "rejected_invalid_or_overstrict"})
		} else {
			r.hist("strict_rejected_json_invalid")
		}
	}
}
