package main

// C01 worker: like tiera_worker.go's worker (isolated subprocesses, because the
// real runtime may end the process), but it records what C01 needs in
// addition: every job's `_args` and, for joins, `_chunk_defs` / `_chunk_outs`
// as delivered (read from the job's metadata directory at submission time),
// every job's fake outputs, the fork table (job fqname -> node + fork parts)
// and the program translated from the compiled source-level AST.
//
// The worker is this same binary started as `harness C01W` (main.go cannot be
// edited to add a flag); it reads TASpec JSON lines on stdin and writes
// "BEGIN <index>" and one result line per spec.

import (
	"bufio"
	"encoding/json"
	"fmt"
	"io"
	"os"
	"os/exec"
	"path"
	"strings"
	"sync"
	"time"

	"github.com/martian-lang/martian/martian/core"
	"github.com/martian-lang/martian/martian/syntax"
)

type c01Job struct {
	Key       string          `json:"key"`
	Fqname    string          `json:"fqname"`
	Shell     string          `json:"shell"`
	Args      json.RawMessage `json:"args,omitempty"`
	Outs      json.RawMessage `json:"outs,omitempty"`
	ChunkDefs json.RawMessage `json:"chunk_defs,omitempty"`
	ChunkOuts json.RawMessage `json:"chunk_outs,omitempty"`
	Outcome   string          `json:"outcome,omitempty"`
}

type c01Fork struct {
	Node  string                 `json:"node"`
	Kind  string                 `json:"kind"`
	Parts []core.VerifForkIdPart `json:"parts,omitempty"`
}

type C01RunResult struct {
	Index     int                `json:"index"`
	Name      string             `json:"name"`
	Final     string             `json:"final"`
	ErrMsg    string             `json:"errmsg,omitempty"`
	Compile   string             `json:"compile,omitempty"`
	Program   string             `json:"program,omitempty"`
	Unsupp    string             `json:"unsupported,omitempty"`
	Jobs      []*c01Job          `json:"jobs,omitempty"`
	Forks     map[string]c01Fork `json:"forks,omitempty"`
	TopOuts   json.RawMessage    `json:"top_outs,omitempty"`
	Relaunch  int                `json:"relaunch,omitempty"`
	PsDir     string             `json:"psdir,omitempty"`
	NEvents   int                `json:"n_events"`
	WallMs    int64              `json:"wall_ms"`
	Crashed   bool               `json:"crashed,omitempty"`
	SchedHash uint64             `json:"sched_hash,omitempty"` // hash of the order in which jobs finished
	TopSkip   []string           `json:"top_skip,omitempty"`   // file-typed top-level outputs (rewritten by post-processing)
	HasPaths  bool               `json:"has_paths,omitempty"`  // some job argument mentions a path inside the pipestance
	CallGraph string             `json:"callgraph,omitempty"`  // plain programs: the real compiler's resolved inputs / outputs (c01_static.go)
	CGErr     string             `json:"cg_err,omitempty"`
}

func c01RunSpec(spec *TASpec, scratch string) *C01RunResult {
	res := &C01RunResult{Index: spec.Index, Name: spec.Name}
	start := time.Now()
	opts := TAOpts{VdrMode: spec.VdrMode, MroPaths: spec.MroPaths, InlineFinish: spec.InlineFinish,
		StartSeparate: spec.StartSeparate, StepBias: spec.StepBias, Adversarial: spec.Adversarial,
		Faults: spec.Faults}
	var run *TARun
	// ECHO* stages (program family c01_family.go): the first output is the first input
	opts.OutsHook = func(job *TAJob, outs map[string]interface{}) {
		if run == nil || !strings.HasPrefix(job.StageName, "ECHO") || job.ShellName == "split" {
			return
		}
		stage, _ := run.Ast.Callables.Table[job.StageName].(*syntax.Stage)
		if stage == nil || len(stage.InParams.List) == 0 || len(stage.OutParams.List) == 0 {
			return
		}
		var args map[string]interface{}
		if json.Unmarshal(job.Args, &args) == nil {
			outs[stage.OutParams.List[0].Id] = args[stage.InParams.List[0].Id]
			if strings.HasPrefix(job.StageName, "ECHOALL") {
				// every output is the input at the same position (c01_family_narrow.go)
				for i := 1; i < len(stage.OutParams.List) && i < len(stage.InParams.List); i++ {
					outs[stage.OutParams.List[i].Id] = args[stage.InParams.List[i].Id]
				}
			}
		}
	}
	run, err := NewTARun(spec.Src, scratch, spec.Seed, opts)
	if err != nil {
		res.Final = "compile-error"
		res.Compile = err.Error()
		return res
	}
	defer run.Close()
	res.PsDir = run.PsDir
	if prog, err := c01Program(run.Ast); err != nil {
		res.Unsupp = err.Error()
	} else {
		res.Program = prog
	}
	if res.Program != "" {
		if cg, err := c01CallGraph(spec.Src, spec.MroPaths); err == nil {
			res.CallGraph = cg
		} else {
			res.CGErr = err.Error()
		}
	}
	if top := run.Ast.Callables.Table[run.Ast.Call.DecId]; top != nil {
		for _, p := range top.GetOutParams().List {
			if p.IsFile() != syntax.KindIsNotFile {
				res.TopSkip = append(res.TopSkip, p.Id)
			}
		}
	}
	byJob := map[*TAJob]*c01Job{}
	run.LaunchHook = func(job *TAJob) {
		j := &c01Job{Key: job.Key, Fqname: job.Fqname, Shell: job.ShellName, Args: compactJSON(job.Args)}
		if job.ShellName == "join" {
			if b, err := os.ReadFile(path.Join(job.MetadataPath, "_chunk_defs")); err == nil {
				j.ChunkDefs = compactJSON(b)
			}
			if b, err := os.ReadFile(path.Join(job.MetadataPath, "_chunk_outs")); err == nil {
				j.ChunkOuts = compactJSON(b)
			}
		}
		if strings.Contains(string(j.Args), run.PsDir) {
			res.HasPaths = true
		}
		byJob[job] = j
		res.Jobs = append(res.Jobs, j)
	}
	to := time.Duration(spec.TimeoutS) * time.Second
	if to == 0 {
		to = 30 * time.Second
	}
	run.RunTimed(to)
	res.Final = run.Final
	res.ErrMsg = run.ErrMsg
	if len(res.ErrMsg) > 3000 {
		res.ErrMsg = res.ErrMsg[:3000]
	}
	res.NEvents = len(run.Events)
	if run.Final == "hang" {
		res.WallMs = time.Since(start).Milliseconds()
		return res
	}
	var order []string
	for _, e := range run.Events {
		if e.Kind == "finish" {
			order = append(order, e.Job)
		}
	}
	res.SchedHash = hash64(order...)
	for job, j := range byJob {
		j.Outs = job.Outs
		j.Outcome = job.Outcome
	}
	for _, n := range run.Launches {
		if n > 1 {
			res.Relaunch++
		}
	}
	if outs, err := run.TopOuts(); err == nil {
		res.TopOuts = outs
	}
	if run.Final == "complete" && run.ps != nil {
		res.Forks = map[string]c01Fork{}
		for _, n := range run.ps.VerifNodes() {
			for _, f := range n.Forks {
				res.Forks[f.Fqname] = c01Fork{Node: n.Fqname, Kind: n.Kind, Parts: f.Parts}
			}
		}
	}
	res.WallMs = time.Since(start).Milliseconds()
	return res
}

func init() {
	register("C01W", func(c *Ctx) {
		taInit()
		in := bufio.NewReaderSize(os.Stdin, 1<<20)
		out := bufio.NewWriter(os.Stdout)
		for {
			line, err := in.ReadBytes('\n')
			if len(line) > 1 {
				var spec TASpec
				if json.Unmarshal(line, &spec) != nil {
					fatal("bad spec")
				}
				fmt.Fprintf(out, "BEGIN %d\n", spec.Index)
				out.Flush()
				res := c01RunSpec(&spec, c.Scratch)
				b, _ := json.Marshal(res)
				out.Write(b)
				out.WriteByte('\n')
				out.Flush()
				if res.Final == "hang" {
					os.RemoveAll(c.Scratch)
					os.Exit(7)
				}
			}
			if err != nil {
				os.RemoveAll(c.Scratch)
				os.Exit(0) // do not let main print a Result onto the protocol stream
			}
		}
	})
}

// c01Pool runs specs in isolated parallel worker processes.
type c01Worker struct {
	cmd   *exec.Cmd
	stdin io.WriteCloser
	rd    *bufio.Reader
}

func c01StartWorker() *c01Worker {
	w := &c01Worker{}
	w.cmd = exec.Command(os.Args[0], "C01W")
	w.cmd.Stderr = nil
	w.stdin, _ = w.cmd.StdinPipe()
	so, _ := w.cmd.StdoutPipe()
	w.rd = bufio.NewReaderSize(so, 1<<20)
	w.cmd.Env = append(os.Environ(), "GOMAXPROCS=2")
	if err := w.cmd.Start(); err != nil {
		fatal("worker: %v", err)
	}
	return w
}

func (w *c01Worker) stop() {
	if w != nil && w.cmd != nil {
		w.stdin.Close()
		w.cmd.Process.Kill()
		w.cmd.Wait()
		w.cmd = nil
	}
}

// run one spec; on worker death the worker is marked dead (cmd == nil)
func (w *c01Worker) run(spec *TASpec) *C01RunResult {
	b, _ := json.Marshal(spec)
	w.stdin.Write(append(b, '\n'))
	var res *C01RunResult
	for {
		line, err := w.rd.ReadBytes('\n')
		if err != nil {
			break
		}
		if strings.HasPrefix(string(line), `{"index":`) {
			var r C01RunResult
			if json.Unmarshal(line, &r) == nil {
				res = &r
				break
			}
		}
	}
	if res == nil {
		res = &C01RunResult{Index: spec.Index, Name: spec.Name, Final: "process-exit", Crashed: true}
		w.cmd.Wait()
		if w.cmd.ProcessState != nil {
			res.ErrMsg = w.cmd.ProcessState.String()
		}
		w.cmd = nil
	} else if res.Final == "hang" {
		w.cmd.Wait()
		w.cmd = nil
	}
	return res
}

func c01RunSpecs(specs []*TASpec, parallel int) []*C01RunResult {
	results := make([]*C01RunResult, len(specs))
	for i, s := range specs {
		s.Index = i
	}
	if parallel < 1 {
		parallel = 1
	}
	var mu sync.Mutex
	next := 0
	take := func() *TASpec {
		mu.Lock()
		defer mu.Unlock()
		if next >= len(specs) {
			return nil
		}
		s := specs[next]
		next++
		return s
	}
	var wg sync.WaitGroup
	for i := 0; i < parallel; i++ {
		wg.Add(1)
		go func() {
			defer wg.Done()
			var w *c01Worker
			defer func() { w.stop() }()
			for {
				spec := take()
				if spec == nil {
					return
				}
				if w == nil || w.cmd == nil {
					w = c01StartWorker()
				}
				results[spec.Index] = w.run(spec)
			}
		}()
	}
	wg.Wait()
	return results
}
