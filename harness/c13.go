package main

// C13 — final outputs are materialised faithfully under outs/.
//
// Two correspondence streams, both against the Lean model (Martian.PostProcess
// through the driver) and both doubling as property monitors on the real code:
//   direct : core.moveOutFiles (via the verif hook) on generated signatures
//            compiled by the real compiler, values and file trees built here
//            (regular files, directories, missing, outside the pipestance,
//            symlinks, aliases, near-miss values);
//   tier A : whole pipestances run by the real runtime with fake stages
//            (c13_ta.go), post-processed by Pipestance.PostProcess.

import (
	"bytes"
	"encoding/json"
	"fmt"
	"math/rand"
	"os"
	"path/filepath"
	"sort"
	"strconv"
	"strings"
	"time"

	"github.com/martian-lang/martian/martian/core"
	"github.com/martian-lang/martian/martian/syntax"
)

func init() { register("C13", runC13) }

// ---- file trees ----

// c13Tree: absolute path -> "F<content id>" | "D" | "La<hex abs target>" | "Lr<hex rel target>"
type c13Tree map[string]string

type c13Contents struct {
	ids map[string]int
}

func (c *c13Contents) id(content string) int {
	if n, err := strconv.Atoi(content); err == nil && n >= 0 && n < 1<<30 && strconv.Itoa(n) == content {
		return n
	}
	if c.ids == nil {
		c.ids = map[string]int{}
	}
	if v, ok := c.ids[content]; ok {
		return v
	}
	v := 1<<30 + len(c.ids)
	c.ids[content] = v
	return v
}

func c13Snapshot(roots []string, cs *c13Contents, skip func(rel string, info os.FileInfo) bool) c13Tree {
	t := c13Tree{}
	for _, root := range roots {
		filepath.Walk(root, func(p string, info os.FileInfo, err error) error {
			if err != nil {
				return nil
			}
			if skip != nil && p != root {
				rel, _ := filepath.Rel(root, p)
				if skip(rel, info) {
					if info.IsDir() {
						return filepath.SkipDir
					}
					return nil
				}
			}
			switch {
			case info.Mode()&os.ModeSymlink != 0:
				d, _ := os.Readlink(p)
				if filepath.IsAbs(d) {
					t[p] = "La" + hx(d)
				} else {
					t[p] = "Lr" + hx(d)
				}
			case info.IsDir():
				t[p] = "D"
			default:
				b, _ := os.ReadFile(p)
				t[p] = "F" + strconv.Itoa(cs.id(string(b)))
			}
			return nil
		})
	}
	return t
}

func (t c13Tree) enc(extraDirs []string) string {
	keys := make([]string, 0, len(t))
	for k := range t {
		keys = append(keys, k)
	}
	sort.Strings(keys)
	var sb strings.Builder
	fmt.Fprintf(&sb, "%d", len(keys)+len(extraDirs))
	for _, d := range extraDirs {
		sb.WriteString(" " + hx(d) + " D")
	}
	for _, k := range keys {
		sb.WriteString(" " + hx(k) + " " + t[k])
	}
	return sb.String()
}

func c13Ancestors(p string) []string {
	var r []string
	for d := filepath.Dir(p); d != "/" && d != "."; d = filepath.Dir(d) {
		r = append(r, d)
	}
	return r
}

// parse the driver's tree listing
func c13ParseTree(s string) c13Tree {
	t := c13Tree{}
	if s == "." || s == "" {
		return t
	}
	for _, e := range strings.Split(s, ",") {
		i := strings.Index(e, "=")
		if i < 0 {
			continue
		}
		t[unhx(e[:i])] = e[i+1:]
	}
	return t
}

func c13TreeDiff(real, model c13Tree, under []string) []string {
	in := func(p string) bool {
		for _, u := range under {
			if p == u || strings.HasPrefix(p, u+"/") {
				return true
			}
		}
		return false
	}
	show := func(v string) string {
		if strings.HasPrefix(v, "La") || strings.HasPrefix(v, "Lr") {
			return v[:2] + ":" + unhx(v[2:])
		}
		return v
	}
	var d []string
	for p, v := range real {
		if !in(p) {
			continue
		}
		if mv, ok := model[p]; !ok {
			d = append(d, fmt.Sprintf("%s: real %s, model absent", p, show(v)))
		} else if mv != v {
			d = append(d, fmt.Sprintf("%s: real %s, model %s", p, show(v), show(mv)))
		}
	}
	for p, v := range model {
		if !in(p) {
			continue
		}
		if _, ok := real[p]; !ok {
			d = append(d, fmt.Sprintf("%s: real absent, model %s", p, show(v)))
		}
	}
	sort.Strings(d)
	return d
}

// ---- content signatures (for the property monitor; real file system) ----

// c13Sig of a path: what one reads there, following symlinks: "F:<content>",
// "D:{rel=sig,…}" or "" when nothing can be read.
func c13SigOf(p string, depth int) string {
	if depth > 8 {
		return ""
	}
	info, err := os.Stat(p)
	if err != nil {
		return ""
	}
	if !info.IsDir() {
		b, err := os.ReadFile(p)
		if err != nil {
			return ""
		}
		return "F:" + string(b)
	}
	ents, err := os.ReadDir(p)
	if err != nil {
		return ""
	}
	var parts []string
	for _, e := range ents {
		parts = append(parts, e.Name()+"="+c13SigOf(filepath.Join(p, e.Name()), depth+1))
	}
	sort.Strings(parts)
	return "D:{" + strings.Join(parts, ",") + "}"
}

// ---- property monitor (independent of the Lean model) ----

type c13Mon struct {
	pre   map[string]string // leaf path -> signature before post-processing
	kind  map[string]string // leaf path -> "reg" (regular file / directory) | "link", before post-processing
	occ   map[string]int    // how many file leaves name this path
	psDir string
	alias []string // aliased leaves whose recorded value is another output's location
	fails []string
	leafs int // non-null file leaves that had content
	nulls int
}

func newC13Mon(psDir string) *c13Mon {
	return &c13Mon{pre: map[string]string{}, kind: map[string]string{}, occ: map[string]int{}, psDir: psDir}
}

// record notes what a file leaf's path holds before post-processing.
func (m *c13Mon) record(v *c13J) {
	if v.K != 'q' || v.S == "" || !filepath.IsAbs(v.S) {
		return
	}
	m.occ[v.S]++
	m.pre[v.S] = c13SigOf(v.S, 0)
	if info, err := os.Lstat(v.S); err == nil {
		if info.Mode()&os.ModeSymlink != 0 {
			m.kind[v.S] = "link"
		} else {
			m.kind[v.S] = "reg"
		}
	}
}

func (m *c13Mon) failf(f string, a ...interface{}) {
	if len(m.fails) < 6 {
		m.fails = append(m.fails, fmt.Sprintf(f, a...))
	}
}

func c13Pad(i, n int) string {
	return fmt.Sprintf("%0*d", len(strconv.Itoa(n)), i)
}

// c13Leaves calls f for every file leaf of a well-typed value.
func c13Leaves(mem c13Member, v *c13J, f func(mem c13Member, v *c13J)) {
	if v == nil || v.K == 'n' || !mem.Ty.hasFile() {
		return
	}
	switch mem.Ty.Kind {
	case "f":
		f(mem, v)
	case "a":
		if v.K != 'A' {
			return
		}
		et := mem.Ty.Elem
		if mem.Ty.Extra > 0 {
			et = &c13Ty{Kind: "a", Elem: mem.Ty.Elem, Extra: mem.Ty.Extra - 1}
		}
		for i, x := range v.Arr {
			c13Leaves(c13Member{Id: c13Pad(i, len(v.Arr)), Ty: et}, x, f)
		}
	case "m":
		if v.K != 'O' {
			return
		}
		for i, k := range v.Keys {
			c13Leaves(c13Member{Id: k, Ty: mem.Ty.Elem}, v.Vals[i], f)
		}
	case "t":
		if v.K != 'O' {
			return
		}
		for _, mm := range mem.Ty.Ms {
			c13Leaves(mm, v.get(mm.Id), f)
		}
	}
}

func sameKeys(a, b *c13J) bool {
	ka := append([]string{}, a.Keys...)
	kb := append([]string{}, b.Keys...)
	sort.Strings(ka)
	sort.Strings(kb)
	if len(ka) != len(kb) {
		return false
	}
	for i := range ka {
		if ka[i] != kb[i] {
			return false
		}
	}
	return true
}

// walk checks the property for one member: shape, unchanged non-file values,
// and for every non-null file leaf with content: it is readable under outs/ at
// the derived name with the same content, and the recorded value points at a
// location with that content.
func (m *c13Mon) walk(where string, mem c13Member, pre, post *c13J, outsDir string) {
	if pre == nil {
		return // key absent from the record: nothing promised
	}
	if post == nil {
		m.failf("%s: key dropped from the rewritten record", where)
		return
	}
	if !mem.Ty.hasFile() {
		if pre.canon() != post.canon() {
			m.failf("%s: non-file value changed: %s -> %s", where, pre.canon(), post.canon())
		}
		return
	}
	if pre.K == 'n' {
		if post.K != 'n' {
			m.failf("%s: null became %s", where, post.canon())
		}
		return
	}
	dest := filepath.Join(outsDir, mem.expectName())
	switch mem.Ty.Kind {
	case "f":
		if pre.K != 'q' {
			return
		}
		sig := m.pre[pre.S]
		if sig == "" {
			m.nulls++
			if post.K != 'n' && post.K != 'q' {
				m.failf("%s: missing file became %s", where, post.canon())
			}
			return
		}
		m.leafs++
		if got := c13SigOf(dest, 0); got != sig {
			m.failf("%s: %s should hold the content of %s (%s) but holds %q", where, dest, pre.S, c13Short(sig), c13Short(got))
		}
		if post.K != 'q' {
			m.failf("%s: value of an existing file became %s", where, post.canon())
		} else if got := c13SigOf(post.S, 0); got != sig {
			m.failf("%s: recorded value %s does not hold the content of %s", where, post.S, pre.S)
		} else if m.kind[pre.S] == "reg" && strings.Contains(filepath.Clean(pre.S), m.psDir) && post.S != dest {
			// strict reading: the value of a moved file is its OWN derived path
			if m.occ[pre.S] > 1 {
				if len(m.alias) < 4 {
					m.alias = append(m.alias, fmt.Sprintf("%s: file %s is bound to %d outputs; this one is reachable at %s but its recorded value is %s",
						where, pre.S, m.occ[pre.S], dest, post.S))
				}
			} else {
				m.failf("%s: recorded value %s is not the output's own location %s", where, post.S, dest)
			}
		}
	case "a":
		if pre.K != 'A' {
			return
		}
		if post.K != 'A' || len(post.Arr) != len(pre.Arr) {
			m.failf("%s: array shape changed: %s -> %s", where, pre.canon(), post.canon())
			return
		}
		et := mem.Ty.Elem
		if mem.Ty.Extra > 0 {
			et = &c13Ty{Kind: "a", Elem: mem.Ty.Elem, Extra: mem.Ty.Extra - 1}
		}
		for i := range pre.Arr {
			id := c13Pad(i, len(pre.Arr))
			m.walk(where+"["+strconv.Itoa(i)+"]", c13Member{Id: id, Ty: et}, pre.Arr[i], post.Arr[i], dest)
		}
	case "m":
		if pre.K != 'O' {
			return
		}
		if post.K != 'O' || !sameKeys(pre, post) {
			m.failf("%s: map keys changed: %s -> %s", where, pre.canon(), post.canon())
			return
		}
		for i, k := range pre.Keys {
			m.walk(where+"."+k, c13Member{Id: k, Ty: mem.Ty.Elem}, pre.Vals[i], post.get(k), dest)
		}
	case "t":
		if pre.K != 'O' {
			return
		}
		if post.K != 'O' || !sameKeys(pre, post) {
			m.failf("%s: struct keys changed: %s -> %s", where, pre.canon(), post.canon())
			return
		}
		for _, mm := range mem.Ty.Ms {
			m.walk(where+"."+mm.Id, mm, pre.get(mm.Id), post.get(mm.Id), dest)
		}
	}
}

func c13Short(s string) string {
	if len(s) > 60 {
		return s[:60] + "…"
	}
	return s
}

// ---- direct stream ----

type c13Case struct {
	Name     string            `json:"name"`
	Mro      string            `json:"mro"`
	Params   []c13Member       `json:"params"`
	Outs     string            `json:"outs_json"`
	Tags     []string          `json:"tags"`
	Root     string            `json:"root"`
	Seed     int64             `json:"direct_seed"`
	NearMiss bool              `json:"near_miss"`
	Overlap  bool              `json:"overlap"`
	Links    map[string]string `json:"symlinks,omitempty"`
	InDomain bool              `json:"in_domain"`
}

type c13ValGen struct {
	rng     *rand.Rand
	root    string // case dir
	files   string // <ps>/MK/fork0/files
	ext     string // outside the pipestance
	next    int
	leaves  []string // existing leaf paths so far (for aliases)
	dirs    []string // directory leaves inside the pipestance
	tags    map[string]bool
	nearMis bool
	overlap bool
	budget  int // remaining file leaves
	// plainOnly: every leaf is an existing regular file inside the pipestance (replays of named witnesses)
	plainOnly bool
}

func (g *c13ValGen) tag(t string) { g.tags[t] = true }

func (g *c13ValGen) newFile(dir, name string) string {
	g.next++
	p := filepath.Join(dir, fmt.Sprintf("%s_%d", name, g.next))
	os.MkdirAll(dir, 0o755)
	os.WriteFile(p, []byte(strconv.Itoa(g.next)), 0o644)
	return p
}

func (g *c13ValGen) newDir(dir, name string) string {
	g.next++
	p := filepath.Join(dir, fmt.Sprintf("%s_%d", name, g.next))
	os.MkdirAll(filepath.Join(p, "sub"), 0o755)
	g.next++
	os.WriteFile(filepath.Join(p, "inner.txt"), []byte(strconv.Itoa(g.next)), 0o644)
	g.next++
	os.WriteFile(filepath.Join(p, "sub", "deep"), []byte(strconv.Itoa(g.next)), 0o644)
	return p
}

func (g *c13ValGen) leaf(name string, isPath bool) *c13J {
	g.budget--
	r := g.rng.Intn(100)
	if g.plainOnly {
		r = 0
	}
	if isPath && r < 45 && r >= 20 {
		r = 45 // more directories for `path`
	}
	switch {
	case r < 45:
		g.tag("file")
		p := g.newFile(g.files, name)
		g.leaves = append(g.leaves, p)
		return c13Str(p)
	case r < 53:
		g.tag("dir")
		p := g.newDir(g.files, name)
		g.leaves = append(g.leaves, p)
		g.dirs = append(g.dirs, p)
		return c13Str(p)
	case r < 59:
		g.tag("missing")
		g.next++
		return c13Str(filepath.Join(g.files, fmt.Sprintf("%s_missing_%d", name, g.next)))
	case r < 61:
		g.tag("empty-string")
		return c13Str("")
	case r < 66:
		g.tag("null")
		return c13Null
	case r < 72:
		g.tag("outside-file")
		return c13Str(g.newFile(g.ext, name))
	case r < 74:
		g.tag("outside-dir")
		return c13Str(g.newDir(g.ext, name))
	case r < 77:
		g.tag("symlink-abs")
		target := g.newFile(g.files, name+"_t")
		if g.rng.Intn(3) == 0 {
			target = g.newFile(g.ext, name+"_t")
		}
		g.next++
		p := filepath.Join(g.files, fmt.Sprintf("%s_l%d", name, g.next))
		os.Symlink(target, p)
		return c13Str(p)
	case r < 81:
		g.tag("symlink-rel")
		target := g.newFile(filepath.Join(g.files, "tgt"), name+"_t")
		g.next++
		p := filepath.Join(g.files, fmt.Sprintf("%s_l%d", name, g.next))
		rel, _ := filepath.Rel(filepath.Dir(p), target)
		os.Symlink(rel, p)
		return c13Str(p)
	case r < 83:
		g.tag("symlink-chain")
		target := g.newFile(filepath.Join(g.files, "tgt"), name+"_t")
		g.next++
		mid := filepath.Join(g.files, "tgt", fmt.Sprintf("%s_m%d", name, g.next))
		if g.rng.Intn(2) == 0 {
			os.Symlink(filepath.Base(target), mid)
		} else {
			os.Symlink(target, mid)
		}
		p := filepath.Join(g.files, fmt.Sprintf("%s_l%d", name, g.next))
		rel, _ := filepath.Rel(filepath.Dir(p), mid)
		os.Symlink(rel, p)
		return c13Str(p)
	case r < 85:
		g.tag("symlink-dangling")
		g.next++
		p := filepath.Join(g.files, fmt.Sprintf("%s_l%d", name, g.next))
		if g.rng.Intn(2) == 0 {
			os.Symlink("nowhere/at_all", p)
		} else {
			os.Symlink(filepath.Join(g.files, "nowhere"), p)
		}
		return c13Str(p)
	case r < 91:
		if len(g.leaves) > 0 {
			g.tag("alias")
			return c13Str(g.leaves[g.rng.Intn(len(g.leaves))])
		}
		g.tag("file")
		p := g.newFile(g.files, name)
		g.leaves = append(g.leaves, p)
		return c13Str(p)
	case r < 92:
		g.tag("relative-path")
		return c13Str("not/absolute/" + name)
	case r < 93:
		if g.overlap {
			// files/ref_N -> <external dir>; the output is files/ref_N/y
			g.tag("symlinked-parent-outside")
			g.next++
			extDir := filepath.Join(g.ext, fmt.Sprintf("refdata_%d", g.next))
			os.MkdirAll(extDir, 0o755)
			g.next++
			os.WriteFile(filepath.Join(extDir, "y"), []byte(strconv.Itoa(g.next)), 0o644)
			g.next++
			os.WriteFile(filepath.Join(extDir, "x"), []byte(strconv.Itoa(g.next)), 0o644)
			link := filepath.Join(g.files, fmt.Sprintf("ref_%d", g.next))
			os.Symlink(extDir, link)
			return c13Str(filepath.Join(link, "y"))
		}
		fallthrough
	case r < 94:
		if g.overlap && len(g.dirs) > 0 {
			g.tag("overlap")
			return c13Str(filepath.Join(g.dirs[g.rng.Intn(len(g.dirs))], "inner.txt"))
		}
		fallthrough
	case r < 97:
		if g.nearMis {
			g.tag("illtyped")
			switch g.rng.Intn(3) {
			case 0:
				return c13Lit("17")
			case 1:
				return &c13J{K: 'O', Keys: []string{"x"}, Vals: []*c13J{c13Lit("1")}}
			default:
				return &c13J{K: 'A', Arr: []*c13J{c13Str("x")}}
			}
		}
		fallthrough
	default:
		g.tag("file")
		p := g.newFile(g.files, name)
		g.leaves = append(g.leaves, p)
		return c13Str(p)
	}
}

var c13Keys = []string{"a", "b", "k1", "zz", "0", "10", "é", "x y", "a&b"}

// c13MapKeyNames: n distinct run-time keys of a typed map whose element type is elem, adversarial
// relative to the scheme that derives an entry's name under outs/ from (key, element type): for a
// base k also k.<ext>, k.<other ext>, "k.", ".<ext>", the bare extension, several dots, case
// variants, names that look like array elements ("0", "00", "1.<ext>").  illegal: additionally one
// key that is not a legal file name.
func c13MapKeyNames(rng *rand.Rand, elem *c13Ty, n int, illegal bool) ([]string, []string) {
	tags := map[string]bool{}
	ext := c13UserTypes[rng.Intn(len(c13UserTypes))]
	for e := elem; e != nil; e = e.Elem {
		if e.Kind == "f" && e.Ext != "" {
			ext = e.Ext
		}
	}
	other := c13UserTypes[rng.Intn(len(c13UserTypes))]
	atoms := []string{"a", "b", "k1", "zz", "0", "10", "é", "x y", "a&b", "report", "A", "00"}
	variant := func(a string) string {
		switch rng.Intn(14) {
		case 0:
			tags["key-with-own-ext"] = true
			return a + "." + ext
		case 1:
			return a + "." + other
		case 2:
			return a + "."
		case 3:
			return "." + ext
		case 4:
			return ext
		case 5:
			tags["key-with-own-ext"] = true
			return a + "." + ext + "." + ext
		case 6:
			if u := strings.ToUpper(a); u != a {
				return u
			}
			return strings.ToLower(a)
		case 7:
			return "1." + ext
		case 8:
			return a + "_" + ext
		case 9:
			return a + "." + strings.ToUpper(ext)
		}
		return a
	}
	var keys []string
	have := map[string]bool{}
	add := func(k string) {
		if !have[k] && k != "" && k != "." && k != ".." && !strings.ContainsAny(k, "/\x00") && len(k) <= 255 {
			have[k] = true
			keys = append(keys, k)
		}
	}
	base := atoms[rng.Intn(len(atoms))]
	cluster := rng.Intn(5) < 3
	if cluster && n > 1 {
		tags["key-cluster"] = true
		add(base)
	}
	for tries := 0; len(keys) < n && tries < 60; tries++ {
		a := base
		if !cluster || rng.Intn(4) == 0 {
			a = atoms[rng.Intn(len(atoms))]
		}
		add(variant(a))
	}
	if illegal {
		tags["illegal-key"] = true
		bad := []string{"a/b", "..", ".", "", base + "/" + base, strings.Repeat("x", 256), "a\x00b", "/" + base, base + "/"}[rng.Intn(9)]
		at := 0
		if len(keys) > 0 {
			at = rng.Intn(len(keys) + 1)
		}
		keys = append(keys[:at], append([]string{bad}, keys[at:]...)...)
	}
	var ts []string
	for t := range tags {
		ts = append(ts, t)
	}
	sort.Strings(ts)
	return keys, ts
}

func (g *c13ValGen) scalar(mro string) *c13J {
	switch mro {
	case "int":
		return c13Lit(strconv.Itoa(g.rng.Intn(100) - 10))
	case "float":
		return c13Lit(fmt.Sprintf("%d.5", g.rng.Intn(10)))
	case "bool":
		return c13Lit(strconv.FormatBool(g.rng.Intn(2) == 0))
	case "string":
		return c13Str([]string{"s", "", "a/b", "<tag> & \"q\"", "/etc/hostname"}[g.rng.Intn(5)])
	case "map":
		return &c13J{K: 'O', Keys: []string{"m", "f"}, Vals: []*c13J{c13Lit("1"), c13Str("/etc/hostname")}}
	}
	return c13Null
}

func (g *c13ValGen) value(t *c13Ty, name string) *c13J {
	if !g.plainOnly && g.rng.Intn(30) == 0 {
		g.tag("null")
		return c13Null
	}
	switch t.Kind {
	case "s":
		return g.scalar(t.Mro)
	case "f":
		return g.leaf(name, t.Mro == "path")
	case "a":
		n := []int{0, 1, 2, 2, 3, 3, 11}[g.rng.Intn(7)]
		if n == 11 && (g.rng.Intn(3) != 0 || g.budget < 20) {
			n = 2
		}
		if g.budget <= 0 {
			n = 0
		}
		if n == 0 {
			g.tag("empty-array")
		}
		et := t.Elem
		if t.Extra > 0 {
			et = &c13Ty{Kind: "a", Elem: t.Elem, Extra: t.Extra - 1}
			g.tag("multidim")
		}
		r := &c13J{K: 'A'}
		for i := 0; i < n; i++ {
			r.Arr = append(r.Arr, g.value(et, fmt.Sprintf("%s_%d", name, i)))
		}
		return r
	case "m":
		n := []int{0, 1, 2, 2, 3}[g.rng.Intn(5)]
		if g.budget <= 0 {
			n = 0
		}
		if n == 0 {
			g.tag("empty-map")
		}
		r := &c13J{K: 'O'}
		// run-time keys, adversarial relative to the scheme that names the entries under outs/
		keys, ktags := c13MapKeyNames(g.rng, t.Elem, n, g.nearMis && g.rng.Intn(4) == 0)
		for _, kt := range ktags {
			g.tag(kt)
		}
		for i, k := range keys {
			r.Keys = append(r.Keys, k)
			r.Vals = append(r.Vals, g.value(t.Elem, name+"_k"+strconv.Itoa(i)))
		}
		return r
	case "t":
		r := &c13J{K: 'O'}
		perm := g.rng.Perm(len(t.Ms))
		for _, i := range perm {
			mm := t.Ms[i]
			if g.nearMis && g.rng.Intn(12) == 0 {
				g.tag("struct-missing-key")
				continue
			}
			r.Keys = append(r.Keys, mm.Id)
			r.Vals = append(r.Vals, g.value(mm.Ty, name+"_"+mm.Id))
		}
		if g.nearMis && g.rng.Intn(12) == 0 {
			g.tag("struct-extra-key")
			r.Keys = append(r.Keys, "extra_key")
			r.Vals = append(r.Vals, c13Lit("1"))
		}
		return r
	}
	return c13Null
}

var c13OutOfDomain = map[string]bool{"illtyped": true, "struct-missing-key": true,
	"struct-extra-key": true, "overlap": true, "relative-path": true, "symlinked-parent-outside": true}

type c13Stats struct {
	compileRejected int
	dupRejected     int
}

// c13Direct runs one direct case; returns false when the signature did not compile.
func c13Direct(c *Ctx, r *Result, idx int, seed int64, nearMiss, overlap bool, corpusName string) bool {
	if os.Getenv("C13_TRACE") != "" {
		fmt.Fprintf(os.Stderr, "direct %d seed=%d nearMiss=%v overlap=%v\n", idx, seed, nearMiss, overlap)
	}
	rng := rand.New(rand.NewSource(seed))
	sig := c13GenSig(rng, nearMiss && rng.Intn(2) == 0)
	src := sig.mro("", false)
	_, _, ast, err := syntax.ParseSourceBytes([]byte(src), "c13.mro", nil, false)
	expectDup := c13ModelDup(c, sig)
	if err != nil {
		msg := err.Error()
		isDup := strings.Contains(msg, "DuplicateNameError") && strings.Contains(msg, "output name")
		r.hist("direct:compile-rejected")
		if isDup != expectDup {
			r.violate(Violation{Kind: "correspondence", Key: "C13:dupnames", Broken: "dest_injective hypothesis (NoDupNames) vs StructType.compile",
				What:  fmt.Sprintf("compiler rejected=%v for duplicate output names, generator's predicate says duplicates=%v: %s", isDup, expectDup, c13Short(msg)),
				Input: src})
		} else if !isDup {
			r.note("direct: unexpected compile error: %s", c13Short(msg))
		} else {
			r.hist("direct:duplicate-out-name-rejected")
			r.count("dup:"+src, true)
		}
		return false
	}
	if expectDup {
		r.violate(Violation{Kind: "property", Key: "C13:dupnames-accepted",
			What:  "two members with the same output file name were accepted by the compiler (their files would collide under outs/)",
			Input: src})
		return false
	}
	stage, _ := ast.Callables.Table["MK"].(*syntax.Stage)
	lookup := &ast.TypeTable
	params := c13ParamsFromSyntax(lookup, stage.OutParams)
	for i := range params {
		if i >= len(sig.Params) || !c13TyEqual(params[i].Ty, sig.Params[i].Ty) || params[i].OutName != sig.Params[i].OutName {
			r.note("direct: compiler's view of param %d differs from the generator's (%s)", i, sig.Params[i].Ty.mro())
			break
		}
	}
	root := filepath.Join(c13Scratch(c), fmt.Sprintf("d%d", idx))
	ps := filepath.Join(root, "ps")
	outsPath := filepath.Join(ps, "outs")
	g := &c13ValGen{rng: rng, root: root, files: filepath.Join(ps, "MK", "fork0", "files"), ext: filepath.Join(root, "ext"),
		tags: map[string]bool{}, nearMis: nearMiss, overlap: overlap, budget: 24}
	os.MkdirAll(g.files, 0o755)
	os.MkdirAll(g.ext, 0o755)
	defer os.RemoveAll(root)
	outs := &c13J{K: 'O'}
	for _, p := range params {
		outs.Keys = append(outs.Keys, p.Id)
		outs.Vals = append(outs.Vals, g.value(p.Ty, p.Id))
	}
	cs := &c13Contents{}
	mon := newC13Mon(ps)
	for i, p := range params {
		c13Leaves(p, outs.Vals[i], func(_ c13Member, v *c13J) { mon.record(v) })
	}
	// simulated crash point: an earlier post-process was killed after it had completely moved some
	// leaves and between os.Rename(file, outs/…) and os.Symlink(…, file) of ONE more (that file is
	// under outs/, its source path is gone); `_outs` still holds the old record.  What follows is
	// the pass after the restart.
	if idx%10 == 3 && !nearMiss && !overlap {
		var movable []c13SrcDest
		for _, sd := range c13OrderedLeaves("", params, outs, ps) {
			if mon.kind[sd.src] == "reg" && mon.occ[sd.src] == 1 && strings.HasPrefix(sd.src, g.files+"/") {
				movable = append(movable, sd)
			}
		}
		if len(movable) > 0 {
			k := rng.Intn(len(movable))
			for j := 0; j < k; j++ {
				c13SimulateMove(movable[j], 3)
			}
			if c13SimulateMove(movable[k], 2) {
				g.tag("crash-after-rename")
			}
		}
	}
	extBefore := c13Snapshot([]string{g.ext}, cs, nil)
	before := c13Snapshot([]string{root}, cs, nil)

	// ---- the verification gate the runtime applies to every stage / pipeline output before it
	// can complete (Fork.verifyOutput -> LazyArgumentMap.ValidateOutputs -> Type.IsValidJson) ----
	gateOK, gateMsg := true, ""
	{
		lam := core.LazyArgumentMap{}
		for i, p := range params {
			lam[p.Id] = json.RawMessage(outs.Vals[i].String())
		}
		if err, _ := lam.ValidateOutputs(lookup, stage.OutParams); err != nil {
			gateOK, gateMsg = false, err.Error()
		}
	}

	// ---- the real code: processStructOuts / handleOuts around moveOutFiles ----
	anyFile := false
	for _, p := range params {
		if p.Ty.hasFile() {
			anyFile = true
		}
	}
	if anyFile {
		os.MkdirAll(outsPath, 0o775)
	}
	var errs []string
	panicked := ""
	runReal := func() string {
		var realText bytes.Buffer
		realText.WriteByte('{')
		for i, p := range stage.OutParams.List {
			val := []byte(outs.Vals[i].String())
			var frag []byte
			k := p.IsFile()
			if (k == syntax.KindIsFile || k == syntax.KindIsDirectory) && string(val) != "null" {
				func() {
					defer func() {
						if e := recover(); e != nil {
							panicked = fmt.Sprint(e)
						}
					}()
					var err error
					frag, err = core.VerifMoveOutFiles(&p.StructMember, val, lookup, ps, outsPath)
					if err != nil {
						errs = append(errs, err.Error())
					}
				}()
			} else {
				frag = val
			}
			if i > 0 {
				realText.WriteByte(',')
			}
			kb, _ := json.Marshal(p.Id)
			realText.Write(kb)
			realText.WriteByte(':')
			realText.Write(frag)
		}
		realText.WriteByte('}')
		return strings.ReplaceAll(realText.String(), "[\n", "[")
	}
	realStr := runReal()
	after := c13Snapshot([]string{root}, cs, nil)
	tags := make([]string, 0, len(g.tags))
	inDomain := true
	for t := range g.tags {
		tags = append(tags, t)
		if c13OutOfDomain[t] {
			inDomain = false
		}
	}
	if g.tags["illegal-key"] {
		// a typed-map key that is not a legal file name: in the domain of the property exactly when
		// output verification lets it through (then the pipestance could complete with this record)
		if gateOK {
			r.hist("direct:illegal-key:accepted-by-verification")
		} else {
			r.hist("direct:illegal-key:refused-by-verification")
			inDomain = false
		}
	}
	_ = gateMsg
	sort.Strings(tags)
	for _, t := range tags {
		r.hist("direct:leaf:" + t)
	}
	for _, p := range params {
		if p.Ty.hasFile() {
			r.hist("direct:type:" + p.Ty.shape())
		}
	}
	cas := c13Case{Name: fmt.Sprintf("direct-%d", idx), Mro: src, Params: params, Outs: strings.ReplaceAll(outs.String(), root, "$ROOT"), Tags: tags, Root: root, InDomain: inDomain,
		Seed: seed, NearMiss: nearMiss, Overlap: overlap}
	if corpusName != "" {
		cas.Name = corpusName
	}
	r.count(src+"|"+cas.Outs, len(mon.pre) > 0)
	if len(errs) > 0 {
		r.hist("direct:go-returned-error")
	}
	if panicked != "" {
		r.violate(Violation{Kind: "property", Key: "C13:panic", What: "moveOutFiles panicked: " + panicked, Input: cas})
		return true
	}

	// ---- property monitor on the real result ----
	post, perr := c13ParseJSON([]byte(realStr))
	if perr != nil {
		if inDomain {
			r.violate(Violation{Kind: "property", Key: "C13:invalid-json", What: "rewritten record is not valid JSON: " + perr.Error(),
				Input: cas, Impl: strings.ReplaceAll(realStr, root, "$ROOT")})
		} else {
			r.hist("direct:invalid-json-out-of-domain")
		}
	} else if inDomain {
		if d := c13TreeDiff(extBefore, c13Snapshot([]string{g.ext}, cs, nil), []string{g.ext}); len(d) > 0 {
			for i := range d {
				d[i] = strings.ReplaceAll(d[i], root, "$ROOT") + " (model = after)"
			}
			r.violate(Violation{Kind: "property", Key: "C13:outside-touched", What: "something outside the pipestance was modified by post-processing",
				Input: cas, Impl: d})
		}
		for _, p := range params {
			mon.walk(p.Id, p, outs.get(p.Id), post.get(p.Id), outsPath)
		}
		{
			// model-free: every moved leaf recorded at a location of its own below outs/
			own := newC13Mon(ps)
			own.pre, own.kind, own.occ = mon.pre, mon.kind, mon.occ
			c13OwnLocationRecord("", params, own, outs, post, outsPath, map[string]string{})
			mon.fails = append(own.fails, mon.fails...)
		}
		if len(mon.fails) > 0 {
			for i := range mon.fails {
				mon.fails[i] = strings.ReplaceAll(mon.fails[i], root, "$ROOT")
			}
			r.violate(Violation{Kind: "property", Key: c13FailKey(params, outs, tags), What: "outputs not materialised faithfully: " + strings.Join(mon.fails, "; "),
				Input: cas, Impl: strings.ReplaceAll(realStr, root, "$ROOT"), Expect: "every non-null file leaf readable under outs/<derived name> with the stage's content; same shape; other values unchanged"})
		}
		if len(mon.alias) > 0 {
			r.hist("direct:alias-value-points-at-other-output")
			for i := range mon.alias {
				mon.alias[i] = strings.ReplaceAll(mon.alias[i], root, "$ROOT")
			}
			r.violate(Violation{Kind: "property", Key: "C13:alias-record-points-at-first", What: strings.Join(mon.alias, "; "),
				Input: cas, Impl: strings.ReplaceAll(realStr, root, "$ROOT")})
		}
	} else if g.tags["symlinked-parent-outside"] && !g.tags["overlap"] {
		// the leaf's path is lexically inside the pipestance but resolves into an external directory
		if d := c13TreeDiff(extBefore, c13Snapshot([]string{g.ext}, cs, nil), []string{g.ext}); len(d) > 0 {
			for i := range d {
				d[i] = strings.ReplaceAll(d[i], root, "$ROOT") + " (model = after)"
			}
			r.violate(Violation{Kind: "property", Key: "C13:symlinked-parent-resolves-outside",
				What:  "an output below a symlinked directory that points outside the pipestance: the external directory was modified",
				Input: cas, Impl: d, Expect: "nothing outside the pipestance is touched; sources outside are linked, not moved"})
		}
	} else if overlap && g.tags["overlap"] && perr == nil {
		for _, p := range params {
			mon.walk(p.Id, p, outs.get(p.Id), post.get(p.Id), outsPath)
		}
		if len(mon.fails) > 0 {
			for i := range mon.fails {
				mon.fails[i] = strings.ReplaceAll(mon.fails[i], root, "$ROOT")
			}
			r.violate(Violation{Kind: "property", Key: "C13:overlapping-outputs", What: "an output inside another (directory) output: " + strings.Join(mon.fails, "; "),
				Input: cas, Impl: strings.ReplaceAll(realStr, root, "$ROOT")})
		}
	}

	// ---- the model's reading of the gate (keysVerified) against the real one ----
	{
		mk := c.Drv.Ask("C13.keysok", c13EncParams(params), outs.encStr())
		r.hist(fmt.Sprintf("direct:gate:real=%v,model-keysVerified=%s", gateOK, mk))
		otherNearMiss := g.tags["illtyped"] || g.tags["struct-missing-key"] || g.tags["struct-extra-key"]
		// since the F25 repair moveOutDir REPORTS a key it skips: an error exactly when keysVerified is false
		keyErr := false
		for _, e := range errs {
			if strings.Contains(e, "cannot create out directory") {
				keyErr = true
			}
		}
		r.hist(fmt.Sprintf("direct:illegal-key-error:real=%v,model=%v", keyErr, mk == "false"))
		if keyErr != (mk == "false") && !otherNearMiss {
			r.violate(Violation{Kind: "correspondence", Key: "C13:illegal-key-error", Broken: "mapped_keys_checked / keysVerified = false <-> moveOutDir reports the skipped key",
				What:  fmt.Sprintf("moveOutFiles reported an illegal-key error=%v, the model's keysVerified=%s", keyErr, mk),
				Input: cas, Impl: errs})
		}
		if (gateOK && mk != "true") || (!gateOK && mk != "false" && !otherNearMiss) {
			r.violate(Violation{Kind: "correspondence", Key: "C13:verification-gate", Broken: "verified_outputs_keep_all_keys (hypothesis keysVerified = what TypedMapType.IsValidJson demands of keys)",
				What:  fmt.Sprintf("output verification (ValidateOutputs) accepted=%v, the model's keysVerified=%s: %s", gateOK, mk, c13Short(gateMsg)),
				Input: cas})
		}
	}

	// ---- the decidable hypotheses of the global theorems, evaluated by the driver on this input ----
	{
		covered := inDomain && !nearMiss && !overlap
		for t := range g.tags {
			if !c13CoveredTags[t] {
				covered = false
			}
		}
		wf, clean, ok := c13Hyp(c, ps, outsPath, params, outs, before.enc(c13Ancestors(root)))
		if !ok {
			r.violate(Violation{Kind: "correspondence", Key: "C13:driver", What: "hyp reply unreadable", Input: cas, Broken: "driver"})
		} else {
			r.hist(fmt.Sprintf("direct:hyp:wfParams:%v", wf))
			r.hist(fmt.Sprintf("direct:hyp:cleanB:%v", clean))
			if covered {
				r.hist(fmt.Sprintf("direct:hyp:covered-run:wf=%v,clean=%v", wf, clean))
			}
			if wf && clean && perr == nil && (g.tags["overlap"] || g.tags["symlinked-parent-outside"]) {
				// a leaf below a symlinked directory: the abstract file system has no entry there
				// ("missing"), the real code resolves the parent (not modelled; F20 / F23)
				r.hist("direct:record-half:skipped-symlinked-parent")
			} else if wf && clean && perr == nil {
				// the hypotheses of content_preserved(_record) hold on this input: the real record must
				// be the one the theorem promises (every file leaf -> its destination path / null)
				r.hist("direct:record-half:checked")
				xr := strings.Split(c.Drv.Ask("C13.run", "x", "g", hx(ps), hx(outsPath), c13EncParams(params), outs.encStr(), before.enc(c13Ancestors(root))), "\t")
				if len(xr) != 2 || unhx(xr[0]) != realStr {
					r.violate(Violation{Kind: "correspondence", Key: "C13:model-record-half", Broken: "content_preserved_record (pureOuts / expectVal)",
						What:  "wfParams and Clean hold, but the real rewritten record is not the input with every file leaf replaced by its destination path / null",
						Input: cas, Impl: strings.ReplaceAll(realStr, root, "$ROOT"), Model: strings.ReplaceAll(unhx(xr[0]), root, "$ROOT")})
				}
			}
			if !wf || (covered && !clean) {
				r.violate(Violation{Kind: "correspondence", Key: "C13:hypothesis-fails-on-covered-run", Broken: "dest_injective / content_preserved (hypotheses wfParams, Clean)",
					What:  fmt.Sprintf("a hypothesis of the global theorems fails on a run they are said to cover: wfParams=%v (signature accepted by the compiler) cleanB=%v (all leaves missing or regular files/directories inside the pipestance)", wf, clean),
					Input: cas})
			}
		}
	}

	// ---- the model ----
	if g.tags["overlap"] || g.tags["symlinked-parent-outside"] {
		return true // intermediate symlinked directories are not modelled
	}
	reply := c.Drv.Ask("C13.run", "o", "g", hx(ps), hx(outsPath), c13EncParams(params), outs.encStr(), before.enc(c13Ancestors(root)))
	parts := strings.Split(reply, "\t")
	if len(parts) != 2 {
		r.violate(Violation{Kind: "correspondence", Key: "C13:driver", What: "driver reply: " + c13Short(reply), Input: cas, Broken: "driver"})
		return true
	}
	modelStr := unhx(parts[0])
	if modelStr != realStr {
		same := false
		if pj, e1 := c13ParseJSON([]byte(realStr)); e1 == nil {
			if mj, e2 := c13ParseJSON([]byte(modelStr)); e2 == nil && pj.canon() == mj.canon() {
				same = true
			}
		}
		key := "C13:model-json"
		if same {
			key = "C13:model-json-bytes"
		}
		r.violate(Violation{Kind: "correspondence", Key: key, Broken: "correspondence moveOut (rewritten JSON) / result_wellformed writer model",
			What: "rewritten JSON differs between the real code and the model", Input: cas,
			Impl: strings.ReplaceAll(realStr, root, "$ROOT"), Model: strings.ReplaceAll(modelStr, root, "$ROOT")})
	}
	if d := c13TreeDiff(after, c13ParseTree(parts[1]), []string{root}); len(d) > 0 {
		if len(d) > 8 {
			d = d[:8]
		}
		for i := range d {
			d[i] = strings.ReplaceAll(d[i], root, "$ROOT")
		}
		r.violate(Violation{Kind: "correspondence", Key: "C13:model-tree", Broken: "correspondence moveOut (file tree)",
			What: "file tree after post-processing differs between the real code and the model", Input: cas, Impl: d})
	}
	// ---- interrupted post-process + restart: the same record once more on the resulting tree ----
	if idx%4 == 1 && inDomain {
		r.hist("direct:second-pass")
		realStr2 := runReal()
		after2 := c13Snapshot([]string{root}, cs, nil)
		if panicked != "" {
			r.violate(Violation{Kind: "property", Key: "C13:panic", What: "moveOutFiles panicked on the second pass: " + panicked, Input: cas})
			return true
		}
		if post2, err := c13ParseJSON([]byte(realStr2)); err != nil {
			r.violate(Violation{Kind: "property", Key: "C13:invalid-json", What: "second pass: rewritten record is not valid JSON: " + err.Error(),
				Input: cas, Impl: strings.ReplaceAll(realStr2, root, "$ROOT")})
		} else {
			mon2 := newC13Mon(ps)
			mon2.pre, mon2.kind, mon2.occ = mon.pre, mon.kind, mon.occ
			for _, p := range params {
				mon2.walk(p.Id, p, outs.get(p.Id), post2.get(p.Id), outsPath)
			}
			if len(mon2.alias) == 0 && len(mon.alias) > 0 {
				r.hist("direct:second-pass:aliased-value-now-own-path")
			}
			if len(mon2.fails) > 0 {
				for i := range mon2.fails {
					mon2.fails[i] = strings.ReplaceAll(mon2.fails[i], root, "$ROOT")
				}
				r.violate(Violation{Kind: "property", Key: "C13:materialise-after-restart",
					What:  "after post-processing the same record a second time (interrupted post-process + restart): " + strings.Join(mon2.fails, "; "),
					Input: cas, Impl: strings.ReplaceAll(realStr2, root, "$ROOT")})
			}
		}
		reply2 := c.Drv.Ask("C13.run", "o2", "g", hx(ps), hx(outsPath), c13EncParams(params), outs.encStr(), before.enc(c13Ancestors(root)))
		parts2 := strings.Split(reply2, "\t")
		if len(parts2) == 2 {
			if m2 := unhx(parts2[0]); m2 != realStr2 {
				r.violate(Violation{Kind: "correspondence", Key: "C13:model-json-restart", Broken: "correspondence moveOut, second pass (rewritten JSON)",
					What: "second pass over the same record: rewritten JSON differs between the real code and the model", Input: cas,
					Impl: strings.ReplaceAll(realStr2, root, "$ROOT"), Model: strings.ReplaceAll(m2, root, "$ROOT")})
			}
			if d := c13TreeDiff(after2, c13ParseTree(parts2[1]), []string{root}); len(d) > 0 {
				if len(d) > 8 {
					d = d[:8]
				}
				for i := range d {
					d[i] = strings.ReplaceAll(d[i], root, "$ROOT")
				}
				r.violate(Violation{Kind: "correspondence", Key: "C13:model-tree-restart", Broken: "correspondence moveOut, second pass (file tree)",
					What: "second pass over the same record: file tree differs between the real code and the model", Input: cas, Impl: d})
			}
		}
	}
	if idx%400 == 0 {
		r.sample(map[string]interface{}{"direct": cas.Outs, "types": c13EncParams(params), "result": strings.ReplaceAll(realStr, root, "$ROOT")})
	}
	return true
}

// leaf kinds for which the manifest says the GLOBAL content_preserved applies
var c13CoveredTags = map[string]bool{"file": true, "dir": true, "missing": true, "null": true, "empty-string": true,
	"empty-array": true, "empty-map": true, "multidim": true}

// c13Hyp: wfParams and cleanB as evaluated by the driver.
func c13Hyp(c *Ctx, ps, outsPath string, params []c13Member, outs *c13J, fsEnc string) (wf, clean, ok bool) {
	reply := c.Drv.Ask("C13.hyp", hx(ps), hx(outsPath), c13EncParams(params), outs.encStr(), fsEnc)
	var w, cl string
	var n int
	if _, err := fmt.Sscanf(reply, "wf=%s clean=%s leaves=%d", &w, &cl, &n); err != nil {
		return false, false, false
	}
	return w == "true", cl == "true", true
}

// c13FailKey classifies a property failure for known-findings matching.
func c13FailKey(params []c13Member, outs *c13J, tags []string) string {
	multidim := false
	for i, p := range params {
		c13MultiDimLeaf(p.Ty, outs.Vals[i], &multidim)
	}
	if multidim {
		return "C13:multidim-file-array"
	}
	for _, t := range tags {
		if t == "crash-after-rename" {
			return "C13:crash-between-rename-and-symlink"
		}
	}
	return "C13:materialise"
}

func c13MultiDimLeaf(t *c13Ty, v *c13J, found *bool) {
	if v == nil || v.K == 'n' || !t.hasFile() {
		return
	}
	switch t.Kind {
	case "a":
		if t.Extra > 0 && v.K == 'A' && len(v.Arr) > 0 {
			*found = true
		}
		if v.K == 'A' {
			for _, x := range v.Arr {
				c13MultiDimLeaf(t.Elem, x, found)
			}
		}
	case "m":
		if v.K == 'O' {
			for _, x := range v.Vals {
				c13MultiDimLeaf(t.Elem, x, found)
			}
		}
	case "t":
		if v.K == 'O' {
			for _, m := range t.Ms {
				c13MultiDimLeaf(m.Ty, v.get(m.Id), found)
			}
		}
	}
}

// c13ModelDup: the model's decidable mirror of StructType.compile's duplicate
// output-name check (Martian.PostProcess.noDupNames, hypothesis of
// dest_injective_partial) on the stage's out params and on every struct.
func c13ModelDup(c *Ctx, sig *c13Sig) bool {
	lists := [][]c13Member{sig.Params}
	for _, s := range sig.Structs {
		lists = append(lists, s.Ms)
	}
	dup := false
	for _, ms := range lists {
		switch c.Drv.Ask("C13.nodup", c13EncParams(ms)) {
		case "true":
		case "false":
			dup = true
		default:
			fatal("C13.nodup: bad driver reply")
		}
	}
	if dup != c13HasDupNames(sig) {
		c.Res.note("model noDupNames and the generator's own predicate disagree on %s", sig.mro("", false))
	}
	return dup
}

// generator-side duplicate-name predicate (cross-check of the model's)
func c13HasDupNames(sig *c13Sig) bool {
	check := func(ms []c13Member) bool {
		seen := map[string]bool{}
		for _, m := range ms {
			if !m.Ty.hasFile() {
				continue
			}
			n := m.expectName()
			if seen[n] {
				return true
			}
			seen[n] = true
		}
		return false
	}
	if check(sig.Params) {
		return true
	}
	for _, s := range sig.Structs {
		if check(s.Ms) {
			return true
		}
	}
	return false
}

func runC13(c *Ctx) {
	r := c.Res
	r.Rule = "direct: a signature+value case counts when it has at least one file leaf naming a path; tier A: a completed pipestance whose top-level record has at least one file leaf"
	taInit()
	if c.Drv == nil {
		fatal("C13 needs the driver")
	}
	defer func() {
		if c13ScratchDir != "" && c13ScratchDir != c.Scratch {
			os.RemoveAll(c13ScratchDir)
		}
	}()
	r.note("model dimAware (regenerated from moveOutArrayDir) = %s", c.Drv.Ask("C13.dimaware"))

	if os.Getenv("C13_MAPPED_CASE") != "" {
		c13MappedStream(c, r)
		return
	}
	// corpus first
	c13Corpus(c, r)

	// writer round trip on the model side (parse ∘ emit) for generated trees
	c13WriterRoundTrip(c, r)

	// GetOutFilename on run-time keys vs outFilename; injectivity per map
	c13NamesStream(c, r)

	// the forced-dimension modes of the driver on the input of multidim_not_moved_before_fix
	c13DimWitness(c, r)

	// the record writer (writeAtomic / os.WriteFile) under RLIMIT_FSIZE vs writeCut
	c13WriterStream(c, r)

	t0 := time.Now()
	nDirect := 1200
	if c.Thorough {
		nDirect = 30000
	}
	for i := 0; i < nDirect; i++ {
		nearMiss := i%5 == 4
		overlap := i%50 == 7 || i%50 == 31
		c13Direct(c, r, i, c.Rng.Int63(), nearMiss, overlap, "")
	}

	r.note("direct stream: %d cases in %.1fs", nDirect, time.Since(t0).Seconds())
	t0 = time.Now()
	c13MappedStream(c, r)
	r.note("mapped-keys stream (real Fork.postProcess): %.1fs", time.Since(t0).Seconds())
	t0 = time.Now()
	c13TierA(c, r)
	r.note("tier A stream: %.1fs", time.Since(t0).Seconds())
}

// c13WriterRoundTrip: the model's own writer/parser pair on generated result
// trees (the theorem result_wellformed is about every tree; this exercises the
// driver path and nested empties).
func c13WriterRoundTrip(c *Ctx, r *Result) {
	n := 300
	var gen func(d int) *c13J
	gen = func(d int) *c13J {
		switch k := c.Rng.Intn(8); {
		case k == 0:
			return c13Null
		case k == 1:
			return c13Lit("1")
		case k == 2:
			return c13Str("s,[]{}:\"")
		case k < 5 && d < 4:
			x := &c13J{K: 'A'}
			for i := c.Rng.Intn(4); i > 0; i-- {
				x.Arr = append(x.Arr, gen(d+1))
			}
			return x
		case d < 4:
			x := &c13J{K: 'O'}
			for i := c.Rng.Intn(4); i > 0; i-- {
				x.Keys = append(x.Keys, fmt.Sprint("k", i))
				x.Vals = append(x.Vals, gen(d+1))
			}
			return x
		}
		return c13Str("leaf")
	}
	var reqs [][]string
	var trees []*c13J
	for i := 0; i < n; i++ {
		t := gen(0)
		trees = append(trees, t)
		reqs = append(reqs, []string{"C13.parse", t.encStr()})
	}
	for i, rep := range c.Drv.AskBatch(reqs) {
		want := "some " + hx(trees[i].String())
		if rep != want {
			r.violate(Violation{Kind: "correspondence", Key: "C13:writer-roundtrip", Broken: "result_wellformed",
				What: "parse (emit t) is not t in the model driver, or its rendering differs from encoding/json's", Input: trees[i].String(), Model: rep})
		}
		r.hist("writer-roundtrip")
	}
}

// c13Corpus: corpus/C13/direct_seeds.txt (lines "<seed> <nearMiss> <overlap>",
// replayed through the direct stream) and corpus/C13/*.mro (whole programs
// through tier A; the mapping mode is read off the top-level call).
func c13Corpus(c *Ctx, r *Result) {
	if c.Corpus == "" {
		return
	}
	if b, err := os.ReadFile(filepath.Join(c.Corpus, "direct_seeds.txt")); err == nil {
		for i, line := range strings.Split(string(b), "\n") {
			line = strings.TrimSpace(line)
			if line == "" || strings.HasPrefix(line, "#") {
				continue
			}
			var seed int64
			var nm, ov bool
			if n, _ := fmt.Sscan(line, &seed, &nm, &ov); n < 1 {
				continue
			}
			r.hist("corpus:direct")
			c13Direct(c, r, 1000000+i, seed, nm, ov, fmt.Sprintf("corpus-direct-%d", seed))
		}
	}
	files, _ := filepath.Glob(filepath.Join(c.Corpus, "*.mro"))
	sort.Strings(files)
	var specs []*c13TASpec
	for _, f := range files {
		b, err := os.ReadFile(f)
		if err != nil {
			continue
		}
		src := string(b)
		spec := &c13TASpec{Name: "corpus-" + filepath.Base(f), Src: src, Seed: 1}
		if i := strings.LastIndex(src, "map call "); i >= 0 && !strings.Contains(src[i:], "}\n\n") {
			if strings.Contains(src[i:], "split [") {
				spec.Mapped = "array"
			} else if strings.Contains(src[i:], "split {") {
				spec.Mapped = "map"
			}
		}
		if strings.Contains(filepath.Base(f), "hook") {
			spec.Hook = "mix"
		}
		r.hist("corpus:tierA")
		specs = append(specs, spec)
	}
	c13TACompare(c, r, specs, c13RunChildren(c, specs, 4), true)
}

var c13ScratchDir string

// c13Scratch: a fast scratch directory (tmpfs when available) below which all
// case directories live; removed with c.Scratch's lifetime by runC13.
func c13Scratch(c *Ctx) string {
	if c13ScratchDir != "" {
		return c13ScratchDir
	}
	c13ScratchDir = c.Scratch
	if st, err := os.Stat("/dev/shm"); err == nil && st.IsDir() {
		if d, err := os.MkdirTemp("/dev/shm", "verif-C13-"); err == nil {
			c13ScratchDir = d
		}
	}
	return c13ScratchDir
}

type c13SrcDest struct{ src, dest string }

// c13OrderedLeaves: (source, derived destination) of every path-naming file leaf, in the order
// in which the real code visits them (parameters in declaration order, struct members and map
// keys sorted, array elements in order).
func c13OrderedLeaves(mapped string, params []c13Member, preJ *c13J, psDir string) []c13SrcDest {
	var out []c13SrcDest
	var walk func(mem c13Member, v *c13J, dir string)
	walk = func(mem c13Member, v *c13J, dir string) {
		if v == nil || v.K == 'n' || !mem.Ty.hasFile() {
			return
		}
		dest := filepath.Join(dir, mem.expectName())
		switch mem.Ty.Kind {
		case "f":
			if v.K == 'q' && v.S != "" {
				out = append(out, c13SrcDest{v.S, dest})
			}
		case "a":
			if v.K != 'A' {
				return
			}
			et := mem.Ty.Elem
			if mem.Ty.Extra > 0 {
				et = &c13Ty{Kind: "a", Elem: mem.Ty.Elem, Extra: mem.Ty.Extra - 1}
			}
			for i, x := range v.Arr {
				walk(c13Member{Id: c13Pad(i, len(v.Arr)), Ty: et}, x, dest)
			}
		case "m":
			if v.K != 'O' {
				return
			}
			ks := append([]string{}, v.Keys...)
			sort.Strings(ks)
			for _, k := range ks {
				walk(c13Member{Id: k, Ty: mem.Ty.Elem}, v.get(k), dest)
			}
		case "t":
			if v.K != 'O' {
				return
			}
			ms := append([]c13Member{}, mem.Ty.Ms...)
			sort.Slice(ms, func(i, j int) bool { return ms[i].Id < ms[j].Id })
			for _, mm := range ms {
				walk(mm, v.get(mm.Id), dest)
			}
		}
	}
	outsRoot := filepath.Join(psDir, "outs")
	c13ForEachRecord(mapped, preJ, func(k string, rec *c13J) {
		dir := outsRoot
		if mapped != "" {
			dir = filepath.Join(outsRoot, k)
		}
		for _, p := range params {
			walk(p, rec.get(p.Id), dir)
		}
	})
	return out
}

// c13SimulateMove performs the first `steps` file-system steps of moveOutFile's move of one
// regular file or directory: 1 = MkdirAll(dir of dest), 2 = + Rename(src, dest), 3 = + Symlink(rel, src).
func c13SimulateMove(sd c13SrcDest, steps int) bool {
	if steps >= 1 {
		if os.MkdirAll(filepath.Dir(sd.dest), 0o775) != nil {
			return false
		}
	}
	if steps >= 2 {
		if os.Rename(sd.src, sd.dest) != nil {
			return false
		}
	}
	if steps >= 3 {
		rel, err := filepath.Rel(filepath.Dir(sd.src), sd.dest)
		if err != nil || os.Symlink(rel, sd.src) != nil {
			return false
		}
	}
	return true
}

// c13DimWitness: Props.C13.multidim_not_moved_before_fix through the driver (one parameter,
// dimAware forced off / on): `file[][] r = [["/ps/f"]]` is returned unchanged by the code before
// the F5 repair and moved to outs/r/0/0 by the repaired one.
func c13DimWitness(c *Ctx, r *Result) {
	params := []c13Member{{Id: "r", Ty: &c13Ty{Kind: "a", Extra: 1, Elem: &c13Ty{Kind: "f", Mro: "file"}}}}
	v := &c13J{K: 'A', Arr: []*c13J{{K: 'A', Arr: []*c13J{c13Str("/ps/f")}}}}
	fs := c13Tree{"/ps": "D", "/ps/f": "F7"}
	for _, da := range []string{"f", "t"} {
		reply := c.Drv.Ask("C13.run", "p", da, hx("/ps"), hx("/ps/outs"), c13EncParams(params), v.encStr(), fs.enc(nil))
		parts := strings.Split(reply, "\t")
		want := map[string]string{"f": `[["/ps/f"]]`, "t": `[["/ps/outs/r/0/0"]]`}[da]
		if len(parts) != 2 || unhx(parts[0]) != want {
			r.violate(Violation{Kind: "correspondence", Key: "C13:dim-witness", Broken: "multidim_not_moved_before_fix",
				What: "driver mode p/" + da + " on the witness of multidim_not_moved_before_fix", Input: v.String(), Model: c13Short(reply), Expect: want})
		}
		r.hist("dim-witness:" + da)
	}
}
