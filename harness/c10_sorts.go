package main

// C10: provocations for the sites whose sort was, until this round, only guarded by the
// site-list obligation: the MapExp branch of encodeMapSourceJson, findMergeForkNode /
// findMergeForkExpNode, SplitExp.checkNestedLengths / checkNestedSplitLengths,
// unifyMapSources (sortedSplitList), MapExp.FindTypedRefs, TopNode.getParts.
// Each input has >= 12 entries whose contributions differ; the text is evaluated 40x
// (thorough 200x) by c10RunProvocations and compared HERE, once, with the text the sorted
// order gives (the code's contract: keys / parameter names ascending, splits by source line).

import (
	"fmt"
	"path/filepath"
	"regexp"
	"sort"
	"strings"

	"github.com/martian-lang/martian/martian/core"
	"github.com/martian-lang/martian/martian/syntax"
)

func c10SortKeys(n int) []string {
	ks := make([]string, n)
	for i := range ks {
		ks[i] = fmt.Sprintf("k%02d", (i*7)%n)
	}
	return ks
}

func c10IntList(n int) string {
	xs := make([]string, n)
	for j := range xs {
		xs[j] = fmt.Sprint(j)
	}
	return "[" + strings.Join(xs, ", ") + "]"
}

// the array length the entry of sorted rank r gets: 3 (= the other split argument) for the
// two smallest keys, then lengths which all differ from 3 and from each other
func c10NestedLen(rank int) int {
	if rank < 2 {
		return 3
	}
	if rank < 4 {
		return rank + 2 // 4, 5
	}
	return rank + 3
}

func c10CompileErr(src string) string {
	_, _, ast, err := syntax.ParseSourceBytes([]byte(src), "sorts.mro", nil, false)
	if err != nil {
		return "ERR:" + err.Error()
	}
	cg, err := ast.MakePipelineCallGraph("ID.ps.", ast.Call)
	if err != nil {
		return "CGERR:" + err.Error()
	}
	return "OK split=" + fmt.Sprint(cg.Split() != nil)
}

func c10SortProvocations(c *Ctx, out map[string]func() string) {
	r := c.Res
	expect := map[string]string{}      // exact text
	expectRe := map[string][2]string{} // regexp whose first group is extracted from every match, and the joined sequence expected
	add := func(name string, f func() string) { out[name] = f }

	// ---- syntax, hand-built expressions (hook VerifC10SortProvocations) ----
	if run, exp, err := syntax.VerifC10SortProvocations(); err != nil {
		r.note("sort provocations of martian/syntax unavailable: %v", err)
	} else {
		for k, f := range run {
			add(k, f)
			expect[k] = exp[k]
		}
	}
	const n = 12
	keys := c10SortKeys(n)
	sorted := append([]string(nil), keys...)
	sort.Strings(sorted)
	rank := map[string]int{}
	for i, k := range sorted {
		rank[k] = i
	}
	// ---- SplitExp.checkNestedLengths: the length of a nested split value depends on the key of
	// the enclosing map call; the error names the length of the first key (ascending) that differs
	{
		var ents []string
		for _, k := range keys {
			ents = append(ents, fmt.Sprintf("        %q: %s,", k, c10IntList(c10NestedLen(rank[k]))))
		}
		src := "stage ST(\n    in  int x,\n    in  int y,\n    out int r,\n    src comp \"mock\",\n)\n\npipeline INNER(\n    in  int[] xs,\n    out int[] rs,\n)\n{\n" +
			"    map call ST(\n        x = split self.xs,\n        y = split [1, 2, 3],\n    )\n\n    return (\n        rs = ST.r,\n    )\n}\n\n" +
			"map call INNER(\n    xs = split {\n" + strings.Join(ents, "\n") + "\n    },\n)\n"
		name := "SplitExp.checkNestedLengths(nested split of a map of arrays)"
		add(name, func() string { return c10CompileErr(src) })
		expectRe[name] = [2]string{`array length mismatch (\d+) vs 3`, fmt.Sprint(c10NestedLen(2))}
	}
	// ---- checkNestedSplitLengths: 12 split parameters each of which fails, with its own lengths
	{
		var ins, binds, pins, pbinds, want []string
		for i := 0; i < n; i++ {
			p := fmt.Sprintf("p%02d", (i*5)%n)
			ins = append(ins, "    in  int "+p+",")
			binds = append(binds, "        "+p+" = split self."+p+",")
			pins = append(pins, "    in  int[] "+p+",")
			l := 4 + (i*5)%n
			pbinds = append(pbinds, fmt.Sprintf("    %s = split {\"a\": %s, \"b\": %s},", p, c10IntList(l), c10IntList(l+1)))
		}
		for i := 0; i < n; i++ {
			want = append(want, fmt.Sprintf("p%02d", i))
		}
		src := "stage ST(\n" + strings.Join(ins, "\n") + "\n    in  int y,\n    out int r,\n    src comp \"mock\",\n)\n\npipeline INNER(\n" +
			strings.Join(pins, "\n") + "\n    out int[] rs,\n)\n{\n    map call ST(\n" + strings.Join(binds, "\n") +
			"\n        y = split [1, 2, 3],\n    )\n\n    return (\n        rs = ST.r,\n    )\n}\n\nmap call INNER(\n" + strings.Join(pbinds, "\n") + "\n)\n"
		name := "checkNestedSplitLengths(12 failing split parameters)"
		add(name, func() string { return c10CompileErr(src) })
		expectRe[name] = [2]string{`parameter (p\d\d):`, strings.Join(want, " ")}
	}
	// ---- split arguments of one call, bound to arrays of different static lengths by the caller:
	// the compiled program reports the mismatches while it resolves the input bindings (in source
	// order, against the first split), BEFORE unifyMapSources sees them - unifyMapSources itself is
	// provoked by the direct calls of the syntax hook (mismatching / consistent splits on given lines)
	{
		var ins, binds, pins, pbinds, want []string
		for i := 0; i < n; i++ {
			p := fmt.Sprintf("p%02d", (i*5)%n)
			ins = append(ins, "    in  int "+p+",")
			pins = append(pins, "    in  int[] "+p+",")
			pbinds = append(pbinds, fmt.Sprintf("    %s = %s,", p, c10IntList(2+(i*5)%n)))
		}
		// the splits appear in the source in the order q = 7, 2, 9, 4, … (not the parameter order)
		for i := 0; i < n; i++ {
			q := (7 + i*7) % n
			binds = append(binds, fmt.Sprintf("        p%02d = split self.p%02d,", q, q))
			if i > 0 {
				want = append(want, fmt.Sprintf("%d vs %d", 2+q, 2+7))
			}
		}
		src := "stage ST(\n" + strings.Join(ins, "\n") + "\n    out int r,\n    src comp \"mock\",\n)\n\npipeline INNER(\n" +
			strings.Join(pins, "\n") + "\n    out int[] rs,\n)\n{\n    map call ST(\n" + strings.Join(binds, "\n") +
			"\n    )\n\n    return (\n        rs = ST.r,\n    )\n}\n\ncall INNER(\n" + strings.Join(pbinds, "\n") + "\n)\n"
		name := "Node inputs(12 split arguments of different static lengths: binding resolution before unifyMapSources)"
		add(name, func() string { return c10CompileErr(src) })
		expectRe[name] = [2]string{`array length mismatch (\d+ vs \d+)`, strings.Join(want, " ")}
	}
	// ---- TopNode.getParts ----
	stages := "stage S(\n    in  int  x,\n    out int  r,\n    out bool flag,\n    src comp \"mock\",\n)\n\nstage P(\n    in  int  e,\n    out int  r,\n    src comp \"mock\",\n)\n\n"
	var ents []string
	for i, k := range keys {
		ents = append(ents, fmt.Sprintf("            %q: %d,", k, i))
	}
	lit := "{\n" + strings.Join(ents, "\n") + "\n        }"
	var wantKeys []string
	for _, k := range sorted {
		wantKeys = append(wantKeys, "fork_"+k)
	}
	// (a) the branch which enumerates the keys of a statically known map source: a hand-built
	// merge over the call of a node without a table of parts (VerifWorld); every key fails
	{
		src := stages + "pipeline TOP(\n    out map<int> rs,\n)\n{\n    map call S(\n        x = split " + lit + ",\n    )\n\n    return (\n        rs = S.r,\n    )\n}\n\ncall TOP()\n"
		w, err := core.VerifNewWorld(src, "ps", filepath.Join(c.Scratch, "c10sorts-world"))
		if err == nil {
			err = w.VerifC10WriteOuts("ID.ps.TOP.S", []byte(`{"r":"bad","flag":true}`))
		}
		if err != nil {
			r.note("TopNode.getParts provocation unavailable: %v", err)
		} else {
			name := "TopNode.getParts(static map source, no table of parts)"
			add(name, func() string {
				res, e := w.VerifC10ResolveMergeOver("ID.ps.TOP.S", "r")
				return res + " / " + e
			})
			expectRe[name] = [2]string{`key (fork_k\d\d):`, strings.Join(wantKeys, " ")}
		}
	}
	// (b) a real pipestance: a call mapped over the merged output of a mapped call; the merge is
	// resolved from _outs files of which several are ill-typed, each with its own text
	if rt, err := core.VerifNewLocalRuntime(); err == nil {
		src := stages + "pipeline TOP(\n    out map<int> rs,\n)\n{\n    map call S(\n        x = split " + lit + ",\n    )\n\n" +
			"    map call P(\n        e = split S.r,\n    )\n\n    return (\n        rs = P.r,\n    )\n}\n\ncall TOP()\n"
		ps, err := rt.InvokePipeline(src, filepath.Join(c.Scratch, "sorts-merge.mro"), "ps", filepath.Join(c.Scratch, "c10sorts-ps"), nil, "verif", nil, nil)
		if err != nil {
			r.note("TopNode.resolveMerge provocation unavailable: %v", err)
		} else {
			var wantBad []string
			for i, k := range sorted {
				if i%2 == 1 {
					wantBad = append(wantBad, k)
				}
			}
			for _, node := range []string{"ID.ps.TOP.S", "ID.ps.TOP.P"} {
				if _, err := ps.VerifC10WriteForkOuts(node, func(id string) []byte {
					k := strings.TrimPrefix(id, "fork_")
					if rank[k]%2 == 1 && node == "ID.ps.TOP.P" {
						return []byte(fmt.Sprintf(`{"r": "bad %s"}`, k))
					}
					return []byte(`{"r": 1, "flag": true}`)
				}); err != nil {
					r.note("TopNode.resolveMerge provocation: %v", err)
				}
			}
			name := "TopNode.resolveMerge(run-time merge, 6 ill-typed fork outputs)"
			add(name, func() string {
				res, e := ps.VerifC10ResolveOutputs("ID.ps.TOP")
				return res + " / " + e
			})
			expectRe[name] = [2]string{`key (k\d\d):`, strings.Join(wantBad, " ")}
		}
	}

	// ---- against the expected (sorted) order, once ----
	names := make([]string, 0, len(expect)+len(expectRe))
	for k := range expect {
		names = append(names, k)
	}
	for k := range expectRe {
		names = append(names, k)
	}
	sort.Strings(names)
	for _, name := range names {
		f := out[name]
		if f == nil {
			continue
		}
		got := ""
		func() {
			defer func() {
				if rec := recover(); rec != nil {
					got = fmt.Sprintf("PANIC: %v", rec)
				}
			}()
			got = f()
		}()
		r.Evals++
		want, observed := expect[name], got
		if re, ok := expectRe[name]; ok {
			want = re[1]
			var seq []string
			for _, m := range regexp.MustCompile(re[0]).FindAllStringSubmatch(got, -1) {
				seq = append(seq, m[1])
			}
			observed = strings.Join(seq, " ")
		}
		r.hist("sorted-order-expectations")
		if observed != want {
			r.violate(Violation{Kind: "property", Key: "C10:not-in-sorted-order:" + name,
				What:  "the output of " + name + " is not the one the ascending order of the keys (parameter names / source lines) gives",
				Input: map[string]interface{}{"site": name, "output": head(got, 2500)},
				Impl:  observed, Expect: want,
				Broken: "map-range site " + name + ": keys collected from a Go map are used without (or with a different) sort"})
		}
	}
}
