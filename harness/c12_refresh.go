package main

// C12, part 6: the availability-update path LocalJobManager.refreshResources.
//
// The op-sequence streams drive the semaphore API directly; the ARGUMENTS
// refreshResources computes from what the OS reports are outside them.  Here
// the real refreshResources runs in an isolated WORKER process (this binary
// re-executed as pseudo-property "C12W": no Lean driver, no other children, so
// the process tree below the worker is exactly the jobs it started).  The
// worker builds a production-shaped LocalJobManager (real setupSemaphores incl.
// the rlimit-derived process semaphore), runs a PRNG scenario of
// {refreshResources, enqueue a real /bin/sh job held on a FIFO, let a job
// finish} and prints, per step, the four semaphores before/after and — for a
// refresh — the observations read with the same functions immediately before
// and after the call.
//
// The parent asks the Lean model (Martian.SemaphoreRefresh: caller arithmetic
// composed with `step`) what the refresh must do to each semaphore, once per
// observation.  Where both answers agree the real state must equal it exactly;
// where the environment moved between the two reads (free memory, load, the
// user's process count: other agents' processes — never the worker's own tree)
// the real size must lie between the two answers, widened by their distance.
// Monitor, independent of the model: whenever the OS offers at least the limit
// and the usage below the worker is within the reservations, no semaphore has a
// waiter whose request fits maxSize - Reserved after a refresh, and a job that
// fits is not parked right after such a refresh.

import (
	"bufio"
	"bytes"
	"encoding/json"
	"fmt"
	"math"
	"os"
	"os/exec"
	"path/filepath"
	"runtime"
	"strconv"
	"strings"
	"syscall"
	"time"

	"github.com/martian-lang/martian/martian/core"
	"github.com/martian-lang/martian/martian/util"
)

func init() { register("C12W", c12RefreshWorker) }

type c12rStep struct {
	Kind   string `json:"kind"`           // refresh | enqueue | finish | shortage
	Sem    int    `json:"sem,omitempty"`  // shortage: 1 memory, 2 vmem, 3 processes
	Free   int64  `json:"free,omitempty"` // shortage: what the OS is said to have free
	Job    int    `json:"job,omitempty"`
	T64    int64  `json:"threads_64ths,omitempty"`
	MemMb  int64  `json:"mem_mb,omitempty"`
	VmemMb int64  `json:"vmem_mb,omitempty"`
	What   string `json:"what,omitempty"`
}

type c12rSpec struct {
	MaxCores  int   `json:"localcores"`
	MaxMemGB  int   `json:"localmem"`
	MaxVmemMB int64 `json:"localvmem_mb"`
	EV        int   `json:"extra_vmem_gb"`
	LimitLoad bool  `json:"limit_loadavg"`
	// run the worker as uid/gid 65534 (whose only processes are the worker's own) with
	// RLIMIT_NPROC soft = hard = Nproc: a small `ulimit -u` (0 = leave the limit alone)
	Nproc int `json:"ulimit_u,omitempty"`
	// build the job manager through the real NewLocalJobManager (setMaxCores / setMaxMem) from
	// user flags instead of setting the limits (localcores/localmem/localvmem_mb then unused)
	Flags *c12rFlags `json:"flags,omitempty"`
	Steps []c12rStep `json:"steps"`
	Shape string     `json:"shape,omitempty"`
	Dir   string     `json:"dir"`
}

type c12rFlags struct {
	Cores   int  `json:"localcores"`
	MemGB   int  `json:"localmem"`
	VmemGB  int  `json:"localvmem"`
	Cluster bool `json:"cluster_mode"`
	MPJ     int  `json:"memgb_per_job"`
	ASGB    int  `json:"ulimit_v_gb,omitempty"` // soft RLIMIT_AS set in the worker (0 = leave)
}

// what setMaxCores / setMaxMem look at, read with the same functions
type c12rMachine struct {
	NumCPU     int   `json:"num_cpu"`
	Total      int64 `json:"total"`
	ActualFree int64 `json:"actual_free"`
	CgMem      int64 `json:"cgroup_limit"`
	CgUse      int64 `json:"cgroup_usage"`
	VmemLimit  int64 `json:"check_max_vmem"`
}

func c12rObserveMachine() c12rMachine {
	var mi core.MemInfo
	mi.Get()
	cg, _, use := util.GetCgroupMemoryLimit()
	return c12rMachine{runtime.NumCPU(), mi.Total, mi.ActualFree, cg, use, int64(core.CheckMaxVmem(1 << 30))}
}

type c12rCfgOut struct {
	Before, After c12rMachine
	Sems          [4]c12rSem
	Err           string
}

type c12rSem struct {
	Present bool    `json:"present"`
	Max     int64   `json:"max"`
	Cur     int64   `json:"cur"`
	Res     int64   `json:"reserved"`
	Waiting []int64 `json:"waiting"`
}

type c12rOut struct {
	Step      int                   `json:"step"`
	Kind      string                `json:"kind"`
	Job       int                   `json:"job,omitempty"`
	Outcome   string                `json:"outcome,omitempty"` // enqueue: started | parked | refused | unsettled; finish: ended | unsettled
	Amounts   [4]int64              `json:"amounts,omitempty"` // enqueue: what Enqueue acquires (cores, mem, vmem, procs)
	ObsBefore *core.VerifRefreshObs `json:"obs_before,omitempty"`
	ObsAfter  *core.VerifRefreshObs `json:"obs_after,omitempty"`
	Before    [4]c12rSem            `json:"before"`
	After     [4]c12rSem            `json:"after"`
	Err       string                `json:"err,omitempty"`
}

var c12rSemNames = [4]string{"cores", "mem", "vmem", "procs"}

// ---------------------------------------------------------------- worker

func c12rSnapshot(sems [4]*core.ResourceSemaphore) (out [4]c12rSem) {
	for k, s := range sems {
		if s != nil {
			out[k] = c12rSem{true, s.VerifMaxSize(), s.CurrentSize(), s.Reserved(), s.VerifWaiting()}
		}
	}
	return
}

func c12rSame(a, b [4]c12rSem) bool {
	x, _ := json.Marshal(a)
	y, _ := json.Marshal(b)
	return bytes.Equal(x, y)
}

// c12rEnqueueGoroutines: goroutines running LocalJobManager.Enqueue's closure, and how
// many of them are blocked in ResourceSemaphore.Acquire.
func c12rEnqueueGoroutines() (total, parked int) {
	buf := make([]byte, 1<<16)
	for {
		n := runtime.Stack(buf, true)
		if n < len(buf) {
			buf = buf[:n]
			break
		}
		buf = make([]byte, 2*len(buf))
	}
	for _, g := range bytes.Split(buf, []byte("\n\n")) {
		if !bytes.Contains(g, []byte("(*LocalJobManager).Enqueue.func")) {
			continue
		}
		total++
		nl := bytes.IndexByte(g, '\n')
		if nl < 0 {
			continue
		}
		hdr := g[:nl]
		if i := bytes.IndexByte(hdr, '['); i >= 0 && bytes.HasPrefix(hdr[i+1:], []byte("chan receive")) &&
			bytes.Contains(g, []byte("(*ResourceSemaphore).Acquire")) {
			parked++
		}
	}
	return
}

// c12rChildren: child processes of this process (zombies included), from /proc/self/task/*/children.
func c12rChildren() int {
	n := 0
	tasks, _ := filepath.Glob("/proc/self/task/*/children")
	for _, t := range tasks {
		b, _ := os.ReadFile(t)
		n += len(strings.Fields(string(b)))
	}
	return n
}

func c12RefreshWorker(c *Ctx) {
	util.ENABLE_LOGGING = false
	b, err := os.ReadFile(os.Getenv("C12R_SPEC"))
	if err != nil {
		fatal("%v", err)
	}
	var spec c12rSpec
	if err := json.Unmarshal(b, &spec); err != nil {
		fatal("%v", err)
	}
	emit := func(o c12rOut) {
		j, _ := json.Marshal(o)
		fmt.Printf("C12R %s\n", j)
	}
	if spec.Nproc > 0 {
		os.Chmod(spec.Dir, 0o777)
		lim := syscall.Rlimit{Cur: uint64(spec.Nproc), Max: uint64(spec.Nproc)}
		const rlimitNproc = 6
		if err := syscall.Setrlimit(rlimitNproc, &lim); err != nil {
			fatal("setrlimit: %v", err)
		}
		if err := syscall.Setgid(65534); err != nil {
			fatal("setgid: %v", err)
		}
		if err := syscall.Setuid(65534); err != nil {
			fatal("setuid: %v", err)
		}
	}
	var ljm *core.LocalJobManager
	if fl := spec.Flags; fl != nil {
		if fl.ASGB > 0 {
			const rlimitAS = 9
			var lim syscall.Rlimit
			if syscall.Getrlimit(rlimitAS, &lim) == nil {
				lim.Cur = uint64(fl.ASGB) << 30
				syscall.Setrlimit(rlimitAS, &lim)
			}
		}
		var co c12rCfgOut
		co.Before = c12rObserveMachine()
		var err error
		ljm, err = core.NewLocalJobManager(fl.Cores, fl.MemGB, fl.VmemGB, false, spec.LimitLoad, fl.Cluster,
			&core.JobManagerJson{JobSettings: &core.JobManagerSettings{ThreadsPerJob: 1, MemGBPerJob: fl.MPJ, ExtraVmemGB: spec.EV}})
		co.After = c12rObserveMachine()
		if err != nil {
			co.Err = err.Error()
		} else {
			co.Sems = c12rSnapshot(ljm.VerifSemaphores())
		}
		j, _ := json.Marshal(co)
		fmt.Printf("C12RCFG %s\n", j)
		if err != nil {
			os.Stdout.Sync()
			os.Exit(0)
		}
	} else {
		ljm = core.VerifNewProdLocalJobManager(spec.MaxCores, spec.MaxMemGB, spec.MaxVmemMB,
			&core.JobManagerSettings{ThreadsPerJob: 1, MemGBPerJob: 1, ExtraVmemGB: spec.EV}, spec.LimitLoad)
	}
	sems := ljm.VerifSemaphores()
	logPath := filepath.Join(spec.Dir, "log")
	gates := map[int]*os.File{}
	enqueued, refused := 0, 0
	var enqIDs []int
	// settled (exact, from the goroutine dump): every Enqueue goroutine of a finished or
	// refused job is gone (its deferred releases have run), every other one is either
	// blocked in ResourceSemaphore.Acquire (= the waiting lists) or has its shell running
	// (= the process tree below this process)
	settle := func() bool {
		dl := time.Now().Add(20 * time.Second)
		for time.Now().Before(dl) {
			started, ended := readLog(logPath)
			snap := c12rSnapshot(sems)
			waiting := 0
			for _, s := range snap {
				waiting += len(s.Waiting)
			}
			refused = 0
			for _, i := range enqIDs {
				if !started[i] {
					if _, err := os.Stat(filepath.Join(spec.Dir, fmt.Sprintf("job%d", i), "_errors")); err == nil {
						refused++
					}
				}
			}
			running := len(started) - len(ended)
			total, parked := c12rEnqueueGoroutines()
			if total == enqueued-len(ended)-refused && parked == waiting && total-parked == running {
				if c12rChildren() == running {
					return true
				}
			}
			if os.Getenv("C12R_DEBUG") != "" {
				fmt.Fprintf(os.Stderr, "settle: enqueued=%d started=%d ended=%d refused=%d waiting=%d goroutines=%d parked=%d children=%d\n",
					enqueued, len(started), len(ended), refused, waiting, total, parked, c12rChildren())
			}
			time.Sleep(500 * time.Microsecond)
		}
		return false
	}
	for idx, st := range spec.Steps {
		out := c12rOut{Step: idx, Kind: st.Kind, Job: st.Job}
		switch st.Kind {
		case "refresh":
			out.Before = c12rSnapshot(sems)
			ob := core.VerifObserveForRefresh()
			err := ljm.VerifRefreshResources(true)
			oa := core.VerifObserveForRefresh()
			// queued jobs granted by the refresh start now
			if !settle() {
				out.Outcome = "unsettled"
			}
			out.After = c12rSnapshot(sems)
			out.ObsBefore, out.ObsAfter = &ob, &oa
			if err != nil {
				out.Err = err.Error()
			}
		case "enqueue":
			out.Before = c12rSnapshot(sems)
			jdir := filepath.Join(spec.Dir, fmt.Sprintf("job%d", st.Job))
			md := core.NewMetadata(fmt.Sprintf("ID.c12r.J%d", st.Job), jdir)
			if err := core.VerifMkdirs(md); err != nil {
				out.Err = err.Error()
				emit(out)
				continue
			}
			gate := filepath.Join(jdir, "gate")
			if err := syscall.Mkfifo(gate, 0o600); err != nil {
				out.Err = err.Error()
				emit(out)
				continue
			}
			// opened read-write: never blocks, and the job's `read` finds a writer
			g, err := os.OpenFile(gate, os.O_RDWR, 0)
			if err != nil {
				out.Err = err.Error()
				emit(out)
				continue
			}
			gates[st.Job] = g
			script := fmt.Sprintf("echo S %d >> %s; read x < %s; echo E %d >> %s", st.Job, logPath, gate, st.Job, logPath)
			jobDef := core.JobResources{Threads: float64(st.T64) / 64, MemGB: float64(st.MemMb) / 1024, VMemGB: float64(st.VmemMb) / 1024}
			fq := fmt.Sprintf("ID.c12r.PIPE.ST%d", st.Job)
			res := core.VerifNodeJobReqs(ljm, ljm, nil, fq, true, nil, &jobDef, core.STAGE_TYPE_CHUNK)
			// what Enqueue will acquire (its own arithmetic; c12_local ties it to the model)
			centi := int64(math.Ceil(res.Threads * 100))
			out.Amounts = [4]int64{centi, int64(math.Ceil(res.MemGB * 1024)), int64(res.VMemGB) * 1024, 15 + (centi+99)/100}
			ljm.Enqueue("/bin/sh", []string{"-c", script}, map[string]string{}, md, &res, fq, 0, 0, false)
			enqueued++
			enqIDs = append(enqIDs, st.Job)
			ok := settle()
			started, _ := readLog(logPath)
			switch {
			case !ok:
				out.Outcome = "unsettled"
			case started[st.Job]:
				out.Outcome = "started"
			default:
				if _, err := os.Stat(filepath.Join(jdir, "_errors")); err == nil {
					out.Outcome = "refused"
					eb, _ := os.ReadFile(filepath.Join(jdir, "_errors"))
					out.Err = string(eb)
				} else {
					out.Outcome = "parked"
				}
			}
			out.After = c12rSnapshot(sems)
		case "shortage":
			// the environment reports a shortage through the entry point refreshResources uses
			// for this semaphore, with observed-style arguments (free, usage = the reservations)
			out.Before = c12rSnapshot(sems)
			if sm := sems[st.Sem]; sm != nil {
				if st.Sem == 2 {
					sm.UpdateActual(st.Free)
				} else {
					sm.UpdateFreeUsed(st.Free, sm.Reserved())
				}
			}
			if !settle() {
				out.Outcome = "unsettled"
			}
			out.After = c12rSnapshot(sems)
		case "finish":
			out.Before = c12rSnapshot(sems)
			started, ended := readLog(logPath)
			if g := gates[st.Job]; g != nil && started[st.Job] && !ended[st.Job] {
				g.WriteString("go\n")
				dl := time.Now().Add(20 * time.Second)
				for time.Now().Before(dl) {
					if _, e := readLog(logPath); e[st.Job] {
						break
					}
					time.Sleep(time.Millisecond)
				}
				if settle() {
					out.Outcome = "ended"
				} else {
					out.Outcome = "unsettled"
				}
			} else {
				out.Outcome = "not-running"
			}
			out.After = c12rSnapshot(sems)
		}
		emit(out)
	}
	// let every started job go; parked ones have no process
	for _, g := range gates {
		g.WriteString("go\n")
	}
	dl := time.Now().Add(3 * time.Second)
	for time.Now().Before(dl) {
		if c12rChildren() == 0 {
			break
		}
		time.Sleep(2 * time.Millisecond)
	}
	os.Stdout.Sync()
	os.Exit(0) // jobs still parked in Acquire (only on a broken tree) must not keep the worker
}

// ---------------------------------------------------------------- parent

func c12rMemAvailableMB() int64 {
	b, _ := os.ReadFile("/proc/meminfo")
	for _, l := range strings.Split(string(b), "\n") {
		if strings.HasPrefix(l, "MemAvailable:") {
			f := strings.Fields(l)
			if len(f) >= 2 {
				kb, _ := strconv.ParseInt(f[1], 10, 64)
				return kb / 1024
			}
		}
	}
	return 0
}

func c12rGen(c *Ctx, maxGB int) c12rSpec {
	rng := c.Rng
	sp := c12rSpec{MaxCores: 1 + rng.Intn(4), MaxMemGB: 1 + rng.Intn(maxGB), EV: rng.Intn(2), LimitLoad: rng.Intn(4) == 0}
	if rng.Intn(2) == 0 {
		sp.MaxVmemMB = int64(sp.MaxMemGB+sp.EV+rng.Intn(3)) * 1024
	}
	lim := int64(sp.MaxMemGB) * 1024
	job := 0
	var running []int
	enqueue := func() {
		st := c12rStep{Kind: "enqueue", Job: job, T64: 64}
		switch rng.Intn(6) {
		case 0, 1:
			st.MemMb, st.What = lim, "exactly the memory limit"
		case 2:
			st.MemMb, st.What = lim+1024*int64(1+rng.Intn(3)), "over the memory limit (clamped)"
		case 3:
			st.MemMb, st.What = lim/2, "half the memory limit"
		case 4:
			st.MemMb, st.What = -512*int64(1+rng.Intn(2)), "adaptive: at least that much, as much as there is"
		default:
			st.MemMb, st.What = lim/4, "a quarter of the memory limit"
		}
		if rng.Intn(5) == 0 {
			st.T64 = int64(sp.MaxCores) * 64
			st.What += ", all cores"
		}
		sp.Steps = append(sp.Steps, st)
		running = append(running, job) // (or parked: finish is a no-op then)
		job++
	}
	refresh := func() {
		n := 1
		if rng.Intn(3) == 0 {
			n += 1 + rng.Intn(2)
		}
		for ; n > 0; n-- {
			sp.Steps = append(sp.Steps, c12rStep{Kind: "refresh"})
		}
	}
	if rng.Intn(10) < 7 {
		refresh() // idle refresh, as StepNodes does before the first job
	}
	if rng.Intn(3) == 0 {
		// "an availability recovery reaches a waiter when nothing else is running": job X runs; the
		// environment reports a shortage of one resource; job Y (fits the limit, not what is
		// available) is enqueued and waits; X ends — nobody is left to release anything; the
		// shortage is over (the real OS has plenty); refreshResources runs as StepNodes calls it
		k := []int{1, 1, 3}[rng.Intn(3)]
		if sp.MaxVmemMB > 0 && rng.Intn(2) == 0 {
			k = 2
		}
		sp.Steps = append(sp.Steps, c12rStep{Kind: "enqueue", Job: 0, T64: 64, MemMb: lim / 4, What: "a quarter of the memory limit"})
		sh := c12rStep{Kind: "shortage", Sem: k, Free: int64(rng.Intn(100))}
		if k == 3 {
			sh.Free = -int64(16 + rng.Intn(30)) // more processes of this user than the rlimit allows
		}
		sp.Steps = append(sp.Steps, sh)
		y := c12rStep{Kind: "enqueue", Job: 1, T64: 64, MemMb: lim, What: "exactly the memory limit"}
		if k != 2 && rng.Intn(2) == 0 {
			y.MemMb, y.What = lim/2, "half the memory limit"
		}
		sp.Steps = append(sp.Steps, y, c12rStep{Kind: "finish", Job: 0})
		refresh()
		if rng.Intn(2) == 0 {
			sp.Steps = append(sp.Steps, c12rStep{Kind: "finish", Job: 1}, c12rStep{Kind: "refresh"})
		}
		sp.Shape = "recovery"
		return sp
	}
	for n := 3 + rng.Intn(6); n > 0; n-- {
		switch k := rng.Intn(10); {
		case k < 4 && job < 4:
			enqueue()
		case k < 6 && len(running) > 0:
			i := rng.Intn(len(running))
			sp.Steps = append(sp.Steps, c12rStep{Kind: "finish", Job: running[i]})
			running = append(running[:i], running[i+1:]...)
		default:
			refresh()
		}
	}
	if job == 0 {
		enqueue()
	}
	sp.Steps = append(sp.Steps, c12rStep{Kind: "refresh"})
	return sp
}

var c12rSeq int
var c12rLastCfg *c12rCfgOut // the C12RCFG line of the last worker run

// c12rRun executes the scenario in a fresh worker process.
func c12rRun(c *Ctx, sp c12rSpec) (outs []c12rOut, cmdline string, err error) {
	c12rSeq++
	sp.Dir = filepath.Join(c.Scratch, fmt.Sprintf("refresh%d", c12rSeq))
	if sp.Nproc > 0 {
		// the worker drops to uid 65534: a directory it can reach (the scratch root is 0700)
		sp.Dir = filepath.Join(os.TempDir(), fmt.Sprintf("verif-C12-nproc-%d-%d", os.Getpid(), c12rSeq))
	}
	os.MkdirAll(sp.Dir, 0o755)
	if sp.Nproc > 0 {
		os.Chmod(sp.Dir, 0o777)
	}
	defer os.RemoveAll(sp.Dir)
	sb, _ := json.Marshal(sp)
	specFile := filepath.Join(sp.Dir, "spec.json")
	os.WriteFile(specFile, sb, 0o644)
	cmd := exec.Command(os.Args[0], "-seed", fmt.Sprint(c.Seed), "-out", filepath.Join(sp.Dir, "worker.json"), "C12W")
	cmd.Env = append(os.Environ(), "C12R_SPEC="+specFile, "GOMAXPROCS=4")
	cmd.SysProcAttr = &syscall.SysProcAttr{Setpgid: true}
	cmdline = "C12R_SPEC=<spec.json> " + filepath.Base(os.Args[0]) + " -seed " + fmt.Sprint(c.Seed) + " C12W   # spec.json = the scenario below"
	var stdout bytes.Buffer
	cmd.Stdout = &stdout
	if err = cmd.Start(); err != nil {
		return nil, cmdline, err
	}
	done := make(chan error, 1)
	go func() { done <- cmd.Wait() }()
	select {
	case err = <-done:
	case <-time.After(c12Scaled(90 * time.Second)):
		err = fmt.Errorf("worker timed out")
	}
	syscall.Kill(-cmd.Process.Pid, syscall.SIGKILL) // whatever is left of its process group
	sc := bufio.NewScanner(&stdout)
	sc.Buffer(make([]byte, 1<<20), 1<<24)
	c12rLastCfg = nil
	for sc.Scan() {
		l := sc.Text()
		if strings.HasPrefix(l, "C12RCFG ") {
			var co c12rCfgOut
			if json.Unmarshal([]byte(l[8:]), &co) == nil {
				c12rLastCfg = &co
			}
			continue
		}
		if !strings.HasPrefix(l, "C12R ") {
			continue
		}
		var o c12rOut
		if json.Unmarshal([]byte(l[5:]), &o) == nil {
			outs = append(outs, o)
		}
	}
	return outs, cmdline, err
}

func c12rObsArg(o *core.VerifRefreshObs) string {
	return fmt.Sprintf("%d,%d,%d,%d,%d,%d,%d", o.ActualFree, o.Rss, o.Vmem, o.Procs, o.IdleCenti, o.RlimCur, o.UserProcs)
}

type c12rVerdict struct {
	kind, key, what string
	step            int
}

func c12rCeilMB(b int64) int64 { return (b + 1024*1024 - 1) / (1024 * 1024) }

// the OS offers this semaphore its whole limit and what runs below the worker is within the reservations
func c12rFullOffer(k int, sem c12rSem, reservedSeen int64, o *core.VerifRefreshObs, limitLoad bool) bool {
	switch k {
	case 0:
		return !limitLoad || o.IdleCenti+reservedSeen >= sem.Max
	case 1:
		return o.ActualFree >= sem.Max*1024*1024 && c12rCeilMB(o.Rss) <= reservedSeen
	case 2:
		return o.Vmem/(1024*1024) <= reservedSeen
	default:
		used := int64(o.Procs) + 45
		return used <= reservedSeen && o.RlimCur-int64(o.UserProcs)+used >= sem.Max
	}
}

// c12rOfferFits: what the OS reports leaves room for the oldest waiter of this semaphore.
// Memory, vmem, cores: the OS offers the whole limit (c12rFullOffer).  Processes: the whole limit
// is never on offer on a shared machine, and the usage refreshResources sees includes the
// worker's own few threads; there the test is that the user's process count leaves the head's
// need (plus 64 for the jitter of other users' processes) below the rlimit and below what the
// semaphore can still hand out.
func c12rOfferFits(k int, sem c12rSem, reservedSeen int64, o *core.VerifRefreshObs, limitLoad bool) bool {
	if k != 3 {
		return c12rFullOffer(k, sem, reservedSeen, o, limitLoad)
	}
	if len(sem.Waiting) == 0 {
		return false
	}
	adjust := int64(o.Procs) + 45 - reservedSeen
	if adjust < 0 {
		adjust = 0
	}
	room := o.RlimCur - int64(o.UserProcs)
	if m := sem.Max - sem.Res - adjust; m < room {
		room = m
	}
	return sem.Waiting[0]+64 <= room
}

// c12rJudge: model comparison and monitors over a worker's step list.
func c12rJudge(c *Ctx, sp c12rSpec, outs []c12rOut, countHist bool) (vs []*c12rVerdict, exact, bracketed int, skip string) {
	r := c.Res
	seen := map[string]bool{}
	add := func(v *c12rVerdict) {
		if !seen[v.key] {
			seen[v.key] = true
			if v.kind == "property" {
				vs = append([]*c12rVerdict{v}, vs...) // what the property says first
			} else {
				vs = append(vs, v)
			}
		}
	}
	if len(outs) != len(sp.Steps) {
		return nil, 0, 0, fmt.Sprintf("worker reported %d of %d steps", len(outs), len(sp.Steps))
	}
	// the semaphores the real setupSemaphores created vs the model's account (localSizes):
	// cores, memory, vmem iff configured, and the process semaphore with mrp's standing
	// reservation of startingThreadCount = 45, i.e. maxSize - 45 left for jobs
	if len(outs) == 0 {
		return nil, 0, 0, ""
	}
	if b := outs[0].Before; true {
		procs := "-"
		real := []string{strconv.FormatInt(b[0].Max, 10), strconv.FormatInt(b[1].Max, 10)}
		if b[2].Present {
			real = append(real, strconv.FormatInt(b[2].Max, 10))
		}
		if b[3].Present {
			procs = strconv.FormatInt(b[3].Max-45, 10)
			real = append(real, procs)
			if b[3].Res != 45 {
				add(&c12rVerdict{"correspondence", "C12:refresh:model-mismatch",
					fmt.Sprintf("before the first step the process semaphore has Reserved()=%d; setupSemaphores' standing reservation (startingThreadCount) is 45", b[3].Res), 0})
			}
		}
		rep := c.Drv.Ask("C12.cfgsizes", fmt.Sprintf("%d,%d,%d,1,1,%d", sp.MaxCores, sp.MaxMemGB, sp.MaxVmemMB, sp.EV), procs, "0,0,0,0")
		f := strings.Split(rep, "|")
		if len(f) != 3 || f[0] != "1" || f[1] != strings.Join(real, ",") {
			add(&c12rVerdict{"correspondence", "C12:refresh:model-mismatch",
				fmt.Sprintf("semaphores created by setupSemaphores (sizes left for jobs) %v; model Sane|localSizes|… = %s", real, rep), 0})
		} else if countHist {
			r.hist("refresh_setup_sizes_compared")
		}
	}
	var lastRefresh *c12rOut
	for i := range outs {
		o := &outs[i]
		if o.Outcome == "unsettled" {
			return nil, exact, bracketed, fmt.Sprintf("step %d did not settle", i)
		}
		for k, s := range o.After {
			if s.Present && s.Cur > s.Max {
				add(&c12rVerdict{"property", "C12:refresh:size-above-limit",
					fmt.Sprintf("step %d (%s): %s semaphore CurrentSize()=%d exceeds its limit %d", i, o.Kind, c12rSemNames[k], s.Cur, s.Max), i})
			}
		}
		switch o.Kind {
		case "refresh":
			if o.Err != "" || o.ObsBefore == nil || o.ObsBefore.Err != "" || o.ObsAfter.Err != "" {
				return nil, exact, bracketed, "refreshResources / observation error: " + o.Err
			}
			// refreshResources samples the process tree first and updates the semaphores afterwards:
			// what it saw of the tree is the (settled) tree before the call; a job granted BY the
			// refresh starts its shell at once and shows up in the observation after.  So the tree
			// figures are always the ones before; free memory, load and the user's process count
			// (other users' activity) are bracketed by before/after.
			if o.ObsBefore.Rss != o.ObsAfter.Rss || o.ObsBefore.Vmem != o.ObsAfter.Vmem {
				granted := false
				for k := range o.Before {
					if len(o.After[k].Waiting) < len(o.Before[k].Waiting) {
						granted = true
					}
				}
				if !granted {
					return nil, exact, bracketed, "the worker's own process tree moved during a refresh that granted nothing"
				}
				oa := *o.ObsAfter
				oa.Rss, oa.Vmem, oa.Procs = o.ObsBefore.Rss, o.ObsBefore.Vmem, o.ObsBefore.Procs
				o.ObsAfter = &oa
			}
			var reqs [][]string
			var ks []int
			for k, s := range o.Before {
				if !s.Present {
					continue
				}
				if k == 0 && !sp.LimitLoad {
					// not touched without --limit-loadavg
					if b, a := o.Before[0], o.After[0]; b.Cur != a.Cur || b.Res != a.Res || len(b.Waiting) != len(a.Waiting) {
						add(&c12rVerdict{"correspondence", "C12:refresh:model-mismatch",
							fmt.Sprintf("step %d: refreshResources changed the core semaphore without --limit-loadavg: %+v -> %+v", i, b, a), i})
					}
					continue
				}
				ws := "."
				if len(s.Waiting) > 0 {
					p := make([]string, len(s.Waiting))
					for j, a := range s.Waiting {
						p[j] = strconv.FormatInt(a, 10)
					}
					ws = strings.Join(p, ",")
				}
				st := fmt.Sprintf("%d,%d,%d", s.Max, s.Cur, s.Res)
				reqs = append(reqs, []string{"C12.refresh", c12rSemNames[k], st, ws, c12rObsArg(o.ObsBefore)},
					[]string{"C12.refresh", c12rSemNames[k], st, ws, c12rObsArg(o.ObsAfter)})
				ks = append(ks, k)
			}
			reps := c.Drv.AskBatch(reqs)
			// A waiter granted BY this refresh goes on at once to the semaphores further down the
			// acquisition order (and may start, or park there): on those the reservations are the
			// model's plus what such jobs have taken meanwhile — at most what all jobs enqueued so
			// far acquire there.
			grantedReal := false
			for k := range o.Before {
				if len(o.After[k].Waiting) < len(o.Before[k].Waiting) {
					grantedReal = true
				}
			}
			var extra [4]int64
			njobs := 0
			for _, p := range outs[:i] {
				if p.Kind == "enqueue" {
					njobs++
					for k := range extra {
						if p.Amounts[k] > 0 {
							extra[k] += p.Amounts[k]
						}
					}
				}
			}
			resOK := func(k int, real c12rSem, mr int64, mq int) bool {
				if !grantedReal {
					return real.Res == mr && len(real.Waiting) == mq
				}
				if len(o.After[k].Waiting) < len(o.Before[k].Waiting) {
					return len(real.Waiting) == mq && real.Res >= mr && real.Res <= mr+extra[k]
				}
				return real.Res >= mr && real.Res <= mr+extra[k] && len(real.Waiting) >= mq && len(real.Waiting) <= mq+njobs
			}
			for j, k := range ks {
				parse := func(rep string) (cur, res int64, ql int, ok bool) {
					f := strings.SplitN(rep, ":", 4)
					if len(f) != 4 {
						return 0, 0, 0, false
					}
					cur, e1 := strconv.ParseInt(f[0], 10, 64)
					res, e2 := strconv.ParseInt(f[1], 10, 64)
					ql, e3 := strconv.Atoi(f[2])
					return cur, res, ql, e1 == nil && e2 == nil && e3 == nil
				}
				c1, r1, q1, ok1 := parse(reps[2*j])
				c2, r2, q2, ok2 := parse(reps[2*j+1])
				if !ok1 || !ok2 {
					add(&c12rVerdict{"correspondence", "C12:refresh:driver-bad-op", "driver reply " + reps[2*j], i})
				}
				a := o.After[k]
				name := c12rSemNames[k]
				// The user's process count (all users of this uid on the machine, other agents'
				// processes included) can move and move back between the two reads: the process
				// semaphore's size is only checked to be plausible.
				if k != 3 && c1 == c2 && r1 == r2 && q1 == q2 {
					exact++
					if countHist {
						r.hist("refresh_comparisons_exact_" + name)
					}
					if a.Cur != c1 || !resOK(k, a, r1, q1) {
						add(&c12rVerdict{"correspondence", "C12:refresh:model-mismatch",
							fmt.Sprintf("step %d: after refreshResources the %s semaphore is CurrentSize=%d Reserved=%d QueueLength=%d; the model (same answer for the observations before and after the call) says %d/%d/%d",
								i, name, a.Cur, a.Res, len(a.Waiting), c1, r1, q1), i})
					}
				} else {
					bracketed++
					if countHist {
						r.hist("refresh_comparisons_bracketed_" + name)
					}
					lo, hi := c1, c2
					if lo > hi {
						lo, hi = hi, lo
					}
					slack := hi - lo // the environment may have moved that much once more in between
					if k == 3 {
						slack += 512
					}
					if a.Cur < lo-slack || a.Cur > hi+slack {
						add(&c12rVerdict{"correspondence", "C12:refresh:model-mismatch",
							fmt.Sprintf("step %d: after refreshResources the %s semaphore has CurrentSize=%d, outside what the model gives for the observations before (%d) and after (%d) the call (tolerance %d)",
								i, name, a.Cur, c1, c2, slack), i})
					}
					if k == 3 && !resOK(k, a, r1, q1) && !resOK(k, a, r2, q2) {
						add(&c12rVerdict{"correspondence", "C12:refresh:model-mismatch",
							fmt.Sprintf("step %d: after refreshResources the %s semaphore has Reserved=%d QueueLength=%d; model %d/%d", i, name, a.Res, len(a.Waiting), r1, q1), i})
					}
				}
			}
			// monitor: nobody who fits is left waiting when the OS offers the whole limit
			for k, a := range o.After {
				if !a.Present || len(a.Waiting) == 0 {
					continue
				}
				seen := o.Before[k].Res
				if c12rOfferFits(k, a, seen, o.ObsBefore, sp.LimitLoad) && c12rOfferFits(k, a, seen, o.ObsAfter, sp.LimitLoad) &&
					a.Waiting[0] <= a.Max-a.Res {
					add(&c12rVerdict{"property", "C12:refresh:fitting-job-parked",
						fmt.Sprintf("step %d: after refreshResources a request for %d waits on the %s semaphore although it fits maxSize %d - Reserved %d and the OS offers the whole limit (CurrentSize()=%d)",
							i, a.Waiting[0], c12rSemNames[k], a.Max, a.Res, a.Cur), i})
				}
			}
			lastRefresh = o
		case "enqueue":
			// the outcome the model predicts from the semaphores as they were: Acquire in
			// acquisition order on the semaphores that exist (Martian.Semaphore.step)
			{
				want := "started"
				for k, b := range o.Before {
					if !b.Present {
						continue
					}
					ws := "."
					if len(b.Waiting) > 0 {
						p := make([]string, len(b.Waiting))
						for j, a := range b.Waiting {
							p[j] = strconv.FormatInt(a, 10)
						}
						ws = strings.Join(p, ",")
					}
					rep := c.Drv.Ask("C12.acq", fmt.Sprintf("%d,%d,%d", b.Max, b.Cur, b.Res), ws, strconv.FormatInt(o.Amounts[k], 10))
					f := strings.SplitN(rep, ":", 4)
					if len(f) != 4 {
						add(&c12rVerdict{"correspondence", "C12:refresh:driver-bad-op", "driver reply " + rep, i})
						break
					}
					if strings.HasPrefix(f[3], "g") {
						continue
					}
					if strings.HasPrefix(f[3], "x") {
						want = "refused"
					} else {
						want = "parked on " + c12rSemNames[k]
					}
					break
				}
				got := o.Outcome
				if got == "parked" {
					for k, a := range o.After {
						if a.Present && len(a.Waiting) > len(o.Before[k].Waiting) {
							got = "parked on " + c12rSemNames[k]
						}
					}
				}
				if countHist {
					r.hist("refresh_enqueue_outcomes_compared")
				}
				if got != want {
					add(&c12rVerdict{"correspondence", "C12:refresh:enqueue-outcome-mismatch",
						fmt.Sprintf("step %d: job %d (%s; Enqueue acquires cores/mem/vmem/procs %v) was %s; the model, from the semaphores before the call, says %s",
							i, o.Job, sp.Steps[i].What, o.Amounts, got, want), i})
				}
			}
			if o.Outcome == "parked" && lastRefresh != nil && lastRefresh.Step == i-1 {
				for k, a := range o.After {
					if !a.Present || len(a.Waiting) == 0 || len(o.Before[k].Waiting) != 0 {
						continue
					}
					seen := lastRefresh.Before[k].Res
					if c12rFullOffer(k, a, seen, lastRefresh.ObsBefore, sp.LimitLoad) && c12rFullOffer(k, a, seen, lastRefresh.ObsAfter, sp.LimitLoad) &&
						lastRefresh.Before[k].Res == o.Before[k].Res && a.Waiting[0] <= a.Max-a.Res {
						add(&c12rVerdict{"property", "C12:refresh:fitting-job-parked",
							fmt.Sprintf("step %d: job %d (%s) was parked on the %s semaphore right after a refresh: it asks for %d, maxSize %d - Reserved %d = %d, the OS offers the whole limit, but CurrentSize()=%d",
								i, o.Job, sp.Steps[i].What, c12rSemNames[k], a.Waiting[0], a.Max, a.Res, a.Max-a.Res, a.Cur), i})
					}
				}
			}
		}
	}
	return vs, exact, bracketed, ""
}

func runC12Refresh(c *Ctx) {
	r := c.Res
	avail := c12rMemAvailableMB()
	maxGB := int(avail / 1024 / 4) // limits comfortably below what is free now
	if maxGB > 4 {
		maxGB = 4
	}
	if maxGB < 1 {
		r.note("refreshResources stream not run: only %d MB of memory available on this machine", avail)
		return
	}
	n, budget := 30, 12*time.Second
	if c.Thorough {
		n, budget = 300, 100*time.Second
	}
	t0 := time.Now()
	reported := map[string]int{}
	for i := 0; i < n; i++ {
		if time.Since(t0) > budget {
			r.note("refreshResources stream: time budget %v used up after %d of %d scenarios", budget, i, n)
			break
		}
		sp := c12rGen(c, maxGB)
		outs, cmdline, err := c12rRun(c, sp)
		vs, _, _, skip := c12rJudge(c, sp, outs, true)
		if len(vs) == 0 && (skip != "" || err != nil) {
			r.hist("refresh_scenarios_not_judged")
			r.note("refreshResources scenario not judged: %s %v", skip, err)
			continue
		}
		nontrivial := false
		for _, o := range outs {
			if o.Kind == "refresh" && (o.Before[1].Res > 0 || len(o.Before[1].Waiting) > 0) {
				nontrivial = true
			}
			if o.Kind == "enqueue" {
				r.hist("refresh_jobs_" + o.Outcome)
			}
		}
		sj, _ := json.Marshal(sp.Steps)
		r.count(fmt.Sprintf("refresh|%d|%d|%d|%v|%s", sp.MaxCores, sp.MaxMemGB, sp.MaxVmemMB, sp.LimitLoad, sj), nontrivial)
		r.hist("refresh_scenarios")
		if sp.Shape == "recovery" {
			r.hist("refresh_recovery_scenarios")
			for j, o := range outs {
				if o.Kind == "finish" && j > 0 {
					for _, a := range o.After {
						if a.Present && len(a.Waiting) > 0 {
							r.hist("refresh_recovery_scenarios_with_a_lone_waiter_before_the_refresh")
							break
						}
					}
					break
				}
			}
		}
		r.Histogram["refresh_steps"] += len(sp.Steps)
		if i%11 == 0 {
			r.sample(map[string]interface{}{"scenario": sp, "worker_steps": outs})
		}
		for _, v := range vs {
			if reported[v.key] >= 2 {
				continue
			}
			reported[v.key]++
			c12rReport(c, sp, v, cmdline)
		}
	}
	c12rNproc(c)
	if c.Thorough {
		c12rSetMax(c, 60)
	} else {
		c12rSetMax(c, 8)
	}
}

// c12rNproc: a small `ulimit -u`.  The worker runs as uid 65534 (so that "the user's
// processes" are its own few threads) with RLIMIT_NPROC = 45 + need + delta: the real
// setupSemaphores creates the process semaphore with maxSize = the rlimit and mrp's standing
// Acquire(45).  A job needing `need` processes must be refused (need > rlimit), started
// (need <= rlimit - 45) or — between the two — parked for ever although need <= maxSize and
// CurrentSize = maxSize: exactly what Martian.Semaphore.step says
// (Props.C12.standing_reservation_parks_request_between_sizes).
func c12rNproc(c *Ctx) {
	r := c.Res
	for _, kind := range []string{"between", "fits", "above"} {
		cores := 1 + c.Rng.Intn(3)
		sp := c12rSpec{MaxCores: cores, MaxMemGB: 1}
		threads := int64(1 + c.Rng.Intn(cores))
		need := 15 + int(threads)
		switch kind {
		case "between":
			sp.Nproc = 45 + need - 1 - c.Rng.Intn(3)
		case "fits":
			sp.Nproc = 45 + need + c.Rng.Intn(3)
		default:
			sp.MaxCores, threads = 40, 40
			need = 55
			sp.Nproc = 47 + c.Rng.Intn(8)
		}
		sp.Steps = []c12rStep{{Kind: "enqueue", Job: 0, T64: threads * 64, MemMb: 512, What: fmt.Sprintf("needs %d processes", need)},
			{Kind: "refresh"}, {Kind: "refresh"}}
		outs, cmdline, err := c12rRun(c, sp)
		vs, _, _, skip := c12rJudge(c, sp, outs, false)
		if len(vs) == 0 && (skip != "" || err != nil || len(outs) != 3) {
			r.note("small-ulimit scenario (%s) not judged: %s %v", kind, skip, err)
			continue
		}
		r.hist("refresh_small_ulimit_scenarios")
		for _, v := range vs {
			c12rReport(c, sp, v, cmdline)
		}
		if kind == "between" && len(vs) == 0 {
			p := outs[0].After[3]
			if outs[0].Outcome == "parked" && len(p.Waiting) == 1 && p.Cur == p.Max && len(outs[2].After[3].Waiting) == 1 {
				r.note("witness standing_reservation_parks_request_between_sizes replays on the real code: ulimit -u %d, a job needing %d processes is not refused (%d <= maxSize %d) and waits for ever on the process semaphore with CurrentSize()=%d=maxSize, Reserved()=%d (mrp's own 45 + nothing), also after two refreshes — documented limit (the process rlimit is not a configured martian limit; martian only prints 'process count limit is low')",
					sp.Nproc, need, need, p.Max, p.Cur, p.Res)
			} else {
				r.note("witness standing_reservation_parks_request_between_sizes did not replay: %+v", outs)
			}
		}
	}
}

func c12rHas(vs []*c12rVerdict, key string) *c12rVerdict {
	for _, v := range vs {
		if v.key == key {
			return v
		}
	}
	return nil
}

// c12rReport: once more alone in a fresh worker, shrink (drop steps while the same key is
// reported), report.
func c12rReport(c *Ctx, sp c12rSpec, v *c12rVerdict, cmdline string) {
	r := c.Res
	check := func(t c12rSpec) (*c12rVerdict, []c12rOut) {
		o, _, _ := c12rRun(c, t)
		vs, _, _, _ := c12rJudge(c, t, o, false)
		return c12rHas(vs, v.key), o
	}
	v2, outs2 := check(sp)
	if v2 == nil {
		r.note("a refreshResources disagreement (%s: %s) did not reproduce in a fresh worker; not reported", v.key, v.what)
		return
	}
	min := sp
	trials := 0
	for changed := true; changed && trials < 14; {
		changed = false
		for j := 0; j < len(min.Steps) && trials < 14; j++ {
			t := min
			t.Steps = append(append([]c12rStep{}, min.Steps[:j]...), min.Steps[j+1:]...)
			trials++
			if v3, _ := check(t); v3 != nil {
				min = t
				changed = true
				j--
			}
		}
	}
	vM, outsM := check(min)
	if vM == nil {
		min, outsM, vM = sp, outs2, v2
	}
	min.Dir = ""
	viol := Violation{Kind: vM.kind, Key: vM.key, What: "LocalJobManager.refreshResources: " + vM.what,
		Input: map[string]interface{}{"worker_command": cmdline, "scenario": min,
			"note": "the worker is this harness binary re-executed with no other children: the process tree below it is exactly the jobs of the scenario"},
		Impl: outsM}
	if vM.kind == "correspondence" {
		viol.Broken = "correspondence C12.refresh (Martian.SemaphoreRefresh + Martian.Semaphore.step vs LocalJobManager.refreshResources)"
	} else {
		viol.Expect = "Props.C12.refresh_never_parks_a_fitting_job / limit_job_granted_after_refresh: with the OS offering the whole limit and the usage below mrp within the reservations, whoever fits maxSize - Reserved is granted"
	}
	r.violate(viol)
}

// c12rSetMax: where the limits come from.  The worker builds its job manager through the real
// NewLocalJobManager (setMaxCores, setMaxMem, setupSemaphores) from PRNG user flags — unset,
// small, equal, vmem below memory, larger than the machine, cluster mode, an address-space
// rlimit — and reports the semaphores it got; the model (Martian.SemaphoreConfig.setMaxModel,
// driver op C12.setmax) is asked with the machine as observed before and after the call by the
// same functions: exact where both answers agree, else the limits must lie between them.
func c12rSetMax(c *Ctx, n int) {
	r := c.Res
	rng := c.Rng
	for i := 0; i < n; i++ {
		fl := &c12rFlags{MPJ: 1 + rng.Intn(8), Cluster: rng.Intn(3) == 0}
		fl.Cores = []int{0, 0, 1, 2, 3, 4, 64}[rng.Intn(7)]
		fl.MemGB = []int{0, 0, 1, 2, 3, 4, 1000}[rng.Intn(7)]
		base := fl.MemGB
		if base == 0 {
			base = 4
		}
		fl.VmemGB = []int{0, 0, base, base, base - 1, base + 2, 1000}[rng.Intn(7)]
		if rng.Intn(4) == 0 {
			fl.ASGB = 16 + 16*rng.Intn(3)
		}
		witness := ""
		switch i {
		case 0:
			fl = &c12rFlags{Cores: 2, MemGB: 4, VmemGB: 4, MPJ: 1}
			witness = "same"
		case 1:
			fl = &c12rFlags{Cores: 2, MemGB: 4, VmemGB: 2, MPJ: 1}
			witness = "below"
		}
		sp := c12rSpec{Flags: fl, EV: 0, Shape: "setmax"}
		if witness != "" {
			sp.Steps = []c12rStep{{Kind: "enqueue", Job: 0, T64: 64, MemMb: 4096, What: "exactly the memory limit"}}
		} else {
			sp.Steps = []c12rStep{{Kind: "refresh"}}
		}
		outs, cmdline, err := c12rRun(c, sp)
		co := c12rLastCfg
		if co == nil || co.Err != "" || err != nil {
			msg := ""
			if co != nil {
				msg = co.Err
			}
			r.hist("setmax_scenarios_not_judged")
			r.note("NewLocalJobManager scenario %+v not judged: %s %v", *fl, msg, err)
			continue
		}
		ask := func(m c12rMachine) string {
			cl := 0
			if fl.Cluster {
				cl = 1
			}
			return c.Drv.Ask("C12.setmax", fmt.Sprintf("%d,%d,%d,%d", fl.Cores, fl.MemGB, fl.VmemGB, cl),
				fmt.Sprintf("%d,%d,%d,%d,%d,%d,0,1,%d", m.NumCPU, m.Total, m.ActualFree, m.CgMem, m.CgUse, m.VmemLimit, fl.MPJ))
		}
		m1, m2 := ask(co.Before), ask(co.After)
		real := fmt.Sprintf("%d,%d,%d", co.Sems[0].Max/100, co.Sems[1].Max/1024, co.Sems[2].Max)
		if co.Sems[0].Max%100 != 0 || co.Sems[1].Max%1024 != 0 {
			real = fmt.Sprintf("?%d,%d,%d", co.Sems[0].Max, co.Sems[1].Max, co.Sems[2].Max)
		}
		r.count(fmt.Sprintf("setmax|%+v", *fl), fl.MemGB == 0 || fl.VmemGB != 0)
		r.hist("setmax_scenarios")
		if co.Before.VmemLimit > 0 {
			r.hist("setmax_scenarios_with_an_address_space_rlimit")
		}
		if fl.MemGB == 0 {
			r.hist("setmax_scenarios_localmem_unset")
		}
		if fl.Cluster {
			r.hist("setmax_scenarios_cluster_mode")
		}
		ok := real == m1 || real == m2
		if m1 == m2 {
			r.hist("setmax_comparisons_exact")
		} else {
			r.hist("setmax_comparisons_bracketed")
			var a, b, x [3]int64
			fmt.Sscanf(strings.ReplaceAll(m1, ",", " "), "%d %d %d", &a[0], &a[1], &a[2])
			fmt.Sscanf(strings.ReplaceAll(m2, ",", " "), "%d %d %d", &b[0], &b[1], &b[2])
			fmt.Sscanf(strings.ReplaceAll(real, ",", " "), "%d %d %d", &x[0], &x[1], &x[2])
			ok = true
			for k := range x {
				lo, hi := a[k], b[k]
				if lo > hi {
					lo, hi = hi, lo
				}
				if x[k] < lo || x[k] > hi {
					ok = false
				}
			}
		}
		if !ok {
			r.violate(Violation{Kind: "correspondence", Key: "C12:setmax:model-mismatch",
				What:  fmt.Sprintf("NewLocalJobManager(%+v) produced maxCores,maxMemGB,maxVmemMB = %s; the model says %s for the machine as observed before the call and %s after", *fl, real, m1, m2),
				Input: map[string]interface{}{"worker_command": cmdline, "flags": fl, "machine_before": co.Before, "machine_after": co.After},
				Impl:  co.Sems, Model: []string{m1, m2},
				Broken: "correspondence C12.setmax (Martian.SemaphoreConfig.setMaxModel vs NewLocalJobManager / setMaxCores / setMaxMem)"})
			continue
		}
		switch witness {
		case "same":
			if len(outs) == 1 && outs[0].Outcome == "started" && co.Sems[2].Max == co.Sems[1].Max {
				r.note("--localvmem = --localmem through the real NewLocalJobManager(--localmem 4 --localvmem 4): maxVmemMB = %d = maxMemGB*1024 (nothing of mrp's own address space is on record when setMaxMem runs: same_localmem_localvmem_at_construction), and a job asking for the memory limit starts", co.Sems[2].Max)
			} else {
				r.note("same-value witness: unexpected %+v / %+v", co.Sems, outs)
			}
		case "below":
			if len(outs) == 1 && outs[0].Outcome == "refused" && strings.Contains(outs[0].Err, "address space") {
				r.note("known finding F18 (C12:local:vmem-floor-above-limit) replays through the real NewLocalJobManager(--localmem 4 --localvmem 2): maxVmemMB = %d < maxMemGB*1024 = %d, a job asking for the memory limit is refused: %s", co.Sems[2].Max, co.Sems[1].Max, strings.TrimSpace(outs[0].Err))
			} else {
				r.note("F18 through NewLocalJobManager did not replay: %+v", outs)
			}
		}
	}
}
