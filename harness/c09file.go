package main

// C09, a whole comment-free MRO file: the model Martian.FormatFile (fmtFile /
// fmtSource / parseFile / normFile / wfFile; driver ops C09.fmtfile, fmtsource,
// parsefile, normfile, wffile) against the real UncheckedParse (grammar.y
// `file`, `includes`, `dec_list`, `dec`; ast.go NewAst) and FormatSrcBytes
// (formatter.go Ast.format, format_callable.go Callables.format).
//
// A. generated files: 0-2 `@include` lines, 0-3 filetypes, 0-3 structs, 0-4
//    callables (stages and pipelines from the generators of the Stage and Pipe
//    parts), an optional top-level call (generator of the Call2 part); the parts
//    mostly from pools the model calls well formed, now and then an unchecked
//    one.  The declarations are written in RANDOM source order with random
//    blank lines between the pieces, every pipeline with its calls in source
//    order: the MODEL prints that text (fmtsource).  On it, on the model's
//    fmtFile text and on a respelling (the respellers of the parts: other white
//    space, keyword modifiers, `memgb`, …; the same source order):
//      (a) C09:file-parse-mismatch — the real AST (Includes, UserTypes,
//          StructTypes, Callables.List in order with every field of every stage
//          and pipeline, Call) must dump to what the model's parseFile returns
//          (both reject, or the same file);
//      (b) C09:file-format-mismatch — FormatSrcBytes must give, byte for byte,
//          the model's fmtFile of the file the model read; for a well-formed
//          file that is the model's fmtFile of the generated parts (the printer
//          regroups: includes, filetypes, structs, callables, call);
//      (c) C09:file-roundtrip-model — the theorems evaluated: parseFile (fmtFile
//          f) = normFile f, fmtFile (normFile f) = fmtFile f, normFile stable,
//          fmtFile of what was read from the source = fmtFile f.
// B. property monitors on the real code alone (Kind property) for the texts of
//    well-formed files and the accepted near misses: the output re-parses, the
//    second format equals the first (C09:file-not-idempotent), and the AST dump
//    of the output equals the dump of the input up to the documented
//    normalisations: call order inside a pipeline, keyword modifiers as bindings
//    (C09:file-ast-changed).
// C. near-miss texts: empty file, only includes, call before declarations, two
//    calls, `@include` without a string, `@includex`, a value expression, …:
//    accept/reject and the AST (a), the formatted text (b), the monitors (B).
//
// FormatSrcBytes is called with fixIncludes = false: neither it nor
// UncheckedParse reads the included files (the generated paths do not exist).

import (
	"fmt"
	"math/rand"
	"strings"
	"time"

	"github.com/martian-lang/martian/martian/syntax"
)

// ---- the real AST in the driver's item encoding ----

// c09fDumpStage: a syntax.Stage in the encoding of Driver/C09Stage.lean (as c09sDump does for a
// file that holds one stage)
func c09fDumpStage(st *syntax.Stage) string {
	if st.Src == nil {
		return "bad: Src == nil"
	}
	sp := "0"
	if st.Split {
		sp = "1"
	}
	res := "none"
	if r := st.Resources; r != nil {
		w := []string{".", ".", ".", ".", "."}
		if r.MemNode != nil {
			w[0] = c09sMBOf(r.MemGB)
		}
		if r.SpecialNode != nil {
			w[1] = "s" + hx(r.Special)
		}
		if r.ThreadNode != nil {
			w[2] = "s" + hx(fmt.Sprintf("%g", r.Threads))
		}
		if r.VMemNode != nil {
			w[3] = c09sMBOf(r.VMemGB)
		}
		if r.VolatileNode != nil {
			if r.StrictVolatile {
				w[4] = "strict"
			} else {
				w[4] = "false"
			}
		}
		res = strings.Join(w, " ")
	}
	ret := "none"
	if st.Retain != nil {
		var ids []string
		for _, p := range st.Retain.Params {
			ids = append(ids, p.Id)
		}
		ret = "r" + hxList(ids)
	}
	insOnly := func(p *syntax.InParams) string { return c09dEncParams(c09dParamsOf(p, nil)) }
	outsOnly := func(p *syntax.OutParams) string { return c09dEncParams(c09dParamsOf(nil, p)) }
	return strings.Join([]string{hx(st.Id), insOnly(st.InParams), outsOnly(st.OutParams),
		string(st.Src.Lang) + " " + hx(st.Src.Path) + " " + hxList(st.Src.Args), sp,
		insOnly(st.ChunkIns), outsOnly(st.ChunkOuts), res, ret}, "|")
}

// c09fDumpAst: the items of the file, TAB separated, or "bad: …"
func c09fDumpAst(ast *syntax.Ast) string {
	var items []string
	for _, inc := range ast.Includes {
		items = append(items, "I"+hx(inc.Value))
	}
	for _, t := range ast.UserTypes {
		items = append(items, "T"+hxList(strings.Split(t.Id, ".")))
	}
	for _, st := range ast.StructTypes {
		var ms []c09dMember
		for _, m := range st.Members {
			ms = append(ms, c09dMember{c09dTypeOf(m.Tname), m.Id, m.Help, m.OutName})
		}
		items = append(items, "S"+c09dEncStruct(st.Id, ms))
	}
	if ast.Callables != nil {
		for _, cl := range ast.Callables.List {
			switch x := cl.(type) {
			case *syntax.Stage:
				d := c09fDumpStage(x)
				if strings.HasPrefix(d, "bad: ") {
					return d
				}
				items = append(items, "G"+d)
			case *syntax.Pipeline:
				d := c09pDumpPipeline(x)
				if !strings.HasPrefix(d, "some ") {
					return d
				}
				items = append(items, "P"+strings.TrimPrefix(d, "some "))
			default:
				return fmt.Sprintf("bad: callable of type %T", cl)
			}
		}
	}
	if ast.Call != nil {
		var w []string
		if bad := c09c2DumpCall(&w, ast.Call); bad != "" {
			return "bad: " + bad
		}
		items = append(items, "C"+strings.Join(w, " "))
	}
	return "some\t" + strings.Join(items, "\t")
}

// c09fDump: "none" (rejected), "panic: …", "bad: …" or "some" TAB items
func c09fDump(text string) string {
	ast, err, pan := c09Parse([]byte(text), "file.mro")
	if pan != "" {
		return "panic: " + pan
	}
	if err != nil || ast == nil {
		return "none"
	}
	return c09fDumpAst(ast)
}

// c09fCanon rewrites the threads word of every stage item of a model reply (the model keeps the
// text of the token, the parser stores a rounded float32: c09sCanon)
func c09fCanon(rep string) string {
	if !strings.HasPrefix(rep, "some\t") {
		return rep
	}
	items := strings.Split(rep, "\t")
	for i, it := range items {
		if strings.HasPrefix(it, "G") {
			items[i] = "G" + strings.TrimPrefix(c09sCanon("some "+it[1:]), "some ")
		}
	}
	return strings.Join(items, "\t")
}

// ---- generators ----

var c09fIncPaths = []string{"a.mro", "dir/b.mro", "../x/y.mro", "sp ace.mro", "quo\"te.mro", "été.mro", "tab\t.mro",
	"_types.mro", "", "back\\slash.mro", "line\nbreak.mro", "#no comment.mro", "😀.mro"}

type c09fDecl struct {
	kind  byte // 'T' filetype, 'S' struct, 'G' stage, 'P' pipeline
	enc   string
	comps []string     // filetype
	sid   string       // struct
	sms   []c09dMember // struct
	st    *c09sCase    // stage
	pl    *c09pCase    // pipeline
}

type c09fCase struct {
	incs  []string
	decls []*c09fDecl // in source order
	call  *c09c2Call
	ws    []string // white space after each piece
	items []string
	wf    bool
	src   string // the model's fmtSource (everything in source order)
	fmtd  string // the model's fmtFile
	norm  string // the model's normFile, TAB-separated items
	re    string // a respelling ("" = none)
	decoy bool
	deep  bool // the model-internal checks (theorems evaluated) are run for this file
	aIdx  int  // index of its first request in the first batch
}

type c09fPool struct {
	ok, any []*c09fDecl
}

func (p *c09fPool) take(c *Ctx) *c09fDecl {
	if len(p.ok) == 0 && len(p.any) == 0 {
		return nil
	}
	if len(p.ok) == 0 || (len(p.any) > 0 && c.Rng.Intn(30) == 0) {
		d := p.any[len(p.any)-1]
		p.any = p.any[:len(p.any)-1]
		return d
	}
	d := p.ok[len(p.ok)-1]
	p.ok = p.ok[:len(p.ok)-1]
	return d
}

// respell: another spelling of a declaration ("" = none)
func (d *c09fDecl) respell(c *Ctx) (text string, decoy bool) {
	switch d.kind {
	case 'T':
		s := &c09dSpeller{c: c}
		s.tok("filetype")
		for j, cmp := range d.comps {
			if j > 0 {
				s.tok(".")
			}
			s.tok(cmp)
		}
		s.tok(";")
		return s.b.String(), false
	case 'S':
		if !c09dMembersSpellable(d.sms) || len(d.sms) == 0 {
			return "", false
		}
		return c09dSpellStruct(c, d.sid, d.sms), false
	case 'G':
		return c09sSpell(c, d.st), false
	default:
		if !d.pl.spellable() {
			return "", false
		}
		return d.pl.spell(c)
	}
}

var c09fNearMisses = []string{
	"",
	"\n",
	" \n\t\n",
	"@include \"a.mro\"\n",
	"@include \"a.mro\"\n@include \"b.mro\"\n",
	"@include \"a.mro\"\nfiletype a;\n",
	"@include \"a.mro\"\n\n\n@include \"b/c.mro\"\nfiletype a;\n",
	"@include\"a.mro\"filetype a;",
	"@include \"a.mro\"\ncall A()\n",
	"@include \"a.mro\"\nstruct S(int x,)\n",
	"@include \"a.mro\"\nstage T(in int a, src py \"x\",)\n",
	"@include \"a.mro\"\npipeline P(in int a,){return ()}\n",
	"@include \"a.mro\"\n[1]\n",
	"@include \"a.mro\" \"b.mro\"\nfiletype a;\n",
	"@include\nfiletype a;\n",
	"@include a.mro\nfiletype a;\n",
	"@include 1\nfiletype a;\n",
	"@include @include \"a\"\nfiletype a;\n",
	"@includex \"a\"\nfiletype a;\n",
	"@include_ \"a\"\nfiletype a;\n",
	"@includ \"a\"\nfiletype a;\n",
	"@ include \"a\"\nfiletype a;\n",
	"@Include \"a\"\nfiletype a;\n",
	"include \"a\"\nfiletype a;\n",
	"filetype a;\n@include \"a\"\n",
	"filetype a;\n@include \"a\"\nfiletype b;\n",
	"call A()\n@include \"a\"\n",
	"call A()\n",
	"call A()\nfiletype a;\n",
	"call A()\nstage T(in int a, src py \"x\",)\n",
	"call A()\ncall B()\n",
	"filetype a;\ncall A()\ncall B()\n",
	"filetype a;\ncall A()\n",
	"filetype a;\ncall A()\nfiletype b;\n",
	"map call A(x = split [1],)\n",
	"filetype a;\nmap call A(x = split [1],)\n",
	"call local A()\n",
	"call A() using (local = true,) using (volatile = true,)\n",
	"stage T(in int a, src py \"x\",)\ncall T(a = 1,)\n",
	"stage T(in int a, src py \"x\",) using (mem_gb = 2,)\ncall T(a = 1,)\n",
	"stage T(in int a, src py \"x\",)\nusing (mem_gb = 2,)\n",
	"stage T(in int a, src py \"x\",) retain ()\nfiletype split;\n",
	"stage T(in int a, src py \"x\",)\nfiletype split;\n",
	"stage T(in int a, src py \"x\",)\nstruct using(int retain,)\n",
	"stage T(in int a, src py \"x\",)\nsplit\n",
	"1\n",
	"[1]",
	"{}",
	"\"a\"",
	"null",
	"true",
	"self",
	"a.b",
	"filetype",
	"struct",
	"stage",
	"pipeline",
	"filetype a;\n1\n",
	"filetype a;\nfiletype a;\n",
	"filetype a; filetype b.c; struct S(int x,) struct T(S y,) call A()",
	"struct S(int x,)\nfiletype a;\nstruct T(int y,)\nfiletype b;\n",
	"pipeline P(in int a,){return ()}\nstage T(in int a, src py \"x\",)\npipeline Q(in int a,){return ()}\n",
	"stage T(in int a, src py \"x\",)\npipeline P(in int a,){return ()}\nstage U(in int a, src py \"x\",)\n",
	"pipeline P(in int a,){call B(x = A.o,) call A(x = self.a,) return ()}\nfiletype a;\ncall P(a = 1,)\n",
	"filetype a;\nstruct S(int x,)\nfiletype b.c;\nstage T(in int a, src py \"x\",)\nstruct U(int y,)\npipeline P(in int a,){return ()}\nstage V(in int a, src py \"x\",)\ncall P(a=1,)\n",
	"@include \"a\"\n\n\n\nfiletype a;\n\n\n\nfiletype b;\n\n\n\nstruct S(int x,)\nstruct T(int x,)\n\n\n\nstage T(in int a, src py \"x\",)\npipeline P(in int a,){return ()}\n\n\n\ncall P(a=1,)\n\n\n\n",
	"struct filetype(int struct,)\nfiletype struct;\nfiletype filetype.struct;\n",
	"filetype a\nfiletype b;\n",
	"filetype a;;\n",
	"struct S()\n",
	"stage T(in int a, src py \"x\",)\n}\n",
	"pipeline P(in int a,){return ()}}\n",
	"filetype a;\nreturn ()\n",
	"filetype a;\nretain ()\n",
	"Filetype a;\n",
	// bytes >= 0x80 between tokens: Unicode white space is skipped, anything else is INVALID
	"filetype\xc2\xa0a;\n", "\xe2\x80\xa8filetype a;\xe3\x80\x80\n", "filetype a\xe2\x80\x8b;\n", "filetype a;\xff\n", "\xef\xbb\xbffiletype a;\n", "filetype a\xc3\xa9;\n",
}

func c09File(c0 *Ctx) {
	// a generator of its own (seeded from VERIF_SEED), so that this part does not shift the random
	// stream of the monitors that run after it
	cc := *c0
	cc.Rng = rand.New(rand.NewSource(c0.Seed*1000003 + 0xf11e))
	c := &cc
	r := c.Res
	tStart := time.Now()
	mismatch := func(key, what, broken string, in map[string]interface{}, impl, model string) {
		r.violate(Violation{Kind: "correspondence", Key: key, What: what, Input: in, Impl: impl, Model: model, Broken: broken})
	}
	property := func(key, what string, in map[string]interface{}, impl string) {
		r.violate(Violation{Kind: "property", Key: key, What: what, Input: in, Impl: impl,
			Expect: "the formatter's output parses, is a fixed point of the formatter, and denotes the same file (up to call order inside a pipeline and the spelling of call modifiers)"})
	}
	const kFmt, kParse, kModel = "C09:file-format-mismatch", "C09:file-parse-mismatch", "C09:file-roundtrip-model"
	const bParse = "correspondence C09.parsefile (Martian.FormatFile.parseFile, distribute vs UncheckedParse: grammar.y file/includes/dec_list/dec, ast.go NewAst)"
	const bFmt = "correspondence C09.fmtfile (Martian.FormatFile.fmtFile vs formatter.go Ast.format, format_callable.go Callables.format)"

	n := 600
	if c.Thorough {
		n *= 20
	}

	// ---- pools of parts ----
	nT, nS, nG, nP, nC := n*3/2+60, n*3/2+60, n+50, n*3/4+40, n/2+8
	var cand []*c09fDecl
	var reqs [][]string
	for i := 0; i < nT+nT/8; i++ {
		d := &c09fDecl{kind: 'T'}
		k := 1 + c.Rng.Intn(3)
		if c.Rng.Intn(40) == 0 {
			k = 0
		}
		for j := 0; j < k; j++ {
			d.comps = append(d.comps, c09callId(c, 12))
		}
		d.enc = hxList(d.comps)
		cand = append(cand, d)
		reqs = append(reqs, []string{"C09.wffiletype", d.enc})
	}
	for i := 0; i < nS+nS/4; i++ {
		d := &c09fDecl{kind: 'S', sid: c09dIdent(c)}
		k := 1 + c.Rng.Intn(4)
		if c.Rng.Intn(50) == 0 {
			k = 0
		}
		for j := 0; j < k; j++ {
			d.sms = append(d.sms, c09dGenMember(c))
		}
		d.enc = c09dEncStruct(d.sid, d.sms)
		cand = append(cand, d)
		reqs = append(reqs, []string{"C09.wfstruct", d.enc})
	}
	for i := 0; i < nG+nG/4; i++ {
		d := &c09fDecl{kind: 'G', st: c09sGen(c)}
		d.enc = d.st.enc
		cand = append(cand, d)
		reqs = append(reqs, []string{"C09.wfstagedecl", d.enc})
	}
	pools := c09pMakePools(c, 4*(nP+nP/4)+8, nP+nP/4)
	for i := 0; i < nP+nP/4; i++ {
		d := &c09fDecl{kind: 'P', pl: c09pGen(c, pools)}
		d.enc = d.pl.enc()
		cand = append(cand, d)
		reqs = append(reqs, []string{"C09.wfpipeline", d.enc})
	}
	var calls []*c09c2Call
	for i := 0; i < 2*nC; i++ {
		k := c09c2GenCall(c)
		calls = append(calls, k)
		reqs = append(reqs, []string{"C09.wfcall2", k.enc()})
	}
	reps := c.Drv.AskBatch(reqs)
	byKind := map[byte]*c09fPool{'T': {}, 'S': {}, 'G': {}, 'P': {}}
	for i, d := range cand {
		p := byKind[d.kind]
		if reps[i] == "wf=true" {
			p.ok = append(p.ok, d)
		} else {
			p.any = append(p.any, d)
		}
	}
	var callsOK, callsAny []*c09c2Call
	for i, k := range calls {
		if reps[len(cand)+i] == "wf=true" {
			callsOK = append(callsOK, k)
		} else {
			callsAny = append(callsAny, k)
		}
	}
	r.note("file: pools of parts (%d candidates, model wf): %v", len(reqs), time.Since(tStart).Round(time.Millisecond))

	// ---- files ----
	t0 := time.Now()
	wsChoices := []string{"", "", "\n", "\n", "\n\n", " \n", "\t\n\n", "  "}
	cases := make([]*c09fCase, n)
	reqs = nil
	for i := range cases {
		f := &c09fCase{deep: i%4 == 0}
		for k := c.Rng.Intn(3); k > 0; k-- {
			p := c09fIncPaths[c.Rng.Intn(len(c09fIncPaths))]
			if c.Rng.Intn(60) == 0 {
				p = "bad\xffutf8.mro"
			}
			f.incs = append(f.incs, p)
		}
		add := func(kind byte) {
			if d := byKind[kind].take(c); d != nil {
				f.decls = append(f.decls, d)
			} else {
				r.hist("file:pool-exhausted:" + string(kind))
			}
		}
		nt, ns, ncl := c.Rng.Intn(4), c.Rng.Intn(4), []int{0, 1, 1, 1, 2, 2, 3, 4}[c.Rng.Intn(8)]
		for k := 0; k < nt; k++ {
			add('T')
		}
		for k := 0; k < ns; k++ {
			add('S')
		}
		for k := 0; k < ncl; k++ {
			if c.Rng.Intn(5) < 3 {
				add('G')
			} else {
				add('P')
			}
		}
		c.Rng.Shuffle(len(f.decls), func(a, b int) { f.decls[a], f.decls[b] = f.decls[b], f.decls[a] })
		if c.Rng.Intn(2) == 0 || (len(f.decls) == 0 && c.Rng.Intn(20) != 0) {
			if len(callsAny) > 0 && c.Rng.Intn(30) == 0 {
				f.call = callsAny[len(callsAny)-1]
				callsAny = callsAny[:len(callsAny)-1]
			} else if len(callsOK) > 0 {
				f.call = callsOK[len(callsOK)-1]
				callsOK = callsOK[:len(callsOK)-1]
			}
		}
		for _, p := range f.incs {
			f.items = append(f.items, "I"+hx(p))
		}
		for _, d := range f.decls {
			f.items = append(f.items, string(d.kind)+d.enc)
		}
		if f.call != nil {
			f.items = append(f.items, "C"+f.call.enc())
		}
		for range f.items {
			f.ws = append(f.ws, wsChoices[c.Rng.Intn(len(wsChoices))])
		}
		cases[i] = f
		f.aIdx = len(reqs)
		reqs = append(reqs, append([]string{"C09.fmtsource", "1", hxList(f.ws)}, f.items...),
			append([]string{"C09.fmtfile"}, f.items...), append([]string{"C09.wffile"}, f.items...))
		if f.deep {
			reqs = append(reqs, append([]string{"C09.normfile"}, f.items...))
		}
	}
	reps = c.Drv.AskBatch(reqs)
	r.note("file: model fmtsource/fmtfile/wffile (normfile for 1 in 4) of %d files: %v", n, time.Since(t0).Round(time.Millisecond))

	// a text known to the harness with what the model and the real code say about it
	type textCase struct {
		text    string
		which   string
		in      map[string]interface{}
		f       *c09fCase // nil: near miss
		mparse  string    // the model's parsefile (threads canonicalised)
		mfmt    string    // what the model says FormatSrcBytes returns for the text
		hasFmt  bool
		needFmt bool // ask the model to print what it read
	}
	var texts []*textCase
	addText := func(text, which string, f *c09fCase) *textCase {
		in := map[string]interface{}{"text": text, "which": which}
		if f != nil {
			in["file_items"] = strings.Join(f.items, "\t")
		}
		t := &textCase{text: text, which: which, in: in, f: f}
		texts = append(texts, t)
		return t
	}
	type perCase struct {
		src, fmtd, re *textCase
		nIdx          int // index of the first of the three requests about the normal form
	}
	pcs := make([]perCase, n)
	var reqsN [][]string
	for i, f := range cases {
		a := f.aIdx
		if strings.HasPrefix(reps[a], "bad") || strings.HasPrefix(reps[a+1], "bad") {
			mismatch(kModel, "the driver rejects the encoding of a generated file", "harness/driver encoding", map[string]interface{}{"file_items": strings.Join(f.items, "\t")}, "", reps[a]+" / "+reps[a+1])
			continue
		}
		f.src, f.fmtd, f.wf = unhx(reps[a]), unhx(reps[a+1]), reps[a+2] == "wf=true"
		// a well-formed file: the model says that every text of it formats to fmtd (theorems
		// format_preserves_program, format_file_idem; evaluated for 1 file in 4); otherwise the model
		// prints what it read
		pcs[i].src = addText(f.src, "model text, declarations and calls in source order", f)
		pcs[i].src.needFmt = !f.wf || f.deep
		if !pcs[i].src.needFmt {
			pcs[i].src.mfmt, pcs[i].src.hasFmt = f.fmtd, true
		}
		if f.deep {
			f.norm = reps[a+3]
			pcs[i].fmtd = addText(f.fmtd, "model text of the formatted file", f)
			pcs[i].fmtd.needFmt = true
			pcs[i].nIdx = len(reqsN)
			reqsN = append(reqsN, append([]string{"C09.fmtfile"}, strings.Split(f.norm, "\t")...),
				append([]string{"C09.wffile"}, strings.Split(f.norm, "\t")...),
				append([]string{"C09.normfile"}, strings.Split(f.norm, "\t")...))
		}
		// a respelling: every piece respelled, the declarations in the same source order
		if f.wf && c.Rng.Intn(3) == 0 {
			var sb strings.Builder
			ok := true
			for _, p := range f.incs {
				if !c09sSpellable(p) {
					ok = false
				}
				sb.WriteString([]string{"@include ", "@include", "@include\t", "  @include\n"}[c.Rng.Intn(4)] + c09callQuote(p) + []string{"\n", " ", "", "\n\n"}[c.Rng.Intn(4)])
			}
			for _, d := range f.decls {
				t, decoy := d.respell(c)
				if t == "" {
					ok = false
				}
				f.decoy = f.decoy || decoy
				sb.WriteString(t + []string{"\n", " ", "\n\n", "\t"}[c.Rng.Intn(4)])
			}
			if f.call != nil {
				s := &c09c2Sp{c: c}
				if s.call(f.call) {
					f.decoy = true
				}
				sb.WriteString(s.b.String() + []string{"\n", "", " \n"}[c.Rng.Intn(3)])
			}
			if ok {
				f.re = sb.String()
				t := addText(f.re, "respelling, declarations in source order", f)
				t.in["decoy_using_block"] = f.decoy
				t.needFmt = f.decoy
				if !f.decoy {
					t.mfmt, t.hasFmt = f.fmtd, true
				}
				pcs[i].re = t
			}
		}
	}
	nGen := len(texts)
	for _, t := range c09fNearMisses {
		addText(t, "near miss", nil).needFmt = true
	}

	// the model's parse of every text, the model's fmtFile of what it read
	t0 = time.Now()
	var reqsP [][]string
	for _, t := range texts {
		reqsP = append(reqsP, []string{"C09.parsefile", hx(t.text)})
	}
	repsP := c.Drv.AskBatch(append(reqsP, reqsN...))
	repsN := repsP[len(reqsP):]
	r.note("file: model parsefile of %d texts, fmtfile/wffile/normfile of %d normal forms: %v", len(texts), len(reqsN)/3, time.Since(t0).Round(time.Millisecond))
	t0 = time.Now()
	var reqsF [][]string
	var idxF []*textCase
	for j, t := range texts {
		// the parser stores the rounded value of `threads`, the model its text: print the canonical text
		t.mparse = c09fCanon(repsP[j])
		if t.needFmt && strings.HasPrefix(t.mparse, "some\t") {
			reqsF = append(reqsF, append([]string{"C09.fmtfile"}, strings.Split(strings.TrimPrefix(t.mparse, "some\t"), "\t")...))
			idxF = append(idxF, t)
		}
	}
	repsF := c.Drv.AskBatch(reqsF)
	for j, t := range idxF {
		t.mfmt, t.hasFmt = unhx(repsF[j]), true
	}
	r.note("file: model fmtfile of %d parsed texts: %v", len(reqsF), time.Since(t0).Round(time.Millisecond))

	// ---- the real code, each text parsed and formatted once ----
	t0 = time.Now()
	type realRes struct {
		ast          *syntax.Ast
		dump         string
		out          string
		err          error
		pan          string
		parsed, fmtd bool
	}
	cache := map[string]*realRes{}
	get := func(text string) *realRes {
		x := cache[text]
		if x == nil {
			x = &realRes{}
			cache[text] = x
		}
		return x
	}
	realParse := func(text string) *realRes {
		x := get(text)
		if !x.parsed {
			x.parsed = true
			ast, err, pan := c09Parse([]byte(text), "file.mro")
			switch {
			case pan != "":
				x.dump = "panic: " + pan
			case err != nil || ast == nil:
				x.dump = "none"
			default:
				x.ast, x.dump = ast, c09fDumpAst(ast)
			}
		}
		return x
	}
	realFormat := func(text string) *realRes {
		x := get(text)
		if !x.fmtd {
			x.fmtd = true
			x.out, x.err, x.pan = c09Format([]byte(text), "file.mro")
		}
		return x
	}
	monitors := func(t *textCase, out string) {
		in := map[string]interface{}{"source": t.text, "which": t.which, "formatted": out}
		x0, x1 := realParse(t.text), realParse(out)
		if x0.ast == nil {
			return
		}
		if x1.ast == nil {
			property("C09:file-ast-changed", "the formatted file is rejected by the parser", in, x1.dump)
			return
		}
		if d := c09DiffDump(c09Dump(x0.ast, true), c09Dump(x1.ast, true)); d != "" {
			property("C09:file-ast-changed", "formatting changed the file (compared up to call order and the spelling of modifiers): "+d, in, d)
		}
		if y := realFormat(out); y.pan != "" || y.err != nil || y.out != out {
			in["formatted_twice"] = c09c2Impl(y.out, y.err, y.pan)
			property("C09:file-not-idempotent", "format(format(x)) differs from format(x) for a whole file", in, c09c2Impl(y.out, y.err, y.pan))
		}
	}
	realDump := map[*textCase]string{}
	for j, t := range texts {
		kind := "gen"
		if j >= nGen {
			kind = "near-miss"
			r.count("filenm:"+t.text, true)
		}
		real := realParse(t.text).dump
		realDump[t] = real
		r.hist("file-text:" + kind + ":real=" + strings.SplitN(strings.SplitN(real, "\t", 2)[0], " ", 2)[0])
		if strings.HasPrefix(real, "panic:") {
			property("C09:file-parser-panic", "the parser panics", t.in, real)
			continue
		}
		if real != t.mparse {
			mismatch(kParse, "the file the real parser reads (Includes, UserTypes, StructTypes, Callables.List in order, Call) differs from the model's parseFile", bParse, t.in, real, t.mparse)
			continue
		}
		if !strings.HasPrefix(real, "some\t") {
			continue
		}
		y := realFormat(t.text)
		if y.pan != "" || y.err != nil || !t.hasFmt || y.out != t.mfmt {
			what := "FormatSrcBytes differs from the model's fmtFile of the file read from the text"
			if t.f != nil && t.f.wf {
				what = "FormatSrcBytes on a text of a well-formed file differs from the model's fmtFile of the parts (regrouping: includes, filetypes, structs, callables, call)"
			}
			mismatch(kFmt, what, bFmt, t.in, c09c2Impl(y.out, y.err, y.pan), t.mfmt)
			continue
		}
		if t.f == nil || t.f.wf {
			monitors(t, y.out)
		}
	}
	r.note("file: real parser/formatter and monitors on %d texts: %v", len(texts), time.Since(t0).Round(time.Millisecond))

	// ---- generated files: theorems evaluated ----
	for i, f := range cases {
		src, fmtd, re := pcs[i].src, pcs[i].fmtd, pcs[i].re
		if src == nil {
			continue
		}
		nst, npl := 0, 0
		for _, d := range f.decls {
			switch d.kind {
			case 'G':
				nst++
			case 'P':
				npl++
			}
		}
		regrouped := f.src != f.fmtd
		r.hist(fmt.Sprintf("file:wf=%v,includes=%v,call=%v,regrouped=%v", f.wf, len(f.incs) > 0, f.call != nil, regrouped))
		r.hist(fmt.Sprintf("file:decls=%d", len(f.decls)))
		r.hist(fmt.Sprintf("file:stages=%d,pipelines=%d", nst, npl))
		r.count("file:"+strings.Join(f.items, "\t"), len(f.items) > 1)
		if i%199 == 0 {
			r.sample(map[string]string{"file_source_order": f.src, "formatted": f.fmtd})
		}
		in := map[string]interface{}{"file_items": strings.Join(f.items, "\t"), "text": f.src}
		if !f.wf {
			continue
		}
		if !strings.HasPrefix(realDump[src], "some\t") {
			mismatch(kParse, "the model's source text of a well-formed file is rejected by the real parser", bParse, in, realDump[src], "some …")
		}
		if re != nil && !strings.HasPrefix(realDump[re], "some\t") {
			mismatch(kParse, "a respelling of a well-formed file is rejected", bParse, re.in, realDump[re], "some …")
		}
		if !f.deep {
			continue
		}
		fmtNorm, wfNorm, normNorm := repsN[pcs[i].nIdx], repsN[pcs[i].nIdx+1], repsN[pcs[i].nIdx+2]
		if src.hasFmt && src.mfmt != f.fmtd {
			mismatch(kModel, "the model formats the file it reads from its own source text differently from the file (theorem format_preserves_program evaluated)", "Props.C09.format_preserves_program", in, "", src.mfmt+" / expected "+f.fmtd)
		}
		if fmtd.mparse != c09fCanon("some\t"+f.norm) {
			mismatch(kModel, "parseFile (fmtFile f) is not normFile f for a well-formed file (theorem parse_format_file evaluated)", "Props.C09.parse_format_file", in, "", fmtd.mparse+" / expected some\t"+f.norm)
		}
		if fmtd.hasFmt && fmtd.mfmt != f.fmtd {
			mismatch(kModel, "fmtFile of what the model reads from fmtFile f differs from fmtFile f (theorem format_parse_format_file evaluated)", "Props.C09.format_parse_format_file", in, "", fmtd.mfmt+" / expected "+f.fmtd)
		}
		if unhx(fmtNorm) != f.fmtd {
			mismatch(kModel, "fmtFile (normFile f) differs from fmtFile f (theorem format_file_idem evaluated)", "Props.C09.format_file_idem", in, "", unhx(fmtNorm)+" / expected "+f.fmtd)
		}
		if wfNorm != "wf=true" || normNorm != f.norm {
			mismatch(kModel, "normFile f is not well formed or not a fixed point (theorem normFile_stable evaluated)", "Props.C09.normFile_stable", in, "", wfNorm+" "+normNorm)
		}
	}
	r.note("file: %d files, %d texts in all: %v", n, len(texts), time.Since(tStart).Round(time.Millisecond))

	// ---- D. accepted file texts: the hypotheses of Props.C09 section AcceptedFileTexts ----
	// On the file the REAL parser returned for every accepted generated / respelled / near-miss text
	// (and for the probe texts of c09fHypProbes, the witnesses of the section) the driver evaluates
	// fileStrsValid (F6b), fileNoNegZero (F26), fileMBValid (F25), fileMB32Valid (F29),
	// fileModsDistinct (F40), fileCallsDistinct (F34) and wfFile (op C09.filehyps): all hypotheses
	// true but wfFile false refutes parse_produces_wf_file_partial as a description of the real
	// parser (C09:accepted-file-not-wf), and so does the reverse.  The reader of the float32
	// variant (parseFile32, op C09.parsefile32) must return what the real parser returns on every
	// text.  The sample text of the section goes through the real parser and formatter.
	t0 = time.Now()
	var hk, hd, ht []string
	for j, t := range texts {
		kind := "gen"
		if j >= nGen {
			kind = "near-miss"
		}
		hk, hd, ht = append(hk, kind), append(hd, realDump[t]), append(ht, t.text)
	}
	for _, t := range c09fHypProbes {
		x := realParse(t)
		if !strings.HasPrefix(x.dump, "some\t") {
			mismatch("C09:accepted-file-not-wf", "probe text of section AcceptedFileTexts is rejected by the real parser", c09ftBroken, map[string]interface{}{"text": t}, x.dump, "some …")
			continue
		}
		hk, hd, ht = append(hk, "probe"), append(hd, x.dump), append(ht, t)
	}
	nAcc := c09fAcceptedHyps(c, hk, hd, ht)
	// the repo's own .mro files (third audit A10): which hypothesis of the text-side file theorem
	// fails on them - histogram only (they hold comments and may use constructs the dump does not carry)
	if seeds, _ := c08LoadSeeds(c); len(seeds) > 0 {
		var creqs [][]string
		var cnames []string
		for _, sd := range seeds {
			x := realParse(string(sd.src))
			if !strings.HasPrefix(x.dump, "some\t") {
				r.hist("corpus-mro:not-a-file-for-the-real-parser-or-outside-the-dump")
				continue
			}
			creqs = append(creqs, append([]string{"C09.filehyps"}, strings.Split(strings.TrimPrefix(x.dump, "some\t"), "\t")...))
			cnames = append(cnames, sd.name)
		}
		for j, rep := range c.Drv.AskBatch(creqs) {
			f := map[string]string{}
			for _, w := range strings.Fields(rep) {
				if kv := strings.SplitN(w, "=", 2); len(kv) == 2 {
					f[kv[0]] = kv[1]
				}
			}
			var failed []string
			for _, k := range [][2]string{{"strs", "F6b"}, {"nonegz", "F26"}, {"mb", "F25"}, {"mb32", "F29"}, {"dist", "F40"}, {"calls", "F34"}} {
				if v, ok := f[k[0]]; ok && v != "true" {
					failed = append(failed, "not-"+k[0]+"("+k[1]+")")
				}
			}
			combo := "all-hypotheses"
			if len(f) == 0 {
				combo = "bad-reply"
			} else if len(failed) > 0 {
				combo = strings.Join(failed, ",")
			}
			r.hist("corpus-mro:" + combo + ":wf=" + f["wf"])
			if combo != "all-hypotheses" || f["wf"] != "true" {
				r.note("corpus .mro file %s: filehyps %s", cnames[j], rep)
			}
		}
	}
	c09fSample(c)
	r.note("file: hypotheses of the text-side theorems on %d accepted texts (of %d), parsefile32 on all, sample text: %v", nAcc, len(ht), time.Since(t0).Round(time.Millisecond))
}

const c09ftBroken = "Props.C09.parse_produces_wf_file_partial"

// c09fHypProbes: small accepted FILE texts on which exactly one hypothesis of the text-side theorems
// fails (the negative witnesses of Props.C09 section AcceptedFileTexts and variants in other
// parts of a file), and texts far from the canonical spelling on which all hold
var c09fHypProbes = []string{
	"@include \"\\xff\"\nfiletype a;",
	"@include \"a\"\n@include \"\\377\\376\"\ncall A()",
	"struct S(int a \"\\xff\",)\nfiletype a;",
	"stage S(in int a \"h\", out int b \"\" \"\\xfe\", src py \"x\",)\n",
	"stage S(src py \"x\\xff\",)\n",
	"stage S(src py \"x\",) using (special = \"\\xff\",)\n",
	"filetype a;\npipeline P(in int a, out int r,) { call X(a = B.o,) call Y as X() call C(c = X.o,) call B() return (r = C.o,) }",
	"stage S(src py \"x\",) using (mem_gb = 9007199254740992,)\ncall S()",
	"stage S(src py \"x\",) using (vmem_gb = -9007199254740993,)\n",
	"filetype a;\nstage S(src py \"x\",) using (mem_gb = 256.04296875,)",
	"filetype a;\nstage S(src py \"x\",) using (mem_gb = 0.5000000001,)",
	"filetype a;\ncall X(a = -0.0,)",
	"filetype a;\ncall X() using (local = true, local = false,)",
	"pipeline P(in int a,) { call X(a = [-0e0],) using (volatile = true, volatile = true,) return () }\ncall P(a = \"\\xff\",)",
	"filetype a;\ncall local X() using (local = false,)",
}

// c09fAcceptedHyps: the driver's filehyps on the dump of every accepted text (dumps[i] starts with
// "some\t"; the others are skipped), and parsefile32 on every text; returns the number of accepted texts
func c09fAcceptedHyps(c *Ctx, kinds, dumps, texts []string) int {
	r := c.Res
	var reqs [][]string
	var idx []int
	for i, d := range dumps {
		if strings.HasPrefix(d, "some\t") {
			reqs = append(reqs, append([]string{"C09.filehyps"}, strings.Split(strings.TrimPrefix(d, "some\t"), "\t")...))
			idx = append(idx, i)
		}
	}
	nAcc := len(reqs)
	for _, t := range texts {
		reqs = append(reqs, []string{"C09.parsefile32", hx(t)})
	}
	reps := c.Drv.AskBatch(reqs)
	for j, i := range idx {
		rep := reps[j]
		f := map[string]string{}
		for _, w := range strings.Fields(rep) {
			if kv := strings.SplitN(w, "=", 2); len(kv) == 2 {
				f[kv[0]] = kv[1]
			}
		}
		in := map[string]interface{}{"text": texts[i], "file_items": strings.TrimPrefix(dumps[i], "some\t")}
		wf, ok := f["wf"]
		if !ok || f["hyps"] == "" || f["hyps32"] == "" {
			r.violate(Violation{Kind: "correspondence", Key: "C09:accepted-file-not-wf", What: "bad reply of the driver to C09.filehyps", Input: in, Model: rep, Broken: c09ftBroken})
			continue
		}
		var failed []string
		for _, k := range [][2]string{{"strs", "F6b"}, {"nonegz", "F26"}, {"mb", "F25"}, {"mb32", "F29"}, {"dist", "F40"}, {"calls", "F34"}} {
			if f[k[0]] != "true" {
				failed = append(failed, "not-"+k[0]+"("+k[1]+")")
			}
		}
		combo := "all-hypotheses"
		if len(failed) > 0 {
			combo = strings.Join(failed, ",")
		}
		r.hist("accepted-file:" + kinds[i] + ":" + combo + ":wf=" + wf)
		all := f["hyps"] == "true"
		if all != (f["strs"] == "true" && f["nonegz"] == "true" && f["mb32"] == "true" && f["dist"] == "true" && f["calls"] == "true") || // fileHyps carries fileMB32Valid (F29's range = wfMB; F25 subsumed)
			(f["hyps32"] == "true") != (all && f["mb32"] == "true") || (f["mb32"] == "true" && f["mb"] != "true") {
			r.violate(Violation{Kind: "correspondence", Key: "C09:accepted-file-not-wf", What: "fileHyps / fileHyps32 are not the conjunctions of their parts, or fileMB32Valid does not imply fileMBValid", Input: in, Model: rep, Broken: "Props.C09.fileHyps32_implies"})
		}
		if all && wf != "true" {
			r.violate(Violation{Kind: "correspondence", Key: "C09:accepted-file-not-wf",
				What:  "the real parser accepts a file text whose AST satisfies every hypothesis of the text-side theorem (fileHyps: strings valid, no -0, mem_gb/vmem_gb in range, distinct modifier ids, distinct call ids) but not the model's wfFile",
				Input: in, Model: rep, Broken: c09ftBroken})
		}
		if !all && wf == "true" {
			r.violate(Violation{Kind: "correspondence", Key: "C09:accepted-file-not-wf",
				What:  "the model's wfFile holds although a hypothesis of the text-side theorem fails (wfFile implies every conjunct of fileHyps)",
				Input: in, Model: rep, Broken: c09ftBroken})
		}
	}
	// the reader of the float32 variant against the real parser, on every text (accepted or not)
	for i, t := range texts {
		m32 := c09ftCanonFloats(c09fCanon(reps[nAcc+i]))
		if strings.HasPrefix(dumps[i], "panic:") {
			continue
		}
		if m32 != dumps[i] {
			r.violate(Violation{Kind: "correspondence", Key: "C09:file-parse-mismatch",
				What:  "the file the real parser reads differs from the model's parseFile32 (the reader of format_preserves_accepted_file32_partial: mem_gb / vmem_gb through the float32 rounding of the literal)",
				Input: map[string]interface{}{"text": t, "which": kinds[i]}, Impl: dumps[i], Model: m32,
				Broken: "correspondence C09.parsefile32 (Martian.FormatFile.parseFile32 vs UncheckedParse)"})
		}
	}
	return nAcc
}

// c09ftCanonFloats rewrites the float leaves of the pipeline and call items of a model reply (the
// model keeps the token text, the parser holds a float64 and prints it with 'g': c09xCanonFloats)
func c09ftCanonFloats(rep string) string {
	if !strings.HasPrefix(rep, "some\t") {
		return rep
	}
	items := strings.Split(rep, "\t")
	for i, it := range items {
		if strings.HasPrefix(it, "P") || strings.HasPrefix(it, "C") {
			items[i] = c09xCanonFloats(it)
		}
	}
	return strings.Join(items, "\t")
}

// c09fStripComments removes the lines that hold only a comment (the model has no comments; the real
// formatter keeps the comments of the source on lines of their own)
func c09fStripComments(s string) string {
	var out []string
	for _, l := range strings.Split(s, "\n") {
		if strings.HasPrefix(strings.TrimSpace(l), "#") {
			continue
		}
		out = append(out, l)
	}
	return strings.Join(out, "\n")
}

// c09fSample: the sample text of Props.C09 section AcceptedFileTexts (driver op C09.filesample) is
// accepted by the real parser, the file it returns is what the model's parseFile32 returns, satisfies
// every hypothesis, and the real formatter's output is, comments aside, the canonical text of the
// example (which the kernel shows to be the model's fmtFile of what the model read)
func c09fSample(c *Ctx) {
	r := c.Res
	bad := func(what string, in map[string]interface{}, impl, model string) {
		r.violate(Violation{Kind: "correspondence", Key: "C09:file-format-mismatch", What: "sample text of Props.C09 (AcceptedFileTexts): " + what,
			Input: in, Impl: impl, Model: model, Broken: "Props.C09 (AcceptedFileTexts) non-vacuity example vs the real code"})
	}
	w := strings.Fields(c.Drv.AskBatch([][]string{{"C09.filesample"}})[0])
	if len(w) != 2 {
		bad("bad reply of the driver to C09.filesample", nil, "", strings.Join(w, " "))
		return
	}
	src, canon := unhx(w[0]), unhx(w[1])
	in := map[string]interface{}{"text": src}
	dump := c09fDump(src)
	if !strings.HasPrefix(dump, "some\t") {
		bad("rejected by the real parser", in, dump, "some …")
		return
	}
	if n := c09fAcceptedHyps(c, []string{"sample"}, []string{dump}, []string{src}); n != 1 {
		return
	}
	items := strings.Split(strings.TrimPrefix(dump, "some\t"), "\t")
	reps := c.Drv.AskBatch([][]string{append([]string{"C09.filehyps"}, items...), append([]string{"C09.fmtfile"}, items...)})
	if !strings.Contains(reps[0], "hyps=true hyps32=true wf=true") {
		bad("the file the real parser returns does not satisfy every hypothesis", in, dump, reps[0])
	}
	if unhx(reps[1]) != canon {
		bad("the model's fmtFile of the file the real parser returns is not the canonical text of the example", in, unhx(reps[1]), canon)
	}
	out, err, pan := c09Format([]byte(src), "file.mro")
	r.hist("accepted-file:sample-text-formatted")
	if pan != "" || err != nil || c09fStripComments(out) != canon {
		bad("the real formatter's output (lines holding only a comment removed) is not the canonical text of the example", in, c09c2Impl(out, err, pan), canon)
	}
	// the canonical text is a fixed point of the real formatter
	if out2, err2, pan2 := c09Format([]byte(canon), "file.mro"); pan2 != "" || err2 != nil || out2 != canon {
		bad("the canonical text of the example is not a fixed point of the real formatter", map[string]interface{}{"text": canon}, c09c2Impl(out2, err2, pan2), canon)
	}
}
