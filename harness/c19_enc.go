package main

// C19: compact textual encoding of an (uncompiled) MRO AST for the Lean model
// (lean/Martian/Refactor.lean, parser in lean/Driver/C19.lean).
//
//   prog     := callable* top
//   callable := ( S name flags ( in* ) ( out* ) ( retainedparam* ) )
//             | ( P name flags ( in* ) ( out* ) ( call* ) ( bind* ) ( ref* ) )
//   in       := name          out := name | name!      (! = has a keep comment)
//   call     := ( id decId flags ( bind* ) ( bind* ) )   -- bindings, modifier bindings
//   bind     := ( name exp )                             -- name `*` = wildcard
//   exp      := ( L hex ) | ( S id path* ) | ( C id path* ) | ( A exp* )
//             | ( M ( hexkey exp )* ) | ( T ( hexkey exp )* ) | ( X exp )
//   ref      := ( S id path* ) | ( C id path* )
//   top      := @ call | -
//   flags    := letters from {m (map call), p (preflight), k (keep comment)} or -
// Tokens are separated by single spaces; an empty identifier is written `-`.

import (
	"sort"
	"strings"

	"github.com/martian-lang/martian/martian/syntax"
	"github.com/martian-lang/martian/martian/syntax/refactoring"
)

type c19Enc struct{ sb strings.Builder }

func (e *c19Enc) tok(s string) {
	if e.sb.Len() > 0 {
		e.sb.WriteByte(' ')
	}
	if s == "" {
		s = "-"
	}
	e.sb.WriteString(s)
}

func (e *c19Enc) ref(r *syntax.RefExp) {
	e.tok("(")
	if r.Kind == syntax.KindSelf {
		e.tok("S")
	} else {
		e.tok("C")
	}
	e.tok(r.Id)
	if r.OutputId != "" {
		for _, p := range strings.Split(r.OutputId, ".") {
			e.tok(p)
		}
	}
	e.tok(")")
}

func (e *c19Enc) exp(x syntax.Exp) {
	switch x := x.(type) {
	case *syntax.RefExp:
		e.ref(x)
	case *syntax.ArrayExp:
		e.tok("(")
		e.tok("A")
		for _, v := range x.Value {
			e.exp(v)
		}
		e.tok(")")
	case *syntax.MapExp:
		e.tok("(")
		if x.Kind == syntax.KindStruct {
			e.tok("T")
		} else {
			e.tok("M")
		}
		keys := make([]string, 0, len(x.Value))
		for k := range x.Value {
			keys = append(keys, k)
		}
		sort.Strings(keys)
		for _, k := range keys {
			e.tok("(")
			e.tok(hx(k))
			e.exp(x.Value[k])
			e.tok(")")
		}
		e.tok(")")
	case *syntax.SplitExp:
		e.tok("(")
		e.tok("X")
		e.exp(x.Value)
		e.tok(")")
	default:
		e.tok("(")
		e.tok("L")
		e.tok(hx(syntax.FormatExp(x, "")))
		e.tok(")")
	}
}

func (e *c19Enc) binds(b *syntax.BindStms) {
	e.tok("(")
	if b != nil {
		for _, s := range b.List {
			e.tok("(")
			e.tok(s.Id)
			e.exp(s.Exp)
			e.tok(")")
			if s.Id == "*" {
				break // anything after the wildcard is a compiler-generated binding
			}
		}
	}
	e.tok(")")
}

func c19IsTrue(x syntax.Exp) bool {
	b, ok := x.(*syntax.BoolExp)
	return ok && b.Value
}

func (e *c19Enc) call(c *syntax.CallStm) {
	e.tok("(")
	e.tok(c.Id)
	e.tok(c.DecId)
	flags := ""
	if c.CallMode() != syntax.ModeSingleCall {
		flags += "m"
	}
	if c.Modifiers != nil && c.Modifiers.Bindings != nil {
		for _, b := range c.Modifiers.Bindings.List {
			if b.Id == "preflight" && c19IsTrue(b.Exp) {
				flags += "p"
			}
		}
	}
	if refactoring.HasKeepComment(c) {
		flags += "k"
	}
	e.tok(flags)
	e.binds(c.Bindings)
	if c.Modifiers != nil {
		e.binds(c.Modifiers.Bindings)
	} else {
		e.binds(nil)
	}
	e.tok(")")
}

func c19Encode(ast *syntax.Ast) string {
	var e c19Enc
	for _, c := range ast.Callables.List {
		e.tok("(")
		flags := ""
		if refactoring.HasKeepComment(c) {
			flags = "k"
		}
		switch c := c.(type) {
		case *syntax.Stage:
			e.tok("S")
			e.tok(c.Id)
			e.tok(flags)
			e.params(c.InParams, c.OutParams)
			e.tok("(")
			if c.Retain != nil {
				for _, r := range c.Retain.Params {
					e.tok(r.Id)
				}
			}
			e.tok(")")
		case *syntax.Pipeline:
			e.tok("P")
			e.tok(c.Id)
			e.tok(flags)
			e.params(c.InParams, c.OutParams)
			e.tok("(")
			for _, call := range c.Calls {
				e.call(call)
			}
			e.tok(")")
			if c.Ret != nil {
				e.binds(c.Ret.Bindings)
			} else {
				e.binds(nil)
			}
			e.tok("(")
			if c.Retain != nil {
				for _, r := range c.Retain.Refs {
					e.ref(r)
				}
			}
			e.tok(")")
		}
		e.tok(")")
	}
	if ast.Call != nil {
		e.tok("@")
		e.call(ast.Call)
	} else {
		e.tok("-")
	}
	return e.sb.String()
}

func (e *c19Enc) params(ins *syntax.InParams, outs *syntax.OutParams) {
	e.tok("(")
	if ins != nil {
		for _, p := range ins.List {
			e.tok(p.Id)
		}
	}
	e.tok(")")
	e.tok("(")
	if outs != nil {
		for _, p := range outs.List {
			if refactoring.HasKeepComment(p) {
				e.tok(p.Id + "!")
			} else {
				e.tok(p.Id)
			}
		}
	}
	e.tok(")")
}
