package main

// Requests for the Lean model of the VDR bookkeeping (lean/Martian/Vdr.lean)
// built from what the real code did in one run, and the pure-function
// correspondences (pathIsInside, anyOverlap, mergeVDRKillReports, mergeEvents).

import (
	"encoding/json"
	"fmt"
	"os"
	"path"
	"sort"
	"strings"

	"github.com/martian-lang/martian/martian/core"
	"github.com/martian-lang/martian/martian/syntax"
)

func vdrHexAssoc(m map[string][]string, holder bool) string {
	if len(m) == 0 {
		return "."
	}
	keys := make([]string, 0, len(m))
	for k := range m {
		keys = append(keys, k)
	}
	sort.Slice(keys, func(i, j int) bool { return hx(keys[i]) < hx(keys[j]) })
	var parts []string
	for _, k := range keys {
		vs := make([]string, 0, len(m[k]))
		for _, x := range m[k] {
			if holder && x == "" {
				vs = append(vs, "~")
			} else {
				vs = append(vs, hx(x))
			}
		}
		sort.Strings(vs)
		v := "."
		if len(vs) > 0 {
			v = strings.Join(vs, ",")
		}
		parts = append(parts, hx(k)+"="+v)
	}
	return strings.Join(parts, ";")
}

func vdrHexPaths(ps []string) string {
	if len(ps) == 0 {
		return "."
	}
	c := append([]string(nil), ps...)
	sort.Strings(c)
	o := make([]string, len(c))
	for i, p := range c {
		o[i] = hx(p)
	}
	return strings.Join(o, ",")
}

// forkArgNames computes, at snapshot time, for every argument of interest the
// names the real bookkeeping finds in the fork's outs and which of them exist.
type vdrArgNames struct {
	Names map[string][]string
	Files map[string][]string
}

func (v *vdrRun) argNamesOf(node string, outs []byte, args []string) vdrArgNames {
	r := vdrArgNames{Names: map[string][]string{}, Files: map[string][]string{}}
	var val interface{}
	json.Unmarshal(outs, &val)
	for _, a := range args {
		names := core.VerifArgFileNames(outs, a)
		r.Names[a] = names
		for _, n := range names {
			r.Files[a] = append(r.Files[a], core.VerifLogicalFileNames(n)...)
		}
		// direct check of the name discovery against the value (spec: every
		// absolute path string, and every key that is one, inside the projected value)
		sub, _ := json.Marshal(v.specTypedPath(node, val, a))
		want := absStringsInJSON(sub)
		got := append([]string(nil), names...)
		sort.Strings(got)
		if strings.Join(uniqStrings(got), "\x00") != strings.Join(uniqStrings(want), "\x00") {
			if true {
				v.violate("C04", "correspondence", "C04:arg-file-names",
					fmt.Sprintf("the bookkeeping finds file names %v for output %s but its value names %v", got, a, want),
					map[string]interface{}{"outs": string(compactJSON(outs))})
			} else {
				v.hist("typed-map-key-equals-member-name")
			}
		}
	}
	return r
}

func uniqStrings(xs []string) []string {
	var out []string
	for i, x := range xs {
		if i == 0 || xs[i-1] != x {
			out = append(out, x)
		}
	}
	return out
}

func absStringsInJSON(b []byte) []string {
	var val interface{}
	if json.Unmarshal(b, &val) != nil {
		return nil
	}
	var out []string
	var rec func(x interface{})
	rec = func(x interface{}) {
		switch t := x.(type) {
		case string:
			if strings.HasPrefix(t, "/") {
				out = append(out, t)
			}
		case []interface{}:
			for _, y := range t {
				rec(y)
			}
		case map[string]interface{}:
			for k, y := range t {
				if strings.HasPrefix(k, "/") {
					out = append(out, k)
				}
				rec(y)
			}
		}
	}
	rec(val)
	sort.Strings(out)
	return out
}

// specTypedPath: the value of a dotted output id inside a fork's outs, using
// the declared types: projection takes a struct's member and maps over arrays
// and typed maps.
func (v *vdrRun) specTypedPath(node string, val interface{}, p string) interface{} {
	m, ok := val.(map[string]interface{})
	if !ok || p == "" {
		return val
	}
	head, rest := p, ""
	if i := strings.IndexByte(p, '.'); i >= 0 {
		head, rest = p[:i], p[i+1:]
	}
	stage := v.stageOfNode[node]
	if stage == nil {
		return specJSONPath(val, p)
	}
	var t syntax.Type
	for _, o := range stage.OutParams.List {
		if o.Id == head {
			t = v.r.Ast.TypeTable.Get(o.Tname)
		}
	}
	if t == nil {
		return nil
	}
	return v.typedProject(m[head], t, rest)
}

func (v *vdrRun) typedProject(val interface{}, t syntax.Type, p string) interface{} {
	if p == "" || val == nil {
		return val
	}
	lookup := &v.r.Ast.TypeTable
	switch tt := t.(type) {
	case *syntax.ArrayType:
		arr, ok := val.([]interface{})
		if !ok {
			return nil
		}
		var et syntax.Type = tt.Elem
		if tt.Dim > 1 {
			et = lookup.GetArray(tt.Elem, tt.Dim-1)
		}
		out := make([]interface{}, len(arr))
		for i, x := range arr {
			out[i] = v.typedProject(x, et, p)
		}
		return out
	case *syntax.TypedMapType:
		m, ok := val.(map[string]interface{})
		if !ok {
			return nil
		}
		out := map[string]interface{}{}
		for k, x := range m {
			out[k] = v.typedProject(x, tt.Elem, p)
		}
		return out
	case *syntax.StructType:
		m, ok := val.(map[string]interface{})
		if !ok {
			return nil
		}
		head, rest := p, ""
		if i := strings.IndexByte(p, '.'); i >= 0 {
			head, rest = p[:i], p[i+1:]
		}
		for _, mem := range tt.Members {
			if mem.Id == head {
				return v.typedProject(m[head], lookup.Get(mem.Tname), rest)
			}
		}
		return nil
	}
	return nil
}

type vdrForkDisk struct {
	ents []string // "hexpath:size:kind"
	rels []string
}

func (v *vdrRun) forkDisk(f *core.VerifVdrFork, tree map[string]vdrEnt, useEver bool) string {
	dir := v.rel(f.Path)
	var parts []string
	src := tree
	if useEver {
		src = v.ever
	}
	var rels []string
	for rel := range src {
		if strings.HasPrefix(rel, dir+"/") {
			rels = append(rels, rel)
		}
	}
	sort.Strings(rels)
	for _, rel := range rels {
		jd, region, ok := stageRegion(rel)
		if !ok || path.Dir(jd) != dir {
			continue
		}
		if useEver && v.resetGone[rel] {
			continue
		}
		job := path.Base(jd)
		kind := "o"
		if region == "tmp" {
			switch {
			case strings.HasPrefix(job, "split"):
				kind = "t0"
			case strings.HasPrefix(job, "chnk"):
				kind = "t1"
			default:
				kind = "t2"
			}
		} else if f.Split && strings.HasPrefix(job, "chnk") {
			kind = "c"
		}
		ent := fmt.Sprintf("%s:%d:%s", hx(path.Join(v.psdir, rel)), sizeAsWalked(rel, src[rel]), kind)
		if alts := src[rel].Alts; len(alts) > 0 {
			ent += ":" + hxList(alts)
		} else if !useEver && src[rel].Hash != 0 {
			ent += ":."
		}
		if !useEver && src[rel].Hash != 0 {
			ent += fmt.Sprint(":", src[rel].Hash)
		}
		parts = append(parts, ent)
	}
	if len(parts) == 0 {
		return "."
	}
	return strings.Join(parts, ";")
}

func (v *vdrRun) goneUnder(f *core.VerifVdrFork, before map[string]vdrEnt, after map[string]vdrEnt) []string {
	dir := v.rel(f.Path)
	var out []string
	for rel := range before {
		if !strings.HasPrefix(rel, dir+"/") {
			continue
		}
		if jd, _, ok := stageRegion(rel); !ok || path.Dir(jd) != dir {
			continue
		}
		if _, ok := after[rel]; !ok {
			out = append(out, path.Join(v.psdir, rel))
		}
	}
	return out
}

func vdrFlags(f *core.VerifVdrFork) string {
	b := func(x bool) string {
		if x {
			return "1"
		}
		return "0"
	}
	return b(f.Volatile) + b(f.StrictVolatile) + b(f.Split)
}

func (v *vdrRun) expectState(f *core.VerifVdrFork, removed []string, rep *vdrReport, newPaths []string) string {
	return v.expectStateH(f, removed, rep, newPaths, 0)
}

// keptHash: the sum of the CURRENT content hashes of the fork's entries of `before` that are still there in `after`.
func (v *vdrRun) keptHash(f *core.VerifVdrFork, before, after map[string]vdrEnt) uint64 {
	dir := v.rel(f.Path)
	var sum uint64
	for rel, e := range before {
		if !strings.HasPrefix(rel, dir+"/") || e.Hash == 0 {
			continue
		}
		if jd, _, ok := stageRegion(rel); !ok || path.Dir(jd) != dir {
			continue
		}
		if a, ok := after[rel]; ok {
			sum += uint64(a.Hash)
		}
	}
	return sum % 4294967296
}

func (v *vdrRun) expectStateH(f *core.VerifVdrFork, removed []string, rep *vdrReport, newPaths []string, kept uint64) string {
	cnt, size := uint64(0), uint64(0)
	if rep != nil {
		cnt, size = rep.Count, rep.Size
	}
	return fmt.Sprintf("final=%v removed=%s count=%d size=%d paths=%s kepthash=%d fileargs=%s postnodes=%s",
		f.HasKill, vdrHexPaths(removed), cnt, size, vdrHexPaths(vdrTopLevel(newPaths)), kept,
		vdrHexAssoc(f.FileArgs, true), vdrHexAssoc(f.FilePostNodes, false))
}

func (v *vdrRun) modelChecks() {
	v.relocReplay()
	v.modelChecksOn(v.preFinal, v.postKill, "final VDRKill", true)
}

// modelChecksOn: `pk` is the state right after a Pipestance.VDRKill performed
// in state `pre` (the final one, or one performed when the pipestance was
// found failed, before it is restarted).
func (v *vdrRun) modelChecksOn(pre, pk *vdrSnapshot, label string, lifeReplay bool) {
	if pre == nil || pk == nil {
		return
	}
	postByName := map[string]*core.VerifVdrFork{}
	for i := range pk.Forks {
		postByName[pk.Forks[i].Fqname] = &pk.Forks[i]
	}
	var done []string
	for n, st := range pre.Nodes {
		if st == core.Complete || st == core.DisabledState {
			done = append(done, n)
		}
	}
	sort.Strings(done)
	doneHex := "."
	if len(done) > 0 {
		o := make([]string, len(done))
		for i, d := range done {
			o[i] = hx(d)
		}
		doneHex = strings.Join(o, ",")
	}
	for i := range pre.Forks {
		f := &pre.Forks[i]
		if f.Kind != "stage" {
			continue
		}
		g := postByName[f.Fqname]
		if g == nil {
			continue
		}
		if f.State != core.Complete {
			if lifeReplay {
				v.hist("model-skip-fork-state-" + string(f.State))
			}
			continue
		}
		dir := v.rel(f.Path)
		outs := pre.Outs[dir]
		reportOf := func(s *vdrSnapshot) (*vdrReport, bool, map[string]bool) {
			if b, ok := s.Reports[dir+"/_vdrkill"]; ok {
				r, _ := parseVdrReport("_vdrkill", b)
				return r, true, nil
			}
			if b, ok := s.Reports[dir+"/_vdrkill.partial"]; ok {
				r, _ := parseVdrReport("_vdrkill.partial", b)
				var p struct {
					S bool `json:"ran_split"`
					C bool `json:"ran_chunks"`
					J bool `json:"ran_join"`
				}
				json.Unmarshal(b, &p)
				return r, false, map[string]bool{"0": p.S, "1": p.C, "2": p.J}
			}
			return nil, false, nil
		}
		postRep, _, _ := reportOf(pk)
		// ---- (A) one step of partialVdrKill from the real bookkeeping state
		if !f.HasKill {
			var args []string
			for a := range f.FileArgs {
				args = append(args, a)
			}
			sort.Strings(args)
			an := v.preArgNames(dir, outs, args)
			preRep, _, ranFlags := reportOf(pre)
			ran := ""
			for _, ph := range []string{"0", "1", "2"} {
				if ranFlags[ph] {
					ran += ph
				}
			}
			if ran == "" {
				ran = "."
			}
			repSoFar, nPrePaths := "0|0", 0
			if preRep != nil {
				repSoFar = fmt.Sprintf("%d|%d", preRep.Count, preRep.Size)
				nPrePaths = len(preRep.Paths)
			}
			cache := "none"
			if f.Cached {
				var es []string
				var ks []string
				for k := range f.FileParamMap {
					ks = append(ks, k)
				}
				sort.Strings(ks)
				for _, k := range ks {
					e := f.FileParamMap[k]
					as := "."
					if len(e.Args) > 0 {
						o := make([]string, len(e.Args))
						for i, a := range e.Args {
							o[i] = hx(a)
						}
						as = strings.Join(o, ",")
					}
					es = append(es, fmt.Sprintf("%s:%s:%d:%d", hx(k), as, e.Size, e.Count))
				}
				cache = "."
				if len(es) > 0 {
					cache = strings.Join(es, ";")
				}
			}
			var newPaths []string
			if postRep != nil {
				// (vdrKill puts the new paths before the partial report's, vdrKillSome after)
				had := map[string]int{}
				if preRep != nil {
					for _, p := range preRep.Paths {
						had[p]++
					}
				}
				for _, p := range postRep.Paths {
					if had[p] > 0 {
						had[p]--
					} else {
						newPaths = append(newPaths, p)
					}
				}
			}
			_ = nPrePaths
			req := []string{"C04.run", vdrFlags(f), vdrHexAssoc(an.Names, false), vdrHexAssoc(an.Files, false),
				vdrHexAssoc(f.FileArgs, true), vdrHexAssoc(f.FilePostNodes, false), cache,
				v.forkDisk(f, pre.Tree, false), ran, repSoFar, doneHex, "k"}
			v.res.Checks = append(v.res.Checks, VdrModelCheck{Name: "partialVdrKill_step", Req: req,
				Expect: v.expectStateH(g, v.goneUnder(f, pre.Tree, pk.Tree), postRep, newPaths, v.keptHash(f, pre.Tree, pk.Tree)),
				What:   "one partialVdrKill of " + f.Fqname + " (" + label + ") from the real bookkeeping state: removed entries, report totals and remaining bookkeeping"})
			if !lifeReplay {
				v.hist("model-step-at-failure")
			}
		} else if lifeReplay {
			v.hist("model-step-skipped-already-final")
		}
		if !lifeReplay {
			continue
		}
		// ---- (B) the whole life of the fork replayed from the initial bookkeeping
		init, ok := v.initView[f.Node]
		if !ok || v.reloc != nil {
			continue
		}
		crashed := v.r.Inc > 0 && !v.retried
		var args []string
		for a := range init.FileArgs {
			args = append(args, a)
		}
		sort.Strings(args)
		an := v.preArgNames(dir, outs, args)
		evs := []string{"y2", "e", "c"}
		if v.spec.FailConsumer != "" && v.faultKey != "" && v.retried {
			// a consumer failed, a kill pass ran while it awaited its retry, it was reset
			fn := v.faultKey
			if i := strings.Index(fn, ".fork"); i > 0 {
				fn = fn[:i]
			}
			evs = append(evs, "f"+hx(fn), "k", "R", "r"+hx(fn))
			v.hist("life-replay-with-failed-consumer")
		}
		if crashed || (v.spec.FailChunk && v.retried) {
			// mrp died (or was stopped after a failure) and was restarted: the bookkeeping is rebuilt
			evs = append(evs, "R")
			v.hist("life-replay-with-restart")
		}
		for _, d := range done {
			evs = append(evs, "d"+hx(d))
		}
		evs = append(evs, "k")
		var removed []string
		fdir := dir
		for rel := range v.ever {
			if !strings.HasPrefix(rel, fdir+"/") {
				continue
			}
			if jd, _, ok := stageRegion(rel); !ok || path.Dir(jd) != fdir {
				continue
			}
			if _, ok := pk.Tree[rel]; !ok {
				removed = append(removed, path.Join(v.psdir, rel))
			}
		}
		var allPaths []string
		if postRep != nil {
			allPaths = postRep.Paths
		}
		req := []string{"C04.run", vdrFlags(f), vdrHexAssoc(an.Names, false), vdrHexAssoc(an.Files, false),
			vdrHexAssoc(init.FileArgs, true), vdrHexAssoc(init.FilePostNodes, false), "none",
			v.forkDisk(f, nil, true), ".", "0|0", ".", strings.Join(evs, ",")}
		v.res.Checks = append(v.res.Checks, VdrModelCheck{Name: "fork_life_replay", Req: req, DiskOnly: v.r.Inc > 0,
			Expect: v.expectState(g, removed, postRep, allPaths),
			What:   "the whole VDR life of " + f.Fqname + " replayed from the initial bookkeeping (all consumers done, then the final kill): surviving entries, report totals, remaining bookkeeping"})
	}
}

// preArgNames: names/files were computed when the pre-final snapshot was taken.
func (v *vdrRun) preArgNames(dir string, outs []byte, args []string) vdrArgNames {
	r := vdrArgNames{Names: map[string][]string{}, Files: map[string][]string{}}
	all := v.preNames[dir]
	for _, a := range args {
		if all.Names != nil {
			if n, ok := all.Names[a]; ok {
				r.Names[a] = n
				r.Files[a] = all.Files[a]
				continue
			}
		}
		r.Names[a] = nil
	}
	return r
}

// collectPreNames runs at the pre-final snapshot (the files still exist).
func (v *vdrRun) collectPreNames(s *vdrSnapshot) {
	v.preNames = map[string]vdrArgNames{}
	for i := range s.Forks {
		f := &s.Forks[i]
		if f.Kind != "stage" {
			continue
		}
		dir := v.rel(f.Path)
		outs, ok := s.Outs[dir]
		if !ok {
			continue
		}
		set := map[string]bool{}
		for a := range f.FileArgs {
			set[a] = true
		}
		if init, ok := v.initView[f.Node]; ok {
			for a := range init.FileArgs {
				set[a] = true
			}
		}
		var args []string
		for a := range set {
			args = append(args, a)
		}
		sort.Strings(args)
		v.preNames[dir] = v.argNamesOf(f.Node, outs, args)
	}
}

var _ = os.Getenv

// vdrTopLevel: the listed paths that are not inside another listed path (the
// order and grouping of kill passes decides whether a nested path is listed
// separately; what was removed does not depend on it).
func vdrTopLevel(ps []string) []string {
	var out []string
	seen := map[string]bool{}
	for _, p := range ps {
		inside := false
		for _, q := range ps {
			if q != p && strings.HasPrefix(p, q+"/") {
				inside = true
			}
		}
		if !inside && !seen[p] {
			seen[p] = true
			out = append(out, p)
		}
	}
	return out
}
