package main

// Isolation and parallelism for Tier A: pipestances run in worker
// subprocesses (`harness -worker`), because the real runtime may end the
// process (util.Suicide, fatal runtime errors) — that must become an
// observation, not the end of the check.

import (
	"bufio"
	"crypto/sha1"
	"encoding/hex"
	"encoding/json"
	"fmt"
	"io"
	"os"
	"os/exec"
	"path/filepath"
	"regexp"
	"sort"
	"strings"
	"sync"
	"time"

	"github.com/martian-lang/martian/martian/core"
	"github.com/martian-lang/martian/martian/syntax"
)

// TASpec is one pipestance run, serialisable.
type TASpec struct {
	Index            int      `json:"index"`
	Name             string   `json:"name"`
	Src              string   `json:"src"`
	Seed             int64    `json:"seed"`
	VdrMode          string   `json:"vdr"`
	MroPaths         []string `json:"mropaths,omitempty"`
	CrashAt          []int    `json:"crash_at,omitempty"`
	CrashSurvive     float64  `json:"crash_survive"`
	Faults           []*Fault `json:"faults,omitempty"`
	InlineFinish     float64  `json:"inline_finish"`
	StartSeparate    float64  `json:"start_separate"`
	StepBias         float64  `json:"step_bias"`
	Adversarial      bool     `json:"adversarial"`
	ExtraFiles       bool     `json:"extra_files"`
	FullReset        bool     `json:"full_reset"`
	WantTree         bool     `json:"want_tree"`
	WantEvents       bool     `json:"want_events"`
	WantTrace        bool     `json:"want_trace"`
	CheckArgFiles    bool     `json:"check_arg_files"`
	WantNodes        bool     `json:"want_nodes"`
	RestartAfterFail bool     `json:"restart_after_fail"`
	PostProcessCrash int      `json:"postprocess_crash"`
	TimeoutS         int      `json:"timeout_s"`
	SlowJobs         string   `json:"slow_jobs,omitempty"` // TAOpts.SlowJobs
	Echo             bool     `json:"echo,omitempty"`      // stages named ECHO*: first output = first input
	Cluster          bool     `json:"cluster,omitempty"`   // TAOpts.Cluster
	AgeHeartbeats    bool     `json:"age_heartbeats,omitempty"`
}

type TreeEntry struct {
	Kind string `json:"kind"` // file dir link
	Size int64  `json:"size,omitempty"`
	Sum  string `json:"sum,omitempty"`
	Dest string `json:"dest,omitempty"`
}

// TAResult is everything a property may want to know about one run.
type TAResult struct {
	Index    int                  `json:"index"`
	Name     string               `json:"name"`
	Final    string               `json:"final"`
	ErrMsg   string               `json:"errmsg,omitempty"`
	Compile  string               `json:"compile,omitempty"` // compile / invoke error
	Events   []TAEvent            `json:"events,omitempty"`
	Trace    []string             `json:"trace,omitempty"`
	TopOuts  json.RawMessage      `json:"top_outs,omitempty"`
	Launches map[string]int       `json:"launches,omitempty"`
	Tree     map[string]TreeEntry `json:"tree,omitempty"` // relative to the pipestance dir
	Written  map[string]string    `json:"written,omitempty"`
	Missing  []string             `json:"missing,omitempty"` // "<job>: <file>" named in args but absent at launch
	PsDir    string               `json:"psdir"`
	LockLeft bool                 `json:"lock_left"`
	WallMs   int64                `json:"wall_ms"`
	Crashed  bool                 `json:"crashed,omitempty"` // worker process died while running this spec
	NEvents  int                  `json:"n_events"`
	Incs     int                  `json:"incs"`
	Nodes    []core.VerifNodeView `json:"nodes,omitempty"`
	FailMsgs []string             `json:"fail_msgs,omitempty"` // error text of each failed incarnation
}

func (f *Fault) MarshalJSON() ([]byte, error) {
	return json.Marshal(map[string]interface{}{"job": f.JobKey, "kind": f.Kind, "repeat": f.Repeat})
}

func (f *Fault) UnmarshalJSON(b []byte) error {
	var m struct {
		Job    string `json:"job"`
		Kind   string `json:"kind"`
		Repeat bool   `json:"repeat"`
	}
	if err := json.Unmarshal(b, &m); err != nil {
		return err
	}
	f.JobKey, f.Kind, f.Repeat = m.Job, m.Kind, m.Repeat
	return nil
}

var reUniqDir = regexp.MustCompile(`-u[0-9a-f]{10}`)

func fileSum(p string) string {
	b, err := os.ReadFile(p)
	if err != nil {
		return "?"
	}
	h := sha1.Sum(b)
	return hex.EncodeToString(h[:6])
}

func dirTree(root string) map[string]TreeEntry {
	out := map[string]TreeEntry{}
	n := 0
	filepath.Walk(root, func(p string, info os.FileInfo, err error) error {
		if err != nil || n > 20000 {
			return nil
		}
		rel, _ := filepath.Rel(root, p)
		if rel == "." {
			return nil
		}
		n++
		switch {
		case info.Mode()&os.ModeSymlink != 0:
			d, _ := os.Readlink(p)
			out[rel] = TreeEntry{Kind: "link", Dest: d}
		case info.IsDir():
			out[rel] = TreeEntry{Kind: "dir"}
		default:
			e := TreeEntry{Kind: "file", Size: info.Size()}
			base := filepath.Base(p)
			if !strings.HasPrefix(base, "_") || base == "_outs" || base == "_vdrkill" || base == "_vdrkill.partial" {
				e.Sum = fileSum(p)
			}
			out[rel] = e
		}
		return nil
	})
	return out
}

// collect file-looking strings from a JSON value
func jsonStrings(v interface{}, out *[]string) {
	switch t := v.(type) {
	case string:
		*out = append(*out, t)
	case []interface{}:
		for _, x := range t {
			jsonStrings(x, out)
		}
	case map[string]interface{}:
		for _, x := range t {
			jsonStrings(x, out)
		}
	}
}

func runSpec(spec *TASpec, scratch string) *TAResult {
	res := &TAResult{Index: spec.Index, Name: spec.Name}
	start := time.Now()
	opts := TAOpts{VdrMode: spec.VdrMode, MroPaths: spec.MroPaths, CrashSurvive: spec.CrashSurvive,
		Faults: spec.Faults, InlineFinish: spec.InlineFinish, StartSeparate: spec.StartSeparate,
		StepBias: spec.StepBias, Adversarial: spec.Adversarial, ExtraFiles: spec.ExtraFiles,
		FullReset: spec.FullReset, RestartAfterFail: spec.RestartAfterFail, PostProcessCrash: spec.PostProcessCrash}
	if len(spec.CrashAt) > 0 {
		opts.CrashAt = map[int]bool{}
		for _, c := range spec.CrashAt {
			opts.CrashAt[c] = true
		}
	}
	opts.SlowJobs = spec.SlowJobs
	opts.Cluster = spec.Cluster
	opts.AgeHeartbeats = spec.AgeHeartbeats
	var run *TARun
	if spec.Echo {
		// ECHO* stages (program families): the first output is the first input, so that run-time
		// flags / collections / key sets are chosen by the family instead of the fake stage's PRNG
		opts.OutsHook = func(job *TAJob, outs map[string]interface{}) {
			if run == nil || !strings.HasPrefix(job.StageName, "ECHO") || job.ShellName == "split" {
				return
			}
			stage, _ := run.Ast.Callables.Table[job.StageName].(*syntax.Stage)
			if stage == nil || len(stage.InParams.List) == 0 || len(stage.OutParams.List) == 0 {
				return
			}
			var args map[string]interface{}
			if json.Unmarshal(job.Args, &args) == nil {
				outs[stage.OutParams.List[0].Id] = args[stage.InParams.List[0].Id]
			}
		}
	}
	run, err := NewTARun(spec.Src, scratch, spec.Seed, opts)
	if err != nil {
		res.Final = "compile-error"
		res.Compile = err.Error()
		return res
	}
	defer run.Close()
	res.PsDir = run.PsDir
	if spec.CheckArgFiles {
		run.LaunchHook = func(job *TAJob) {
			var v interface{}
			if json.Unmarshal(job.Args, &v) != nil {
				return
			}
			var ss []string
			jsonStrings(v, &ss)
			for _, s := range ss {
				if strings.HasPrefix(s, run.PsDir+"/") {
					if _, err := os.Stat(s); err != nil {
						res.Missing = append(res.Missing, job.Key+": "+strings.TrimPrefix(s, run.PsDir+"/"))
					}
				}
			}
		}
	}
	to := time.Duration(spec.TimeoutS) * time.Second
	if to == 0 {
		to = 30 * time.Second
	}
	run.RunTimed(to)
	res.Final = run.Final
	res.ErrMsg = run.ErrMsg
	if len(res.ErrMsg) > 6000 {
		res.ErrMsg = res.ErrMsg[:6000]
	}
	res.NEvents = len(run.Events)
	res.Incs = run.Inc + 1
	if spec.WantEvents {
		res.Events = run.Events
	}
	if spec.WantTrace && run.Tracer != nil {
		res.Trace = run.Tracer.Lines
	}
	res.Launches = run.Launches
	res.FailMsgs = run.FailMsgs
	if spec.WantNodes && run.ps != nil && run.Final != "hang" && !strings.HasPrefix(run.Final, "panic") {
		func() {
			defer func() { recover() }()
			res.Nodes = run.ps.VerifNodes()
		}()
	}
	if outs, err := run.TopOuts(); err == nil {
		// make runs comparable: pipestance directory and attempt uniquifiers differ per run
		o := strings.ReplaceAll(string(outs), run.PsDir, "$PS")
		res.TopOuts = json.RawMessage(reUniqDir.ReplaceAllString(o, "-uX"))
	}
	if _, err := os.Lstat(filepath.Join(run.PsDir, "_lock")); err == nil {
		res.LockLeft = true
	}
	if spec.WantTree && run.Final != "hang" {
		if run.ps != nil {
			run.ps.VerifStorageBarrier()
		}
		res.Tree = dirTree(run.PsDir)
		res.Written = map[string]string{}
		for p, c := range run.Written {
			res.Written[strings.TrimPrefix(p, run.PsDir+"/")] = c
		}
	}
	res.WallMs = time.Since(start).Milliseconds()
	return res
}

// workerMain: read specs (JSON lines) on stdin, write "BEGIN <index>" then the result JSON line.
func workerMain() {
	taInit()
	// the parent creates (and removes) the scratch directory: it may have to kill this process,
	// and then no deferred call runs here
	scratch := os.Getenv("VERIF_WORKER_SCRATCH")
	if scratch == "" {
		var err error
		scratch, err = os.MkdirTemp("", "verif-worker-")
		if err != nil {
			fatal("%v", err)
		}
	}
	defer os.RemoveAll(scratch)
	in := bufio.NewReaderSize(os.Stdin, 1<<20)
	out := bufio.NewWriter(os.Stdout)
	for {
		line, err := in.ReadBytes('\n')
		if len(line) > 1 {
			var spec TASpec
			if json.Unmarshal(line, &spec) != nil {
				fatal("bad spec")
			}
			fmt.Fprintf(out, "BEGIN %d\n", spec.Index)
			out.Flush()
			res := runSpec(&spec, scratch)
			b, _ := json.Marshal(res)
			out.Write(b)
			out.WriteByte('\n')
			out.Flush()
			if res.Final == "hang" {
				// goroutines of the hung run are still alive: start afresh
				os.RemoveAll(scratch)
				os.Exit(7)
			}
		}
		if err != nil {
			return
		}
	}
}

// RunSpecs executes the specs in parallel worker processes and returns the
// results in spec order.  A spec during which the worker died gets
// Final="process-exit" and Crashed=true.
func RunSpecs(specs []*TASpec, parallel int) []*TAResult {
	results := make([]*TAResult, len(specs))
	for i, s := range specs {
		s.Index = i
	}
	if parallel < 1 {
		parallel = 1
	}
	var mu sync.Mutex
	next := 0
	take := func() *TASpec {
		mu.Lock()
		defer mu.Unlock()
		if next >= len(specs) {
			return nil
		}
		s := specs[next]
		next++
		return s
	}
	var wg sync.WaitGroup
	for w := 0; w < parallel; w++ {
		wg.Add(1)
		go func() {
			defer wg.Done()
			var cmd *exec.Cmd
			var stdin io.WriteCloser
			var rd *bufio.Reader
			var wscratch string
			dropScratch := func() {
				if wscratch != "" {
					os.RemoveAll(wscratch)
					wscratch = ""
				}
			}
			startWorker := func() {
				dropScratch()
				wscratch, _ = os.MkdirTemp(os.Getenv("VERIF_PARENT_SCRATCH"), "verif-worker-")
				cmd = exec.Command(os.Args[0], "-worker")
				cmd.Stderr = nil
				stdin, _ = cmd.StdinPipe()
				so, _ := cmd.StdoutPipe()
				rd = bufio.NewReaderSize(so, 1<<20)
				cmd.Env = append(os.Environ(), "GOMAXPROCS=2", "VERIF_WORKER_SCRATCH="+wscratch)
				if err := cmd.Start(); err != nil {
					fatal("worker: %v", err)
				}
			}
			stopWorker := func() {
				if cmd != nil {
					stdin.Close()
					cmd.Process.Kill()
					cmd.Wait()
					cmd = nil
				}
				dropScratch()
			}
			defer stopWorker()
			for {
				spec := take()
				if spec == nil {
					return
				}
				if cmd == nil {
					startWorker()
				}
				b, _ := json.Marshal(spec)
				stdin.Write(append(b, '\n'))
				var res *TAResult
				for {
					line, err := rd.ReadBytes('\n')
					if err != nil {
						break
					}
					if strings.HasPrefix(string(line), `{"index":`) {
						var r TAResult
						if json.Unmarshal(line, &r) == nil {
							res = &r
							break
						}
					}
				}
				if res == nil {
					res = &TAResult{Index: spec.Index, Name: spec.Name, Final: "process-exit", Crashed: true}
					cmd.Wait()
					if cmd.ProcessState != nil {
						res.ErrMsg = cmd.ProcessState.String()
					}
					cmd = nil
				} else if res.Final == "hang" {
					cmd.Wait()
					cmd = nil
				}
				results[spec.Index] = res
			}
		}()
	}
	wg.Wait()
	return results
}

func sortedKeys(m map[string]int) []string {
	ks := make([]string, 0, len(m))
	for k := range m {
		ks = append(ks, k)
	}
	sort.Strings(ks)
	return ks
}
