package main

// C04: correspondence of filepath.Clean / pathIsInside on uncleaned paths /
// getLogicalFileNames (real symlinks in a scratch directory) with the model
// (lean/Martian/VdrFs.lean).

import (
	"fmt"
	"os"
	"path/filepath"
	"sort"
	"strings"

	"github.com/martian-lang/martian/martian/core"
)

// an unclean spelling of a rooted path
func vdrUnclean(c *Ctx, p string, allowDotDot, allowTrailing bool) string {
	parts := strings.Split(strings.TrimPrefix(p, "/"), "/")
	var sb strings.Builder
	for i, part := range parts {
		switch c.Rng.Intn(6) {
		case 0:
			sb.WriteString("//")
		case 1:
			sb.WriteString("/./")
		case 2:
			if allowDotDot && i > 0 {
				sb.WriteString("/x/../")
			} else {
				sb.WriteString("/")
			}
		default:
			sb.WriteString("/")
		}
		sb.WriteString(part)
	}
	if allowTrailing && c.Rng.Intn(4) == 0 {
		sb.WriteString("/")
	}
	return sb.String()
}

func vdrFsChecks(c *Ctx) {
	r := c.Res
	if c.Drv == nil {
		return
	}
	n := 600
	if c.Thorough {
		n = 8000
	}
	var reqs [][]string
	var expect, what []string
	add := func(req []string, exp, w string) {
		reqs = append(reqs, req)
		expect = append(expect, exp)
		what = append(what, w)
	}
	for i := 0; i < n; i++ {
		a := vdrGenPath(c)
		ua := vdrUnclean(c, a, true, true)
		if c.Rng.Intn(10) == 0 {
			ua = "/" + strings.Repeat("../", c.Rng.Intn(3)) + strings.TrimPrefix(ua, "/")
		}
		add([]string{"C04.clean", hx(ua)}, hx(filepath.Clean(ua)), "filepath.Clean("+ua+")")
		r.count("clean|"+ua, ua != filepath.Clean(ua))
		b := vdrRelatedPath(c, a)
		ub := vdrUnclean(c, b, true, true)
		if c.Rng.Intn(2) == 0 {
			ua, ub = ub, ua
		}
		add([]string{"C04.insideraw", hx(ua), hx(ub)}, fmt.Sprint(core.VerifPathIsInside(ua, ub)), "pathIsInside("+ua+", "+ub+")")
		// anyOverlap on cleaned inputs (what getLogicalFileNames feeds it)
		names := []string{filepath.Clean(ua), filepath.Clean(vdrUnclean(c, vdrGenPath(c), true, true))}
		files := []string{filepath.Clean(ub)}
		if names[0] != "/" && names[1] != "/" && files[0] != "/" {
			f, _ := core.VerifAnyOverlap(names, files)
			add([]string{"C04.overlapclean", hxList([]string{ua, names[1]}), hxList([]string{ub})}, fmt.Sprint(f != ""),
				fmt.Sprintf("anyOverlap(clean %v, clean %v)", names, files))
		}
	}
	r.hist("pure-filepath.Clean")
	r.hist("pure-pathIsInside-unclean")
	// ---- real symlinks
	nfs := 40
	if c.Thorough {
		nfs = 400
	}
	for i := 0; i < nfs; i++ {
		base := filepath.Join(c.Scratch, fmt.Sprintf("lnk%d", i))
		type ent struct{ path, link string }
		var ents []ent
		// the real ancestors of the tree
		for p := filepath.Dir(base); p != "/"; p = filepath.Dir(p) {
			ents = append(ents, ent{p, ""})
		}
		mk := func(p string) { os.MkdirAll(p, 0o755); ents = append(ents, ent{p, ""}) }
		mk(base)
		mk(base + "/d1")
		mk(base + "/d2")
		mk(base + "/d2/sub")
		var files []string
		for _, f := range []string{"/d1/f1", "/d2/f2", "/d2/sub/f3"} {
			os.WriteFile(base+f, []byte("x"), 0o644)
			ents = append(ents, ent{base + f, ""})
			files = append(files, base+f)
		}
		var links []string
		nl := 1 + c.Rng.Intn(4)
		for j := 0; j < nl; j++ {
			dir := []string{"/d1", "/d2", "/d2/sub"}[c.Rng.Intn(3)]
			lp := fmt.Sprintf("%s%s/L%d", base, dir, j)
			links = append(links, lp)
		}
		for j, lp := range links {
			var target string
			cands := append(append([]string{base + "/d1", base + "/d2/sub", base + "/nothing"}, files...), links...)
			t := cands[c.Rng.Intn(len(cands))]
			switch c.Rng.Intn(4) {
			case 0:
				target = t
			case 1:
				target = vdrUnclean(c, t, false, false)
			default:
				rel, err := filepath.Rel(filepath.Dir(lp), t)
				if err != nil || rel == "." || strings.HasSuffix(rel, "..") {
					target = t
				} else {
					target = rel
					if c.Rng.Intn(3) == 0 && !strings.HasPrefix(rel, "..") {
						target = "./" + rel
					}
				}
			}
			if os.Symlink(target, lp) == nil {
				ents = append(ents, ent{lp, target})
				r.hist("symlink-target-" + map[bool]string{true: "abs", false: "rel"}[strings.HasPrefix(target, "/")])
			}
			_ = j
		}
		// links to DIRECTORIES: paths through them have a linked parent component;
		// and the whole tree reached through a linked directory (a pipestance below a symlinked path)
		var through []string
		if c.Rng.Intn(3) != 0 {
			dl := base + "/dl"
			target := []string{"d2", base + "/d2", "./d2/sub", "d1"}[c.Rng.Intn(4)]
			if os.Symlink(target, dl) == nil {
				ents = append(ents, ent{dl, target})
				r.hist("symlink-to-directory")
				through = append(through, dl+"/f2", dl+"/sub/f3", dl+"/f3", dl+"/f1", dl+"/sub")
				for _, l := range links {
					through = append(through, dl+"/"+filepath.Base(l))
				}
			}
		}
		if c.Rng.Intn(2) == 0 {
			bl := base + "_via"
			os.Remove(bl)
			if os.Symlink(base, bl) == nil {
				ents = append(ents, ent{bl, base})
				r.hist("symlinked-root")
				for _, f := range files {
					through = append(through, bl+strings.TrimPrefix(f, base))
				}
				for _, l := range links {
					through = append(through, bl+strings.TrimPrefix(l, base))
				}
				through = append(through, bl+"/dl/f2", bl+"/dl/sub/f3")
			}
		}
		var enc []string
		for _, e := range ents {
			l := "~"
			if e.link != "" {
				l = hx(e.link)
			}
			enc = append(enc, hx(e.path)+":"+l)
		}
		fsEnc := strings.Join(enc, ";")
		queries := append(append([]string{base + "/d1", base + "/nothing"}, files...), links...)
		for _, l := range links {
			queries = append(queries, vdrUnclean(c, l, false, false))
		}
		queries = append(queries, through...)
		for _, q := range queries {
			got := core.VerifLogicalFileNames(q)
			set := map[string]bool{}
			for _, g := range got {
				set[g] = true
			}
			var uniq []string
			for g := range set {
				uniq = append(uniq, g)
			}
			sort.Strings(uniq)
			add([]string{"C04.logical", fsEnc, hx(q)}, vdrHexPaths(uniq), "getLogicalFileNames("+q+") with links "+fmt.Sprint(ents))
			r.count("logical|"+strings.TrimPrefix(fsEnc, hx(base))+q[len(base):], len(uniq) > 1)
		}
	}
	r.hist("pure-getLogicalFileNames")
	replies := c.Drv.AskBatch(reqs)
	for i := range reqs {
		if replies[i] != expect[i] {
			name := strings.SplitN(reqs[i][0], ".", 2)[1]
			dec := func(s string) string {
				var out []string
				for _, h := range strings.Split(s, ",") {
					out = append(out, unhx(h))
				}
				return strings.Join(out, " ")
			}
			r.violate(Violation{Kind: "correspondence", Key: "C04:model:" + name, What: what[i],
				Input: reqs[i], Impl: dec(expect[i]), Model: dec(replies[i]), Broken: "VdrFs." + name})
		}
	}
}
