package main

// An independent dependency oracle computed from the SOURCE-level AST (not
// from the resolver or the runtime's prenode sets, which are what is being
// checked): for every stage call, the set of stage calls whose outputs it
// consumes as argument data, as its disabling condition or as the collection
// it is mapped over — through sub-pipeline inputs and return values — plus
// every preflight call of the containing and enclosing pipelines.

import (
	"sort"
	"strings"

	"github.com/martian-lang/martian/martian/syntax"
)

type depCtx struct {
	pipe   *syntax.Pipeline
	path   []string        // call ids from the top call down to this pipeline's call
	call   *syntax.CallStm // the call that invoked this pipeline (nil for the top)
	parent *depCtx
}

type DepOracle struct {
	ast *syntax.Ast
	// stage call path ("TOP.A.B") -> set of stage call paths it depends on
	Deps map[string]map[string]bool
	// all stage call paths
	Stages    []string
	Preflight map[string]bool
}

func NewDepOracle(ast *syntax.Ast) *DepOracle {
	d := &DepOracle{ast: ast, Deps: map[string]map[string]bool{}, Preflight: map[string]bool{}}
	if ast.Call == nil {
		return d
	}
	top, _ := ast.Callables.Table[ast.Call.DecId].(*syntax.Pipeline)
	if top == nil {
		return d
	}
	ctx := &depCtx{pipe: top, path: []string{ast.Call.Id}, call: ast.Call}
	d.walk(ctx, nil, map[string]bool{})
	sort.Strings(d.Stages)
	return d
}

func key(path []string) string { return strings.Join(path, ".") }

func (d *DepOracle) callee(id string) syntax.Callable {
	return d.ast.Callables.Table[id]
}

// walk visits every call of the pipeline.  inherited = dependencies every
// node below inherits (disabled conditions of enclosing calls); preflights =
// preflight stage paths of enclosing pipelines.
func (d *DepOracle) walk(ctx *depCtx, inherited map[string]bool, preflights map[string]bool) {
	// preflight stages of this pipeline
	pf := map[string]bool{}
	for k := range preflights {
		pf[k] = true
	}
	for _, c := range ctx.pipe.Calls {
		if c.Modifiers != nil && c.Modifiers.Preflight {
			if _, ok := d.callee(c.DecId).(*syntax.Stage); ok {
				p := key(append(append([]string{}, ctx.path...), c.Id))
				pf[p] = true
				d.Preflight[p] = true
			}
		}
	}
	for _, c := range ctx.pipe.Calls {
		deps := map[string]bool{}
		for k := range inherited {
			deps[k] = true
		}
		if c.Bindings != nil {
			for _, b := range c.Bindings.List {
				d.expDeps(ctx, b.Exp, deps, 0)
			}
		}
		modDeps := map[string]bool{}
		if c.Modifiers != nil && c.Modifiers.Bindings != nil {
			for _, b := range c.Modifiers.Bindings.List {
				d.expDeps(ctx, b.Exp, modDeps, 0)
			}
		}
		for k := range modDeps {
			deps[k] = true
		}
		path := append(append([]string{}, ctx.path...), c.Id)
		switch callee := d.callee(c.DecId).(type) {
		case *syntax.Stage:
			p := key(path)
			d.Stages = append(d.Stages, p)
			if !(c.Modifiers != nil && c.Modifiers.Preflight) {
				for k := range pf {
					deps[k] = true
				}
			}
			delete(deps, p)
			d.Deps[p] = deps
		case *syntax.Pipeline:
			// nodes inside inherit only what gates the whole pipeline (its
			// disabled condition and the enclosing ones), not its data bindings:
			// those are reached through self.x references.
			inh := map[string]bool{}
			for k := range inherited {
				inh[k] = true
			}
			for k := range modDeps {
				inh[k] = true
			}
			sub := &depCtx{pipe: callee, path: path, call: c, parent: ctx}
			d.walk(sub, inh, pf)
		}
	}
}

// expDeps adds the stage call paths the expression's value depends on.
func (d *DepOracle) expDeps(ctx *depCtx, e syntax.Exp, acc map[string]bool, depth int) {
	if e == nil || depth > 64 {
		return
	}
	for _, ref := range e.FindRefs() {
		switch ref.Kind {
		case syntax.KindSelf:
			if ctx.parent == nil || ctx.call == nil || ctx.call.Bindings == nil {
				continue
			}
			for _, b := range ctx.call.Bindings.List {
				if b.Id == ref.Id || b.Id == "*" {
					d.expDeps(ctx.parent, b.Exp, acc, depth+1)
				}
			}
		case syntax.KindCall:
			var call *syntax.CallStm
			for _, c := range ctx.pipe.Calls {
				if c.Id == ref.Id {
					call = c
				}
			}
			if call == nil {
				continue
			}
			path := append(append([]string{}, ctx.path...), call.Id)
			switch callee := d.callee(call.DecId).(type) {
			case *syntax.Stage:
				acc[key(path)] = true
			case *syntax.Pipeline:
				sub := &depCtx{pipe: callee, path: path, call: call, parent: ctx}
				out := ref.OutputId
				if i := strings.IndexByte(out, '.'); i >= 0 {
					out = out[:i]
				}
				if callee.Ret != nil && callee.Ret.Bindings != nil {
					for _, b := range callee.Ret.Bindings.List {
						if out == "" || b.Id == out {
							d.expDeps(sub, b.Exp, acc, depth+1)
						}
					}
				}
				// a disabled sub-pipeline yields nulls: its condition is consumed too
				if call.Modifiers != nil && call.Modifiers.Bindings != nil {
					for _, b := range call.Modifiers.Bindings.List {
						d.expDeps(ctx, b.Exp, acc, depth+1)
					}
				}
			}
		}
	}
}

// nodePathOfJob: "ID.ps.TOP.A.ST.fork0.chnk1" -> "TOP.A.ST"
func nodePathOfJob(fqname string) string {
	s := fqname
	if i := strings.Index(s, ".fork"); i >= 0 {
		s = s[:i]
	}
	parts := strings.SplitN(s, ".", 3) // ID, psid, rest
	if len(parts) == 3 {
		return parts[2]
	}
	return s
}

// forkOfJob: "ID.ps.TOP.ST.fork0.chnk1" -> "ID.ps.TOP.ST.fork0"
func forkOfJob(fqname string) string {
	if i := strings.LastIndex(fqname, ".chnk"); i >= 0 {
		return fqname[:i]
	}
	return fqname
}
