package main

// An independent dependency oracle computed from the SOURCE-level AST (not
// from the resolver or the runtime's prenode sets, which are what is being
// checked): for every stage call, the set of stage calls whose outputs it
// consumes as argument data, as its disabling condition or as the collection
// it is mapped over — through sub-pipeline inputs and return values — plus
// every preflight call of the containing and enclosing pipelines.

import (
	"sort"
	"strings"

	"github.com/martian-lang/martian/martian/syntax"
)

type depCtx struct {
	pipe   *syntax.Pipeline
	path   []string        // call ids from the top call down to this pipeline's call
	call   *syntax.CallStm // the call that invoked this pipeline (nil for the top)
	parent *depCtx
}

type DepOracle struct {
	ast *syntax.Ast
	// stage call path ("TOP.A.B") -> set of stage call paths it depends on
	Deps map[string]map[string]bool
	// all stage call paths
	Stages    []string
	Preflight map[string]bool
	// stage call paths whose stage declares no output parameter
	NoOuts map[string]bool
}

func NewDepOracle(ast *syntax.Ast) *DepOracle {
	d := &DepOracle{ast: ast, Deps: map[string]map[string]bool{}, Preflight: map[string]bool{}, NoOuts: map[string]bool{}}
	if ast.Call == nil {
		return d
	}
	top, _ := ast.Callables.Table[ast.Call.DecId].(*syntax.Pipeline)
	if top == nil {
		return d
	}
	ctx := &depCtx{pipe: top, path: []string{ast.Call.Id}, call: ast.Call}
	d.walk(ctx, nil, map[string]bool{})
	sort.Strings(d.Stages)
	return d
}

func key(path []string) string { return strings.Join(path, ".") }

func (d *DepOracle) callee(id string) syntax.Callable {
	return d.ast.Callables.Table[id]
}

// walk visits every call of the pipeline.  inherited = dependencies every
// node below inherits (disabled conditions of enclosing calls); preflights =
// preflight stage paths of enclosing pipelines.
func (d *DepOracle) walk(ctx *depCtx, inherited map[string]bool, preflights map[string]bool) {
	// preflight stages of this pipeline
	pf := map[string]bool{}
	for k := range preflights {
		pf[k] = true
	}
	for _, c := range ctx.pipe.Calls {
		if c.Modifiers != nil && c.Modifiers.Preflight {
			if _, ok := d.callee(c.DecId).(*syntax.Stage); ok {
				p := key(append(append([]string{}, ctx.path...), c.Id))
				pf[p] = true
				d.Preflight[p] = true
			}
		}
	}
	for _, c := range ctx.pipe.Calls {
		deps := map[string]bool{}
		for k := range inherited {
			deps[k] = true
		}
		if c.Bindings != nil {
			for _, b := range c.Bindings.List {
				if b.Id == "*" {
					continue // also present in expanded form
				}
				filt := ""
				if callee := d.callee(c.DecId); callee != nil {
					filt = paramBase(callee, b.Id, false)
				}
				d.expDepsPath(ctx, b.Exp, nil, filt, deps, 0)
			}
		}
		modDeps := map[string]bool{}
		if c.Modifiers != nil && c.Modifiers.Bindings != nil {
			for _, b := range c.Modifiers.Bindings.List {
				d.expDeps(ctx, b.Exp, modDeps, 0)
			}
		}
		for k := range modDeps {
			deps[k] = true
		}
		path := append(append([]string{}, ctx.path...), c.Id)
		switch callee := d.callee(c.DecId).(type) {
		case *syntax.Stage:
			p := key(path)
			d.Stages = append(d.Stages, p)
			if callee.OutParams == nil || len(callee.OutParams.List) == 0 {
				d.NoOuts[p] = true
			}
			if !(c.Modifiers != nil && c.Modifiers.Preflight) {
				for k := range pf {
					deps[k] = true
				}
			} else {
				// a preflight call does not wait for its sibling preflights, but it does wait for the
				// preflight calls of every ENCLOSING pipeline
				for k := range preflights {
					deps[k] = true
				}
			}
			delete(deps, p)
			d.Deps[p] = deps
		case *syntax.Pipeline:
			// nodes inside inherit only what gates the whole pipeline (its
			// disabled condition and the enclosing ones), not its data bindings:
			// those are reached through self.x references.
			inh := map[string]bool{}
			for k := range inherited {
				inh[k] = true
			}
			for k := range modDeps {
				inh[k] = true
			}
			sub := &depCtx{pipe: callee, path: path, call: c, parent: ctx}
			d.walk(sub, inh, pf)
		}
	}
}

// expDeps adds the stage call paths the expression's value depends on.
func (d *DepOracle) expDeps(ctx *depCtx, e syntax.Exp, acc map[string]bool, depth int) {
	d.expDepsPath(ctx, e, nil, "", acc, depth)
}

// structOf returns the struct type with this base name, if any.
func (d *DepOracle) structOf(name string) *syntax.StructType {
	if name == "" {
		return nil
	}
	st, _ := d.ast.TypeTable.Get(syntax.TypeId{Tname: name}).(*syntax.StructType)
	return st
}

func paramBase(c syntax.Callable, id string, out bool) string {
	if out {
		if ps := c.GetOutParams(); ps != nil {
			if p := ps.Table[id]; p != nil {
				return p.Tname.Tname
			}
		}
		return ""
	}
	if ps := c.GetInParams(); ps != nil {
		if p := ps.Table[id]; p != nil {
			return p.Tname.Tname
		}
	}
	return ""
}

func splitPath(s string) []string {
	if s == "" {
		return nil
	}
	return strings.Split(s, ".")
}

// expDepsPath: dependencies of the projection `e.path` (path-sensitive through
// struct / map / array literals, exactly the static resolution MRO promises).
// filt (when non-empty) is the base name of the struct type the value is
// converted to after the projection: fields it does not declare are dropped
// (struct narrowing), so they are not consumed.
func (d *DepOracle) expDepsPath(ctx *depCtx, e syntax.Exp, path []string, filt string, acc map[string]bool, depth int) {
	if e == nil || depth > 64 {
		return
	}
	switch exp := e.(type) {
	case *syntax.SplitExp:
		d.expDepsPath(ctx, exp.Value, path, filt, acc, depth+1)
	case *syntax.ArrayExp:
		for _, v := range exp.Value {
			d.expDepsPath(ctx, v, path, filt, acc, depth+1)
		}
	case *syntax.MapExp:
		if exp.Kind == syntax.KindStruct && len(path) > 0 {
			if v, ok := exp.Value[path[0]]; ok {
				d.expDepsPath(ctx, v, path[1:], filt, acc, depth+1)
			}
			return
		}
		if exp.Kind == syntax.KindStruct {
			if st := d.structOf(filt); st != nil {
				for _, m := range st.Members {
					if v, ok := exp.Value[m.Id]; ok {
						d.expDepsPath(ctx, v, nil, m.Tname.Tname, acc, depth+1)
					}
				}
				return
			}
		}
		for _, v := range exp.Value {
			d.expDepsPath(ctx, v, path, filt, acc, depth+1)
		}
	case *syntax.RefExp:
		full := append(splitPath(exp.OutputId), path...)
		switch exp.Kind {
		case syntax.KindSelf:
			if ctx.parent == nil || ctx.call == nil || ctx.call.Bindings == nil {
				return
			}
			for _, b := range ctx.call.Bindings.List {
				if b.Id == exp.Id { // "*" bindings are also present in expanded form
					f := filt
					if len(full) == 0 && f == "" {
						f = paramBase(ctx.pipe, exp.Id, false)
					}
					d.expDepsPath(ctx.parent, b.Exp, full, f, acc, depth+1)
					if _, isSplit := b.Exp.(*syntax.SplitExp); isSplit {
						// the pipeline is MAPPED and this input is one of the split arguments: whatever uses it
						// is forked, and the forks (their number and keys) come from the master collection —
						// the FIRST split argument of the call — which is therefore consumed as well
						// ("the collection it is mapped over"), even if its element is not used
						for _, mb := range ctx.call.Bindings.List {
							if msp, ok := mb.Exp.(*syntax.SplitExp); ok && mb.Id != "*" {
								d.expDepsPath(ctx.parent, msp.Value, nil, "", acc, depth+1)
								break
							}
						}
					}
				}
			}
		case syntax.KindCall:
			var call *syntax.CallStm
			for _, c := range ctx.pipe.Calls {
				if c.Id == exp.Id {
					call = c
				}
			}
			if call == nil {
				return
			}
			cpath := append(append([]string{}, ctx.path...), call.Id)
			switch callee := d.callee(call.DecId).(type) {
			case *syntax.Stage:
				acc[key(cpath)] = true
			case *syntax.Pipeline:
				sub := &depCtx{pipe: callee, path: cpath, call: call, parent: ctx}
				if callee.Ret != nil && callee.Ret.Bindings != nil {
					for _, b := range callee.Ret.Bindings.List {
						if len(full) == 0 {
							d.expDepsPath(sub, b.Exp, nil, paramBase(callee, b.Id, true), acc, depth+1)
						} else if b.Id == full[0] {
							f := filt
							if len(full) == 1 && f == "" {
								f = paramBase(callee, b.Id, true)
							}
							d.expDepsPath(sub, b.Exp, full[1:], f, acc, depth+1)
						}
					}
				}
				// a disabled sub-pipeline yields nulls: its condition is consumed too
				if call.Modifiers != nil && call.Modifiers.Bindings != nil {
					for _, b := range call.Modifiers.Bindings.List {
						d.expDepsPath(ctx, b.Exp, nil, "", acc, depth+1)
					}
				}
			}
		}
	}
}

// nodePathOfJob: "ID.ps.TOP.A.ST.fork0.chnk1" -> "TOP.A.ST"
func nodePathOfJob(fqname string) string {
	s := fqname
	if i := strings.Index(s, ".fork"); i >= 0 {
		s = s[:i]
	}
	parts := strings.SplitN(s, ".", 3) // ID, psid, rest
	if len(parts) == 3 {
		return parts[2]
	}
	return s
}

// forkOfJob: "ID.ps.TOP.ST.fork0.chnk1" -> "ID.ps.TOP.ST.fork0"
func forkOfJob(fqname string) string {
	if i := strings.LastIndex(fqname, ".chnk"); i >= 0 {
		return fqname[:i]
	}
	return fqname
}
