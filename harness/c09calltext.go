package main

// C09, part CallText: the hypotheses of the text-side theorems of Props.C09 section
// AcceptedCallTexts, evaluated on what the REAL parser returned for accepted texts.
//
//   - c09AcceptedHyps: for every accepted text handed in (generated / respelled / near-miss texts of
//     c09call2.go and c09pipe.go) the driver evaluates the Bool hypotheses (F6b strings valid, F26 no
//     negative zero, F40 distinct modifier ids, F34 distinct call ids) and the model's wf… on the AST
//     the real parser built.  The combinations are histogrammed; an accepted text whose AST
//     satisfies every hypothesis but not wf… refutes the range lemmas (pCall2_range, pBody_range,
//     pPipeline_range + wf…_canon) as a description of the real parser:
//     correspondence violation C09:accepted-call-not-wf.
//   - c09CallTextProbes: fixed minimal texts for what lies outside the hypotheses or outside the
//     round trip: F40 (13 modifier bindings with repeated ids: sort.Slice is not stable, the model's
//     sort is), F41 (a keyword modifier and a binding of the same id: the compiler rejects the
//     source, accepts the formatted text), two `using` blocks (the parser keeps the last).

import (
	"fmt"
	"strings"

	"github.com/martian-lang/martian/martian/syntax"
)

const c09ctBroken = "Props.C09 (AcceptedCallTexts) range of the reader"

func c09AcceptedHyps(c *Ctx, kind, op string, encs, texts []string) {
	r := c.Res
	if len(encs) == 0 {
		return
	}
	reqs := make([][]string, len(encs))
	for i, e := range encs {
		reqs[i] = []string{op, e}
	}
	reps := c.Drv.AskBatch(reqs)
	for i, rep := range reps {
		f := map[string]string{}
		for _, w := range strings.Fields(rep) {
			if kv := strings.SplitN(w, "=", 2); len(kv) == 2 {
				f[kv[0]] = kv[1]
			}
		}
		in := map[string]interface{}{"text": texts[i], "ast": encs[i], "op": op}
		wf, ok := f["wf"]
		if !ok {
			r.violate(Violation{Kind: "correspondence", Key: "C09:accepted-call-not-wf", What: "bad reply of the driver to " + op,
				Input: in, Model: rep, Broken: c09ctBroken})
			continue
		}
		all := true
		var failed []string
		for _, k := range []string{"strs", "nonegz", "dist", "calls"} {
			if v, ok := f[k]; ok && v != "true" {
				all = false
				failed = append(failed, "not-"+k)
			}
		}
		combo := "all-hypotheses"
		if !all {
			combo = strings.Join(failed, ",")
		}
		if f["conflict"] == "true" {
			combo += ",keyword-and-binding-conflict(F41)"
		}
		r.hist("accepted-" + kind + ":" + combo + ":wf=" + wf)
		if all && wf != "true" {
			r.violate(Violation{Kind: "correspondence", Key: "C09:accepted-call-not-wf",
				What:  "the real parser accepts a text whose AST satisfies every hypothesis of the text-side theorem (strings valid, no -0, distinct modifier ids, distinct call ids) but not the model's wf… (" + kind + ")",
				Input: in, Model: rep, Broken: c09ctBroken})
		}
		if !all && wf == "true" {
			r.violate(Violation{Kind: "correspondence", Key: "C09:accepted-call-not-wf",
				What:  "the model's wf… holds although a hypothesis of the text-side theorem fails (wf… implies every hypothesis) (" + kind + ")",
				Input: in, Model: rep, Broken: c09ctBroken})
		}
	}
}

// c09ctCompiles: does the full compiler (ParseSourceBytes) accept the text?
func c09ctCompiles(src string) (ok bool, msg string) {
	defer func() {
		if p := recover(); p != nil {
			ok, msg = false, fmt.Sprint("panic: ", p)
		}
	}()
	_, _, _, err := syntax.ParseSourceBytes([]byte(src), "calltext.mro", nil, false)
	if err != nil {
		return false, err.Error()
	}
	return true, ""
}

func c09CallTextProbes(c *Ctx) {
	r := c.Res

	// ---- F40: the same modifier id more than once, 13 entries ----
	// sort.Slice (pdqsort: insertion sort below 12 elements) is not stable; the model's sortMods is.
	// Outside `modsDistinct`; the real output must still be accepted and a fixed point.
	dup := "call X() using (volatile = false, volatile = false, preflight = true, local = false, local = false, local = true, preflight = true, volatile = true, volatile = true, volatile = false, local = true, local = false, preflight = false,)"
	if rp := c09c2Dump(dup); strings.HasPrefix(rp, "some ") {
		e := strings.TrimPrefix(rp, "some ")
		c09AcceptedHyps(c, "call2-probe", "C09.call2hyps", []string{e}, []string{dup})
		nm := c.Drv.AskBatch([][]string{{"C09.normcall2", e}})
		ff := c.Drv.AskBatch([][]string{{"C09.fmtcall2", "0", nm[0]}})
		model := unhx(ff[0])
		out, err, pan := c09Format([]byte(dup), "call.mro")
		if pan != "" || err != nil {
			r.violate(Violation{Kind: "property", Key: "C09:reparse:duplicate-modifier-ids", What: "the formatter fails on a call with repeated modifier ids",
				Input: map[string]interface{}{"text": dup}, Impl: c09c2Impl(out, err, pan)})
		} else {
			out2, err2, pan2 := c09Format([]byte(out), "call.mro")
			if pan2 != "" || err2 != nil || out2 != out {
				r.violate(Violation{Kind: "property", Key: "C09:not-idempotent:duplicate-modifier-ids",
					What:  "format(format(x)) differs from format(x) for a call whose using block repeats a modifier id",
					Input: map[string]interface{}{"text": dup, "formatted": out}, Impl: c09c2Impl(out2, err2, pan2)})
			}
			if out != model {
				r.hist("accepted-call2-probe:dup-mods:real-order-differs-from-the-stable-model(F40)")
				r.violate(Violation{Kind: "correspondence", Key: "C09:call2-format-mismatch:duplicate-modifier-ids",
					What:  "13 modifier bindings with repeated ids: sort.Slice (not stable) orders entries with equal ids differently from the model's stable sortMods; outside the hypothesis modsDistinct of Props.C09 (AcceptedCallTexts); the real output is accepted and a fixed point",
					Input: map[string]interface{}{"text": dup},
					Impl:  out, Model: model, Broken: "correspondence C09.fmtcall2 outside modsDistinct"})
			} else {
				r.hist("accepted-call2-probe:dup-mods:real-order-is-the-stable-one")
			}
		}
	} else {
		r.violate(Violation{Kind: "correspondence", Key: "C09:accepted-call-not-wf", What: "probe text with repeated modifier ids is rejected by the real parser",
			Input: map[string]interface{}{"text": dup}, Impl: rp, Broken: c09ctBroken})
	}

	// ---- F41: a keyword modifier and a binding of the same id ----
	stage := "stage X(\n    in  int a,\n    src py \"x\",\n)\n\n"
	mk := func(call string) string {
		return stage + "pipeline P(\n    in int a,\n)\n{\n    " + call + "\n\n    return ()\n}\n"
	}
	for _, call := range []string{
		"call local X(a = self.a,) using (local = false,)",
		"call volatile X(a = self.a,) using (volatile = true,)",
	} {
		src := mk(call)
		ok0, msg0 := c09ctCompiles(src)
		out, err, pan := c09Format([]byte(src), "calltext.mro")
		if pan != "" || err != nil {
			r.violate(Violation{Kind: "property", Key: "C09:reparse", What: "the formatter fails on a keyword modifier with a binding of the same id",
				Input: map[string]interface{}{"text": src}, Impl: c09c2Impl(out, err, pan)})
			continue
		}
		ok1, msg1 := c09ctCompiles(out)
		r.hist(fmt.Sprintf("accepted-call2-probe:keyword-and-binding:compiles-before=%v,after=%v", ok0, ok1))
		if ok0 != ok1 {
			r.violate(Violation{Kind: "property", Key: "C09:compile-verdict-changed:conflicting-modifiers",
				What:   "a call with a keyword modifier and a binding of the same id (`call local X(…) using (local = false,)`) is rejected by the compiler (ConflictingModifiers) but its formatted text (`call X(…) using (local = false,)`) compiles: CallStm.format drops the keyword when the using block binds the same id",
				Input:  map[string]interface{}{"source": src, "formatted": out},
				Impl:   fmt.Sprintf("source: compiles=%v %s / formatted: compiles=%v %s", ok0, msg0, ok1, msg1),
				Expect: "formatting does not change whether the program compiles"})
		}
	}

	// ---- accepted texts on which one hypothesis fails (F6b, F26, F40, F34), and spellings far from canonical ----
	var ce, ct []string
	for _, t := range []string{
		"call X(a = \"\\xff\",)",
		"call X(a = [-0.0],)",
		"call X(a = {\"\\377\": -0e5},) using (local = true, local = true,)",
		"map  call local volatile X as Y (  # c\n  b = split [1e3, 007 ,],  a={ \"k\":2.5, \"a\":[], \"k\": 1 },\n  * = self ,\n) using ( preflight = false , disabled = D.x, )",
	} {
		if rp := c09c2Dump(t); strings.HasPrefix(rp, "some ") {
			ce, ct = append(ce, strings.TrimPrefix(rp, "some ")), append(ct, t)
		} else {
			r.violate(Violation{Kind: "correspondence", Key: "C09:accepted-call-not-wf", What: "probe text is rejected by the real parser",
				Input: map[string]interface{}{"text": t}, Impl: rp, Broken: c09ctBroken})
		}
	}
	c09AcceptedHyps(c, "call2-probe", "C09.call2hyps", ce, ct)
	var pe, pt []string
	for _, t := range []string{
		"pipeline P(in int a \"\\xff\", out int r,) { call A(x = self.a,) return (r = A.o,) }",
		"pipeline P(in int a, out int r \"h\" \"\\xfe\",) { call A(x = self.a,) return (r = A.o,) }",
		"pipeline P(in int a, out int r,) { call A(x = -0.0,) return (r = A.o,) }",
		"pipeline P(in int a, out int r,) { call A(x = 1,) return (r = \"\\xff\",) }",
		"pipeline P(in int a, out int r,) { call X(a = B.o,) call Y as X() call C(c = X.o,) call B() return (r = C.o,) }",
		"pipeline P(in int a \"h\", out map<int[]>[] r,out bam,){ # c\n  map call C(x = split B.o, * = self,) using (disabled = A.d,)\n call local volatile B(y = [A.o, 1e3],) call A(z = {\"b\":self.a, \"a\":007, \"b\":null},)\n return (r = C.o,) retain (C.o,) }",
	} {
		if rp, _ := c09pDump(t); strings.HasPrefix(rp, "some ") {
			pe, pt = append(pe, strings.TrimPrefix(rp, "some ")), append(pt, t)
		} else {
			r.violate(Violation{Kind: "correspondence", Key: "C09:accepted-call-not-wf", What: "probe text is rejected by the real parser",
				Input: map[string]interface{}{"text": t}, Impl: rp, Broken: c09ctBroken})
		}
	}
	c09AcceptedHyps(c, "pipeline-probe", "C09.pipehyps", pe, pt)

	// the sample texts of Props.C09 (AcceptedCallTexts), sampleCallText and samplePipelineText (the last of
	// each list): the model's print of the normal form of what the real parser read is the real formatter's
	// output (the comment `# c` is outside the model; the real formatter moves it before the statement)
	if len(ce) == 4 && len(pe) == 6 {
		nm := c.Drv.AskBatch([][]string{{"C09.normcall2", ce[3]}, {"C09.fmtpipeline", pe[5]}})
		ff := c.Drv.AskBatch([][]string{{"C09.fmtcall2", "0", nm[0]}})
		for _, x := range []struct{ text, want, path string }{{ct[3], unhx(ff[0]), "call.mro"}, {pt[5], unhx(nm[1]), "pipe.mro"}} {
			out, err, pan := c09Format([]byte(x.text), x.path)
			r.hist("accepted-call2-probe:sample-text-formatted")
			if pan != "" || err != nil || strings.TrimPrefix(out, "# c\n") != x.want {
				r.violate(Violation{Kind: "correspondence", Key: "C09:call2-format-mismatch",
					What:  "sample text of Props.C09 (AcceptedCallTexts): the real formatter's output differs from the model's print of what the real parser read",
					Input: map[string]interface{}{"text": x.text}, Impl: c09c2Impl(out, err, pan), Model: x.want, Broken: "correspondence C09.fmtcall2 / C09.fmtpipeline"})
			}
		}
	}

	// ---- two `using` blocks: the PARSER keeps the last ----
	two := "call X() using (disabled = A.x,) using (volatile = true,)"
	rp := c09c2Dump(two)
	mp := c.Drv.AskBatch([][]string{{"C09.parsecall2", hx(two)}})[0]
	r.hist("accepted-call2-probe:two-using-blocks:real=" + strings.SplitN(rp, " ", 2)[0])
	if rp != mp {
		r.violate(Violation{Kind: "correspondence", Key: "C09:call2-parse-mismatch", What: "two using blocks: real parser and model's parseCall2 disagree",
			Input: map[string]interface{}{"text": two}, Impl: rp, Model: mp, Broken: "correspondence C09.parsecall2"})
	}
}
