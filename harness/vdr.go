package main

// C04 (VDR never deletes a file that is still needed) and C14 (VDR reclaims
// what it may and reports exactly what it removed): orchestration.  Runs are
// executed in worker processes (`harness VDRW`), the Lean model is asked from
// here.

import (
	"bufio"
	"encoding/json"
	"fmt"
	"io"
	"os"
	"os/exec"
	"path/filepath"
	"sort"
	"strings"
	"sync"
	"time"
)

func init() {
	register("C04", func(c *Ctx) { runVdrProperty(c, "C04") })
	register("C14", func(c *Ctx) { runVdrProperty(c, "C14") })
	register("VDRW", func(c *Ctx) { vdrWorkerMain(c) })
}

func vdrWorkerMain(c *Ctx) {
	taInit()
	in := bufio.NewReaderSize(os.Stdin, 1<<20)
	out := bufio.NewWriter(os.Stdout)
	for {
		line, err := in.ReadBytes('\n')
		if len(line) > 1 {
			var spec VdrSpec
			if json.Unmarshal(line, &spec) != nil {
				fatal("bad spec")
			}
			res := runVdrSpec(&spec, c.Scratch)
			b, _ := json.Marshal(res)
			out.WriteString("VDRRES ")
			out.Write(b)
			out.WriteByte('\n')
			out.Flush()
			if res.Final == "hang" {
				os.RemoveAll(c.Scratch)
				os.Exit(7)
			}
		}
		if err != nil {
			os.RemoveAll(c.Scratch)
			os.Exit(0)
		}
	}
}

// RunVdrSpecs executes the specs in parallel worker processes.
func RunVdrSpecs(specs []*VdrSpec, parallel int) []*VdrResult {
	results := make([]*VdrResult, len(specs))
	for i, s := range specs {
		s.Index = i
	}
	var mu sync.Mutex
	next := 0
	take := func() *VdrSpec {
		mu.Lock()
		defer mu.Unlock()
		if next >= len(specs) {
			return nil
		}
		s := specs[next]
		next++
		return s
	}
	var wg sync.WaitGroup
	for w := 0; w < parallel; w++ {
		wg.Add(1)
		go func() {
			defer wg.Done()
			var cmd *exec.Cmd
			var stdin io.WriteCloser
			var rd *bufio.Reader
			start := func() {
				cmd = exec.Command(os.Args[0], "VDRW")
				stdin, _ = cmd.StdinPipe()
				so, _ := cmd.StdoutPipe()
				rd = bufio.NewReaderSize(so, 1<<20)
				cmd.Env = append(os.Environ(), "GOMAXPROCS=2")
				if err := cmd.Start(); err != nil {
					fatal("worker: %v", err)
				}
			}
			stop := func() {
				if cmd != nil {
					stdin.Close()
					cmd.Wait()
					cmd = nil
				}
			}
			defer stop()
			for {
				spec := take()
				if spec == nil {
					return
				}
				if cmd == nil {
					start()
				}
				b, _ := json.Marshal(spec)
				stdin.Write(append(b, '\n'))
				var res *VdrResult
				for {
					line, err := rd.ReadBytes('\n')
					if err != nil {
						break
					}
					if strings.HasPrefix(string(line), "VDRRES ") {
						var r VdrResult
						if json.Unmarshal(line[7:], &r) == nil {
							res = &r
							break
						}
					}
				}
				if res == nil {
					res = &VdrResult{Index: spec.Index, Name: spec.Name, Final: "process-exit", Crashed: true}
					cmd.Wait()
					if cmd.ProcessState != nil {
						res.ErrMsg = cmd.ProcessState.String()
					}
					cmd = nil
				} else if res.Final == "hang" {
					cmd.Wait()
					cmd = nil
				}
				res.Index = spec.Index
				results[spec.Index] = res
			}
		}()
	}
	wg.Wait()
	return results
}

func vdrCorpus(dir string) map[string]string {
	out := map[string]string{}
	files, _ := filepath.Glob(filepath.Join(dir, "*.mro"))
	// both properties share one corpus
	if more, _ := filepath.Glob(filepath.Join(filepath.Dir(dir), "C04", "*.mro")); filepath.Base(dir) != "C04" {
		files = append(files, more...)
	}
	for _, f := range files {
		if b, err := os.ReadFile(f); err == nil {
			out[filepath.Base(f)] = string(b)
		}
	}
	return out
}

func runVdrProperty(c *Ctx, prop string) {
	r := c.Res
	r.Rule = "a completed pipestance under VDR in which a volatile stage wrote files and VDR removed at least one entry; distinct by (mode, set of stage-written files with their fate)"
	t0 := time.Now()
	phase := func(name string) {
		r.note("phase %s: %d ms", name, time.Since(t0).Milliseconds())
		t0 = time.Now()
	}
	vdrPureChecks(c, prop)
	if prop == "C04" {
		vdrFsChecks(c)
	}
	vdrWalkChecks(c, prop)
	phase("pure+fs")
	modes := []string{"rolling", "strict", "post"}
	var specs []*VdrSpec
	mk := func(name, src, mode string, seed int64) *VdrSpec {
		return &VdrSpec{Name: name, Src: src, Seed: seed, VdrMode: mode,
			StepBias: []float64{0.2, 0.4, 0.7}[c.Rng.Intn(3)], StartSeparate: 0.3,
			InlineFinish: []float64{0, 0, 0.2}[c.Rng.Intn(3)], Adversarial: c.Rng.Intn(3) == 0,
			LateConsumers: c.Rng.Intn(2) == 0, TimeoutS: 40, NoExtra: c.Rng.Intn(3) == 0}
	}
	corpus := vdrCorpus(c.Corpus)
	var cnames []string
	for k := range corpus {
		cnames = append(cnames, k)
	}
	sort.Strings(cnames)
	for ki, k := range cnames {
		for mi, m := range modes {
			for s := int64(1); s <= 3; s++ {
				// quick: one of the three schedules per (program, mode), rotating with the seed
				if !c.Thorough && (int64(ki+mi)+c.Seed)%3 != s-1 {
					continue
				}
				sp := mk("corpus:"+k, corpus[k], m, s)
				sp.LateConsumers = s != 2
				sp.NoExtra = s == 3
				specs = append(specs, sp)
			}
		}
	}
	for ki, k := range cnames {
		// ... and one run per corpus program in which a consumer of files fails and mrp is restarted
		// (in post mode, where everything is reclaimed by the final sweep of the restarted mrp, and in one other mode)
		for vi, m := range []string{"post", []string{"rolling", "strict"}[(ki+int(c.Seed))%2]} {
			sp := mk("corpus:"+k, corpus[k], m, 4+int64(vi))
			sp.FailConsumer = []string{"errors", "assert", "exit"}[(ki+vi+int(c.Seed))%3]
			sp.FailAt = (ki + vi + int(c.Seed)) % 2
			sp.LateConsumers = false
			specs = append(specs, sp)
		}
		if c.Thorough {
			for mi, m := range modes {
				sp := mk("corpus:"+k, corpus[k], m, 7+int64(mi))
				sp.CrashAt = []int{6 + c.Rng.Intn(20)}
				sp.CrashSurvive = 0.3
				specs = append(specs, sp)
			}
		}
	}
	nGen, nOrch := 64, 12
	if c.Thorough {
		nGen, nOrch = 1000, 150
	}
	stats := map[string]int{}
	for i := 0; i < nGen; i++ {
		mode := modes[c.Rng.Intn(3)]
		src, st := GenVdrProgram(c.Rng, mode)
		for k, v := range st {
			stats[k] += v
		}
		sp := mk(fmt.Sprint("gen", i), src, mode, c.Seed*1000003+int64(i))
		if c.Rng.Intn(8) == 0 {
			sp.LinkedRoot = true
		}
		if c.Rng.Intn(6) == 0 { // a chunk fails, mrp is restarted, the chunk is retried
			sp.FailChunk = true
		} else if c.Rng.Intn(5) == 0 { // a consumer of files fails (each manifestation), mrp is restarted, it is retried
			sp.FailConsumer = []string{"errors", "assert", "exit"}[c.Rng.Intn(3)]
			sp.FailAt = c.Rng.Intn(4)
			sp.LateConsumers = false
		} else if c.Rng.Intn(4) == 0 { // interruption and restart
			sp.CrashAt = []int{4 + c.Rng.Intn(25)}
			if c.Rng.Intn(2) == 0 {
				sp.CrashAt = append(sp.CrashAt, 30+c.Rng.Intn(40))
			}
			sp.CrashSurvive = 0.3
			if c.Rng.Intn(2) == 0 && strings.Contains(src, "pipeline SUB") {
				sp.RelocateSub = true
			}
		}
		specs = append(specs, sp)
	}
	// a sub-pipeline directory is relocated to another volume while mrp is down
	nReloc := 6
	if c.Thorough {
		nReloc = 60
	}
	for i := 0; i < nReloc; i++ {
		mode := []string{"post", "rolling", "strict", "post"}[c.Rng.Intn(4)]
		var src string
		for k := 0; k < 40; k++ {
			src, _ = GenVdrProgram(c.Rng, mode)
			if strings.Contains(src, "pipeline SUB") {
				break
			}
		}
		sp := mk(fmt.Sprint("reloc", i), src, mode, c.Seed*104729+int64(i))
		sp.RelocateSub = true
		sp.CrashAt = []int{6 + c.Rng.Intn(20)}
		sp.CrashSurvive = 0.3
		specs = append(specs, sp)
	}
	for i := 0; i < nOrch; i++ {
		mode := modes[c.Rng.Intn(3)]
		src, _ := GenProgram(c.Rng, GenOpts{Files: true, Retain: true})
		specs = append(specs, mk(fmt.Sprint("orch", i), src, mode, c.Seed*7919+int64(i)))
	}
	results := RunVdrSpecs(specs, 14)
	phase(fmt.Sprintf("tierA(%d runs)", len(specs)))
	{
		var sum, max int64
		slow := ""
		for i, res := range results {
			if res != nil {
				sum += res.WallMs
				if res.WallMs > max {
					max, slow = res.WallMs, specs[i].Name
				}
			}
		}
		r.note("tierA run times: sum %d ms, slowest %s %d ms", sum, slow, max)
	}
	var checks []VdrModelCheck
	var owners []int
	confirmed, tried := map[string]int{}, map[string]int{}
	for i, res := range results {
		f := strings.SplitN(res.Final, " goroutine", 2)[0]
		if strings.HasPrefix(f, "panic") {
			f = "panic"
		}
		if strings.HasPrefix(f, "error") {
			f = "error"
		}
		kind := strings.SplitN(specs[i].Name, ":", 2)[0]
		kind = strings.TrimRight(kind, "0123456789")
		r.hist("final-" + kind + "-" + f)
		if res.Final == "compile-error" {
			if kind != "orch" {
				r.note("generated program %s does not compile: %s", specs[i].Name, res.Compile)
			}
			continue
		}
		if res.Final != "complete" {
			if kind == "gen" && r.Histogram["final-"+kind+"-"+f] <= 2 {
				msg := res.Final + " " + res.ErrMsg
				if len(msg) > 300 {
					msg = msg[:300]
				}
				r.note("run %s (mode %s) not judged: %s", specs[i].Name, specs[i].VdrMode, msg)
			}
			continue
		}
		r.hist("mode-" + specs[i].VdrMode)
		for k, n := range res.Hist {
			r.Histogram[k] += n
		}
		r.count(res.Canon, res.Nontrivial)
		if res.Sample != nil && len(r.Samples) < 4 {
			r.sample(map[string]interface{}{"program": specs[i].Name, "mode": specs[i].VdrMode, "events": res.NEvents, "incarnations": res.Incs, "report": res.Sample})
		}
		for _, vv := range res.Violations {
			if vv.Prop != prop {
				r.hist("other-property-violation-" + vv.Key)
				continue
			}
			r.hist("violation-" + vv.Key)
			if confirmed[vv.Key] >= 2 || tried[vv.Key] >= 6 {
				continue // the class is established; do not spend the budget on more instances
			}
			tried[vv.Key]++
			// re-run a disagreeing case once, alone, before reporting
			again := RunVdrSpecs([]*VdrSpec{specs[i]}, 1)[0]
			repro := false
			for _, w := range again.Violations {
				if w.Key == vv.Key {
					repro = true
				}
			}
			if !repro {
				r.note("violation %s on %s did not reproduce when re-run alone: %s", vv.Key, specs[i].Name, vv.What)
				r.hist("unreproduced-" + vv.Key)
				continue
			}
			confirmed[vv.Key]++
			r.violate(Violation{Kind: vv.Kind, Key: vv.Key, What: vv.What,
				Input: map[string]interface{}{"spec": specs[i], "detail": vv.Extra}})
		}
		for _, ck := range res.Checks {
			if ck.Prop == prop || ck.Prop == "" {
				checks = append(checks, ck)
				owners = append(owners, i)
			}
		}
	}
	for k, v := range stats {
		r.Histogram["gen-"+k] = v
	}
	// ---- Tier B: real processes, real goroutine timing
	phase("collect")
	if os.Getenv("VDR_NO_TIERB") == "" {
		// programs for the real-process pass: generated ones the in-process run above completed cleanly
		var tbSrcs []string
		for i, res := range results {
			if res != nil && strings.HasPrefix(specs[i].Name, "gen") && res.Final == "complete" && len(res.Violations) == 0 &&
				len(specs[i].CrashAt) == 0 && !specs[i].FailChunk && specs[i].FailConsumer == "" && !specs[i].LinkedRoot &&
				!strings.Contains(specs[i].Src, "path") && !strings.Contains(specs[i].Src, "disabled =") {
				tbSrcs = append(tbSrcs, specs[i].Src)
			}
		}
		vdrTierB(c, prop, tbSrcs)
	}
	phase("tierB")
	// ---- model correspondence
	if len(checks) > 0 && c.Drv != nil {
		reqs := make([][]string, len(checks))
		for i, ck := range checks {
			reqs[i] = ck.Req
		}
		replies := c.Drv.AskBatch(reqs)
		// the decidable hypotheses of the theorems (CfgOK, PathKinds, Sep, LinksTop) as the driver
		// evaluated them on every replayed state
		hypNames := []string{"CfgOK", "PathKinds", "Sep", "LinksTop"}
		hypBad := map[string]bool{}
		for i, rep := range replies {
			j := strings.LastIndex(rep, " hyp=")
			if j < 0 {
				continue
			}
			flags := rep[j+5:]
			replies[i] = rep[:j]
			for k, name := range hypNames {
				if k < len(flags) && flags[k] == '1' {
					r.hist("hypothesis-" + name + "-holds")
				} else {
					r.hist("hypothesis-" + name + "-fails")
					// LinksTop (needed by report_exact_partial / reclaims_all_unreferenced only) is known not to
					// hold of runs below a linked root, where every entry carries further logical names:
					// those runs are outside these two theorems (counted, not reported)
					if name != "LinksTop" && !hypBad[name] {
						hypBad[name] = true
						r.violate(Violation{Kind: "correspondence", Key: prop + ":model:hypothesis-" + name,
							What:  "the hypothesis " + name + " of the VDR theorems does not hold of a state of a real run that the model replays (" + checks[i].What + ")",
							Input: map[string]interface{}{"spec": specs[owners[i]], "request": checks[i].Req}, Broken: "Vdr." + name})
					}
				}
			}
		}
		agrees := func(ck VdrModelCheck, reply string) bool {
			got, want := reply, ck.Expect
			if ck.DiskOnly {
				got = strings.SplitN(got, " fileargs=", 2)[0]
				want = strings.SplitN(want, " fileargs=", 2)[0]
			}
			return got == want
		}
		rerun := map[int]bool{} // spec index -> the disagreement was reproduced when re-run alone
		tries := 0
		for i, ck := range checks {
			r.hist("model-check-" + ck.Name)
			if agrees(ck, replies[i]) {
				continue
			}
			// a run that restarts mrp in-process may see work of the "dead" mrp's
			// goroutines: re-run the disagreeing case once, alone, before reporting
			owner := owners[i]
			if sp := specs[owner]; len(sp.CrashAt) > 0 || sp.FailChunk {
				if _, done := rerun[owner]; !done && tries < 6 {
					tries++
					again := RunVdrSpecs([]*VdrSpec{sp}, 1)[0]
					bad := false
					var rq [][]string
					var cks []VdrModelCheck
					for _, c2 := range again.Checks {
						if c2.Prop == prop || c2.Prop == "" {
							rq = append(rq, c2.Req)
							cks = append(cks, c2)
						}
					}
					if len(rq) > 0 {
						for j, rep := range c.Drv.AskBatch(rq) {
							if !agrees(cks[j], rep) {
								bad = true
							}
						}
					}
					rerun[owner] = bad
				}
				if !rerun[owner] {
					r.hist("unreproduced-model-" + ck.Name)
					continue
				}
			}
			r.violate(Violation{Kind: "correspondence", Key: prop + ":model:" + ck.Name, What: ck.What,
				Input: map[string]interface{}{"spec": specs[owner], "request": ck.Req},
				Impl:  ck.Expect, Model: replies[i], Broken: "Vdr." + ck.Name})
		}
		phase(fmt.Sprintf("model(%d requests)", len(checks)))
	}
}
