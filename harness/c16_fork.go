package main

// C16-H2: the model of Fork.writeInvocation (lean/Martian/InvocationFork.lean) against the real
// `_invocation` of every fork of the Tier-A runs.
//
// Per fork the worker repeats the first half of writeInvocation through the hook
// Pipestance.VerifForkInvocationInputs (Node.resolveInputs(forkId, keepSplit = true)) and
// serialises what BuildCallSource was given: the list of parameters left split and, per parameter,
// the value in the runtime's DYNAMIC types (nil, syntax.ValExp incl. *SplitExp left in place,
// json.RawMessage, LazyArgumentMap, MarshalerMap, marshallerArray).  The parent sends that to the
// driver op `C16.forkinv`, which builds the call with the model of BuildCallAst on such values
// (`invocationOf` = structured `convertMV` per parameter), decides `forkShapeOk` and prints the call
// with the model of the formatter.  Compared:
//   * model text = the call statement of the real `_invocation` (bytes; everything after the include
//     line) for every fork whose model call is printable,
//   * forkShapeOk = "the real _invocation compiles" for every fork (stage, top-level pipeline and
//     sub-pipeline: the precise form of known finding C16-N6),
//   * for stage forks additionally the model's data of the re-read text = canonical `_args`.

import (
	"bytes"
	"encoding/json"
	"fmt"
	"sort"
	"strconv"
	"strings"

	"github.com/martian-lang/martian/martian/core"
	"github.com/martian-lang/martian/martian/syntax"
)

// c16JSONFloats: strconv 'g' text of every float-syntax number of a JSON value.
func c16JSONFloats(raw []byte, tbl map[string]string, bad *bool) {
	dec := json.NewDecoder(bytes.NewReader(raw))
	dec.UseNumber()
	for {
		tok, err := dec.Token()
		if err != nil {
			return
		}
		if n, ok := tok.(json.Number); ok && strings.ContainsAny(string(n), ".eE") {
			f, err := strconv.ParseFloat(string(n), 64)
			if err != nil {
				*bad = true
				continue
			}
			tbl[strings.TrimPrefix(c16FltTok(f), "d")] = strconv.FormatFloat(f, 'g', -1, 64)
		}
	}
}

// c16MVTok serialises a resolved argument value in its dynamic types.
func c16MVTok(m json.Marshaler, sb *strings.Builder, tbl map[string]string, bad *bool, hist map[string]int) {
	rawTok := func(b []byte) bool {
		t, err := c16CanonText(b, false)
		if err != nil {
			*bad = true
			return false
		}
		c16JSONFloats(b, tbl, bad)
		sb.WriteString(t + " ")
		return true
	}
	switch v := m.(type) {
	case nil:
		hist["mv_nil"]++
		sb.WriteString("_ ")
	case syntax.Exp:
		if _, ok := v.(*syntax.SplitExp); ok {
			hist["mv_split_exp_left_in_place"]++
		} else {
			hist["mv_val_exp"]++
		}
		neg := false
		c16CollectFloats(v, tbl, bad, &neg)
		sb.WriteString("V ")
		c16ExpTok(v, sb)
	case json.RawMessage:
		hist["mv_raw_message"]++
		sb.WriteString("R ")
		rawTok(v)
	case core.LazyArgumentMap:
		hist["mv_lazy_argument_map"]++
		sb.WriteString("L{ ")
		keys := make([]string, 0, len(v))
		for k := range v {
			keys = append(keys, k)
		}
		sort.Strings(keys)
		for _, k := range keys {
			sb.WriteString("k" + hx(k) + " ")
			rawTok(v[k])
		}
		sb.WriteString("} ")
	case core.MarshalerMap:
		hist["mv_marshaler_map"]++
		sb.WriteString("M{ ")
		keys := make([]string, 0, len(v))
		for k := range v {
			keys = append(keys, k)
		}
		sort.Strings(keys)
		for _, k := range keys {
			sb.WriteString("k" + hx(k) + " ")
			c16MVTok(v[k], sb, tbl, bad, hist)
		}
		sb.WriteString("} ")
	default:
		if elems, ok := core.VerifMarshalerArrayElems(m); ok {
			hist["mv_marshaller_array"]++
			sb.WriteString("A[ ")
			for _, e := range elems {
				c16MVTok(e, sb, tbl, bad, hist)
			}
			sb.WriteString("] ")
			return
		}
		hist[fmt.Sprintf("mv_other_%T", m)]++
		b, err := m.MarshalJSON()
		if err != nil {
			*bad = true
			return
		}
		sb.WriteString("R ")
		rawTok(b)
	}
}

// c16TAModel: one fork for the parent to check against the model.
type c16TAModel struct {
	Node     string   `json:"node"`
	Fork     string   `json:"fork"`
	Kind     string   `json:"kind"` // stage | top | sub
	CallId   string   `json:"call_id"`
	DecId    string   `json:"dec_id"`
	Sig      []string `json:"sig"`    // <hex id>=<typeid tokens>
	Mapped   []string `json:"mapped"` // parameters left split
	Args     []string `json:"args"`   // <hex id>=<mv tokens>
	Floats   string   `json:"floats"`
	Text     string   `json:"text"` // the stored _invocation
	Now      string   `json:"now"`  // BuildCallSource on the inputs resolved after the run
	Compiles bool     `json:"compiles"`
	CompErr  string   `json:"comp_err,omitempty"`
	ArgsJSON string   `json:"args_json,omitempty"` // _args of the fork's first job (stage forks)
	ResErr   string   `json:"resolve_err,omitempty"`
}

func c16TAModelOf(run *TARun, n core.VerifNodeView, f core.VerifForkView, callable syntax.Callable,
	hist map[string]int) *c16TAModel {
	var m *c16TAModel
	c16Recover(func() {
		found, mapped, args, rerr, now := run.ps.VerifForkInvocationInputs(n.Fqname, f.Index)
		if !found || callable == nil {
			return
		}
		mm := &c16TAModel{Node: n.Fqname, Fork: f.Id, Mapped: mapped, Now: now}
		if rerr != nil {
			mm.ResErr = rerr.Error()
		}
		lookup := &run.Ast.TypeTable
		tbl := map[string]string{}
		bad := false
		for _, p := range callable.GetInParams().List {
			mm.Sig = append(mm.Sig, hx(p.GetId())+"="+c16TyTok(lookup, p.GetTname(), 0))
			if v, ok := args[p.GetId()]; ok {
				var sb strings.Builder
				c16MVTok(v, &sb, tbl, &bad, hist)
				mm.Args = append(mm.Args, hx(p.GetId())+"="+strings.TrimSpace(sb.String()))
			}
		}
		if bad {
			hist["model_fork_unserialisable"]++
			return
		}
		mm.Floats = c16FloatTable(tbl)
		m = mm
	})
	return m
}

// c16ForkReply: the fields of a `C16.forkinv` reply.
func c16ForkReply(rep string) map[string]string {
	out := map[string]string{}
	head := rep
	if i := strings.Index(rep, " data="); i >= 0 {
		head = rep[:i]
		rest := rep[i+len(" data="):]
		if j := strings.LastIndex(rest, " split="); j >= 0 {
			out["data"], out["split"] = rest[:j], rest[j+len(" split="):]
		} else {
			out["data"] = rest
		}
	}
	for _, f := range strings.Fields(head) {
		if i := strings.IndexByte(f, '='); i > 0 {
			out[f[:i]] = f[i+1:]
		}
	}
	return out
}

func c16ForkReq(m *c16TAModel, decId string) []string {
	mapped := "."
	if len(m.Mapped) > 0 {
		hs := make([]string, len(m.Mapped))
		for i, p := range m.Mapped {
			hs[i] = hx(p)
		}
		mapped = strings.Join(hs, ",")
	}
	req := []string{"C16.forkinv", m.Floats, hx(decId), hx(m.CallId), mapped}
	req = append(req, m.Sig...)
	req = append(req, "|")
	req = append(req, m.Args...)
	return req
}

// forkModel: one fork of a Tier-A run against the model of Fork.writeInvocation.
func (x *c16Runner) forkModel(spec *c16TASpec, decId string, m *c16TAModel) {
	r := x.r
	in := map[string]interface{}{"defs.mro": spec.Defs, "invocation.mro": spec.Call, "node": m.Node, "fork": m.Fork,
		"kind": m.Kind, "resolved_inputs": m.Args, "left_split": m.Mapped, "seed": spec.Seed}
	if m.Now != m.Text {
		// the inputs of a PIPELINE's fork may still be running when the pipeline is stepped (an input no
		// stage of it uses); a stage fork runs after everything it is bound to
		if m.Kind != "stage" {
			r.hist("TA_model_" + m.Kind + "_inputs_resolve_differently_after_the_run")
			return
		}
		r.violate(Violation{Kind: "property", Key: "C16:fork-invocation-not-reproducible",
			What:  "the _invocation of a stage fork is not what BuildCallSource makes of Node.resolveInputs(forkId, keepSplit = true) (repeated after the run)",
			Input: in, Impl: m.Text, Expect: m.Now})
		return
	}
	negZero := strings.Contains(m.Floats, "1:0:0=")
	x.ask(c16ForkReq(m, decId), func(rep string) {
		f := c16ForkReply(rep)
		r.hist("TA_model_fork_" + m.Kind)
		if f["built"] == "" {
			r.violate(Violation{Kind: "correspondence", Key: "C16:fork-model:request", What: "the driver did not understand the fork (harness serialisation): " + rep,
				Input: in, Broken: "correspondence C16.forkinv"})
			return
		}
		empty := strings.TrimSpace(m.Text) == ""
		if (f["built"] == "false") != empty {
			r.violate(Violation{Kind: "correspondence", Key: "C16:fork-model:built",
				What:  fmt.Sprintf("model invocationOf succeeds=%s but the real _invocation is empty=%v (BuildCallSource failed iff the file is empty)", f["built"], empty),
				Input: in, Impl: m.Text, Model: rep, Broken: "correspondence C16.forkinv (invocationOf ~ BuildCallAst on the resolved inputs)"})
			return
		}
		if empty {
			r.hist("TA_model_fork_build_fails_both")
			return
		}
		// the predicate: which fork invocations compile
		if (f["compiles"] == "true") != m.Compiles && !(negZero && m.Compiles) {
			r.violate(Violation{Kind: "correspondence", Key: "C16:fork-model:compiles",
				What: fmt.Sprintf("forkCompiles=%s (plain=%s wf=%s cons=%s) but the real _invocation compiles=%v: %s",
					f["compiles"], f["plain"], f["wf"], f["cons"], m.Compiles, m.CompErr),
				Input: in, Impl: m.Text, Model: rep, Broken: "correspondence C16.forkinv (forkCompiles ~ the compiler on the real _invocation; known finding C16-N6)"})
			return
		}
		if m.Compiles {
			r.hist("TA_model_" + m.Kind + "_compiles_both")
		} else {
			r.hist("TA_model_" + m.Kind + "_does_not_compile_both")
			switch {
			case f["ph"] == "true":
				r.hist("TA_model_not_compiling_map_call_without_split_binding")
			case f["plain"] == "false":
				r.hist("TA_model_not_compiling_split_inside_value")
			case f["wf"] == "false":
				r.hist("TA_model_not_compiling_split_operand_not_a_nonempty_collection")
			case f["cons"] == "false":
				r.hist("TA_model_not_compiling_inconsistent_split_operands")
			}
		}
		if f["plain"] != "true" {
			return
		}
		// the text: bytes of the call statement
		realText := c16CallPart(m.Text)
		if unhx(f["text"]) != realText {
			r.violate(Violation{Kind: "correspondence", Key: "C16:fork-model:text",
				What:  "the call statement of the real _invocation differs from the model's text (printFork ∘ invocationOf on the fork's resolved inputs)",
				Input: in, Impl: realText, Model: unhx(f["text"]), Broken: "correspondence C16.forkinv (printFork ∘ invocationOf ~ Fork.writeInvocation, modulo the include line)"})
			return
		}
		r.hist("TA_model_fork_text_equal")
		if !m.Compiles {
			return
		}
		if f["wf"] != "true" || f["fok"] != "true" {
			if negZero && f["fok"] == "true" {
				r.hist("TA_model_fork_wf_fails_negative_zero")
			} else {
				r.violate(Violation{Kind: "correspondence", Key: "C16:fork-model:hypothesis",
					What:  fmt.Sprintf("a hypothesis of the fork round-trip theorems fails (wfForkText=%s floatsOkBinds=%s) on a fork whose real _invocation compiles", f["wf"], f["fok"]),
					Input: in, Impl: m.Text, Broken: "stage_fork_invocation_roundtrip / fork_invocation_roundtrip (hypotheses)"})
			}
			return
		}
		if m.Kind != "stage" || m.ArgsJSON == "" {
			return
		}
		// stage forks: the data of the re-read text = canonical _args, nothing split
		var delivered map[string]json.RawMessage
		if json.Unmarshal([]byte(m.ArgsJSON), &delivered) != nil {
			return
		}
		model := map[string]string{}
		for _, kv := range strings.Split(f["data"], ";") {
			if i := strings.IndexByte(kv, '='); i > 0 {
				model[unhx(kv[:i])] = strings.TrimSpace(kv[i+1:])
			}
		}
		if f["split"] != "." {
			r.violate(Violation{Kind: "property", Key: "C16:fork-model:stage-split", What: "the model's data of a stage fork's _invocation has split arguments " + f["split"],
				Input: in, Impl: m.Text, Model: rep, Broken: "stage_fork_invocation_roundtrip"})
			return
		}
		for p, want := range delivered {
			got, ok := model[p]
			if !ok {
				continue // chunk-only parameter
			}
			wt, err := c16CanonText(want, true)
			if err != nil {
				continue
			}
			if wt != got {
				r.violate(Violation{Kind: "property", Key: "C16:fork-model:stage-args",
					What:  fmt.Sprintf("argument %s: the data the model reads back from its _invocation text differs from the _args delivered to the fork", p),
					Input: in, Impl: wt, Model: got, Broken: "stage_fork_invocation_roundtrip (dataOf ∘ parse ∘ print ∘ invocationOf = canonData _args)"})
				return
			}
		}
		r.hist("TA_model_stage_fork_data_equals_args")
	})
}

// forkModelFn: direction F (BuildCallSource on hand-made resolver-shaped arguments, incl.
// LazyArgumentMap, which the Tier-A programs do not produce) against the same model.
func (x *c16Runner) forkModelFn(k *c16Case, in map[string]interface{}, callable syntax.Callable,
	lookup *syntax.TypeLookup, args core.MarshalerMap, src string, compiles bool) {
	r := x.r
	m := &c16TAModel{CallId: "ST", Text: src}
	tbl := map[string]string{}
	bad := false
	hist := map[string]int{}
	for _, p := range callable.GetInParams().List {
		m.Sig = append(m.Sig, hx(p.GetId())+"="+c16TyTok(lookup, p.GetTname(), 0))
		if v, ok := args[p.GetId()]; ok {
			var sb strings.Builder
			c16MVTok(v, &sb, tbl, &bad, hist)
			m.Args = append(m.Args, hx(p.GetId())+"="+strings.TrimSpace(sb.String()))
		}
	}
	if bad {
		return
	}
	for h, n := range hist {
		for i := 0; i < n; i++ {
			r.hist("F_" + h)
		}
	}
	m.Floats = c16FloatTable(tbl)
	negZero := strings.Contains(m.Floats, "1:0:0=")
	x.ask(c16ForkReq(m, callable.GetId()), func(rep string) {
		f := c16ForkReply(rep)
		r.hist("F_model_fork")
		if f["built"] != "true" || f["plain"] != "true" {
			r.violate(Violation{Kind: "correspondence", Key: k.key("fork-model:built"),
				What:  "BuildCallSource succeeds on these resolved arguments, the model's invocationOf / plainBinds does not: " + rep,
				Input: in, Impl: src, Broken: "correspondence C16.forkinv (invocationOf ~ BuildCallAst on resolver-shaped values)"})
			return
		}
		if unhx(f["text"]) != c16CallPart(src) {
			r.violate(Violation{Kind: "correspondence", Key: k.key("fork-model:text"),
				What:  "the call BuildCallSource prints for resolver-shaped arguments differs from the model's (printFork ∘ invocationOf: the structured cases of convertToExp)",
				Input: in, Impl: c16CallPart(src), Model: unhx(f["text"]), Broken: "correspondence C16.forkinv (convertMV ~ convertToExp on LazyArgumentMap / MarshalerMap / marshallerArray / ValExp / nil)"})
			return
		}
		if (f["compiles"] == "true") != compiles && !negZero {
			r.violate(Violation{Kind: "correspondence", Key: k.key("fork-model:compiles"),
				What:  fmt.Sprintf("forkCompiles=%s (wf=%s cons=%s) but the text compiles=%v", f["compiles"], f["wf"], f["cons"], compiles),
				Input: in, Impl: src, Model: rep, Broken: "correspondence C16.forkinv (forkCompiles)"})
			return
		}
		r.hist("F_model_fork_text_equal")
	})
}
