package main

// C04 / C14: correspondence of the pure functions of storage.go with the model.

import (
	"fmt"
	"path/filepath"
	"strings"

	"github.com/martian-lang/martian/martian/core"
)

func vdrGenPath(c *Ctx) string {
	comps := []string{"a", "b", "ab", "a.b", "p", "px", "p x", "é", "files"}
	n := 1 + c.Rng.Intn(4)
	var sb strings.Builder
	for i := 0; i < n; i++ {
		sb.WriteByte('/')
		sb.WriteString(comps[c.Rng.Intn(len(comps))])
	}
	return sb.String()
}

func vdrRelatedPath(c *Ctx, p string) string {
	switch c.Rng.Intn(6) {
	case 0:
		return p
	case 1:
		return p + vdrGenPath(c)
	case 2:
		if i := strings.LastIndex(p, "/"); i > 0 {
			return p[:i]
		}
		return p
	case 3:
		return p + "x" // same string prefix, not a directory prefix
	case 4:
		if len(p) > 2 && p[len(p)-2] != '/' {
			return p[:len(p)-1]
		}
		return p
	}
	return vdrGenPath(c)
}

func vdrPureChecks(c *Ctx, prop string) {
	r := c.Res
	if c.Drv == nil {
		return
	}
	n := 1500
	if c.Thorough {
		n = 20000
	}
	var reqs [][]string
	var expect []string
	var what []string
	add := func(req []string, exp, w string) {
		reqs = append(reqs, req)
		expect = append(expect, exp)
		what = append(what, w)
	}
	if prop == "C04" {
		for i := 0; i < n; i++ {
			a := vdrGenPath(c)
			b := vdrRelatedPath(c, a)
			if c.Rng.Intn(2) == 0 {
				a, b = b, a
			}
			got := core.VerifPathIsInside(a, b)
			add([]string{"C04.inside", hx(a), hx(b)}, fmt.Sprint(got), "pathIsInside("+a+", "+b+")")
			r.count("inside|"+a+"|"+b, got)
			// unclean spellings are cleaned first
			ua, ub := strings.Replace(a, "/", "//", 1)+"/", b+"/./"
			if core.VerifPathIsInside(ua, ub) != core.VerifPathIsInside(filepath.Clean(ua), filepath.Clean(ub)) {
				r.violate(Violation{Kind: "property", Key: "C04:pathIsInside-clean", What: "pathIsInside differs between a path and its cleaned form",
					Input: []string{ua, ub}})
			}
			// anyOverlap
			nn, nf := 1+c.Rng.Intn(3), c.Rng.Intn(4)
			var names, files []string
			for j := 0; j < nn; j++ {
				names = append(names, vdrGenPath(c))
			}
			for j := 0; j < nf; j++ {
				if c.Rng.Intn(2) == 0 {
					files = append(files, vdrRelatedPath(c, names[c.Rng.Intn(len(names))]))
				} else {
					files = append(files, vdrGenPath(c))
				}
			}
			file, name := core.VerifAnyOverlap(names, files)
			found := file != ""
			add([]string{"C04.overlap", hxList(names), hxList(files)}, fmt.Sprint(found),
				fmt.Sprintf("anyOverlap(%v, %v)", names, files))
			r.count("overlap|"+strings.Join(names, ",")+"|"+strings.Join(files, ","), found)
			if found && !vdrOverlap(file, name) {
				r.violate(Violation{Kind: "property", Key: "C04:anyOverlap-pair", What: "anyOverlap returned a pair that is neither equal nor nested",
					Input: map[string]interface{}{"names": names, "files": files}, Impl: []string{file, name}})
			}
			// reference: equal / ancestor / descendant of some pair
			ref := false
			for _, x := range names {
				for _, y := range files {
					if vdrOverlap(x, y) {
						ref = true
					}
				}
			}
			if ref != found {
				r.violate(Violation{Kind: "property", Key: "C04:anyOverlap-spec", What: "anyOverlap does not detect exactly equal-or-ancestor-or-descendant paths",
					Input: map[string]interface{}{"names": names, "files": files}, Impl: found, Expect: ref})
			}
		}
		r.hist("pure-pathIsInside")
		r.hist("pure-anyOverlap")
	}
	if prop == "C14" {
		for i := 0; i < n/3; i++ {
			mkEvents := func(k int) ([][2]int64, string) {
				var evs [][2]int64
				var parts []string
				used := map[int64]bool{}
				for j := 0; j < k; j++ {
					ts := int64(1700000000+c.Rng.Intn(4))*1000000000 + int64(c.Rng.Intn(1000))*1000000
					if used[ts] {
						continue
					}
					used[ts] = true
					d := int64(c.Rng.Intn(2001) - 1000)
					evs = append(evs, [2]int64{ts, d})
					parts = append(parts, fmt.Sprintf("%d:%d", ts, d))
				}
				if len(parts) == 0 {
					return evs, "."
				}
				return evs, strings.Join(parts, ",")
			}
			showEvents := func(evs [][2]int64) string {
				if len(evs) == 0 {
					return "."
				}
				var parts []string
				for _, e := range evs {
					parts = append(parts, fmt.Sprintf("%d:%d", e[0], e[1]))
				}
				return strings.Join(parts, ",")
			}
			evs, enc := mkEvents(c.Rng.Intn(7))
			got := core.VerifMergeEvents(&core.VerifReport{Events: evs})
			add([]string{"C14.mergeevents", enc}, showEvents(got.Events), "mergeEvents("+enc+")")
			var sumIn, sumOut int64
			for _, e := range evs {
				sumIn += e[1]
			}
			for _, e := range got.Events {
				sumOut += e[1]
			}
			if sumIn != sumOut {
				r.violate(Violation{Kind: "property", Key: "C14:mergeEvents-total", What: "mergeEvents changes the total of the byte deltas", Input: enc})
			}
			r.count("mergeevents|"+enc, len(evs) > 1)
			// merge of reports
			k := c.Rng.Intn(4)
			var reps []*core.VerifReport
			var parts []string
			var wantCount uint
			var wantSize uint64
			var wantPaths []string
			usedTs := map[int64]bool{}
			for j := 0; j < k; j++ {
				if j > 0 && c.Rng.Intn(5) == 0 {
					reps = append(reps, nil)
					parts = append(parts, "nil")
					continue
				}
				rep := &core.VerifReport{Count: uint(c.Rng.Intn(20)), Size: uint64(c.Rng.Intn(100000))}
				if c.Rng.Intn(4) != 0 {
					rep.Stamp = int64(1700000000+c.Rng.Intn(100)) * 1000000000
				}
				for x := c.Rng.Intn(3); x > 0; x-- {
					rep.Paths = append(rep.Paths, vdrGenPath(c))
				}
				evs, _ := mkEvents(c.Rng.Intn(4))
				var kept [][2]int64
				for _, e := range evs {
					if !usedTs[e[0]] {
						usedTs[e[0]] = true
						kept = append(kept, e)
					}
				}
				rep.Events = kept
				wantCount += rep.Count
				wantSize += rep.Size
				wantPaths = append(wantPaths, rep.Paths...)
				reps = append(reps, rep)
				ps := "."
				if len(rep.Paths) > 0 {
					o := make([]string, len(rep.Paths))
					for i, p := range rep.Paths {
						o[i] = hx(p)
					}
					ps = strings.Join(o, ",")
				}
				parts = append(parts, fmt.Sprintf("%d|%d|%d|%s|%s", rep.Stamp, rep.Count, rep.Size, ps, showEvents(rep.Events)))
			}
			if k == 0 {
				continue
			}
			m := core.VerifMergeVDRKillReports(reps)
			ps := "."
			if len(m.Paths) > 0 {
				o := make([]string, len(m.Paths))
				for i, p := range m.Paths {
					o[i] = hx(p)
				}
				ps = strings.Join(o, ",")
			}
			enc2 := strings.Join(parts, ";")
			add([]string{"C14.merge", enc2}, fmt.Sprintf("%d|%d|%d|%s|%s", m.Stamp, m.Count, m.Size, ps, showEvents(m.Events)),
				"mergeVDRKillReports("+enc2+")")
			if m.Count != wantCount || m.Size != wantSize || strings.Join(m.Paths, "|") != strings.Join(wantPaths, "|") {
				r.violate(Violation{Kind: "property", Key: "C14:merge-totals", What: "mergeVDRKillReports does not preserve count / size / paths", Input: enc2})
			}
			r.count("merge|"+enc2, k > 1)
		}
		r.hist("pure-mergeEvents")
		r.hist("pure-mergeVDRKillReports")
	}
	replies := c.Drv.AskBatch(reqs)
	for i := range reqs {
		if replies[i] != expect[i] {
			name := strings.SplitN(reqs[i][0], ".", 2)[1]
			r.violate(Violation{Kind: "correspondence", Key: prop + ":model:" + name, What: what[i],
				Input: reqs[i], Impl: expect[i], Model: replies[i], Broken: "Vdr." + name})
		}
	}
}
