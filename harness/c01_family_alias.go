package main

// C01 program family alias-twice: ONE sub-pipeline instantiated two or three times under
// aliases (`call SUB as A`, `call SUB as B`), each later instantiation consuming the MERGED
// output of the map call inside an earlier one — inside its own map call of the very same
// call statement.  The instantiations share the `*CallStm` of the inner map call, which is
// what the run-time keys fork identities by: a reference to a concrete fork of `A.INNER`
// resolved in fork k of `B.INNER` must not be matched against B's own fork index.
//
// Variations: the size of the inner map call is known at compile time (array / typed-map
// literal, written at the call or handed down as a pipeline input: the merge is unrolled
// into references with known fork indices) or only at run time (the merge stays a merge);
// the earlier output is consumed whole, projected, or through a further pipeline input;
// two or three instantiations in a chain; the inner call sits one pipeline deeper.

import (
	"fmt"
	"math/rand"
	"strings"
)

const c01AliasDecls = `struct PAIR(
    int    a,
    string b,
)

stage GENA(
    in  int      n,
    out int[]    xs,
    out map<int> m,
    src comp     "fake",
)

stage ECHOA(
    in  int    what,
    in  int[]  others,
    in  PAIR[] ps,
    out int    result,
    out PAIR   p,
    src comp   "fake",
)

stage ECHOM(
    in  int       what,
    in  map<int>  others,
    out int       result,
    src comp      "fake",
)

stage SINK(
    in  int[] a,
    in  int[] b,
    out int   r,
    src comp  "fake",
)

`

func c01AliasTwiceProgram(rng *rand.Rand, variant int) string {
	var sb strings.Builder
	sb.WriteString(c01AliasDecls)
	mapMode := variant%5 == 4
	runtime := variant%2 == 1
	deeper := variant%3 == 2
	three := rng.Intn(3) == 0
	n := 2 + rng.Intn(3)
	// the body of SUB: a map call of ECHO over self.xs, `others` = what an earlier instantiation produced
	inner := func(indent string) string {
		if mapMode {
			return indent + "map call ECHOM(\n" + indent + "    what   = split self.xs,\n" + indent + "    others = self.ys,\n" + indent + ")\n"
		}
		return indent + "map call ECHOA(\n" + indent + "    what   = split self.xs,\n" + indent + "    others = self.ys,\n" + indent + "    ps     = self.ps,\n" + indent + ")\n"
	}
	if mapMode {
		if deeper {
			sb.WriteString("pipeline DEEP(\n    in  map<int> xs,\n    in  map<int> ys,\n    out map<int> vals,\n)\n{\n" + inner("    ") +
				"\n    return (\n        vals = ECHOM.result,\n    )\n}\n\n")
			sb.WriteString("pipeline SUB(\n    in  map<int> xs,\n    in  map<int> ys,\n    out map<int> vals,\n)\n{\n    call DEEP(\n        xs = self.xs,\n        ys = self.ys,\n    )\n\n    return (\n        vals = DEEP.vals,\n    )\n}\n\n")
		} else {
			sb.WriteString("pipeline SUB(\n    in  map<int> xs,\n    in  map<int> ys,\n    out map<int> vals,\n)\n{\n" + inner("    ") +
				"\n    return (\n        vals = ECHOM.result,\n    )\n}\n\n")
		}
	} else {
		if deeper {
			sb.WriteString("pipeline DEEP(\n    in  int[]  xs,\n    in  int[]  ys,\n    in  PAIR[] ps,\n    out int[]  vals,\n    out PAIR[] pairs,\n)\n{\n" + inner("    ") +
				"\n    return (\n        vals  = ECHOA.result,\n        pairs = ECHOA.p,\n    )\n}\n\n")
			sb.WriteString("pipeline SUB(\n    in  int[]  xs,\n    in  int[]  ys,\n    in  PAIR[] ps,\n    out int[]  vals,\n    out PAIR[] pairs,\n)\n{\n    call DEEP(\n        xs = self.xs,\n        ys = self.ys,\n        ps = self.ps,\n    )\n\n    return (\n        vals  = DEEP.vals,\n        pairs = DEEP.pairs,\n    )\n}\n\n")
		} else {
			sb.WriteString("pipeline SUB(\n    in  int[]  xs,\n    in  int[]  ys,\n    in  PAIR[] ps,\n    out int[]  vals,\n    out PAIR[] pairs,\n)\n{\n" + inner("    ") +
				"\n    return (\n        vals  = ECHOA.result,\n        pairs = ECHOA.p,\n    )\n}\n\n")
		}
	}
	// the source of every instantiation
	src := func() string {
		if runtime {
			if mapMode {
				return "GENA.m"
			}
			return "GENA.xs"
		}
		if mapMode {
			var kv []string
			for i := 0; i < n; i++ {
				kv = append(kv, fmt.Sprintf("\"k%d\": %d", i, 10*(i+1)+rng.Intn(5)))
			}
			return "{" + strings.Join(kv, ", ") + "}"
		}
		var xs []string
		for i := 0; i < n; i++ {
			xs = append(xs, fmt.Sprint(10*(i+1)+rng.Intn(5)))
		}
		return "[" + strings.Join(xs, ", ") + "]"
	}
	if mapMode {
		sb.WriteString("pipeline TOP(\n    out map<int> r,\n)\n{\n    call GENA(\n        n = 3,\n    )\n\n")
		sb.WriteString("    call SUB as A(\n        xs = " + src() + ",\n        ys = {},\n    )\n\n")
		sb.WriteString("    call SUB as B(\n        xs = " + src() + ",\n        ys = A.vals,\n    )\n\n")
		last := "B"
		if three {
			sb.WriteString("    call SUB as C(\n        xs = " + src() + ",\n        ys = B.vals,\n    )\n\n")
			last = "C"
		}
		sb.WriteString("    return (\n        r = " + last + ".vals,\n    )\n}\n\ncall TOP()\n")
		return sb.String()
	}
	sb.WriteString("pipeline TOP(\n    out int[] r,\n    out int   s,\n)\n{\n    call GENA(\n        n = 3,\n    )\n\n")
	sb.WriteString("    call SUB as A(\n        xs = " + src() + ",\n        ys = [],\n        ps = [],\n    )\n\n")
	ys := "A.vals"
	if rng.Intn(3) == 0 {
		ys = "A.pairs.a"
	}
	sb.WriteString("    call SUB as B(\n        xs = " + src() + ",\n        ys = " + ys + ",\n        ps = A.pairs,\n    )\n\n")
	last := "B"
	if three {
		sb.WriteString("    call SUB as C(\n        xs = " + src() + ",\n        ys = B.vals,\n        ps = A.pairs,\n    )\n\n")
		last = "C"
	}
	sb.WriteString("    call SINK(\n        a = A.vals,\n        b = " + last + ".vals,\n    )\n\n")
	sb.WriteString("    return (\n        r = " + last + ".vals,\n        s = SINK.r,\n    )\n}\n\ncall TOP()\n")
	return sb.String()
}

func c01AliasTwiceFamily(rng *rand.Rand, thorough bool) []c01Case {
	n := 10
	if thorough {
		n = 40
	}
	var cases []c01Case
	for i := 0; i < n; i++ {
		cases = append(cases, c01Case{name: fmt.Sprintf("family/alias-twice-%d", i), src: c01AliasTwiceProgram(rng, i)})
	}
	return cases
}
