package main

// C13 fault streams: post-processing under an I/O fault (RLIMIT_FSIZE) and
// under kill -9, followed by a second pass (mrp restart).  Asserted on the
// real tree: `_outs` is the complete old record or a complete new one — never
// a fragment —, every output's content is intact at its source path or at its
// destination, and the second pass ends in a record and a tree that satisfy
// the property (the tree being the one of an uninterrupted run).

import (
	"context"
	"encoding/json"
	"fmt"
	"math/rand"
	"os"
	"os/signal"
	"path"
	"path/filepath"
	"runtime"
	"strings"
	"syscall"
	"time"

	"github.com/martian-lang/martian/martian/core"
	"github.com/martian-lang/martian/martian/syntax"
)

// c13LimitFileSize: no regular file may grow beyond n bytes until the
// returned function is called (EFBIG, as a full disk / quota would give
// ENOSPC / EDQUOT).  Moving files (rename, symlink, mkdir) is not affected.
func c13LimitFileSize(n int) func() {
	signal.Ignore(syscall.SIGXFSZ)
	var old syscall.Rlimit
	if err := syscall.Getrlimit(syscall.RLIMIT_FSIZE, &old); err != nil {
		return func() {}
	}
	if err := syscall.Setrlimit(syscall.RLIMIT_FSIZE, &syscall.Rlimit{Cur: uint64(n), Max: old.Max}); err != nil {
		return func() {}
	}
	return func() {
		syscall.Setrlimit(syscall.RLIMIT_FSIZE, &old)
		signal.Reset(syscall.SIGXFSZ)
	}
}

// c13CheckFaultState: assertions on the pipestance right after a faulted
// (or killed) post-process, before anything else touches it.
func c13CheckFaultState(res *c13TARes, spec *c13TASpec, mon *c13Mon, preJ *c13J, psDir, topOuts string) {
	fail := func(f string, a ...interface{}) {
		if len(res.FaultFails) < 6 {
			res.FaultFails = append(res.FaultFails, fmt.Sprintf(f, a...))
		}
	}
	raw, err := os.ReadFile(topOuts)
	// the record's temp sibling at the cut (writeAtomicAt: <target>.tmp)
	if tb, terr := os.ReadFile(topOuts + ".tmp"); terr != nil {
		res.FaultTmp = "N"
	} else if len(tb) <= 8192 {
		res.FaultTmp = "S" + hx(string(tb))
	} else {
		res.FaultTmp = fmt.Sprintf("L%d", len(tb))
	}
	if err == nil && len(raw) <= 8192 {
		res.FaultRaw = "S" + hx(string(raw))
	}
	res.FaultOuts = string(raw)
	if len(res.FaultOuts) > 400 {
		res.FaultOuts = res.FaultOuts[:400] + "…"
	}
	var cur *c13J
	if err != nil {
		fail("the top-level _outs cannot be read: %v", err)
	} else if !json.Valid(raw) {
		fail("the top-level _outs is a fragment / not valid JSON (%d bytes)", len(raw))
	} else if cur, err = c13ParseJSON(raw); err != nil {
		fail("the top-level _outs does not parse: %v", err)
	} else if cur.canon() == preJ.canon() {
		res.FaultRecord = "old"
	} else {
		// must be a complete new record: same shape, values pointing at the content
		res.FaultRecord = "new"
		m2 := newC13Mon(psDir)
		m2.pre, m2.kind, m2.occ = mon.pre, mon.kind, mon.occ
		c13WalkRecords(spec.Mapped, res.Params, m2, preJ, cur, psDir)
		for _, f := range m2.fails {
			fail("the top-level _outs is neither the old record nor a complete new one: %s", f)
		}
	}
	// every output that had content: still intact at its source path (the file itself, or the
	// link left behind) or at its destination
	dests := c13LeafDests(spec.Mapped, res.Params, preJ, psDir)
	for src, sig := range mon.pre {
		if sig == "" {
			continue
		}
		if c13SigOf(src, 0) == sig {
			continue
		}
		ok := false
		for _, d := range dests[src] {
			if c13SigOf(d, 0) == sig {
				ok = true
			}
		}
		if !ok {
			fail("content of %s is neither at its source nor at its destination %v", src, dests[src])
		}
	}
}

// c13LeafDests: source path -> derived destination(s), for every file leaf of the record.
func c13LeafDests(mapped string, params []c13Member, preJ *c13J, psDir string) map[string][]string {
	out := map[string][]string{}
	var walk func(mem c13Member, v *c13J, dir string)
	walk = func(mem c13Member, v *c13J, dir string) {
		if v == nil || v.K == 'n' || !mem.Ty.hasFile() {
			return
		}
		dest := filepath.Join(dir, mem.expectName())
		switch mem.Ty.Kind {
		case "f":
			if v.K == 'q' {
				out[v.S] = append(out[v.S], dest)
			}
		case "a":
			if v.K != 'A' {
				return
			}
			et := mem.Ty.Elem
			if mem.Ty.Extra > 0 {
				et = &c13Ty{Kind: "a", Elem: mem.Ty.Elem, Extra: mem.Ty.Extra - 1}
			}
			for i, x := range v.Arr {
				walk(c13Member{Id: c13Pad(i, len(v.Arr)), Ty: et}, x, dest)
			}
		case "m":
			if v.K != 'O' {
				return
			}
			for i, k := range v.Keys {
				walk(c13Member{Id: k, Ty: mem.Ty.Elem}, v.Vals[i], dest)
			}
		case "t":
			if v.K != 'O' {
				return
			}
			for _, mm := range mem.Ty.Ms {
				walk(mm, v.get(mm.Id), dest)
			}
		}
	}
	outsRoot := filepath.Join(psDir, "outs")
	c13ForEachRecord(mapped, preJ, func(k string, rec *c13J) {
		dir := outsRoot
		if mapped != "" {
			dir = filepath.Join(outsRoot, k)
		}
		for _, p := range params {
			walk(p, rec.get(p.Id), dir)
		}
	})
	return out
}

// ---- kill -9 ----

type c13Prepost struct {
	Res  *c13TARes         `json:"res"`
	Pre  map[string]string `json:"pre"`
	Kind map[string]string `json:"kind"`
	Occ  map[string]int    `json:"occ"`
}

func c13WritePrepost(file string, res *c13TARes, mon *c13Mon) {
	b, _ := json.Marshal(&c13Prepost{Res: res, Pre: mon.pre, Kind: mon.kind, Occ: mon.occ})
	os.WriteFile(file, b, 0o644)
}

func c13KillSelf(prepostFile, point string) {
	os.WriteFile(strings.TrimSuffix(prepostFile, ".prepost.json")+".killpoint", []byte(point), 0o644)
	syscall.Kill(os.Getpid(), syscall.SIGKILL)
	time.Sleep(time.Hour)
}

func c13CountEntries(dir string) int {
	n := 0
	filepath.Walk(dir, func(p string, info os.FileInfo, err error) error {
		if err == nil {
			n++
		}
		return nil
	})
	return n
}

// c13ArmKiller: a goroutine that kills the process as soon as `want` entries
// exist under outs/ (want = 0: as soon as the record's temp file shows up).
func c13ArmKiller(outsDir string, want int, prepostFile string) {
	topFork := ""
	if want == 0 {
		// <ps>/<TOP>/fork0/_outs.tmp
		ents, _ := os.ReadDir(filepath.Dir(outsDir))
		for _, e := range ents {
			p := filepath.Join(filepath.Dir(outsDir), e.Name(), "fork0")
			if st, err := os.Stat(p); err == nil && st.IsDir() {
				topFork = p
			}
		}
	}
	go func() {
		runtime.LockOSThread()
		for {
			if want == 0 {
				if _, err := os.Lstat(filepath.Join(topFork, "_outs.tmp")); err == nil {
					c13KillSelf(prepostFile, "record-temp-file-present")
				}
			} else if n := c13CountEntries(outsDir); n >= want {
				c13KillSelf(prepostFile, fmt.Sprintf("%d-entries-under-outs", n))
			}
			runtime.Gosched()
		}
	}()
}

// c13Reattach: what mrp does when started on an existing pipestance directory
// after its predecessor was killed (the operator removes the stale lock).
func c13Reattach(spec *c13TASpec, psDir string) (*TARun, error) {
	r := &TARun{Opts: TAOpts{StepBias: 0.4, StartSeparate: 0.3, Psid: "ps", SrcPath: "pipeline.mro", MaxEvents: 4000},
		Src: spec.Src, Rng: rand.New(rand.NewSource(spec.Seed + 1)), PsDir: psDir,
		Launches: map[string]int{}, Written: map[string]string{}}
	_, _, ast, err := syntax.ParseSourceBytes([]byte(spec.Src), r.Opts.SrcPath, nil, false)
	if err != nil {
		return nil, err
	}
	r.Ast = ast
	os.Remove(path.Join(psDir, "_lock"))
	if err := r.Restart(); err != nil {
		return nil, err
	}
	r.Tracer = nil
	return r, nil
}

// c13Resume: second child after a killed post-process.
func c13Resume(c *Ctx, spec *c13TASpec, prepostFile string) *c13TARes {
	var pp c13Prepost
	b, err := os.ReadFile(prepostFile)
	if err != nil || json.Unmarshal(b, &pp) != nil || pp.Res == nil {
		return &c13TARes{Name: spec.Name, Final: "error:no prepost state", Fault: spec.Fault}
	}
	res := pp.Res
	if kp, err := os.ReadFile(strings.TrimSuffix(prepostFile, ".prepost.json") + ".killpoint"); err == nil {
		res.FaultPoint = string(kp)
	}
	mon := newC13Mon(res.PsDir)
	mon.pre, mon.kind, mon.occ = pp.Pre, pp.Kind, pp.Occ
	cs := &c13Contents{ids: res.Contents}
	preJ, err := c13ParseJSON([]byte(res.PreOuts))
	if err != nil {
		res.Final = "error:pre outs"
		return res
	}
	_, _, ast, err := syntax.ParseSourceBytes([]byte(spec.Src), "pipeline.mro", nil, false)
	if err != nil {
		res.Final = "error:" + err.Error()
		return res
	}
	topOuts := path.Join(res.PsDir, ast.Call.Id, "fork0", "_outs")
	c13CheckFaultState(res, spec, mon, preJ, res.PsDir, topOuts)
	run, err := c13Reattach(spec, res.PsDir)
	if err != nil {
		res.Final = "error:reattach: " + err.Error()
		return res
	}
	defer run.Close()
	done := make(chan struct{})
	go func() {
		defer close(done)
		c13Drive(run, func() {}, nil)
	}()
	select {
	case <-done:
	case <-time.After(120 * time.Second):
		res.Final = "hang"
		return res
	}
	res.Final = run.Final
	res.ErrMsg = run.ErrMsg
	if run.Final != "complete" {
		return res
	}
	run.ps.VerifStorageBarrier()
	c13Finish(res, spec, mon, preJ, cs, res.PsDir, res.Ext, topOuts)
	return res
}

var _ = context.Background
var _ = core.Complete
