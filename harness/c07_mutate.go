package main

func c07Corpus(c *Ctx)         {}
func c07MutationOracle(c *Ctx) {}
