package main

// C07 compile-time half, part 3: the mutation oracle.  Every single-line
// binding of an accepted program is replaced, one mutation at a time, by a
// binding that is ill-typed BY CONSTRUCTION (the parameter type is taken from
// the real compiler's AST); the real compiler must reject the mutant and the
// error must be located at the binding or its call.

import (
	"fmt"
	"os"
	"path/filepath"
	"regexp"
	"sort"
	"strings"

	"github.com/martian-lang/martian/martian/syntax"
)

// one source program with its acceptance test
type c07Prog struct {
	name   string
	src    string
	fname  string // file name handed to the parser (appears in error locations)
	paths  []string
	graph  bool // acceptance includes call-graph resolution (programs with a top-level call)
	origin string
}

func (p *c07Prog) compile(src string) (ast *syntax.Ast, err error) {
	defer func() {
		if r := recover(); r != nil {
			err = fmt.Errorf("PANIC: %v", r)
		}
	}()
	_, _, ast, err = syntax.ParseSourceBytes([]byte(src), p.fname, p.paths, false)
	if err != nil {
		return nil, err
	}
	if p.graph && ast.Call != nil {
		if _, err := ast.MakePipelineCallGraph("ID.ps.", ast.Call); err != nil {
			return nil, err
		}
		// resolution annotates the tree; hand out a fresh one
		_, _, ast, err = syntax.ParseSourceBytes([]byte(src), p.fname, p.paths, false)
	}
	return ast, err
}

type c07Site struct {
	b        *syntax.BindStm
	line     int // 1-based
	first    int // extent of the enclosing call / return statement
	last     int
	t        *c17Ty
	split    bool
	where    string // "call", "return", "top"
	stage    *syntax.Stage
	inParam  *syntax.InParam
	splitLit int // for split literal arrays: length
	sibSplit *c07Site
	group    []*c07Site      // all judged bindings of the same call, in source order
	mode     syntax.CallMode // of the call
	selfRef  string          // some `self.x` that resolves in the enclosing pipeline ("" if none)
	isPipe   bool            // the callee is a pipeline
}

var c07BindRe = regexp.MustCompile(`^(\s*)([A-Za-z_][A-Za-z0-9_]*)(\s*=\s*)(split\s+)?(.*?),\s*$`)
var c07NextRe = regexp.MustCompile(`^\s*([A-Za-z_][A-Za-z0-9_]*\s*=|\*\s*=|\))`)

type c07Mutant struct {
	kind   string
	src    string
	lines  map[int]bool // acceptable error lines
	marker string       // text that must survive shrinking
	lit    *c07Exp      // replacement literal (model double-check), with its type
	t      *c17Ty
	class  []string // when set: one of these must occur in the error text
}

func c07ReplaceLine(lines []string, i int, repl ...string) string {
	out := append(append(append([]string{}, lines[:i]...), repl...), lines[i+1:]...)
	return strings.Join(out, "\n")
}

func c07Sites(p *c07Prog, ast *syntax.Ast, lines []string) []*c07Site {
	var sites []*c07Site
	mainFile := func(n *syntax.AstNode) bool {
		return n.Loc.File != nil && filepath.Base(n.Loc.File.FileName) == filepath.Base(p.fname)
	}
	add := func(bs *syntax.BindStms, first int, where string, callable syntax.Callable, mode syntax.CallMode, selfRef string) {
		if bs == nil || len(bs.List) == 0 {
			return
		}
		seen := map[int]int{}
		wild := false
		last := first
		for _, b := range bs.List {
			seen[b.Node.Loc.Line]++
			if b.Id == "*" {
				wild = true
			}
			if b.Node.Loc.Line > last {
				last = b.Node.Loc.Line
			}
		}
		if wild {
			return
		}
		var group []*c07Site
		for _, b := range bs.List {
			ln := b.Node.Loc.Line
			if !mainFile(&b.Node) || seen[ln] != 1 || ln < 1 || ln >= len(lines) {
				continue
			}
			m := c07BindRe.FindStringSubmatch(lines[ln-1])
			if m == nil || m[2] != b.Id || !c07NextRe.MatchString(lines[ln]) {
				continue
			}
			rt := ast.TypeTable.Get(b.Tname)
			if rt == nil {
				continue
			}
			t := c07FromReal(rt, &ast.TypeTable, 0)
			if t == nil {
				continue
			}
			s := &c07Site{b: b, line: ln, first: first, last: last + 1, t: t, where: where, split: m[4] != "", mode: mode, selfRef: selfRef}
			if st, ok := callable.(*syntax.Stage); ok && st != nil && st.InParams != nil {
				s.stage = st
				s.inParam = st.InParams.Table[b.Id]
			}
			if pl, ok := callable.(*syntax.Pipeline); ok && pl != nil {
				s.isPipe = true
			}
			if sp, ok := b.Exp.(*syntax.SplitExp); ok {
				if a, ok := sp.Value.(*syntax.ArrayExp); ok {
					s.splitLit = len(a.Value)
				}
			}
			group = append(group, s)
		}
		for _, s := range group {
			s.group = group
			for _, o := range group {
				if o != s && o.split && o.splitLit > 0 {
					s.sibSplit = o
				}
			}
		}
		sites = append(sites, group...)
	}
	for _, pl := range ast.Pipelines {
		if !mainFile(&pl.Node) {
			continue
		}
		selfRef := ""
		if pl.InParams != nil && len(pl.InParams.List) > 0 {
			selfRef = "self." + pl.InParams.List[0].Id
		}
		for _, call := range pl.Calls {
			mode := syntax.ModeSingleCall
			if call.Mapping != nil {
				mode = call.Mapping.CallMode()
			}
			add(call.Bindings, call.Node.Loc.Line, "call", ast.Callables.Table[call.DecId], mode, selfRef)
		}
		if pl.Ret != nil {
			add(pl.Ret.Bindings, pl.Ret.Node.Loc.Line, "return", nil, syntax.ModeSingleCall, selfRef)
		}
	}
	if ast.Call != nil && mainFile(&ast.Call.Node) {
		add(ast.Call.Bindings, ast.Call.Node.Loc.Line, "top", nil, syntax.ModeSingleCall, "")
	}
	return sites
}

// the expression is not built from null and arrays alone (so it cannot be
// valid for a struct type of a different array depth)
func c07Substantial(e syntax.Exp) bool {
	switch e := e.(type) {
	case *syntax.NullExp:
		return false
	case *syntax.ArrayExp:
		for _, x := range e.Value {
			if c07Substantial(x) {
				return true
			}
		}
		return false
	case *syntax.SplitExp:
		return false
	}
	return true
}

func c07Mutants(p *c07Prog, s *c07Site, lines []string) []c07Mutant {
	var out []c07Mutant
	m := c07BindRe.FindStringSubmatch(lines[s.line-1])
	indent, id, eq := m[1], m[2], m[3]
	extent := map[int]bool{}
	for l := s.first; l <= s.last; l++ {
		extent[l] = true
	}
	here := map[int]bool{s.line: true, s.first: true}
	value := func(kind string, e *c07Exp, t *c17Ty) {
		text := indent + id + eq + e.mro() + ","
		out = append(out, c07Mutant{kind: kind, src: c07ReplaceLine(lines, s.line-1, text), lines: here, marker: strings.TrimSpace(text), lit: e, t: t})
	}
	raw := func(kind, expr string, where map[int]bool) {
		text := indent + id + eq + expr + ","
		out = append(out, c07Mutant{kind: kind, src: c07ReplaceLine(lines, s.line-1, text), lines: where, marker: strings.TrimSpace(text)})
	}
	t := s.t
	if !s.split {
		value("wrong-base", c07WrongScalar(t, false), t)
		value("wrong-base", c07WrongScalar(t, true), t)
		if t.kind != 'b' && t.kind != 'u' {
			if w := c07WrongNested(t); w != nil {
				value("wrong-base-nested", w, t)
			}
		}
		value("depth+1", c07Arr(c07Witness(t)), t)
		if t.kind == 'a' {
			value("depth-1", c07Witness(t.elem), t)
			value("array-vs-map", &c07Exp{kind: 'm', keys: []string{"k"}, elems: []*c07Exp{c07Witness(t.elem)}}, t)
		}
		if t.kind == 'm' {
			value("array-vs-map", c07Arr(c07Witness(t.elem)), t)
		}
		// every element is checked on its own: a wrong element AFTER valid ones (for an int element also a
		// fractional float after an integral one - the same kind of literal)
		if t.kind == 'a' {
			w := c07Witness(t.elem)
			value("later-element-wrong", c07Arr(w, w, c07WrongScalar(t.elem, false)), t)
			value("later-element-wrong", c07Arr(w, c07WrongScalar(t.elem, true), w), t)
			inner := t.elem
			wrapRow := func(e *c07Exp) *c07Exp { return e }
			for inner.kind == 'a' {
				prev := wrapRow
				wi := c07Witness(inner)
				wrapRow = func(e *c07Exp) *c07Exp { return prev(c07Arr(wi, e)) }
				inner = inner.elem
			}
			if inner.kind == 'b' && inner.name == "int" {
				for _, f := range c07Floats {
					if f.text == "1.5" {
						value("later-element-fractional", wrapRow(c07Arr(c07Flo(c07Floats[2]), c07Flo(f))), t) // [3.0, 1.5]
						value("later-element-fractional", wrapRow(c07Arr(c07Int(1), c07Flo(c07Floats[4]), c07Flo(f), c07Int(2))), t)
					}
				}
			}
		}
		// struct literals (also below arrays / maps)
		wrap := func(e *c07Exp) *c07Exp { return e }
		st := t
		for st.kind == 'a' || st.kind == 'm' {
			prev := wrap
			if st.kind == 'a' {
				wrap = func(e *c07Exp) *c07Exp { return prev(c07Arr(e)) }
			} else {
				wrap = func(e *c07Exp) *c07Exp { return prev(&c07Exp{kind: 'm', keys: []string{"k"}, elems: []*c07Exp{e}}) }
			}
			st = st.elem
		}
		if st.kind == 's' {
			w := c07Witness(st)
			miss := &c07Exp{kind: 'S', keys: w.keys[:len(w.keys)-1], elems: w.elems[:len(w.elems)-1]}
			if len(miss.keys) == 0 {
				miss.kind = 'm' // `{}`
			}
			value("struct-missing-field", wrap(miss), t)
			extra := &c07Exp{kind: 'S', keys: append(append([]string{}, w.keys...), "zz_extra"), elems: append(append([]*c07Exp{}, w.elems...), c07Int(7))}
			value("struct-extra-field", wrap(extra), t)
		}
		// a reference of the right type, one array level too deep
		if _, ok := s.b.Exp.(*syntax.RefExp); ok {
			raw("ref-depth+1", "["+strings.TrimSpace(m[5])+"]", here)
		}
		// references to things that do not exist
		if s.where != "top" {
			raw("no-such-call", "ZZ_NOCALL.out", here)
			raw("no-such-input", "self.zz_nosuch", here)
			if ref, ok := s.b.Exp.(*syntax.RefExp); ok && ref.Kind == syntax.KindCall && ref.OutputId != "" && ref.OutputId != "default" {
				raw("no-such-output", ref.Id+".zz_nosuch", here)
				raw("no-such-field", ref.Id+"."+ref.OutputId+".zz_nosuch", here)
			}
			if ref, ok := s.b.Exp.(*syntax.RefExp); ok && ref.Kind == syntax.KindSelf {
				suffix := ""
				if ref.OutputId != "" {
					suffix = "." + ref.OutputId
				}
				raw("no-such-field", "self."+ref.Id+suffix+".zz_nosuch", here)
			}
		}
	}
	// the binding itself
	text := indent + "zz_nosuch" + eq + strings.TrimSpace(m[4]+m[5]) + ","
	out = append(out, c07Mutant{kind: "unknown-parameter", src: c07ReplaceLine(lines, s.line-1, text), lines: extent, marker: strings.TrimSpace(text)})
	out = append(out, c07Mutant{kind: "missing-binding", src: c07ReplaceLine(lines, s.line-1), lines: extent, marker: ""})
	// inconsistent split collections
	if sib := s.sibSplit; sib != nil && !s.split && s.where == "call" {
		e := strings.TrimSpace(m[5])
		parts := make([]string, sib.splitLit+1)
		for i := range parts {
			parts[i] = e
		}
		raw("split-length-mismatch", "split ["+strings.Join(parts, ", ")+"]", extent)
		raw("split-array-vs-map", `split {"zz_k": `+e+`}`, extent)
	}
	if s.split && s.splitLit > 0 && s.sibSplit != nil && s.sibSplit.splitLit == s.splitLit {
		if a, ok := s.b.Exp.(*syntax.SplitExp).Value.(*syntax.ArrayExp); ok && len(a.Value) > 0 {
			inner := strings.TrimSpace(m[5])
			if strings.HasPrefix(inner, "[") && strings.HasSuffix(inner, "]") {
				raw("split-length-mismatch", "split "+inner[:len(inner)-1]+", null]", extent)
			}
		}
	}
	// a split over a reference (length unknown at compile time) followed by two
	// literal splits that disagree with each other
	if s.split && s.where == "call" && len(s.group) >= 3 && s.group[0] == s && (s.mode == syntax.ModeArrayCall || s.mode == syntax.ModeMapCall) {
		if sp, ok := s.b.Exp.(*syntax.SplitExp); ok {
			if _, isRef := sp.Value.(*syntax.RefExp); isRef {
				var plain []*c07Site
				for _, o := range s.group[1:] {
					if !o.split && len(plain) < 2 {
						plain = append(plain, o)
					}
				}
				if len(plain) == 2 {
					for _, swap := range []bool{false, true} {
						ml := append([]string{}, lines...)
						var marker string
						for i, o := range plain {
							om := c07BindRe.FindStringSubmatch(lines[o.line-1])
							e := strings.TrimSpace(om[5])
							n := 2 + i
							if swap {
								n = 3 - i
							}
							var lit string
							if s.mode == syntax.ModeArrayCall {
								lit = "[" + strings.TrimSuffix(strings.Repeat(e+", ", n), ", ") + "]"
							} else {
								var kv []string
								for k := 0; k < n; k++ {
									kv = append(kv, fmt.Sprintf("%q: %s", "zz_k"+fmt.Sprint(k), e))
								}
								lit = "{" + strings.Join(kv, ", ") + "}"
							}
							ml[o.line-1] = om[1] + om[2] + om[3] + "split " + lit + ","
							marker = strings.TrimSpace(ml[o.line-1])
						}
						out = append(out, c07Mutant{kind: "split-mismatch-after-unknown-source", src: strings.Join(ml, "\n"), lines: extent, marker: marker})
					}
				}
			}
		}
	}
	// a reference nested inside a literal bound to an untyped map
	if !s.split && s.selfRef != "" && s.where != "top" {
		wrap := func(e string) string { return e }
		ut := t
		for ut.kind == 'a' {
			prev := wrap
			wrap = func(e string) string { return prev("[" + e + "]") }
			ut = ut.elem
		}
		if ut.kind == 'b' && ut.name == "map" {
			raw("untyped-map-ref-in-array", wrap(`{"k": [1, `+s.selfRef+`]}`), here)
			raw("untyped-map-ref-in-map", wrap(`{"k": {"j": `+s.selfRef+`}}`), here)
			raw("untyped-map-ref-direct", wrap(`{"k": `+s.selfRef+`}`), here)
		}
		if ut.kind == 's' {
			for i, f := range ut.fields {
				if f.t.kind == 'b' && f.t.name == "map" {
					w := c07Witness(ut)
					w.elems[i] = &c07Exp{kind: 'm', keys: []string{"k"}, elems: []*c07Exp{c07Arr(c07Int(1), &c07Exp{kind: 'x', str: s.selfRef})}}
					raw("untyped-map-ref-in-array", wrap(w.mro()), here)
					break
				}
			}
		}
	}
	// the declared type of the stage parameter: same base type, one array level more
	// (inside the map for typed maps) – only a direct reference is certainly not convertible
	if _, isRef := s.b.Exp.(*syntax.RefExp); isRef && s.inParam != nil && s.where == "call" && !s.split {
		dl := s.inParam.Node.Loc.Line
		if dl >= 1 && dl <= len(lines) && s.inParam.Node.Loc.File == s.b.Node.Loc.File {
			re := regexp.MustCompile(`^(\s*in\s+)(\S+)(\s+` + regexp.QuoteMeta(s.inParam.Id) + `\b.*)$`)
			if dm := re.FindStringSubmatch(lines[dl-1]); dm != nil {
				id := s.inParam.Tname
				kind := "declared-param-array-depth"
				if id.MapDim > 0 {
					id.MapDim++
					kind = "declared-param-map-inner-depth"
				} else {
					id.ArrayDim++
				}
				nl := dm[1] + id.String() + dm[3]
				ml := append(append([]string{}, lines[:dl-1]...), nl)
				ml = append(ml, lines[dl:]...)
				out = append(out, c07Mutant{kind: kind, src: strings.Join(ml, "\n"), lines: extent, marker: strings.TrimSpace(nl)})
				if s.inParam.Tname.MapDim > 1 {
					id2 := s.inParam.Tname
					id2.MapDim--
					nl2 := dm[1] + id2.String() + dm[3]
					ml2 := append(append([]string{}, lines[:dl-1]...), nl2)
					ml2 = append(ml2, lines[dl:]...)
					out = append(out, c07Mutant{kind: kind, src: strings.Join(ml2, "\n"), lines: extent, marker: strings.TrimSpace(nl2)})
				}
			}
		}
	}
	// the declared type of the stage parameter
	if s.inParam != nil && s.where == "call" && !s.split && c07Substantial(s.b.Exp) {
		dl := s.inParam.Node.Loc.Line
		if dl >= 1 && dl <= len(lines) && s.inParam.Node.Loc.File == s.b.Node.Loc.File {
			re := regexp.MustCompile(`^(\s*in\s+)(\S+)(\s+` + regexp.QuoteMeta(s.inParam.Id) + `\b.*)$`)
			if dm := re.FindStringSubmatch(lines[dl-1]); dm != nil {
				dims := strings.Repeat("[]", int(s.inParam.Tname.ArrayDim)+1)
				if s.inParam.Tname.MapDim > 0 {
					dims = "[][][]"
				}
				nl := dm[1] + "ZZ_MUT" + dims + dm[3]
				decl := "struct ZZ_MUT(\n    int zz_f,\n)\n"
				ml := append(append([]string{}, lines[:dl-1]...), nl)
				ml = append(ml, lines[dl:]...)
				src := decl + strings.Join(ml, "\n")
				ok := map[int]bool{}
				for l := range extent {
					ok[l+3] = true
				}
				out = append(out, c07Mutant{kind: "declared-param-type", src: src, lines: ok, marker: strings.TrimSpace(nl)})
			}
		}
	}
	out = append(out, c07StatementMutants(s, lines, m, extent)...)
	return out
}

// c07StatementMutants: single-point mutations of the statement around the
// binding (wildcards, modifiers, retain, duplicates), each illegal by
// construction, with the error class the compiler must name.
func c07StatementMutants(s *c07Site, lines []string, m []string, extent map[int]bool) []c07Mutant {
	var out []c07Mutant
	indent, expr := m[1], strings.TrimSpace(m[5])
	closeIdx := s.last - 1 // 0-based index of the line that closes the binding list
	closed := closeIdx < len(lines) && strings.TrimSpace(lines[closeIdx]) == ")"
	wide := func(extra int) map[int]bool {
		w := map[int]bool{}
		for l := range extent {
			w[l] = true
		}
		for i := 1; i <= extra; i++ {
			w[s.last+i] = true
		}
		return w
	}
	insertAt := func(idx int, repl ...string) string {
		o := append(append(append([]string{}, lines[:idx]...), repl...), lines[idx:]...)
		return strings.Join(o, "\n")
	}
	replaceAt := func(ml []string, idx int, repl ...string) []string {
		return append(append(append([]string{}, ml[:idx]...), repl...), ml[idx+1:]...)
	}
	// the same parameter bound twice
	out = append(out, c07Mutant{kind: "duplicate-binding", src: insertAt(s.line, lines[s.line-1]), lines: wide(1),
		marker: strings.TrimSpace(lines[s.line-1]), class: []string{"DuplicateBinding"}})
	ref, isRef := s.b.Exp.(*syntax.RefExp)
	base := s.t
	for base.kind == 'a' || base.kind == 'm' {
		base = base.elem
	}
	if isRef && !s.split && s.where != "top" && closeIdx < len(lines) && strings.HasPrefix(strings.TrimSpace(lines[closeIdx]), ")") {
		// `x = self.x` and a wildcard over the inputs: x is bound twice
		if ref.Kind == syntax.KindSelf && ref.Id == s.b.Id && ref.OutputId == "" {
			text := indent + "* = self,"
			out = append(out, c07Mutant{kind: "wildcard-duplicates-binding", src: insertAt(closeIdx, text), lines: wide(1),
				marker: "* = self,", class: []string{"DuplicateBinding"}})
		}
		// a wildcard over something that is not a struct
		if (base.kind == 'b' && base.name != "map") || base.kind == 'u' {
			text := indent + "* = " + expr + ","
			out = append(out, c07Mutant{kind: "wildcard-not-struct", src: insertAt(closeIdx, text), lines: wide(1),
				marker: strings.TrimSpace(text), class: []string{"wildcard binding"}})
		}
	}
	callRe := regexp.MustCompile(`^(\s*(?:map\s+)?call\s+)(.*)$`)
	var cm []string
	if s.where == "call" && s.first >= 1 && s.first <= len(lines) {
		cm = callRe.FindStringSubmatch(lines[s.first-1])
	}
	plainCall := cm != nil && !strings.Contains(cm[2], "local ") && !strings.Contains(cm[2], "preflight ") && !strings.Contains(cm[2], "volatile ")
	closeIndent := ""
	if closed {
		closeIndent = lines[closeIdx][:len(lines[closeIdx])-len(strings.TrimLeft(lines[closeIdx], " \t"))]
	}
	if s.where == "call" && plainCall {
		// `disabled` bound to a reference that is not a bool
		if isRef && !s.split && closed && !(s.t.kind == 'b' && s.t.name == "bool") {
			ml := replaceAt(lines, closeIdx, closeIndent+") using (", indent+"disabled = "+expr+",", closeIndent+")")
			out = append(out, c07Mutant{kind: "disabled-not-bool", src: strings.Join(ml, "\n"), lines: wide(3),
				marker: "disabled = " + expr + ",", class: []string{"TypeMismatchError"}})
		}
		// a preflight call bound to the output of another call
		if isRef && !s.split && ref.Kind == syntax.KindCall {
			ml := replaceAt(lines, s.first-1, cm[1]+"preflight "+cm[2])
			out = append(out, c07Mutant{kind: "preflight-bound-to-call", src: strings.Join(ml, "\n"), lines: extent,
				marker: strings.TrimSpace(cm[1] + "preflight " + cm[2]), class: []string{"PreflightBindingError"}})
		}
		if len(s.group) > 0 && s.group[0] == s {
			// stage-only modifiers on a pipeline
			if s.isPipe {
				for _, kw := range []string{"local", "volatile", "preflight"} {
					ml := replaceAt(lines, s.first-1, cm[1]+kw+" "+cm[2])
					out = append(out, c07Mutant{kind: "modifier-on-pipeline", src: strings.Join(ml, "\n"), lines: extent,
						marker: strings.TrimSpace(cm[1] + kw + " " + cm[2]), class: []string{"UnsupportedTagError"}})
				}
			}
			// a modifier given as keyword and in `using`
			if s.stage != nil && closed {
				for _, kw := range []string{"local", "volatile"} {
					ml := replaceAt(lines, closeIdx, closeIndent+") using (", indent+kw+" = true,", closeIndent+")")
					ml = replaceAt(ml, s.first-1, cm[1]+kw+" "+cm[2])
					out = append(out, c07Mutant{kind: "conflicting-modifiers", src: strings.Join(ml, "\n"), lines: wide(3),
						marker: kw + " = true,", class: []string{"ConflictingModifiers"}})
				}
				ml := replaceAt(lines, closeIdx, closeIndent+") using (", indent+"volatile = true,", indent+"volatile = false,", closeIndent+")")
				out = append(out, c07Mutant{kind: "modifier-twice", src: strings.Join(ml, "\n"), lines: wide(4),
					marker: "volatile = false,", class: []string{"DuplicateBinding"}})
			}
		}
	}
	// retain of something that is not of file type
	if s.where == "return" && isRef && !s.split && closed && base.kind == 'b' && (base.name == "int" || base.name == "float" || base.name == "bool") {
		next := closeIdx + 1
		for next < len(lines) && strings.TrimSpace(lines[next]) == "" {
			next++
		}
		if next < len(lines) && strings.TrimSpace(lines[next]) == "}" {
			src := insertAt(closeIdx+1, closeIndent+"retain (", indent+expr+",", closeIndent+")")
			out = append(out, c07Mutant{kind: "retain-not-file", src: src, lines: map[int]bool{s.last + 1: true, s.last + 2: true, s.last + 3: true},
				marker: strings.TrimSpace(indent + expr + ","), class: []string{"RetainParamError"}})
		}
	}
	return out
}

func c07MutationPrograms(c *Ctx) []*c07Prog {
	var progs []*c07Prog
	// repo *.mro that compile on their own
	var files []string
	filepath.Walk(c.RepoDir, func(path string, info os.FileInfo, err error) error {
		if err == nil && !info.IsDir() && strings.HasSuffix(path, ".mro") {
			files = append(files, path)
		}
		return nil
	})
	sort.Strings(files)
	for _, f := range files {
		b, err := os.ReadFile(f)
		if err != nil {
			continue
		}
		p := &c07Prog{name: "repo:" + strings.TrimPrefix(f, c.RepoDir+"/"), src: string(b), fname: f,
			paths: []string{filepath.Dir(f)}, origin: "repo"}
		if _, err := p.compile(p.src); err == nil {
			progs = append(progs, p)
		}
	}
	c.Res.Histogram["mut_programs_repo"] = len(progs)
	// corpus
	for _, d := range []string{filepath.Join(filepath.Dir(c.Corpus), "tiera"), c.Corpus} {
		fs, _ := filepath.Glob(filepath.Join(d, "*.mro"))
		sort.Strings(fs)
		for _, f := range fs {
			b, err := os.ReadFile(f)
			if err != nil {
				continue
			}
			p := &c07Prog{name: "corpus:" + filepath.Base(f), src: string(b), fname: "pipeline.mro", graph: true, origin: "corpus"}
			if _, err := p.compile(p.src); err == nil {
				progs = append(progs, p)
			}
		}
	}
	n := 40
	if c.Thorough {
		n = 400
	}
	for i, tries := 0, 0; i < n && tries < 6*n; tries++ {
		src, _ := GenProgram(c.Rng, GenOpts{Files: true})
		p := &c07Prog{name: fmt.Sprintf("gen%d", tries), src: src, fname: "pipeline.mro", graph: true, origin: "gen"}
		if _, err := p.compile(src); err != nil {
			continue
		}
		progs = append(progs, p)
		i++
		// the same program with the calls of every pipeline written in reverse
		// order: the compiler sorts calls topologically, so acceptance (and the
		// rejection of every mutant) must not depend on the textual order
		if rsrc, changed := c07ReverseCalls(src); changed {
			c.Res.hist("mut_programs_reversed_call_order")
			rp := &c07Prog{name: p.name + ":reversed-calls", src: rsrc, fname: "pipeline.mro", graph: true, origin: "gen"}
			if _, err := rp.compile(rsrc); err != nil {
				c.Res.violate(Violation{Kind: "property", Key: "C07:order-dependent-acceptance",
					What:  "an accepted program is rejected when the calls of its pipelines are written in reverse order: " + firstLine(err.Error()),
					Input: map[string]interface{}{"program": rsrc, "original": src, "error": err.Error()}})
			} else {
				progs = append(progs, rp)
			}
		}
	}
	return progs
}

// c07ReverseCalls reverses the blank-line separated call blocks of every
// pipeline body (GenProgram layout: `{`, blocks starting with `    call` /
// `    map call`, then `    return (`).
func c07ReverseCalls(src string) (string, bool) {
	lines := strings.Split(src, "\n")
	var out []string
	changed := false
	for i := 0; i < len(lines); i++ {
		out = append(out, lines[i])
		if lines[i] != "{" {
			continue
		}
		j := i + 1
		for j < len(lines) && !strings.HasPrefix(lines[j], "    return (") && lines[j] != "}" {
			j++
		}
		if j >= len(lines) || lines[j] == "}" {
			continue
		}
		var blocks [][]string
		var cur []string
		ok := true
		for _, l := range lines[i+1 : j] {
			if l == "" {
				if len(cur) > 0 {
					blocks = append(blocks, cur)
					cur = nil
				}
				continue
			}
			if len(cur) == 0 && !strings.HasPrefix(l, "    call ") && !strings.HasPrefix(l, "    map call ") {
				ok = false
			}
			cur = append(cur, l)
		}
		if len(cur) > 0 {
			blocks = append(blocks, cur)
		}
		if !ok || len(blocks) < 2 {
			continue
		}
		for k := len(blocks) - 1; k >= 0; k-- {
			out = append(out, blocks[k]...)
			out = append(out, "")
		}
		changed = true
		i = j - 1
	}
	return strings.Join(out, "\n"), changed
}

func c07MutationOracle(c *Ctx) {
	r := c.Res
	progs := c07MutationPrograms(c)
	type pending struct {
		p *c07Prog
		m c07Mutant
	}
	var checks []pending
	for _, p := range progs {
		ast, err := p.compile(p.src)
		if err != nil {
			continue
		}
		lines := strings.Split(p.src, "\n")
		sites := c07Sites(p, ast, lines)
		r.Histogram["mut_sites"] += len(sites)
		locRe := regexp.MustCompile(regexp.QuoteMeta(filepath.Base(p.fname)) + `:(\d+)`)
		for _, s := range sites {
			for _, m := range c07Mutants(p, s, lines) {
				r.hist("mut_" + m.kind)
				r.count(m.src, true)
				_, err := p.compile(m.src)
				if m.lit != nil {
					checks = append(checks, pending{p, m})
				}
				if err != nil && strings.HasPrefix(err.Error(), "PANIC") {
					r.violate(Violation{Kind: "property", Key: "C07:compiler-panic:" + m.kind, What: "the compiler panics on a mutated program: " + firstLine(err.Error()),
						Input: map[string]interface{}{"program": m.src, "origin": p.name, "mutation": m.kind, "mutated_binding": m.marker}})
					continue
				}
				if err == nil {
					mm := m
					small := shrinkLines(m.src, func(cand string) bool {
						if mm.marker != "" && !strings.Contains(cand, mm.marker) {
							return false
						}
						if mm.marker == "" {
							return false // deletions are not shrunk further
						}
						_, e := p.compile(cand)
						return e == nil
					}, 300)
					r.violate(Violation{Kind: "property", Key: "C07:mutation-accepted:" + m.kind,
						What:  "a program with a binding that is ill-typed by construction (" + m.kind + ") is accepted by the compiler",
						Input: map[string]interface{}{"program": small, "origin": p.name, "mutation": m.kind, "mutated_binding": m.marker}})
					continue
				}
				r.hist("mut_rejected")
				if strings.Contains(err.Error(), "UnusedInputError") {
					// the mutation removed the only use of a pipeline input: that (correct)
					// error is reported first and masks the type error
					r.hist("mut_masked_by_unused_input")
					continue
				}
				if len(m.class) > 0 {
					found := false
					for _, kw := range m.class {
						if strings.Contains(err.Error(), kw) {
							found = true
						}
					}
					if !found {
						r.violate(Violation{Kind: "property", Key: "C07:error-class:" + m.kind,
							What:   "the compile error for a mutation that is illegal by construction (" + m.kind + ") does not name the expected error class",
							Input:  map[string]interface{}{"program": m.src, "origin": p.name, "mutation": m.kind, "mutated_binding": m.marker, "error": err.Error()},
							Expect: strings.Join(m.class, " | "), Impl: firstLine(err.Error())})
					}
				}
				hit, any := false, false
				var got []int
				for _, lm := range locRe.FindAllStringSubmatch(err.Error(), -1) {
					var n int
					fmt.Sscan(lm[1], &n)
					got = append(got, n)
					any = true
					if m.lines[n] {
						hit = true
					}
				}
				if !hit {
					key := "C07:location:" + m.kind
					if !any {
						key = "C07:no-location:" + m.kind
					}
					r.violate(Violation{Kind: "property", Key: key,
						What:   "the compile error for an ill-typed binding (" + m.kind + ") is not located at the binding or its call",
						Input:  map[string]interface{}{"program": m.src, "origin": p.name, "mutation": m.kind, "mutated_binding": m.marker, "error": err.Error()},
						Expect: fmt.Sprint(c07SortedLines(m.lines)), Impl: fmt.Sprint(got)})
				}
			}
		}
	}
	// the model must agree that the replacement literals are ill-typed
	reqs := make([][]string, len(checks))
	for i, ch := range checks {
		reqs[i] = []string{"C07.exp", "0 0", ch.m.t.enc(), ch.m.lit.enc()}
	}
	for i, rep := range c.Drv.AskBatch(reqs) {
		if strings.HasPrefix(rep, "true") || rep == "bad-op" {
			ch := checks[i]
			r.violate(Violation{Kind: "correspondence", Key: "C07:corr:mutation-not-ill-typed:" + ch.m.kind,
				What:  "the model accepts a replacement literal the harness constructed as ill-typed (reply " + rep + ")",
				Input: map[string]interface{}{"type": ch.m.t.mro(), "literal": ch.m.lit.mro()}, Broken: "mutation catalogue vs validExp"})
		} else {
			r.hist("mut_model_confirms_ill_typed")
		}
	}
}

// ---- corpus: corpus/C07/reject/*.mro must be rejected (first line `# expect-line: N`),
// corpus/C07/*.mro must be accepted (they are also run by the runtime half) ----

func c07Corpus(c *Ctx) {
	r := c.Res
	files, _ := filepath.Glob(filepath.Join(c.Corpus, "reject", "*.mro"))
	sort.Strings(files)
	re := regexp.MustCompile(`(?m)^#\s*expect-line:\s*([0-9, ]+)`)
	for _, f := range files {
		b, err := os.ReadFile(f)
		if err != nil {
			continue
		}
		p := &c07Prog{name: "corpus:reject/" + filepath.Base(f), src: string(b), fname: "pipeline.mro", graph: true}
		_, cerr := p.compile(p.src)
		r.hist("corpus_reject")
		r.count(p.src, true)
		if cerr == nil {
			r.violate(Violation{Kind: "property", Key: "C07:corpus-accepted:" + filepath.Base(f), What: "an ill-typed regression program is accepted",
				Input: map[string]interface{}{"program": p.src, "file": f}})
			continue
		}
		if m := re.FindStringSubmatch(p.src); m != nil {
			want := map[int]bool{}
			for _, x := range strings.FieldsFunc(m[1], func(r rune) bool { return r == ',' || r == ' ' }) {
				var n int
				fmt.Sscan(x, &n)
				want[n] = true
			}
			got := c07ErrLines(cerr)
			hit := false
			for l := range got {
				if want[l] {
					hit = true
				}
			}
			if !hit {
				r.violate(Violation{Kind: "property", Key: "C07:location:corpus:" + filepath.Base(f), What: "error of a regression program is not located at the offending binding",
					Input: map[string]interface{}{"program": p.src, "error": cerr.Error()}, Expect: m[1], Impl: fmt.Sprint(c07SortedLines(got))})
			}
		}
	}
	acc, _ := filepath.Glob(filepath.Join(c.Corpus, "*.mro"))
	for _, f := range acc {
		b, err := os.ReadFile(f)
		if err != nil {
			continue
		}
		p := &c07Prog{name: "corpus:" + filepath.Base(f), src: string(b), fname: "pipeline.mro", graph: true}
		r.hist("corpus_accept")
		if _, cerr := p.compile(p.src); cerr != nil {
			r.violate(Violation{Kind: "property", Key: "C07:corpus-rejected:" + filepath.Base(f), What: "a well-typed regression program is rejected: " + firstLine(cerr.Error()),
				Input: map[string]interface{}{"program": p.src, "file": f}})
		}
	}
}

// ---- negative witnesses of validExp_sound_partial, replayed on the real code ----

type c07NegWitness struct {
	key, theorem, src, param, value string
	env, ty, exp                    string // model side
}

func c07Witnesses(c *Ctx) {
	r := c.Res
	ws := []c07NegWitness{
		{key: "C07:F9:map-file-from-map-string", theorem: "f9_binding_witness",
			src:   "stage ST(\n    in  map<file> x,\n    out int y,\n    src comp \"fake\",\n)\n\npipeline TOP(\n    in  map<string> m,\n    out int y,\n)\n{\n    call ST(\n        x = self.m,\n    )\n    return (\n        y = ST.y,\n    )\n}\n\ncall TOP(\n    m = {\"a/b\": \"x\"},\n)\n",
			param: "x", value: `{"a/b":"x"}`,
			env: "1 " + hx("m") + " M string 0", ty: "M file", exp: "self " + hx("m") + " ."},
		{key: "C07:F10:map-array-from-struct-array", theorem: "f10_binding_witness",
			src:   "struct A(\n    int a,\n)\n\nstage ST(\n    in  map<int>[] x,\n    out int y,\n    src comp \"fake\",\n)\n\npipeline TOP(\n    in  A[] s,\n    out int y,\n)\n{\n    call ST(\n        x = self.s,\n    )\n    return (\n        y = ST.y,\n    )\n}\n",
			param: "x", value: `[{"a":1,"x":"s"}]`,
			env: "1 " + hx("s") + " A S " + hx("A") + " 1 " + hx("a") + " int 0", ty: "A M int", exp: "self " + hx("s") + " ."},
	}
	for _, w := range ws {
		r.hist("witness_replayed")
		rep := c.Drv.Ask("C07.exp", w.env, w.ty, w.exp)
		if !strings.HasPrefix(rep, "true false") {
			r.violate(Violation{Kind: "correspondence", Key: "C07:corr:witness:" + w.theorem, What: "the model no longer accepts the witness binding with holeFree = false: " + rep,
				Input: map[string]interface{}{"program": w.src}, Broken: w.theorem})
			continue
		}
		ast, err := c07RealCompile(w.src)
		if err != nil {
			r.note("witness %s: the compiler now rejects the binding (%s)", w.theorem, firstLine(err.Error()))
			continue
		}
		var b *syntax.BindStm
		for _, p := range ast.Pipelines {
			for _, call := range p.Calls {
				if call.Id == "ST" {
					b = call.Bindings.Table[w.param]
				}
			}
		}
		if b == nil {
			continue
		}
		dst := ast.TypeTable.Get(b.Tname)
		fm, _, _ := dst.FilterJson([]byte(w.value), &ast.TypeTable)
		var alarms strings.Builder
		verr := dst.IsValidJson(fm, &alarms, &ast.TypeTable)
		if verr != nil || alarms.Len() > 0 {
			r.violate(Violation{Kind: "property", Key: w.key,
				What:  "an accepted binding delivers a value that does not conform to the parameter type although the producer's value conforms to its declared type: " + firstLine(fmt.Sprint(verr)),
				Input: map[string]interface{}{"program": w.src, "producer_value": w.value, "delivered": string(fm), "error": fmt.Sprint(verr, alarms.String())}, Broken: "validExp_sound (full statement)"})
		} else {
			r.note("witness %s no longer fails on the real code", w.theorem)
		}
	}
}
